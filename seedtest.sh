#!/bin/bash
# seedtest.sh <seed-id> <worktree> <demo-rel-path> <check ids...>
# Confirms a seeded change (compiles, demo fails with / passes without it), stores it under /verif/seeded/<seed-id>/,
# then applies it to /repo, runs the given checks and undoes it.
set -u
export GOFLAGS=-mod=mod GOPROXY=off GOSUMDB=off GOTOOLCHAIN=local
id=$1; wt=$2; demo=$3; shift 3
# SEED_REPO / SEED_VERIF: where the patch is applied and the checks are run (default /repo and /verif; a scratch pair
# - a clone of /repo and a copy of /verif whose harness/go.mod replace points at it - keeps /repo untouched while
# long runs are using it)
R=${SEED_REPO:-/repo}; V=${SEED_VERIF:-/verif}
d=/verif/seeded/$id; mkdir -p $d
( cd $wt && git diff -- . ':(exclude)*seeded_demo_test.go' > $d/patch.diff )
cp $wt/$demo $d/seeded_demo_test.go
pkg=$(dirname $demo)
echo "== patch: $(grep -c '^[-+][^-+]' $d/patch.diff) changed lines in $(grep -c '^diff' $d/patch.diff) file(s)"
( cd $wt && go build ./... && go build -tags verif ./... ) || { echo "BUILD FAILS"; exit 3; }
with=$(cd $wt && go test -count=1 -run TestSeededDemo ./$pkg/ 2>&1 | tail -1)
( cd $wt && git apply -R $d/patch.diff )
without=$(cd $wt && go test -count=1 -run TestSeededDemo ./$pkg/ 2>&1 | tail -1)
( cd $wt && git apply $d/patch.diff )
echo "== demo with change:    $with"
echo "== demo without change: $without"
for try in 1 2 3; do
  suite=$(cd $wt && go test -count=1 ./$pkg/ 2>&1 | grep -E "^(--- FAIL|panic)" | grep -v TestSeededDemo | tr '\n' ' ')
  echo "== package suite with change, run $try (failures other than the demo): ${suite:-none}"
  [ -z "$suite" ] && break
done
git -C $R apply $d/patch.diff || { echo "PATCH DOES NOT APPLY TO $R"; exit 4; }
for c in "$@"; do
  out=$(cd $V && ./check $c 2>&1 | grep -E "^(VIOLATION|OK|INCONCLUSIVE)" | head -3 | tr '\n' ' ')
  echo "== check $c: $out"
done
git -C $R checkout -- .
git -C $R status --short
