#!/bin/bash
# runs every claimed check's quick tier once (optionally with VERIF_SEED) and prints one line per check
for id in $(jq -r '.checks[].property_id' /verif/MANIFEST.json); do
  out=$(cd /verif && ./check $id --tier ${1:-quick} 2>&1 | grep -E "^(OK|VIOLATION|INCONCLUSIVE)" | head -2 | tr '\n' ' ')
  echo "$id: $out"
done
