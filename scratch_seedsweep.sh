#!/bin/bash
# scratch_seedsweep.sh [seed ids...]: like seedsweep.sh, but in a scratch clone of /repo and a scratch copy of /verif
# (/tmp/seedt), so that /repo stays untouched. Checks run: the seed's own property, or $CHECKS if set.
S=${SEEDT:-/tmp/seedt}
mkdir -p $S
if [ ! -d $S/repo/.git ]; then git clone -q /repo $S/repo; fi
git -C $S/repo fetch -q /repo HEAD && git -C $S/repo checkout -q --detach FETCH_HEAD && git -C $S/repo checkout -q -- .
rsync -a --delete --exclude .git --exclude .build --exclude 'replays/*/found' --exclude evidence /verif/ $S/verif/
mkdir -p $S/verif/evidence
sed -i "s|=> /repo|=> $S/repo|" $S/verif/harness/go.mod
ids=${@:-$(ls /verif/seeded)}
for id in $ids; do
  p=/verif/seeded/$id/patch.diff
  prop=$(jq -r .property /verif/seeded/$id/meta.json)
  if ! git -C $S/repo apply --check $p 2>/dev/null; then echo "$id: patch no longer applies to the current tree"; continue; fi
  git -C $S/repo apply $p
  for c in ${CHECKS:-$prop}; do
    out=$(cd $S/verif && ./check $c 2>&1 | grep -E "^(OK|VIOLATION|INCONCLUSIVE)" | head -1 | cut -c1-120)
    echo "$id ($c): $out"
  done
  git -C $S/repo checkout -q -- .
done
