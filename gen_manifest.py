#!/usr/bin/env python3
"""Regenerates MANIFEST.json from checks.json (claimed checks) and not_applicable.json (reasons)."""
import json, os
V = os.path.dirname(os.path.abspath(__file__))
conf = json.load(open(os.path.join(V, "checks.json")))
cd = os.path.join(V, "checks.d")
for f in sorted(os.listdir(cd)) if os.path.isdir(cd) else []:
    if f.endswith(".json"):
        for k, v in json.load(open(os.path.join(cd, f))).items():
            if v.get("ready"):
                conf["checks"][k] = v
props = [json.loads(l) for l in open(os.path.join(V, "properties.jsonl"))]
na = json.load(open(os.path.join(V, "not_applicable.json"))) if os.path.exists(os.path.join(V, "not_applicable.json")) else {}
hooks_commits = conf.get("hook_commits", [])
GOENV = "GOFLAGS=-mod=mod GOPROXY=off GOSUMDB=off GOTOOLCHAIN=local"
m = {
 "version": 1,
 "setup_cmd": "PLACEHOLDER",
 "hooks": {
  "guard": "verif",
  "enable": "go build tag: every check builds /repo (through the harness module's replace directive) with `go test -tags verif`; verif_hooks_on.go is compiled only with the tag, verif_hooks_off.go (empty inline stubs) without it",
  "baseline_off_cmd": "cd /repo && GOFLAGS=-mod=mod go test -json -vet=off -count=1 -timeout 25m ./...",
  "source_commits": hooks_commits,
  "add_only": True,
 },
 "engines": [
  {"name": "props", "path": "/verif/harness/props", "serves_properties": sorted(conf["checks"].keys()),
   "kind_free_text": "Go test package: one rapid (pgregory.net/rapid v1.3.0) property / bounded enumeration / fault sweep per property id, run by /verif/check; oracles are the independent reference codec (refmqtt), reference topic matcher (reftopic) and session model"},
 ],
 "checks": [],
 "notes": "Driver: ./check <ID> --tier quick|thorough [--replay FILE]; exit 2 = inconclusive (never a verdict). known_findings.json lists open findings (signature-matched, search continues past them) and 'fixed:' records; replays/<ID>/regress/ holds saved failing inputs that every run replays first.",
 "not_applicable": [],
}
for p in props:
    pid = p["id"]
    if pid in conf["checks"]:
        c = conf["checks"][pid]
        e = {
         "property_id": pid,
         "quick_cmd": f"./check {pid} --tier quick",
         "thorough_cmd": f"./check {pid} --tier thorough",
         "evidence_file": f"/verif/evidence/{pid}.json",
         "replay_cmd_template": f"./check {pid} --replay {{path}}",
         "engine": "props",
         "level_claimed": {"category": c.get("level", "exploration"), "text": c["text"], "design_ref": c.get("design_ref", f"DESIGN.md §3 {pid}")},
         "level_note": c["note"],
         "technique": c["technique"],
        }
        m["checks"].append(e)
    else:
        m["not_applicable"].append({"property_id": pid, "reason": na.get(pid, "check not built yet in this session (planned: see DESIGN.md §3 " + pid + "); not claimed until its check exists and is silent on the unchanged tree")})
# setup: pre-build every test binary the claimed checks use (the driver rebuilds from /repo's tree on every run anyway;
# this only warms the Go build cache so that the first check does not pay for it)
pkgs = {}
for pid, c in conf["checks"].items():
    for tier in ("quick", "thorough"):
        tc = dict(c.get("all", {})); tc.update(c.get(tier, {}))
        pkgs.setdefault(tc.get("pkg", "props"), set()).add(bool(tc.get("race", False)))
cmds = ["mkdir -p /verif/.build", "cd /verif/harness"]
for pkg in sorted(pkgs):
    for race in sorted(pkgs[pkg]):
        out = f"/verif/.build/{pkg}{'.race' if race else ''}.test"
        cmds.append(f"{GOENV} go test -c {'-race ' if race else ''}-tags verif -o {out} ./{pkg}/")
m["setup_cmd"] = " && ".join(cmds)
m["engines"] = []
for pkg in sorted(pkgs):
    ids = sorted(pid for pid, c in conf["checks"].items() if (dict(c.get("all", {}), **c.get("quick", {}))).get("pkg", "props") == pkg)
    m["engines"].append({"name": pkg, "path": f"/verif/harness/{pkg}", "serves_properties": ids,
        "kind_free_text": "Go test package: one rapid (pgregory.net/rapid v1.3.0) property / bounded enumeration / fault or schedule sweep per property id, run by /verif/check; oracles are the independent reference codec (refmqtt), reference topic matcher (reftopic), session model (hist) or a differential / invariant stated in the check"})
for e in m["checks"]:
    c = conf["checks"][e["property_id"]]
    e["engine"] = (dict(c.get("all", {}), **c.get("quick", {}))).get("pkg", "props")
json.dump(m, open(os.path.join(V, "MANIFEST.json"), "w"), indent=1)
print("claimed", len(m["checks"]), "not_applicable", len(m["not_applicable"]))
