#!/usr/bin/env python3
"""mkmeta.py <seed-id> <property> <needs> <caught_by> <results-json> [note]"""
import json,sys
sid,prop,needs,caught,res=sys.argv[1:6]
note=sys.argv[6] if len(sys.argv)>6 else ""
m={"seed_id":sid,"property":prop,"needs_to_manifest":needs,
 "source":"independent sub-agent given only the property text and a scratch worktree of /repo",
 "confirmed":"seedtest.sh: builds with and without -tags verif; seeded_demo_test.go fails with the patch and passes without it; the package's own tests pass with the patch (known flaky tests aside)",
 "ran":"git -C /repo apply patch.diff; ./check <ID> --tier quick for each listed check; git -C /repo checkout -- .",
 "results_quick_tier":json.loads(res),"caught_by":caught,"note":note}
json.dump(m,open(f"/verif/seeded/{sid}/meta.json","w"),indent=1)
