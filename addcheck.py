#!/usr/bin/env python3
"""addcheck.py ID quick_checks thorough_checks technique text note [level]  -> adds/updates an entry in checks.json"""
import json, sys
pid, q, th, tech, text, note = sys.argv[1:7]
level = sys.argv[7] if len(sys.argv) > 7 else "exploration"
c = json.load(open('/verif/checks.json'))
e = c["checks"].get(pid, {})
e.update({"level": level, "technique": tech, "quick": {"checks": int(q), "timeout": 600}, "thorough": {"checks": int(th), "shards": 16, "timeout": 3000}, "text": text, "note": note})
c["checks"][pid] = e
json.dump(c, open('/verif/checks.json', 'w'), indent=1, ensure_ascii=False)
