#!/bin/bash
# scratch_seedtest.sh <seed-id> <worktree> <demo-rel-path> <check ids...>
# Like seedtest.sh, but applies the change to a scratch clone of /repo and runs the checks from a scratch copy of
# /verif (harness replace -> the clone), so that /repo stays untouched while long runs are using it.
S=${SEEDT:-/tmp/seedt}
mkdir -p $S
if [ ! -d $S/repo/.git ]; then git clone -q /repo $S/repo; fi
git -C $S/repo fetch -q /repo HEAD && git -C $S/repo checkout -q --detach FETCH_HEAD && git -C $S/repo checkout -q -- .
rsync -a --delete --exclude .git --exclude .build --exclude 'replays/*/found' --exclude evidence /verif/ $S/verif/
mkdir -p $S/verif/evidence
sed -i "s|=> /repo|=> $S/repo|" $S/verif/harness/go.mod
SEED_REPO=$S/repo SEED_VERIF=$S/verif /verif/seedtest.sh "$@"
