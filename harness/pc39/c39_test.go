// Package pc39 holds the check of property C39: the WebSocket listener (listeners/websocket.go) is a byte-transparent
// transport. Two identically configured real brokers are started once per test process, one behind listeners.NewTCP
// and one behind listeners.NewWebsocket, both on loopback; every generated case runs the same MQTT session against
// both and compares what comes back.
package pc39

import (
	"bytes"
	"encoding/json"
	"fmt"
	"io"
	"log/slog"
	"net"
	"sort"
	"strings"
	"sync"
	"sync/atomic"
	"testing"
	"time"

	"github.com/gorilla/websocket"
	mqtt "github.com/mochi-mqtt/server/v2"
	"github.com/mochi-mqtt/server/v2/hooks/auth"
	"github.com/mochi-mqtt/server/v2/listeners"
	"pgregory.net/rapid"
	"verif/harness/evid"
	"verif/harness/refmqtt"
)

// ---- the case (pure data) ---------------------------------------------------------------------------------------

type c39Pub struct {
	QoS    byte `json:"qos"`
	Size   int  `json:"size"`           // payload size 0..5000, sometimes 16-70 KB
	Seed   byte `json:"seed"`           // payload content seed (position dependent content)
	Suffix int  `json:"suffix"`         // topic c39/<id>/t<suffix>; an exact subscription only matches suffix 0
	Prop   bool `json:"prop,omitempty"` // v5: attach a user property and a content type
}

// c39Seg says how one request group is cut into WebSocket messages: message sizes are taken from Sizes cyclically;
// Hdr >= 1 additionally cuts after the first byte of every packet's fixed header, Hdr >= 2 also inside a multi-byte
// remaining length.
type c39Seg struct {
	Sizes []int `json:"sizes"`
	Hdr   int   `json:"hdr,omitempty"`
}

// c39Text replaces message Msg (modulo the number of messages) of request group Group (modulo the number of groups)
// by a TEXT message carrying the same bytes.
//
// Align > 0 shapes the binary message directly before the text message so that its last byte exactly fills the buffer
// the broker reads it into (the transport then holds an exhausted message when the text message arrives):
// 1 = it starts at the first byte of packet Pkt (the broker's buffered reader is empty there and asks for its whole
// buffer size) and is exactly one read buffer long; 2 = it is exactly the body of packet Pkt, a packet whose body is at
// least one read buffer long (read directly into the packet buffer); 3 = it covers stream offsets (k-1)*B .. k*B of the
// group. If the group has no place for the requested shape the next one is tried, then none. Msg is ignored then.
// Empties (0-3) empty binary messages are sent directly before the text message.
type c39Text struct {
	Group   int `json:"group"`
	Msg     int `json:"msg"`
	Align   int `json:"align,omitempty"`
	Pkt     int `json:"pkt,omitempty"`
	Empties int `json:"empties,omitempty"`
}

// c39Empty inserts Run empty binary messages before message Msg of group Group (outside the statement's
// quantifier "size 1..N": generated, outcome recorded, never asserted).
type c39Empty struct {
	Group int `json:"group"`
	Msg   int `json:"msg"`
	Run   int `json:"run"`
}

type c39Case struct {
	Ver    byte      `json:"ver"`    // 3, 4 or 5
	Buf    int       `json:"buf"`    // index of the broker pair (client read buffer size of both brokers)
	SubQoS byte      `json:"subqos"` // maximum QoS of the session's own subscription
	Wild   bool      `json:"wild"`   // subscribe to c39/<id>/# instead of c39/<id>/t0
	Pubs   []c39Pub  `json:"pubs"`
	Split  int       `json:"split"` // 0: CONNECT+SUBSCRIBE+PUBLISHes in one group; 1: CONNECT | rest; 2: CONNECT | SUBSCRIBE | rest; 3: CONNECT+SUBSCRIBE | rest
	Segs   []c39Seg  `json:"segs"`  // segmentation of group i is Segs[i % len]
	Frag   int       `json:"frag"`  // 0: one frame per message; n>0: the client's frame payload limit (messages are fragmented into continuation frames)
	Text   *c39Text  `json:"text,omitempty"`
	Empty  *c39Empty `json:"empty,omitempty"`
}

// ---- brokers ----------------------------------------------------------------------------------------------------

var c39ReadBufs = []int{0 /* default 2048 */, 64}

type c39Pair struct {
	tcpAddr, wsAddr string
	servers         []*mqtt.Server
}

var (
	c39Once  sync.Once
	c39Pairs []*c39Pair
	c39Err   error
	c39Seq   atomic.Int64
)

func c39NewServer(readBuf int) (*mqtt.Server, error) {
	// The default capabilities stamp every forwarded v5 PUBLISH with the seconds left of a 24 h message expiry,
	// computed from the wall clock when the packet is written: a timing-dependent byte on the wire. Both brokers
	// run without a server-side maximum expiry, so replies are a function of the requests alone.
	caps := mqtt.NewDefaultServerCapabilities()
	caps.MaximumMessageExpiryInterval = 0
	s := mqtt.New(&mqtt.Options{
		Capabilities:            caps,
		ClientNetReadBufferSize: readBuf,
		Logger:                  slog.New(slog.NewTextHandler(io.Discard, nil)),
	})
	if err := s.AddHook(new(auth.AllowHook), nil); err != nil {
		return nil, err
	}
	return s, nil
}

func c39FreePort() (string, error) {
	l, err := net.Listen("tcp", "127.0.0.1:0")
	if err != nil {
		return "", err
	}
	a := l.Addr().String()
	_ = l.Close()
	return a, nil
}

func c39StartPair(readBuf int) (*c39Pair, error) {
	p := &c39Pair{}
	// TCP broker: the listener binds in Init (called by AddListener) and reports the bound address.
	ts, err := c39NewServer(readBuf)
	if err != nil {
		return nil, err
	}
	tl := listeners.NewTCP(listeners.Config{ID: "tcp", Address: "127.0.0.1:0"})
	if err := ts.AddListener(tl); err != nil {
		return nil, err
	}
	if err := ts.Serve(); err != nil {
		return nil, err
	}
	p.tcpAddr = tl.Address()
	p.servers = append(p.servers, ts)
	// WebSocket broker: the listener binds inside Serve (http.Server.ListenAndServe) and never reports the bound port,
	// so a free port is chosen beforehand; the bind is verified by connecting, and another port is tried on failure.
	var lastErr error
	for attempt := 0; attempt < 8; attempt++ {
		addr, err := c39FreePort()
		if err != nil {
			lastErr = err
			continue
		}
		ws, err := c39NewServer(readBuf)
		if err != nil {
			return nil, err
		}
		if err := ws.AddListener(listeners.NewWebsocket(listeners.Config{ID: "ws", Address: addr})); err != nil {
			return nil, err
		}
		if err := ws.Serve(); err != nil {
			return nil, err
		}
		ok := false
		for i := 0; i < 100; i++ {
			c, err := net.DialTimeout("tcp", addr, time.Second)
			if err == nil {
				_ = c.Close()
				ok = true
				break
			}
			lastErr = err
			time.Sleep(20 * time.Millisecond)
		}
		if ok {
			p.wsAddr = addr
			p.servers = append(p.servers, ws)
			return p, nil
		}
		_ = ws.Close()
	}
	return nil, fmt.Errorf("websocket listener did not come up: %v", lastErr)
}

func c39Brokers() ([]*c39Pair, error) {
	c39Once.Do(func() {
		for _, rb := range c39ReadBufs {
			p, err := c39StartPair(rb)
			if err != nil {
				c39Err = err
				return
			}
			c39Pairs = append(c39Pairs, p)
		}
	})
	return c39Pairs, c39Err
}

func c39StopBrokers() {
	for _, p := range c39Pairs {
		for _, s := range p.servers {
			_ = s.Close()
		}
	}
}

// ---- sessions ---------------------------------------------------------------------------------------------------

const (
	c39Wait  = 30 * time.Second // TCP reference per request group, and every wait for a connection to end: expiry is inconclusive, never a verdict
	c39Stall = 5 * time.Second  // WebSocket per request group: expiry only makes the check end the stream (half-close) and judge what the broker did before it closed
	c39Drain = 30 * time.Second
)

type c39Chunk struct {
	data []byte
	mt   int // websocket message type (0 on TCP)
	err  error
}

// c39Sess is one client connection. A reader goroutine forwards everything that arrives; the session splits the
// concatenation of the arriving bytes into MQTT packets (fixed header framing only) and keeps them raw.
type c39Sess struct {
	ws        *websocket.Conn
	tcp       net.Conn
	ch        chan c39Chunk
	done      chan struct{}
	buf       []byte
	pkts      [][]byte
	closed    bool
	closeErr  error
	nonBinary int
	garbage   bool // the byte stream cannot be framed (remaining length longer than 4 bytes)
}

func (s *c39Sess) start() {
	s.ch = make(chan c39Chunk, 64)
	s.done = make(chan struct{})
	go func() {
		for {
			var c c39Chunk
			if s.ws != nil {
				c.mt, c.data, c.err = s.ws.ReadMessage()
			} else {
				b := make([]byte, 32*1024)
				var n int
				n, c.err = s.tcp.Read(b)
				c.data = b[:n]
			}
			select {
			case s.ch <- c:
			case <-s.done:
				return
			}
			if c.err != nil {
				return
			}
		}
	}()
}

func (s *c39Sess) close() {
	close(s.done)
	if s.ws != nil {
		_ = s.ws.Close()
	} else {
		_ = s.tcp.Close()
	}
}

// closeWrite half-closes the connection: the broker reads everything sent so far and then end-of-stream.
func (s *c39Sess) closeWrite() {
	var c net.Conn = s.tcp
	if s.ws != nil {
		c = s.ws.UnderlyingConn()
	}
	if t, ok := c.(*net.TCPConn); ok {
		_ = t.CloseWrite()
	}
}

// c39Frame returns the length of the packet at the front of b (0 = more bytes needed, -1 = not a packet).
func c39Frame(b []byte) int {
	if len(b) < 2 {
		return 0
	}
	rem, mult := 0, 1
	for i := 1; i <= 4; i++ {
		if i >= len(b) {
			return 0
		}
		rem += int(b[i]&0x7F) * mult
		mult *= 128
		if b[i]&0x80 == 0 {
			if len(b) < 1+i+rem {
				return 0
			}
			return 1 + i + rem
		}
	}
	return -1
}

func (s *c39Sess) absorb(c c39Chunk) {
	if s.ws != nil && c.err != nil {
		c.data = nil // ReadMessage returns the received part of a message that was cut off: not a delivered message
	}
	if len(c.data) > 0 || (s.ws != nil && c.err == nil) {
		if s.ws != nil && c.mt != websocket.BinaryMessage {
			s.nonBinary++
		}
		s.buf = append(s.buf, c.data...)
		for !s.garbage {
			n := c39Frame(s.buf)
			if n == 0 {
				break
			}
			if n < 0 {
				s.garbage = true
				break
			}
			s.pkts = append(s.pkts, append([]byte{}, s.buf[:n]...))
			s.buf = s.buf[n:]
		}
	}
	if c.err != nil {
		s.closed, s.closeErr = true, c.err
	}
}

// wait blocks until total packets have been received in all, the connection has ended, or d has passed (true).
func (s *c39Sess) wait(total int, d time.Duration) (timedOut bool) {
	t := time.NewTimer(d)
	defer t.Stop()
	for len(s.pkts) < total && !s.closed && !s.garbage {
		select {
		case c := <-s.ch:
			s.absorb(c)
		case <-t.C:
			return true
		}
	}
	return false
}

// waitClose blocks until the connection has ended or d has passed (true).
func (s *c39Sess) waitClose(d time.Duration) (timedOut bool) {
	t := time.NewTimer(d)
	defer t.Stop()
	for !s.closed {
		select {
		case c := <-s.ch:
			s.absorb(c)
		case <-t.C:
			return true
		}
	}
	return false
}

type c39Msg struct {
	data []byte
	text bool
}

func (s *c39Sess) send(msgs []c39Msg) error {
	for _, m := range msgs {
		var err error
		if s.ws != nil {
			mt := websocket.BinaryMessage
			if m.text {
				mt = websocket.TextMessage
			}
			err = s.ws.WriteMessage(mt, m.data)
		} else {
			_, err = s.tcp.Write(m.data)
		}
		if err != nil {
			return err
		}
	}
	return nil
}

// ---- the session script -----------------------------------------------------------------------------------------

// c39Req is one client packet together with the number of packets the broker answers it with.
type c39Req struct {
	raw     []byte
	answers int
	name    string
}

func c39Payload(size int, seed byte) []byte {
	p := make([]byte, size)
	x := uint32(seed)*2654435761 + 12345
	for i := range p {
		x = x*1664525 + 1013904223
		p[i] = byte(x >> 24)
	}
	return p
}

func c39Enc(p *refmqtt.Packet, ver byte) []byte {
	p.Version = ver
	return refmqtt.Encode(p, refmqtt.Style{})
}

func c39TypeName(b []byte) string {
	names := []string{"?", "CONNECT", "CONNACK", "PUBLISH", "PUBACK", "PUBREC", "PUBREL", "PUBCOMP", "SUBSCRIBE", "SUBACK", "UNSUBSCRIBE", "UNSUBACK", "PINGREQ", "PINGRESP", "DISCONNECT", "AUTH"}
	if len(b) == 0 {
		return "?"
	}
	return names[b[0]>>4]
}

// c39Phase1 builds CONNECT, SUBSCRIBE, the PUBLISHes and a PINGREQ, split into request groups according to c.Split.
func c39Phase1(c c39Case, id int64) [][]c39Req {
	cid := fmt.Sprintf("c39-%08d", id)
	base := fmt.Sprintf("c39/%08d/", id)
	con := &refmqtt.Packet{Type: refmqtt.CONNECT, Level: c.Ver, ProtocolName: "MQTT", CleanStart: true, KeepAlive: 600, ClientID: cid}
	if c.Ver == 3 {
		con.ProtocolName = "MQIsdp"
	}
	filter := base + "t0"
	if c.Wild {
		filter = base + "#"
	}
	sub := &refmqtt.Packet{Type: refmqtt.SUBSCRIBE, PacketID: 1, Filters: []refmqtt.Filter{{Filter: filter, QoS: c.SubQoS}}}
	connect := c39Req{c39Enc(con, c.Ver), 1, "CONNECT"}
	subscribe := c39Req{c39Enc(sub, c.Ver), 1, "SUBSCRIBE"}
	var rest []c39Req
	for i, pb := range c.Pubs {
		p := &refmqtt.Packet{Type: refmqtt.PUBLISH, QoS: pb.QoS, Topic: fmt.Sprintf("%st%d", base, pb.Suffix), Payload: c39Payload(pb.Size, pb.Seed)}
		if pb.QoS > 0 {
			p.PacketID = uint16(100 + i)
		}
		if pb.Prop && c.Ver == 5 {
			ct := "application/x-c39"
			p.Props.ContentType = &ct
			p.Props.User = []refmqtt.KV{{K: "k", V: fmt.Sprintf("v%d", i)}}
		}
		n := 0
		if pb.QoS > 0 {
			n++
		}
		if c.Wild || pb.Suffix == 0 {
			n++
		}
		rest = append(rest, c39Req{c39Enc(p, c.Ver), n, fmt.Sprintf("PUBLISH#%d", i)})
	}
	rest = append(rest, c39Req{c39Enc(&refmqtt.Packet{Type: refmqtt.PINGREQ}, c.Ver), 1, "PINGREQ"})
	switch c.Split {
	case 0:
		return [][]c39Req{append([]c39Req{connect, subscribe}, rest...)}
	case 1:
		return [][]c39Req{{connect}, append([]c39Req{subscribe}, rest...)}
	case 2:
		return [][]c39Req{{connect}, {subscribe}, rest}
	}
	return [][]c39Req{{connect, subscribe}, rest}
}

// c39Phase23 builds the acknowledgement groups from the PUBLISH packets the broker forwarded on this connection.
func c39Phase23(c c39Case, received [][]byte) (g2, g3 []c39Req, err error) {
	for i, pb := range c.Pubs {
		if pb.QoS == 2 {
			g2 = append(g2, c39Req{c39Enc(&refmqtt.Packet{Type: refmqtt.PUBREL, PacketID: uint16(100 + i)}, c.Ver), 1, "PUBREL"})
		}
	}
	for _, raw := range received {
		if raw[0]>>4 != refmqtt.PUBLISH {
			continue
		}
		q := raw[0] >> 1 & 3
		if q == 0 {
			continue
		}
		p, _, derr := refmqtt.Decode(raw, c.Ver, refmqtt.ServerToClient)
		if derr != nil || p == nil {
			return nil, nil, fmt.Errorf("forwarded PUBLISH % x... does not decode: %v", raw[:min(len(raw), 24)], derr)
		}
		if q == 1 {
			g2 = append(g2, c39Req{c39Enc(&refmqtt.Packet{Type: refmqtt.PUBACK, PacketID: p.PacketID}, c.Ver), 0, "PUBACK"})
		} else {
			g2 = append(g2, c39Req{c39Enc(&refmqtt.Packet{Type: refmqtt.PUBREC, PacketID: p.PacketID}, c.Ver), 1, "PUBREC"})
			g3 = append(g3, c39Req{c39Enc(&refmqtt.Packet{Type: refmqtt.PUBCOMP, PacketID: p.PacketID}, c.Ver), 0, "PUBCOMP"})
		}
	}
	g2 = append(g2, c39Req{c39Enc(&refmqtt.Packet{Type: refmqtt.PINGREQ}, c.Ver), 1, "PINGREQ"})
	filter := "c39/unsub" // the filter text is irrelevant to the transport; an unknown filter is a valid UNSUBSCRIBE
	g3 = append(g3, c39Req{c39Enc(&refmqtt.Packet{Type: refmqtt.UNSUBSCRIBE, PacketID: 2, Filters: []refmqtt.Filter{{Filter: filter}}}, c.Ver), 1, "UNSUBSCRIBE"})
	g3 = append(g3, c39Req{c39Enc(&refmqtt.Packet{Type: refmqtt.PINGREQ}, c.Ver), 1, "PINGREQ"})
	g3 = append(g3, c39Req{c39Enc(&refmqtt.Packet{Type: refmqtt.DISCONNECT}, c.Ver), 0, "DISCONNECT"})
	return
}

// c39Cuts returns the message boundaries (sorted, strictly inside the group) for a group of packets.
func c39Cuts(reqs []c39Req, seg c39Seg) (cuts []int, total int) {
	for _, q := range reqs {
		total += len(q.raw)
	}
	set := map[int]bool{}
	if len(seg.Sizes) > 0 {
		pos := 0
		for i := 0; ; i++ {
			sz := seg.Sizes[i%len(seg.Sizes)]
			if sz < 1 {
				sz = 1
			}
			pos += sz
			if pos >= total {
				break
			}
			set[pos] = true
		}
	}
	if seg.Hdr > 0 {
		off := 0
		for _, q := range reqs {
			if off+1 < total {
				set[off+1] = true
			}
			if seg.Hdr > 1 && q.raw[1]&0x80 != 0 && off+2 < total {
				set[off+2] = true
			}
			off += len(q.raw)
		}
	}
	for p := range set {
		cuts = append(cuts, p)
	}
	sort.Ints(cuts)
	return
}

// c39SegStats classifies a segmentation: packets that span messages, messages that hold >= 2 complete packets,
// cuts strictly inside a fixed header, the largest message.
type c39SegStats struct {
	spans, multi, hdrCuts, maxMsg, msgs int
}

func c39Classify(reqs []c39Req, cuts []int, total int) (st c39SegStats) {
	bounds := append(append([]int{0}, cuts...), total)
	st.msgs = len(bounds) - 1
	for i := 0; i+1 < len(bounds); i++ {
		if l := bounds[i+1] - bounds[i]; l > st.maxMsg {
			st.maxMsg = l
		}
	}
	off := 0
	type iv struct{ a, b int }
	var pk []iv
	for _, q := range reqs {
		pk = append(pk, iv{off, off + len(q.raw)})
		hdr := 2
		for hdr < 5 && q.raw[hdr-1]&0x80 != 0 {
			hdr++
		}
		for _, c := range cuts {
			if c > off && c < off+len(q.raw) {
				st.spans++
				break
			}
		}
		for _, c := range cuts {
			if c > off && c < off+hdr {
				st.hdrCuts++
			}
		}
		off += len(q.raw)
	}
	for i := 0; i+1 < len(bounds); i++ {
		n := 0
		for _, p := range pk {
			if p.a >= bounds[i] && p.b <= bounds[i+1] {
				n++
			}
		}
		if n >= 2 {
			st.multi++
		}
	}
	return
}

func c39Join(reqs []c39Req) []byte {
	var b []byte
	for _, q := range reqs {
		b = append(b, q.raw...)
	}
	return b
}

func c39Answers(reqs []c39Req) (n int) {
	for _, q := range reqs {
		n += q.answers
	}
	return
}

func c39Messages(all []byte, cuts []int) []c39Msg {
	var out []c39Msg
	prev := 0
	for _, c := range append(append([]int{}, cuts...), len(all)) {
		out = append(out, c39Msg{data: all[prev:c]})
		prev = c
	}
	return out
}

// ---- comparison -------------------------------------------------------------------------------------------------

func c39Describe(raw []byte, ver byte) string {
	p, _, err := refmqtt.Decode(raw, ver, refmqtt.ServerToClient)
	if err != nil || p == nil {
		return fmt.Sprintf("%s(%d bytes, % x..)", c39TypeName(raw), len(raw), raw[:min(len(raw), 12)])
	}
	switch p.Type {
	case refmqtt.PUBLISH:
		return fmt.Sprintf("PUBLISH(qos%d id%d topic %q payload %d bytes)", p.QoS, p.PacketID, p.Topic, len(p.Payload))
	case refmqtt.CONNACK, refmqtt.PINGRESP:
		return fmt.Sprintf("%s(rc 0x%02X)", c39TypeName(raw), p.ReasonCode)
	}
	return fmt.Sprintf("%s(id%d rc 0x%02X %v)", c39TypeName(raw), p.PacketID, p.ReasonCode, p.ReasonCodes)
}

func c39Project(pkts [][]byte) (direct, pubs [][]byte) {
	for _, p := range pkts {
		if p[0]>>4 == refmqtt.PUBLISH {
			pubs = append(pubs, p)
		} else {
			direct = append(direct, p)
		}
	}
	return
}

func c39List(pkts [][]byte, ver byte) string {
	var s []string
	for _, p := range pkts {
		s = append(s, c39Describe(p, ver))
	}
	return "[" + strings.Join(s, ", ") + "]"
}

// c39Compare compares the packets one request group produced on the two transports. The broker writes
// acknowledgements from the connection's reader goroutine and forwarded PUBLISHes from its writer goroutine, so only
// the order inside each of the two streams is causal; they are compared separately. pubPrefix: the WebSocket side was
// ended by the check before all forwarded PUBLISHes had to be out, a prefix is enough.
func c39Compare(group int, what string, tcp, ws [][]byte, ver byte, pubPrefix bool) []evid.Disc {
	td, tp := c39Project(tcp)
	wd, wp := c39Project(ws)
	cmp := func(kind string, a, b [][]byte, prefix bool) *evid.Disc {
		for i := 0; i < len(a) && i < len(b); i++ {
			if !bytes.Equal(a[i], b[i]) {
				d := evid.D("C39-ws-packet-differs-"+kind, "group %d (%s): %s packet %d over WebSocket is %s, over TCP %s", group, what, kind, i, c39Describe(b[i], ver), c39Describe(a[i], ver))
				if c39TypeName(a[i]) == "PUBLISH" && c39TypeName(b[i]) == "PUBLISH" {
					pa, _, ea := refmqtt.Decode(a[i], ver, refmqtt.ServerToClient)
					pb, _, eb := refmqtt.Decode(b[i], ver, refmqtt.ServerToClient)
					if ea == nil && eb == nil {
						d.Msg += "; diff: " + refmqtt.Diff(pa, pb)
					}
				}
				return &d
			}
		}
		if len(b) > len(a) {
			d := evid.D("C39-ws-extra-"+kind, "group %d (%s): WebSocket delivered %d %s packets, TCP %d; WebSocket %s, TCP %s", group, what, len(b), kind, len(a), c39List(b, ver), c39List(a, ver))
			return &d
		}
		if len(b) < len(a) && !prefix {
			d := evid.D("C39-ws-missing-"+kind, "group %d (%s): WebSocket delivered %d %s packets, TCP %d; WebSocket %s, TCP %s", group, what, len(b), kind, len(a), c39List(b, ver), c39List(a, ver))
			return &d
		}
		return nil
	}
	var ds []evid.Disc
	if d := cmp("ack", td, wd, false); d != nil {
		ds = append(ds, *d)
	}
	if d := cmp("publish", tp, wp, pubPrefix); d != nil {
		ds = append(ds, *d)
	}
	return ds
}

// ---- the check --------------------------------------------------------------------------------------------------

func c39DialTCP(addr string) (*c39Sess, error) {
	c, err := net.DialTimeout("tcp", addr, 10*time.Second)
	if err != nil {
		return nil, err
	}
	s := &c39Sess{tcp: c}
	s.start()
	return s, nil
}

func c39DialWS(addr string, frag int) (*c39Sess, error) {
	d := websocket.Dialer{Subprotocols: []string{"mqtt"}, HandshakeTimeout: 10 * time.Second, WriteBufferSize: frag}
	c, resp, err := d.Dial("ws://"+addr+"/", nil)
	if err != nil {
		return nil, err
	}
	if resp != nil && resp.Body != nil {
		_ = resp.Body.Close()
	}
	s := &c39Sess{ws: c}
	s.start()
	return s, nil
}

type c39GroupResult struct {
	pkts   [][]byte
	closed bool
}

func c39Check(c c39Case, r *evid.Rec) []evid.Disc {
	pairs, err := c39Brokers()
	if err != nil {
		r.Inconclusive("brokers did not start: " + err.Error())
		return nil
	}
	if len(c.Segs) == 0 {
		c.Segs = []c39Seg{{Sizes: []int{1 << 20}}}
	}
	pair := pairs[((c.Buf%len(pairs))+len(pairs))%len(pairs)]
	id := c39Seq.Add(1)
	r.Label(fmt.Sprintf("v%d", c.Ver))
	r.Label(fmt.Sprintf("readbuf-%d", c39ReadBufs[((c.Buf%len(pairs))+len(pairs))%len(pairs)]))

	// ---- reference run over TCP: every group in one write ----
	tcp, err := c39DialTCP(pair.tcpAddr)
	if err != nil {
		r.Inconclusive("tcp dial: " + err.Error())
		return nil
	}
	defer tcp.close()
	groups := c39Phase1(c, id)
	nPhase1 := len(groups)
	var ref []c39GroupResult
	runTCP := func(g int, reqs []c39Req, last bool) (ok bool) {
		base := len(tcp.pkts)
		_ = tcp.send([]c39Msg{{data: c39Join(reqs)}})
		if tcp.wait(base+c39Answers(reqs), c39Wait) {
			r.Inconclusive(fmt.Sprintf("TCP reference: group %d answered %d of %d packets within %v", g, len(tcp.pkts)-base, c39Answers(reqs), c39Wait))
			r.Label("timeout-tcp")
			return false
		}
		if last {
			if tcp.waitClose(c39Wait) {
				r.Inconclusive(fmt.Sprintf("TCP reference: connection still open %v after DISCONNECT", c39Wait))
				r.Label("timeout-tcp")
				return false
			}
		}
		ref = append(ref, c39GroupResult{pkts: tcp.pkts[base:], closed: tcp.closed})
		return true
	}
	for g := 0; g < nPhase1; g++ {
		if !runTCP(g, groups[g], false) {
			return nil
		}
	}
	if tcp.closed || tcp.garbage {
		// the reference broker refused a session the generator believes valid: nothing to compare against
		r.Label("tcp-reference-ended-early")
		r.NotAsserted()
		return nil
	}
	g2, g3, err := c39Phase23(c, tcp.pkts)
	if err != nil {
		r.Label("tcp-reference-undecodable")
		r.NotAsserted()
		return nil
	}
	groups = append(groups, g2, g3)
	if !runTCP(nPhase1, g2, false) || !runTCP(nPhase1+1, g3, true) {
		return nil
	}

	// ---- the same session over WebSocket, cut into messages ----
	ws, err := c39DialWS(pair.wsAddr, c.Frag)
	if err != nil {
		r.Inconclusive("websocket dial: " + err.Error())
		return nil
	}
	defer ws.close()
	var ds []evid.Disc
	var agg c39SegStats
	textGroup, emptyGroup := -1, -1
	if c.Text != nil {
		textGroup = ((c.Text.Group % len(groups)) + len(groups)) % len(groups)
		r.Label("class:text-message")
	} else if c.Empty != nil {
		emptyGroup = ((c.Empty.Group % len(groups)) + len(groups)) % len(groups)
		r.Label("class:empty-messages")
	} else {
		r.Label("class:binary-only")
	}
	finish := func() []evid.Disc {
		if ws.nonBinary > 0 {
			ds = append(ds, evid.D("C39-reply-not-binary", "%d of the broker's WebSocket messages were not binary messages", ws.nonBinary))
		}
		if c.Empty != nil {
			// outside the statement's quantifier (message sizes 1..N): outcome recorded, not asserted
			r.NotAsserted()
			if len(ds) > 0 {
				r.Label(fmt.Sprintf("empty-run-%d:differs:%s", c.Empty.Run, ds[0].Sig))
			} else {
				r.Label(fmt.Sprintf("empty-run-%d:same", c.Empty.Run))
			}
			return nil
		}
		return ds
	}
	for g := 0; g < len(groups); g++ {
		reqs := groups[g]
		if g >= nPhase1 {
			// a client acknowledges what it received on its own connection (identical to the TCP side, or the
			// comparison of the earlier groups has already failed)
			w2, w3, err := c39Phase23(c, ws.pkts)
			if err != nil {
				ds = append(ds, evid.D("C39-ws-packet-undecodable", "%v", err))
				return finish()
			}
			if g == nPhase1 {
				reqs = w2
			} else {
				reqs = w3
			}
		}
		last := g == len(groups)-1
		what := reqs[0].name + ".." + reqs[len(reqs)-1].name
		seg := c.Segs[g%len(c.Segs)]
		cuts, total := c39Cuts(reqs, seg)
		st := c39Classify(reqs, cuts, total)
		msgs := c39Messages(c39Join(reqs), cuts)
		base := len(ws.pkts)

		if g == textGroup {
			// ---- a text message: the broker must end the connection and process nothing from it on ----
			// The group is followed by two PINGREQs: whatever follows the text message is valid MQTT that would be
			// answered if the connection lived on, and the text message itself always carries bytes of that stream.
			ping := c39Req{c39Enc(&refmqtt.Packet{Type: refmqtt.PINGREQ}, c.Ver), 1, "PINGREQ"}
			reqsX := append(append([]c39Req{}, reqs...), ping, ping)
			cutsX, totalX := c39Cuts(reqsX, seg)
			bufSize := c39ReadBufs[((c.Buf%len(pairs))+len(pairs))%len(pairs)]
			if bufSize == 0 {
				bufSize = 2048
			}
			start, end, how := c39AlignText(reqsX, totalX, bufSize, c.Text)
			if how != "plain" {
				var kept []int
				for _, x := range cutsX {
					if x <= start || x >= end {
						kept = append(kept, x)
					}
				}
				if start > 0 {
					kept = append(kept, start)
				}
				kept = append(kept, end)
				sort.Ints(kept)
				cutsX = cutsX[:0]
				for k, x := range kept {
					if k == 0 || x != kept[k-1] {
						cutsX = append(cutsX, x)
					}
				}
			}
			msgs = c39Messages(c39Join(reqsX), cutsX)
			m := ((c.Text.Msg % len(msgs)) + len(msgs)) % len(msgs)
			if how != "plain" {
				off := 0
				for k := range msgs {
					if off == end {
						m = k
					}
					off += len(msgs[k].data)
				}
			}
			msgs[m].text = true
			textStart := 0
			for k := 0; k < m; k++ {
				textStart += len(msgs[k].data)
			}
			allowed, off := 0, 0
			for _, q := range reqsX {
				if off+len(q.raw) <= textStart {
					allowed += q.answers
				}
				off += len(q.raw)
			}
			empties := c.Text.Empties
			if empties < 0 || empties > 3 {
				empties = 0
			}
			if empties > 0 {
				var with []c39Msg
				with = append(with, msgs[:m]...)
				for k := 0; k < empties; k++ {
					with = append(with, c39Msg{data: []byte{}})
				}
				msgs = append(with, msgs[m:]...)
				m += empties
			}
			_ = ws.send(msgs)
			timedOut := ws.waitClose(c39Stall)
			if timedOut {
				// not a verdict: end the stream and judge only what was answered before the broker closed
				r.Label("ws-stalled-after-text")
				ws.closeWrite()
				timedOut = ws.waitClose(c39Drain)
			}
			got := len(ws.pkts) - base
			r.Label(fmt.Sprintf("text-at:%s", map[bool]string{true: "packet-boundary", false: "inside-packet"}[c39OnBoundary(reqsX, textStart)]))
			r.Label("text-after:" + how)
			if empties > 0 {
				r.Label("text-after:empty-binary-messages")
			}
			if got > allowed {
				ds = append(ds, evid.D("C39-text-message-not-fatal", "group %d (%s + 2 PINGREQ): message %d of %d was sent as a TEXT message (stream offset %d, preceded by %d empty binary messages; message before it: %s, read buffer %d); only the %d complete packets before it may be answered (%d answers), but %d packets arrived afterwards: %s",
					g, what, m, len(msgs), textStart, empties, how, bufSize, c39CompleteBefore(reqsX, textStart), allowed, got, c39List(ws.pkts[base:], c.Ver)))
				return finish()
			}
			if timedOut {
				r.Inconclusive(fmt.Sprintf("WebSocket connection still open %v after a text message and %v after the client's end of stream", c39Stall, c39Drain))
				r.Label("timeout-ws")
				return finish()
			}
			r.NonTrivial(c39Key(c))
			return finish()
		}

		if g == emptyGroup {
			m := ((c.Empty.Msg % len(msgs)) + len(msgs)) % len(msgs)
			var with []c39Msg
			with = append(with, msgs[:m]...)
			for i := 0; i < c.Empty.Run; i++ {
				with = append(with, c39Msg{data: []byte{}})
			}
			msgs = append(with, msgs[m:]...)
		}

		agg.spans += st.spans
		agg.multi += st.multi
		agg.hdrCuts += st.hdrCuts
		agg.msgs += len(msgs)
		if st.maxMsg > agg.maxMsg {
			agg.maxMsg = st.maxMsg
		}
		_ = ws.send(msgs) // a failed write means the broker ended the connection; the reader sees that too
		want := base + len(ref[g].pkts)
		timedOut := ws.wait(want, c39Stall)
		if !timedOut && last {
			timedOut = ws.waitClose(c39Stall)
		}
		prefix := false
		if timedOut {
			// Not a verdict by itself. End the stream: a correct broker that is merely slow still answers everything
			// it was sent before it sees the end of the stream; one that lost or invented bytes cannot.
			r.Label("ws-stalled")
			ws.closeWrite()
			if ws.waitClose(c39Drain) {
				r.Inconclusive(fmt.Sprintf("WebSocket: group %d (%s) answered %d of %d packets within %v and the connection stayed open %v after the client's end of stream", g, what, len(ws.pkts)-base, len(ref[g].pkts), c39Stall, c39Drain))
				r.Label("timeout-ws")
				return finish()
			}
			prefix = true
		}
		if ws.garbage {
			ds = append(ds, evid.D("C39-ws-reply-stream-unframeable", "group %d (%s): the bytes received over WebSocket are not a sequence of MQTT packets: % x", g, what, ws.buf[:min(len(ws.buf), 32)]))
			return finish()
		}
		got := ws.pkts[base:]
		gds := c39Compare(g, what, ref[g].pkts, got, c.Ver, prefix)
		if len(gds) == 0 && ws.closed && len(ws.buf) > 0 {
			// The broker hands wsConn.Write whole packets only, and the client library never delivers part of a
			// message, so a reply stream that ends inside a packet was cut by the transport.
			gds = append(gds, evid.D("C39-ws-reply-stream-ends-mid-packet", "group %d (%s): the WebSocket connection ended with %d bytes of an incomplete %s packet received (% x..)", g, what, len(ws.buf), c39TypeName(ws.buf), ws.buf[:min(len(ws.buf), 16)]))
		}
		if len(gds) == 0 && ws.closed && !last && !timedOut {
			gds = append(gds, evid.D("C39-ws-closed-early", "group %d (%s): the broker ended the WebSocket connection (%v); the TCP connection stayed open for the same requests", g, what, ws.closeErr))
		}
		if len(gds) > 0 {
			for i := range gds {
				gds[i].Msg += fmt.Sprintf(" [segmentation: %d messages, largest %d bytes, %d packets span messages, %d messages hold >=2 packets, %d cuts inside fixed headers; frame limit %d; read buffer %d]",
					len(msgs), st.maxMsg, st.spans, st.multi, st.hdrCuts, c.Frag, c39ReadBufs[((c.Buf%len(pairs))+len(pairs))%len(pairs)])
			}
			ds = append(ds, gds...)
			return finish()
		}
		if timedOut {
			// everything that was sent was answered correctly, only late; the rest of the session was not run
			r.Label("ws-stalled-but-complete")
			return finish()
		}
	}

	// ---- evidence ----
	if agg.spans > 0 {
		r.Label("packet-spans-messages")
	}
	if agg.multi > 0 {
		r.Label("message-holds-2+-packets")
	}
	if agg.hdrCuts > 0 {
		r.Label("cut-inside-fixed-header")
	}
	if agg.maxMsg > 2048 {
		r.Label("message>2048")
	}
	if c.Frag > 0 && agg.maxMsg > c.Frag {
		r.Label("fragmented-message")
	}
	if agg.msgs > 0 && agg.maxMsg == 1 {
		r.Label("all-messages-1-byte")
	}
	if agg.spans > 0 && agg.multi > 0 && c.Empty == nil {
		r.NonTrivial(c39Key(c))
	}
	return finish()
}

// c39AlignText chooses the extent [start, end) of the binary message directly before the text message (see c39Text).
func c39AlignText(reqs []c39Req, total, bufSize int, t *c39Text) (start, end int, how string) {
	n := len(reqs)
	offs := make([]int, n)
	hdrs := make([]int, n)
	off := 0
	for i, q := range reqs {
		offs[i] = off
		h := 2
		for h < 5 && q.raw[h-1]&0x80 != 0 {
			h++
		}
		hdrs[i] = h
		off += len(q.raw)
	}
	pk := ((t.Pkt % n) + n) % n
	fill := func() bool {
		for i := 0; i < n; i++ {
			k := (pk + i) % n
			if offs[k]+bufSize < total {
				start, end, how = offs[k], offs[k]+bufSize, "message-fills-read-buffer-from-packet-start"
				return true
			}
		}
		return false
	}
	body := func() bool {
		for i := 0; i < n; i++ {
			k := (pk + i) % n
			if len(reqs[k].raw)-hdrs[k] >= bufSize && offs[k]+len(reqs[k].raw) < total {
				start, end, how = offs[k]+hdrs[k], offs[k]+len(reqs[k].raw), "message-is-exactly-a-long-packet-body"
				return true
			}
		}
		return false
	}
	multiple := func() bool {
		kmax := (total - 1) / bufSize
		if kmax < 1 {
			return false
		}
		k := 1 + ((t.Pkt%kmax)+kmax)%kmax
		start, end, how = (k-1)*bufSize, k*bufSize, "message-covers-one-read-buffer-multiple"
		return true
	}
	switch t.Align {
	case 1:
		if fill() || multiple() {
			return
		}
	case 2:
		if body() || fill() || multiple() {
			return
		}
	case 3:
		if multiple() {
			return
		}
	}
	return 0, 0, "plain"
}

func c39OnBoundary(reqs []c39Req, pos int) bool {
	off := 0
	for _, q := range reqs {
		if off == pos {
			return true
		}
		off += len(q.raw)
	}
	return off == pos
}

func c39CompleteBefore(reqs []c39Req, pos int) (n int) {
	off := 0
	for _, q := range reqs {
		if off+len(q.raw) <= pos {
			n++
		}
		off += len(q.raw)
	}
	return
}

func c39Key(c c39Case) string {
	b, _ := json.Marshal(c)
	return string(b)
}

// ---- generator --------------------------------------------------------------------------------------------------

func c39GenSeg(rt *rapid.T) c39Seg {
	maxes := []int{1, 3, 16, 200, 3000, 20000}
	// regimes 0..5 draw every size below one bound; the others mix bounds inside one group (small and large messages)
	regime := rapid.SampledFrom([]int{6, 0, 6, 1, 2, 6, 3, 4, 5, 6}).Draw(rt, "regime")
	n := rapid.IntRange(1, 12).Draw(rt, "nsizes")
	if regime < len(maxes) && maxes[regime] == 1 {
		n = 1
	}
	var sizes []int
	for i := 0; i < n; i++ {
		m := 0
		if regime < len(maxes) {
			m = maxes[regime]
		} else {
			m = rapid.SampledFrom(maxes).Draw(rt, "mixmax")
		}
		sizes = append(sizes, rapid.IntRange(1, m).Draw(rt, "size"))
	}
	return c39Seg{Sizes: sizes, Hdr: rapid.SampledFrom([]int{0, 0, 1, 2}).Draw(rt, "hdr")}
}

func c39Gen(rt *rapid.T) c39Case {
	c := c39Case{
		Ver:    rapid.SampledFrom([]byte{4, 5, 5, 3}).Draw(rt, "ver"),
		Buf:    rapid.IntRange(0, len(c39ReadBufs)-1).Draw(rt, "buf"),
		SubQoS: byte(rapid.IntRange(0, 2).Draw(rt, "subqos")),
		Wild:   rapid.Bool().Draw(rt, "wild"),
		Split:  rapid.IntRange(0, 3).Draw(rt, "split"),
		Frag:   rapid.SampledFrom([]int{0, 0, 1, 7, 125, 126, 1000}).Draw(rt, "frag"),
	}
	np := rapid.IntRange(1, 6).Draw(rt, "npubs")
	for i := 0; i < np; i++ {
		size := 0
		switch rapid.IntRange(0, 6).Draw(rt, "sizeclass") {
		case 6:
			// large: the forwarded copy is one write of tens of kilobytes on the broker's side (and spans 16-bit length
			// fields of the WebSocket framing in both directions)
			size = rapid.SampledFrom([]int{16300, 32700, 32800, 40000, 65500, 66000, 70000}).Draw(rt, "psize") + rapid.IntRange(0, 100).Draw(rt, "pextra")
		case 0:
			size = rapid.IntRange(0, 3).Draw(rt, "psize")
		case 1, 2:
			size = rapid.IntRange(0, 150).Draw(rt, "psize")
		case 3:
			size = rapid.IntRange(100, 300).Draw(rt, "psize") // remaining length around the 1/2 byte boundary
		case 4:
			size = rapid.IntRange(1900, 2300).Draw(rt, "psize") // around the broker's default read buffer
		default:
			size = rapid.IntRange(0, 5000).Draw(rt, "psize")
		}
		c.Pubs = append(c.Pubs, c39Pub{
			QoS:    byte(rapid.IntRange(0, 2).Draw(rt, "qos")),
			Size:   size,
			Seed:   byte(rapid.IntRange(0, 255).Draw(rt, "seed")),
			Suffix: rapid.SampledFrom([]int{0, 0, 0, 1, 22}).Draw(rt, "suffix"),
			Prop:   rapid.Bool().Draw(rt, "prop"),
		})
	}
	ns := rapid.IntRange(1, 5).Draw(rt, "nsegs")
	for i := 0; i < ns; i++ {
		c.Segs = append(c.Segs, c39GenSeg(rt))
	}
	switch rapid.SampledFrom([]int{3, 0, 4, 2, 5, 1, 6, 7, 8, 9}).Draw(rt, "class") {
	case 0, 1:
		c.Text = &c39Text{Group: rapid.IntRange(0, 5).Draw(rt, "tgroup"), Msg: rapid.IntRange(0, 40).Draw(rt, "tmsg"),
			Align:   rapid.SampledFrom([]int{1, 0, 2, 3, 1, 2}).Draw(rt, "talign"),
			Pkt:     rapid.IntRange(0, 9).Draw(rt, "tpkt"),
			Empties: rapid.SampledFrom([]int{0, 1, 0, 2, 0, 3}).Draw(rt, "tempties")}
		if c.Text.Align > 0 {
			// give the aligned shapes room: a body of at least one read buffer
			lo := 64
			if c39ReadBufs[c.Buf] == 0 {
				lo = 2048
			}
			if c.Pubs[0].Size < lo {
				c.Pubs[0].Size = rapid.IntRange(lo, lo+300).Draw(rt, "tpsize")
			}
			if rapid.IntRange(0, 3).Draw(rt, "tpubgroup") > 0 {
				c.Text.Group = []int{0, 1, 2, 1}[c.Split] // the group that holds the PUBLISHes
			}
		}
	case 2:
		c.Empty = &c39Empty{Group: rapid.IntRange(0, 5).Draw(rt, "egroup"), Msg: rapid.IntRange(0, 40).Draw(rt, "emsg"),
			Run: rapid.SampledFrom([]int{1, 1, 2, 3, 7, 150}).Draw(rt, "erun")}
	}
	return c
}

func TestC39(t *testing.T) {
	r := evid.New("C39", "rapid: MQTT sessions (v3/v4/v5; CONNECT, SUBSCRIBE to the session's own topic (exact or wildcard, max QoS 0-2), 1-6 PUBLISH QoS 0-2 with payloads 0-5000 bytes (one in seven 16-70 KB), PINGREQ, then the PUBREL/PUBACK/PUBREC/PUBCOMP handshakes for what was sent and received, UNSUBSCRIBE, DISCONNECT) encoded by refmqtt and run against two identically configured real brokers on loopback (pairs with client read buffer 2048 and 64): over listeners.TCP each request group in one write, over listeners.Websocket cut into binary messages at generated boundaries (message sizes from regimes 1, 1-3, 1-16, 1-200, 1-3000, 1-20000 and mixed, optional cuts inside every fixed header / remaining length, optional client-side fragmentation into continuation frames). Oracle: per request group the acknowledgement stream and the forwarded-PUBLISH stream received over WebSocket (binary message payloads concatenated, framed, compared byte for byte, described with refmqtt.Decode) equal those received over TCP, no extra packet, no early close; about a quarter of the cases turn one message into a TEXT message (at a generated position, or directly after a binary message shaped to end exactly where the broker's read buffer ends, optionally preceded by 1-3 empty binary messages), followed by more valid MQTT including two PINGREQs: nothing from that message on may be answered and the connection must end. Non-trivial = >= 1 packet spans two messages and >= 1 message holds two complete packets (text cases: the text message was delivered and judged); distinct by full case")
	defer r.Finish(t)
	defer c39StopBrokers()
	r.Assume("the TCP listener and the kernel's loopback TCP are the reference: what the broker answers over listeners.TCP is taken as what 'it would process over TCP'")
	r.Assume("broker replies are written by two goroutines (acknowledgements by the reader, forwarded PUBLISHes by the writer); their interleaving is timing, so the two streams are compared separately")
	r.Assume("wall-clock expiries are never a verdict: the TCP reference gets 30 s per request group (expiry = inconclusive); a WebSocket group not answered within 5 s is ended with a TCP half-close and judged only on what the broker demonstrably did before it closed the connection (a slow but correct broker answers everything it was sent before it sees the end of the stream); if it does not close within 30 s, the run is inconclusive")
	r.Assume("client ids and topics carry a per-process sequence number (fixed width), so cases sharing the brokers cannot interact; it is not part of the replayed case")
	evid.Run(t, r, func(rt *rapid.T) c39Case {
		c := c39Gen(rt)
		r.Sample(c39SampleOf(c))
		return c
	}, c39Check)
}

// c39SampleOf abbreviates a case for the evidence file.
func c39SampleOf(c c39Case) map[string]any {
	var pubs []string
	for _, p := range c.Pubs {
		pubs = append(pubs, fmt.Sprintf("q%d/%dB", p.QoS, p.Size))
	}
	m := map[string]any{"ver": c.Ver, "readbuf": c39ReadBufs[c.Buf%len(c39ReadBufs)], "subqos": c.SubQoS, "wild": c.Wild, "pubs": strings.Join(pubs, " "), "split": c.Split, "segs": c.Segs, "frag": c.Frag}
	if c.Text != nil {
		m["text"] = *c.Text
	}
	if c.Empty != nil {
		m["empty"] = *c.Empty
	}
	return m
}
