package hist

import (
	"testing"

	"verif/harness/refmqtt"
)

func TestSmoke(t *testing.T) {
	e := uint32(100)
	c := &Case{Actions: []Action{
		{Kind: "connect", Client: 0, Version: 5, Clean: true, AutoAck: true, Expiry: &e},
		{Kind: "connect", Client: 1, Version: 4, Clean: true, AutoAck: true},
		{Kind: "subscribe", Client: 0, Filters: []refmqtt.Filter{{Filter: "a/#", QoS: 2}}, SubID: 7},
		{Kind: "subscribe", Client: 1, Filters: []refmqtt.Filter{{Filter: "a/b", QoS: 1}, {Filter: "#", QoS: 0}}},
		{Kind: "publish", Client: 1, Topic: "a/b", QoS: 2, Rich: true, Retain: true},
		{Kind: "publish", Client: 0, Topic: "a", QoS: 1, Rich: true},
		{Kind: "ping", Client: 0},
		{Kind: "connect", Client: 0, Version: 5, Clean: false, AutoAck: true},
		{Kind: "disconnect", Client: 1},
		{Kind: "tick", Tick: "clients", Offset: 5},
	}}
	r := Execute(c)
	t.Log("\n" + r.Transcript())
	if r.Fatal != "" {
		t.Fatal(r.Fatal)
	}
}
