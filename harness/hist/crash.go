package hist

import (
	"fmt"
	"sync"

	mqtt "github.com/mochi-mqtt/server/v2"
	"github.com/mochi-mqtt/server/v2/packets"
	"github.com/mochi-mqtt/server/v2/system"
)

// CrashHook wraps a real storage hook. It forwards every storage event to it, counting storage writes, until a
// budget is used up; from then on nothing is forwarded any more: the store holds exactly what had been written at
// that write boundary, as after a crash of the broker process. Multi-filter SUBSCRIBE / UNSUBSCRIBE events are
// forwarded one filter at a time so that the boundary can fall between them.
type CrashHook struct {
	mqtt.Hook
	mu         sync.Mutex
	Budget     int // 0 = unlimited; n > 0: n writes pass, the next one is cut; < 0: the first write is cut
	Writes     int
	Crashed    bool
	CrashEvent string
	Log        []string
	onCrash    func()
}

func (h *CrashHook) pass(format string, a ...any) bool {
	h.mu.Lock()
	defer h.mu.Unlock()
	if h.Crashed {
		return false
	}
	ev := fmt.Sprintf(format, a...)
	if budget := h.Budget; budget != 0 && h.Writes >= max(budget, 0) { // a negative budget cuts the very first write
		h.Crashed, h.CrashEvent = true, ev
		if h.onCrash != nil {
			h.onCrash()
		}
		return false
	}
	h.Writes++
	h.Log = append(h.Log, ev)
	return true
}

// State returns (writes forwarded, crashed?, the event that was cut).
func (h *CrashHook) State() (int, bool, string) {
	h.mu.Lock()
	defer h.mu.Unlock()
	return h.Writes, h.Crashed, h.CrashEvent
}

func (h *CrashHook) Events() []string {
	h.mu.Lock()
	defer h.mu.Unlock()
	return append([]string{}, h.Log...)
}

func (h *CrashHook) ID() string { return "verif-crash+" + h.Hook.ID() }

func (h *CrashHook) OnSessionEstablished(cl *mqtt.Client, pk packets.Packet) {
	if h.pass("session-established %s", cl.ID) {
		h.Hook.OnSessionEstablished(cl, pk)
	}
}
func (h *CrashHook) OnDisconnect(cl *mqtt.Client, err error, expire bool) {
	if h.pass("disconnect %s expire=%v", cl.ID, expire) {
		h.Hook.OnDisconnect(cl, err, expire)
	}
}
func (h *CrashHook) OnSubscribed(cl *mqtt.Client, pk packets.Packet, reasonCodes []byte) {
	for i := range pk.Filters {
		if i >= len(reasonCodes) {
			break
		}
		one := pk
		one.Filters = packets.Subscriptions{pk.Filters[i]}
		if h.pass("subscribed %s %s code=%d", cl.ID, pk.Filters[i].Filter, reasonCodes[i]) {
			h.Hook.OnSubscribed(cl, one, reasonCodes[i:i+1])
		}
	}
}
func (h *CrashHook) OnUnsubscribed(cl *mqtt.Client, pk packets.Packet) {
	for i := range pk.Filters {
		one := pk
		one.Filters = packets.Subscriptions{pk.Filters[i]}
		if h.pass("unsubscribed %s %s", cl.ID, pk.Filters[i].Filter) {
			h.Hook.OnUnsubscribed(cl, one)
		}
	}
}
func (h *CrashHook) OnRetainMessage(cl *mqtt.Client, pk packets.Packet, r int64) {
	if h.pass("retain %s r=%d", pk.TopicName, r) {
		h.Hook.OnRetainMessage(cl, pk, r)
	}
}
func (h *CrashHook) OnWillSent(cl *mqtt.Client, pk packets.Packet) {
	if h.pass("will-sent %s", cl.ID) {
		h.Hook.OnWillSent(cl, pk)
	}
}
func (h *CrashHook) OnQosPublish(cl *mqtt.Client, pk packets.Packet, sent int64, resends int) {
	if h.pass("qos-publish %s pid=%d %s", cl.ID, pk.PacketID, pk.Payload) {
		h.Hook.OnQosPublish(cl, pk, sent, resends)
	}
}
func (h *CrashHook) OnQosComplete(cl *mqtt.Client, pk packets.Packet) {
	if h.pass("qos-complete %s pid=%d", cl.ID, pk.PacketID) {
		h.Hook.OnQosComplete(cl, pk)
	}
}
func (h *CrashHook) OnQosDropped(cl *mqtt.Client, pk packets.Packet) {
	if h.pass("qos-dropped %s pid=%d", cl.ID, pk.PacketID) {
		h.Hook.OnQosDropped(cl, pk)
	}
}
func (h *CrashHook) OnClientExpired(cl *mqtt.Client) {
	if h.pass("client-expired %s", cl.ID) {
		h.Hook.OnClientExpired(cl)
	}
}
func (h *CrashHook) OnRetainedExpired(topic string) {
	if h.pass("retained-expired %s", topic) {
		h.Hook.OnRetainedExpired(topic)
	}
}
func (h *CrashHook) OnSysInfoTick(info *system.Info) {
	if h.pass("sys-info") {
		h.Hook.OnSysInfoTick(info)
	}
}
