package hist

import (
	"encoding/json"
	"os"
	"testing"
)

func TestDebugReplay(t *testing.T) {
	p := os.Getenv("DBG_CASE")
	if p == "" {
		t.Skip()
	}
	b, _ := os.ReadFile(p)
	var f struct {
		Case Case `json:"case"`
	}
	if err := json.Unmarshal(b, &f); err != nil {
		t.Fatal(err)
	}
	r := Execute(&f.Case)
	t.Log("\n" + r.Transcript())
	for _, p := range r.Peers {
		t.Logf("peer %d %s visited=%v", p.ID, p.CID, p.Link.Visited())
	}
}
