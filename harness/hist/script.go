package hist

import (
	"errors"
	"fmt"
	"sync"

	mqtt "github.com/mochi-mqtt/server/v2"
	"github.com/mochi-mqtt/server/v2/packets"
)

// Script is the behaviour of one scripted hook (C19). Every event kind has a fixed behaviour for the whole case.
type Script struct {
	Name string `json:"name"`
	// OnPublish: "" (not provided) | pass | modify | reject | ignore | code | error
	OnPublish string `json:"on_publish,omitempty"`
	// OnPacketRead: "" | pass | modify | reject | error   (applies to PUBLISH packets only; others pass)
	OnPacketRead string `json:"on_packet_read,omitempty"`
	// OnSubscribe / OnUnsubscribe: "" | pass | modify (modify rewrites filter "x" to "x/<name>")
	OnSubscribe   string `json:"on_subscribe,omitempty"`
	OnUnsubscribe string `json:"on_unsubscribe,omitempty"`
	// OnConnect: "" (not provided) | pass | refuse (returns an error: the connection must not be admitted)
	OnConnect string `json:"on_connect,omitempty"`
	// Auth / ACL: "" (not provided) | allow | deny
	Auth string `json:"auth,omitempty"`
	ACL  string `json:"acl,omitempty"`
}

// HookCall is one logged invocation of a scripted hook.
type HookCall struct {
	Seq     int
	Hook    int
	Name    string
	Event   string
	Topic   string
	Payload string
	Client  string
	Step    int
}

type scriptHook struct {
	mqtt.HookBase
	r   *Run
	idx int
	s   *Script
}

var hookLogMu sync.Mutex

func newScriptHook(r *Run, idx int, s *Script) *scriptHook { return &scriptHook{r: r, idx: idx, s: s} }

func (h *scriptHook) ID() string { return "verif-script-" + h.s.Name }

func (h *scriptHook) Provides(b byte) bool {
	switch b {
	case mqtt.OnPublish:
		return h.s.OnPublish != ""
	case mqtt.OnPacketRead:
		return h.s.OnPacketRead != ""
	case mqtt.OnSubscribe:
		return h.s.OnSubscribe != ""
	case mqtt.OnUnsubscribe:
		return h.s.OnUnsubscribe != ""
	case mqtt.OnConnect:
		return h.s.OnConnect != ""
	case mqtt.OnConnectAuthenticate:
		return h.s.Auth != ""
	case mqtt.OnACLCheck:
		return h.s.ACL != ""
	}
	return false
}

func (h *scriptHook) log(event string, cl *mqtt.Client, topic string, payload []byte) {
	hookLogMu.Lock()
	defer hookLogMu.Unlock()
	id := ""
	if cl != nil {
		id = cl.ID
	}
	h.r.HookLog = append(h.r.HookLog, HookCall{Seq: len(h.r.HookLog), Hook: h.idx, Name: h.s.Name, Event: event, Topic: topic, Payload: string(payload), Client: id, Step: h.r.cur})
}

// ErrScriptPlain is the plain (non packets.Code) error a scripted hook returns for "error".
var ErrScriptPlain = errors.New("scripted hook error")

func (h *scriptHook) OnPublish(cl *mqtt.Client, pk packets.Packet) (packets.Packet, error) {
	h.log("publish", cl, pk.TopicName, pk.Payload)
	switch h.s.OnPublish {
	case "modify":
		pk.Payload = append(append([]byte{}, pk.Payload...), []byte("+"+h.s.Name)...)
		return pk, nil
	case "reject":
		return pk, packets.ErrRejectPacket
	case "ignore":
		return pk, packets.CodeSuccessIgnore
	case "code":
		return pk, packets.ErrQuotaExceeded
	case "error":
		return pk, ErrScriptPlain
	}
	return pk, nil
}

func (h *scriptHook) OnPacketRead(cl *mqtt.Client, pk packets.Packet) (packets.Packet, error) {
	if pk.FixedHeader.Type != packets.Publish {
		return pk, nil
	}
	h.log("read", cl, pk.TopicName, pk.Payload)
	switch h.s.OnPacketRead {
	case "modify":
		pk.Payload = append(append([]byte{}, pk.Payload...), []byte("~"+h.s.Name)...)
		return pk, nil
	case "reject":
		return pk, packets.ErrRejectPacket
	case "error":
		// an ordinary error (not a rejection): this hook's result is set aside, the chain goes on with what the previous
		// hook produced
		pk.Payload = append(append([]byte{}, pk.Payload...), []byte("~FAILED-"+h.s.Name)...)
		return pk, ErrScriptPlain
	}
	return pk, nil
}

func (h *scriptHook) OnSubscribe(cl *mqtt.Client, pk packets.Packet) packets.Packet {
	if len(pk.Filters) > 0 {
		h.log("subscribe", cl, pk.Filters[0].Filter, nil)
	}
	if h.s.OnSubscribe == "modify" {
		fs := append(packets.Subscriptions{}, pk.Filters...)
		for i := range fs {
			fs[i].Filter = fmt.Sprintf("%s/%s", fs[i].Filter, h.s.Name)
		}
		pk.Filters = fs
	}
	return pk
}

func (h *scriptHook) OnUnsubscribe(cl *mqtt.Client, pk packets.Packet) packets.Packet {
	if len(pk.Filters) > 0 {
		h.log("unsubscribe", cl, pk.Filters[0].Filter, nil)
	}
	if h.s.OnUnsubscribe == "modify" {
		fs := append(packets.Subscriptions{}, pk.Filters...)
		for i := range fs {
			fs[i].Filter = fmt.Sprintf("%s/%s", fs[i].Filter, h.s.Name)
		}
		pk.Filters = fs
	}
	return pk
}

func (h *scriptHook) OnConnect(cl *mqtt.Client, pk packets.Packet) error {
	h.log("connect", cl, "", nil)
	if h.s.OnConnect == "refuse" {
		return ErrScriptPlain
	}
	return nil
}

func (h *scriptHook) OnConnectAuthenticate(cl *mqtt.Client, pk packets.Packet) bool {
	h.log("auth", cl, "", nil)
	return h.s.Auth == "allow"
}

func (h *scriptHook) OnACLCheck(cl *mqtt.Client, topic string, write bool) bool {
	h.log(fmt.Sprintf("acl/%v", write), cl, topic, nil)
	return h.s.ACL == "allow"
}
