package hist

import (
	"sort"

	"verif/harness/refmqtt"
	"verif/harness/reftopic"
)

// The reference session model. It is driven only by what the harness did and by acknowledgements it observed on
// the wire (a subscription exists from the moment its SUBACK reported success), never by broker internals.

type SubState struct {
	Filter  string
	Opts    refmqtt.Filter
	SubID   uint32
	Step    int
	Existed bool // the subscription already existed when this SUBSCRIBE was made (for Retain Handling 1)
}

type Session struct {
	CID     string
	Version byte
	Subs    map[string]*SubState
	// Expiry bookkeeping (C15)
	Clean       bool   // v3: clean session flag of the last connect
	ExpirySet   bool   // v5: a session expiry interval is in effect
	Expiry      uint32 // v5: effective interval as requested (not yet capped)
	DiscStep    int    // step at which the last connection ended (-1 while connected)
	DiscAt      int64  // wall-clock second of that step
	CreatedStep int
}

// Snapshot is the model state at the moment a message was published.
type Snapshot struct {
	Subs      map[string]map[string]SubState // cid -> filter -> subscription
	Connected map[string]int                 // cid -> peer id of its established connection
}

type SubEvent struct {
	Step    int
	CID     string
	Peer    int
	Filters []refmqtt.Filter
	Codes   []byte
	Existed []bool
	SubID   uint32
	Acked   bool
}

type ConnEvent struct {
	Step           int
	CID            string
	Peer           int
	Success        bool
	SessionPresent bool
	ExpectSP       bool // model: a session existed and clean start was 0
	Clean          bool
	TookOver       int // peer id of the connection that was live for this cid (-1 none)
	AckStep        int // step at which the CONNACK was observed
}

type Model struct {
	Sessions  map[string]*Session
	Connected map[string]int
	Snaps     map[int]*Snapshot // by tag
	StepSnaps map[int]*Snapshot // by step index, state before the step (only for steps that need it)
	SubEvents []*SubEvent
	Conns     []*ConnEvent
	EndedAt   map[int]string // peer -> why the model thinks its session ended when it closed ("", "expiry0", "clean")
	// session expiry by housekeeping (C15): cid -> step of the "tick clients" that discarded the session for certain
	Expired map[string][]int
	// Uncertain lists ticks that fell within ExpiryMargin of a session's expiry boundary (the model cannot tell
	// whether the session was discarded; checks do not assert such cases)
	Uncertain []int
	// per step, after the step: number of subscriptions held by all sessions of the model, and connected clients
	SubsAfter, ConnectedAfter []int
}

// ExpiryMargin is the distance (seconds) a housekeeping tick must keep from an expiry boundary for the model to
// decide which side it was on: the broker's own clock readings (disconnect time) and the harness's differ by less.
const ExpiryMargin = 3

// EffectiveExpiry is the statement's rule for how long a disconnected session is kept: the client's interval capped
// by the server maximum, or the server maximum for an MQTT 3 persistent session.
func (se *Session) EffectiveExpiry(cfg *Config) int64 {
	max := int64(^uint32(0))
	if cfg.MaxSessionExpiry != nil {
		max = int64(*cfg.MaxSessionExpiry)
	}
	if se.Version < 5 {
		return max
	}
	e := int64(se.Expiry)
	if e > max {
		e = max
	}
	return e
}

func (m *Model) snapshot() *Snapshot {
	s := &Snapshot{Subs: map[string]map[string]SubState{}, Connected: map[string]int{}}
	for cid, se := range m.Sessions {
		mm := map[string]SubState{}
		for f, st := range se.Subs {
			mm[f] = *st
		}
		s.Subs[cid] = mm
	}
	for cid, p := range m.Connected {
		s.Connected[cid] = p
	}
	return s
}

func findObs(s *Step, peer int, typ byte, pid uint16) *refmqtt.Packet {
	for _, o := range s.Obs {
		if o.Peer == peer && o.P.Type == typ && (pid == 0 || o.P.PacketID == pid) {
			return o.P
		}
	}
	return nil
}

// Analyze replays the executed history through the reference model.
func Analyze(r *Run) *Model {
	m := &Model{Sessions: map[string]*Session{}, Connected: map[string]int{}, Snaps: map[int]*Snapshot{}, StepSnaps: map[int]*Snapshot{}, EndedAt: map[int]string{}, Expired: map[string][]int{}}
	pending := map[int]*ConnEvent{} // connections whose CONNACK has not been seen yet (it may arrive in a later step when the handler was parked)
	complete := func(s *Step, ce *ConnEvent, ack *refmqtt.Packet) {
		p := r.Peers[ce.Peer]
		if prev, ok := m.Connected[p.CID]; ok && prev != p.ID {
			ce.TookOver = prev
		}
		ce.Success, ce.SessionPresent = true, ack.SessionPresent
		ce.AckStep = s.I
		se, exists := m.Sessions[p.CID]
		if exists && ce.TookOver >= 0 && se.Version < 5 && se.Clean {
			// an MQTT 3 clean session lasts only as long as its network connection: taking the connection
			// over ends it, whatever the new connection asks for (MQTT 3.1.1 §3.1.2.4)
			exists = false
		}
		ce.ExpectSP = exists && !p.Connect.CleanStart
		if !exists || p.Connect.CleanStart {
			se = &Session{CID: p.CID, Subs: map[string]*SubState{}, CreatedStep: s.I}
			m.Sessions[p.CID] = se
		}
		se.Version = p.Version
		se.Clean = p.Connect.CleanStart
		se.DiscStep = -1
		se.ExpirySet, se.Expiry = false, 0
		if p.Version == 5 && p.Connect.Props.SessionExpiry != nil {
			se.ExpirySet, se.Expiry = true, *p.Connect.Props.SessionExpiry
		}
		m.Connected[p.CID] = p.ID
	}
	for _, s := range r.Steps {
		a := &s.A
		if s.Tag > 0 && (a.Kind == "publish" || a.Kind == "inline-pub") && a.Retransmit == 0 {
			m.Snaps[s.Tag] = m.snapshot()
		}
		if a.Kind == "subscribe" || a.Kind == "inline-sub" || a.Kind == "tick" || a.Kind == "connect" {
			m.StepSnaps[s.I] = m.snapshot()
		}
		switch a.Kind {
		case "connect":
			p := r.Peers[s.Peer]
			ce := &ConnEvent{Step: s.I, CID: p.CID, Peer: p.ID, Clean: p.Connect.CleanStart, TookOver: -1}
			if prev, ok := m.Connected[p.CID]; ok {
				ce.TookOver = prev
			}
			m.Conns = append(m.Conns, ce)
			pending[p.ID] = ce
		case "subscribe":
			if s.Skipped {
				break
			}
			p := r.Peers[s.Peer]
			ev := &SubEvent{Step: s.I, CID: p.CID, Peer: p.ID, Filters: a.Filters, SubID: a.SubID}
			m.SubEvents = append(m.SubEvents, ev)
			ack := findObs(s, p.ID, refmqtt.SUBACK, s.Sent.PacketID)
			se := m.Sessions[p.CID]
			if ack != nil && se != nil && m.Connected[p.CID] == p.ID {
				ev.Acked, ev.Codes = true, ack.ReasonCodes
				for i, f := range a.Filters {
					_, existed := se.Subs[f.Filter]
					ev.Existed = append(ev.Existed, existed)
					if i < len(ack.ReasonCodes) && ack.ReasonCodes[i] < 0x80 {
						opts := f
						if p.Version != 5 {
							opts.NoLocal, opts.RAP, opts.RH = false, false, 0
						}
						sid := a.SubID
						if p.Version != 5 {
							sid = 0
						}
						se.Subs[f.Filter] = &SubState{Filter: f.Filter, Opts: opts, SubID: sid, Step: s.I, Existed: existed}
					}
				}
			}
		case "unsubscribe":
			if s.Skipped {
				break
			}
			p := r.Peers[s.Peer]
			if ack := findObs(s, p.ID, refmqtt.UNSUBACK, s.Sent.PacketID); ack != nil {
				if se := m.Sessions[p.CID]; se != nil && m.Connected[p.CID] == p.ID {
					for i, f := range a.Filters {
						if p.Version != 5 || (i < len(ack.ReasonCodes) && ack.ReasonCodes[i] < 0x80) {
							delete(se.Subs, f.Filter)
						}
					}
				}
			}
		case "tick":
			if a.Tick == "clients" {
				for cid, se := range m.Sessions {
					if se.DiscStep < 0 {
						continue // a connected session is never discarded
					}
					boundary := se.DiscAt + se.EffectiveExpiry(&r.Case.Cfg)
					switch {
					case s.TickAt > boundary+ExpiryMargin:
						delete(m.Sessions, cid)
						m.Expired[cid] = append(m.Expired[cid], s.I)
					case s.TickAt >= boundary-ExpiryMargin:
						m.Uncertain = append(m.Uncertain, s.I)
					}
				}
			}
		case "disconnect":
			if !s.Skipped {
				p := r.Peers[s.Peer]
				if se := m.Sessions[p.CID]; se != nil && m.Connected[p.CID] == p.ID && p.Version == 5 && a.DiscExpiry != nil {
					// a DISCONNECT may change the interval, except from zero to non-zero (protocol error)
					if !(se.Expiry == 0 && *a.DiscExpiry > 0) {
						se.ExpirySet, se.Expiry = true, *a.DiscExpiry
					}
				}
			}
		}
		// CONNACKs seen in this step complete their connect (usually the same step; later if the handler was parked)
		for _, o := range s.Obs {
			if o.P.Type == refmqtt.CONNACK {
				if ce := pending[o.Peer]; ce != nil {
					delete(pending, o.Peer)
					if o.P.ReasonCode == 0 {
						complete(s, ce, o.P)
					}
				}
			}
		}
		// connections that ended during this step
		for _, pid := range s.Closed {
			p := r.Peers[pid]
			if cur, ok := m.Connected[p.CID]; ok && cur == pid {
				delete(m.Connected, p.CID)
				// closed because a new connection with the same identifier is being established (its CONNACK is still
				// to come: the new handler is parked): that is a takeover, the session's fate is decided at the CONNACK
				takenOver := false
				for _, ce := range pending {
					if ce.CID == p.CID && ce.Peer != pid {
						ce.TookOver = pid
						takenOver = true
					}
				}
				if takenOver {
					continue
				}
				if se := m.Sessions[p.CID]; se != nil {
					se.DiscStep, se.DiscAt = s.I, s.Now
					ended := ""
					if p.Version == 5 && se.Expiry == 0 {
						ended = "expiry0"
					} else if p.Version < 5 && se.Clean {
						ended = "clean"
					}
					if ended != "" {
						delete(m.Sessions, p.CID)
						m.EndedAt[pid] = ended
					}
				}
			}
		}
		n := 0
		for _, se := range m.Sessions {
			n += len(se.Subs)
		}
		m.SubsAfter = append(m.SubsAfter, n)
		m.ConnectedAfter = append(m.ConnectedAfter, len(m.Connected))
	}
	return m
}

// Entitled computes, from a snapshot, which connected clients hold a matching non-shared subscription whose
// No Local option does not exclude the message, and the matching subscriptions of each.
func (sn *Snapshot) Entitled(topic, publisherCID string, shared bool) map[string][]SubState {
	out := map[string][]SubState{}
	for cid := range sn.Connected {
		var ms []SubState
		for f, st := range sn.Subs[cid] {
			_, _, isShared, _ := reftopic.SplitShare(f)
			if isShared != shared {
				continue
			}
			if !reftopic.MatchSub(f, topic) {
				continue
			}
			if st.Opts.NoLocal && cid == publisherCID {
				continue
			}
			ms = append(ms, st)
		}
		if len(ms) > 0 {
			sort.Slice(ms, func(i, j int) bool { return ms[i].Filter < ms[j].Filter })
			out[cid] = ms
		}
	}
	return out
}

// MatchingAll returns all matching non-shared subscriptions of a client regardless of No Local (for option oracles).
func (sn *Snapshot) MatchingAll(cid, topic string) []SubState {
	var ms []SubState
	for f, st := range sn.Subs[cid] {
		if _, _, isShared, _ := reftopic.SplitShare(f); isShared {
			continue
		}
		if reftopic.MatchSub(f, topic) {
			ms = append(ms, st)
		}
	}
	sort.Slice(ms, func(i, j int) bool { return ms[i].Filter < ms[j].Filter })
	return ms
}

// Deliveries returns the PUBLISH packets carrying a tag that a connection received in a step.
func (s *Step) Deliveries(peer, tag int) []*refmqtt.Packet {
	var out []*refmqtt.Packet
	for _, o := range s.Obs {
		if o.Peer == peer && o.P.Type == refmqtt.PUBLISH && TagOf(o.P.Payload) == tag {
			out = append(out, o.P)
		}
	}
	return out
}

// DroppedFor reports whether the broker reported dropping message tag for client cid during the step.
func (s *Step) DroppedFor(cid string, tag int) string {
	for _, e := range s.Events {
		switch e.Kind {
		case "publish-dropped", "pid-exhausted":
			if e.Client == cid && TagOf(e.Packet.Payload) == tag {
				return e.Kind
			}
		}
	}
	return ""
}

// BlindAt reports whether the connection's output could no longer be decoded at the given step (a hard wire
// error occurred at or before it), so that nothing can be asserted about what it received.
func (p *Peer) BlindAt(step int) bool { return p.WireErr != nil && p.WireErr.Step <= step }
