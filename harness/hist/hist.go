// Package hist executes generated protocol histories against the real broker (package sim) and records
// everything observable: the packets each connection received (decoded by the independent strict decoder),
// the broker's hook reports, and which connections ended. Cases are pure data (JSON-serialisable), so that a
// failing history can be shrunk by rapid and replayed from a file without rapid.
package hist

import (
	"fmt"
	"os"
	"strings"
	"sync"
	"time"

	mqtt "github.com/mochi-mqtt/server/v2"
	"github.com/mochi-mqtt/server/v2/hooks/auth"
	"github.com/mochi-mqtt/server/v2/packets"
	"verif/harness/refmqtt"
	"verif/harness/sim"
)

// Config is the broker configuration of one case. Zero values mean "server default".
type Config struct {
	MaximumQos        *byte        `json:"max_qos,omitempty"`
	RetainUnavailable bool         `json:"retain_unavailable,omitempty"`
	MaximumClients    int64        `json:"max_clients,omitempty"`
	ReceiveMaximum    uint16       `json:"receive_maximum,omitempty"`
	MaximumInflight   uint16       `json:"max_inflight,omitempty"`
	WritesPending     int32        `json:"writes_pending,omitempty"`
	MaximumPacketSize uint32       `json:"max_packet_size,omitempty"`
	TopicAliasMaximum *uint16      `json:"topic_alias_max,omitempty"`
	MaxSessionExpiry  *uint32      `json:"max_session_expiry,omitempty"`
	MaxMessageExpiry  *int64       `json:"max_message_expiry,omitempty"`
	WriteBuf          int          `json:"write_buf,omitempty"`
	InlineClient      bool         `json:"inline,omitempty"`
	Obscure           bool         `json:"obscure,omitempty"`
	Auth              string       `json:"auth,omitempty"` // "" = allow-all, "none" = no auth hook, "perm" = permission table, "ledger" = auth.Hook with Ledger
	Ledger            []LedgerRule `json:"ledger,omitempty"`
	Perm              *Perm        `json:"perm,omitempty"`
	Scripts           []Script     `json:"scripts,omitempty"` // scripted hooks (C19), registered in order after the auth hook
	// FreeTeardown switches the default schedule policy off: finished connections tear down as soon as they can,
	// concurrently with whatever else is going on (see sim.Broker.FreeTeardown)
	FreeTeardown bool `json:"free_teardown,omitempty"`
	// ClientPIDBase: the harness's clients number their own packets from this value + 1 (default 0). Properties that
	// are not about identifier collisions between the two directions set it high, away from the broker's 1, 2, 3, ...
	ClientPIDBase uint16 `json:"client_pid_base,omitempty"`
	// Storage: run the broker with one of the bundled persistence hooks ("bolt", "pebble", "badger", "redis"); the
	// "restart" action then shuts the broker down and starts a new one on the same store
	Storage string `json:"storage,omitempty"`
	// CrashAfter > 0 (with Storage): the storage hook stops receiving events after this many storage writes (a crash
	// at that write boundary); the run is cut there and jumps to its "restart" action. 0 = never.
	CrashAfter int `json:"crash_after,omitempty"`
	// WriteDelayUS: every write the broker makes on a connection takes this many microseconds (slow network)
	WriteDelayUS int `json:"write_delay_us,omitempty"`
}

// StorageFactory / StorageCleanup are set by package store (which links the backends); hist itself does not import them.
var StorageFactory func(kind, dir string) (mqtt.Hook, any, error)
var StorageCleanup func(dir string)

// LedgerRule is one auth rule of the bundled ledger hook: exact username and password, allow or deny.
type LedgerRule struct {
	Username string `json:"username"`
	Password string `json:"password"`
	Allow    bool   `json:"allow"`
}

// Perm is a generated permission relation: exact (client id, topic-or-filter string, write) triples, with a default.
type Perm struct {
	Default bool            `json:"default"`
	Deny    map[string]bool `json:"deny,omitempty"`  // key client|topic|r or client|topic|w -> denied
	Allow   map[string]bool `json:"allow,omitempty"` // same keys -> allowed (overrides default false)
}

func permKey(client, topic string, write bool) string {
	if write {
		return client + "|" + topic + "|w"
	}
	return client + "|" + topic + "|r"
}

// Allowed evaluates the relation.
func (p *Perm) Allowed(client, topic string, write bool) bool {
	if p == nil {
		return true
	}
	k := permKey(client, topic, write)
	if p.Deny[k] {
		return false
	}
	if p.Allow[k] {
		return true
	}
	return p.Default
}

func (p *Perm) Set(client, topic string, write, allowed bool) {
	if allowed {
		if p.Allow == nil {
			p.Allow = map[string]bool{}
		}
		p.Allow[permKey(client, topic, write)] = true
		delete(p.Deny, permKey(client, topic, write))
	} else {
		if p.Deny == nil {
			p.Deny = map[string]bool{}
		}
		p.Deny[permKey(client, topic, write)] = true
		delete(p.Allow, permKey(client, topic, write))
	}
}

type permHook struct {
	mqtt.HookBase
	p *Perm
}

func (h *permHook) ID() string { return "verif-perm" }
func (h *permHook) Provides(b byte) bool {
	return b == mqtt.OnConnectAuthenticate || b == mqtt.OnACLCheck
}
func (h *permHook) OnConnectAuthenticate(cl *mqtt.Client, pk packets.Packet) bool { return true }
func (h *permHook) OnACLCheck(cl *mqtt.Client, topic string, write bool) bool {
	return h.p.Allowed(cl.ID, topic, write)
}

// WillSpec describes a will message in a CONNECT.
type WillSpec struct {
	Topic  string  `json:"topic"`
	QoS    byte    `json:"qos,omitempty"`
	Retain bool    `json:"retain,omitempty"`
	Delay  *uint32 `json:"delay,omitempty"`
	Tag    int     `json:"tag,omitempty"` // assigned by the executor: payload is "m<tag>"
}

// Action is one harness step.
type Action struct {
	Kind   string  `json:"kind"`
	Client int     `json:"client"` // client index; the client identifier is ClientID(idx) unless CID is set
	CID    *string `json:"cid,omitempty"`

	// connect
	Version    byte            `json:"version,omitempty"`
	Clean      bool            `json:"clean,omitempty"`
	Expiry     *uint32         `json:"expiry,omitempty"`
	RecvMax    *uint16         `json:"recv_max,omitempty"`
	TAM        *uint16         `json:"tam,omitempty"`
	MaxPkt     *uint32         `json:"max_pkt,omitempty"`
	KeepAlive  uint16          `json:"keepalive,omitempty"`
	ReqProblem *byte           `json:"req_problem,omitempty"`
	ReqResp    *byte           `json:"req_resp,omitempty"`
	Will       *WillSpec       `json:"will,omitempty"`
	Username   string          `json:"username,omitempty"`
	Password   string          `json:"password,omitempty"`
	AutoAck    bool            `json:"auto_ack,omitempty"`    // the connection acknowledges everything it receives at once
	Park       []string        `json:"park,omitempty"`        // schedule points at which the new handler parks
	RawConnect *refmqtt.Packet `json:"raw_connect,omitempty"` // send this CONNECT instead of building one
	RawFirst   []byte          `json:"raw_first,omitempty"`   // send these bytes as the first thing on the connection instead of a CONNECT

	// subscribe / unsubscribe
	Filters []refmqtt.Filter `json:"filters,omitempty"`
	SubID   uint32           `json:"sub_id,omitempty"`

	// publish
	Topic      string  `json:"topic,omitempty"`
	QoS        byte    `json:"qos,omitempty"`
	Retain     bool    `json:"retain,omitempty"`
	Dup        bool    `json:"dup,omitempty"`
	Empty      bool    `json:"empty,omitempty"` // empty payload (clears a retained message)
	Rich       bool    `json:"rich,omitempty"`  // v5: add content type, correlation data, response topic, user properties derived from the tag
	MsgExpiry  *uint32 `json:"msg_expiry,omitempty"`
	Alias      uint16  `json:"alias,omitempty"`
	NoTopic    bool    `json:"no_topic,omitempty"`   // send an empty topic (alias-only publish)
	PID        uint16  `json:"pid,omitempty"`        // 0 = next fresh identifier of this connection
	Retransmit int     `json:"retransmit,omitempty"` // >0: resend the own QoS>0 publish with this index (DUP, same tag)
	PIDPool    int     `json:"pid_pool,omitempty"`   // >0: use the lowest identifier in 1..PIDPool that no unfinished own publish uses (skip if none)
	Pad        int     `json:"pad,omitempty"`        // payload is padded with this many '.' bytes after the tag
	Limit      int     `json:"limit,omitempty"`      // >0: skip a QoS>0 publish if the connection already has this many unfinished own QoS>0 publishes
	ThenDrop   bool    `json:"then_drop,omitempty"`  // reset the connection right behind the packet: the broker reads and processes it, its answer can no longer be written

	// ack: Index selects among the connection's outstanding inbound messages (oldest first, modulo)
	Index   int    `json:"index,omitempty"`
	Reason  byte   `json:"reason,omitempty"`
	AckType string `json:"ack_type,omitempty"` // "", "puback", "pubrec", "pubcomp", "pubrel": force a type instead of the next one in the flow

	// disconnect
	DiscExpiry *uint32 `json:"disc_expiry,omitempty"`
	ShortForm  bool    `json:"short_form,omitempty"`

	// tick
	Tick   string `json:"tick,omitempty"` // clients | retained | inflight | wills | sys
	Offset int64  `json:"offset,omitempty"`

	// release: release the client's parked handler at this point ("" = wherever it is)
	Point string `json:"point,omitempty"`
	// which connection of the client an action addresses: 0 = newest, 1 = the one before, ...
	Older int `json:"older,omitempty"`

	// raw bytes
	Raw []byte `json:"raw,omitempty"`

	// inline API
	InlineID int `json:"inline_id,omitempty"`
	// Nested (inline-sub): the first time this subscription's handler is called, it subscribes NestedID to NestedFilter
	// from inside the call, i.e. while the broker is delivering a message (a subscription made during a publish)
	NestedID     int    `json:"nested_id,omitempty"`
	NestedFilter string `json:"nested_filter,omitempty"`

	// burst: several clients publish at the same time (all packets are handed to the broker before it is allowed to
	// settle, so their handlers really run concurrently)
	Burst []BurstItem `json:"burst,omitempty"`
}

// BurstItem is one client's share of a burst.
type BurstItem struct {
	Client int    `json:"client"`
	Topic  string `json:"topic"`
	QoS    byte   `json:"qos"`
	Count  int    `json:"count"`
	Pads   []int  `json:"pads,omitempty"` // payload padding per message (cyclic); mixes small and large packets
}

// Case is a whole generated history.
type Case struct {
	Cfg     Config   `json:"cfg"`
	Actions []Action `json:"actions"`
}

func ClientID(idx int) string { return fmt.Sprintf("c%d", idx) }

func (a *Action) ClientIDStr() string {
	if a.CID != nil {
		return *a.CID
	}
	return ClientID(a.Client)
}

// InMsg is a QoS>0 message the broker sent to a connection and that this connection has not finished acknowledging.
type InMsg struct {
	PID   uint16
	Tag   int
	QoS   byte
	Stage int // 0 = PUBLISH received; 1 = PUBREC sent; 2 = PUBREL received
}

// OutMsg is a QoS>0 message a connection published and whose exchange is not finished.
type OutMsg struct {
	PID   uint16
	Tag   int
	QoS   byte
	Stage int // 0 = PUBLISH sent; 1 = PUBREC received; 2 = PUBREL sent
	Pkt   *refmqtt.Packet
}

// Peer is one connection opened by the harness.
type Peer struct {
	ID              int
	Client          int
	CID             string
	Link            *sim.Link
	Version         byte
	Connect         *refmqtt.Packet
	AutoAck         bool
	Got             []*refmqtt.Packet // everything received, in order
	GotStep         []int             // step index at which Got[i] was observed
	GotSize         []int             // encoded size in bytes of Got[i]
	WireErr         *WireError        // first hard (framing/format) error; decoding of this connection stopped there
	Soft            []*WireError      // reason-code / property-whitelist objections; decoding continued
	OpenedAt        int
	ClosedAt        int  // step at which the connection was observed closed (-1 while open)
	LeftOpen        bool // at the end of the run: the handler has returned but the broker never closed the connection
	ClosedByHarness bool
	Connack         *refmqtt.Packet
	nextPID         uint16
	In              []*InMsg
	Out             []*OutMsg
}

type WireError struct {
	Step  int
	Class string
	Msg   string
	Bytes []byte
	After int // number of packets decoded on this connection before the error
}

// Established: a success CONNACK was received.
func (p *Peer) Established() bool { return p.Connack != nil && p.Connack.ReasonCode == 0 }

// Obs is one packet observed in a step.
type Obs struct {
	Peer int
	P    *refmqtt.Packet
}

// NestedSub records a subscription that was made from inside an inline handler, while message Tag was being delivered.
type NestedSub struct {
	ID     int
	Filter string
	Step   int
	Tag    int
	Err    string
}

type InlineCall struct {
	ID       int
	Filter   string
	Topic    string
	Tag      int
	Retained bool
	Step     int
}

// Step is the record of one executed action.
type Step struct {
	I       int
	A       Action
	Peer    int // the connection the action used (-1 if none / skipped)
	Skipped bool
	Sent    *refmqtt.Packet
	Tag     int
	Obs     []Obs
	Events  []sim.Event
	Closed  []int // peers observed closed during this step
	Inline  []InlineCall
	Now     int64 // wall-clock second at the start of the step
	TickAt  int64
	Err     string
	Info    InfoSnap
}

type InfoSnap struct {
	ClientsConnected, Subscriptions, Retained, Inflight, InflightDropped, MessagesDropped int64
	// the broker's actual state at the same quiescent point, read from its exported registries (C38)
	ActualSubs, ActualInflight, ActualRetained int64
}

// Run is an executed history.
type Run struct {
	B         *sim.Broker
	Case      *Case
	Peers     []*Peer
	Steps     []*Step
	Tags      map[int]*TagInfo
	Fatal     string // non-empty: the run is inconclusive (no quiescence, ...)
	Dump      string
	tagSeq    int
	inlineMu  sync.Mutex
	inline    []InlineCall
	NestedAt  []NestedSub
	cur       int
	StartedAt int64
	HookLog   []HookCall
	StoreDir  string
	Crash     *CrashHook // non-nil when the run uses a storage hook (the current broker's)
	Crash0    *CrashHook // the first life's storage hook wrapper
	Restarts  []int      // steps at which the broker was restarted
	extra     []mqtt.Hook
	// crash bookkeeping (see CrashHook)
	crashMu         sync.Mutex
	CrashStep       int         // step during which the storage hook was cut off (valid if CrashBytes != nil)
	CrashBytes      map[int]int // peer id -> bytes the broker had written to it at that instant
	WritesAtRestart int         // storage writes forwarded before the (first) restart
}

// TagInfo describes one application message (identified by its payload tag).
type TagInfo struct {
	Tag     int
	Step    int
	Client  int // publishing client index (-1: inline, -2: will)
	CID     string
	Peer    int
	Topic   string
	QoS     byte
	Retain  bool
	Empty   bool
	Props   refmqtt.Props
	Will    bool
	Version byte
	PID     uint16 // packet identifier the harness used (burst publishes only)
}

func TagPayload(tag int) []byte { return []byte(fmt.Sprintf("m%d", tag)) }

// TagOf extracts the tag from a payload ("m<k>"), 0 if the payload is not tagged.
func TagOf(payload []byte) int {
	if len(payload) < 2 || payload[0] != 'm' {
		return 0
	}
	n := 0
	for _, c := range payload[1:] {
		if c < '0' || c > '9' {
			break
		}
		n = n*10 + int(c-'0')
	}
	return n
}

// RichProps are the application properties derived from a tag.
func RichProps(tag int) refmqtt.Props {
	ct := fmt.Sprintf("ct%d", tag)
	rt := fmt.Sprintf("rt/%d", tag)
	return refmqtt.Props{ContentType: &ct, ResponseTopic: &rt, CorrelationData: []byte(fmt.Sprintf("cd%d", tag)),
		User: []refmqtt.KV{{K: "k", V: fmt.Sprint(tag)}, {K: "k", V: "second"}, {K: "é", V: ""}}}
}

func (c *Config) options() *mqtt.Options {
	caps := mqtt.NewDefaultServerCapabilities()
	if c.MaximumQos != nil {
		caps.MaximumQos = *c.MaximumQos
	}
	if c.RetainUnavailable {
		caps.RetainAvailable = 0
	}
	if c.MaximumClients > 0 {
		caps.MaximumClients = c.MaximumClients
	}
	if c.ReceiveMaximum > 0 {
		caps.ReceiveMaximum = c.ReceiveMaximum
	}
	if c.MaximumInflight > 0 {
		caps.MaximumInflight = c.MaximumInflight
	}
	if c.WritesPending > 0 {
		caps.MaximumClientWritesPending = c.WritesPending
	}
	caps.MaximumPacketSize = c.MaximumPacketSize
	if c.TopicAliasMaximum != nil {
		caps.TopicAliasMaximum = *c.TopicAliasMaximum
	}
	if c.MaxSessionExpiry != nil {
		caps.MaximumSessionExpiryInterval = *c.MaxSessionExpiry
	}
	if c.MaxMessageExpiry != nil {
		caps.MaximumMessageExpiryInterval = *c.MaxMessageExpiry
	}
	caps.Compatibilities.ObscureNotAuthorized = c.Obscure
	return &mqtt.Options{Capabilities: caps, ClientNetWriteBufferSize: c.WriteBuf, InlineClient: c.InlineClient}
}

// NewRun builds the broker for a case.
func NewRun(c *Case, extraHooks ...mqtt.Hook) *Run {
	r := &Run{Case: c, Tags: map[int]*TagInfo{}, StartedAt: time.Now().Unix(), extra: extraHooks}
	if c.Cfg.Storage != "" {
		if StorageFactory == nil {
			panic("hist: case uses storage but no backend is linked (import verif/harness/store)")
		}
		dir, err := newStoreDir()
		if err != nil {
			panic(err)
		}
		r.StoreDir = dir
	}
	r.B = r.newBroker(c.Cfg.CrashAfter)
	r.Crash0 = r.Crash
	return r
}

// Crash0State is the state of the first life's storage wrapper: writes forwarded, crashed?, the event that was cut.
func (r *Run) Crash0State() (int, bool, string) {
	if r.Crash0 == nil {
		return 0, false, ""
	}
	return r.Crash0.State()
}

func newStoreDir() (string, error) {
	base := os.TempDir()
	if st, err := os.Stat("/dev/shm"); err == nil && st.IsDir() {
		base = "/dev/shm"
	}
	return os.MkdirTemp(base, "verif-store-")
}

// newBroker builds a broker for the run's configuration (on the run's store, if any).
func (r *Run) newBroker(crashAfter int) *sim.Broker {
	c := r.Case
	b := sim.NewBroker(c.Cfg.options())
	b.FreeTeardown = c.Cfg.FreeTeardown
	b.WriteDelay = time.Duration(c.Cfg.WriteDelayUS) * time.Microsecond
	switch c.Cfg.Auth {
	case "", "allow-all":
		_ = b.S.AddHook(new(auth.AllowHook), nil)
	case "perm":
		_ = b.S.AddHook(&permHook{p: c.Cfg.Perm}, nil)
	case "ledger":
		l := &auth.Ledger{}
		for _, lr := range c.Cfg.Ledger {
			l.Auth = append(l.Auth, auth.AuthRule{Username: auth.RString(lr.Username), Password: auth.RString(lr.Password), Allow: lr.Allow})
		}
		_ = b.S.AddHook(new(auth.Hook), &auth.Options{Ledger: l})
	case "none":
	}
	for i := range c.Cfg.Scripts {
		_ = b.S.AddHook(newScriptHook(r, i, &c.Cfg.Scripts[i]), nil)
	}
	for _, h := range r.extra {
		_ = b.S.AddHook(h, nil)
	}
	if c.Cfg.Storage != "" {
		inner, cfg, err := StorageFactory(c.Cfg.Storage, r.StoreDir)
		if err != nil {
			panic(err)
		}
		ch := &CrashHook{Hook: inner, Budget: crashAfter}
		ch.onCrash = func() { r.noteCrash() }
		if err := b.S.AddHook(ch, cfg); err != nil {
			r.Fatal = "storage hook does not initialise: " + err.Error()
		}
		r.Crash = ch
		if err := b.S.VerifReadStore(); err != nil {
			r.Fatal = "stored state does not load: " + err.Error()
		}
	}
	return b
}

// noteCrash records how much every connection had received at the moment the storage hook was cut off.
func (r *Run) noteCrash() {
	r.crashMu.Lock()
	defer r.crashMu.Unlock()
	r.CrashStep = r.cur
	r.CrashBytes = map[int]int{}
	for _, p := range r.Peers {
		r.CrashBytes[p.ID] = p.Link.Conn.OutLen()
	}
}

// BeforeCrash reports whether the i-th packet a connection received had been written completely before the crash
// instant (always true if there was no crash).
func (r *Run) BeforeCrash(p *Peer, i int) bool {
	if r.CrashBytes == nil {
		return true
	}
	lim, ok := r.CrashBytes[p.ID]
	if !ok {
		return false // the connection was opened after the crash
	}
	n := 0
	for j := 0; j <= i && j < len(p.GotSize); j++ {
		n += p.GotSize[j]
	}
	return n <= lim
}

// Execute runs a case to the end (or until it becomes inconclusive) and always shuts the broker's connections down.
func Execute(c *Case, extraHooks ...mqtt.Hook) *Run {
	r := NewRun(c, extraHooks...)
	defer r.finish()
	for i := range c.Actions {
		if r.Fatal != "" {
			break
		}
		r.Do(c.Actions[i])
	}
	return r
}

// finish shuts the broker's connections down and, for runs on a store, closes and removes the store.
func (r *Run) finish() {
	// a handler that has returned must have closed its connection (every exit path of attachClient stops the client)
	for _, p := range r.Peers {
		if p.Link != nil && p.Link.Done() && !p.Link.Conn.BrokerClosed() {
			p.LeftOpen = true
		}
	}
	r.B.Shutdown()
	if r.StoreDir != "" {
		_ = r.B.S.Close() // stops the hooks, which closes the store
		if StorageCleanup != nil {
			StorageCleanup(r.StoreDir)
		} else {
			_ = os.RemoveAll(r.StoreDir)
		}
	}
}

// live returns the client's connections that are still open, newest first.
func (r *Run) live(client int, cid string) []*Peer {
	var out []*Peer
	for i := len(r.Peers) - 1; i >= 0; i-- {
		p := r.Peers[i]
		if p.CID == cid && p.ClosedAt < 0 {
			out = append(out, p)
		}
	}
	return out
}

// handlerFor selects among the client's connections whose handler has not returned yet (the connection itself may
// already be closed), newest first; used by the schedule actions hold / release.
func (r *Run) handlerFor(a *Action) *Peer {
	var ps []*Peer
	for i := len(r.Peers) - 1; i >= 0; i-- {
		if p := r.Peers[i]; p.CID == a.ClientIDStr() && !p.Link.Done() {
			ps = append(ps, p)
		}
	}
	if len(ps) == 0 {
		return nil
	}
	k := a.Older
	if k >= len(ps) {
		k = len(ps) - 1
	}
	return ps[k]
}

func (r *Run) peerFor(a *Action) *Peer {
	ps := r.live(a.Client, a.ClientIDStr())
	if len(ps) == 0 {
		return nil
	}
	k := a.Older
	if k >= len(ps) {
		k = len(ps) - 1
	}
	return ps[k]
}

func (p *Peer) pid() uint16 {
	for {
		p.nextPID++
		if p.nextPID == 0 {
			p.nextPID = 1
		}
		used := false
		for _, o := range p.Out {
			if o.PID == p.nextPID {
				used = true
			}
		}
		if !used {
			return p.nextPID
		}
	}
}

func (r *Run) send(p *Peer, pk *refmqtt.Packet, st refmqtt.Style) {
	pk.Version = p.Version
	p.Link.Send(refmqtt.Encode(pk, st))
}

// Do executes one action as a step.
func (r *Run) Do(a Action) *Step {
	s := &Step{I: len(r.Steps), A: a, Peer: -1, Now: time.Now().Unix()}
	r.Steps = append(r.Steps, s)
	r.cur = s.I
	ev0 := r.B.Rec.Len()
	if r.Crash != nil && a.Kind != "restart" {
		if _, crashed, _ := r.Crash.State(); crashed {
			// the broker process "died" at the crash instant: nothing after it is part of the first life
			s.Skipped = true
			s.Err = "after the crash"
			return s
		}
	}
	switch a.Kind {
	case "restart":
		r.doRestart(s)
	case "connect":
		r.doConnect(s, &a)
	case "subscribe", "unsubscribe":
		if p := r.peerFor(&a); p != nil && len(a.Filters) > 0 {
			pk := &refmqtt.Packet{Type: refmqtt.SUBSCRIBE, PacketID: a.PID, Filters: a.Filters}
			if a.Kind == "unsubscribe" {
				pk.Type = refmqtt.UNSUBSCRIBE
			}
			if pk.PacketID == 0 {
				pk.PacketID = p.pid()
			}
			if a.SubID > 0 && p.Version == 5 && a.Kind == "subscribe" {
				pk.Props.SubscriptionIDs = []uint32{a.SubID}
			}
			s.Peer, s.Sent = p.ID, pk
			r.send(p, pk, refmqtt.Style{})
		} else {
			s.Skipped = true
		}
	case "publish":
		r.doPublish(s, &a)
	case "ack":
		r.doAck(s, &a)
	case "pubrel":
		if p := r.peerFor(&a); p != nil {
			var cands []*OutMsg
			for _, o := range p.Out {
				if o.QoS == 2 {
					cands = append(cands, o)
				}
			}
			if len(cands) > 0 {
				o := cands[a.Index%len(cands)]
				pk := &refmqtt.Packet{Type: refmqtt.PUBREL, PacketID: o.PID, ReasonCode: a.Reason}
				o.Stage = 2
				s.Peer, s.Sent, s.Tag = p.ID, pk, o.Tag
				r.send(p, pk, refmqtt.Style{OmitReasonCode: a.ShortForm, OmitPropLen: a.ShortForm})
			} else if a.PID != 0 {
				pk := &refmqtt.Packet{Type: refmqtt.PUBREL, PacketID: a.PID, ReasonCode: a.Reason}
				s.Peer, s.Sent = p.ID, pk
				r.send(p, pk, refmqtt.Style{})
			} else {
				s.Skipped = true
			}
		} else {
			s.Skipped = true
		}
	case "ping":
		if p := r.peerFor(&a); p != nil {
			pk := &refmqtt.Packet{Type: refmqtt.PINGREQ}
			s.Peer, s.Sent = p.ID, pk
			r.send(p, pk, refmqtt.Style{})
		} else {
			s.Skipped = true
		}
	case "disconnect":
		if p := r.peerFor(&a); p != nil {
			pk := &refmqtt.Packet{Type: refmqtt.DISCONNECT, ReasonCode: a.Reason}
			if p.Version == 5 && a.DiscExpiry != nil {
				pk.Props.SessionExpiry = a.DiscExpiry
			}
			s.Peer, s.Sent = p.ID, pk
			r.send(p, pk, refmqtt.Style{OmitReasonCode: a.ShortForm, OmitPropLen: a.ShortForm})
		} else {
			s.Skipped = true
		}
	case "drop", "close":
		if p := r.peerFor(&a); p != nil {
			s.Peer = p.ID
			p.ClosedByHarness = true
			if a.Kind == "drop" {
				p.Link.Drop()
			} else {
				p.Link.CloseClean()
			}
		} else {
			s.Skipped = true
		}
	case "raw":
		if p := r.peerFor(&a); p != nil {
			s.Peer = p.ID
			p.Link.Send(a.Raw)
		} else {
			s.Skipped = true
		}
	case "tick":
		s.TickAt = time.Now().Unix() + a.Offset
		r.B.S.VerifHousekeep(a.Tick, s.TickAt)
	case "hold":
		// keep the client's handler parked at the named point (default: where teardown begins) until released
		if p := r.handlerFor(&a); p != nil {
			s.Peer = p.ID
			if a.Point == "" || a.Point == sim.TeardownPoint {
				p.Link.HoldTeardown()
			} else {
				p.Link.ParkAt(a.Point)
			}
		} else {
			s.Skipped = true
		}
	case "release":
		if p := r.handlerFor(&a); p != nil {
			s.Peer = p.ID
			if a.Point == "" {
				p.Link.ReleaseAll()
			} else if !p.Link.Release(a.Point) {
				p.Link.Unpark(a.Point)
			}
		} else {
			s.Skipped = true
		}
	case "inline-sub":
		id, filter := a.InlineID, a.Filters[0].Filter
		record := func(id int) mqtt.InlineSubFn {
			return func(cl *mqtt.Client, sub packets.Subscription, pk packets.Packet) {
				r.inlineMu.Lock()
				r.inline = append(r.inline, InlineCall{ID: id, Filter: sub.Filter, Topic: pk.TopicName, Tag: TagOf(pk.Payload), Retained: pk.FixedHeader.Retain, Step: r.cur})
				r.inlineMu.Unlock()
			}
		}
		handler := record(id)
		if a.NestedID > 0 {
			var once sync.Once
			nid, nf := a.NestedID, a.NestedFilter
			handler = func(cl *mqtt.Client, sub packets.Subscription, pk packets.Packet) {
				record(id)(cl, sub, pk)
				once.Do(func() {
					r.inlineMu.Lock()
					r.NestedAt = append(r.NestedAt, NestedSub{ID: nid, Filter: nf, Step: r.cur, Tag: TagOf(pk.Payload)})
					r.inlineMu.Unlock()
					if err := r.B.S.Subscribe(nf, nid, record(nid)); err != nil {
						r.inlineMu.Lock()
						r.NestedAt[len(r.NestedAt)-1].Err = err.Error()
						r.inlineMu.Unlock()
					}
				})
			}
		}
		err := r.B.S.Subscribe(filter, id, handler)
		if err != nil {
			s.Err = err.Error()
		}
	case "inline-unsub":
		if err := r.B.S.Unsubscribe(a.Filters[0].Filter, a.InlineID); err != nil {
			s.Err = err.Error()
		}
	case "inline-pub":
		r.tagSeq++
		s.Tag = r.tagSeq
		payload := TagPayload(s.Tag)
		if a.Empty {
			payload = nil
		}
		r.Tags[s.Tag] = &TagInfo{Tag: s.Tag, Step: s.I, Client: -1, CID: "inline", Peer: -1, Topic: a.Topic, QoS: a.QoS, Retain: a.Retain, Empty: a.Empty}
		if err := r.B.S.Publish(a.Topic, payload, a.Retain, a.QoS); err != nil {
			s.Err = err.Error()
		}
	case "burst":
		// build every packet first, then deliver them all; tags are allocated per message
		type out struct {
			p  *Peer
			pk *refmqtt.Packet
		}
		var outs []out
		for _, b := range a.Burst {
			ba := Action{Client: b.Client}
			p := r.peerFor(&ba)
			if p == nil {
				continue
			}
			for i := 0; i < b.Count; i++ {
				r.tagSeq++
				tag := r.tagSeq
				pk := &refmqtt.Packet{Type: refmqtt.PUBLISH, QoS: b.QoS, Topic: b.Topic, Payload: TagPayload(tag), Version: p.Version}
				if len(b.Pads) > 0 && b.Pads[i%len(b.Pads)] > 0 {
					pk.Payload = append(pk.Payload, []byte(strings.Repeat(".", b.Pads[i%len(b.Pads)]))...)
				}
				if b.QoS > 0 {
					pk.PacketID = p.pid()
					p.Out = append(p.Out, &OutMsg{PID: pk.PacketID, Tag: tag, QoS: b.QoS, Pkt: pk})
				}
				r.Tags[tag] = &TagInfo{Tag: tag, Step: s.I, Client: p.Client, CID: p.CID, Peer: p.ID, Topic: b.Topic, QoS: b.QoS, Version: p.Version, PID: pk.PacketID}
				outs = append(outs, out{p, pk})
			}
		}
		// interleave the clients' packets
		for i := 0; ; i++ {
			any := false
			seen := map[int]int{}
			for _, o := range outs {
				k := seen[o.p.ID]
				seen[o.p.ID]++
				if k == i {
					o.p.Link.Send(refmqtt.Encode(o.pk, refmqtt.Style{}))
					any = true
				}
			}
			if !any {
				break
			}
		}
		if len(outs) == 0 {
			s.Skipped = true
		}
	case "drain":
		// from now on the connection acknowledges everything promptly, starting with what is outstanding
		if p := r.peerFor(&a); p != nil {
			s.Peer = p.ID
			p.AutoAck = true
			for _, m := range append([]*InMsg{}, p.In...) {
				if ack := r.ackFor(p, m, 0); ack != nil {
					r.send(p, ack, refmqtt.Style{})
				}
			}
			for _, o := range p.Out {
				if o.QoS == 2 && o.Stage == 1 {
					o.Stage = 2
					r.send(p, &refmqtt.Packet{Type: refmqtt.PUBREL, PacketID: o.PID}, refmqtt.Style{})
				}
			}
		} else {
			s.Skipped = true
		}
	case "pidcursor":
		// move the broker's packet identifier cursor of the client's current connection (verif hook; reaches wrap-around cheaply)
		if p := r.peerFor(&a); p != nil && p.Link.Client() != nil {
			s.Peer = p.ID
			p.Link.Client().VerifSetPacketID(uint32(a.Offset))
		} else {
			s.Skipped = true
		}
	case "sleep":
		time.Sleep(time.Duration(a.Offset) * time.Millisecond) // real time passes (used sparingly: aged messages)
	case "nop":
	default:
		panic("hist: unknown action kind " + a.Kind)
	}
	r.settle(s)
	s.Events = r.B.Rec.EventsFrom(ev0)
	r.inlineMu.Lock()
	s.Inline = r.inline
	r.inline = nil
	r.inlineMu.Unlock()
	inf := r.B.S.Info.Clone()
	s.Info = InfoSnap{ClientsConnected: inf.ClientsConnected, Subscriptions: inf.Subscriptions, Retained: inf.Retained, Inflight: inf.Inflight, InflightDropped: inf.InflightDropped, MessagesDropped: inf.MessagesDropped}
	for _, cl := range r.B.S.Clients.GetAll() {
		s.Info.ActualSubs += int64(cl.State.Subscriptions.Len())
		s.Info.ActualInflight += int64(cl.State.Inflight.Len())
	}
	s.Info.ActualRetained = int64(r.B.S.Topics.Retained.Len())
	return s
}

// doRestart ends the broker's first life and starts a new broker on the same store: every open connection is dropped
// (as when the process dies or the listeners close), the handlers finish, Server.Close stops the hooks (closing
// the store), and a fresh server with a fresh hook instance loads what the store holds.
func (r *Run) doRestart(s *Step) {
	if r.StoreDir == "" {
		s.Skipped = true
		return
	}
	for _, p := range r.Peers {
		if p.ClosedAt < 0 {
			p.ClosedByHarness = true
			p.Link.Drop()
		}
	}
	r.settle(s)
	if r.Fatal != "" {
		return
	}
	if r.Crash != nil && len(r.Restarts) == 0 {
		r.WritesAtRestart, _, _ = r.Crash.State()
	}
	r.B.Shutdown()
	_ = r.B.S.Close()
	r.Restarts = append(r.Restarts, s.I)
	r.B = r.newBroker(0)
}

func (r *Run) doConnect(s *Step, a *Action) {
	cid := a.ClientIDStr()
	var link *sim.Link
	if len(a.Park) > 0 {
		link = r.B.OpenParked(cid, a.Park...)
	} else {
		link = r.B.Open(cid)
	}
	ver := a.Version
	if ver == 0 {
		ver = 4
	}
	p := &Peer{ID: len(r.Peers), Client: a.Client, CID: cid, Link: link, Version: ver, AutoAck: a.AutoAck, OpenedAt: s.I, ClosedAt: -1, nextPID: r.Case.Cfg.ClientPIDBase}
	if !a.Clean && a.RawConnect == nil {
		// the client side of a resumed session remembers its unfinished exchanges (MQTT 4.1: the client's session state)
		for i := len(r.Peers) - 1; i >= 0; i-- {
			if q := r.Peers[i]; q.CID == cid {
				for _, o := range q.Out {
					cp := *o
					p.Out = append(p.Out, &cp)
				}
				for _, m := range q.In {
					cp := *m
					p.In = append(p.In, &cp)
				}
				p.nextPID = q.nextPID
				break
			}
		}
	}
	r.Peers = append(r.Peers, p)
	s.Peer = p.ID
	var pk *refmqtt.Packet
	if a.RawConnect != nil {
		cp := *a.RawConnect
		pk = &cp
		if pk.Level == 5 {
			p.Version = 5
		} else if pk.Level == 3 {
			p.Version = 3
		} else {
			p.Version = 4
		}
	} else {
		pk = &refmqtt.Packet{Type: refmqtt.CONNECT, Level: ver, ProtocolName: "MQTT", CleanStart: a.Clean, KeepAlive: a.KeepAlive, ClientID: cid}
		if ver == 3 {
			pk.ProtocolName = "MQIsdp"
		}
		if ver == 5 {
			pk.Props.SessionExpiry, pk.Props.ReceiveMaximum, pk.Props.TopicAliasMaximum, pk.Props.MaximumPacketSize = a.Expiry, a.RecvMax, a.TAM, a.MaxPkt
			pk.Props.RequestProblemInfo, pk.Props.RequestRespInfo = a.ReqProblem, a.ReqResp
		}
		if a.Will != nil {
			r.tagSeq++
			a.Will.Tag = r.tagSeq
			s.A.Will = a.Will
			pk.WillFlag, pk.WillQoS, pk.WillRetain, pk.WillTopic, pk.WillPayload = true, a.Will.QoS, a.Will.Retain, a.Will.Topic, TagPayload(a.Will.Tag)
			if ver == 5 {
				pk.WillProps.WillDelay = a.Will.Delay
			}
			r.Tags[a.Will.Tag] = &TagInfo{Tag: a.Will.Tag, Step: s.I, Client: -2, CID: cid, Peer: p.ID, Topic: a.Will.Topic, QoS: a.Will.QoS, Retain: a.Will.Retain, Will: true, Version: ver}
		}
		if a.Username != "" {
			pk.UsernameFlag, pk.Username = true, []byte(a.Username)
		}
		if a.Password != "" {
			pk.PasswordFlag, pk.Password = true, []byte(a.Password)
		}
	}
	pk.Version = p.Version
	p.Connect = pk
	s.Sent = pk
	if a.RawFirst != nil {
		link.Send(a.RawFirst)
		return
	}
	link.Send(refmqtt.Encode(pk, refmqtt.Style{}))
}

func (r *Run) doPublish(s *Step, a *Action) {
	p := r.peerFor(a)
	if p == nil {
		s.Skipped = true
		return
	}
	if a.Retransmit > 0 {
		var cands []*OutMsg
		for _, o := range p.Out {
			if o.Stage < 2 { // PUBREL not sent yet
				cands = append(cands, o)
			}
		}
		if len(cands) == 0 {
			s.Skipped = true
			return
		}
		o := cands[(a.Retransmit-1)%len(cands)]
		cp := *o.Pkt
		cp.Dup = true
		s.Peer, s.Sent, s.Tag = p.ID, &cp, o.Tag
		r.send(p, &cp, refmqtt.Style{})
		return
	}
	poolPID := uint16(0)
	if a.PIDPool > 0 && a.QoS > 0 {
		for cand := uint16(1); int(cand) <= a.PIDPool && poolPID == 0; cand++ {
			free := true
			for _, o := range p.Out {
				if o.PID == cand {
					free = false
				}
			}
			if free {
				poolPID = cand
			}
		}
		if poolPID == 0 {
			s.Skipped = true
			return
		}
	}
	if a.Limit > 0 && a.QoS > 0 && len(p.Out) >= a.Limit {
		s.Skipped = true
		return
	}
	r.tagSeq++
	tag := r.tagSeq
	pk := &refmqtt.Packet{Type: refmqtt.PUBLISH, QoS: a.QoS, Retain: a.Retain, Dup: a.Dup, Topic: a.Topic, Payload: TagPayload(tag)}
	if a.Pad > 0 {
		pk.Payload = append(pk.Payload, []byte(strings.Repeat(".", a.Pad))...)
	}
	if a.Empty {
		pk.Payload = nil
	}
	if a.QoS > 0 {
		pk.PacketID = a.PID
		if poolPID != 0 {
			pk.PacketID = poolPID
		}
		if pk.PacketID == 0 {
			pk.PacketID = p.pid()
		}
	}
	ti := &TagInfo{Tag: tag, Step: s.I, Client: p.Client, CID: p.CID, Peer: p.ID, Topic: a.Topic, QoS: a.QoS, Retain: a.Retain, Empty: a.Empty, Version: p.Version}
	if p.Version == 5 {
		if a.Rich {
			pk.Props = RichProps(tag)
		}
		pk.Props.MessageExpiry = a.MsgExpiry
		if a.Alias > 0 {
			al := a.Alias
			pk.Props.TopicAlias = &al
		}
		ti.Props = pk.Props
	}
	if a.NoTopic {
		pk.Topic = ""
	}
	r.Tags[tag] = ti
	if a.QoS > 0 {
		p.Out = append(p.Out, &OutMsg{PID: pk.PacketID, Tag: tag, QoS: a.QoS, Pkt: pk})
	}
	s.Peer, s.Sent, s.Tag = p.ID, pk, tag
	r.send(p, pk, refmqtt.Style{})
	if a.ThenDrop {
		p.ClosedByHarness = true
		p.Link.Drop()
	}
}

func (r *Run) doAck(s *Step, a *Action) {
	p := r.peerFor(a)
	if p == nil {
		s.Skipped = true
		return
	}
	if a.PID != 0 { // explicit (possibly bogus) acknowledgement
		t := map[string]byte{"puback": refmqtt.PUBACK, "pubrec": refmqtt.PUBREC, "pubcomp": refmqtt.PUBCOMP, "pubrel": refmqtt.PUBREL}[a.AckType]
		if t == 0 {
			t = refmqtt.PUBACK
		}
		pk := &refmqtt.Packet{Type: t, PacketID: a.PID, ReasonCode: a.Reason}
		s.Peer, s.Sent = p.ID, pk
		r.send(p, pk, refmqtt.Style{OmitReasonCode: a.ShortForm, OmitPropLen: a.ShortForm})
		if a.ThenDrop {
			p.ClosedByHarness = true
			p.Link.Drop()
		}
		return
	}
	if len(p.In) == 0 {
		s.Skipped = true
		return
	}
	m := p.In[a.Index%len(p.In)]
	pk := r.ackFor(p, m, a.Reason)
	if pk == nil {
		s.Skipped = true
		return
	}
	s.Peer, s.Sent, s.Tag = p.ID, pk, m.Tag
	r.send(p, pk, refmqtt.Style{OmitReasonCode: a.ShortForm, OmitPropLen: a.ShortForm})
	if a.ThenDrop { // the broker reads and processes the acknowledgement; what it answers (PUBREL) can no longer be written
		p.ClosedByHarness = true
		p.Link.Drop()
	}
}

// ackFor builds the next acknowledgement in the flow of an inbound message and advances its stage.
func (r *Run) ackFor(p *Peer, m *InMsg, reason byte) *refmqtt.Packet {
	switch {
	case m.QoS == 1:
		p.removeIn(m)
		return &refmqtt.Packet{Type: refmqtt.PUBACK, PacketID: m.PID, ReasonCode: reason}
	case m.Stage == 0:
		m.Stage = 1
		if reason >= 0x80 {
			p.removeIn(m)
		}
		return &refmqtt.Packet{Type: refmqtt.PUBREC, PacketID: m.PID, ReasonCode: reason}
	case m.Stage == 2:
		p.removeIn(m)
		return &refmqtt.Packet{Type: refmqtt.PUBCOMP, PacketID: m.PID, ReasonCode: reason}
	}
	return nil // PUBREC sent, waiting for PUBREL
}

func (p *Peer) removeIn(m *InMsg) {
	for i, x := range p.In {
		if x == m {
			p.In = append(p.In[:i], p.In[i+1:]...)
			return
		}
	}
}

// settle waits for quiescence, decodes new output on every open connection, performs automatic acknowledgements
// and repeats until nothing new happens.
func (r *Run) settle(s *Step) {
	for round := 0; round < 200; round++ {
		if err := r.B.Quiesce(); err != nil {
			r.Fatal = err.Error()
			if e, ok := err.(*sim.ErrNoQuiescence); ok {
				r.Dump = e.Dump
			}
			return
		}
		acted := false
		for _, p := range r.Peers {
			if p.ClosedAt >= 0 && p.WireErr == nil && len(p.Link.Pending()) == 0 {
				continue
			}
			acted = r.drain(s, p) || acted
		}
		if !acted {
			return
		}
	}
	r.Fatal = "automatic acknowledgement did not settle in 200 rounds"
}

// drain decodes what a connection received since the last call; returns true if the harness sent something in response.
func (r *Run) drain(s *Step, p *Peer) bool {
	acted := false
	if p.WireErr == nil {
		b := p.Link.TakeBytes()
		for len(b) > 0 {
			pk, n, err := refmqtt.Decode(b, p.Version, refmqtt.ServerToClient)
			if err != nil {
				if refmqtt.IsIncomplete(err) {
					p.Link.Unread(len(b))
					break
				}
				cls := "error"
				if de, ok := err.(*refmqtt.DecodeError); ok {
					cls = de.Class
				}
				we := &WireError{Step: s.I, Class: cls, Msg: err.Error(), Bytes: append([]byte{}, b...), After: len(p.Got)}
				if cls == "direction" && len(b) >= 2 {
					// a packet type the server may not send on this connection, but possibly framed correctly: skip it as
					// a unit so that what follows can still be judged
					if plen, ok := framedLen(b); ok {
						pk, n = &refmqtt.Packet{Type: b[0] >> 4, Version: p.Version}, plen
					}
				}
				if (cls == "reason-code" || cls == "property" || cls == "direction") && pk != nil && n > 0 && n <= len(b) {
					// the packet is framed correctly but uses a code / property the specification does not list
					// for it: record the objection and keep reading (the packet is used as far as it was decoded)
					we.Bytes = append([]byte{}, b[:n]...)
					p.Soft = append(p.Soft, we)
				} else {
					p.WireErr = we
					break
				}
			}
			b = b[n:]
			p.Got = append(p.Got, pk)
			p.GotStep = append(p.GotStep, s.I)
			p.GotSize = append(p.GotSize, n)
			s.Obs = append(s.Obs, Obs{Peer: p.ID, P: pk})
			acted = r.react(s, p, pk) || acted
		}
	}
	if p.ClosedAt < 0 && p.Link.Closed() {
		// an incomplete trailing packet on a closed connection is a framing error
		if p.WireErr == nil {
			if rest := p.Link.Pending(); len(rest) > 0 {
				p.WireErr = &WireError{Step: s.I, Class: "framing", Msg: "connection closed in the middle of a packet", Bytes: rest, After: len(p.Got)}
			}
		}
		p.ClosedAt = s.I
		s.Closed = append(s.Closed, p.ID)
	}
	return acted
}

// react updates the connection's bookkeeping for a received packet and sends automatic acknowledgements.
func (r *Run) react(s *Step, p *Peer, pk *refmqtt.Packet) bool {
	switch pk.Type {
	case refmqtt.CONNACK:
		if p.Connack == nil {
			p.Connack = pk
		}
	case refmqtt.PUBLISH:
		if pk.QoS > 0 {
			var m *InMsg
			for _, x := range p.In {
				if x.PID == pk.PacketID {
					m = x
				}
			}
			if m == nil {
				m = &InMsg{PID: pk.PacketID, Tag: TagOf(pk.Payload), QoS: pk.QoS}
				p.In = append(p.In, m)
			}
			if p.AutoAck && p.ClosedAt < 0 {
				if ack := r.ackFor(p, m, 0); ack != nil {
					r.send(p, ack, refmqtt.Style{})
					return true
				}
			}
		}
	case refmqtt.PUBREL:
		for _, x := range p.In {
			if x.PID == pk.PacketID && x.QoS == 2 {
				x.Stage = 2
				if p.AutoAck && p.ClosedAt < 0 {
					if ack := r.ackFor(p, x, 0); ack != nil {
						r.send(p, ack, refmqtt.Style{})
						return true
					}
				}
				return false
			}
		}
		if p.AutoAck && p.ClosedAt < 0 { // PUBREL for something we no longer know: complete it anyway
			r.send(p, &refmqtt.Packet{Type: refmqtt.PUBCOMP, PacketID: pk.PacketID}, refmqtt.Style{})
			return true
		}
	case refmqtt.PUBACK:
		p.removeOut(pk.PacketID, 1)
	case refmqtt.PUBREC:
		for _, o := range p.Out {
			if o.PID == pk.PacketID && o.QoS == 2 && o.Stage == 0 {
				o.Stage = 1
				if pk.ReasonCode >= 0x80 {
					p.removeOut(pk.PacketID, 2)
					return false
				}
				if p.AutoAck && p.ClosedAt < 0 {
					o.Stage = 2
					r.send(p, &refmqtt.Packet{Type: refmqtt.PUBREL, PacketID: o.PID}, refmqtt.Style{})
					return true
				}
				return false
			}
		}
	case refmqtt.PUBCOMP:
		p.removeOut(pk.PacketID, 2)
	}
	return false
}

func (p *Peer) removeOut(pid uint16, qos byte) {
	for i, o := range p.Out {
		if o.PID == pid && o.QoS == qos {
			p.Out = append(p.Out[:i], p.Out[i+1:]...)
			return
		}
	}
}

// ---- rendering (failure reports, evidence samples) -----------------------------------------------------

func (a Action) String() string {
	switch a.Kind {
	case "connect":
		s := fmt.Sprintf("connect %s v%d clean=%v", a.ClientIDStr(), a.Version, a.Clean)
		if a.Expiry != nil {
			s += fmt.Sprintf(" expiry=%d", *a.Expiry)
		}
		if a.RecvMax != nil {
			s += fmt.Sprintf(" recvmax=%d", *a.RecvMax)
		}
		if a.TAM != nil {
			s += fmt.Sprintf(" tam=%d", *a.TAM)
		}
		if a.MaxPkt != nil {
			s += fmt.Sprintf(" maxpkt=%d", *a.MaxPkt)
		}
		if a.Will != nil {
			s += fmt.Sprintf(" will{%s q%d r=%v", a.Will.Topic, a.Will.QoS, a.Will.Retain)
			if a.Will.Delay != nil {
				s += fmt.Sprintf(" delay=%d", *a.Will.Delay)
			}
			s += "}"
		}
		if a.AutoAck {
			s += " autoack"
		}
		if len(a.Park) > 0 {
			s += " park=" + strings.Join(a.Park, ",")
		}
		return s
	case "subscribe", "unsubscribe":
		fs := []string{}
		for _, f := range a.Filters {
			x := fmt.Sprintf("%s q%d", f.Filter, f.QoS)
			if f.NoLocal {
				x += " nl"
			}
			if f.RAP {
				x += " rap"
			}
			if f.RH > 0 {
				x += fmt.Sprintf(" rh%d", f.RH)
			}
			fs = append(fs, x)
		}
		s := fmt.Sprintf("%s %s [%s]", a.Kind, a.ClientIDStr(), strings.Join(fs, "; "))
		if a.SubID > 0 {
			s += fmt.Sprintf(" subid=%d", a.SubID)
		}
		if a.PID > 0 {
			s += fmt.Sprintf(" pid=%d", a.PID)
		}
		return s
	case "publish":
		s := fmt.Sprintf("publish %s %q q%d", a.ClientIDStr(), a.Topic, a.QoS)
		if a.Retain {
			s += " retain"
		}
		if a.Empty {
			s += " empty"
		}
		if a.PID > 0 {
			s += fmt.Sprintf(" pid=%d", a.PID)
		}
		if a.Retransmit > 0 {
			s += fmt.Sprintf(" retransmit#%d", a.Retransmit)
		}
		if a.Alias > 0 {
			s += fmt.Sprintf(" alias=%d", a.Alias)
		}
		if a.NoTopic {
			s += " notopic"
		}
		if a.MsgExpiry != nil {
			s += fmt.Sprintf(" msgexpiry=%d", *a.MsgExpiry)
		}
		if a.ThenDrop {
			s += " then-drop"
		}
		return s
	case "ack", "pubrel":
		td := ""
		if a.ThenDrop {
			td = " then-drop"
		}
		return fmt.Sprintf("%s %s #%d reason=0x%02X %s pid=%d%s", a.Kind, a.ClientIDStr(), a.Index, a.Reason, a.AckType, a.PID, td)
	case "disconnect":
		s := fmt.Sprintf("disconnect %s reason=0x%02X", a.ClientIDStr(), a.Reason)
		if a.DiscExpiry != nil {
			s += fmt.Sprintf(" expiry=%d", *a.DiscExpiry)
		}
		return s
	case "tick":
		return fmt.Sprintf("tick %s %+d", a.Tick, a.Offset)
	case "sleep":
		return fmt.Sprintf("sleep %d ms", a.Offset)
	case "pidcursor":
		return fmt.Sprintf("pidcursor %s %d", a.ClientIDStr(), a.Offset)
	case "burst":
		return fmt.Sprintf("burst %+v", a.Burst)
	case "inline-sub", "inline-unsub":
		return fmt.Sprintf("%s id=%d %s", a.Kind, a.InlineID, a.Filters[0].Filter)
	case "inline-pub":
		return fmt.Sprintf("inline-pub %q q%d retain=%v", a.Topic, a.QoS, a.Retain)
	case "release":
		return fmt.Sprintf("release %s %s older=%d", a.ClientIDStr(), a.Point, a.Older)
	case "hold":
		return fmt.Sprintf("hold %s %s", a.ClientIDStr(), a.Point)
	}
	return fmt.Sprintf("%s %s", a.Kind, a.ClientIDStr())
}

// Transcript renders the executed history with what each connection received.
func (r *Run) Transcript() string {
	var sb strings.Builder
	for _, s := range r.Steps {
		fmt.Fprintf(&sb, "%3d %s", s.I, s.A.String())
		if s.Skipped {
			sb.WriteString("  (skipped)")
		}
		if s.Tag > 0 {
			fmt.Fprintf(&sb, "  [m%d]", s.Tag)
		}
		if s.Err != "" {
			fmt.Fprintf(&sb, "  err=%s", s.Err)
		}
		sb.WriteString("\n")
		for _, o := range s.Obs {
			fmt.Fprintf(&sb, "      <- %s#%d: %s\n", r.Peers[o.Peer].CID, o.Peer, o.P)
		}
		for _, p := range r.Peers {
			if p.WireErr != nil && p.WireErr.Step == s.I {
				fmt.Fprintf(&sb, "      !! %s#%d wire error (%s) %s at % x\n", p.CID, p.ID, p.WireErr.Class, p.WireErr.Msg, clipBytes(p.WireErr.Bytes))
			}
			for _, we := range p.Soft {
				if we.Step == s.I {
					fmt.Fprintf(&sb, "      !  %s#%d %s at % x\n", p.CID, p.ID, we.Msg, clipBytes(we.Bytes))
				}
			}
		}
		for _, c := range s.Closed {
			fmt.Fprintf(&sb, "      xx %s#%d closed\n", r.Peers[c].CID, c)
		}
		for _, e := range s.Events {
			if e.Kind == "packet-sent" || e.Kind == "qos-publish" || e.Kind == "qos-complete" {
				continue
			}
			fmt.Fprintf(&sb, "      ev %s client=%s\n", e.Kind, e.Client)
		}
		for _, ic := range s.Inline {
			fmt.Fprintf(&sb, "      inline id=%d filter=%s topic=%s m%d retained=%v\n", ic.ID, ic.Filter, ic.Topic, ic.Tag, ic.Retained)
		}
	}
	if r.Fatal != "" {
		fmt.Fprintf(&sb, "FATAL: %s\n", r.Fatal)
	}
	return sb.String()
}

// Summary renders only the actions (for evidence samples).
func (c *Case) Summary() []string {
	out := []string{}
	for _, a := range c.Actions {
		out = append(out, a.String())
	}
	return out
}

func clipBytes(b []byte) []byte {
	if len(b) > 40 {
		return b[:40]
	}
	return b
}

// framedLen returns the total length of the packet at the front of b according to its fixed header, if complete.
func framedLen(b []byte) (int, bool) {
	v, mult := 0, 1
	for i := 1; i < len(b) && i <= 4; i++ {
		v += int(b[i]&0x7F) * mult
		mult *= 128
		if b[i]&0x80 == 0 {
			if 1+i+v <= len(b) {
				return 1 + i + v, true
			}
			return 0, false
		}
	}
	return 0, false
}
