// Package pc31 holds the check of property C31: the topic index (TopicsIndex in /repo/topics.go) stays
// consistent under any concurrent history.
//
// Domain: a small nested key universe (a handful of trie nodes, each carrying up to four different kinds of
// occupants: plain subscriptions of two clients, shared subscriptions, inline subscriptions, a retained message),
// a serial prefix, 1-4 goroutines that run generated Subscribe / Unsubscribe / InlineSubscribe / InlineUnsubscribe /
// RetainMessage(payload | empty) operations at once, and 0-2 goroutines that only read during the batch.
//
// Oracle: the reference model is one cell per key (absent | present with the tag of the writing operation).
// Operations on different keys commute in that model, so linearizability factors per key: for every key, a
// brute-force enumeration of all interleavings of the operations on it that respect each goroutine's program order
// must find one that reproduces every recorded return value and ends in the state that Subscribers(topic) /
// Messages(filter) report after the join (the topics/filters that see a key are decided by the reference matcher
// verif/harness/reftopic). A serial suffix (probe re-subscribe, drain) is judged by the same search.
package pc31

import (
	"encoding/json"
	"fmt"
	"os"
	"regexp"
	"runtime"
	"sort"
	"strconv"
	"strings"
	"sync"
	"sync/atomic"
	"testing"
	"time"

	mqtt "github.com/mochi-mqtt/server/v2"
	"github.com/mochi-mqtt/server/v2/packets"
	"pgregory.net/rapid"
	"verif/harness/evid"
	"verif/harness/reftopic"
)

// ---- case data ------------------------------------------------------------------------------------------

// keyT identifies one cell of the reference model.
//
//	kind "sub":    plain subscription of Client to filter Node
//	kind "shared": subscription of Client to $share/Group/Node
//	kind "inline": inline subscription ID to filter Node
//	kind "ret":    retained message on topic Node
type keyT struct {
	Kind   string `json:"kind"`
	Node   string `json:"node"`
	Client string `json:"client,omitempty"`
	Group  string `json:"group,omitempty"`
	ID     int    `json:"id,omitempty"`
}

func (k keyT) String() string {
	switch k.Kind {
	case "sub":
		return fmt.Sprintf("sub(%s,%s)", k.Client, k.Node)
	case "shared":
		return fmt.Sprintf("sub(%s,$share/%s/%s)", k.Client, k.Group, k.Node)
	case "inline":
		return fmt.Sprintf("inline(%d,%s)", k.ID, k.Node)
	}
	return fmt.Sprintf("retained(%s)", k.Node)
}

func (k keyT) filter() string {
	if k.Kind == "shared" {
		return "$share/" + k.Group + "/" + k.Node
	}
	return k.Node
}

// opT is one mutating call: Del=false sets the key (subscribe / inline subscribe / retain a payload), Del=true
// removes it (unsubscribe / inline unsubscribe / retain an empty payload). Y = number of runtime.Gosched() calls
// made before the call (a schedule hint that is part of the case).
type opT struct {
	K   int  `json:"k"`
	Del bool `json:"del"`
	Y   int  `json:"y,omitempty"`
}

// qT is one read: Subscribers(Arg) when Sub, Messages(Arg) otherwise.
type qT struct {
	Sub bool   `json:"sub"`
	Arg string `json:"arg"`
}

type caseT struct {
	Keys    []keyT  `json:"keys"`
	Prefix  []opT   `json:"prefix"`
	G       [][]opT `json:"g"`
	Readers [][]qT  `json:"readers"`
}

var (
	allNodes   = []string{"a", "a/b", "a/b/c", "a/d", "a/+", "a/#", "a/b/#", "+/b", "a/+/c", "#"}
	readTopics = []string{"a", "a/b", "a/b/c", "a/d", "b", "a/d/c"}
	msgFilters = []string{"a", "a/b", "a/b/c", "a/d", "a/+", "a/#", "a/b/#", "+/b", "#", "+", "a/b/+", "a/+/c", "+/+"}
	slots      = []keyT{
		{Kind: "sub", Client: "c1"}, {Kind: "sub", Client: "c2"},
		{Kind: "shared", Group: "g", Client: "c1"}, {Kind: "shared", Group: "g", Client: "c2"}, {Kind: "shared", Group: "h", Client: "c1"},
		{Kind: "inline", ID: 1}, {Kind: "inline", ID: 2},
		{Kind: "ret"}, {Kind: "ret"}, // retained twice: wildcard-free nodes get one more often
	}
)

func hasWild(s string) bool { return strings.ContainsAny(s, "+#") }

func genCase(t *rapid.T) caseT {
	var c caseT
	nodes := rapid.SliceOfNDistinct(rapid.SampledFrom(allNodes), 1, 3, rapid.ID[string]).Draw(t, "nodes")
	seen := map[keyT]bool{}
	for _, n := range nodes {
		ss := rapid.SliceOfNDistinct(rapid.IntRange(0, len(slots)-1), 1, 4, rapid.ID[int]).Draw(t, "slots")
		for _, si := range ss {
			k := slots[si]
			k.Node = n
			if k.Kind == "ret" && hasWild(n) {
				k = keyT{Kind: "sub", Client: "c1", Node: n}
			}
			if !seen[k] {
				seen[k] = true
				c.Keys = append(c.Keys, k)
			}
		}
	}
	op := rapid.Custom(func(t *rapid.T) opT {
		return opT{
			K:   rapid.IntRange(0, len(c.Keys)-1).Draw(t, "k"),
			Del: rapid.IntRange(0, 9).Draw(t, "del") < 4,
			Y:   rapid.SampledFrom([]int{0, 0, 0, 1, 2}).Draw(t, "y"),
		}
	})
	c.Prefix = rapid.SliceOfN(op, 0, 5).Draw(t, "prefix")
	c.G = rapid.SliceOfN(rapid.SliceOfN(op, 1, 8), 1, 4).Draw(t, "goroutines")
	q := rapid.Custom(func(t *rapid.T) qT {
		if rapid.Bool().Draw(t, "sub") {
			return qT{Sub: true, Arg: rapid.SampledFrom(readTopics).Draw(t, "topic")}
		}
		return qT{Arg: rapid.SampledFrom(msgFilters).Draw(t, "filter")}
	})
	c.Readers = rapid.SliceOfN(rapid.SliceOfN(q, 1, 6), 0, 2).Draw(t, "readers")
	if c.Prefix == nil {
		c.Prefix = []opT{}
	}
	if c.Readers == nil {
		c.Readers = [][]qT{}
	}
	return c
}

// ---- executing one operation ----------------------------------------------------------------------------

func noopHandler(cl *mqtt.Client, sub packets.Subscription, pk packets.Packet) {}

// apply performs one mutating call and returns its return value as an integer (bool: 1/0; RetainMessage: as is).
func apply(x *mqtt.TopicsIndex, k keyT, del bool, tag int) int64 {
	b := func(v bool) int64 {
		if v {
			return 1
		}
		return 0
	}
	switch k.Kind {
	case "sub", "shared":
		if del {
			return b(x.Unsubscribe(k.filter(), k.Client))
		}
		return b(x.Subscribe(k.Client, packets.Subscription{Filter: k.filter(), Qos: byte(tag % 3), Identifier: tag}))
	case "inline":
		if del {
			return b(x.InlineUnsubscribe(k.ID, k.Node))
		}
		return b(x.InlineSubscribe(mqtt.InlineSubscription{
			Subscription: packets.Subscription{Filter: k.Node, Identifier: k.ID, Identifiers: map[string]int{"tag": tag}},
			Handler:      noopHandler,
		}))
	case "ret":
		pk := packets.Packet{FixedHeader: packets.FixedHeader{Type: packets.Publish, Retain: true}, TopicName: k.Node}
		if !del {
			pk.Payload = []byte("p" + strconv.Itoa(tag))
		}
		return x.RetainMessage(pk)
	}
	panic("bad key kind " + k.Kind)
}

// ---- observations ---------------------------------------------------------------------------------------

// obsT is what one query shows about the keys of the case: for a key, either an exact state (0 absent, tag>0
// present with that tag) or nothing (the key is not visible through this query, or it is masked).
type obsT struct {
	exact   map[int]int // key index -> state
	foreign []string    // things in the result that are no key of the case or do not match the query
}

func payloadTag(p []byte) int {
	if len(p) < 2 || p[0] != 'p' {
		return -1
	}
	n, err := strconv.Atoi(string(p[1:]))
	if err != nil {
		return -1
	}
	return n
}

// observeSubscribers turns the result of Subscribers(topic) into per-key observations.
func observeSubscribers(keys []keyT, topic string, s *mqtt.Subscribers) obsT {
	o := obsT{exact: map[int]int{}}
	idx := map[keyT]int{}
	for i, k := range keys {
		idx[k] = i
	}
	// plain subscriptions: the merged subscription of a client lists every matching filter with its identifier
	seenSub := map[int]bool{}
	for client, sub := range s.Subscriptions {
		ids := sub.Identifiers
		if ids == nil {
			ids = map[string]int{sub.Filter: sub.Identifier}
		}
		for f, id := range ids {
			i, ok := idx[keyT{Kind: "sub", Node: f, Client: client}]
			if !ok || !reftopic.Match(f, topic) || id <= 0 {
				o.foreign = append(o.foreign, fmt.Sprintf("Subscriptions[%s] lists filter %q id %d", client, f, id))
				continue
			}
			o.exact[i] = id
			seenSub[i] = true
		}
	}
	seenShared := map[int]bool{}
	for f, m := range s.Shared {
		g, rest, shared, ok := reftopic.SplitShare(f)
		for client, sub := range m {
			i, found := idx[keyT{Kind: "shared", Node: rest, Group: g, Client: client}]
			if !shared || !ok || !found || !reftopic.Match(rest, topic) || sub.Filter != f || sub.Identifier <= 0 {
				o.foreign = append(o.foreign, fmt.Sprintf("Shared[%s][%s] = {filter %q id %d}", f, client, sub.Filter, sub.Identifier))
				continue
			}
			o.exact[i] = sub.Identifier
			seenShared[i] = true
		}
	}
	inlineSeen := map[int]bool{} // inline id -> present in the result
	for id, in := range s.InlineSubscriptions {
		i, found := idx[keyT{Kind: "inline", Node: in.Filter, ID: id}]
		tag := in.Identifiers["tag"]
		if !found || in.Identifier != id || !reftopic.Match(in.Filter, topic) || tag <= 0 {
			o.foreign = append(o.foreign, fmt.Sprintf("InlineSubscriptions[%d] = {filter %q id %d tag %d}", id, in.Filter, in.Identifier, tag))
			continue
		}
		o.exact[i] = tag
		inlineSeen[id] = true
	}
	for i, k := range keys {
		if k.Kind == "ret" || !reftopic.Match(k.Node, topic) {
			continue
		}
		switch k.Kind {
		case "sub":
			if !seenSub[i] {
				o.exact[i] = 0
			}
		case "shared":
			if !seenShared[i] {
				o.exact[i] = 0
			}
		case "inline":
			// the result holds one inline subscription per id: an id that is missing proves every matching key
			// of that id absent; an id that is present with another filter says nothing about this key
			if _, ok := s.InlineSubscriptions[k.ID]; !ok {
				o.exact[i] = 0
			}
		}
	}
	return o
}

// observeMessages turns the result of Messages(filter) into per-key observations.
func observeMessages(keys []keyT, filter string, pks []packets.Packet) obsT {
	o := obsT{exact: map[int]int{}}
	idx := map[string]int{}
	for i, k := range keys {
		if k.Kind == "ret" {
			idx[k.Node] = i
		}
	}
	for _, pk := range pks {
		i, ok := idx[pk.TopicName]
		tag := payloadTag(pk.Payload)
		if !ok || !reftopic.Match(filter, pk.TopicName) || tag <= 0 {
			o.foreign = append(o.foreign, fmt.Sprintf("message {topic %q payload %q}", pk.TopicName, pk.Payload))
			continue
		}
		if prev, dup := o.exact[i]; dup && prev != tag {
			o.foreign = append(o.foreign, fmt.Sprintf("topic %q returned twice with payloads p%d and p%d", pk.TopicName, prev, tag))
			continue
		}
		o.exact[i] = tag
	}
	for t, i := range idx {
		if _, ok := o.exact[i]; !ok && reftopic.Match(filter, t) {
			o.exact[i] = 0
		}
	}
	return o
}

func runQuery(x *mqtt.TopicsIndex, keys []keyT, q qT) obsT {
	if q.Sub {
		return observeSubscribers(keys, q.Arg, x.Subscribers(q.Arg))
	}
	return observeMessages(keys, q.Arg, x.Messages(q.Arg))
}

func (q qT) String() string {
	if q.Sub {
		return "Subscribers(" + q.Arg + ")"
	}
	return "Messages(" + q.Arg + ")"
}

// ---- per-key linearizability search -----------------------------------------------------------------------

type mop struct {
	del bool
	tag int
	ret int64
	who string // "prefix", "g0".., "suffix" (for messages)
}

func (m mop) String() string {
	if m.del {
		return fmt.Sprintf("%s:del→%d", m.who, m.ret)
	}
	return fmt.Sprintf("%s:set#%d→%d", m.who, m.tag, m.ret)
}

// expected return value of an operation in state st (0 absent, >0 present) per the documentation of topics.go.
func expectRet(kind string, del bool, st int) int64 {
	if kind == "ret" {
		if !del {
			return 1 // "Returns 1 if a retained message was added" (the repo's own test pins 1 for a replacement too)
		}
		if st != 0 {
			return -1
		}
		return 0
	}
	if del == (st != 0) {
		return 1 // subscribe: was new; unsubscribe: existed
	}
	return 0
}

// anomaly names one class of deviation the search may be told to tolerate, so that a failed search can be
// attributed to the narrowest single explanation.
type anomaly struct {
	name string
	ok   func(kind string, del bool, st int, ret int64) bool
}

func isSubKind(kind string) bool { return kind == "sub" || kind == "shared" }

var anomalies = []anomaly{
	{"unsubscribe-reports-existed-for-absent-subscription", func(kind string, del bool, st int, ret int64) bool {
		return isSubKind(kind) && del && st == 0 && ret == 1
	}},
	{"inline-unsubscribe-reports-existed-for-absent-subscription", func(kind string, del bool, st int, ret int64) bool {
		return kind == "inline" && del && st == 0 && ret == 1
	}},
	{"unsubscribe-reports-missing-for-existing-subscription", func(kind string, del bool, st int, ret int64) bool {
		return isSubKind(kind) && del && st != 0 && ret == 0
	}},
	{"inline-unsubscribe-reports-missing-for-existing-subscription", func(kind string, del bool, st int, ret int64) bool {
		return kind == "inline" && del && st != 0 && ret == 0
	}},
	{"subscribe-reports-new-for-existing-subscription", func(kind string, del bool, st int, ret int64) bool {
		return isSubKind(kind) && !del && st != 0 && ret == 1
	}},
	{"subscribe-reports-existing-for-new-subscription", func(kind string, del bool, st int, ret int64) bool {
		return isSubKind(kind) && !del && st == 0 && ret == 0
	}},
	{"inline-subscribe-reports-new-for-existing-subscription", func(kind string, del bool, st int, ret int64) bool {
		return kind == "inline" && !del && st != 0 && ret == 1
	}},
	{"inline-subscribe-reports-existing-for-new-subscription", func(kind string, del bool, st int, ret int64) bool {
		return kind == "inline" && !del && st == 0 && ret == 0
	}},
	{"retain-set-return-value", func(kind string, del bool, st int, ret int64) bool { return kind == "ret" && !del }},
	{"retain-clear-return-value", func(kind string, del bool, st int, ret int64) bool { return kind == "ret" && del }},
}

type keyHist struct {
	kind    string
	prefix  []mop
	threads [][]mop
	suffix  []mop
	final   int // observed state after the join: -1 unconstrained, 0 absent, >0 tag
	drained int // observed state after the suffix: -1 unconstrained
}

// step applies one operation; ok=false if its recorded return value is impossible in state st (and not tolerated).
func step(kind string, m mop, st int, tol *anomaly) (int, bool) {
	if m.ret != expectRet(kind, m.del, st) {
		if tol == nil || !tol.ok(kind, m.del, st, m.ret) {
			return 0, false
		}
	}
	if m.del {
		return 0, true
	}
	return m.tag, true
}

// linearizable enumerates the interleavings. ignoreFinal drops the two state observations. With collect set it
// does not stop at the first explanation and returns every state reachable at the join.
func (h *keyHist) linearizable(tol *anomaly, ignoreFinal, collect bool) (bool, map[int]bool) {
	st := 0
	for _, m := range h.prefix {
		var ok bool
		if st, ok = step(h.kind, m, st, tol); !ok {
			return false, nil
		}
	}
	joinStates := map[int]bool{}
	pos := make([]int, len(h.threads))
	seen := map[string]bool{}
	finish := func(st int) bool {
		if !ignoreFinal && h.final >= 0 && st != h.final {
			return false
		}
		for _, m := range h.suffix {
			var ok bool
			if st, ok = step(h.kind, m, st, tol); !ok {
				return false
			}
		}
		return ignoreFinal || h.drained < 0 || st == h.drained
	}
	found := false
	var dfs func(st int) bool
	dfs = func(st int) bool {
		key := fmt.Sprint(pos, st)
		if seen[key] {
			return false
		}
		seen[key] = true
		done := true
		for t := range h.threads {
			if pos[t] < len(h.threads[t]) {
				done = false
				m := h.threads[t][pos[t]]
				if ns, ok := step(h.kind, m, st, tol); ok {
					pos[t]++
					r := dfs(ns)
					pos[t]--
					if r && !collect {
						return true
					}
				}
			}
		}
		if done {
			joinStates[st] = true
			if finish(st) {
				found = true
				return true
			}
		}
		return false
	}
	dfs(st)
	return found, joinStates
}

func (h *keyHist) describe() string {
	var b strings.Builder
	fmt.Fprintf(&b, "prefix %v", h.prefix)
	for i, t := range h.threads {
		fmt.Fprintf(&b, " | g%d %v", i, t)
	}
	fmt.Fprintf(&b, " | state read back after join: %s | suffix %v | state read back after drain: %s", stName(h.final), h.suffix, stName(h.drained))
	return b.String()
}

func stName(s int) string {
	switch {
	case s < 0:
		return "(not visible)"
	case s == 0:
		return "absent"
	}
	return fmt.Sprintf("present#%d", s)
}

// judge returns the discrepancy of one key, attributed to the narrowest single explanation.
func (h *keyHist) judge(k keyT) *evid.Disc {
	if ok, _ := h.linearizable(nil, false, false); ok {
		return nil
	}
	for i := range anomalies {
		if ok, _ := h.linearizable(&anomalies[i], false, false); ok {
			d := evid.D("C31-"+anomalies[i].name, "%s: every serial order of the operations on this key contains a call whose recorded return value contradicts the model, and the single deviation that explains the history is: %s. History (op→return value; set#n = subscribe/retain tagged n, del = unsubscribe/clear): %s", k, anomalies[i].name, h.describe())
			return &d
		}
	}
	if ok, states := h.linearizable(nil, true, true); ok {
		// the return values are explained; a state read back is not reachable
		what, obs := "after-drain", h.drained
		if h.final >= 0 && !states[h.final] {
			obs = h.final
			written := false
			for _, ops := range append([][]mop{h.prefix}, h.threads...) {
				for _, m := range ops {
					if !m.del && m.tag == obs {
						written = true
					}
				}
			}
			switch {
			case obs == 0:
				what = "lost"
			case !written:
				what = "foreign"
			case len(states) == 1 && states[0]:
				what = "resurrected"
			default:
				what = "stale"
			}
		}
		d := evid.D("C31-final-state-"+what+"-"+k.Kind, "%s: read back as %s, which no serial order of the operations produces (reachable at the join: %v): %s", k, stName(obs), stateList(states), h.describe())
		return &d
	}
	d := evid.D("C31-not-linearizable-"+k.Kind, "%s: no serial order explains return values and final state: %s", k, h.describe())
	return &d
}

func stateList(m map[int]bool) []string {
	var s []int
	for k := range m {
		s = append(s, k)
	}
	sort.Ints(s)
	out := []string{}
	for _, k := range s {
		out = append(out, stName(k))
	}
	return out
}

// ---- running a case ---------------------------------------------------------------------------------------

type readerFinding struct {
	sig, msg string
}

func validCase(c caseT) bool {
	if len(c.Keys) == 0 || len(c.G) == 0 {
		return false
	}
	chk := func(ops []opT) bool {
		for _, o := range ops {
			if o.K < 0 || o.K >= len(c.Keys) {
				return false
			}
		}
		return true
	}
	if !chk(c.Prefix) {
		return false
	}
	for _, g := range c.G {
		if !chk(g) {
			return false
		}
	}
	for _, k := range c.Keys {
		switch k.Kind {
		case "sub", "shared", "inline":
			if !reftopic.ValidFilter(k.filter()) {
				return false
			}
		case "ret":
			if hasWild(k.Node) || k.Node == "" {
				return false
			}
		default:
			return false
		}
	}
	return true
}

const joinTimeout = 60 * time.Second

// runOnce executes the case once on a fresh index and judges it. avoidRetainRace drops wildcard Messages reads that
// run concurrently with retain operations (see the data-race note in TestC31).
func runOnce(c caseT, r *evid.Rec, avoidRetainRace bool) []evid.Disc {
	x := mqtt.NewTopicsIndex()
	keys := c.Keys
	hs := make([]*keyHist, len(keys))
	for i, k := range keys {
		hs[i] = &keyHist{kind: k.Kind, threads: make([][]mop, len(c.G)), final: -1, drained: -1}
	}
	tag := 0
	// serial prefix
	init := make([]int, len(keys)) // model state after the prefix (return values ignored)
	for _, o := range c.Prefix {
		tag++
		ret := apply(x, keys[o.K], o.Del, tag)
		hs[o.K].prefix = append(hs[o.K].prefix, mop{del: o.Del, tag: tag, ret: ret, who: "prefix"})
		if o.Del {
			init[o.K] = 0
		} else {
			init[o.K] = tag
		}
	}
	// states a concurrent reader may see per key: the one after the prefix or the one any batch operation leaves
	allowed := make([]map[int]bool, len(keys))
	for i := range keys {
		allowed[i] = map[int]bool{init[i]: true}
	}
	tags := make([][]int, len(c.G))
	batchHasRetain := false
	for g, ops := range c.G {
		tags[g] = make([]int, len(ops))
		for j, o := range ops {
			tag++
			tags[g][j] = tag
			if o.Del {
				allowed[o.K][0] = true
			} else {
				allowed[o.K][tag] = true
			}
			if keys[o.K].Kind == "ret" {
				batchHasRetain = true
			}
		}
	}

	var start atomic.Bool
	var writersLeft atomic.Int32
	writersLeft.Store(int32(len(c.G)))
	var wg sync.WaitGroup
	rets := make([][]int64, len(c.G))
	var mu sync.Mutex
	var panics []string
	var rfind []readerFinding
	for g, ops := range c.G {
		rets[g] = make([]int64, len(ops))
		wg.Add(1)
		go func(g int, ops []opT) {
			defer wg.Done()
			defer writersLeft.Add(-1)
			defer func() {
				if p := recover(); p != nil {
					mu.Lock()
					panics = append(panics, fmt.Sprintf("goroutine g%d: %v", g, p))
					mu.Unlock()
				}
			}()
			for !start.Load() {
				runtime.Gosched()
			}
			for j, o := range ops {
				for y := 0; y < o.Y; y++ {
					runtime.Gosched()
				}
				rets[g][j] = apply(x, keys[o.K], o.Del, tags[g][j])
			}
		}(g, ops)
	}
	for ri, qs := range c.Readers {
		wg.Add(1)
		go func(ri int, qs []qT) {
			defer wg.Done()
			defer func() {
				if p := recover(); p != nil {
					mu.Lock()
					panics = append(panics, fmt.Sprintf("reader %d: %v", ri, p))
					mu.Unlock()
				}
			}()
			for !start.Load() {
				runtime.Gosched()
			}
			for round := 0; round < 40; round++ {
				for _, q := range qs {
					if avoidRetainRace && batchHasRetain && !q.Sub && hasWild(q.Arg) {
						continue
					}
					o := runQuery(x, keys, q)
					var f []readerFinding
					for _, s := range o.foreign {
						f = append(f, readerFinding{"C31-concurrent-read-foreign-entry", fmt.Sprintf("%s during the batch returned %s, which no operation of the case created", q, s)})
					}
					for i, st := range o.exact {
						if !allowed[i][st] {
							sig := "C31-concurrent-read-impossible-value-" + keys[i].Kind
							if st == 0 {
								sig = "C31-concurrent-read-misses-live-" + keys[i].Kind
							}
							f = append(f, readerFinding{sig, fmt.Sprintf("%s during the batch showed %s as %s; the states it can have during the batch are %v", q, keys[i], stName(st), stateList(allowed[i]))})
						}
					}
					if len(f) > 0 {
						mu.Lock()
						rfind = append(rfind, f...)
						mu.Unlock()
					}
				}
				if round > 0 && writersLeft.Load() == 0 {
					return
				}
			}
		}(ri, qs)
	}
	start.Store(true)
	joined := make(chan struct{})
	go func() { wg.Wait(); close(joined) }()
	select {
	case <-joined:
	case <-time.After(joinTimeout):
		r.Inconclusive(fmt.Sprintf("a batch did not finish within %v (deadlock or starved machine); not judged", joinTimeout))
		return nil
	}

	var ds []evid.Disc
	for _, p := range panics {
		ds = append(ds, evid.D("C31-panic", "%s", p))
	}
	seenSig := map[string]bool{}
	for _, f := range rfind {
		if !seenSig[f.sig] {
			seenSig[f.sig] = true
			ds = append(ds, evid.D(f.sig, "%s", f.msg))
		}
	}
	for g, ops := range c.G {
		for j, o := range ops {
			hs[o.K].threads[g] = append(hs[o.K].threads[g], mop{del: o.Del, tag: tags[g][j], ret: rets[g][j], who: "g" + strconv.Itoa(g)})
		}
	}

	// read-back after the join: every topic and filter of the universe; all views of a key must agree
	readBack := func(into func(h *keyHist) *int, phase string) {
		view := make([]map[int][]string, len(keys)) // key -> state -> queries that showed it
		for _, q := range allQueries() {
			o := runQuery(x, keys, q)
			for _, s := range o.foreign {
				ds = append(ds, evid.D("C31-readback-foreign-entry", "%s %s returned %s, which is no subscription or message of the case matching the query", q, phase, s))
			}
			for i, st := range o.exact {
				if view[i] == nil {
					view[i] = map[int][]string{}
				}
				view[i][st] = append(view[i][st], q.String())
			}
		}
		for i, v := range view {
			if len(v) > 1 {
				var parts []string
				for st, qs := range v {
					parts = append(parts, fmt.Sprintf("%s by %v", stName(st), qs))
				}
				sort.Strings(parts)
				ds = append(ds, evid.D("C31-readback-inconsistent-"+keys[i].Kind, "%s is shown differently by different queries %s: %s", keys[i], phase, strings.Join(parts, "; ")))
				continue
			}
			for st := range v {
				*into(hs[i]) = st
			}
		}
	}
	readBack(func(h *keyHist) *int { return &h.final }, "after the join")

	// serial suffix: probe every key (set again: was it new? / clear: did it exist?), then drain everything
	for i, k := range keys {
		if k.Kind != "ret" {
			tag++
			ret := apply(x, k, false, tag)
			hs[i].suffix = append(hs[i].suffix, mop{tag: tag, ret: ret, who: "suffix"})
		}
	}
	for i, k := range keys {
		ret := apply(x, k, true, 0)
		hs[i].suffix = append(hs[i].suffix, mop{del: true, ret: ret, who: "suffix"})
	}
	readBack(func(h *keyHist) *int { return &h.drained }, "after the drain")

	for i, k := range keys {
		if d := hs[i].judge(k); d != nil {
			ds = append(ds, *d)
		}
	}
	return ds
}

var allQ []qT

func allQueries() []qT {
	if allQ == nil {
		for _, t := range readTopics {
			allQ = append(allQ, qT{Sub: true, Arg: t})
		}
		for _, f := range msgFilters {
			allQ = append(allQ, qT{Arg: f})
		}
	}
	return allQ
}

// ---- classification ---------------------------------------------------------------------------------------

// related: the trie paths of two keys are equal or one is an ancestor of the other (pruning one walks through the other).
func related(a, b string) bool {
	return a == b || strings.HasPrefix(a, b+"/") || strings.HasPrefix(b, a+"/")
}

func classify(c caseT, r *evid.Rec) bool {
	touchedBy := map[int]map[int]bool{}
	for g, ops := range c.G {
		for _, o := range ops {
			if touchedBy[o.K] == nil {
				touchedBy[o.K] = map[int]bool{}
			}
			touchedBy[o.K][g] = true
		}
	}
	contended := false
	for _, gs := range touchedBy {
		if len(gs) >= 2 {
			contended = true
		}
	}
	// a removal by one goroutine on a node, and an insert by another goroutine on another key on the same / a nested path
	pruneOverlap := false
	for g, ops := range c.G {
		for _, o := range ops {
			if !o.Del {
				continue
			}
			for g2, ops2 := range c.G {
				if g2 == g {
					continue
				}
				for _, o2 := range ops2 {
					if !o2.Del && o2.K != o.K && related(c.Keys[o.K].Node, c.Keys[o2.K].Node) {
						pruneOverlap = true
					}
				}
			}
		}
	}
	// serial interest: a removal of a key whose node (or a nested one) carries another key of the case
	sharedNodeRemoval := false
	all := append([]opT{}, c.Prefix...)
	for _, ops := range c.G {
		all = append(all, ops...)
	}
	for _, o := range all {
		if o.Del {
			for i := range c.Keys {
				if i != o.K && related(c.Keys[o.K].Node, c.Keys[i].Node) {
					sharedNodeRemoval = true
				}
			}
		}
	}
	r.Label(fmt.Sprintf("goroutines=%d", len(c.G)))
	r.Label(fmt.Sprintf("readers=%d", len(c.Readers)))
	if contended {
		r.Label("contended-key")
	}
	if pruneOverlap {
		r.Label("removal-overlaps-insert-on-related-node")
	}
	if len(c.G) == 1 {
		r.Label("single-goroutine")
		if sharedNodeRemoval {
			r.Label("single-goroutine-removal-on-shared-node")
		}
	}
	kinds := map[string]bool{}
	for _, k := range c.Keys {
		kinds[k.Kind] = true
	}
	for k := range kinds {
		r.Label("kind-" + k)
	}
	return contended || pruneOverlap || (len(c.G) == 1 && sharedNodeRemoval)
}

// semanticKey drops the schedule hints.
func semanticKey(c caseT) string {
	cc := caseT{Keys: c.Keys, Readers: c.Readers}
	strip := func(ops []opT) []opT {
		out := make([]opT, len(ops))
		for i, o := range ops {
			out[i] = opT{K: o.K, Del: o.Del}
		}
		return out
	}
	cc.Prefix = strip(c.Prefix)
	for _, g := range c.G {
		cc.G = append(cc.G, strip(g))
	}
	b, _ := json.Marshal(cc)
	return string(b)
}

func reps() int {
	if v, err := strconv.Atoi(os.Getenv("C31_REPS")); err == nil && v > 0 {
		return v
	}
	if evid.ReplayMode() {
		return 20 // a replay reproduces the operations, not the interleaving: give the scheduler more tries
	}
	if evid.Thorough() {
		return 6
	}
	return 3
}

func checkCase(c caseT, r *evid.Rec) []evid.Disc {
	if !validCase(c) {
		r.NotAsserted()
		return nil
	}
	if classify(c, r) {
		r.NonTrivial(semanticKey(c))
	} else {
		r.Label("trivial")
	}
	r.Sample(c)
	avoid := raceEnabled && r.IsKnown(sigRetainRace)
	n := reps()
	if len(c.G) == 1 && len(c.Readers) == 0 {
		n = 1 // nothing runs concurrently: one execution is the whole behaviour
	}
	// executions go on while everything found so far is a listed open finding, so that those do not cut the
	// exploration of schedules short; each listed signature is reported once per case
	var knownDs []evid.Disc
	knownSeen := map[string]bool{}
	for i := 0; i < n; i++ {
		ds := runOnce(c, r, avoid)
		ds = append(ds, raceReports()...)
		r.LabelN("executions", 1)
		fresh := false
		for _, d := range ds {
			if !r.IsKnown(d.Sig) {
				fresh = true
			}
		}
		if fresh {
			ds[0].Ctx = fmt.Sprintf("execution %d of %d of the case (schedules are explored statistically); keys: %v", i+1, n, c.Keys)
			return ds
		}
		for _, d := range ds {
			if !knownSeen[d.Sig] {
				knownSeen[d.Sig] = true
				knownDs = append(knownDs, d)
			}
		}
	}
	return knownDs
}

// ---- data-race reports (thorough tier, -race builds) --------------------------------------------------------

// When the binary is built with -race and GORACE carries a log_path, new race reports are read after every
// execution and turned into discrepancies whose signature names the two racing functions, so that a report is
// tied to the case that produced it. (The testing package fails the test at its end for any report anyway.)
const sigRetainRace = "C31-data-race-RetainMessage-scanMessages"

var (
	raceLogOff  int64
	raceFrameRe = regexp.MustCompile(`(?m)^(?:Read|Write|Previous read|Previous write|Atomic [a-z]+|Previous atomic [a-z]+) at 0x[0-9a-f]+ by [^\n]*\n((?:  [^\n]*\n)+)`)
	raceFuncRe  = regexp.MustCompile(`(?m)^  github\.com/mochi-mqtt/server/v2(?:/[a-z]+)?\.(?:\(\*?([A-Za-z]+)\)\.)?([A-Za-z]+)`)
)

func raceLogPath() string {
	for _, f := range strings.Fields(os.Getenv("GORACE")) {
		if strings.HasPrefix(f, "log_path=") {
			p := strings.TrimPrefix(f, "log_path=")
			if p != "stderr" && p != "stdout" && p != "" {
				return p + "." + strconv.Itoa(os.Getpid())
			}
		}
	}
	return ""
}

func raceReports() []evid.Disc {
	if !raceEnabled {
		return nil
	}
	p := raceLogPath()
	if p == "" {
		return nil
	}
	b, err := os.ReadFile(p)
	if err != nil || int64(len(b)) <= raceLogOff {
		return nil
	}
	fresh := string(b[raceLogOff:])
	raceLogOff = int64(len(b))
	var ds []evid.Disc
	count := map[string]int{}
	for _, rep := range strings.Split(fresh, "WARNING: DATA RACE")[1:] {
		sig := raceSignature(rep)
		if count[sig]++; count[sig] == 1 {
			ds = append(ds, evid.D(sig, "the race detector reported (first of the reports with this pair of functions in this execution):\nWARNING: DATA RACE%s", trimReport(rep)))
		}
	}
	return ds
}

// raceSignature names, for each of the two accesses, the innermost frame that lies in the repository.
func raceSignature(rep string) string {
	var fns []string
	for _, m := range raceFrameRe.FindAllStringSubmatch(rep, -1) {
		if f := raceFuncRe.FindStringSubmatch(m[1]); f != nil {
			fns = append(fns, f[2])
		} else {
			fns = append(fns, "unknown")
		}
	}
	sort.Strings(fns)
	if len(fns) == 0 {
		return "C31-data-race"
	}
	return "C31-data-race-" + strings.Join(fns, "-")
}

func trimReport(rep string) string {
	if i := strings.Index(rep, "=================="); i >= 0 {
		rep = rep[:i]
	}
	if len(rep) > 1800 {
		rep = rep[:1800] + "..."
	}
	return rep
}

// ---- the test ---------------------------------------------------------------------------------------------

func TestC31(t *testing.T) {
	r := evid.New("C31", "TopicsIndex driven directly: a serial prefix, then 1-4 goroutines running generated Subscribe/Unsubscribe (plain and $share), "+
		"InlineSubscribe/InlineUnsubscribe and RetainMessage(payload|empty) calls at once over 1-3 nested trie nodes that each carry several kinds of occupant, "+
		"with 0-2 goroutines reading Subscribers/Messages meanwhile. Oracle: one model cell per key (absent | present with the tag of the writing call); for every key a "+
		"brute-force enumeration of all interleavings that respect per-goroutine order must reproduce every return value (Subscribe: was new; Unsubscribe: existed; "+
		"RetainMessage: 1 / -1 / 0) and end in the state read back through Subscribers(topic)/Messages(filter) for every topic and filter of the universe "+
		"(visibility decided by the reference matcher), followed by a serial probe-and-drain suffix judged by the same search. "+
		"A case is non-trivial when two goroutines touch the same key, or one goroutine removes a key while another inserts a different key on the same or a nested trie path, "+
		"or (single goroutine, the degenerate schedule) a removal happens on a node that carries another key of the case.")
	defer r.Finish(t)
	r.Assume("Schedules are not owned by the harness: every case is executed several times (3 quick / 6 thorough / 20 in a replay; yields before operations are part of the case) on fresh indexes under the Go scheduler; " +
		"a replay file reproduces the operations, not the interleaving, so a schedule-dependent failure is reproduced statistically. Single-goroutine failures replay exactly.")
	r.Assume("Per-key factoring: in the reference model operations on different keys commute, so a history is linearizable iff every per-key sub-history is.")
	r.Assume("Concurrent readers are judged per key: a read may show the state the key had after the prefix or the state any operation of the batch leaves it in, nothing else.")
	r.Set("reps", reps())
	r.Set("race_build", raceEnabled)
	if raceEnabled && r.IsKnown(sigRetainRace) {
		r.Set("race_avoidance", "wildcard Messages reads are not run concurrently with retain operations because "+sigRetainRace+" is an open finding")
	}
	evid.Run(t, r, genCase, checkCase)
}
