//go:build !race

package pc31

const raceEnabled = false
