package props

import (
	"sort"
	"strings"
	"testing"

	"pgregory.net/rapid"
	"verif/harness/evid"
	"verif/harness/hist"
	"verif/harness/refmqtt"
	"verif/harness/reftopic"
	_ "verif/harness/store" // links the four storage backends and registers them with hist
)

// ---- C20: persistent state is restored faithfully after a restart -------------------------------------------
//
// Clients: c0, c1 = subjects with adversarial client identifiers; c2 = publisher (always clean); c3 = late subscriber
// that reads the retained store after the restart.

var c20CIDs = []string{"a", "a:b", "pub", "late"}
var c20Filters = []string{"c", "b:c", "t/#", "t/+", "日/#", "$share/g/t/x", "x_y"}
var c20Topics = []string{"c", "b:c", "t/x", "日/é", "x_y"}

func c20Check(c *hist.Case, r *evid.Rec) []evid.Disc {
	run := runCase(c, r)
	if run == nil {
		return nil
	}
	m := hist.Analyze(run)
	if len(run.Restarts) == 0 {
		r.NotAsserted()
		return nil
	}
	if len(m.Uncertain) > 0 {
		r.NotAsserted()
		r.Label("tick-inside-margin")
		return nil
	}
	restart := run.Restarts[0]
	be := "-" + c.Cfg.Storage
	_ = be
	var ds []evid.Disc
	after := func(step int) string {
		if step > restart {
			return "-after-restart"
		}
		return ""
	}
	// (1) session present == model, before and after the restart
	for _, ce := range m.Conns {
		if !ce.Success {
			continue
		}
		if ce.SessionPresent != ce.ExpectSP {
			sig := "C20-session-lost" + after(ce.Step)
			if ce.SessionPresent {
				sig = "C20-ended-session-present" + after(ce.Step)
				if len(m.Expired[ce.CID]) > 0 {
					sig = "C20-expired-session-present" + after(ce.Step)
				}
			}
			ds = append(ds, evid.D(sig, "step %d: %q connected with clean start %v; model: resumable session exists=%v; CONNACK session present=%v", ce.Step, ce.CID, ce.Clean, ce.ExpectSP, ce.SessionPresent))
		}
		if ce.Step > restart && ce.ExpectSP {
			r.Label("session-resumed-after-restart")
		}
	}
	// storage-key collision candidates: the backends key a subscription by id + ":" + filter, so ("a:b","c") and
	// ("a","b:c") share one record; everything that goes wrong with the subscriptions of a client involved in such
	// a pair is one root cause and gets one signature
	collide := map[string]bool{}
	{
		owner := map[string]string{}
		for _, ev := range m.SubEvents {
			for _, f := range ev.Filters {
				k := ev.CID + ":" + f.Filter
				if o, ok := owner[k]; ok && o != ev.CID+"|"+f.Filter {
					collide[ev.CID] = true
					collide[o[:len(o)-len(f.Filter)-1]] = true
					for i := 0; i < len(o); i++ {
						if o[i] == '|' {
							collide[o[:i]] = true
						}
					}
				}
				owner[k] = ev.CID + "|" + f.Filter
			}
		}
		for _, s := range run.Steps {
			if s.A.Kind == "unsubscribe" && !s.Skipped {
				for _, f := range s.A.Filters {
					k := s.A.ClientIDStr() + ":" + f.Filter
					if o, ok := owner[k]; ok && o != s.A.ClientIDStr()+"|"+f.Filter {
						collide[s.A.ClientIDStr()] = true
						for i := 0; i < len(o); i++ {
							if o[i] == '|' {
								collide[o[:i]] = true
							}
						}
					}
				}
			}
		}
	}
	if len(collide) > 0 {
		r.Label("subscription-key-collision-candidate")
	}
	// (2) deliveries follow the model's subscriptions (restored ones included, ended / refused ones excluded)
	for _, d := range deliveryDiscs(c, run, m, r, "C20") {
		if len(collide) > 0 && (d.Sig == "C20-missing-delivery" || d.Sig == "C20-unentitled-delivery") {
			for cid := range collide {
				if strings.Contains(d.Msg, "; "+cid+" holds") || strings.Contains(d.Msg, "delivered to "+cid+" which") {
					d.Sig = "C20-subscription-record-shared-by-colliding-storage-keys"
				}
			}
		}
		ds = append(ds, d)
	}
	// (3) and with the options' effects
	for _, d := range optionDiscs(c, run, m, r, "C20") {
		ds = append(ds, d)
	}
	// (4) retained store: what the late subscriber receives == the model's retained messages
	retained := map[string]int{}
	for _, s := range run.Steps {
		if s.A.Kind == "publish" && !s.Skipped && s.Tag > 0 && s.I < restart {
			ti := run.Tags[s.Tag]
			sn := m.Snaps[s.Tag]
			if !ti.Retain || sn == nil || sn.Connected[ti.CID] != ti.Peer {
				continue
			}
			if ti.Empty {
				delete(retained, ti.Topic)
			} else {
				retained[ti.Topic] = s.Tag
			}
		}
	}
	for _, s := range run.Steps {
		if s.I > restart && s.A.Kind == "subscribe" && s.A.Client == 3 && !s.Skipped {
			p := run.Peers[s.Peer]
			if p.BlindAt(s.I) {
				continue
			}
			got := map[int]*refmqtt.Packet{}
			for _, o := range s.Obs {
				if o.Peer == p.ID && o.P.Type == refmqtt.PUBLISH {
					got[hist.TagOf(o.P.Payload)] = o.P
				}
			}
			for topic, tag := range retained {
				if !reftopic.MatchSub(s.A.Filters[0].Filter, topic) {
					continue
				}
				g := got[tag]
				if g == nil {
					ds = append(ds, evid.D("C20-retained-message-lost", "step %d: the retained message m%d on %q was not replayed to a new subscriber after the restart", s.I, tag, topic))
					continue
				}
				r.Label("retained-restored")
				ti := run.Tags[tag]
				if g.Topic != topic {
					ds = append(ds, evid.D("C20-retained-topic-changed", "step %d: retained m%d came back on %q instead of %q", s.I, tag, g.Topic, topic))
				}
				if p.Version == 5 && ti.Version == 5 {
					if d := appPropsDiff(&ti.Props, &g.Props, p); d != "" {
						ds = append(ds, evid.D("C20-retained-properties-changed", "step %d: retained m%d came back with changed properties: %s", s.I, tag, d))
					}
					if ti.Props.MessageExpiry != nil && (g.Props.MessageExpiry == nil || *g.Props.MessageExpiry > *ti.Props.MessageExpiry) {
						ds = append(ds, evid.D("C20-retained-message-expiry", "step %d: retained m%d was published with Message Expiry Interval %d and came back with %s", s.I, tag, *ti.Props.MessageExpiry, fmtU32(g.Props.MessageExpiry)))
					}
				}
			}
			for tag, g := range got {
				if ti := run.Tags[tag]; ti != nil && ti.Step < restart && retained[g.Topic] != tag {
					ds = append(ds, evid.D("C20-retained-message-resurrected", "step %d: m%d on %q was replayed after the restart; the model's retained message there is m%d", s.I, tag, g.Topic, retained[g.Topic]))
				}
			}
		}
	}
	// (5) unacknowledged QoS>0 deliveries and offline-queued messages of persistent sessions come back
	for _, cid := range c20CIDs[:2] {
		type ent struct {
			tag int
			pid uint16
		}
		var owed []ent
		for tag, ti := range run.Tags {
			if ti.Step > restart || ti.Empty || ti.QoS == 0 {
				continue
			}
			sn := m.Snaps[tag]
			if sn == nil || sn.Connected[ti.CID] != ti.Peer {
				continue
			}
			q := byte(0)
			nolocal := false
			for _, st := range sn.MatchingAll(cid, ti.Topic) {
				if st.Opts.QoS > q {
					q = st.Opts.QoS
				}
				if st.Opts.NoLocal && cid == ti.CID {
					nolocal = true
				}
			}
			if q == 0 || nolocal || hasSharedMatch(sn, cid, ti.Topic) {
				continue
			}
			// delivered before the restart and still without any acknowledgement from the subject (the harness's own
			// bookkeeping of the subject's last connection), or never delivered because the subject was offline?
			acked, pid := true, uint16(0)
			var last *hist.Peer
			for _, p := range run.Peers {
				if p.CID == cid && p.OpenedAt < restart {
					last = p
				}
			}
			delivered := false
			for _, p := range run.Peers {
				if p.CID != cid || p.OpenedAt > restart {
					continue
				}
				for _, pk := range p.Got {
					if pk.Type == refmqtt.PUBLISH && hist.TagOf(pk.Payload) == tag {
						delivered = true
					}
				}
			}
			if delivered && last != nil {
				// one entry per unacknowledged transmission: the same message can be outstanding twice (live copy and a
				// retained replay on a re-subscribe), under two packet identifiers
				for _, in := range last.In {
					if in.Tag == tag && in.Stage == 0 {
						owed = append(owed, ent{tag, in.PID})
					}
				}
			} else if _, online := sn.Connected[cid]; !delivered && !online {
				acked = false // queued for the offline session
			}
			if !acked {
				owed = append(owed, ent{tag, pid})
			}
		}
		sort.Slice(owed, func(i, j int) bool { return owed[i].tag < owed[j].tag })
		// the session must have survived from the message's time to the reconnect: judged at the first
		// connection of the subject after the restart that resumes (model says session present)
		for _, ce := range m.Conns {
			if ce.CID != cid || ce.Step < restart || !ce.Success {
				continue
			}
			if !(ce.ExpectSP && ce.SessionPresent) {
				break
			}
			p := run.Peers[ce.Peer]
			if p.BlindAt(ce.AckStep) {
				break
			}
			// the converse ("the same unacknowledged in-flight messages", no more): an exchange the subject explicitly
			// completed on its last connection before the restart (it sent PUBACK, PUBCOMP or a PUBREC carrying a failure
			// code for it there) is not sent again with the restored session, unless another transmission of the same
			// message is still outstanding (seeded change C20-f: a refused QoS 2 message that stays in the store)
			if last := lastBefore(run, cid, restart); last != nil {
				completed := map[int]bool{}
				for _, st := range run.Steps {
					if st.A.Kind != "ack" || st.Skipped || st.Sent == nil || st.Peer != last.ID || st.Tag == 0 || st.I >= restart {
						continue
					}
					switch {
					case st.Sent.Type == refmqtt.PUBACK, st.Sent.Type == refmqtt.PUBCOMP, st.Sent.Type == refmqtt.PUBREC && st.Sent.ReasonCode >= 0x80:
						completed[st.Tag] = true
					}
				}
				for _, q := range run.Peers {
					if q.CID == cid && q.OpenedAt < restart {
						for _, in := range q.In {
							delete(completed, in.Tag)
						}
					}
				}
				// delivered more than once before the restart (live copy and retained replay, resends): not judged
				seen := map[int]int{}
				for _, q := range run.Peers {
					if q.CID == cid && q.OpenedAt < restart {
						for _, pk := range q.Got {
							if pk.Type == refmqtt.PUBLISH && pk.QoS > 0 && !pk.Dup {
								seen[hist.TagOf(pk.Payload)]++
							}
						}
					}
				}
				for tag := range completed {
					if seen[tag] != 1 {
						delete(completed, tag)
					}
				}
				for i, pk := range p.Got {
					if tag := hist.TagOf(pk.Payload); pk.Type == refmqtt.PUBLISH && p.GotStep[i] == ce.AckStep && completed[tag] {
						ds = append(ds, evid.D("C20-completed-message-resent-after-restart", "step %d: %q resumed its session after the restart and was sent m%d again, an exchange it had completed on its last connection before the restart: %s", ce.Step, cid, tag, pk))
					}
				}
				if len(completed) > 0 {
					r.Label("completed-before-restart/judged")
				}
			}
			for _, e := range owed {
				// the session must not have been re-created between the message and the restart
				if se := sessionCreatedAfter(m, cid, run.Tags[e.tag].Step, restart); se {
					continue
				}
				var g *refmqtt.Packet
				for i, pk := range p.Got {
					if pk.Type == refmqtt.PUBLISH && hist.TagOf(pk.Payload) == e.tag && p.GotStep[i] == ce.AckStep && (g == nil || pk.PacketID == e.pid) {
						g = pk // prefer the resend that carries the identifier of this very transmission
					}
				}
				switch {
				case g == nil:
					ds = append(ds, evid.D("C20-inflight-message-lost", "step %d: %q resumed its session after the restart, but the unacknowledged QoS>0 message m%d (published at step %d) was not sent again", ce.Step, cid, e.tag, run.Tags[e.tag].Step))
				case e.pid != 0 && g.PacketID != e.pid:
					ds = append(ds, evid.D("C20-inflight-packet-id-changed", "step %d: m%d was first sent to %q with packet identifier %d and resent after the restart with %d", ce.Step, e.tag, cid, e.pid, g.PacketID))
				default:
					r.Label("inflight-restored")
				}
			}
			break
		}
	}
	// classification
	persistent := 0
	for _, ce := range m.Conns {
		if ce.Step > restart && ce.ExpectSP {
			persistent++
		}
	}
	if persistent > 0 && (len(retained) > 0 || r.LabelCount("inflight-restored") > 0) {
		r.NonTrivial(caseKey(c) + c.Cfg.Storage)
	}
	r.Label("backend/" + c.Cfg.Storage)
	return withTranscript(ds, run)
}

// lastBefore: the subject's last connection opened before the restart
func lastBefore(run *hist.Run, cid string, restart int) *hist.Peer {
	var last *hist.Peer
	for _, p := range run.Peers {
		if p.CID == cid && p.OpenedAt < restart {
			last = p
		}
	}
	return last
}

// sessionCreatedAfter: did the model create a fresh session for cid (clean start, or reconnect after the session
// ended) after step from and before step to?
func sessionCreatedAfter(m *hist.Model, cid string, from, to int) bool {
	for _, ce := range m.Conns {
		if ce.CID == cid && ce.Success && ce.Step > from && ce.Step < to && !ce.ExpectSP {
			return true
		}
	}
	return false
}

func c20Gen(rt *rapid.T, backends []string) *hist.Case {
	c := &hist.Case{}
	c.Cfg.ClientPIDBase = 1000
	c.Cfg.Storage = pick(rt, "backend", backends)
	versions := []byte{pick(rt, "v0", []byte{4, 5, 5}), pick(rt, "v1", []byte{4, 5, 5, 3}), 5, 5}
	exp := uint32(300)
	zero := uint32(0)
	act := func(a hist.Action) hist.Action {
		cid := c20CIDs[a.Client]
		a.CID = &cid
		return a
	}
	connect := func(cl int, clean bool, auto bool) hist.Action {
		a := hist.Action{Kind: "connect", Client: cl, Version: versions[cl], Clean: clean, AutoAck: auto}
		if versions[cl] == 5 && cl < 2 {
			switch rapid.IntRange(0, 3).Draw(rt, "expiry") {
			case 0:
			case 1:
				a.Expiry = &zero
			default:
				a.Expiry = &exp
			}
		}
		return act(a)
	}
	autoAck := rapid.IntRange(0, 2).Draw(rt, "autoack") == 0
	c.Actions = append(c.Actions, connect(2, true, true), connect(0, rapid.Bool().Draw(rt, "clean0"), autoAck), connect(1, rapid.Bool().Draw(rt, "clean1"), autoAck))
	action := rapid.Custom(func(rt *rapid.T) hist.Action {
		cl := rapid.IntRange(0, 1).Draw(rt, "subject")
		switch rapid.IntRange(0, 13).Draw(rt, "kind") {
		case 0, 1, 2, 3:
			a := hist.Action{Kind: "subscribe", Client: cl}
			for i, n := 0, rapid.IntRange(1, 2).Draw(rt, "nf"); i < n; i++ {
				f := refmqtt.Filter{Filter: pick(rt, "filter", c20Filters), QoS: byte(rapid.IntRange(0, 2).Draw(rt, "sq"))}
				if _, _, sh, _ := reftopic.SplitShare(f.Filter); !sh {
					f.NoLocal = rapid.IntRange(0, 3).Draw(rt, "nl") == 0
				} else if rapid.IntRange(0, 2).Draw(rt, "bad-shared-nolocal") == 0 {
					f.NoLocal = true // refused for v5 (protocol error 0x82): must not come back as a live subscription
				}
				f.RAP = rapid.IntRange(0, 3).Draw(rt, "rap") == 0
				f.RH = byte(rapid.IntRange(0, 2).Draw(rt, "rh"))
				a.Filters = append(a.Filters, f)
			}
			if rapid.Bool().Draw(rt, "subid") {
				a.SubID = pick(rt, "id", []uint32{1, 7, 268435455})
			}
			return act(a)
		case 4:
			return act(hist.Action{Kind: "unsubscribe", Client: cl, Filters: []refmqtt.Filter{{Filter: pick(rt, "filter", c20Filters)}}})
		case 5, 6, 7, 8:
			pub := pick(rt, "publisher", []int{2, 2, 2, 0, 1})
			a := hist.Action{Kind: "publish", Client: pub, Topic: pick(rt, "topic", c20Topics), QoS: byte(rapid.IntRange(0, 2).Draw(rt, "pq")), Retain: rapid.IntRange(0, 2).Draw(rt, "retain") == 0, Rich: rapid.Bool().Draw(rt, "rich")}
			if a.Retain {
				a.Empty = rapid.IntRange(0, 5).Draw(rt, "empty") == 0
				if rapid.IntRange(0, 2).Draw(rt, "msgexp") == 0 {
					e := uint32(1000)
					a.MsgExpiry = &e
				}
			}
			return act(a)
		case 9:
			a := hist.Action{Kind: pick(rt, "how", []string{"disconnect", "drop"}), Client: cl}
			if a.Kind == "disconnect" && versions[cl] == 5 && rapid.Bool().Draw(rt, "disc-expiry") {
				e := pick(rt, "new-expiry", []uint32{50, 5000}) // the interval the restored session must expire by
				a.DiscExpiry = &e
			}
			return act(a)
		case 10, 11:
			return connect(cl, rapid.IntRange(0, 3).Draw(rt, "clean") == 0, autoAck)
		default:
			a := hist.Action{Kind: "ack", Client: cl, Index: rapid.IntRange(0, 3).Draw(rt, "idx")}
			if versions[cl] == 5 && rapid.IntRange(0, 3).Draw(rt, "ack-failure") == 0 {
				a.Reason = pick(rt, "ack-reason", []byte{0x80, 0x83, 0x97}) // ends the exchange like a success would
			}
			return act(a)
		}
	})
	c.Actions = append(c.Actions, rapid.SliceOfN(action, 4, 22).Draw(rt, "actions")...)
	if rapid.Bool().Draw(rt, "all-disconnect-first") {
		for cl := 0; cl < 2; cl++ {
			a := hist.Action{Kind: "disconnect", Client: cl}
			if versions[cl] == 5 && rapid.Bool().Draw(rt, "final-disc-expiry") {
				e := pick(rt, "final-expiry", []uint32{50, 5000})
				a.DiscExpiry = &e
			}
			c.Actions = append(c.Actions, act(a))
		}
	}
	c.Actions = append(c.Actions, hist.Action{Kind: "restart"})
	// second life
	if rapid.IntRange(0, 2).Draw(rt, "tick") != 0 {
		c.Actions = append(c.Actions, hist.Action{Kind: "tick", Tick: "clients", Offset: pick(rt, "off", []int64{0, 100, 1000, 1000})})
	}
	c.Actions = append(c.Actions, connect(2, true, true))
	order := rapid.Permutation([]int{0, 1}).Draw(rt, "order")
	for _, cl := range order {
		a := connect(cl, rapid.IntRange(0, 4).Draw(rt, "clean-after") == 0, true)
		// the same expiry the subject used last time is not known to the generator; any value is fine for the oracle
		c.Actions = append(c.Actions, a)
	}
	for _, t := range c20Topics {
		c.Actions = append(c.Actions, act(hist.Action{Kind: "publish", Client: 2, Topic: t, QoS: 1}))
	}
	c.Actions = append(c.Actions, act(hist.Action{Kind: "publish", Client: 0, Topic: "t/x", QoS: 1}), // the subjects' own messages: No Local after the restart
		connect(3, true, true),
		act(hist.Action{Kind: "subscribe", Client: 3, Filters: []refmqtt.Filter{{Filter: "#", QoS: 2}}}))
	return c
}

func c20Backends() []string {
	return []string{"bolt", "bolt", "redis", "redis", "pebble", "pebble", "badger"}
}

func TestC20(t *testing.T) {
	r := evid.New("C20", "rapid: a first life of 4-22 actions on a broker with one of the four bundled storage backends (bolt / redis via an in-process server / pebble / badger): two subject clients with adversarial identifiers ('a', 'a:b') and protocol versions 3.1/3.1.1/5, clean start 0/1, session expiry absent/0/300, subscriptions on filters containing ':', '_', non-ASCII levels, wildcards and a $share filter with every option (QoS, No Local incl. the refused shared+NoLocal form, Retain As Published, Retain Handling, identifiers incl. the maximum), unsubscribes, publishes by a third client and by the subjects (QoS 0-2, retain incl. clears, v5 application properties, message expiry), manual or automatic acknowledgement (messages left unacknowledged), disconnects (also carrying a new session expiry 50 / 5000), drops, reconnects and takeovers; then a RESTART (connections dropped, Server.Close, new server and fresh hook on the same store, readStore); second life: optional session-expiry tick, the subjects reconnect (mostly clean start 0), probe publishes on every topic, a late '#' subscriber reads the retained store. Oracle (model at shutdown, observed through the protocol, both directions): CONNACK session present == model; deliveries == model's subscriptions incl. No Local, QoS, identifiers, retain flag (C03/C04 oracles re-applied); replayed retained messages == model's retained store incl. payload, application properties and non-growing message expiry; unacknowledged QoS>0 messages of resumed sessions are sent again with their packet identifier. Non-trivial = a session resumed after the restart together with a restored retained or in-flight message; distinct by (history, backend)")
	defer r.Finish(t)
	if evid.ReplayMode() {
		evid.Replay(t, r, replayPath(), c20Check)
		return
	}
	evid.Run(t, r, func(rt *rapid.T) *hist.Case {
		c := c20Gen(rt, c20Backends())
		r.Sample(append([]string{"backend " + c.Cfg.Storage}, c.Summary()...))
		return c
	}, c20Check)
}
