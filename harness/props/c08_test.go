package props

import (
	"fmt"
	"testing"

	"pgregory.net/rapid"
	"verif/harness/evid"
	"verif/harness/hist"
	"verif/harness/refmqtt"
)

// ---- C08: inbound QoS 2 messages are forwarded exactly once ---------------------------------------------

func c08Check(c *hist.Case, r *evid.Rec) []evid.Disc {
	run := runCase(c, r)
	if run == nil {
		return nil
	}
	var ds []evid.Disc
	// the subscriber is client 1: it stays connected for the whole history and acknowledges everything
	var sub *hist.Peer
	for _, p := range run.Peers {
		if p.Client == 1 {
			sub = p
		}
	}
	if sub == nil || !sub.Established() || sub.WireErr != nil || sub.ClosedAt >= 0 {
		r.Label("subscriber-not-usable")
		return nil
	}
	copies := map[int]int{}
	for _, pk := range sub.Got {
		if pk.Type == refmqtt.PUBLISH {
			copies[hist.TagOf(pk.Payload)]++
		}
	}
	type exch struct{ transmissions, retransAcrossReconnect int }
	seen := map[int]*exch{}
	lastPeerOfTag := map[int]int{}
	for _, s := range run.Steps {
		if s.A.Kind != "publish" || s.Skipped || s.Sent == nil || s.Sent.QoS != 2 || s.A.Client != 0 {
			continue
		}
		p := run.Peers[s.Peer]
		if !p.Established() || (p.ClosedAt >= 0 && p.ClosedAt < s.I) || p.BlindAt(s.I) {
			continue
		}
		e := seen[s.Tag]
		if e == nil {
			e = &exch{}
			seen[s.Tag] = e
		}
		e.transmissions++
		if prev, ok := lastPeerOfTag[s.Tag]; ok && prev != s.Peer {
			e.retransAcrossReconnect++
		}
		lastPeerOfTag[s.Tag] = s.Peer
		if p.ClosedAt == s.I {
			continue // the connection ended in this step (e.g. receive maximum exceeded): no answer required
		}
		n, ack := countObs(s, p.ID, refmqtt.PUBREC, s.Sent.PacketID)
		if n != 1 {
			ds = append(ds, evid.D("C08-pubrec-count", "step %d: QoS 2 PUBLISH m%d (pid %d, dup=%v) answered by %d PUBREC", s.I, s.Tag, s.Sent.PacketID, s.Sent.Dup, n))
		} else if ack.ReasonCode >= 0x80 {
			sig := "C08-pubrec-failure-code"
			if s.A.Retransmit > 0 {
				sig = "C08-retransmission-answered-with-failure-pubrec"
			}
			ds = append(ds, evid.D(sig, "step %d: QoS 2 PUBLISH m%d (pid %d, dup=%v, transmission #%d) answered with PUBREC reason 0x%02X", s.I, s.Tag, s.Sent.PacketID, s.Sent.Dup, e.transmissions, ack.ReasonCode))
		}
	}
	for tag, e := range seen {
		if copies[tag] != 1 {
			sig := "C08-not-forwarded"
			if copies[tag] > 1 {
				sig = "C08-forwarded-more-than-once"
			}
			ds = append(ds, evid.D(sig, "m%d was transmitted %d time(s) by the publisher (%d after a reconnect); the subscriber received %d copies", tag, e.transmissions, e.retransAcrossReconnect, copies[tag]))
		}
		if e.transmissions > 1 {
			r.NonTrivial(fmt.Sprintf("%s|%d", caseKey(c), tag))
			if e.retransAcrossReconnect > 0 {
				r.Label("retransmission-across-reconnect")
			}
		}
	}
	return withTranscript(ds, run)
}

func c08Gen(rt *rapid.T) *hist.Case {
	c := &hist.Case{}
	c.Cfg.ClientPIDBase = 0
	switch rapid.IntRange(0, 2).Draw(rt, "msgexpiry") {
	case 0:
		z := int64(0)
		c.Cfg.MaxMessageExpiry = &z // "do not enforce"
	case 1:
		h := int64(3600)
		c.Cfg.MaxMessageExpiry = &h
	}
	ver := pick(rt, "version", []byte{4, 5, 5, 3})
	exp := uint32(3000)
	pubConnect := hist.Action{Kind: "connect", Client: 0, Version: ver, Clean: false}
	if ver == 5 {
		pubConnect.Expiry = &exp
	}
	c.Actions = append(c.Actions,
		hist.Action{Kind: "connect", Client: 1, Version: pick(rt, "sversion", []byte{4, 5}), Clean: true, AutoAck: true},
		hist.Action{Kind: "subscribe", Client: 1, Filters: []refmqtt.Filter{{Filter: "t/#", QoS: 2}}},
		hist.Action{Kind: "connect", Client: 2, Version: 4, Clean: true, AutoAck: true},
		pubConnect)
	action := rapid.Custom(func(rt *rapid.T) hist.Action {
		switch rapid.IntRange(0, 10).Draw(rt, "kind") {
		case 0, 1, 2:
			// one in five: the connection is lost right behind the PUBLISH (the broker processes it but cannot answer)
			return hist.Action{Kind: "publish", Client: 0, Topic: pick(rt, "topic", []string{"t/a", "t/b"}), QoS: 2, PIDPool: rapid.IntRange(1, 3).Draw(rt, "pool"), ThenDrop: rapid.IntRange(0, 4).Draw(rt, "then-drop") == 0}
		case 3, 4, 5:
			return hist.Action{Kind: "publish", Client: 0, Retransmit: rapid.IntRange(1, 3).Draw(rt, "which")}
		case 6, 7:
			return hist.Action{Kind: "pubrel", Client: 0, Index: rapid.IntRange(0, 2).Draw(rt, "idx")}
		case 8:
			return hist.Action{Kind: pick(rt, "how", []string{"drop", "close", "reconnect"}), Client: 0}
		case 9:
			return hist.Action{Kind: "publish", Client: 2, Topic: "t/other", QoS: byte(rapid.IntRange(0, 2).Draw(rt, "oq"))}
		default:
			// housekeeping between the transmissions, at a virtual time that is before any message expiry the
			// configuration can cause (no maximum: any time; maximum 3600 s: up to 30 min ahead)
			off := int64(rapid.IntRange(0, 1800).Draw(rt, "tickoff"))
			return hist.Action{Kind: "tick", Tick: pick(rt, "tick", []string{"inflight", "clients", "retained"}), Offset: off}
		}
	})
	for _, a := range rapid.SliceOfN(action, 3, 30).Draw(rt, "actions") {
		if a.Kind == "publish" && a.ThenDrop {
			c.Actions = append(c.Actions, a, pubConnect)
			continue
		}
		if a.Kind == "reconnect" || a.Kind == "drop" || a.Kind == "close" {
			if a.Kind != "reconnect" {
				c.Actions = append(c.Actions, a)
			}
			c.Actions = append(c.Actions, pubConnect)
			continue
		}
		c.Actions = append(c.Actions, a)
	}
	return c
}

func TestC08(t *testing.T) {
	r := evid.New("C08", "rapid: a publisher with a persistent session (v3.1/v3.1.1 clean session 0, v5 expiry>0) sends QoS 2 PUBLISH packets with identifiers from a pool of 3 (so identifiers are reused for new messages after completion), retransmits them with DUP 0-3 times before PUBREL, with housekeeping ticks (virtual time up to 30 min ahead, below every configured message expiry: maximum message expiry in {0 = none, 3600 s, 24 h}) in between, drops/closes the connection or is taken over and reconnects with session present before retransmitting, sends PUBREL; a subscriber (QoS 2, always connected, acknowledging) and a third client with unrelated traffic; oracle: per message tag the subscriber receives exactly one copy over the whole history, every transmission is answered by exactly one PUBREC with that identifier and (v5) a reason code < 0x80; non-trivial = message transmitted >= 2 times before PUBREL; distinct by (history, tag)")
	defer r.Finish(t)
	if evid.ReplayMode() {
		evid.Replay(t, r, replayPath(), c08Check)
		return
	}
	evid.Run(t, r, func(rt *rapid.T) *hist.Case {
		c := c08Gen(rt)
		r.Sample(c.Summary())
		return c
	}, c08Check)
}
