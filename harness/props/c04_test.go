package props

import (
	"fmt"
	"sort"
	"testing"

	"pgregory.net/rapid"
	"verif/harness/evid"
	"verif/harness/hist"
	"verif/harness/refmqtt"
	"verif/harness/reftopic"
)

// ---- C04: delivered QoS, subscription identifiers and retain flag follow the options -------------------

func minB(a ...byte) byte {
	m := a[0]
	for _, x := range a[1:] {
		if x < m {
			m = x
		}
	}
	return m
}

func idSet(ids []uint32) string {
	m := map[uint32]bool{}
	for _, i := range ids {
		m[i] = true
	}
	out := []int{}
	for i := range m {
		out = append(out, int(i))
	}
	sort.Ints(out)
	return fmt.Sprint(out)
}

func c04Check(c *hist.Case, r *evid.Rec) []evid.Disc {
	run := runCase(c, r)
	if run == nil {
		return nil
	}
	m := hist.Analyze(run)
	return withTranscript(optionDiscs(c, run, m, r, "C04"), run)
}

// optionDiscs is the subscription-options oracle (granted QoS, delivered QoS, identifiers, retain flag, retained
// replays), shared with the checks that re-examine it in another setting (after a restart: C20); pre is the
// property id used in the signatures.
func optionDiscs(c *hist.Case, run *hist.Run, m *hist.Model, r *evid.Rec, pre string) []evid.Disc {
	maxQ := byte(2)
	if c.Cfg.MaximumQos != nil {
		maxQ = *c.Cfg.MaximumQos
	}
	var ds []evid.Disc
	// (1) granted QoS in SUBACK
	for _, ev := range m.SubEvents {
		if !ev.Acked {
			continue
		}
		p := run.Peers[ev.Peer]
		for i, f := range ev.Filters {
			if i >= len(ev.Codes) {
				break
			}
			_, _, shared, _ := reftopic.SplitShare(f.Filter)
			if !reftopic.ValidFilter(f.Filter) || (shared && f.NoLocal && p.Version == 5) {
				continue
			}
			want := minB(f.QoS, maxQ)
			if ev.Codes[i] != want {
				ds = append(ds, evid.D(pre+"-suback-granted-qos", "step %d: %s subscribed %q with QoS %d, server maximum %d: SUBACK code 0x%02X, expected 0x%02X", ev.Step, ev.CID, f.Filter, f.QoS, maxQ, ev.Codes[i], want))
			}
			if f.QoS > maxQ {
				r.NonTrivial(fmt.Sprintf("cap|%s|%d|%d", f.Filter, f.QoS, maxQ))
			}
		}
	}
	for _, s := range run.Steps {
		switch {
		case s.A.Kind == "publish" && !s.Skipped && s.Tag > 0 && s.A.Retransmit == 0:
			// (2) live delivery
			ti := run.Tags[s.Tag]
			sn := m.Snaps[s.Tag]
			if ti.Empty || sn == nil || sn.Connected[ti.CID] != ti.Peer {
				continue
			}
			ent := sn.Entitled(ti.Topic, ti.CID, false)
			for cid, ms := range ent {
				peer := sn.Connected[cid]
				p := run.Peers[peer]
				if p.BlindAt(s.I) {
					continue
				}
				if hasSharedMatch(sn, cid, ti.Topic) {
					// Which member of a share group is chosen is C06's subject; but a client that is the only member of
					// every matching group it belongs to is necessarily the chosen one, and its single copy then stands for
					// its non-shared subscriptions and the shared ones together: the identifiers of all of them
					// (seeded change C04-e: the merge of the chosen shared subscription drops accumulated identifiers).
					// Only the identifier clause is asserted here, and only for foreign messages without No Local in play.
					var ids []uint32
					// (asserted for C04 only: C20 re-uses this oracle after a restart with a generator that also re-subscribes
					// shared filters with No Local - refused, an open finding of C23 -, which this clause has not been vetted for)
					sole := pre == "C04" && p.Version == 5 && cid != ti.CID
					nShared := 0 // exactly one matching shared subscription: how the broker combines several chosen ones is not stated
					for f, st := range sn.Subs[cid] {
						if !reftopic.MatchSub(f, ti.Topic) {
							continue
						}
						if st.Opts.NoLocal {
							sole = false
						}
						if _, _, sh, _ := reftopic.SplitShare(f); sh {
							nShared++
							for other, subs := range sn.Subs {
								if _, has := subs[f]; has && other != cid {
									sole = false
								}
							}
						}
						if st.SubID > 0 {
							ids = append(ids, st.SubID)
						}
					}
					if got := s.Deliveries(peer, s.Tag); sole && nShared == 1 && len(got) == 1 {
						r.Label("live/only-member-of-matching-share-groups")
						if idSet(got[0].Props.SubscriptionIDs) != idSet(ids) {
							ds = append(ds, evid.D(pre+"-live-subscription-identifiers-shared-and-non-shared", "step %d: m%d to %s (only member of its matching share groups): identifiers %v, expected the set %v of all its matching subscriptions", s.I, s.Tag, cid, got[0].Props.SubscriptionIDs, ids))
						}
					}
					continue
				}
				got := s.Deliveries(peer, s.Tag)
				if len(got) != 1 {
					continue // presence / multiplicity is C03's subject
				}
				g := got[0]
				// the merged subscription the statement describes: all matching subscriptions of the client
				// (No Local ones included when the message is not the client's own)
				all := ms
				subMax := byte(0)
				var ids []uint32
				rapAll, rapNone := true, true
				for _, st := range all {
					if st.Opts.QoS > subMax {
						subMax = st.Opts.QoS
					}
					if st.SubID > 0 {
						ids = append(ids, st.SubID)
					}
					if st.Opts.RAP {
						rapNone = false
					} else {
						rapAll = false
					}
				}
				wantQ := minB(ti.QoS, subMax, maxQ)
				if g.QoS != wantQ {
					ds = append(ds, evid.D(pre+"-delivered-qos", "step %d: m%d published at QoS %d, %s matches %s (max sub QoS %d), server maximum %d: delivered at QoS %d, expected %d", s.I, s.Tag, ti.QoS, cid, subList(all), subMax, maxQ, g.QoS, wantQ))
				}
				if p.Version == 5 {
					if idSet(g.Props.SubscriptionIDs) != idSet(ids) {
						ds = append(ds, evid.D(pre+"-live-subscription-identifiers", "step %d: m%d to %s: identifiers %v, expected the set %v of matching subscriptions %s", s.I, s.Tag, cid, g.Props.SubscriptionIDs, ids, subList(all)))
					}
				}
				wantRetain, assertRetain := false, true
				switch {
				case !ti.Retain || p.Version != 5:
					wantRetain = false
				case rapAll:
					wantRetain = true
				case rapNone:
					wantRetain = false
				default:
					assertRetain = false // mixed Retain As Published among matching subscriptions: the statement does not say which wins
					r.NotAsserted()
				}
				if assertRetain && g.Retain != wantRetain {
					ds = append(ds, evid.D(pre+"-live-retain-flag", "step %d: m%d (retain=%v) to %s v%d (subscriptions %s): retain flag %v, expected %v", s.I, s.Tag, ti.Retain, cid, p.Version, subList(all), g.Retain, wantRetain))
				}
				if len(all) >= 2 || ti.QoS > maxQ || subMax > maxQ {
					r.NonTrivial(fmt.Sprintf("live|%s|%d|%d|%v", subList(all), ti.QoS, maxQ, ti.Retain))
				}
			}
		}
		// (4) late deliveries of a live message: released by flow control, taken from the offline queue or resent after a
		// reconnect. They are sent from the stored copy, which must carry what the live copy would have carried.
		if !s.Skipped && s.A.Kind != "subscribe" {
			for _, o := range s.Obs {
				if o.P.Type != refmqtt.PUBLISH || o.P.Retain {
					continue
				}
				tag := hist.TagOf(o.P.Payload)
				ti := run.Tags[tag]
				p := run.Peers[o.Peer]
				if ti == nil || ti.Step == s.I || ti.Will || ti.Empty || p.BlindAt(s.I) {
					continue
				}
				sn := m.Snaps[tag]
				if sn == nil || hasSharedMatch(sn, p.CID, ti.Topic) {
					continue
				}
				ms := sn.Entitled(ti.Topic, ti.CID, false)[p.CID]
				if len(ms) == 0 {
					continue // whether it should arrive at all is C03's / C09's subject
				}
				subMax := byte(0)
				var ids []uint32
				for _, st := range ms {
					if st.Opts.QoS > subMax {
						subMax = st.Opts.QoS
					}
					if st.SubID > 0 {
						ids = append(ids, st.SubID)
					}
				}
				r.Label("late-delivery-judged")
				if wantQ := minB(ti.QoS, subMax, maxQ); o.P.QoS != wantQ {
					ds = append(ds, evid.D(pre+"-late-delivered-qos", "step %d (%s): m%d published at QoS %d, %s matched %s at publish time, server maximum %d: delivered late at QoS %d, expected %d", s.I, s.A.Kind, tag, ti.QoS, p.CID, subList(ms), maxQ, o.P.QoS, wantQ))
				}
				if p.Version == 5 && idSet(o.P.Props.SubscriptionIDs) != idSet(ids) {
					ds = append(ds, evid.D(pre+"-late-subscription-identifiers", "step %d (%s): m%d to %s, delivered after its publish step: identifiers %v, expected the set %v of the subscriptions %s that matched at publish time", s.I, s.A.Kind, tag, p.CID, o.P.Props.SubscriptionIDs, ids, subList(ms)))
				}
				if len(ids) > 0 {
					r.NonTrivial(fmt.Sprintf("late|%s|%s|%v", s.A.Kind, subList(ms), ids))
				}
			}
		}
		switch {
		case s.A.Kind == "subscribe" && !s.Skipped:
			// (3) retained messages delivered in response to this SUBSCRIBE
			p := run.Peers[s.Peer]
			if p.BlindAt(s.I) {
				continue
			}
			for _, o := range s.Obs {
				if o.Peer != p.ID || o.P.Type != refmqtt.PUBLISH {
					continue
				}
				tag := hist.TagOf(o.P.Payload)
				ti := run.Tags[tag]
				if ti == nil || ti.Step == s.I {
					continue
				}
				// which filters of this SUBSCRIBE match the topic
				var fs []refmqtt.Filter
				for _, f := range s.A.Filters {
					if reftopic.ValidFilter(f.Filter) && reftopic.MatchSub(f.Filter, ti.Topic) {
						fs = append(fs, f)
					}
				}
				if len(fs) == 0 {
					continue // an unrelated (e.g. deferred) delivery that happens to fall into this step
				}
				if !o.P.Retain {
					// could be a live message released by flow control; only retained replays are judged here
					continue
				}
				okQ := false
				for _, f := range fs {
					if o.P.QoS == minB(minB(ti.QoS, maxQ), f.QoS, maxQ) {
						okQ = true
					}
				}
				if !okQ {
					ds = append(ds, evid.D(pre+"-retained-qos", "step %d: retained m%d (QoS %d) replayed to %s for %v at QoS %d", s.I, tag, ti.QoS, p.CID, fs, o.P.QoS))
				}
				if p.Version == 5 {
					want := []uint32{}
					if s.A.SubID > 0 {
						want = append(want, s.A.SubID)
					}
					if idSet(o.P.Props.SubscriptionIDs) != idSet(want) {
						ds = append(ds, evid.D(pre+"-retained-subscription-identifier", "step %d: retained m%d replayed to %s for a SUBSCRIBE with identifier %d carries identifiers %v", s.I, tag, p.CID, s.A.SubID, o.P.Props.SubscriptionIDs))
					}
					if s.A.SubID > 0 {
						r.NonTrivial(fmt.Sprintf("retained|%s|%d", ti.Topic, s.A.SubID))
					}
				}
			}
		}
	}
	return ds
}

func TestC04(t *testing.T) {
	r := evid.New("C04", "rapid: C03-style histories with server MaximumQos in {0,1,2}, 1-3 overlapping filters per SUBSCRIBE with independent QoS / identifier (boundary-biased) / Retain As Published / Retain Handling, retained and non-retained publishes at QoS<=server maximum, later subscriptions that pick up retained messages, v3/v3.1.1/v5 receivers; one history in three instead has persistent sessions that go offline and return, Receive Maximum 1/2 and manual acknowledgements, so that messages are delivered late from the stored copy (released by flow control, offline queue, resend), judged against the subscriptions that matched at publish time; oracle on the wire: SUBACK code = min(requested, server max); live QoS = min(published, max matching subscription QoS, server max); identifiers = set of identifiers of matching subscriptions (a shared one included when it is the client's only matching shared subscription and the client is the only member of that group; otherwise clients with a matching shared subscription are left to C06); retain flag per RAP (asserted only when all matching subscriptions agree); retained replay: identifier of the SUBSCRIBE, QoS = min(message, subscription, server max); non-trivial = >=2 matching subscriptions, a QoS above the server maximum, or a retained replay to a subscription with identifier")
	defer r.Finish(t)
	if evid.ReplayMode() {
		evid.Replay(t, r, replayPath(), c04Check)
		return
	}
	g := defaultHistGen()
	g.Retain = true
	g.WDisconnect, g.WDrop, g.WConnect = 0, 0, 1
	g.Filters = []string{"a", "a/b", "a/#", "#", "+", "a/+", "+/b", "a/b/#", "+/#", "b", "b/#", "$share/g/a/b", "$share/g/#", "$share/h/a/+"}
	g.Topics = []string{"a", "a/b", "b", "a/b/c"}
	evid.Run(t, r, func(rt *rapid.T) *hist.Case {
		mq := byte(rapid.IntRange(0, 2).Draw(rt, "maxqos"))
		g := *g
		g.PubQoS = []byte{0, 1, 2}[:mq+1]
		late := mq > 0 && rapid.IntRange(0, 2).Draw(rt, "late-deliveries") == 0
		if late {
			// one history in three: persistent sessions that go offline and come back, small Receive Maximum and manual
			// acknowledgements, so that messages are delivered from the stored copy
			g.CleanStart, g.Expiry, g.RecvMax = []bool{false}, []uint32{100}, []uint16{0, 1, 2}
			g.AutoAck = false
			g.WDrop, g.WConnect, g.WAck = 2, 3, 4
			g.PubQoS = []byte{1, 2}[:mq]
			g.Retain = false
		}
		c := g.Draw(rt)
		if late {
			c.Cfg.ClientPIDBase = 1000 // identifier collisions between the directions are C10's subject
			for cl := 0; cl < g.NClients; cl++ {
				c.Actions = append(c.Actions, hist.Action{Kind: "drain", Client: cl})
			}
		}
		c.Cfg.MaximumQos = &mq
		r.Sample(append([]string{fmt.Sprintf("server MaximumQos=%d", mq)}, c.Summary()...))
		return c
	}, c04Check)
}
