package props

import (
	"fmt"
	"sort"
	"strings"
	"testing"

	"pgregory.net/rapid"
	"verif/harness/evid"
	"verif/harness/hist"
	"verif/harness/refmqtt"
)

// ---- C34: accepted output is flushed and every dropped message is reported -----------------------------------
//
// Fixed topology: c0 and c1 (and sometimes c2) connect and subscribe to x/# once; nothing is unsubscribed and no
// client disconnects on its own. All traffic is publishes / bursts / pings / acknowledgements.

func c34Key(t byte, pid uint16) string { return fmt.Sprintf("%s/%d", refmqtt.TypeName(t), pid) }

func c34Check(c *hist.Case, r *evid.Rec) []evid.Disc {
	run := runCase(c, r)
	if run == nil {
		return nil
	}
	var ds []evid.Disc
	// ---- (A) at every quiescent point: packets reported through OnPacketSent == packets received, per connection
	reported := map[int]map[string]int{} // sim conn id -> multiset
	nrep := map[int]int{}
	connOf := map[int]*hist.Peer{}
	for _, p := range run.Peers {
		connOf[p.Link.Conn.ID()] = p
	}
	flagged := map[int]bool{}
	for _, s := range run.Steps {
		for _, e := range s.Events {
			if e.Kind != "packet-sent" || e.Conn == 0 {
				continue
			}
			if reported[e.Conn] == nil {
				reported[e.Conn] = map[string]int{}
			}
			reported[e.Conn][c34Key(e.Packet.FixedHeader.Type, e.Packet.PacketID)]++
			nrep[e.Conn]++
		}
		for id, p := range connOf {
			if flagged[id] || p.BlindAt(s.I) {
				continue
			}
			if p.ClosedByHarness {
				continue
			}
			recv := map[string]int{}
			n := 0
			for i, pk := range p.Got {
				if p.GotStep[i] <= s.I {
					recv[c34Key(pk.Type, pk.PacketID)]++
					n++
				}
			}
			var missing, extra []string
			for k, v := range reported[id] {
				if recv[k] < v {
					missing = append(missing, fmt.Sprintf("%s x%d", k, v-recv[k]))
				}
			}
			for k, v := range recv {
				if reported[id][k] < v {
					extra = append(extra, fmt.Sprintf("%s x%d", k, v-reported[id][k]))
				}
			}
			sort.Strings(missing)
			sort.Strings(extra)
			if len(missing) > 0 {
				flagged[id] = true
				ds = append(ds, evid.D("C34-reported-sent-but-not-on-the-connection", "step %d (%s): %s#%d: the broker is quiescent, %d packets were reported as sent (OnPacketSent) but only %d arrived; stranded: %s", s.I, s.A.String(), p.CID, p.ID, nrep[id], n, strings.Join(missing, ", ")))
			}
			if len(extra) > 0 {
				flagged[id] = true
				ds = append(ds, evid.D("C34-written-but-not-reported", "step %d: %s#%d received packets that were never reported as sent: %s", s.I, p.CID, p.ID, strings.Join(extra, ", ")))
			}
		}
	}
	// ---- (B) every message a subscriber is entitled to is on the wire, or its drop was reported to the hooks
	subs := map[int]byte{} // client index -> subscription QoS (established subscriptions on x/#)
	for _, s := range run.Steps {
		if s.A.Kind == "subscribe" && !s.Skipped {
			for _, o := range s.Obs {
				if o.Peer == s.Peer && o.P.Type == refmqtt.SUBACK && len(o.P.ReasonCodes) > 0 && o.P.ReasonCodes[0] < 0x80 {
					subs[s.A.Client] = s.A.Filters[0].QoS
				}
			}
		}
	}
	type drop struct{ kind string }
	drops := map[string][]string{} // "cid|tag" -> reported reasons
	for _, s := range run.Steps {
		for _, e := range s.Events {
			switch e.Kind {
			case "publish-dropped", "pid-exhausted", "qos-dropped":
				k := fmt.Sprintf("%s|%d", e.Client, hist.TagOf(e.Packet.Payload))
				drops[k] = append(drops[k], e.Kind)
			}
		}
	}
	direct, refused := false, false
	for tag, ti := range run.Tags {
		if ti.Empty || !strings.HasPrefix(ti.Topic, "x/") {
			continue
		}
		pubPeer := run.Peers[ti.Peer]
		if pubPeer.ClosedAt >= 0 && pubPeer.ClosedAt <= ti.Step {
			continue // the publisher's connection ended around this publish: the broker may never have read it
		}
		for cl := range subs {
			var p *hist.Peer
			for _, q := range run.Peers {
				if q.Client == cl {
					p = q
				}
			}
			if p == nil || !p.Established() || p.BlindAt(1<<30) || (p.ClosedAt >= 0) {
				continue
			}
			n := 0
			for _, pk := range p.Got {
				if pk.Type == refmqtt.PUBLISH && hist.TagOf(pk.Payload) == tag && !pk.Dup {
					n++
				}
			}
			k := fmt.Sprintf("%s|%d", p.CID, tag)
			switch {
			case n == 0 && len(drops[k]) == 0:
				why := "nothing was reported"
				sig := "C34-message-dropped-without-report"
				if p.Connect.Props.MaximumPacketSize != nil {
					exp := &refmqtt.Packet{Type: refmqtt.PUBLISH, Version: p.Version, Topic: ti.Topic, Payload: payloadOf(run, tag), QoS: minB(ti.QoS, subs[cl]), PacketID: 1}
					if uint32(len(refmqtt.Encode(exp, refmqtt.Style{}))) > *p.Connect.Props.MaximumPacketSize {
						sig = "C34-oversize-message-dropped-without-report"
						why = "it exceeds the client's Maximum Packet Size and was discarded silently"
					}
				}
				if c.Cfg.MaximumInflight > 0 && minB(ti.QoS, subs[cl]) > 0 {
					sig = "C34-inflight-limit-drop-without-report"
					why = "possibly the in-flight limit (counted in Info.InflightDropped only)"
				}
				ds = append(ds, evid.D(sig, "m%d (published by %s on %q q%d at step %d) never reached subscriber %s and no drop was reported to the hooks: %s", tag, ti.CID, ti.Topic, ti.QoS, ti.Step, p.CID, why))
				refused = true
			case n == 0:
				r.Label("drop-reported/" + drops[k][0])
				refused = true
			case n > 1:
				ds = append(ds, evid.D("C34-duplicate-delivery", "m%d reached %s %d times", tag, p.CID, n))
			default:
				r.Label("delivered")
			}
		}
	}
	for _, s := range run.Steps {
		if s.A.Kind == "burst" || s.A.Kind == "ping" {
			direct = true
		}
	}
	if direct || refused {
		r.NonTrivial(caseKey(c) + fmt.Sprint(c.Cfg.WriteBuf, c.Cfg.WritesPending))
	}
	return withTranscript(ds, run)
}

func payloadOf(run *hist.Run, tag int) []byte {
	for _, s := range run.Steps {
		if s.Tag == tag && s.Sent != nil {
			return s.Sent.Payload
		}
	}
	for _, p := range run.Peers {
		for _, o := range p.Out {
			if o.Tag == tag && o.Pkt != nil {
				return o.Pkt.Payload
			}
		}
	}
	return hist.TagPayload(tag)
}

// c34GenLateSubscriber: the other route into a client's write queue. Retained messages on 3-8 distinct topics, then a
// subscriber with a write queue of 1-2 packets on a slow connection subscribes to all of them at once: whatever the
// retained replay cannot queue has to be reported like any other dropped message.
func c34GenLateSubscriber(rt *rapid.T) *hist.Case {
	c := &hist.Case{}
	c.Cfg.ClientPIDBase = 1000
	c.Cfg.WriteBuf = pick(rt, "write-buffer", []int{16, 256, 2048})
	c.Cfg.WritesPending = int32(pick(rt, "writes-pending", []int{1, 2, 2}))
	c.Cfg.WriteDelayUS = pick(rt, "write-delay-us", []int{50, 200, 500})
	c.Actions = append(c.Actions,
		hist.Action{Kind: "connect", Client: 0, Version: pick(rt, "version", []byte{5, 4}), Clean: true, AutoAck: true},
		hist.Action{Kind: "connect", Client: 1, Version: 4, Clean: true, AutoAck: true})
	for i, n := 0, rapid.IntRange(3, 8).Draw(rt, "retained"); i < n; i++ {
		c.Actions = append(c.Actions, hist.Action{Kind: "publish", Client: 1, Topic: fmt.Sprintf("x/r%d", i), QoS: byte(rapid.IntRange(0, 1).Draw(rt, "pq")), Retain: true, Pad: pick(rt, "pad", []int{0, 20, 100})})
	}
	c.Actions = append(c.Actions,
		hist.Action{Kind: "subscribe", Client: 0, Filters: []refmqtt.Filter{{Filter: "x/#", QoS: byte(rapid.IntRange(0, 1).Draw(rt, "sq"))}}},
		hist.Action{Kind: "ping", Client: 0})
	return c
}

func c34Gen(rt *rapid.T) *hist.Case {
	if rapid.IntRange(0, 5).Draw(rt, "late-subscriber") == 0 {
		return c34GenLateSubscriber(rt)
	}
	c := &hist.Case{}
	c.Cfg.ClientPIDBase = 1000
	c.Cfg.WriteBuf = pick(rt, "write-buffer", []int{16, 64, 256, 2048})
	c.Cfg.WritesPending = int32(pick(rt, "writes-pending", []int{1, 2, 4, 0, 0}))
	c.Cfg.WriteDelayUS = pick(rt, "write-delay-us", []int{0, 2, 5, 10, 20, 50, 200})
	nclients := rapid.IntRange(2, 3).Draw(rt, "nclients")
	for cl := 0; cl < nclients; cl++ {
		a := hist.Action{Kind: "connect", Client: cl, Version: pick(rt, "version", []byte{5, 5, 4}), Clean: true, AutoAck: true}
		if a.Version == 5 {
			if v := pick(rt, "maxpkt", []uint32{0, 0, 40, 120}); v > 0 {
				a.MaxPkt = &v
			}
		}
		c.Actions = append(c.Actions, a)
	}
	for cl := 0; cl < nclients; cl++ {
		if cl == 0 || rapid.Bool().Draw(rt, "subscribes") {
			c.Actions = append(c.Actions, hist.Action{Kind: "subscribe", Client: cl, Filters: []refmqtt.Filter{{Filter: "x/#", QoS: byte(rapid.IntRange(0, 2).Draw(rt, "sq"))}}})
		}
	}
	pads := func() []int {
		return rapid.SliceOfN(rapid.SampledFrom([]int{0, 0, 10, 30, 100, 200}), 1, 4).Draw(rt, "pads")
	}
	action := rapid.Custom(func(rt *rapid.T) hist.Action {
		switch rapid.IntRange(0, 9).Draw(rt, "kind") {
		case 0, 1, 2:
			return hist.Action{Kind: "publish", Client: rapid.IntRange(0, nclients-1).Draw(rt, "client"), Topic: pick(rt, "topic", []string{"x/a", "x/b"}), QoS: byte(rapid.IntRange(0, 2).Draw(rt, "pq")), Pad: pick(rt, "pad", []int{0, 0, 20, 100, 200})}
		case 3, 4, 5, 6, 7:
			var items []hist.BurstItem
			for cl := 0; cl < nclients; cl++ {
				if cl == 0 || rapid.Bool().Draw(rt, "in-burst") {
					// "y/a" has no subscriber: such publishes only cause direct acknowledgements to their sender
					items = append(items, hist.BurstItem{Client: cl, Topic: pick(rt, "btopic", []string{"x/a", "x/a", "y/a"}), QoS: byte(rapid.IntRange(0, 2).Draw(rt, "bq")), Count: rapid.IntRange(1, 6).Draw(rt, "bn"), Pads: pads()})
				}
			}
			return hist.Action{Kind: "burst", Burst: items}
		default:
			return hist.Action{Kind: "ping", Client: rapid.IntRange(0, nclients-1).Draw(rt, "client")}
		}
	})
	c.Actions = append(c.Actions, rapid.SliceOfN(action, 2, 14).Draw(rt, "actions")...)
	for cl := 0; cl < nclients; cl++ {
		c.Actions = append(c.Actions, hist.Action{Kind: "ping", Client: cl})
	}
	return c
}

func TestC34(t *testing.T) {
	r := evid.New("C34", "rapid: 2-3 clients (v5 with Maximum Packet Size absent/40/120, or v3.1.1) subscribed to one filter with QoS 0-2, ClientNetWriteBufferSize 16/64/256/2048, MaximumClientWritesPending 1/2/4/default, connection write latency 0/2/5/10/20/50/200 us (so that the reader's direct writes arrive while the writer holds the write lock); single publishes, PINGREQs and bursts in which several clients (always including the subscriber itself) publish 1-6 messages each (QoS 0-2, payload padding 0-200 bytes) that are handed to the broker together, so that acknowledgements written directly by the reader (PUBACK/PUBREC/PUBCOMP/PINGRESP) interleave with publishes queued for the same connection, some of them oversize for the client; one case in six instead retains messages on 3-8 distinct topics and then lets a subscriber with a write queue of 1-2 packets on a slow connection subscribe to all of them (retained replay into a full queue). Oracle at every quiescent point, per connection: the multiset (type, packet id) of packets reported through OnPacketSent == the multiset decoded from the bytes received (both directions); for every subscriber and message: delivered exactly once, or a drop event (OnPublishDropped / OnQosDropped / OnPacketIDExhausted) for that client and message. Non-trivial = the case mixes direct and queued writes (burst or ping) or contains a refused write; distinct by (history, buffer configuration)")
	r.Assume("bursts hand several clients' packets to the broker at once; their handlers run free (schedule not owned), so which message is dropped can differ between runs; the oracle is an invariant of every schedule, a replay re-executes the history and may take another interleaving")
	defer r.Finish(t)
	if evid.ReplayMode() {
		evid.Replay(t, r, replayPath(), c34Check)
		return
	}
	evid.Run(t, r, func(rt *rapid.T) *hist.Case {
		c := c34Gen(rt)
		r.Sample(c.Summary())
		return c
	}, c34Check)
}
