package props

import (
	"fmt"
	"sync"
	"testing"

	"pgregory.net/rapid"
	"verif/harness/evid"
	"verif/harness/hist"
	"verif/harness/refmqtt"
)

// ---- C25: expired messages are not delivered and expiry intervals only shrink -------------------------------
//
// c1 = P (publisher), c0 = S (subscriber under test), c2 = late subscriber for the retained route.
// Routes (one topic prefix each): r/ retained store -> later subscriber; d/ held back by Receive Maximum 1 ->
// released by an acknowledgement; q/ queued for an offline session -> delivered at reconnect.

const c25Margin = 3

type c25Route struct {
	name     string
	tickKind string
	tag      int
	pubStep  int
	oppStep  int // step at which the unsent copy gets its chance to be sent
	receiver int // client index of the receiver
}

func c25Eff(cfg *hist.Config, ti *hist.TagInfo) int64 {
	var x, i int64
	if cfg.MaxMessageExpiry != nil {
		x = *cfg.MaxMessageExpiry
	} else {
		x = 86400
	}
	if ti.Props.MessageExpiry != nil {
		i = int64(*ti.Props.MessageExpiry)
	}
	switch {
	case x == 0:
		return i
	case i == 0:
		return x
	case i < x:
		return i
	}
	return x
}

func c25Check(c *hist.Case, r *evid.Rec) []evid.Disc {
	run := runCase(c, r)
	if run == nil {
		return nil
	}
	var ds []evid.Disc
	// (1) every delivered v5 PUBLISH: Message Expiry Interval present when the publisher set one, and never
	// larger than the effective interval (time remaining <= effective interval, since delivery follows publication)
	for _, p := range run.Peers {
		if p.Version != 5 {
			continue
		}
		for i, pk := range p.Got {
			if pk.Type != refmqtt.PUBLISH || p.BlindAt(p.GotStep[i]) {
				continue
			}
			ti := run.Tags[hist.TagOf(pk.Payload)]
			if ti == nil {
				continue
			}
			eff := c25Eff(&c.Cfg, ti)
			route := "live"
			if p.GotStep[i] != ti.Step {
				route = "later"
				if ti.Topic == "d/b" {
					route = "held-back" // released by flow control after having been held back
				}
			}
			switch {
			case pk.Props.MessageExpiry == nil:
				if ti.Props.MessageExpiry != nil && *ti.Props.MessageExpiry > 0 {
					ds = append(ds, evid.D("C25-interval-dropped-"+route, "step %d: %s received m%d without a Message Expiry Interval although the publisher set %d", p.GotStep[i], p.CID, ti.Tag, *ti.Props.MessageExpiry))
				}
			case eff > 0 && int64(*pk.Props.MessageExpiry) > eff:
				ds = append(ds, evid.D("C25-interval-exceeds-time-remaining-"+route, "step %d: %s received m%d with Message Expiry Interval %d; effective interval is %d (publisher %s, server maximum %s)", p.GotStep[i], p.CID, ti.Tag, *pk.Props.MessageExpiry, eff, fmtU32(ti.Props.MessageExpiry), fmtI64(c.Cfg.MaxMessageExpiry)))
			case eff > 0:
				r.Label("interval-checked-" + route)
			}
		}
	}
	// (2) routes: find each route's message and its opportunity step from the action list
	var routes []c25Route
	for _, s := range run.Steps {
		if s.A.Kind != "publish" || s.Skipped || s.Tag == 0 {
			continue
		}
		ti := run.Tags[s.Tag]
		switch {
		case len(ti.Topic) > 2 && ti.Topic[:2] == "r/":
			for _, s2 := range run.Steps[s.I:] {
				if s2.A.Kind == "subscribe" && s2.A.Client == 2 && !s2.Skipped {
					routes = append(routes, c25Route{"retained", "retained", s.Tag, s.I, s2.I, 2})
					break
				}
			}
		case ti.Topic == "d/b":
			for _, s2 := range run.Steps[s.I:] {
				if s2.A.Kind == "ack" && s2.A.Client == 0 && !s2.Skipped {
					routes = append(routes, c25Route{"held-back", "inflight", s.Tag, s.I, s2.I, 0})
					break
				}
			}
		case len(ti.Topic) > 2 && ti.Topic[:2] == "h/":
			// a retained message replayed to a subscriber whose Receive Maximum window is full: held back until an ack
			sub := -1
			for _, s2 := range run.Steps[s.I:] {
				if s2.A.Kind == "subscribe" && s2.A.Client == 0 && !s2.Skipped && len(s2.A.Filters) > 0 && s2.A.Filters[0].Filter == "h/#" {
					sub = s2.I
				}
				if sub >= 0 && s2.I > sub && s2.A.Kind == "ack" && s2.A.Client == 0 && !s2.Skipped {
					routes = append(routes, c25Route{"retained-held-back", "inflight", s.Tag, s.I, s2.I, 0})
					break
				}
			}
		case len(ti.Topic) > 2 && ti.Topic[:2] == "q/":
			for _, s2 := range run.Steps[s.I:] {
				if s2.A.Kind == "connect" && s2.A.Client == 0 && s2.Peer >= 0 && run.Peers[s2.Peer].Established() {
					routes = append(routes, c25Route{"offline-queue", "inflight", s.Tag, s.I, s2.I, 0})
					break
				}
			}
		}
	}
	for _, rt := range routes {
		ti := run.Tags[rt.tag]
		eff := c25Eff(&c.Cfg, ti)
		t0 := run.Steps[rt.pubStep].Now
		// was the copy really unsent before the opportunity? (held-back: S must not have received it yet)
		sentBefore := false
		for _, p := range run.Peers {
			if p.Client != rt.receiver {
				continue
			}
			for i, pk := range p.Got {
				if pk.Type == refmqtt.PUBLISH && hist.TagOf(pk.Payload) == rt.tag && p.GotStep[i] < rt.oppStep {
					sentBefore = true
				}
			}
		}
		if sentBefore {
			r.Label(rt.name + "/sent-before-opportunity")
			continue
		}
		expired, uncertain := false, false
		var expiredBy *hist.Step
		for _, s := range run.Steps[rt.pubStep:rt.oppStep] {
			if s.A.Kind != "tick" || s.A.Tick != rt.tickKind || eff == 0 {
				continue
			}
			switch {
			case s.TickAt > t0+eff+c25Margin:
				expired = true
				if expiredBy == nil {
					expiredBy = s
				}
			case s.TickAt >= t0+eff-c25Margin:
				uncertain = true
			}
		}
		if uncertain && !expired {
			r.NotAsserted()
			r.Label(rt.name + "/tick-inside-margin")
			continue
		}
		var got []int
		for _, p := range run.Peers {
			if p.Client != rt.receiver {
				continue
			}
			for i, pk := range p.Got {
				if pk.Type == refmqtt.PUBLISH && hist.TagOf(pk.Payload) == rt.tag && p.GotStep[i] >= rt.oppStep {
					got = append(got, p.GotStep[i])
				}
			}
		}
		desc := fmt.Sprintf("m%d (%s route, published at step %d with interval %s, server maximum %s, effective %d s)", rt.tag, rt.name, rt.pubStep, fmtU32(ti.Props.MessageExpiry), fmtI64(c.Cfg.MaxMessageExpiry), eff)
		if expired {
			r.Label(rt.name + "/expired-before-opportunity")
			r.NonTrivial(fmt.Sprintf("%s|%s|%d", caseKey(c), rt.name, rt.tag))
			if len(got) > 0 {
				ds = append(ds, evid.D("C25-expired-message-delivered-"+rt.name, "%s: housekeeping ran at t0%+d s (step %d), past its expiry, yet the unsent copy was delivered at step %d", desc, expiredBy.TickAt-t0, expiredBy.I, got[0]))
			}
		} else {
			r.Label(rt.name + "/alive-at-opportunity")
			if len(got) == 0 {
				ds = append(ds, evid.D("C25-unexpired-message-not-delivered-"+rt.name, "%s: no housekeeping tick ran past its expiry, yet it was not delivered at its opportunity (step %d)", desc, rt.oppStep))
			}
		}
	}
	return withTranscript(ds, run)
}

func fmtI64(p *int64) string {
	if p == nil {
		return "default(86400)"
	}
	return fmt.Sprint(*p)
}

func c25Gen(rt *rapid.T) *hist.Case {
	c := &hist.Case{}
	c.Cfg.ClientPIDBase = 1000
	X := pick(rt, "server-max", []int64{0, 5, 5, 60, -1})
	if X >= 0 {
		c.Cfg.MaxMessageExpiry = &X
	}
	pver := pick(rt, "pub-version", []byte{5, 5, 5, 4})
	sver := pick(rt, "sub-version", []byte{5, 5, 4})
	interval := func() *uint32 {
		if pver != 5 {
			return nil
		}
		switch v := pick(rt, "interval", []uint32{0, 3, 3, 30, 300}); v {
		case 0:
			return nil
		default:
			return &v
		}
	}
	var offs []int64
	for _, b := range []int64{3, 5, 30, 60, 300} {
		offs = append(offs, b-5, b+5)
	}
	offs = append(offs, 1, 100000)
	ticks := func(kind string) {
		for i, n := 0, rapid.IntRange(0, 3).Draw(rt, "nticks"); i < n; i++ {
			c.Actions = append(c.Actions, hist.Action{Kind: "tick", Tick: kind, Offset: pick(rt, "off", offs)})
		}
	}
	c.Actions = append(c.Actions, hist.Action{Kind: "connect", Client: 1, Version: pver, Clean: true, AutoAck: true})
	exp := uint32(1000)
	one := uint16(1)
	sconn := func(auto bool) hist.Action {
		a := hist.Action{Kind: "connect", Client: 0, Version: sver, Clean: false, AutoAck: auto}
		if sver == 5 {
			a.Expiry = &exp
		}
		return a
	}
	for _, route := range rapid.Permutation([]string{"retained", "held-back", "offline"}).Draw(rt, "routes") {
		if rapid.IntRange(0, 3).Draw(rt, "skip-route") == 0 {
			continue
		}
		switch route {
		case "retained":
			c.Actions = append(c.Actions, hist.Action{Kind: "publish", Client: 1, Topic: "r/a", QoS: byte(rapid.IntRange(0, 1).Draw(rt, "rq")), Retain: true, MsgExpiry: interval()})
			ticks("retained")
			c.Actions = append(c.Actions, hist.Action{Kind: "connect", Client: 2, Version: pick(rt, "late-version", []byte{5, 4}), Clean: true, AutoAck: true},
				hist.Action{Kind: "subscribe", Client: 2, Filters: []refmqtt.Filter{{Filter: "r/#", QoS: 1}}},
				hist.Action{Kind: "disconnect", Client: 2})
		case "held-back":
			if sver != 5 {
				continue
			}
			a := sconn(false)
			a.RecvMax = &one
			c.Actions = append(c.Actions, a,
				hist.Action{Kind: "subscribe", Client: 0, Filters: []refmqtt.Filter{{Filter: "d/#", QoS: 1}}},
				hist.Action{Kind: "publish", Client: 1, Topic: "d/a", QoS: 1},
				hist.Action{Kind: "publish", Client: 1, Topic: "d/b", QoS: 1, MsgExpiry: interval()})
			ticks("inflight")
			c.Actions = append(c.Actions, hist.Action{Kind: "ack", Client: 0, Index: 0}, hist.Action{Kind: "drain", Client: 0},
				hist.Action{Kind: "unsubscribe", Client: 0, Filters: []refmqtt.Filter{{Filter: "d/#"}}}, hist.Action{Kind: "disconnect", Client: 0})
		case "offline":
			c.Actions = append(c.Actions, sconn(true),
				hist.Action{Kind: "subscribe", Client: 0, Filters: []refmqtt.Filter{{Filter: "q/#", QoS: 1}}},
				hist.Action{Kind: pick(rt, "offline-how", []string{"disconnect", "drop"}), Client: 0})
			// one or two more queued messages with their own intervals, before and after q/a: creation order is
			// not expiry order (seeded change C25-e: housekeeping that stops at the first message still alive)
			for _, extra := range []string{"q/l", "q/a", "q/m"} {
				if extra == "q/a" || rapid.IntRange(0, 2).Draw(rt, "extra-queued") == 0 {
					c.Actions = append(c.Actions, hist.Action{Kind: "publish", Client: 1, Topic: extra, QoS: 1, MsgExpiry: interval()})
				}
			}
			ticks("inflight")
			c.Actions = append(c.Actions, sconn(true),
				hist.Action{Kind: "unsubscribe", Client: 0, Filters: []refmqtt.Filter{{Filter: "q/#"}}}, hist.Action{Kind: "disconnect", Client: 0})
		}
	}
	return c
}

// c25Aged: three fixed histories in which REAL time passes (6 s) between the publication of a retained message and its
// replay to a subscriber whose window is full, so that "publish time" and "time it was held back" differ; they run
// concurrently once per run (a generated case never sleeps).
func c25Aged() []*hist.Case {
	var out []*hist.Case
	for _, v := range []struct {
		x      int64
		off    int64
		retQoS byte
	}{{5, 3, 1}, {5, 30, 1}, {60, 20, 2}} { // first: tick at publish time + 9 s = 1 s past expiry + margin, but only 3 s after the replay
		c := &hist.Case{}
		c.Cfg.ClientPIDBase = 1000
		x := v.x
		c.Cfg.MaxMessageExpiry = &x
		one := uint16(1)
		exp := uint32(1000)
		c.Actions = []hist.Action{
			{Kind: "connect", Client: 1, Version: 5, Clean: true, AutoAck: true},
			{Kind: "publish", Client: 1, Topic: "h/a", QoS: v.retQoS, Retain: true},
			{Kind: "connect", Client: 0, Version: 5, Clean: false, Expiry: &exp, RecvMax: &one},
			{Kind: "subscribe", Client: 0, Filters: []refmqtt.Filter{{Filter: "d/#", QoS: 1}}},
			{Kind: "sleep", Offset: 6000},
			{Kind: "publish", Client: 1, Topic: "d/a", QoS: 1}, // fresh: it fills the window and outlives the tick below
			{Kind: "subscribe", Client: 0, Filters: []refmqtt.Filter{{Filter: "h/#", QoS: 1}}},
			{Kind: "tick", Tick: "inflight", Offset: v.off},
			{Kind: "ack", Client: 0, Index: 0},
			{Kind: "drain", Client: 0},
		}
		out = append(out, c)
	}
	return out
}

func TestC25(t *testing.T) {
	r := evid.New("C25", "rapid: server maximum message expiry 0/5/60/default, publisher (v5 with Message Expiry Interval absent/3/30/300, or v3.1.1) and subscriber (v5 / v3.1.1), up to three routes per case in generated order, each with 0-3 housekeeping ticks at virtual times on both sides of every boundary (boundary-5, +5, near, far) between publication and the copy's opportunity to be sent: retained store -> later subscriber; held back by Receive Maximum 1 -> released by the client's acknowledgement; queued for an offline persistent session -> reconnect; plus three fixed 'aged' histories per run in which 6 s of real time pass between a retained publish and its (held-back) replay. Oracle: a tick of the route's housekeeping later than publish time + effective interval (smaller non-zero of publisher interval and server maximum; 3 s margin, inside not asserted) => the unsent copy is never delivered; no such tick => it is delivered at its opportunity (all three routes); every v5 delivery carries a Message Expiry Interval <= the effective interval, and carries one whenever the publisher set one. Non-trivial = a tick past expiry ran while an unsent copy existed; distinct by (history, route)")
	defer r.Finish(t)
	if evid.ReplayMode() {
		evid.Replay(t, r, replayPath(), c25Check)
		return
	}
	{
		aged := c25Aged()
		res := make([][]evid.Disc, len(aged))
		var wg sync.WaitGroup
		for i := range aged {
			wg.Add(1)
			go func(i int) { defer wg.Done(); res[i] = c25Check(aged[i], r) }(i)
		}
		wg.Wait()
		for i, ds := range res {
			r.Eval()
			r.Label("aged-retained-message-case")
			if un := r.Explain(ds); len(un) > 0 {
				r.Fail(aged[i], un)
				t.Errorf("C25 (aged case %d): [%s] %s", i, un[0].Sig, un[0].Msg)
			}
		}
	}
	evid.Run(t, r, func(rt *rapid.T) *hist.Case {
		c := c25Gen(rt)
		r.Sample(c.Summary())
		return c
	}, c25Check)
}
