package props

import (
	"bytes"
	"fmt"
	"sort"
	"strings"
	"testing"

	"pgregory.net/rapid"
	"verif/harness/evid"
	"verif/harness/hist"
	"verif/harness/refmqtt"
	"verif/harness/reftopic"
)

// ---- C03: every published message reaches exactly the entitled subscribers, once each -----------------

func hasSharedMatch(sn *hist.Snapshot, cid, topic string) bool {
	for f := range sn.Subs[cid] {
		if _, _, sh, _ := reftopic.SplitShare(f); sh && reftopic.MatchSub(f, topic) {
			return true
		}
	}
	return false
}

func c03Check(c *hist.Case, r *evid.Rec) []evid.Disc {
	run := runCase(c, r)
	if run == nil {
		return nil
	}
	m := hist.Analyze(run)
	return withTranscript(deliveryDiscs(c, run, m, r, "C03"), run)
}

// deliveryDiscs is the per-publish delivery oracle (who must and who must not receive each message), shared by the
// checks that need it; pre is the property id used in the signatures.
func deliveryDiscs(c *hist.Case, run *hist.Run, m *hist.Model, r *evid.Rec, pre string) []evid.Disc {
	var ds []evid.Disc
	for _, s := range run.Steps {
		if s.A.Kind != "publish" || s.Skipped || s.Tag == 0 || s.A.Retransmit > 0 {
			continue
		}
		ti := run.Tags[s.Tag]
		sn := m.Snaps[s.Tag]
		if ti.Empty || sn == nil || sn.Connected[ti.CID] != ti.Peer {
			continue
		}
		ent := sn.Entitled(ti.Topic, ti.CID, false)
		nEnt, nNot, overlap := 0, 0, false
		cids := make([]string, 0, len(sn.Connected))
		for cid := range sn.Connected {
			cids = append(cids, cid)
		}
		sort.Strings(cids)
		for _, cid := range cids {
			peer := sn.Connected[cid]
			p := run.Peers[peer]
			if p.BlindAt(s.I) {
				r.Label("receiver-undecodable")
				continue
			}
			if hasSharedMatch(sn, cid, ti.Topic) {
				r.Label("shared-match-left-to-C06")
				continue
			}
			got := s.Deliveries(peer, s.Tag)
			want := len(ent[cid]) > 0
			if len(ent[cid]) > 1 {
				overlap = true
			}
			if want {
				nEnt++
			} else {
				nNot++
			}
			switch {
			case want && len(got) == 0:
				if why := s.DroppedFor(cid, s.Tag); why != "" {
					r.Label("omission/" + why)
					continue
				}
				if p.Connect.Props.MaximumPacketSize != nil {
					exp := &refmqtt.Packet{Type: refmqtt.PUBLISH, Version: p.Version, Topic: ti.Topic, Payload: hist.TagPayload(s.Tag), QoS: ti.QoS, PacketID: 1, Props: ti.Props}
					if uint32(len(refmqtt.Encode(exp, refmqtt.Style{}))) > *p.Connect.Props.MaximumPacketSize {
						r.Label("omission/packet-too-large")
						continue
					}
				}
				if p.ClosedAt == s.I {
					r.Label("receiver-closed-in-step")
					continue
				}
				sig := pre + "-missing-delivery"
				if cid == ti.CID {
					for _, st := range sn.Subs[cid] {
						if st.Opts.NoLocal && reftopic.MatchSub(st.Filter, ti.Topic) {
							sig = pre + "-missing-own-message-nolocal-overlap"
						}
					}
				}
				ds = append(ds, evid.D(sig, "step %d: %s published m%d on %q; %s holds matching subscription(s) %s but received nothing", s.I, ti.CID, s.Tag, ti.Topic, cid, subList(ent[cid])))
			case want && len(got) > 1:
				ds = append(ds, evid.D(pre+"-duplicate-delivery", "step %d: m%d on %q delivered %d times to %s (subscriptions %s)", s.I, s.Tag, ti.Topic, len(got), cid, subList(ent[cid])))
			case !want && len(got) > 0:
				sig := pre + "-unentitled-delivery"
				if cid == ti.CID && len(sn.MatchingAll(cid, ti.Topic)) > 0 {
					sig = pre + "-nolocal-ignored"
				}
				ds = append(ds, evid.D(sig, "step %d: m%d on %q delivered to %s which holds no entitling subscription (its subscriptions: %s)", s.I, s.Tag, ti.Topic, cid, subKeys(sn.Subs[cid])))
			}
			for _, g := range got {
				if g.Dup {
					ds = append(ds, evid.D(pre+"-first-transmission-dup", "step %d: first transmission of m%d to %s has DUP set", s.I, s.Tag, cid))
				}
				if g.Topic != ti.Topic && g.Props.TopicAlias == nil {
					ds = append(ds, evid.D(pre+"-topic-changed", "step %d: m%d published on %q arrived at %s on %q", s.I, s.Tag, ti.Topic, cid, g.Topic))
				}
				if p.Version == 5 && ti.Version == 5 {
					if d := appPropsDiff(&ti.Props, &g.Props, p); d != "" {
						ds = append(ds, evid.D(pre+"-properties-changed", "step %d: m%d delivered to %s with changed application properties: %s", s.I, s.Tag, cid, d))
					}
				}
			}
		}
		if (nEnt > 0 && nNot > 0 && len(cids) >= 2) || overlap {
			r.NonTrivial(fmt.Sprintf("%v|%s|%s", snapKey(sn), ti.Topic, ti.CID))
			if overlap {
				r.Label("overlap")
			}
		}
	}
	return ds
}

func subList(ms []hist.SubState) string {
	var out []string
	for _, st := range ms {
		x := st.Filter
		if st.Opts.NoLocal {
			x += "(nl)"
		}
		out = append(out, x)
	}
	return "[" + strings.Join(out, " ") + "]"
}

func subKeys(m map[string]hist.SubState) string {
	var out []string
	for f, st := range m {
		x := f
		if st.Opts.NoLocal {
			x += "(nl)"
		}
		out = append(out, x)
	}
	sort.Strings(out)
	return "[" + strings.Join(out, " ") + "]"
}

func snapKey(sn *hist.Snapshot) string {
	var out []string
	for cid := range sn.Connected {
		out = append(out, cid+subKeys(sn.Subs[cid]))
	}
	sort.Strings(out)
	return strings.Join(out, ";")
}

// appPropsDiff compares the application properties that must be forwarded unchanged.
func appPropsDiff(want, got *refmqtt.Props, receiver *hist.Peer) string {
	var d []string
	eqS := func(name string, a, b *string) {
		if (a == nil) != (b == nil) || (a != nil && *a != *b) {
			d = append(d, name)
		}
	}
	eqS("content type", want.ContentType, got.ContentType)
	eqS("response topic", want.ResponseTopic, got.ResponseTopic)
	if !bytes.Equal(want.CorrelationData, got.CorrelationData) {
		d = append(d, "correlation data")
	}
	if fmt.Sprint(want.User) != fmt.Sprint(got.User) {
		// Request Problem Information = 0 makes the broker withhold user properties (its documented encoder suppression)
		if !(receiver.Connect.Props.RequestProblemInfo != nil && *receiver.Connect.Props.RequestProblemInfo == 0) {
			d = append(d, fmt.Sprintf("user properties %v != %v", got.User, want.User))
		}
	}
	return strings.Join(d, ", ")
}

func TestC03(t *testing.T) {
	r := evid.New("C03", "rapid: histories of 5-40 actions over 3 clients (v3.1, v3.1.1, v5 mixed): connect (clean start 0/1, expiry), subscribe (1-3 overlapping filters with NoLocal/RAP/RH/identifier), unsubscribe, publish (QoS 0-2, v5 application properties), disconnect, drop, reconnect; executed against the real broker over in-memory connections with step-wise quiescence; every connection acknowledges at once and capacities are large, so no permitted omission can occur unless reported; oracle: per publish, deliveries observed in that step on each connected client == entitlement computed from acknowledged subscriptions by the reference matcher; non-trivial = a publish with both an entitled and a non-entitled connected client, or overlapping matching subscriptions on one client; distinct by (subscription state, topic, publisher)")
	defer r.Finish(t)
	if evid.ReplayMode() {
		evid.Replay(t, r, replayPath(), c03Check)
		return
	}
	g := defaultHistGen()
	evid.Run(t, r, func(rt *rapid.T) *hist.Case {
		c := g.Draw(rt)
		r.Sample(c.Summary())
		return c
	}, c03Check)
}
