package props

import (
	"strings"

	"pgregory.net/rapid"
	"verif/harness/refmqtt"
)

// Generators of well-formed abstract MQTT packets (every type x version x direction), used by C26, C27, C42.

var genStr = rapid.OneOf(
	rapid.SampledFrom([]string{"", "a", "ab", "x/y", "é", "日本", "a b", "\U0001F600", "ÿ"}),
	rapid.StringOfN(rapid.RuneFrom([]rune{'a', 'b', '/', 'é', '日', ' ', '1'}), 0, 12, -1),
	rapid.Custom(func(t *rapid.T) string { // boundary lengths
		n := rapid.SampledFrom([]int{127, 128, 255, 256, 65535}).Draw(t, "slen")
		return strings.Repeat("s", n)
	}),
)

var genNonEmptyStr = genStr.Filter(func(s string) bool { return s != "" })

var genBin = rapid.OneOf(
	rapid.SliceOfN(rapid.Byte(), 0, 10),
	rapid.Custom(func(t *rapid.T) []byte {
		n := rapid.SampledFrom([]int{127, 128, 300, 65535}).Draw(t, "blen")
		b := make([]byte, n)
		for i := range b {
			b[i] = byte(i)
		}
		return b
	}),
)

var genNonEmptyBin = genBin.Filter(func(b []byte) bool { return len(b) > 0 })

var genU32 = rapid.OneOf(rapid.SampledFrom([]uint32{1, 127, 128, 16383, 16384, 2097151, 2097152, 268435455, 0xFFFF, 0xFFFFFFFF}), rapid.Uint32Range(1, 0xFFFFFFFF))
var genU16 = rapid.OneOf(rapid.SampledFrom([]uint16{1, 2, 127, 128, 255, 256, 0xFFFF}), rapid.Uint16Range(1, 0xFFFF))
var genSubID = rapid.OneOf(rapid.SampledFrom([]uint32{1, 127, 128, 16383, 16384, 2097151, 2097152, 268435455}), rapid.Uint32Range(1, 268435455))
var genTopicName = rapid.OneOf(rapid.SampledFrom([]string{"a", "a/b", "/", "a//b", "$SYS/x", "é/日", "x y/z"}),
	rapid.StringOfN(rapid.RuneFrom([]rune{'a', 'b', '/', 'é', '$'}), 1, 10, -1))
var genFilterStr = rapid.SampledFrom([]string{"a", "a/b", "#", "+", "a/+", "a/#", "+/+/#", "$share/g/a", "$share/g/+/#", "/", "é/+"})

func opt[T any](t *rapid.T, label string, g *rapid.Generator[T]) *T {
	if rapid.Bool().Draw(t, label+"?") {
		v := g.Draw(t, label)
		return &v
	}
	return nil
}

func optBin(t *rapid.T, label string) []byte {
	if rapid.Bool().Draw(t, label+"?") {
		return genNonEmptyBin.Draw(t, label)
	}
	return nil
}

func genUser(t *rapid.T) []refmqtt.KV {
	n := rapid.IntRange(0, 5).Draw(t, "nuser")
	if rapid.IntRange(0, 2).Draw(t, "nouser") == 0 {
		n = 0
	}
	var out []refmqtt.KV
	for i := 0; i < n; i++ {
		out = append(out, refmqtt.KV{K: genStr.Draw(t, "uk"), V: genStr.Draw(t, "uv")})
	}
	return out
}

var genBit = rapid.SampledFrom([]byte{0, 1})

// genProps draws a property set restricted to the identifiers in allowed.
func genProps(t *rapid.T, allowed []byte, maxSubIDs int) refmqtt.Props {
	var p refmqtt.Props
	if rapid.IntRange(0, 3).Draw(t, "noprops") == 0 {
		return p
	}
	for _, id := range allowed {
		switch id {
		case refmqtt.PPayloadFormat:
			p.PayloadFormat = opt(t, "pf", genBit)
		case refmqtt.PMessageExpiry:
			p.MessageExpiry = opt(t, "me", genU32)
		case refmqtt.PContentType:
			p.ContentType = opt(t, "ct", genNonEmptyStr)
		case refmqtt.PResponseTopic:
			p.ResponseTopic = opt(t, "rt", genTopicName)
		case refmqtt.PCorrelationData:
			p.CorrelationData = optBin(t, "cd")
		case refmqtt.PSubscriptionID:
			n := rapid.IntRange(0, maxSubIDs).Draw(t, "nsubid")
			for i := 0; i < n; i++ {
				p.SubscriptionIDs = append(p.SubscriptionIDs, genSubID.Draw(t, "subid"))
			}
		case refmqtt.PSessionExpiry:
			p.SessionExpiry = opt(t, "se", rapid.OneOf(rapid.Just(uint32(0)), genU32))
		case refmqtt.PAssignedClientID:
			p.AssignedClientID = opt(t, "aci", genNonEmptyStr)
		case refmqtt.PServerKeepAlive:
			p.ServerKeepAlive = opt(t, "ska", rapid.OneOf(rapid.Just(uint16(0)), genU16))
		case refmqtt.PAuthMethod:
			p.AuthMethod = opt(t, "am", genNonEmptyStr)
		case refmqtt.PAuthData:
			if p.AuthMethod != nil {
				p.AuthData = optBin(t, "ad")
			}
		case refmqtt.PRequestProblemInfo:
			p.RequestProblemInfo = opt(t, "rpi", genBit)
		case refmqtt.PWillDelay:
			p.WillDelay = opt(t, "wd", genU32)
		case refmqtt.PRequestRespInfo:
			p.RequestRespInfo = opt(t, "rri", rapid.Just(byte(1)))
		case refmqtt.PResponseInfo:
			p.ResponseInfo = opt(t, "ri", genNonEmptyStr)
		case refmqtt.PServerReference:
			p.ServerReference = opt(t, "sr", genNonEmptyStr)
		case refmqtt.PReasonString:
			p.ReasonString = opt(t, "rs", genNonEmptyStr)
		case refmqtt.PReceiveMaximum:
			p.ReceiveMaximum = opt(t, "rm", genU16)
		case refmqtt.PTopicAliasMaximum:
			p.TopicAliasMaximum = opt(t, "tam", genU16)
		case refmqtt.PTopicAlias:
			p.TopicAlias = opt(t, "ta", genU16)
		case refmqtt.PMaximumQoS:
			p.MaximumQoS = opt(t, "mq", genBit)
		case refmqtt.PRetainAvailable:
			p.RetainAvailable = opt(t, "ra", genBit)
		case refmqtt.PUserProperty:
			p.User = genUser(t)
		case refmqtt.PMaximumPacketSize:
			p.MaximumPacketSize = opt(t, "mps", genU32)
		case refmqtt.PWildcardSubAvail:
			p.WildcardSubAvail = opt(t, "wsa", genBit)
		case refmqtt.PSubIDAvail:
			p.SubIDAvail = opt(t, "sia", genBit)
		case refmqtt.PSharedSubAvail:
			p.SharedSubAvail = opt(t, "ssa", genBit)
		}
	}
	return p
}

var (
	propsConnect    = []byte{17, 33, 39, 34, 25, 23, 38, 21, 22}
	propsWill       = []byte{24, 1, 2, 3, 8, 9, 38}
	propsConnack    = []byte{17, 33, 36, 37, 39, 18, 34, 31, 38, 40, 41, 42, 19, 26, 28, 21, 22}
	propsPublishS2C = []byte{1, 2, 35, 8, 9, 38, 11, 3}
	propsPublishC2S = []byte{1, 2, 35, 8, 9, 38, 3}
	propsAck        = []byte{31, 38}
	propsSubscribe  = []byte{11, 38}
	propsUnsub      = []byte{38}
	propsDiscS2C    = []byte{31, 38, 28}
	propsDiscC2S    = []byte{17, 31, 38, 28}
	propsAuth       = []byte{21, 22, 31, 38}

	rcPubackRec  = []byte{0x00, 0x10, 0x80, 0x83, 0x87, 0x90, 0x91, 0x97, 0x99}
	rcPubrelComp = []byte{0x00, 0x92}
	rcSuback5    = []byte{0, 1, 2, 0x80, 0x83, 0x87, 0x8F, 0x91, 0x97, 0x9E, 0xA1, 0xA2}
	rcSuback3    = []byte{0, 1, 2, 0x80}
	rcUnsuback   = []byte{0x00, 0x11, 0x80, 0x83, 0x87, 0x8F, 0x91}
	rcConnack5   = []byte{0x00, 0x80, 0x81, 0x82, 0x83, 0x84, 0x85, 0x86, 0x87, 0x88, 0x89, 0x8A, 0x8C, 0x90, 0x95, 0x97, 0x99, 0x9A, 0x9B, 0x9C, 0x9D, 0x9F}
	rcDisc       = []byte{0x00, 0x80, 0x81, 0x82, 0x83, 0x87, 0x89, 0x8B, 0x8D, 0x8E, 0x8F, 0x90, 0x93, 0x94, 0x95, 0x96, 0x97, 0x98, 0x99, 0x9A, 0x9B, 0x9C, 0x9D, 0x9E, 0x9F, 0xA0, 0xA1, 0xA2}
	rcAuth       = []byte{0x00, 0x18, 0x19}
)

var allTypes = []byte{1, 1, 2, 2, 3, 3, 3, 3, 4, 5, 6, 7, 8, 8, 9, 10, 11, 12, 13, 14, 14, 15}

func dirOf(t byte, rt *rapid.T) refmqtt.Direction {
	switch t {
	case refmqtt.CONNECT, refmqtt.SUBSCRIBE, refmqtt.UNSUBSCRIBE, refmqtt.PINGREQ:
		return refmqtt.ClientToServer
	case refmqtt.CONNACK, refmqtt.SUBACK, refmqtt.UNSUBACK, refmqtt.PINGRESP:
		return refmqtt.ServerToClient
	}
	if rapid.Bool().Draw(rt, "c2s") {
		return refmqtt.ClientToServer
	}
	return refmqtt.ServerToClient
}

// genPacket draws a well-formed packet of the given type for a connection of the given version and direction.
// For v3/v4 DISCONNECT and AUTH only the legal combinations are produced by callers (see genAnyPacket).
func genPacket(rt *rapid.T, typ, version byte, dir refmqtt.Direction) *refmqtt.Packet {
	p := &refmqtt.Packet{Type: typ, Version: version}
	v5 := version == 5
	pid := func() uint16 { return genU16.Draw(rt, "pid") }
	switch typ {
	case refmqtt.CONNECT:
		p.Level = version
		p.ProtocolName = "MQTT"
		if version == 3 {
			p.ProtocolName = "MQIsdp"
		}
		p.CleanStart = rapid.Bool().Draw(rt, "clean")
		p.KeepAlive = rapid.OneOf(rapid.Just(uint16(0)), genU16).Draw(rt, "ka")
		p.ClientID = genStr.Draw(rt, "cid")
		if v5 {
			p.Props = genProps(rt, propsConnect, 0)
		}
		if rapid.Bool().Draw(rt, "will") {
			p.WillFlag = true
			p.WillQoS = byte(rapid.IntRange(0, 2).Draw(rt, "wq"))
			p.WillRetain = rapid.Bool().Draw(rt, "wr")
			p.WillTopic = genTopicName.Draw(rt, "wt")
			p.WillPayload = genNonEmptyBin.Draw(rt, "wp")
			if v5 {
				p.WillProps = genProps(rt, propsWill, 0)
			}
		}
		if rapid.Bool().Draw(rt, "user") {
			p.UsernameFlag = true
			p.Username = []byte(genNonEmptyStr.Draw(rt, "username"))
			if rapid.Bool().Draw(rt, "pass") {
				p.PasswordFlag = true
				p.Password = genNonEmptyBin.Draw(rt, "password")
			}
		} else if v5 && rapid.Bool().Draw(rt, "passonly") {
			p.PasswordFlag = true
			p.Password = genNonEmptyBin.Draw(rt, "password")
		}
	case refmqtt.CONNACK:
		if v5 {
			p.ReasonCode = rapid.SampledFrom(rcConnack5).Draw(rt, "rc")
			p.Props = genProps(rt, propsConnack, 0)
		} else {
			p.ReasonCode = byte(rapid.IntRange(0, 5).Draw(rt, "rc"))
		}
		if p.ReasonCode == 0 {
			p.SessionPresent = rapid.Bool().Draw(rt, "sp")
		}
	case refmqtt.PUBLISH:
		p.QoS = byte(rapid.IntRange(0, 2).Draw(rt, "qos"))
		p.Retain = rapid.Bool().Draw(rt, "retain")
		if p.QoS > 0 {
			p.Dup = rapid.Bool().Draw(rt, "dup")
			p.PacketID = pid()
		}
		p.Topic = genTopicName.Draw(rt, "topic")
		p.Payload = genBin.Draw(rt, "payload")
		if v5 {
			if dir == refmqtt.ServerToClient {
				p.Props = genProps(rt, propsPublishS2C, 4)
			} else {
				p.Props = genProps(rt, propsPublishC2S, 0)
			}
			if p.Props.TopicAlias != nil && rapid.Bool().Draw(rt, "aliasonly") {
				p.Topic = ""
			}
		}
	case refmqtt.PUBACK, refmqtt.PUBREC, refmqtt.PUBREL, refmqtt.PUBCOMP:
		p.PacketID = pid()
		if v5 {
			set := rcPubackRec
			if typ == refmqtt.PUBREL || typ == refmqtt.PUBCOMP {
				set = rcPubrelComp
			}
			p.ReasonCode = rapid.SampledFrom(set).Draw(rt, "rc")
			p.Props = genProps(rt, propsAck, 0)
		}
	case refmqtt.SUBSCRIBE:
		p.PacketID = pid()
		n := rapid.IntRange(1, 4).Draw(rt, "nfilters")
		for i := 0; i < n; i++ {
			f := refmqtt.Filter{Filter: genFilterStr.Draw(rt, "filter"), QoS: byte(rapid.IntRange(0, 2).Draw(rt, "fq"))}
			if v5 {
				f.NoLocal, f.RAP, f.RH = rapid.Bool().Draw(rt, "nl"), rapid.Bool().Draw(rt, "rap"), byte(rapid.IntRange(0, 2).Draw(rt, "rh"))
			}
			p.Filters = append(p.Filters, f)
		}
		if v5 {
			p.Props = genProps(rt, propsSubscribe, 1)
		}
	case refmqtt.UNSUBSCRIBE:
		p.PacketID = pid()
		n := rapid.IntRange(1, 4).Draw(rt, "nfilters")
		for i := 0; i < n; i++ {
			p.Filters = append(p.Filters, refmqtt.Filter{Filter: genFilterStr.Draw(rt, "filter")})
		}
		if v5 {
			p.Props = genProps(rt, propsUnsub, 0)
		}
	case refmqtt.SUBACK:
		p.PacketID = pid()
		set := rcSuback3
		if v5 {
			set = rcSuback5
			p.Props = genProps(rt, propsAck, 0)
		}
		p.ReasonCodes = rapid.SliceOfN(rapid.SampledFrom(set), 1, 5).Draw(rt, "codes")
	case refmqtt.UNSUBACK:
		p.PacketID = pid()
		if v5 {
			p.Props = genProps(rt, propsAck, 0)
			p.ReasonCodes = rapid.SliceOfN(rapid.SampledFrom(rcUnsuback), 1, 5).Draw(rt, "codes")
		}
	case refmqtt.PINGREQ, refmqtt.PINGRESP:
	case refmqtt.DISCONNECT:
		if v5 {
			set := rcDisc
			allowed := propsDiscS2C
			if dir == refmqtt.ClientToServer {
				set = append(append([]byte{}, rcDisc...), 0x04)
				allowed = propsDiscC2S
			}
			p.ReasonCode = rapid.SampledFrom(set).Draw(rt, "rc")
			p.Props = genProps(rt, allowed, 0)
		}
	case refmqtt.AUTH:
		p.ReasonCode = rapid.SampledFrom(rcAuth).Draw(rt, "rc")
		p.Props = genProps(rt, propsAuth, 0)
	}
	return p
}

// genAnyPacket draws (type, version, direction) among the legal combinations and then a packet.
func genAnyPacket(rt *rapid.T, dirs []refmqtt.Direction) (*refmqtt.Packet, refmqtt.Direction) {
	for {
		typ := rapid.SampledFrom(allTypes).Draw(rt, "type")
		version := rapid.SampledFrom([]byte{3, 4, 5, 5}).Draw(rt, "version")
		dir := dirOf(typ, rt)
		if len(dirs) == 1 {
			switch typ {
			case refmqtt.PUBLISH, refmqtt.PUBACK, refmqtt.PUBREC, refmqtt.PUBREL, refmqtt.PUBCOMP, refmqtt.DISCONNECT, refmqtt.AUTH:
				dir = dirs[0]
			}
			if dir != dirs[0] {
				continue
			}
		}
		if typ == refmqtt.AUTH && version != 5 {
			version = 5
		}
		if typ == refmqtt.DISCONNECT && version != 5 && dir == refmqtt.ServerToClient {
			dir = refmqtt.ClientToServer
			if len(dirs) == 1 && dirs[0] != dir {
				continue
			}
		}
		return genPacket(rt, typ, version, dir), dir
	}
}

// shapeKey is the distinct-case key: type, version and which fields/properties are populated and how large.
func shapeKey(p *refmqtt.Packet) string {
	var sb strings.Builder
	sb.WriteString(refmqtt.TypeName(p.Type))
	sb.WriteByte('0' + p.Version)
	sb.WriteString(p.Props.String())
	sb.WriteString(p.WillProps.String())
	sb.WriteString(strings.Repeat("f", len(p.Filters)))
	sb.WriteString(strings.Repeat("c", len(p.ReasonCodes)))
	if len(p.Payload) > 200 || len(p.Topic) > 200 || len(p.ClientID) > 200 {
		sb.WriteString("L")
	}
	return sb.String()
}

func nontrivialPacket(p *refmqtt.Packet) bool {
	return !p.Props.IsEmpty() || !p.WillProps.IsEmpty() || len(p.Filters) >= 2 || len(p.ReasonCodes) >= 2 ||
		len(p.Payload) >= 127 || len(p.Topic) >= 127 || len(p.ClientID) >= 127
}
