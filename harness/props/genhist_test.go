package props

import (
	"fmt"
	"strings"

	"pgregory.net/rapid"
	"verif/harness/evid"
	"verif/harness/hist"
	"verif/harness/refmqtt"
)

// Shared generator of protocol histories for the simulation-based checks. Each property configures the knobs
// (which actions, which option ranges) and adds its own focused actions.

type histGen struct {
	NClients   int
	Versions   []byte
	Topics     []string
	Filters    []string
	MinActions int
	MaxActions int
	AutoAck    bool
	// weights of action kinds (0 = never)
	WConnect, WSubscribe, WUnsubscribe, WPublish, WDisconnect, WDrop, WPing, WAck int
	PubQoS                                                                        []byte
	SubQoS                                                                        []byte
	Retain                                                                        bool // allow retained publishes
	EmptyPayload                                                                  bool // allow empty payloads (retained delete)
	SubOptions                                                                    bool // NoLocal / RAP / RH / identifiers
	Rich                                                                          bool // v5 application properties on publishes
	CleanStart                                                                    []bool
	Expiry                                                                        []uint32 // v5 session expiry choices (0 = absent)
	RecvMax                                                                       []uint16 // v5 receive maximum choices (0 = absent)
	TAM                                                                           []uint16
	MaxPkt                                                                        []uint32
	MultiFilter                                                                   bool // several filters per SUBSCRIBE
	InitAll                                                                       bool // every client connects at the start (otherwise each is skipped with probability 1/5)
	RetainBias                                                                    int  // 0: retain drawn 50/50; n>0: retain with probability n/(n+1)
	AckFailure                                                                    bool // v5 clients' manual acknowledgements sometimes carry a failure reason code
}

var stdTopics = []string{"a", "b", "a/b", "a/a", "b/a", "a/b/c", "a/b/a", "$x/a", "a/", "/a"}
var stdFilters = []string{"a", "b", "a/b", "a/#", "#", "+", "+/b", "a/+", "+/+", "a/b/#", "a/+/#", "+/#", "$x/#", "$x/+", "a/b/c", "+/b/#", "a/", "/a", "/+", "b/#"}

func defaultHistGen() *histGen {
	return &histGen{NClients: 3, Versions: []byte{4, 5, 5, 3}, Topics: stdTopics, Filters: stdFilters, MinActions: 5, MaxActions: 40, AutoAck: true,
		WConnect: 2, WSubscribe: 4, WUnsubscribe: 1, WPublish: 6, WDisconnect: 1, WDrop: 1, WPing: 0,
		PubQoS: []byte{0, 1, 2}, SubQoS: []byte{0, 1, 2}, Retain: false, SubOptions: true, Rich: true, CleanStart: []bool{true, true, false},
		Expiry: []uint32{0, 0, 100}, MultiFilter: true}
}

func pick[T any](rt *rapid.T, label string, xs []T) T { return rapid.SampledFrom(xs).Draw(rt, label) }

func (g *histGen) connect(rt *rapid.T, client int, version byte) hist.Action {
	a := hist.Action{Kind: "connect", Client: client, Version: version, Clean: pick(rt, "clean", g.CleanStart), AutoAck: g.AutoAck}
	if version == 5 {
		if e := pick(rt, "expiry", g.Expiry); e > 0 {
			a.Expiry = &e
		}
		if len(g.RecvMax) > 0 {
			if v := pick(rt, "recvmax", g.RecvMax); v > 0 {
				a.RecvMax = &v
			}
		}
		if len(g.TAM) > 0 {
			if v := pick(rt, "tam", g.TAM); v > 0 {
				a.TAM = &v
			}
		}
		if len(g.MaxPkt) > 0 {
			if v := pick(rt, "maxpkt", g.MaxPkt); v > 0 {
				a.MaxPkt = &v
			}
		}
	}
	return a
}

func (g *histGen) subscribe(rt *rapid.T, client int) hist.Action {
	n := 1
	if g.MultiFilter {
		n = rapid.IntRange(1, 3).Draw(rt, "nfilters")
	}
	a := hist.Action{Kind: "subscribe", Client: client}
	for i := 0; i < n; i++ {
		f := refmqtt.Filter{Filter: pick(rt, "filter", g.Filters), QoS: pick(rt, "subqos", g.SubQoS)}
		if g.SubOptions {
			f.NoLocal = rapid.IntRange(0, 3).Draw(rt, "nl") == 0
			f.RAP = rapid.IntRange(0, 3).Draw(rt, "rap") == 0
			f.RH = byte(rapid.IntRange(0, 2).Draw(rt, "rh"))
			if strings.HasPrefix(f.Filter, "$share/") {
				f.NoLocal = false // shared + no local is a protocol error; generated separately where wanted
			}
		}
		a.Filters = append(a.Filters, f)
	}
	if g.SubOptions && rapid.Bool().Draw(rt, "hasid") {
		a.SubID = rapid.SampledFrom([]uint32{1, 2, 3, 127, 128, 268435455}).Draw(rt, "subid")
	}
	return a
}

func (g *histGen) publish(rt *rapid.T, client int) hist.Action {
	a := hist.Action{Kind: "publish", Client: client, Topic: pick(rt, "topic", g.Topics), QoS: pick(rt, "pubqos", g.PubQoS), Rich: g.Rich && rapid.Bool().Draw(rt, "rich")}
	if g.Retain {
		a.Retain = rapid.Bool().Draw(rt, "retain")
		if g.RetainBias > 0 {
			a.Retain = rapid.IntRange(0, g.RetainBias).Draw(rt, "retainb") != 0
		}
		if a.Retain && g.EmptyPayload {
			a.Empty = rapid.IntRange(0, 3).Draw(rt, "empty") == 0
		}
	}
	return a
}

// Draw generates a case: every client connects early (in generated order, with generated versions), then a
// weighted mix of actions. The version of a client id is fixed within a history.
func (g *histGen) Draw(rt *rapid.T) *hist.Case {
	c := &hist.Case{}
	versions := make([]byte, g.NClients)
	for i := range versions {
		versions[i] = pick(rt, "version", g.Versions)
	}
	for i := 0; i < g.NClients; i++ {
		if g.InitAll || rapid.IntRange(0, 4).Draw(rt, "skipinit") != 1 {
			c.Actions = append(c.Actions, g.connect(rt, i, versions[i]))
		}
	}
	type wk struct {
		w int
		k string
	}
	var kinds []string
	for _, x := range []wk{{g.WConnect, "connect"}, {g.WSubscribe, "subscribe"}, {g.WUnsubscribe, "unsubscribe"}, {g.WPublish, "publish"},
		{g.WDisconnect, "disconnect"}, {g.WDrop, "drop"}, {g.WPing, "ping"}, {g.WAck, "ack"}} {
		for i := 0; i < x.w; i++ {
			kinds = append(kinds, x.k)
		}
	}
	// one generator per action, collected with SliceOfN so that rapid can delete whole actions when shrinking
	action := rapid.Custom(func(rt *rapid.T) hist.Action {
		cl := rapid.IntRange(0, g.NClients-1).Draw(rt, "client")
		switch pick(rt, "kind", kinds) {
		case "connect":
			return g.connect(rt, cl, versions[cl])
		case "subscribe":
			return g.subscribe(rt, cl)
		case "unsubscribe":
			a := hist.Action{Kind: "unsubscribe", Client: cl}
			nf := 1
			if g.MultiFilter {
				nf = rapid.IntRange(1, 2).Draw(rt, "nunsub")
			}
			for j := 0; j < nf; j++ {
				a.Filters = append(a.Filters, refmqtt.Filter{Filter: pick(rt, "filter", g.Filters)})
			}
			return a
		case "publish":
			return g.publish(rt, cl)
		case "disconnect":
			return hist.Action{Kind: "disconnect", Client: cl}
		case "drop":
			return hist.Action{Kind: pick(rt, "dropkind", []string{"drop", "close"}), Client: cl}
		case "ping":
			return hist.Action{Kind: "ping", Client: cl}
		case "ack":
			a := hist.Action{Kind: "ack", Client: cl, Index: rapid.IntRange(0, 5).Draw(rt, "ackidx")}
			if g.AckFailure && versions[cl] == 5 && rapid.IntRange(0, 3).Draw(rt, "ackfail") == 0 {
				a.Reason = pick(rt, "ackreason", []byte{0x80, 0x83, 0x97})
			}
			return a
		}
		return hist.Action{Kind: "nop"}
	})
	c.Actions = append(c.Actions, rapid.SliceOfN(action, g.MinActions, g.MaxActions).Draw(rt, "actions")...)
	return c
}

// runCase executes a case; an inconclusive run (no quiescence) is reported through rec and yields nil.
func runCase(c *hist.Case, r *evid.Rec) *hist.Run {
	run := hist.Execute(c)
	if run.Fatal != "" {
		r.Label("inconclusive-run")
		r.Inconclusive(run.Fatal)
		if r.LabelCount("inconclusive-run") <= 2 {
			fmt.Printf("INCONCLUSIVE RUN: %s\n%s\n%s\n", run.Fatal, run.Transcript(), firstLines(run.Dump, 80))
		}
		return nil
	}
	return run
}

func firstLines(s string, n int) string {
	ls := strings.Split(s, "\n")
	if len(ls) > n {
		ls = ls[:n]
	}
	return strings.Join(ls, "\n")
}

// withTranscript appends the executed history to the first discrepancy so that failure reports are self-contained.
func withTranscript(ds []evid.Disc, run *hist.Run) []evid.Disc {
	if len(ds) > 0 {
		ctx := "--- history ---\n" + run.Transcript()
		for i := range ds {
			ds[i].Ctx = ctx
		}
	}
	return ds
}

// caseKey identifies a generated history (used to count distinct non-trivial cases).
func caseKey(c *hist.Case) string { return strings.Join(c.Summary(), ";") }
