package props

import (
	"strings"
	"testing"
	"unicode/utf8"

	"verif/harness/evid"
	"verif/harness/refmqtt"
	"verif/harness/reftopic"
)

// Native fuzz targets (thorough tier, second stage): coverage-guided byte strings fed to the same check functions the
// rapid generators feed. The seeds are a handful of small valid encodings and hostile constants.

func fuzzSeedPackets() [][]byte {
	var out [][]byte
	for _, p := range []*refmqtt.Packet{
		{Type: refmqtt.CONNECT, Version: 4, ClientID: "c", CleanStart: true, KeepAlive: 30},
		{Type: refmqtt.CONNECT, Version: 5, ClientID: "c", KeepAlive: 30, WillFlag: true, WillTopic: "w", WillPayload: []byte("x"), WillQoS: 1},
		{Type: refmqtt.PUBLISH, Version: 5, Topic: "a/b", QoS: 1, PacketID: 2, Payload: []byte("x")},
		{Type: refmqtt.PUBLISH, Version: 4, Topic: "a", Payload: []byte("y")},
		{Type: refmqtt.SUBSCRIBE, Version: 5, PacketID: 1, Filters: []refmqtt.Filter{{Filter: "#", QoS: 1}, {Filter: "$share/g/a/+", QoS: 2}}},
		{Type: refmqtt.UNSUBSCRIBE, Version: 4, PacketID: 3, Filters: []refmqtt.Filter{{Filter: "a/#"}}},
		{Type: refmqtt.PUBACK, Version: 5, PacketID: 9, ReasonCode: 0x10},
		{Type: refmqtt.PUBREL, Version: 5, PacketID: 9},
		{Type: refmqtt.DISCONNECT, Version: 5, ReasonCode: 0x04},
		{Type: refmqtt.AUTH, Version: 5, ReasonCode: 0x18},
		{Type: refmqtt.PINGREQ, Version: 4},
	} {
		out = append(out, refmqtt.Encode(p, refmqtt.Style{}))
	}
	return append(out, []byte{0x30, 0x80, 0x08}, []byte{0x82, 0x80, 0x80, 0x80, 0x80, 0x01}, []byte{0xE0, 0x02, 0x00, 0x05}, []byte{0x10, 0x00})
}

var fuzzVersions = []byte{3, 4, 5, 5}

var fuzzC27 = evid.NewFuzz("C27", "native fuzzing: (first byte, version, body) - no panic; an accepted body must survive re-encoding")

func FuzzC27(f *testing.F) {
	for _, b := range fuzzSeedPackets() {
		if first, _, body, ok := splitFixed(b); ok {
			f.Add(first, byte(2), body)
			f.Add(first, byte(1), body)
		}
	}
	f.Fuzz(func(t *testing.T, first, ver byte, body []byte) {
		if first>>4 == 0 {
			first |= 0x10
		}
		evid.FuzzStep(t, fuzzC27, c27Case{First: first, Version: fuzzVersions[ver&3], Body: body, Class: "truncated"}, c27Check)
	})
}

var fuzzC26 = evid.NewFuzz("C26", "native fuzzing: byte strings; whatever the strict reference decoder reads as a packet (either direction) goes through the packet-side round-trip and differential oracle, everything else through the byte-side oracle")

func FuzzC26(f *testing.F) {
	for _, b := range fuzzSeedPackets() {
		f.Add(byte(2), b)
		f.Add(byte(1), b)
	}
	f.Fuzz(func(t *testing.T, ver byte, b []byte) {
		evid.FuzzStep(t, fuzzC26, c26Case{Bytes: b, Version: fuzzVersions[ver&3], Ref: true}, c26Check)
	})
}

var fuzzC42 = evid.NewFuzz("C42", "native fuzzing: byte strings; whatever the strict reference decoder reads as exactly one client-to-server packet must be read by mochi as the same abstract packet")

func FuzzC42(f *testing.F) {
	for _, b := range fuzzSeedPackets() {
		f.Add(byte(2), b)
		f.Add(byte(1), b)
	}
	f.Fuzz(func(t *testing.T, ver byte, b []byte) {
		evid.FuzzStep(t, fuzzC42, c42Case{Bytes: b, Version: fuzzVersions[ver&3]}, c42Check)
	})
}

var fuzzC29 = evid.NewFuzz("C29", "native fuzzing: byte strings against the reference variable-byte-integer decoder; values against the reference encoder")

func FuzzC29(f *testing.F) {
	f.Add([]byte{0x00}, uint32(0))
	f.Add([]byte{0x80, 0x01}, uint32(128))
	f.Add([]byte{0xFF, 0xFF, 0xFF, 0x7F}, uint32(268435455))
	f.Add([]byte{0x80, 0x80, 0x80, 0x80, 0x01}, uint32(16384))
	f.Add([]byte{0x80, 0x00}, uint32(2097152))
	f.Fuzz(func(t *testing.T, b []byte, v uint32) {
		if len(b) > 0 && b[0]&0x80 != 0 {
			fuzzC29.R().NonTrivial(string(b))
		}
		evid.FuzzStep(t, fuzzC29, c29Dec{B: b}, c29CheckDec)
		evid.FuzzStep(t, fuzzC29, c29Enc{V: int(v % (vbiMax + 1))}, c29CheckEnc)
	})
}

var fuzzC30 = evid.NewFuzz("C30", "native fuzzing: strings judged as subscription filter and as publish topic against the reference validity rules")

func FuzzC30(f *testing.F) {
	for _, s := range []string{"a/b", "#", "+/+", "$share/g/a", "$share//a", "$SYS/x", "a/#/b", "a+", "", "/", "$share/g/", "$share/g+/a", "$sys/a", "a//b/#"} {
		f.Add(s)
	}
	f.Fuzz(func(t *testing.T, s string) {
		if c30NonTrivial(s) {
			fuzzC30.R().NonTrivial(s)
		}
		evid.FuzzStep(t, fuzzC30, c30Case{S: s, ForPublish: false}, c30Check)
		evid.FuzzStep(t, fuzzC30, c30Case{S: s, ForPublish: true}, c30Check)
	})
}

var fuzzC01 = evid.NewFuzz("C01", "native fuzzing: two valid filters (each as client, shared or inline subscription), an optional removal and a valid topic name; selected set against the reference matcher, both directions")

func FuzzC01(f *testing.F) {
	f.Add(byte(0), "a/+", "a/#", "a/b")
	f.Add(byte(1), "+/b/#", "#", "a/b")
	f.Add(byte(2+3*1+9), "$x/#", "+/+", "$x/a")
	f.Add(byte(5), "a//b", "a/+/b", "a//b")
	f.Add(byte(7), "/", "+/+", "/")
	f.Fuzz(func(t *testing.T, sel byte, f1, f2, topic string) {
		if !utf8.ValidString(f1) || !utf8.ValidString(f2) || !utf8.ValidString(topic) || strings.ContainsRune(f1+f2+topic, 0) || topic == "" ||
			!reftopic.ValidTopicName(topic) || !reftopic.ValidPlainFilter(f1) || !reftopic.ValidPlainFilter(f2) ||
			strings.HasPrefix(f1, "$share/") || strings.HasPrefix(f2, "$share/") || len(f1)+len(f2)+len(topic) > 200 {
			t.Skip()
		}
		mk := func(k byte, client string, id int, filter string) c01Op {
			switch k % 3 {
			case 1:
				return c01Op{Kind: "shared", Client: client, Filter: "$share/g/" + filter}
			case 2:
				return c01Op{Kind: "inline", ID: id, Filter: filter}
			}
			return c01Op{Kind: "client", Client: client, Filter: filter}
		}
		o1, o2 := mk(sel, "c1", 1, f1), mk(sel/3, "c2", 2, f2)
		c := c01Case{Ops: []c01Op{o1, o2}, Topics: []string{topic}}
		switch (sel / 9) % 4 {
		case 1: // the first one leaves again
			u := o1
			u.Unsub = true
			c.Ops = append(c.Ops, u)
		case 2: // somebody who does not hold it asks for its removal
			u := o1
			u.Unsub, u.Client, u.ID = true, "c3", 3
			c.Ops = append(c.Ops, u)
		}
		evid.FuzzStep(t, fuzzC01, c, c01Check)
	})
}

var fuzzC02 = evid.NewFuzz("C02", "native fuzzing: three valid topic names retained (the third optionally cleared again) and two valid filters; the retained messages returned for each filter against the reference matcher, both directions, after every operation")

func FuzzC02(f *testing.F) {
	f.Add(byte(0), "a/b", "a", "a/b/c", "a/#", "+/b")
	f.Add(byte(1), "$x/a", "a", "/", "#", "+/+")
	f.Add(byte(2), "a//b", "a/", "a", "a/+/b", "a/#")
	f.Fuzz(func(t *testing.T, sel byte, t1, t2, t3, f1, f2 string) {
		all := t1 + t2 + t3 + f1 + f2
		if !utf8.ValidString(all) || strings.ContainsRune(all, 0) || t1 == "" || t2 == "" || t3 == "" || len(all) > 300 ||
			!reftopic.ValidTopicName(t1) || !reftopic.ValidTopicName(t2) || !reftopic.ValidTopicName(t3) ||
			!reftopic.ValidPlainFilter(f1) || !reftopic.ValidPlainFilter(f2) || strings.HasPrefix(f1, "$share/") || strings.HasPrefix(f2, "$share/") {
			t.Skip()
		}
		c := c02Case{Ops: []c02Op{{t1, "p1"}, {t2, "p2"}, {t3, "p3"}}, Filters: []string{f1, f2}, EveryStep: true}
		switch sel % 4 {
		case 1:
			c.Ops = append(c.Ops, c02Op{t3, ""})
		case 2:
			c.Ops = append(c.Ops, c02Op{t1, ""}, c02Op{t1, "p4"})
		case 3:
			c.Ops = append(c.Ops, c02Op{t2, ""}, c02Op{t3, ""})
		}
		evid.FuzzStep(t, fuzzC02, c, c02Check)
	})
}
