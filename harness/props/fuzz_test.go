package props

import (
	"testing"

	"verif/harness/evid"
	"verif/harness/refmqtt"
)

// Native fuzz targets (thorough tier, second stage): coverage-guided byte strings fed to the same check functions the
// rapid generators feed. The seeds are a handful of small valid encodings and hostile constants.

func fuzzSeedPackets() [][]byte {
	var out [][]byte
	for _, p := range []*refmqtt.Packet{
		{Type: refmqtt.CONNECT, Version: 4, ClientID: "c", CleanStart: true, KeepAlive: 30},
		{Type: refmqtt.CONNECT, Version: 5, ClientID: "c", KeepAlive: 30, WillFlag: true, WillTopic: "w", WillPayload: []byte("x"), WillQoS: 1},
		{Type: refmqtt.PUBLISH, Version: 5, Topic: "a/b", QoS: 1, PacketID: 2, Payload: []byte("x")},
		{Type: refmqtt.PUBLISH, Version: 4, Topic: "a", Payload: []byte("y")},
		{Type: refmqtt.SUBSCRIBE, Version: 5, PacketID: 1, Filters: []refmqtt.Filter{{Filter: "#", QoS: 1}, {Filter: "$share/g/a/+", QoS: 2}}},
		{Type: refmqtt.UNSUBSCRIBE, Version: 4, PacketID: 3, Filters: []refmqtt.Filter{{Filter: "a/#"}}},
		{Type: refmqtt.PUBACK, Version: 5, PacketID: 9, ReasonCode: 0x10},
		{Type: refmqtt.PUBREL, Version: 5, PacketID: 9},
		{Type: refmqtt.DISCONNECT, Version: 5, ReasonCode: 0x04},
		{Type: refmqtt.AUTH, Version: 5, ReasonCode: 0x18},
		{Type: refmqtt.PINGREQ, Version: 4},
	} {
		out = append(out, refmqtt.Encode(p, refmqtt.Style{}))
	}
	return append(out, []byte{0x30, 0x80, 0x08}, []byte{0x82, 0x80, 0x80, 0x80, 0x80, 0x01}, []byte{0xE0, 0x02, 0x00, 0x05}, []byte{0x10, 0x00})
}

var fuzzVersions = []byte{3, 4, 5, 5}

var fuzzC27 = evid.NewFuzz("C27", "native fuzzing: (first byte, version, body) - no panic; an accepted body must survive re-encoding")

func FuzzC27(f *testing.F) {
	for _, b := range fuzzSeedPackets() {
		if first, _, body, ok := splitFixed(b); ok {
			f.Add(first, byte(2), body)
			f.Add(first, byte(1), body)
		}
	}
	f.Fuzz(func(t *testing.T, first, ver byte, body []byte) {
		if first>>4 == 0 {
			first |= 0x10
		}
		evid.FuzzStep(t, fuzzC27, c27Case{First: first, Version: fuzzVersions[ver&3], Body: body, Class: "truncated"}, c27Check)
	})
}

var fuzzC26 = evid.NewFuzz("C26", "native fuzzing: byte strings; whatever the strict reference decoder reads as a packet (either direction) goes through the packet-side round-trip and differential oracle, everything else through the byte-side oracle")

func FuzzC26(f *testing.F) {
	for _, b := range fuzzSeedPackets() {
		f.Add(byte(2), b)
		f.Add(byte(1), b)
	}
	f.Fuzz(func(t *testing.T, ver byte, b []byte) {
		v := fuzzVersions[ver&3]
		for _, dir := range []refmqtt.Direction{refmqtt.ClientToServer, refmqtt.ServerToClient} {
			if p, n, err := refmqtt.Decode(b, v, dir); err == nil && n == len(b) {
				if p.Type == refmqtt.CONNECT {
					v = p.Version
				}
				c := c26Case{P: p, Dir: dir, Mods: c26Mods{AllowResponseInfo: true}}
				if nontrivialPacket(p) {
					fuzzC26.R().NonTrivial(shapeKey(p))
				}
				evid.FuzzStep(t, fuzzC26, c, c26Check)
				return
			}
		}
		evid.FuzzStep(t, fuzzC26, c26Case{Bytes: b, Version: v}, c26Check)
	})
}

var fuzzC42 = evid.NewFuzz("C42", "native fuzzing: byte strings; whatever the strict reference decoder reads as exactly one client-to-server packet must be read by mochi as the same abstract packet")

func FuzzC42(f *testing.F) {
	for _, b := range fuzzSeedPackets() {
		f.Add(byte(2), b)
		f.Add(byte(1), b)
	}
	f.Fuzz(func(t *testing.T, ver byte, b []byte) {
		evid.FuzzStep(t, fuzzC42, c42Case{Bytes: b, Version: fuzzVersions[ver&3]}, c42Check)
	})
}

var fuzzC29 = evid.NewFuzz("C29", "native fuzzing: byte strings against the reference variable-byte-integer decoder; values against the reference encoder")

func FuzzC29(f *testing.F) {
	f.Add([]byte{0x00}, uint32(0))
	f.Add([]byte{0x80, 0x01}, uint32(128))
	f.Add([]byte{0xFF, 0xFF, 0xFF, 0x7F}, uint32(268435455))
	f.Add([]byte{0x80, 0x80, 0x80, 0x80, 0x01}, uint32(16384))
	f.Add([]byte{0x80, 0x00}, uint32(2097152))
	f.Fuzz(func(t *testing.T, b []byte, v uint32) {
		if len(b) > 0 && b[0]&0x80 != 0 {
			fuzzC29.R().NonTrivial(string(b))
		}
		evid.FuzzStep(t, fuzzC29, c29Dec{B: b}, c29CheckDec)
		evid.FuzzStep(t, fuzzC29, c29Enc{V: int(v % (vbiMax + 1))}, c29CheckEnc)
	})
}

var fuzzC30 = evid.NewFuzz("C30", "native fuzzing: strings judged as subscription filter and as publish topic against the reference validity rules")

func FuzzC30(f *testing.F) {
	for _, s := range []string{"a/b", "#", "+/+", "$share/g/a", "$share//a", "$SYS/x", "a/#/b", "a+", "", "/", "$share/g/", "$share/g+/a", "$sys/a", "a//b/#"} {
		f.Add(s)
	}
	f.Fuzz(func(t *testing.T, s string) {
		if c30NonTrivial(s) {
			fuzzC30.R().NonTrivial(s)
		}
		evid.FuzzStep(t, fuzzC30, c30Case{S: s, ForPublish: false}, c30Check)
		evid.FuzzStep(t, fuzzC30, c30Case{S: s, ForPublish: true}, c30Check)
	})
}
