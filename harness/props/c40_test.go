package props

import (
	"fmt"
	"sort"
	"strings"
	"testing"

	"pgregory.net/rapid"
	"verif/harness/evid"
	"verif/harness/hist"
	"verif/harness/refmqtt"
	"verif/harness/reftopic"
)

// ---- C40: the inline client API behaves like a regular subscriber and publisher -----------------------------

type c40Inline struct {
	id     int
	filter string
}

func c40Check(c *hist.Case, r *evid.Rec) []evid.Disc {
	run := runCase(c, r)
	if run == nil {
		return nil
	}
	m := hist.Analyze(run)
	var ds []evid.Disc
	inl := map[c40Inline]bool{}  // live inline subscriptions (id, filter)
	retained := map[string]int{} // topic -> tag of the retained message
	maxQ := byte(2)
	if c.Cfg.MaximumQos != nil {
		maxQ = *c.Cfg.MaximumQos
	}
	idsMatching := func(topic string) (certain map[int]bool, ambiguous map[int]bool) {
		// an id subscribed on several matching filters occupies one slot per id in the broker's result: only
		// "at least one invocation" is asserted for it
		cnt := map[int]int{}
		for k := range inl {
			if reftopic.MatchSub(k.filter, topic) {
				cnt[k.id]++
			}
		}
		certain, ambiguous = map[int]bool{}, map[int]bool{}
		for id, n := range cnt {
			if n == 1 {
				certain[id] = true
			} else {
				ambiguous[id] = true
			}
		}
		return
	}
	nestedIn := map[int][]hist.NestedSub{}
	for _, n := range run.NestedAt {
		nestedIn[n.Step] = append(nestedIn[n.Step], n)
	}
	for _, s := range run.Steps {
		a := &s.A
		// a subscription made from inside a handler while this step's message was being delivered: the broker had
		// selected the receivers already, so whether the new subscription sees this message live is open; but if the
		// message is retained and matches, the new subscription must get it one way or the other (live or by the replay
		// that every new subscription is owed), and from the next step on it is an ordinary subscription
		nestedIDs := map[int]bool{}
		for _, n := range nestedIn[s.I] {
			nestedIDs[n.ID] = true
		}
		switch a.Kind {
		case "inline-sub":
			k := c40Inline{a.InlineID, a.Filters[0].Filter}
			if s.Err != "" {
				ds = append(ds, evid.D("C40-inline-subscribe-error", "step %d: Subscribe(%q, %d) returned %s", s.I, k.filter, k.id, s.Err))
				break
			}
			// during the call: exactly the matching retained messages
			want := map[int]bool{}
			for t, tag := range retained {
				if reftopic.MatchSub(k.filter, t) {
					want[tag] = true
				}
			}
			got := map[int]int{}
			for _, ic := range s.Inline {
				if ic.ID == k.id {
					got[ic.Tag]++
				}
			}
			for tag := range want {
				if got[tag] == 0 {
					ds = append(ds, evid.D("C40-inline-subscribe-misses-retained", "step %d: Subscribe(%q, %d): the retained message m%d on %q matches but the handler was not called with it", s.I, k.filter, k.id, tag, run.Tags[tag].Topic))
				}
			}
			for tag, n := range got {
				if !want[tag] {
					ds = append(ds, evid.D("C40-inline-subscribe-extra-retained", "step %d: Subscribe(%q, %d): handler called with m%d, which is not a matching retained message", s.I, k.filter, k.id, tag))
				} else if n > 1 {
					ds = append(ds, evid.D("C40-inline-subscribe-retained-twice", "step %d: Subscribe(%q, %d): handler called %d times with retained m%d", s.I, k.filter, k.id, n, tag))
				}
			}
			if len(want) > 0 {
				r.Label("inline-subscribe-with-retained")
				r.NonTrivial(fmt.Sprintf("%s|%d", caseKey(c), s.I))
			}
			inl[k] = true
		case "inline-unsub":
			k := c40Inline{a.InlineID, a.Filters[0].Filter}
			if inl[k] {
				r.Label("inline-unsubscribe-live")
			}
			delete(inl, k)
		case "publish", "inline-pub":
			if s.Skipped || s.Tag == 0 {
				break
			}
			ti := run.Tags[s.Tag]
			if a.Kind == "inline-pub" && s.Err != "" {
				ds = append(ds, evid.D("C40-inline-publish-error", "step %d: Publish(%q) returned %s", s.I, a.Topic, s.Err))
				break
			}
			if a.Kind == "publish" {
				sn := m.Snaps[s.Tag]
				if sn == nil || sn.Connected[ti.CID] != ti.Peer {
					break
				}
			}
			// retained store model
			if ti.Retain {
				if ti.Empty {
					delete(retained, ti.Topic)
				} else {
					retained[ti.Topic] = s.Tag
				}
			}
			if ti.Empty {
				break
			}
			// inline subscriptions
			certain, ambiguous := idsMatching(ti.Topic)
			got := map[int]int{}
			for _, ic := range s.Inline {
				if ic.Tag == s.Tag {
					got[ic.ID]++
				}
			}
			desc := fmt.Sprintf("step %d: %s m%d on %q", s.I, a.String(), s.Tag, ti.Topic)
			for id := range certain {
				if nestedIDs[id] {
					continue // subscribed (again) from inside a handler during this very delivery: replay and live call may both occur
				}
				switch got[id] {
				case 1:
					r.Label("inline-invoked")
				case 0:
					sig := "C40-inline-subscription-not-invoked"
					for k := range inl {
						if k.id == id && strings.HasSuffix(k.filter, "/#") && strings.TrimSuffix(k.filter, "/#") == ti.Topic {
							sig = "C40-inline-subscription-not-invoked-for-parent-of-hash"
						}
					}
					ds = append(ds, evid.D(sig, "%s: inline subscription id %d %v matches but its handler was not called", desc, id, filtersOf(inl, id)))
				default:
					ds = append(ds, evid.D("C40-inline-subscription-invoked-twice", "%s: inline subscription id %d was called %d times", desc, id, got[id]))
				}
			}
			for id := range ambiguous {
				if got[id] == 0 && !nestedIDs[id] {
					ds = append(ds, evid.D("C40-inline-subscription-not-invoked", "%s: inline id %d holds several matching filters %v but was not called at all", desc, id, filtersOf(inl, id)))
				}
				r.Label("same-id-on-several-matching-filters")
			}
			for id, n := range got {
				if nestedIDs[id] {
					continue // judged below
				}
				if !certain[id] && !ambiguous[id] {
					sig := "C40-inline-handler-called-without-matching-subscription"
					for _, st := range run.Steps[:s.I] {
						if st.A.Kind == "inline-unsub" && st.A.InlineID == id {
							sig = "C40-inline-handler-called-after-unsubscribe"
						}
					}
					ds = append(ds, evid.D(sig, "%s: handler of inline id %d called %d times; its live filters: %v", desc, id, n, filtersOf(inl, id)))
				}
			}
			if len(certain) > 0 && len(inl) > len(certain) {
				r.NonTrivial(fmt.Sprintf("%s|%d", caseKey(c), s.I))
			}
			for _, n := range nestedIn[s.I] {
				if n.Err != "" {
					ds = append(ds, evid.D("C40-inline-subscribe-error", "%s: Subscribe(%q, %d) from inside a handler returned %s", desc, n.Filter, n.ID, n.Err))
					continue
				}
				r.Label("subscription-made-during-publish")
				r.NonTrivial(fmt.Sprintf("%s|nested|%d", caseKey(c), s.I))
				if n.Tag == s.Tag && ti.Retain && !ti.Empty && reftopic.MatchSub(n.Filter, ti.Topic) && !inl[c40Inline{n.ID, n.Filter}] {
					r.Label("subscription-made-during-retained-publish")
					if got[n.ID] == 0 {
						ds = append(ds, evid.D("C40-subscription-made-during-retained-publish-never-gets-the-message", "%s (retained): Subscribe(%q, %d) was called from inside a handler while this message was being delivered; the message is retained and matches, yet the new handler was called neither live nor by its retained replay", desc, n.Filter, n.ID))
					}
				}
			}
			// regular clients, for publishes through the embedding API: who and at which QoS
			if a.Kind == "inline-pub" {
				sn := m.Snaps[s.Tag]
				if sn == nil {
					break
				}
				ent := sn.Entitled(ti.Topic, "inline", false)
				cids := make([]string, 0, len(sn.Connected))
				for cid := range sn.Connected {
					cids = append(cids, cid)
				}
				sort.Strings(cids)
				for _, cid := range cids {
					p := run.Peers[sn.Connected[cid]]
					if p.BlindAt(s.I) || hasSharedMatch(sn, cid, ti.Topic) || p.ClosedAt == s.I {
						continue
					}
					dl := s.Deliveries(p.ID, s.Tag)
					switch {
					case len(ent[cid]) > 0 && len(dl) == 0:
						ds = append(ds, evid.D("C40-inline-publish-not-delivered-to-client", "%s: %s holds matching subscription(s) %s but received nothing", desc, cid, subList(ent[cid])))
					case len(ent[cid]) == 0 && len(dl) > 0:
						ds = append(ds, evid.D("C40-inline-publish-delivered-without-subscription", "%s: delivered to %s, which holds no matching subscription", desc, cid))
					case len(dl) > 1:
						ds = append(ds, evid.D("C40-inline-publish-delivered-twice", "%s: delivered %d times to %s", desc, len(dl), cid))
					case len(dl) == 1:
						q := byte(0)
						for _, st := range ent[cid] {
							if st.Opts.QoS > q {
								q = st.Opts.QoS
							}
						}
						want := minB(ti.QoS, q, maxQ)
						if dl[0].QoS != want {
							ds = append(ds, evid.D("C40-inline-publish-delivered-qos", "%s (requested QoS %d): delivered to %s with QoS %d, expected min(requested, subscription %d, server maximum %d) = %d", desc, ti.QoS, cid, dl[0].QoS, q, maxQ, want))
						}
						r.Label(fmt.Sprintf("client-delivery-q%d", want))
					}
				}
			}
		}
		for _, n := range nestedIn[s.I] {
			if n.Err == "" {
				inl[c40Inline{n.ID, n.Filter}] = true
			}
		}
	}
	return withTranscript(ds, run)
}

func filtersOf(inl map[c40Inline]bool, id int) []string {
	var out []string
	for k := range inl {
		if k.id == id {
			out = append(out, k.filter)
		}
	}
	sort.Strings(out)
	return out
}

func c40Gen(rt *rapid.T) *hist.Case {
	c := &hist.Case{}
	c.Cfg.ClientPIDBase = 1000
	c.Cfg.InlineClient = true
	if rapid.IntRange(0, 3).Draw(rt, "maxqos") == 0 {
		q := byte(rapid.IntRange(0, 1).Draw(rt, "mq"))
		c.Cfg.MaximumQos = &q
	}
	topics := []string{"a", "a/b", "b", "a/b/c", "b/a", "$x/a"}
	filters := []string{"a", "a/#", "a/b", "a/b/#", "#", "+", "+/b", "a/+", "b/#", "+/#", "$x/#", "a/+/#"}
	versions := []byte{pick(rt, "v0", []byte{4, 5}), pick(rt, "v1", []byte{4, 5, 3})}
	for cl := 0; cl < 2; cl++ {
		c.Actions = append(c.Actions, hist.Action{Kind: "connect", Client: cl, Version: versions[cl], Clean: true, AutoAck: true})
	}
	action := rapid.Custom(func(rt *rapid.T) hist.Action {
		switch rapid.IntRange(0, 13).Draw(rt, "kind") {
		case 0, 1, 2:
			a := hist.Action{Kind: "inline-sub", InlineID: rapid.IntRange(1, 3).Draw(rt, "id"), Filters: []refmqtt.Filter{{Filter: pick(rt, "ifilter", filters)}}}
			if rapid.IntRange(0, 3).Draw(rt, "nested") == 0 {
				// the first message this handler sees makes it subscribe another id from inside the call
				a.NestedID, a.NestedFilter = rapid.IntRange(4, 6).Draw(rt, "nid"), pick(rt, "nfilter", filters)
			}
			return a
		case 3:
			return hist.Action{Kind: "inline-unsub", InlineID: rapid.IntRange(1, 3).Draw(rt, "id"), Filters: []refmqtt.Filter{{Filter: pick(rt, "ifilter", filters)}}}
		case 4, 5, 6, 7:
			return hist.Action{Kind: "inline-pub", Topic: pick(rt, "topic", topics), QoS: byte(rapid.IntRange(0, 2).Draw(rt, "q")), Retain: rapid.IntRange(0, 2).Draw(rt, "retain") == 0, Empty: rapid.IntRange(0, 7).Draw(rt, "empty") == 0}
		case 8, 9:
			return hist.Action{Kind: "subscribe", Client: rapid.IntRange(0, 1).Draw(rt, "client"), Filters: []refmqtt.Filter{{Filter: pick(rt, "filter", filters), QoS: byte(rapid.IntRange(0, 2).Draw(rt, "sq"))}}}
		case 10:
			return hist.Action{Kind: "unsubscribe", Client: rapid.IntRange(0, 1).Draw(rt, "client"), Filters: []refmqtt.Filter{{Filter: pick(rt, "filter", filters)}}}
		default:
			return hist.Action{Kind: "publish", Client: rapid.IntRange(0, 1).Draw(rt, "client"), Topic: pick(rt, "topic", topics), QoS: byte(rapid.IntRange(0, 2).Draw(rt, "q")), Retain: rapid.IntRange(0, 2).Draw(rt, "retain") == 0}
		}
	})
	c.Actions = append(c.Actions, rapid.SliceOfN(action, 4, 40).Draw(rt, "actions")...)
	// unsubscribe-one-id probe at the end: two ids on one filter, remove one, publish
	f := pick(rt, "probe-filter", []string{"a/#", "+/b", "a/b"})
	c.Actions = append(c.Actions,
		hist.Action{Kind: "inline-sub", InlineID: 7, Filters: []refmqtt.Filter{{Filter: f}}},
		hist.Action{Kind: "inline-sub", InlineID: 8, Filters: []refmqtt.Filter{{Filter: f}}},
		hist.Action{Kind: "inline-unsub", InlineID: 7, Filters: []refmqtt.Filter{{Filter: f}}},
		hist.Action{Kind: "inline-pub", Topic: "a/b", QoS: 1},
		hist.Action{Kind: "inline-pub", Topic: "a", QoS: 0})
	return c
}

func TestC40(t *testing.T) {
	r := evid.New("C40", "rapid: histories mixing the embedding API (Server.Subscribe / Unsubscribe with ids 1-3 on filters over an alphabet with '+', trailing '#', parent-level matches and $-topics; Server.Publish with QoS 0-2, retain, empty payload) with two regular clients (v3.1 / v3.1.1 / v5) that subscribe, unsubscribe and publish (retain) on the same filters and topics, server maximum QoS 0/1/2; a quarter of the inline subscriptions subscribe another id (4-6) from inside their handler the first time it is called, i.e. while the broker is delivering a message; a final two-ids-one-filter unsubscribe probe. Oracle: per publish (either origin) the set of inline ids whose handler ran == ids with a matching live filter (reference matcher), each once (an id holding several matching filters: at least once); never after that id's unsubscribe of its only matching filter; per Server.Subscribe the handler calls made during the call == the matching retained messages of the model, each once; per Server.Publish every connected client with a matching subscription receives exactly one copy at min(requested QoS, subscription QoS, server maximum), others none; a subscription made from inside a handler during the delivery of a retained message that it matches gets that message (live or by its retained replay) and is an ordinary subscription from the next step on. Non-trivial = a subscription made during a publish, or a publish with both matching and non-matching inline subscriptions, or an inline subscribe that replays retained messages; distinct by (history, step)")
	defer r.Finish(t)
	if evid.ReplayMode() {
		evid.Replay(t, r, replayPath(), c40Check)
		return
	}
	evid.Run(t, r, func(rt *rapid.T) *hist.Case {
		c := c40Gen(rt)
		r.Sample(c.Summary())
		return c
	}, c40Check)
}
