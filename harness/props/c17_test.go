package props

import (
	"fmt"
	"strings"
	"testing"

	"pgregory.net/rapid"
	"verif/harness/evid"
	"verif/harness/hist"
	"verif/harness/refmqtt"
	"verif/harness/reftopic"
)

// ---- C17: authorisation is enforced on every route a message can take --------------------------------------

var c17Topics = []string{"a", "a/b", "b", "b/c"}
var c17Filters = []string{"a", "a/b", "b", "b/c", "a/#", "#", "+/b", "+", "b/+"}
var c17WillTopics = []string{"a", "a/b", "b/c", "w/+", "w/#", "$SYS/w", "#"}

func c17Check(c *hist.Case, r *evid.Rec) []evid.Disc {
	run := runCase(c, r)
	if run == nil {
		return nil
	}
	m := hist.Analyze(run)
	perm := c.Cfg.Perm
	var ds []evid.Disc
	// (1) every PUBLISH any connection ever received, by whatever route (live, retained replay, will, resend)
	deniedRoutes, allowedDeliveries := 0, 0
	for _, p := range run.Peers {
		for i, pk := range p.Got {
			if pk.Type != refmqtt.PUBLISH {
				continue
			}
			tag := hist.TagOf(pk.Payload)
			ti := run.Tags[tag]
			if ti == nil {
				continue
			}
			topic := pk.Topic
			route := "live"
			if ti.Will {
				route = "will"
			} else if p.GotStep[i] != ti.Step {
				route = "later(retained/queued)"
			}
			if !perm.Allowed(p.CID, topic, false) {
				ds = append(ds, evid.D("C17-delivered-despite-read-denied-"+routeSig(route), "step %d: %s received m%d on %q (%s route) although its read permission on that topic is denied", p.GotStep[i], p.CID, tag, topic, route))
			}
			if ti.Client != -1 && !perm.Allowed(ti.CID, topic, true) {
				ds = append(ds, evid.D("C17-delivered-despite-write-denied-"+routeSig(route), "step %d: %s received m%d on %q (%s route); its origin %s has no write permission on that topic", p.GotStep[i], p.CID, tag, topic, route, ti.CID))
			}
			if ti.Client != -1 && (strings.HasPrefix(topic, "$SYS") || !reftopic.ValidTopicName(topic)) {
				ds = append(ds, evid.D("C17-delivered-on-invalid-or-sys-topic-"+routeSig(route), "step %d: %s received m%d from client %s on %q, which no client may publish to", p.GotStep[i], p.CID, tag, ti.CID, topic))
			}
			allowedDeliveries++
		}
	}
	// (2) SUBACK: a denied filter is refused with 0x87 (0x80 when obscured or for MQTT 3), and never delivers
	for _, ev := range m.SubEvents {
		if !ev.Acked {
			continue
		}
		p := run.Peers[ev.Peer]
		for i, f := range ev.Filters {
			if i >= len(ev.Codes) || !reftopic.ValidFilter(f.Filter) {
				continue
			}
			if perm.Allowed(ev.CID, f.Filter, false) {
				continue
			}
			deniedRoutes++
			want := byte(0x87)
			if c.Cfg.Obscure || p.Version < 5 {
				want = 0x80
			}
			if ev.Codes[i] != want {
				sig := "C17-denied-subscription-wrong-code"
				if ev.Codes[i] < 0x80 {
					sig = "C17-denied-subscription-granted"
				}
				ds = append(ds, evid.D(sig, "step %d: %s (v%d, obscure=%v) subscribed to %q, which its permissions deny; SUBACK code 0x%02X, expected 0x%02X", ev.Step, ev.CID, p.Version, c.Cfg.Obscure, f.Filter, ev.Codes[i], want))
			}
		}
	}
	// a refused subscription never delivers: the model holds no subscription for it, so the delivery oracle reports it
	for _, d := range deliveryDiscs(c, run, m, r, "C17") {
		if d.Sig == "C17-unentitled-delivery" {
			ds = append(ds, d)
		}
	}
	// ---- classification
	both := false
	for _, s := range run.Steps {
		if s.A.Kind == "publish" && !s.Skipped && s.Tag > 0 {
			ti := run.Tags[s.Tag]
			sn := m.Snaps[s.Tag]
			if sn == nil {
				continue
			}
			if !perm.Allowed(ti.CID, ti.Topic, true) {
				deniedRoutes++
				r.Label("publish-write-denied")
			}
			al, dn := 0, 0
			for cid := range sn.Entitled(ti.Topic, ti.CID, false) {
				if perm.Allowed(cid, ti.Topic, false) {
					al++
				} else {
					dn++
					r.Label("delivery-read-denied")
				}
			}
			if al > 0 && dn > 0 {
				both = true
			}
		}
		if s.A.Kind == "connect" && s.A.Will != nil {
			if !perm.Allowed(s.A.ClientIDStr(), s.A.Will.Topic, true) {
				r.Label("will-write-denied")
				deniedRoutes++
			}
			if !reftopic.ValidTopicName(s.A.Will.Topic) || strings.HasPrefix(s.A.Will.Topic, "$SYS") {
				r.Label("will-invalid-topic")
				deniedRoutes++
			}
		}
	}
	if deniedRoutes > 0 && allowedDeliveries > 0 {
		r.NonTrivial(caseKey(c) + fmt.Sprint(c.Cfg.Perm.Deny))
	}
	if both {
		r.Label("allowed-and-denied-receiver-for-one-publish")
	}
	return withTranscript(ds, run)
}

func routeSig(route string) string {
	switch route {
	case "will":
		return "will"
	case "live":
		return "live"
	}
	return "later"
}

func c17Gen(rt *rapid.T) *hist.Case {
	c := &hist.Case{}
	c.Cfg.ClientPIDBase = 1000
	c.Cfg.Auth = "perm"
	c.Cfg.Obscure = rapid.IntRange(0, 3).Draw(rt, "obscure") == 0
	perm := &hist.Perm{Default: rapid.IntRange(0, 5).Draw(rt, "default") != 0}
	all := map[string]bool{}
	for _, s := range c17Topics {
		all[s] = true
	}
	for _, s := range c17Filters {
		all[s] = true
	}
	for _, s := range c17WillTopics {
		all[s] = true
	}
	var strs []string
	for _, s := range append(append(append([]string{}, c17Topics...), c17Filters...), c17WillTopics...) {
		if all[s] {
			strs = append(strs, s)
			all[s] = false
		}
	}
	for cl := 0; cl < 3; cl++ {
		for _, s := range strs {
			for _, w := range []bool{false, true} {
				if rapid.IntRange(0, 3).Draw(rt, "flip") == 0 {
					perm.Set(hist.ClientID(cl), s, w, !perm.Default)
				}
			}
		}
	}
	c.Cfg.Perm = perm
	versions := []byte{pick(rt, "v0", []byte{4, 5, 5, 3}), pick(rt, "v1", []byte{4, 5, 5}), pick(rt, "v2", []byte{4, 5})}
	// one history in three is about sessions that outlive their connections: every CONNECT resumes, subscriptions and
	// publishes are QoS 1/2, so that messages are queued for offline sessions and handed over on reconnect (a route of
	// its own: the permission has to hold for what is resent, too)
	persist := rapid.IntRange(0, 2).Draw(rt, "persistent-sessions") == 0
	minQ := 0
	if persist {
		minQ = 1
	}
	connect := func(cl int) hist.Action {
		a := hist.Action{Kind: "connect", Client: cl, Version: versions[cl], Clean: rapid.IntRange(0, 2).Draw(rt, "clean") != 0 && !persist, AutoAck: true}
		if versions[cl] == 5 && !a.Clean {
			e := uint32(100)
			a.Expiry = &e
		}
		if rapid.IntRange(0, 2).Draw(rt, "will") == 0 {
			a.Will = &hist.WillSpec{Topic: pick(rt, "willtopic", c17WillTopics), QoS: byte(rapid.IntRange(0, 2).Draw(rt, "wq")), Retain: rapid.Bool().Draw(rt, "wr")}
			if versions[cl] == 5 && rapid.IntRange(0, 2).Draw(rt, "delayed") == 0 {
				d := uint32(30) // a delayed will is parked and published later by the housekeeping: another route
				a.Will.Delay = &d
				if a.Expiry == nil {
					e := uint32(100)
					a.Expiry = &e
				}
			}
		}
		return a
	}
	for cl := 0; cl < 3; cl++ {
		c.Actions = append(c.Actions, connect(cl))
	}
	action := rapid.Custom(func(rt *rapid.T) hist.Action {
		cl := rapid.IntRange(0, 2).Draw(rt, "client")
		switch rapid.IntRange(0, 12).Draw(rt, "kind") {
		case 0, 1, 2:
			a := hist.Action{Kind: "subscribe", Client: cl}
			for i, n := 0, rapid.IntRange(1, 2).Draw(rt, "nf"); i < n; i++ {
				a.Filters = append(a.Filters, refmqtt.Filter{Filter: pick(rt, "filter", c17Filters), QoS: byte(rapid.IntRange(minQ, 2).Draw(rt, "sq"))})
			}
			return a
		case 3, 4, 5, 6:
			return hist.Action{Kind: "publish", Client: cl, Topic: pick(rt, "topic", append(append([]string{}, c17Topics...), "$SYS/x")), QoS: byte(rapid.IntRange(minQ, 2).Draw(rt, "pq")), Retain: rapid.Bool().Draw(rt, "retain")}
		case 7:
			return hist.Action{Kind: "drop", Client: cl}
		case 8:
			return hist.Action{Kind: "disconnect", Client: cl}
		case 9, 10:
			return connect(cl)
		case 11:
			return hist.Action{Kind: "tick", Tick: "wills", Offset: 100000}
		default:
			return hist.Action{Kind: "unsubscribe", Client: cl, Filters: []refmqtt.Filter{{Filter: pick(rt, "filter", c17Filters)}}}
		}
	})
	c.Actions = append(c.Actions, rapid.SliceOfN(action, 4, 30).Draw(rt, "actions")...)
	// at the end everybody drops (wills fire), and a fresh subscriber with its own permissions looks at the retained store
	if persist {
		// a last round of traffic for whoever is offline, then everybody comes back and takes delivery
		for i := 0; i < 3; i++ {
			c.Actions = append(c.Actions, hist.Action{Kind: "publish", Client: 2, Topic: pick(rt, "ltopic", c17Topics), QoS: 1})
		}
		c.Actions = append(c.Actions, connect(0), connect(1))
	}
	c.Actions = append(c.Actions, hist.Action{Kind: "drop", Client: 0}, hist.Action{Kind: "drop", Client: 1},
		hist.Action{Kind: "tick", Tick: "wills", Offset: 100000},
		hist.Action{Kind: "connect", Client: 1, Version: versions[1], Clean: true, AutoAck: true},
		hist.Action{Kind: "subscribe", Client: 1, Filters: []refmqtt.Filter{{Filter: "#", QoS: 2}}},
		hist.Action{Kind: "subscribe", Client: 1, Filters: []refmqtt.Filter{{Filter: "a/#", QoS: 1}, {Filter: "b/+", QoS: 1}}},
		hist.Action{Kind: "subscribe", Client: 1, Filters: []refmqtt.Filter{{Filter: "$SYS/#", QoS: 0}}})
	return c
}

func TestC17(t *testing.T) {
	r := evid.New("C17", "rapid: a generated permission relation perm(client, exact topic-or-filter string, read/write) with a generated default (served by a test hook; optionally with ObscureNotAuthorized), 3 clients (v3.1/v3.1.1/v5), histories of subscribe (allowed and denied filters, wildcards covering denied topics), publish (allowed/denied/$SYS topics, QoS 0-2, retain), persistent sessions that are sent QoS 1/2 messages while offline and take delivery on reconnect (one history in three), wills (immediate, and delayed ones released by the delayed-will housekeeping or by a clean-start reconnect) on allowed / write-denied / wildcard / $SYS topics followed by drops, reconnects, and a final subscriber that replays the retained store. Oracle, over EVERY PUBLISH any connection received by any route (live, retained replay, will, resend): receiver has read permission on its topic, the originating client has write permission on it, and the topic is a valid topic name outside $SYS; SUBACK for a denied filter is 0x87 (0x80 obscured / MQTT 3) and the refused subscription never delivers. Non-trivial = the history contains a denied route (denied subscribe, publish, receiver or will) and at least one delivery; distinct by (history, permission relation)")
	defer r.Finish(t)
	if evid.ReplayMode() {
		evid.Replay(t, r, replayPath(), c17Check)
		return
	}
	evid.Run(t, r, func(rt *rapid.T) *hist.Case {
		c := c17Gen(rt)
		r.Sample(c.Summary())
		return c
	}, c17Check)
}
