package props

import "os"

func replayPath() string { return os.Getenv("VERIF_REPLAY") }
