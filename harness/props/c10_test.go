package props

import (
	"fmt"
	"sort"
	"testing"

	"pgregory.net/rapid"
	"verif/harness/evid"
	"verif/harness/hist"
	"verif/harness/refmqtt"
)

// ---- C10: packet identifiers are unique per direction and never cross-contaminate -----------------------

type c10Ent struct {
	tag      int
	pid      uint16
	qos      byte
	stage    int
	done     bool
	lastSeen int    // step of the last transmission
	hitBy    string // the client's own packet that used the same identifier while the entry was outstanding
	hitStep  int
}

func c10Check(c *hist.Case, r *evid.Rec) []evid.Disc {
	run := runCase(c, r)
	if run == nil {
		return nil
	}
	var ds []evid.Disc
	const S = "c0"
	ents := map[int]*c10Ent{}
	out := func() []*c10Ent {
		var o []*c10Ent
		for _, e := range ents {
			if !e.done {
				o = append(o, e)
			}
		}
		sort.Slice(o, func(i, j int) bool { return o[i].tag < o[j].tag })
		return o
	}
	open2 := map[uint16]int{} // the client's own open QoS 2 exchanges: pid -> tag
	collisions := 0
	for _, s := range run.Steps {
		var resumed, reset bool
		var np *hist.Peer
		if s.A.Kind == "connect" && s.A.Client == 0 && s.Peer >= 0 {
			np = run.Peers[s.Peer]
			if np.Established() {
				if np.Connack.SessionPresent && !s.A.Clean {
					resumed = true
				} else {
					reset = true
				}
			}
		}
		before := out()
		// the client's own packets that carry an identifier
		if s.Sent != nil && !s.Skipped && s.Peer >= 0 && run.Peers[s.Peer].CID == S && s.A.Kind != "ack" {
			pid := s.Sent.PacketID
			for _, e := range before {
				if e.pid == pid && pid != 0 && (s.Sent.Type == refmqtt.PUBLISH || s.Sent.Type == refmqtt.PUBREL || s.Sent.Type == refmqtt.SUBSCRIBE || s.Sent.Type == refmqtt.UNSUBSCRIBE) {
					e.hitBy, e.hitStep = refmqtt.TypeName(s.Sent.Type), s.I
					collisions++
					r.Label("collision/" + e.hitBy)
				}
			}
			switch {
			case s.Sent.Type == refmqtt.PUBLISH && s.Sent.QoS == 2:
				if n, ack := countObs(s, s.Peer, refmqtt.PUBREC, pid); n == 1 && ack.ReasonCode < 0x80 {
					if _, was := open2[pid]; !was {
						open2[pid] = s.Tag
					}
				}
			case s.Sent.Type == refmqtt.PUBREL:
				// (c) the broker's outbound allocation must not disturb an open inbound QoS 2 exchange
				if tag, ok := open2[pid]; ok {
					n, ack := countObs(s, s.Peer, refmqtt.PUBCOMP, pid)
					if run.Peers[s.Peer].ClosedAt != s.I && (n != 1 || ack.ReasonCode >= 0x80) {
						rc := byte(0)
						if ack != nil {
							rc = ack.ReasonCode
						}
						ds = append(ds, evid.D("C10-inbound-qos2-exchange-disturbed", "step %d: the client's QoS 2 exchange pid %d (m%d) was open, yet its PUBREL got %d PUBCOMP (reason 0x%02X)", s.I, pid, tag, n, rc))
					}
					delete(open2, pid)
				}
			}
		}
		// what the subscriber received
		for _, o := range s.Obs {
			p := run.Peers[o.Peer]
			if p.CID != S {
				continue
			}
			switch o.P.Type {
			case refmqtt.PUBLISH:
				if o.P.QoS == 0 {
					continue
				}
				tag := hist.TagOf(o.P.Payload)
				pid := o.P.PacketID
				if s.A.Kind == "burst" {
					r.Label("concurrent-allocation")
				}
				if pid == 0 {
					ds = append(ds, evid.D("C10-packet-identifier-zero", "step %d: %s", s.I, o.P))
				}
				e := ents[tag]
				if e == nil || e.done {
					// (a) a first transmission: the identifier must not belong to another outstanding outbound message
					for _, x := range out() {
						if x.pid == pid && x.tag != tag {
							sig := "C10-identifier-of-outstanding-message-reused"
							if x.hitBy != "" {
								// the broker already lost x's record to the client's own use of that identifier (same root cause)
								sig = "C10-client-identifier-destroyed-outbound-message"
							}
							ds = append(ds, evid.D(sig, "step %d: m%d is sent with packet id %d, which the still unacknowledged m%d (last sent at step %d; client's own %s with that id at step %d) is using", s.I, tag, pid, x.tag, x.lastSeen, x.hitBy, x.hitStep))
							x.done = true
						}
					}
					if e == nil {
						ents[tag] = &c10Ent{tag: tag, pid: pid, qos: o.P.QoS, lastSeen: s.I}
					}
				} else {
					e.lastSeen = s.I
				}
			case refmqtt.PUBREL:
				// a PUBREL the broker sends for an outbound exchange; reason 0x92 means it lost the record
				for _, x := range out() {
					if x.pid == o.P.PacketID && x.stage == 1 && o.P.ReasonCode == 0x92 {
						sig := "C10-outbound-exchange-lost"
						if x.hitBy != "" {
							sig = "C10-client-identifier-destroyed-outbound-message"
						}
						ds = append(ds, evid.D(sig, "step %d: the client's PUBREC for m%d (pid %d) is answered with PUBREL 0x92: the broker lost its outbound record (client's own %s with that id at step %d)", s.I, x.tag, x.pid, x.hitBy, x.hitStep))
						x.done = true
					}
				}
			}
		}
		// (b) at a resumed connect every outstanding outbound message must still be there
		if resumed {
			for _, b := range before {
				gotPub := len(s.Deliveries(np.ID, b.tag)) > 0
				nRel, _ := countObs(s, np.ID, refmqtt.PUBREL, b.pid)
				if (b.stage == 0 && !gotPub) || (b.stage == 1 && nRel == 0) {
					if b.hitBy != "" {
						ds = append(ds, evid.D("C10-client-identifier-destroyed-outbound-message", "step %d: m%d (pid %d) was unacknowledged and is missing after the reconnect; the client had used identifier %d for its own %s at step %d", s.I, b.tag, b.pid, b.pid, b.hitBy, b.hitStep))
					} else {
						r.Label("missing-without-collision(C09)")
					}
					b.done = true
				}
			}
		}
		if reset {
			ents = map[int]*c10Ent{}
			open2 = map[uint16]int{}
		}
		if s.A.Kind == "ack" && !s.Skipped && s.Sent != nil && run.Peers[s.Peer].CID == S {
			for _, e := range out() {
				if e.pid == s.Sent.PacketID {
					switch s.Sent.Type {
					case refmqtt.PUBACK, refmqtt.PUBCOMP:
						e.done = true
					case refmqtt.PUBREC:
						e.stage = 1
					}
					break
				}
			}
		}
	}
	if collisions > 0 {
		r.NonTrivial(caseKey(c))
	}
	return withTranscript(ds, run)
}

func c10Gen(rt *rapid.T) *hist.Case {
	c := &hist.Case{}
	ver := pick(rt, "version", []byte{4, 5, 5})
	exp := uint32(300)
	sub := hist.Action{Kind: "connect", Client: 0, Version: ver, Clean: false}
	if ver == 5 {
		sub.Expiry = &exp
	}
	c.Actions = append(c.Actions, sub,
		hist.Action{Kind: "subscribe", Client: 0, Filters: []refmqtt.Filter{{Filter: "t/#", QoS: 2}}},
		hist.Action{Kind: "connect", Client: 1, Version: 4, Clean: true, AutoAck: true},
		hist.Action{Kind: "connect", Client: 2, Version: 4, Clean: true, AutoAck: true},
		hist.Action{Kind: "connect", Client: 3, Version: 5, Clean: true, AutoAck: true})
	if rapid.IntRange(0, 2).Draw(rt, "wrap") == 0 {
		c.Actions = append(c.Actions, hist.Action{Kind: "pidcursor", Client: 0, Offset: int64(rapid.IntRange(65530, 65535).Draw(rt, "cursor"))})
	}
	small := rapid.Uint16Range(1, 4)
	action := rapid.Custom(func(rt *rapid.T) hist.Action {
		switch rapid.IntRange(0, 14).Draw(rt, "kind") {
		case 0, 1, 2, 3:
			return hist.Action{Kind: "publish", Client: 1, Topic: "t/a", QoS: byte(rapid.IntRange(1, 2).Draw(rt, "qos"))}
		case 4, 5:
			a := hist.Action{Kind: "ack", Client: 0, Index: rapid.IntRange(0, 4).Draw(rt, "idx")}
			if ver == 5 && rapid.IntRange(0, 4).Draw(rt, "success-code") == 0 {
				a.Reason = 0x10 // "no matching subscribers": a success code; a PUBREC carrying it keeps the exchange (and its identifier) open
			}
			return a
		case 6, 7:
			// the client's own publish with an identifier that is likely to equal one the broker is using towards it
			return hist.Action{Kind: "publish", Client: 0, Topic: "u/x", QoS: byte(rapid.IntRange(1, 2).Draw(rt, "oqos")), PID: small.Draw(rt, "pid")}
		case 8:
			return hist.Action{Kind: "pubrel", Client: 0, Index: rapid.IntRange(0, 2).Draw(rt, "ridx")}
		case 9:
			return hist.Action{Kind: "subscribe", Client: 0, PID: small.Draw(rt, "spid"), Filters: []refmqtt.Filter{{Filter: "v/x", QoS: 0}}}
		case 10:
			return hist.Action{Kind: pick(rt, "how", []string{"drop", "close"}), Client: 0}
		case 11:
			return sub
		case 12:
			return hist.Action{Kind: "pidcursor", Client: 0, Offset: int64(rapid.IntRange(65530, 65535).Draw(rt, "cursor"))}
		default:
			// three publishers at once: identifier allocation for the one subscriber runs concurrently in their handlers
			n := rapid.IntRange(2, 12).Draw(rt, "burstn")
			return hist.Action{Kind: "burst", Burst: []hist.BurstItem{{Client: 1, Topic: "t/a", QoS: 1, Count: n}, {Client: 2, Topic: "t/b", QoS: 1, Count: n}, {Client: 3, Topic: "t/c", QoS: 2, Count: n}}}
		}
	})
	c.Actions = append(c.Actions, rapid.SliceOfN(action, 4, 35).Draw(rt, "actions")...)
	c.Actions = append(c.Actions, hist.Action{Kind: "drop", Client: 0}, sub)
	return c
}

func TestC10(t *testing.T) {
	r := evid.New("C10", "rapid: C09's scenario with a client that is subscriber and publisher at once; the client's own QoS 1/2 PUBLISH, PUBREL and SUBSCRIBE use identifiers from 1..4, which are the identifiers the broker assigns to its outbound messages (read off the wire), while those are unacknowledged, and the client delays PUBREL so that its inbound identifier is open when the broker allocates; the broker's identifier cursor is moved to 65530..65535 to reach wrap-around with low identifiers outstanding; oracle: (a) a first transmission never uses 0 or an identifier of another outstanding outbound message, (b) an outbound message whose identifier the client used for its own packet is still resent at the next session-present reconnect and its PUBREC is not answered with PUBREL 0x92, (c) a PUBREL for an open inbound exchange gets PUBCOMP success; non-trivial = >=1 forced collision while the outbound message was unacknowledged; distinct by history")
	defer r.Finish(t)
	if evid.ReplayMode() {
		evid.Replay(t, r, replayPath(), c10Check)
		return
	}
	evid.Run(t, r, func(rt *rapid.T) *hist.Case {
		c := c10Gen(rt)
		r.Sample(c.Summary())
		return c
	}, c10Check)
	_ = fmt.Sprint
}
