package props

import (
	"fmt"
	"strings"
	"testing"

	"pgregory.net/rapid"
	"verif/harness/evid"
	"verif/harness/hist"
	"verif/harness/refmqtt"
	"verif/harness/reftopic"
)

// ---- C07: every request that requires a response gets one ----------------------------------------------

func countObs(s *hist.Step, peer int, typ byte, pid uint16) (n int, last *refmqtt.Packet) {
	for _, o := range s.Obs {
		if o.Peer == peer && o.P.Type == typ && o.P.PacketID == pid {
			n++
			last = o.P
		}
	}
	return
}

func c07Check(c *hist.Case, r *evid.Rec) []evid.Disc {
	run := runCase(c, r)
	if run == nil {
		return nil
	}
	maxQ := byte(2)
	if c.Cfg.MaximumQos != nil {
		maxQ = *c.Cfg.MaximumQos
	}
	var ds []evid.Disc
	// bursts: the client's own QoS 1 publishes are answered while somebody else's messages are being written to it
	for _, s := range run.Steps {
		if s.A.Kind != "burst" || s.Skipped {
			continue
		}
		for tag, ti := range run.Tags {
			if ti.Step != s.I || ti.CID != "c0" || ti.QoS != 1 || ti.Will {
				continue
			}
			p := run.Peers[ti.Peer]
			if (p.ClosedAt >= 0 && p.ClosedAt <= s.I) || p.BlindAt(s.I) {
				continue
			}
			n, _ := countObs(s, p.ID, refmqtt.PUBACK, ti.PID)
			r.Label("answered-under-traffic")
			r.NonTrivial(fmt.Sprintf("%s|%d|%d", caseKey(c), s.I, tag))
			if n != 1 {
				cls := "missing"
				if n > 1 {
					cls = "duplicate"
				}
				ds = append(ds, evid.D("C07-"+cls+"-PUBACK-under-traffic", "step %d: %s published m%d (QoS 1, id %d) while %d messages of another client were being delivered to it; %d PUBACK(s) with that identifier arrived", s.I, p.CID, tag, ti.PID, len(s.Obs), n))
			}
		}
	}
	for _, s := range run.Steps {
		if s.Skipped || s.Peer < 0 || s.Sent == nil {
			continue
		}
		p := run.Peers[s.Peer]
		if !p.Established() || p.OpenedAt == s.I {
			continue
		}
		if p.ClosedAt >= 0 && p.ClosedAt <= s.I {
			r.Label("closed-instead-of-answer/" + s.A.Kind)
			continue // the broker chose to close the connection: permitted
		}
		if p.BlindAt(s.I) {
			continue
		}
		req := s.Sent
		v5 := p.Version == 5
		need := func(typ byte, what string) *refmqtt.Packet {
			n, pk := countObs(s, p.ID, typ, req.PacketID)
			if n == 1 {
				return pk
			}
			cls := "missing"
			if n > 1 {
				cls = "duplicate"
			}
			detail := ""
			switch {
			case req.Type == refmqtt.PUBLISH && strings.HasPrefix(req.Topic, "$SYS"):
				detail = "-publish-to-$SYS"
			case req.Type == refmqtt.PUBLISH && req.Topic == "":
				detail = "-publish-empty-topic"
			case req.Type == refmqtt.PUBREL && req.ReasonCode >= 0x80:
				detail = "-pubrel-with-error-reason"
			}
			ds = append(ds, evid.D(fmt.Sprintf("C07-%s-%s%s", cls, what, detail), "step %d: %s sent %s and the connection stayed open, but received %d %s with packet id %d", s.I, p.CID, req, n, what, req.PacketID))
			return nil
		}
		switch req.Type {
		case refmqtt.PUBLISH:
			if req.QoS == 1 {
				need(refmqtt.PUBACK, "PUBACK")
			} else if req.QoS == 2 {
				need(refmqtt.PUBREC, "PUBREC")
			}
			if req.QoS > 0 && (strings.ContainsAny(req.Topic, "+#") || strings.HasPrefix(req.Topic, "$") || !c.Cfg.Perm.Allowed(p.CID, req.Topic, true) || s.A.PID != 0) {
				r.NonTrivial(fmt.Sprintf("%s|%d", caseKey(c), s.I))
				r.Label("nontrivial/publish")
			}
		case refmqtt.PUBREL:
			need(refmqtt.PUBCOMP, "PUBCOMP")
			r.NonTrivial(fmt.Sprintf("%s|%d", caseKey(c), s.I))
			r.Label("nontrivial/pubrel")
		case refmqtt.PINGREQ:
			need(refmqtt.PINGRESP, "PINGRESP")
		case refmqtt.SUBSCRIBE:
			ack := need(refmqtt.SUBACK, "SUBACK")
			if ack == nil {
				break
			}
			if len(ack.ReasonCodes) != len(req.Filters) {
				ds = append(ds, evid.D("C07-suback-code-count", "step %d: SUBSCRIBE with %d filters answered by SUBACK with %d codes", s.I, len(req.Filters), len(ack.ReasonCodes)))
				break
			}
			mixedOK, mixedBad := false, false
			allFail := true
			for _, code := range ack.ReasonCodes {
				if code < 0x80 {
					allFail = false
				}
			}
			for i, f := range req.Filters {
				code := ack.ReasonCodes[i]
				_, _, shared, _ := reftopic.SplitShare(f.Filter)
				bad := !reftopic.ValidFilter(f.Filter) || (v5 && shared && f.NoLocal) || !c.Cfg.Perm.Allowed(p.CID, f.Filter, false)
				if bad {
					mixedBad = true
					if code < 0x80 {
						ds = append(ds, evid.D("C07-suback-success-for-refused-filter", "step %d: filter %q (invalid, denied or shared+NoLocal) answered with success code 0x%02X", s.I, f.Filter, code))
					}
					continue
				}
				mixedOK = true
				want := minB(f.QoS, maxQ)
				if code != want && !allFail {
					ds = append(ds, evid.D("C07-suback-wrong-code", "step %d: valid, permitted filter %q QoS %d answered with 0x%02X (expected 0x%02X; a failure of the whole packet would have been accepted)", s.I, f.Filter, f.QoS, code, want))
				}
			}
			if allFail && mixedOK {
				r.Label("suback-whole-packet-failure")
			}
			if (mixedOK && mixedBad) || s.A.PID != 0 {
				r.NonTrivial(fmt.Sprintf("%s|%d", caseKey(c), s.I))
				r.Label("nontrivial/subscribe")
			}
		case refmqtt.UNSUBSCRIBE:
			ack := need(refmqtt.UNSUBACK, "UNSUBACK")
			if ack != nil && v5 && len(ack.ReasonCodes) != len(req.Filters) {
				ds = append(ds, evid.D("C07-unsuback-code-count", "step %d: UNSUBSCRIBE with %d filters answered by UNSUBACK with %d codes", s.I, len(req.Filters), len(ack.ReasonCodes)))
			}
			if ack != nil && !v5 && len(ack.ReasonCodes) != 0 {
				ds = append(ds, evid.D("C07-unsuback-v3-codes", "step %d: v3 UNSUBACK carries reason codes", s.I))
			}
		}
	}
	ds = append(ds, c07Wire(run, r)...)
	return withTranscript(ds, run)
}

// c07Wire: the C23 wire rules as an invariant, reported under C07 only for hard framing errors that make the
// request/response matching above meaningless (anything else is C23's own business).
func c07Wire(run *hist.Run, r *evid.Rec) []evid.Disc {
	var ds []evid.Disc
	for _, p := range run.Peers {
		if p.WireErr != nil {
			ds = append(ds, evid.D("C07-undecodable-output-"+p.WireErr.Class, "connection %s#%d: %s", p.CID, p.ID, p.WireErr.Msg))
		}
	}
	return ds
}

var c07Topics = []string{"a", "a/b", "b", "a/+", "#", "$SYS/x", "$SYS", "$share/g/a", "deny/w", "$x/a", "a/#"}
var c07Filters = []string{"a", "a/#", "+/b", "#", "b", "a/b#", "", "a+", "$share/g/a", "$share/g/", "$share//a", "deny/r", "deny/#", "$SYS/#", "a//b", "+"}

func c07Gen(rt *rapid.T) *hist.Case {
	c := &hist.Case{}
	c.Cfg.Auth = "perm"
	c.Cfg.Perm = &hist.Perm{Default: true}
	for _, cid := range []string{"c0", "c1"} {
		c.Cfg.Perm.Set(cid, "deny/w", true, false)
		c.Cfg.Perm.Set(cid, "deny/r", false, false)
		c.Cfg.Perm.Set(cid, "deny/#", false, false)
	}
	if rapid.IntRange(0, 3).Draw(rt, "denya") == 0 {
		c.Cfg.Perm.Set("c0", "a", true, false)
	}
	c.Cfg.Obscure = rapid.Bool().Draw(rt, "obscure")
	mq := byte(rapid.IntRange(0, 2).Draw(rt, "maxqos"))
	if rapid.Bool().Draw(rt, "fullqos") {
		mq = 2
	}
	c.Cfg.MaximumQos = &mq
	ver := pick(rt, "version", []byte{4, 5, 5, 3})
	c.Actions = append(c.Actions,
		hist.Action{Kind: "connect", Client: 0, Version: ver, Clean: rapid.Bool().Draw(rt, "clean")},
		hist.Action{Kind: "connect", Client: 1, Version: pick(rt, "bversion", []byte{4, 5}), Clean: true, AutoAck: true},
		hist.Action{Kind: "subscribe", Client: 0, Filters: []refmqtt.Filter{{Filter: "a/#", QoS: pick(rt, "q", []byte{1, 2})}}})
	smallPID := rapid.Uint16Range(1, 4)
	action := rapid.Custom(func(rt *rapid.T) hist.Action {
		switch rapid.IntRange(0, 11).Draw(rt, "kind") {
		case 0, 1, 2:
			a := hist.Action{Kind: "publish", Client: 0, Topic: pick(rt, "topic", c07Topics), QoS: byte(rapid.IntRange(0, int(mq)).Draw(rt, "qos")), Retain: rapid.IntRange(0, 3).Draw(rt, "retain") == 0}
			if rapid.Bool().Draw(rt, "explicitpid") {
				a.PID = smallPID.Draw(rt, "pid")
			}
			return a
		case 3:
			return hist.Action{Kind: "publish", Client: 0, Retransmit: rapid.IntRange(1, 3).Draw(rt, "which")}
		case 4:
			a := hist.Action{Kind: "pubrel", Client: 0, Index: rapid.IntRange(0, 3).Draw(rt, "idx")}
			if rapid.IntRange(0, 2).Draw(rt, "unknown") == 0 {
				a.PID = smallPID.Draw(rt, "pid")
				a.Index = 1000
			}
			if ver == 5 && rapid.IntRange(0, 3).Draw(rt, "r92") == 0 {
				a.Reason = 0x92
			}
			return a
		case 5, 6:
			a := hist.Action{Kind: "subscribe", Client: 0}
			n := rapid.IntRange(1, 4).Draw(rt, "nf")
			for i := 0; i < n; i++ {
				f := refmqtt.Filter{Filter: pick(rt, "filter", c07Filters), QoS: byte(rapid.IntRange(0, 2).Draw(rt, "fq"))}
				if ver == 5 {
					f.NoLocal = rapid.IntRange(0, 3).Draw(rt, "nl") == 0
				}
				a.Filters = append(a.Filters, f)
			}
			if rapid.Bool().Draw(rt, "explicitpid") {
				a.PID = smallPID.Draw(rt, "pid")
			}
			return a
		case 7:
			a := hist.Action{Kind: "unsubscribe", Client: 0}
			n := rapid.IntRange(1, 3).Draw(rt, "nf")
			for i := 0; i < n; i++ {
				a.Filters = append(a.Filters, refmqtt.Filter{Filter: pick(rt, "filter", c07Filters)})
			}
			if rapid.Bool().Draw(rt, "explicitpid") {
				a.PID = smallPID.Draw(rt, "pid")
			}
			return a
		case 8:
			return hist.Action{Kind: "ping", Client: 0}
		case 9, 10:
			// bystander traffic towards the client under test, which does not acknowledge by itself: broker-assigned
			// identifiers stay outstanding so that the client's own identifiers can collide with them
			return hist.Action{Kind: "publish", Client: 1, Topic: pick(rt, "btopic", []string{"a", "a/b"}), QoS: byte(rapid.IntRange(0, int(mq)).Draw(rt, "bqos"))}
		default:
			return hist.Action{Kind: "ack", Client: 0, Index: rapid.IntRange(0, 3).Draw(rt, "ackidx")}
		}
	})
	c.Actions = append(c.Actions, rapid.SliceOfN(action, 3, 30).Draw(rt, "actions")...)
	return c
}

// c07GenBusy: requests answered while the requester is being written to. A v5 client with a small Maximum Packet Size
// subscribes; in one step it publishes QoS 1 messages of its own while another client floods it with small and oversize
// messages over a slow connection with a small write buffer; every one of its publishes needs its PUBACK.
func c07GenBusy(rt *rapid.T) *hist.Case {
	c := &hist.Case{}
	c.Cfg.WriteDelayUS = pick(rt, "write-delay", []int{20, 50, 100})
	c.Cfg.WriteBuf = pick(rt, "writebuf", []int{0, 256, 2048})
	mp := uint32(pick(rt, "maxpkt", []int{64, 100, 0}))
	con := hist.Action{Kind: "connect", Client: 0, Version: 5, Clean: true, AutoAck: true}
	if mp > 0 {
		con.MaxPkt = &mp
	}
	c.Actions = append(c.Actions, con,
		hist.Action{Kind: "connect", Client: 1, Version: 4, Clean: true, AutoAck: true},
		hist.Action{Kind: "subscribe", Client: 0, Filters: []refmqtt.Filter{{Filter: "a/#", QoS: 0}}})
	for i, n := 0, rapid.IntRange(1, 4).Draw(rt, "bursts"); i < n; i++ {
		pads := rapid.SliceOfN(rapid.SampledFrom([]int{0, 0, 10, 300}), 1, 4).Draw(rt, "pads")
		c.Actions = append(c.Actions, hist.Action{Kind: "burst", Burst: []hist.BurstItem{
			{Client: 1, Topic: "a/x", QoS: 0, Count: rapid.IntRange(2, 12).Draw(rt, "flood"), Pads: pads},
			{Client: 0, Topic: "b/y", QoS: 1, Count: rapid.IntRange(1, 4).Draw(rt, "own")}}})
		if rapid.Bool().Draw(rt, "ping") {
			c.Actions = append(c.Actions, hist.Action{Kind: "ping", Client: 0})
		}
	}
	return c
}

func TestC07(t *testing.T) {
	r := evid.New("C07", "rapid: one client (v3.1/v3.1.1/v5) plus an acknowledging bystander; requests: PUBLISH QoS 0-2 to valid, wildcard, $SYS, $share, unauthorised topics with fresh / repeated / colliding packet identifiers (small identifier pool, broker-assigned identifiers left outstanding), DUP retransmissions, PUBREL for known and unknown identifiers with reason 0x00/0x92, SUBSCRIBE/UNSUBSCRIBE with 1-4 filters (valid, invalid, denied, shared+NoLocal, duplicates) and colliding identifiers, PINGREQ; only an ACL-answering hook is installed; one case in six instead answers the client's QoS 1 publishes while another client floods it with small and oversize messages over a slow connection (write latency, small write buffer, Maximum Packet Size 64/100); oracle: after quiescence the connection is closed, or exactly one response of the required type with the request's identifier arrived, SUBACK/UNSUBACK with one code per filter, failure codes exactly for refused filters; non-trivial = request with rejected topic, explicit/colliding identifier, PUBREL, or mixed-outcome SUBSCRIBE; distinct by (history, step)")
	defer r.Finish(t)
	if evid.ReplayMode() {
		evid.Replay(t, r, replayPath(), c07Check)
		return
	}
	evid.Run(t, r, func(rt *rapid.T) *hist.Case {
		if rapid.IntRange(0, 5).Draw(rt, "busy") == 0 {
			c := c07GenBusy(rt)
			r.Sample(c.Summary())
			return c
		}
		c := c07Gen(rt)
		r.Sample(c.Summary())
		return c
	}, c07Check)
}
