package props

import (
	"fmt"
	"sort"
	"testing"

	"pgregory.net/rapid"
	"verif/harness/evid"
	"verif/harness/hist"
	"verif/harness/refmqtt"
)

// ---- C09: unacknowledged QoS 1/2 messages survive reconnection until acknowledged ----------------------

type c09Ent struct {
	tag        int
	pid        uint16 // 0 = not yet learned from the wire (queued while offline / held back)
	qos        byte
	stage      int  // 0 awaiting PUBACK/PUBREC, 1 PUBREC sent by the client (awaiting PUBREL/PUBCOMP)
	firstPeer  int  // connection on which it was first transmitted (-1 none)
	done       bool // acknowledged by the client
	doneStep   int
	queuedStep int
	deferred   bool // first transmitted outside the publish step and outside a connect step: released by flow control
}

// c09Check follows the subscriber (client 0) through the history.
// c09Sig: everything that goes wrong with a message that was queued behind a full receive-maximum window is one root
// cause (the broker's deferred-send path keeps its "send immediately" marker and deletes/re-sends such messages), so
// those discrepancies share one signature; for all other messages each kind of failure has its own.
func c09Sig(e *c09Ent, sig string) string {
	if e != nil && e.deferred {
		return "C09-held-back-message-mishandled"
	}
	return sig
}

func c09Check(c *hist.Case, r *evid.Rec) []evid.Disc {
	run := runCase(c, r)
	if run == nil {
		return nil
	}
	m := hist.Analyze(run)
	var ds []evid.Disc
	const S = "c0"
	ents := map[int]*c09Ent{}
	willArmed, subQ := false, byte(0)
	smallWindow := false
	window := 0
	for _, a := range c.Actions {
		if a.Kind == "connect" && a.Client == 0 && a.RecvMax != nil {
			smallWindow = true
			window = int(*a.RecvMax)
		}
	}
	outstanding := func() []*c09Ent {
		var out []*c09Ent
		for _, e := range ents {
			if !e.done {
				out = append(out, e)
			}
		}
		sort.Slice(out, func(i, j int) bool { return out[i].tag < out[j].tag })
		return out
	}
	byPID := func(pid uint16) *c09Ent {
		for _, e := range ents {
			if !e.done && e.pid == pid {
				return e
			}
		}
		return nil
	}
	// the step in which each of the subscriber's connections received its CONNACK: normally the connect step, later
	// when the handler was held at a schedule point in between (a takeover with traffic arriving in the middle)
	connackAt := map[int]int{}
	for _, p := range run.Peers {
		if p.CID != S {
			continue
		}
		for i, pk := range p.Got {
			if pk.Type == refmqtt.CONNACK {
				connackAt[p.GotStep[i]] = p.ID
				break
			}
		}
	}
	for _, s := range run.Steps {
		// (1) a connect of the subscriber: resend obligations are judged on what arrives in the step of its CONNACK
		var resumed, reset bool
		var newPeer *hist.Peer
		if pid, ok := connackAt[s.I]; ok {
			newPeer = run.Peers[pid]
			if newPeer.Established() {
				if newPeer.Connack.SessionPresent && !run.Steps[newPeer.OpenedAt].A.Clean {
					resumed = true
				} else {
					reset = true
				}
			}
			if s.A.Kind == "release" {
				r.Label("takeover-with-traffic-in-the-middle")
			}
		}
		resumeStep := newPeer != nil
		before := map[int]c09Ent{}
		for _, e := range outstanding() {
			before[e.tag] = *e
		}
		// (2) publishes by the publisher create obligations
		if s.A.Kind == "publish" && !s.Skipped && s.Tag > 0 && s.A.Client == 1 && s.A.Retransmit == 0 {
			ti := run.Tags[s.Tag]
			sn := m.Snaps[s.Tag]
			if sn != nil && sn.Connected[ti.CID] == ti.Peer {
				if ms := sn.MatchingAll(S, ti.Topic); len(ms) > 0 {
					q := byte(0)
					for _, st := range ms {
						if st.Opts.QoS > q {
							q = st.Opts.QoS
						}
					}
					if q = minB(q, ti.QoS); q > 0 {
						ents[s.Tag] = &c09Ent{tag: s.Tag, qos: q, firstPeer: -1, queuedStep: s.I}
						tainted := false
						for _, x := range ents {
							if x.deferred && x.tag != s.Tag {
								tainted = true // the deferred path has been used in this session: the broker's send quota is off from then on
							}
						}
						if window > 0 && (len(before) >= window || tainted) {
							// queued behind a full receive-maximum window: it goes through the broker's deferred path
							ents[s.Tag].deferred = true
							r.Label("held-back-by-window")
						}
						if _, on := sn.Connected[S]; !on {
							r.Label("queued-while-offline")
						}
					}
				}
			}
		}
		// (2b) the delayed will of client c2 (v5, QoS 1, delay 30 s) is a publish by the broker: it becomes due at the first
		// will-housekeeping tick more than 33 s after c2's connection was dropped, and then creates the same obligation
		if s.A.Kind == "drop" && s.A.Client == 2 && !s.Skipped {
			willArmed = true
		}
		if s.A.Kind == "tick" && s.A.Tick == "wills" && willArmed && s.A.Offset >= 40 {
			willArmed = false
			for tag, ti := range run.Tags {
				if !ti.Will || ti.CID != "c2" {
					continue
				}
				if q := minB(ti.QoS, subQ); q > 0 {
					ents[tag] = &c09Ent{tag: tag, qos: q, firstPeer: -1, queuedStep: s.I}
					r.Label("delayed-will-queued")
					if window > 0 && len(before) >= window {
						ents[tag].deferred = true
					}
				}
			}
		}
		if s.A.Kind == "subscribe" && s.A.Client == 0 && !s.Skipped {
			for _, o := range s.Obs {
				if o.Peer == s.Peer && o.P.Type == refmqtt.SUBACK && len(o.P.ReasonCodes) > 0 && o.P.ReasonCodes[0] < 0x80 {
					subQ = o.P.ReasonCodes[0]
				}
			}
		}
		if reset {
			subQ = 0
		}
		// (3) what the subscriber's connections received in this step
		for _, o := range s.Obs {
			p := run.Peers[o.Peer]
			if p.CID != S {
				continue
			}
			switch o.P.Type {
			case refmqtt.PUBLISH:
				if o.P.QoS == 0 {
					continue
				}
				tag := hist.TagOf(o.P.Payload)
				e := ents[tag]
				if e == nil {
					ds = append(ds, evid.D("C09-unexpected-qos-publish", "step %d: %s received %s, which the model does not expect", s.I, S, o.P))
					continue
				}
				if e.done {
					ds = append(ds, evid.D(c09Sig(e, "C09-acknowledged-message-resent"), "step %d: m%d was acknowledged by the client at step %d but is sent again: %s", s.I, tag, e.doneStep, o.P))
					continue
				}
				if e.stage == 1 {
					ds = append(ds, evid.D(c09Sig(e, "C09-publish-resent-after-pubrec"), "step %d: m%d: the client already sent PUBREC, yet PUBLISH is sent again instead of PUBREL: %s", s.I, tag, o.P))
				}
				if e.pid != 0 && e.pid != o.P.PacketID {
					ds = append(ds, evid.D(c09Sig(e, "C09-packet-identifier-changed"), "step %d: m%d was first sent with packet id %d and is resent with %d", s.I, tag, e.pid, o.P.PacketID))
				}
				if e.firstPeer >= 0 && e.firstPeer != o.Peer && !o.P.Dup {
					ds = append(ds, evid.D(c09Sig(e, "C09-resend-without-dup"), "step %d: m%d was transmitted before on connection #%d and is resent on #%d without DUP", s.I, tag, e.firstPeer, o.Peer))
				}
				if s.I != e.queuedStep && s.A.Kind != "connect" && !resumeStep && !e.deferred {
					// (re)transmitted in a step that is neither its publish nor a reconnect: it came out of the broker's
					// deferred-send path (also when it had already been resent once on a reconnect while still marked)
					e.deferred = true
					r.Label("released-by-flow-control")
				}
				if e.firstPeer < 0 {
					e.firstPeer = o.Peer
				}
				e.pid = o.P.PacketID
			}
		}
		// (4) resend obligations at a resumed connect
		if resumed {
			nOut := 0
			for tag, b := range before {
				nOut++
				gotPub := len(s.Deliveries(newPeer.ID, tag)) > 0
				gotRel := false
				if b.pid != 0 {
					n, _ := countObs(s, newPeer.ID, refmqtt.PUBREL, b.pid)
					gotRel = n > 0
				}
				switch {
				case b.stage == 1 && !gotRel:
					ds = append(ds, evid.D(c09Sig(&b, "C09-pubrel-not-resent"), "step %d: session resumed; m%d (pid %d) is in stage PUBREC-received but no PUBREL was resent", s.I, tag, b.pid))
				case b.stage == 0 && !gotPub:
					sig := "C09-unacknowledged-message-not-resent"
					if b.deferred {
						sig = "C09-held-back-message-mishandled"
					}
					if b.firstPeer < 0 {
						sig = "C09-queued-message-not-delivered-on-reconnect"
						if smallWindow {
							// held back by the receive window: it may legitimately come later (checked at the end)
							continue
						}
					}
					ds = append(ds, evid.D(sig, "step %d: session resumed (session present=1); m%d (QoS %d, pid %d, first sent on #%d) is still unacknowledged but was not sent on the new connection", s.I, tag, b.qos, b.pid, b.firstPeer))
				}
			}
			if nOut > 0 {
				r.NonTrivial(fmt.Sprintf("%s|%d", caseKey(c), s.I))
				r.Label("resume-with-outstanding")
			}
		}
		if reset {
			for _, o := range s.Obs {
				if o.Peer == newPeer.ID && (o.P.Type == refmqtt.PUBLISH || o.P.Type == refmqtt.PUBREL) {
					ds = append(ds, evid.D("C09-resend-after-clean-start", "step %d: connection with clean start / no session present received %s", s.I, o.P))
				}
			}
			ents = map[int]*c09Ent{}
		}
		// (5) the subscriber's own acknowledgements
		if s.A.Kind == "ack" && !s.Skipped && s.Sent != nil && run.Peers[s.Peer].CID == S {
			if e := byPID(s.Sent.PacketID); e != nil {
				switch s.Sent.Type {
				case refmqtt.PUBACK, refmqtt.PUBCOMP:
					e.done, e.doneStep = true, s.I
				case refmqtt.PUBREC:
					if s.Sent.ReasonCode >= 0x80 {
						e.done, e.doneStep = true, s.I
					} else {
						e.stage = 1
					}
				}
			}
		}
	}
	return withTranscript(ds, run)
}

func c09Gen(rt *rapid.T) *hist.Case {
	c := &hist.Case{}
	ver := pick(rt, "version", []byte{4, 5, 5, 3})
	exp := uint32(300)
	sub := hist.Action{Kind: "connect", Client: 0, Version: ver, Clean: false}
	if ver == 5 {
		sub.Expiry = &exp
		if rapid.IntRange(0, 3).Draw(rt, "window") == 0 {
			w := uint16(rapid.IntRange(1, 2).Draw(rt, "recvmax"))
			sub.RecvMax = &w
		}
	}
	c.Actions = append(c.Actions, sub,
		hist.Action{Kind: "subscribe", Client: 0, Filters: []refmqtt.Filter{{Filter: "t/#", QoS: pick(rt, "subqos", []byte{1, 2, 2})}}},
		hist.Action{Kind: "connect", Client: 1, Version: pick(rt, "pversion", []byte{4, 5}), Clean: true, AutoAck: true})
	action := rapid.Custom(func(rt *rapid.T) hist.Action {
		switch rapid.IntRange(0, 11).Draw(rt, "kind") {
		case 0, 1, 2, 3:
			return hist.Action{Kind: "publish", Client: 1, Topic: pick(rt, "topic", []string{"t/a", "t/b"}), QoS: byte(rapid.IntRange(1, 2).Draw(rt, "qos"))}
		case 4, 5, 6:
			a := hist.Action{Kind: "ack", Client: 0, Index: rapid.IntRange(0, 4).Draw(rt, "idx")}
			if ver == 5 && rapid.IntRange(0, 4).Draw(rt, "failure-code") == 0 {
				// 0x80 and above: an acknowledgement all the same, it ends the exchange; 0x10 (no matching subscribers) is a
				// success code: a PUBREC carrying it continues the exchange like reason 0
				a.Reason = pick(rt, "reason", []byte{0x80, 0x83, 0x97, 0x10, 0x10})
			}
			// the connection is reset right behind the acknowledgement: the broker processes it on a connection it can
			// no longer write to (seeded change C09-f: PUBREC handling that gives up when the PUBREL cannot be written)
			a.ThenDrop = rapid.IntRange(0, 5).Draw(rt, "ack-then-drop") == 0
			return a
		case 7:
			return hist.Action{Kind: pick(rt, "how", []string{"drop", "close"}), Client: 0}
		case 8, 9:
			a := sub
			a.Clean = rapid.IntRange(0, 5).Draw(rt, "cleanstart") == 0
			return a
		case 10:
			return hist.Action{Kind: "disconnect", Client: 0}
		default:
			return hist.Action{Kind: "publish", Client: 1, Topic: "t/a", QoS: 0}
		}
	})
	acts := rapid.SliceOfN(action, 4, 35).Draw(rt, "actions")
	if rapid.IntRange(0, 3).Draw(rt, "parked-takeover") == 0 {
		// a resuming connect that waits between disconnecting the old connection and taking the session over, while
		// the publisher sends one more message: the resumed session must get it like any other unacknowledged message
		tk := sub
		tk.Park = []string{"inherit.afterDisconnectOld"}
		at := rapid.IntRange(0, len(acts)).Draw(rt, "takeover-at")
		mid := []hist.Action{tk,
			{Kind: "publish", Client: 1, Topic: "t/a", QoS: byte(rapid.IntRange(1, 2).Draw(rt, "tq"))},
			{Kind: "release", Client: 0}}
		acts = append(acts[:at], append(mid, acts[at:]...)...)
	}
	if ver == 5 || rapid.Bool().Draw(rt, "with-will") {
		if rapid.IntRange(0, 2).Draw(rt, "will-class") == 0 {
			// a third client leaves a delayed QoS 1 will behind: it is published by the housekeeping (virtual time) at a
			// generated point of the history, possibly while the subscriber is offline, and the in-flight housekeeping
			// runs afterwards (nothing here carries a message expiry, the server maximum is a day: nothing may go)
			d, e := uint32(30), uint32(100)
			c.Actions = append(c.Actions,
				hist.Action{Kind: "connect", Client: 2, Version: 5, Clean: true, AutoAck: true, Expiry: &e, Will: &hist.WillSpec{Topic: "t/w", QoS: 1, Delay: &d}},
				hist.Action{Kind: "drop", Client: 2})
			at := rapid.IntRange(0, len(acts)).Draw(rt, "will-at")
			ticks := []hist.Action{{Kind: "tick", Tick: "wills", Offset: 40}, {Kind: "tick", Tick: "inflight", Offset: pick(rt, "inflight-tick", []int64{50, 1000})}}
			acts = append(acts[:at], append(ticks, acts[at:]...)...)
		}
	}
	c.Actions = append(c.Actions, acts...)
	// closing phase: the subscriber reconnects once more, which must bring everything still outstanding
	c.Actions = append(c.Actions, hist.Action{Kind: "drop", Client: 0}, sub)
	return c
}

func TestC09(t *testing.T) {
	r := evid.New("C09", "rapid: a subscriber with a persistent session (v3.1/v3.1.1 clean session 0, v5 expiry>0; receive maximum absent or 1-2) on a QoS 1/2 subscription acknowledges by hand in generated order and stage (PUBACK; PUBREC without PUBCOMP; nothing; one acknowledgement in six is followed at once by a connection reset, so that the broker processes it on a dead connection), is dropped, closed, disconnected, taken over and reconnects with clean start 0 or 1, while a publisher sends QoS 1/2 messages also when the subscriber is offline; in a quarter of the histories a resuming CONNECT is held between disconnecting the old connection and taking the session over while another message is published (verif schedule point); in some histories a third client's delayed QoS 1 will is published by the will housekeeping (virtual time) and the in-flight housekeeping runs afterwards; oracle: a model map tag -> {packet id, stage} built from the wire; at every CONNACK with session present each outstanding entry must be resent in that step (PUBLISH with the same identifier, DUP if sent before on another connection; PUBREL instead once the client sent PUBREC), nothing acknowledged ever reappears, nothing is resent after clean start; non-trivial = a resumed connect with >=1 outstanding entry; distinct by (history, step)")
	defer r.Finish(t)
	if evid.ReplayMode() {
		evid.Replay(t, r, replayPath(), c09Check)
		return
	}
	evid.Run(t, r, func(rt *rapid.T) *hist.Case {
		c := c09Gen(rt)
		r.Sample(c.Summary())
		return c
	}, c09Check)
}
