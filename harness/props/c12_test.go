package props

import (
	"fmt"
	"testing"

	"pgregory.net/rapid"
	"verif/harness/evid"
	"verif/harness/hist"
	"verif/harness/refmqtt"
)

// ---- C12: messages on one topic from one publisher arrive in publish order ------------------------------

func c12Check(c *hist.Case, r *evid.Rec) []evid.Disc {
	run := runCase(c, r)
	if run == nil {
		return nil
	}
	var ds []evid.Disc
	const S = "c0"
	// streams: (topic, delivered QoS); tags are allocated in publish order, so "in publish order" == ascending tags
	firstSeen := map[int]bool{}
	lastFirst := map[string]int{} // stream -> highest tag whose first transmission was seen
	heldTogether := false
	for _, s := range run.Steps {
		batch := map[string][]int{} // resend batch right after a CONNACK with session present
		for _, o := range s.Obs {
			p := run.Peers[o.Peer]
			if p.CID != S || o.P.Type != refmqtt.PUBLISH {
				continue
			}
			tag := hist.TagOf(o.P.Payload)
			ti := run.Tags[tag]
			if ti == nil || ti.CID != "c1" {
				continue
			}
			stream := fmt.Sprintf("%s/q%d", ti.Topic, o.P.QoS)
			if !firstSeen[tag] {
				firstSeen[tag] = true
				if (s.A.Kind != "publish" || s.Tag != tag) && s.A.Kind != "burst" {
					heldTogether = true // released later than its own publish step: held back by flow control or offline
				}
				if s.A.Kind == "burst" {
					r.Label("burst-delivery")
				}
				if prev := lastFirst[stream]; tag < prev {
					sig := "C12-first-transmission-out-of-order"
					if s.A.Kind == "connect" {
						sig = "C12-queued-messages-delivered-out-of-order-on-reconnect"
					} else if s.A.Kind == "ack" || s.A.Kind == "drain" {
						sig = "C12-held-back-messages-released-out-of-order"
					}
					ds = append(ds, evid.D(sig, "step %d: on stream %s the first transmission of m%d arrives after that of m%d, which was published later", s.I, stream, tag, prev))
				} else {
					lastFirst[stream] = tag
				}
			}
			if s.A.Kind == "connect" && o.P.Dup {
				batch[stream] = append(batch[stream], tag)
			}
		}
		for stream, tags := range batch {
			for i := 1; i < len(tags); i++ {
				if tags[i] < tags[i-1] {
					ds = append(ds, evid.D("C12-resent-out-of-order", "step %d: after the reconnect stream %s is resent in the order %v", s.I, stream, tags))
					break
				}
			}
			if len(tags) >= 2 {
				heldTogether = true
			}
		}
	}
	if heldTogether {
		r.NonTrivial(caseKey(c))
	}
	return withTranscript(ds, run)
}

func c12Gen(rt *rapid.T) *hist.Case {
	c := &hist.Case{}
	c.Cfg.ClientPIDBase = 1000
	exp := uint32(300)
	ver := pick(rt, "version", []byte{4, 5, 5})
	con := hist.Action{Kind: "connect", Client: 0, Version: ver, Clean: false}
	if ver == 5 {
		con.Expiry = &exp
		if w := pick(rt, "recvmax", []uint16{0, 1, 2}); w > 0 {
			con.RecvMax = &w
		}
	}
	qa, qb := byte(rapid.IntRange(0, 2).Draw(rt, "qos-a")), byte(rapid.IntRange(1, 2).Draw(rt, "qos-b"))
	c.Actions = append(c.Actions, con,
		hist.Action{Kind: "subscribe", Client: 0, Filters: []refmqtt.Filter{{Filter: "t/#", QoS: 2}}},
		hist.Action{Kind: "connect", Client: 1, Version: 4, Clean: true, AutoAck: true})
	action := rapid.Custom(func(rt *rapid.T) hist.Action {
		switch rapid.IntRange(0, 13).Draw(rt, "kind") {
		case 0, 1, 2, 3, 4:
			return hist.Action{Kind: "publish", Client: 1, Topic: "t/a", QoS: qa}
		case 5, 6:
			return hist.Action{Kind: "publish", Client: 1, Topic: "t/b", QoS: qb}
		case 7, 8:
			return hist.Action{Kind: "ack", Client: 0, Index: 0} // acknowledge the oldest outstanding message
		case 9:
			return hist.Action{Kind: "ack", Client: 0, Index: rapid.IntRange(0, 3).Draw(rt, "idx")}
		case 10:
			return hist.Action{Kind: pick(rt, "how", []string{"drop", "close"}), Client: 0}
		case 11:
			return con
		default:
			// a burst of small and large messages on one stream: the subscriber's write queue backs up, so the broker's
			// output buffering (small packets batched, large ones written through) is exercised
			n := rapid.IntRange(3, 10).Draw(rt, "burstn")
			pads := rapid.SliceOfN(rapid.SampledFrom([]int{0, 0, 5, 40, 300, 3000}), 2, 5).Draw(rt, "pads")
			return hist.Action{Kind: "burst", Burst: []hist.BurstItem{{Client: 1, Topic: "t/a", QoS: qa, Count: n, Pads: pads}}}
		}
	})
	c.Cfg.WriteBuf = pick(rt, "writebuf", []int{0, 0, 16, 64, 256})
	c.Actions = append(c.Actions, rapid.SliceOfN(action, 5, 40).Draw(rt, "actions")...)
	c.Actions = append(c.Actions, hist.Action{Kind: "drop", Client: 0}, con, hist.Action{Kind: "drain", Client: 0})
	return c
}

func TestC12(t *testing.T) {
	r := evid.New("C12", "rapid: one publisher sends 3-40 tagged messages to two topics at a fixed QoS per topic; the subscriber (persistent session, Receive Maximum 1, 2 or absent, v3.1.1/v5) acknowledges with generated timing, receives bursts of mixed small and large (up to 3000 byte) messages with client write buffers of 16..2048 bytes, is dropped and reconnects with session present in the middle, and finally reconnects and acknowledges everything; all publishes of a case fall within the same second or two, which is the situation in which ordering by creation second says nothing; oracle: per (topic, delivered QoS) the first transmissions arrive in publish order, and the batch resent after a CONNACK with session present is in publish order; non-trivial = >=2 messages of one stream were held back or resent together; distinct by history")
	defer r.Finish(t)
	if evid.ReplayMode() {
		evid.Replay(t, r, replayPath(), c12Check)
		return
	}
	evid.Run(t, r, func(rt *rapid.T) *hist.Case {
		c := c12Gen(rt)
		r.Sample(c.Summary())
		return c
	}, c12Check)
}
