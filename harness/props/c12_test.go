package props

import (
	"fmt"
	"sync"
	"testing"

	"pgregory.net/rapid"
	"verif/harness/evid"
	"verif/harness/hist"
	"verif/harness/refmqtt"
)

// ---- C12: messages on one topic from one publisher arrive in publish order ------------------------------

func c12Check(c *hist.Case, r *evid.Rec) []evid.Disc {
	run := runCase(c, r)
	if run == nil {
		return nil
	}
	var ds []evid.Disc
	const S = "c0"
	// streams: (topic, delivered QoS); tags are allocated in publish order, so "in publish order" == ascending tags
	firstSeen := map[int]bool{}
	lastFirst := map[string]int{} // stream -> highest tag whose first transmission was seen
	heldTogether := false
	// The open findings of this property are about messages created within the same second (the in-flight store orders
	// by creation second only). Two messages whose publish steps are separated by a full wall-clock second are ordered
	// by the broker's own rule, so a swap between them is a different defect and gets its own signature.
	pubAt := map[int]int{}
	for _, s := range run.Steps {
		if (s.A.Kind == "publish" || s.A.Kind == "burst") && s.Tag > 0 {
			pubAt[s.Tag] = s.I
		}
	}
	apart := func(earlier, later int) string {
		a, aok := pubAt[earlier]
		b, bok := pubAt[later]
		if !aok || !bok || a >= b || a+1 >= len(run.Steps) {
			return ""
		}
		endA, startB := run.Steps[a+1].Now, run.Steps[b].Now
		if endA >= startB {
			return ""
		}
		if uint16(startB) < uint16(endA) {
			return "-created-seconds-apart-across-a-uint16-wrap-of-the-clock"
		}
		return "-although-created-in-different-seconds"
	}
	for _, s := range run.Steps {
		batch := map[string][]int{} // resend batch right after a CONNACK with session present
		for _, o := range s.Obs {
			p := run.Peers[o.Peer]
			if p.CID != S || o.P.Type != refmqtt.PUBLISH {
				continue
			}
			tag := hist.TagOf(o.P.Payload)
			ti := run.Tags[tag]
			if ti == nil || ti.CID != "c1" {
				continue
			}
			stream := fmt.Sprintf("%s/q%d", ti.Topic, o.P.QoS)
			if !firstSeen[tag] {
				firstSeen[tag] = true
				if (s.A.Kind != "publish" || s.Tag != tag) && s.A.Kind != "burst" {
					heldTogether = true // released later than its own publish step: held back by flow control or offline
				}
				if s.A.Kind == "burst" {
					r.Label("burst-delivery")
				}
				if prev := lastFirst[stream]; tag < prev {
					sig := "C12-first-transmission-out-of-order"
					if s.A.Kind == "connect" {
						sig = "C12-queued-messages-delivered-out-of-order-on-reconnect"
					} else if s.A.Kind == "ack" || s.A.Kind == "drain" {
						sig = "C12-held-back-messages-released-out-of-order"
					}
					sig += apart(tag, prev)
					ds = append(ds, evid.D(sig, "step %d: on stream %s the first transmission of m%d arrives after that of m%d, which was published later", s.I, stream, tag, prev))
				} else {
					lastFirst[stream] = tag
				}
			}
			if s.A.Kind == "connect" && o.P.Dup {
				batch[stream] = append(batch[stream], tag)
			}
		}
		for stream, tags := range batch {
			for i := 1; i < len(tags); i++ {
				if tags[i] < tags[i-1] {
					ds = append(ds, evid.D("C12-resent-out-of-order"+apart(tags[i], tags[i-1]), "step %d: after the reconnect stream %s is resent in the order %v", s.I, stream, tags))
					break
				}
			}
			if len(tags) >= 2 {
				heldTogether = true
			}
		}
	}
	if heldTogether {
		r.NonTrivial(caseKey(c))
	}
	return withTranscript(ds, run)
}

func c12Gen(rt *rapid.T) *hist.Case {
	c := &hist.Case{}
	c.Cfg.ClientPIDBase = 1000
	exp := uint32(300)
	ver := pick(rt, "version", []byte{4, 5, 5})
	con := hist.Action{Kind: "connect", Client: 0, Version: ver, Clean: false}
	if ver == 5 {
		con.Expiry = &exp
		if w := pick(rt, "recvmax", []uint16{0, 1, 2}); w > 0 {
			con.RecvMax = &w
		}
	}
	qa, qb := byte(rapid.IntRange(0, 2).Draw(rt, "qos-a")), byte(rapid.IntRange(1, 2).Draw(rt, "qos-b"))
	c.Actions = append(c.Actions, con,
		hist.Action{Kind: "subscribe", Client: 0, Filters: []refmqtt.Filter{{Filter: "t/#", QoS: 2}}},
		hist.Action{Kind: "connect", Client: 1, Version: 4, Clean: true, AutoAck: true})
	action := rapid.Custom(func(rt *rapid.T) hist.Action {
		switch rapid.IntRange(0, 13).Draw(rt, "kind") {
		case 0, 1, 2, 3, 4:
			return hist.Action{Kind: "publish", Client: 1, Topic: "t/a", QoS: qa}
		case 5, 6:
			return hist.Action{Kind: "publish", Client: 1, Topic: "t/b", QoS: qb}
		case 7, 8:
			return hist.Action{Kind: "ack", Client: 0, Index: 0} // acknowledge the oldest outstanding message
		case 9:
			return hist.Action{Kind: "ack", Client: 0, Index: rapid.IntRange(0, 3).Draw(rt, "idx")}
		case 10:
			return hist.Action{Kind: pick(rt, "how", []string{"drop", "close"}), Client: 0}
		case 11:
			return con
		default:
			// a burst of small and large messages on one stream: the subscriber's write queue backs up, so the broker's
			// output buffering (small packets batched, large ones written through) is exercised
			n := rapid.IntRange(3, 10).Draw(rt, "burstn")
			pads := rapid.SliceOfN(rapid.SampledFrom([]int{0, 0, 5, 40, 300, 3000}), 2, 5).Draw(rt, "pads")
			return hist.Action{Kind: "burst", Burst: []hist.BurstItem{{Client: 1, Topic: "t/a", QoS: qa, Count: n, Pads: pads}}}
		}
	})
	c.Cfg.WriteBuf = pick(rt, "writebuf", []int{0, 0, 16, 64, 256})
	c.Actions = append(c.Actions, rapid.SliceOfN(action, 5, 40).Draw(rt, "actions")...)
	c.Actions = append(c.Actions, hist.Action{Kind: "drop", Client: 0}, con, hist.Action{Kind: "drain", Client: 0})
	return c
}

// c12Aged: fixed cases in which real time passes between the publishes (1.1 s each), so that the broker's own ordering
// rule (creation second) decides; the broker's packet identifier cursor for the subscriber is moved close to the
// wrap-around first, and the messages are queued while the subscriber is offline or held back behind its window.
func c12Aged() []*hist.Case {
	var out []*hist.Case
	exp := uint32(300)
	one := uint16(1)
	for _, v := range []struct {
		ver     byte
		cursor  int64
		offline bool
		qos     byte
	}{{4, 65533, true, 1}, {5, 65534, true, 1}, {5, 65533, false, 1}, {5, 65533, false, 2}} {
		// the last one (QoS 2) exists because a QoS 1 message released late never hands its quota back (open finding): with
		// QoS 1 only one held-back message is ever released, so a wrong release order cannot show (seeded change C12-e)
		c := &hist.Case{}
		c.Cfg.ClientPIDBase = 1000
		con := hist.Action{Kind: "connect", Client: 0, Version: v.ver, Clean: false}
		if v.ver == 5 {
			con.Expiry = &exp
			if !v.offline {
				con.RecvMax = &one
			}
		}
		c.Actions = append(c.Actions, con,
			hist.Action{Kind: "subscribe", Client: 0, Filters: []refmqtt.Filter{{Filter: "t/#", QoS: v.qos}}},
			hist.Action{Kind: "connect", Client: 1, Version: 4, Clean: true, AutoAck: true},
			hist.Action{Kind: "pidcursor", Client: 0, Offset: v.cursor})
		if v.offline {
			c.Actions = append(c.Actions, hist.Action{Kind: "drop", Client: 0})
		}
		for i := 0; i < 4; i++ {
			c.Actions = append(c.Actions, hist.Action{Kind: "publish", Client: 1, Topic: "t/a", QoS: v.qos}, hist.Action{Kind: "sleep", Offset: 1100})
		}
		if v.offline {
			c.Actions = append(c.Actions, con)
		}
		c.Actions = append(c.Actions, hist.Action{Kind: "drain", Client: 0})
		out = append(out, c)
	}
	return out
}

func TestC12(t *testing.T) {
	r := evid.New("C12", "rapid: one publisher sends 3-40 tagged messages to two topics at a fixed QoS per topic; the subscriber (persistent session, Receive Maximum 1, 2 or absent, v3.1.1/v5) acknowledges with generated timing, receives bursts of mixed small and large (up to 3000 byte) messages with client write buffers of 16..2048 bytes, is dropped and reconnects with session present in the middle, and finally reconnects and acknowledges everything; all publishes of a generated case fall within the same second or two, which is the situation in which ordering by creation second says nothing; four fixed cases let 1.1 s of real time pass between publishes with the subscriber's packet identifier cursor just below the wrap-around (offline queue, and flow-control window at QoS 1 and QoS 2); oracle: per (topic, delivered QoS) the first transmissions arrive in publish order, and the batch resent after a CONNACK with session present is in publish order; non-trivial = >=2 messages of one stream were held back or resent together; distinct by history")
	defer r.Finish(t)
	if evid.ReplayMode() {
		evid.Replay(t, r, replayPath(), c12Check)
		return
	}
	var wg sync.WaitGroup
	var mu sync.Mutex
	for _, c := range c12Aged() {
		wg.Add(1)
		go func(c *hist.Case) {
			defer wg.Done()
			ds := c12Check(c, r)
			mu.Lock()
			defer mu.Unlock()
			r.Eval()
			r.Label("aged-case-with-identifier-wrap")
			if un := r.Explain(ds); len(un) > 0 {
				r.Fail(c, un)
				t.Errorf("C12 aged case: [%s] %s", un[0].Sig, un[0].Msg)
			}
		}(c)
	}
	wg.Wait()
	if t.Failed() {
		return
	}
	evid.Run(t, r, func(rt *rapid.T) *hist.Case {
		c := c12Gen(rt)
		r.Sample(c.Summary())
		return c
	}, c12Check)
}
