package props

import (
	"fmt"
	"testing"

	"pgregory.net/rapid"
	"verif/harness/evid"
	"verif/harness/hist"
	"verif/harness/refmqtt"
)

// ---- C24: topic aliases are always resolvable by the receiver -----------------------------------------------
//
// Outbound class: c0 = S (v5 subscriber with a Topic Alias Maximum), c1 = P (publisher).
// Inbound class:  c0 = P (v5 publisher using aliases), c1 = O (observer on '#', no aliases), c2 = late subscriber.

func c24Check(c *hist.Case, r *evid.Rec) []evid.Disc {
	run := runCase(c, r)
	if run == nil {
		return nil
	}
	var ds []evid.Disc
	// ---------- outbound: every PUBLISH the broker sent, on every connection
	for _, p := range run.Peers {
		tam := uint16(0)
		if p.Connect != nil && p.Connect.Props.TopicAliasMaximum != nil {
			tam = *p.Connect.Props.TopicAliasMaximum
		}
		table := map[uint16]string{}
		for i, pk := range p.Got {
			if p.BlindAt(p.GotStep[i]) {
				break
			}
			if pk.Type != refmqtt.PUBLISH {
				continue
			}
			tag := hist.TagOf(pk.Payload)
			ti := run.Tags[tag]
			where := fmt.Sprintf("step %d: %s#%d (Topic Alias Maximum %d) received %s", p.GotStep[i], p.CID, p.ID, tam, pk)
			al := uint16(0)
			if pk.Props.TopicAlias != nil {
				al = *pk.Props.TopicAlias
				if tam == 0 {
					ds = append(ds, evid.D("C24-outbound-alias-used-with-maximum-0", "%s: the client allows no topic aliases", where))
				} else if al > tam {
					ds = append(ds, evid.D("C24-outbound-alias-above-maximum", "%s: alias %d exceeds the client's maximum", where, al))
				}
			}
			topic := pk.Topic
			if topic == "" {
				bound, ok := table[al]
				cause := c24Cause(run, p, i, ti)
				switch {
				case al == 0:
					ds = append(ds, evid.D("C24-outbound-empty-topic-without-alias", "%s", where))
					continue
				case !ok:
					ds = append(ds, evid.D("C24-outbound-alias-unbound-on-this-connection"+cause, "%s: alias %d was never bound by an earlier PUBLISH on this connection", where, al))
					continue
				}
				topic = bound
				r.Label("outbound-alias-only-publish")
				r.NonTrivial(fmt.Sprintf("%s|out|%d|%d", caseKey(c), p.ID, i))
			} else if al > 0 {
				table[al] = topic
				r.Label("outbound-binding-publish")
			}
			if ti != nil && c.Cfg.TopicAliasMaximum == nil && topic != ti.Topic {
				// (outbound class only: in the inbound class the publish topic is itself an alias question)
				ds = append(ds, evid.D("C24-outbound-alias-resolves-to-wrong-topic", "%s: resolves to %q but m%d was published on %q", where, topic, tag, ti.Topic))
			}
		}
	}
	// ---------- inbound: the publisher's alias use against the model of its connection's table
	if c.Cfg.TopicAliasMaximum != nil {
		T := *c.Cfg.TopicAliasMaximum
		var obs, late *hist.Peer
		for _, p := range run.Peers {
			if p.Client == 1 && obs == nil {
				obs = p
			}
			if p.Client == 2 {
				late = p
			}
		}
		if obs == nil || obs.BlindAt(1<<30) {
			r.NotAsserted()
			return withTranscript(ds, run)
		}
		tables := map[int]map[uint16]string{} // per publisher connection
		expectRetained := map[string]int{}    // topic -> tag of the latest accepted retained publish
		for _, s := range run.Steps {
			if s.A.Kind != "publish" || s.Skipped || s.Tag == 0 || s.A.Client != 0 {
				continue
			}
			pp := run.Peers[s.Peer]
			if pp.ClosedAt >= 0 && pp.ClosedAt < s.I {
				continue
			}
			tb := tables[s.Peer]
			if tb == nil {
				tb = map[uint16]string{}
				tables[s.Peer] = tb
			}
			al, topic := s.A.Alias, s.A.Topic
			if s.A.NoTopic {
				topic = ""
			}
			desc := fmt.Sprintf("step %d: %s#%d sent PUBLISH m%d topic=%q alias=%d retain=%v (server Topic Alias Maximum %d)", s.I, pp.CID, pp.ID, s.Tag, topic, al, s.A.Retain, T)
			var got []*refmqtt.Packet
			for _, pk := range obs.Got {
				if pk.Type == refmqtt.PUBLISH && hist.TagOf(pk.Payload) == s.Tag {
					got = append(got, pk)
				}
			}
			retainedLater := false
			if late != nil {
				for _, pk := range late.Got {
					if pk.Type == refmqtt.PUBLISH && hist.TagOf(pk.Payload) == s.Tag {
						retainedLater = true
					}
				}
			}
			closedNow := pp.ClosedAt == s.I
			switch {
			case al > T:
				r.Label("inbound-alias-above-maximum")
				r.NonTrivial(fmt.Sprintf("%s|in|%d", caseKey(c), s.I))
				if len(got) > 0 {
					ds = append(ds, evid.D("C24-inbound-alias-above-maximum-routed", "%s: alias exceeds the server maximum, yet the message was delivered on %q", desc, got[0].Topic))
				}
				if retainedLater {
					ds = append(ds, evid.D("C24-inbound-alias-above-maximum-retained", "%s: alias exceeds the server maximum, yet the message was retained", desc))
				}
				if !closedNow {
					ds = append(ds, evid.D("C24-inbound-alias-above-maximum-not-rejected", "%s: the connection stayed open (expected DISCONNECT 0x94 / close)", desc))
				} else {
					for _, o := range s.Obs {
						if o.Peer == pp.ID && o.P.Type == refmqtt.DISCONNECT && o.P.ReasonCode != 0x94 {
							ds = append(ds, evid.D("C24-inbound-alias-above-maximum-wrong-reason", "%s: DISCONNECT reason 0x%02X, expected 0x94", desc, o.P.ReasonCode))
						}
					}
				}
			case topic == "" && al > 0 && tb[al] == "":
				r.Label("inbound-unbound-alias")
				r.NonTrivial(fmt.Sprintf("%s|in|%d", caseKey(c), s.I))
				if len(got) > 0 {
					ds = append(ds, evid.D("C24-inbound-unbound-alias-routed", "%s: the alias was never bound on this connection, yet the message was delivered on %q", desc, got[0].Topic))
				}
				if retainedLater {
					ds = append(ds, evid.D("C24-inbound-unbound-alias-retained", "%s: the alias was never bound on this connection, yet the message was retained", desc))
				}
			case topic == "" && al == 0:
				// empty topic without alias: malformed, not this property's subject (C27/C28)
			default:
				want := topic
				if topic == "" {
					want = tb[al]
					r.Label("inbound-alias-only-publish")
					r.NonTrivial(fmt.Sprintf("%s|in|%d", caseKey(c), s.I))
				} else if al > 0 {
					if old, ok := tb[al]; ok && old != topic {
						r.Label("inbound-rebind")
					}
					tb[al] = topic
				}
				switch {
				case len(got) == 0 && !closedNow:
					ds = append(ds, evid.D("C24-inbound-valid-alias-publish-not-routed", "%s: expected delivery on %q, the observer received nothing", desc, want))
				case len(got) > 0 && got[0].Topic != want:
					ds = append(ds, evid.D("C24-inbound-alias-resolved-to-wrong-topic", "%s: delivered on %q, expected %q (the topic last bound to the alias on this connection)", desc, got[0].Topic, want))
				}
				if s.A.Retain && len(got) > 0 {
					expectRetained[want] = s.Tag
				}
			}
		}
		if late != nil && late.Established() && !late.BlindAt(1<<30) {
			for _, pk := range late.Got {
				if pk.Type != refmqtt.PUBLISH {
					continue
				}
				tag := hist.TagOf(pk.Payload)
				if expectRetained[pk.Topic] != tag {
					ds = append(ds, evid.D("C24-inbound-retained-under-wrong-topic", "the late subscriber received m%d as retained on %q; the model's retained message there is m%d", tag, pk.Topic, expectRetained[pk.Topic]))
				}
			}
		}
	}
	return withTranscript(ds, run)
}

// c24Cause classifies why an alias-only PUBLISH could not be resolved (signature suffix).
func c24Cause(run *hist.Run, p *hist.Peer, i int, ti *hist.TagInfo) string {
	st := run.Steps[p.GotStep[i]]
	if st.A.Kind == "connect" && st.Peer == p.ID {
		return "-resent-after-reconnect"
	}
	if ti != nil && ti.Step < p.OpenedAt {
		return "-queued-before-this-connection"
	}
	// was an earlier message on the same topic, published while this connection was open, never received here
	// (refused by the client's packet size limit, or dropped on a full write queue)? Then the broker bound the alias
	// to a PUBLISH it never sent.
	if ti != nil {
		for tag, tj := range run.Tags {
			if tj.Topic != ti.Topic || tj.Step < p.OpenedAt || tj.Step > ti.Step || tag == ti.Tag {
				continue
			}
			seen := false
			for _, pk := range p.Got[:i] {
				if pk.Type == refmqtt.PUBLISH && hist.TagOf(pk.Payload) == tag {
					seen = true
				}
			}
			if !seen {
				return "-binding-publish-dropped"
			}
		}
	}
	return "-no-binding-publish-at-all"
}

func c24GenOutbound(rt *rapid.T) *hist.Case {
	c := &hist.Case{}
	c.Cfg.ClientPIDBase = 1000
	if rapid.IntRange(0, 2).Draw(rt, "small-queue") == 0 {
		c.Cfg.WritesPending = int32(pick(rt, "writes-pending", []int{1, 2, 4}))
	}
	tam := pick(rt, "tam", []uint16{0, 1, 2, 5})
	var recv *uint16
	if v := pick(rt, "recvmax", []uint16{0, 0, 1, 2}); v > 0 {
		recv = &v
	}
	var maxpkt *uint32
	if v := pick(rt, "maxpkt", []uint32{0, 0, 40}); v > 0 {
		maxpkt = &v
	}
	exp := uint32(300)
	auto := rapid.IntRange(0, 2).Draw(rt, "autoack") != 0
	sconn := func() hist.Action {
		a := hist.Action{Kind: "connect", Client: 0, Version: 5, Clean: false, Expiry: &exp, RecvMax: recv, MaxPkt: maxpkt, AutoAck: auto}
		if tam > 0 {
			t := tam
			a.TAM = &t
		}
		return a
	}
	topics := []string{"o/a", "o/b", "o/c", "o/d"}
	c.Actions = append(c.Actions, hist.Action{Kind: "connect", Client: 1, Version: 4, Clean: true, AutoAck: true}, sconn(),
		hist.Action{Kind: "subscribe", Client: 0, Filters: []refmqtt.Filter{{Filter: "o/#", QoS: byte(rapid.IntRange(0, 2).Draw(rt, "subq"))}}})
	action := rapid.Custom(func(rt *rapid.T) hist.Action {
		switch rapid.IntRange(0, 11).Draw(rt, "kind") {
		case 0, 1, 2, 3, 4:
			a := hist.Action{Kind: "publish", Client: 1, Topic: pick(rt, "topic", topics), QoS: byte(rapid.IntRange(0, 2).Draw(rt, "pq"))}
			if rapid.IntRange(0, 3).Draw(rt, "big") == 0 {
				a.Pad = 60
			}
			return a
		case 5:
			return hist.Action{Kind: "burst", Burst: []hist.BurstItem{{Client: 1, Topic: pick(rt, "btopic", topics), QoS: byte(rapid.IntRange(0, 1).Draw(rt, "bq")), Count: rapid.IntRange(2, 6).Draw(rt, "bn"), Pads: []int{0, 60, 0}}}}
		case 6, 7:
			return hist.Action{Kind: "ack", Client: 0, Index: rapid.IntRange(0, 3).Draw(rt, "idx")}
		case 8:
			return hist.Action{Kind: pick(rt, "how", []string{"drop", "disconnect"}), Client: 0}
		case 9, 10:
			return sconn()
		default:
			return hist.Action{Kind: "drain", Client: 0}
		}
	})
	c.Actions = append(c.Actions, rapid.SliceOfN(action, 4, 30).Draw(rt, "actions")...)
	c.Actions = append(c.Actions, sconn(), hist.Action{Kind: "drain", Client: 0})
	return c
}

func c24GenInbound(rt *rapid.T) *hist.Case {
	c := &hist.Case{}
	c.Cfg.ClientPIDBase = 1000
	T := pick(rt, "server-tam", []uint16{0, 2, 2, 65535})
	c.Cfg.TopicAliasMaximum = &T
	topics := []string{"i/a", "i/b", "i/c"}
	// the publisher's session is persistent in half of the histories, so that reconnects resume or take over the
	// session (seeded change C24-e: the inbound table inherited with the session); the table is still per connection
	pexp := uint32(1000)
	persistent := rapid.Bool().Draw(rt, "publisher-persistent")
	pconnOf := func(clean bool) hist.Action {
		a := hist.Action{Kind: "connect", Client: 0, Version: 5, Clean: clean, AutoAck: true}
		if persistent {
			a.Expiry = &pexp
		}
		return a
	}
	pconn := pconnOf(true)
	c.Actions = append(c.Actions, hist.Action{Kind: "connect", Client: 1, Version: 4, Clean: true, AutoAck: true},
		hist.Action{Kind: "subscribe", Client: 1, Filters: []refmqtt.Filter{{Filter: "#", QoS: 2}}}, pconn)
	action := rapid.Custom(func(rt *rapid.T) hist.Action {
		switch rapid.IntRange(0, 9).Draw(rt, "kind") {
		case 0, 1, 2: // bind or rebind
			return hist.Action{Kind: "publish", Client: 0, Topic: pick(rt, "topic", topics), Alias: pick(rt, "alias", []uint16{1, 1, 1, 1, 2, 2, 2, 3, 70}), QoS: byte(rapid.IntRange(0, 2).Draw(rt, "q")), Retain: rapid.IntRange(0, 2).Draw(rt, "retain") == 0}
		case 3, 4, 5, 6: // alias-only
			return hist.Action{Kind: "publish", Client: 0, Topic: "i/unused", NoTopic: true, Alias: pick(rt, "alias", []uint16{1, 1, 1, 1, 2, 2, 2, 3, 70}), QoS: byte(rapid.IntRange(0, 2).Draw(rt, "q")), Retain: rapid.IntRange(0, 2).Draw(rt, "retain") == 0}
		case 7: // plain
			return hist.Action{Kind: "publish", Client: 0, Topic: pick(rt, "topic", topics), QoS: byte(rapid.IntRange(0, 1).Draw(rt, "q")), Retain: rapid.IntRange(0, 2).Draw(rt, "retain") == 0}
		case 8:
			return pconnOf(!persistent || rapid.IntRange(0, 3).Draw(rt, "clean") == 0)
		default:
			return hist.Action{Kind: "drop", Client: 0}
		}
	})
	c.Actions = append(c.Actions, rapid.SliceOfN(action, 3, 20).Draw(rt, "actions")...)
	c.Actions = append(c.Actions, hist.Action{Kind: "connect", Client: 2, Version: 4, Clean: true, AutoAck: true},
		hist.Action{Kind: "subscribe", Client: 2, Filters: []refmqtt.Filter{{Filter: "#", QoS: 2}}})
	return c
}

func TestC24(t *testing.T) {
	r := evid.New("C24", "rapid, two classes. Outbound: a v5 subscriber with Topic Alias Maximum 0/1/2/5 (fewer aliases than topics), Receive Maximum absent/1/2, Maximum Packet Size absent/40, server write queue default/1/2/4; publishes and bursts on 4 topics (QoS 0-2, padded beyond the packet size limit), manual and automatic acknowledgement, drops / disconnects / reconnects with session present while messages are queued. Oracle on every PUBLISH of every connection: topic non-empty, or an alias bound by an earlier PUBLISH on the same connection to the topic the message was published on; alias <= client maximum, none with maximum 0. Inbound: server Topic Alias Maximum 0/2/65535; a v5 publisher binds, rebinds, sends alias-only publishes with bound / unbound / too-large aliases (QoS 0-2, retain), reconnects; an observer on '#' and a late retained-store reader. Oracle: alias above the server maximum -> not routed, not retained, DISCONNECT 0x94 / closed; unbound alias with empty topic -> not routed, not retained; otherwise delivered on the topic last bound on that connection; tables do not survive reconnection, resumed or taken-over sessions included (the publisher's session is persistent in half of the histories). Non-trivial = an alias-only PUBLISH was observed outbound or sent inbound; distinct by (history, position)")
	defer r.Finish(t)
	if evid.ReplayMode() {
		evid.Replay(t, r, replayPath(), c24Check)
		return
	}
	evid.Run(t, r, func(rt *rapid.T) *hist.Case {
		var c *hist.Case
		if rapid.Bool().Draw(rt, "inbound") {
			c = c24GenInbound(rt)
		} else {
			c = c24GenOutbound(rt)
		}
		r.Sample(c.Summary())
		return c
	}, c24Check)
}
