package props

import (
	"fmt"
	"strings"
	"testing"

	"pgregory.net/rapid"
	"verif/harness/evid"
	"verif/harness/hist"
	"verif/harness/refmqtt"
)

// ---- C19: hook chain results are honoured consistently -----------------------------------------------------
//
// Clients: c0 = P (publisher, generated version), c1 = S (v5, '#' QoS 2, acknowledges at once), c2 = L (late
// subscriber to '#', connects at the end and sees the retained store). Every publish uses its own topic t/<n>.

type c19Expect struct {
	calls     []string // expected hook calls for this publish: "<hook>:<event>:<input payload>"
	delivered bool
	payload   string
	why       string
}

// c19Predict evaluates the scripted chain for one publish with payload base.
func c19Predict(scripts []hist.Script, base string) c19Expect {
	e := c19Expect{delivered: true}
	cur := base
	for i, sc := range scripts {
		if sc.OnPacketRead == "" {
			continue
		}
		e.calls = append(e.calls, fmt.Sprintf("%d:read:%s", i, cur))
		switch sc.OnPacketRead {
		case "modify":
			cur += "~" + sc.Name
		case "reject":
			e.delivered, e.why = false, fmt.Sprintf("hook %d (%s) rejected the packet on read", i, sc.Name)
			return e
		}
	}
	for i, sc := range scripts {
		if sc.OnPublish == "" {
			continue
		}
		e.calls = append(e.calls, fmt.Sprintf("%d:publish:%s", i, cur))
		switch sc.OnPublish {
		case "modify":
			cur += "+" + sc.Name
		case "pass":
		default:
			e.delivered, e.why = false, fmt.Sprintf("publish hook %d (%s) answered %q", i, sc.Name, sc.OnPublish)
			return e
		}
	}
	e.payload = cur
	return e
}

func c19Check(c *hist.Case, r *evid.Rec) []evid.Disc {
	run := runCase(c, r)
	if run == nil {
		return nil
	}
	var ds []evid.Disc
	scripts := c.Cfg.Scripts
	admitted, aclOK, refusedBy := false, false, ""
	for _, sc := range scripts {
		if sc.Auth == "allow" {
			admitted = true
		}
		if sc.OnConnect == "refuse" {
			refusedBy = sc.Name
		}
		if sc.ACL == "allow" {
			aclOK = true
		}
	}
	// (1) admission: any authentication hook allowing admits; none allowing refuses; an OnConnect hook that returns an
	// error refuses whatever the hooks registered after it say
	if refusedBy != "" {
		r.Label("connect-refused-by-a-hook")
		for _, p := range run.Peers {
			if p.Established() {
				ds = append(ds, evid.D("C19-admitted-although-an-OnConnect-hook-refused", "%s#%d received a success CONNACK although OnConnect of hook %s returned an error; scripts %s", p.CID, p.ID, refusedBy, c19Scripts(scripts)))
			}
		}
		if len(scripts) >= 2 {
			r.NonTrivial("refuse|" + c19Scripts(scripts))
		}
		return withTranscript(ds, run)
	}
	for _, p := range run.Peers {
		if p.Connack == nil {
			if admitted {
				ds = append(ds, evid.D("C19-no-connack", "%s#%d never received a CONNACK", p.CID, p.ID))
			}
			continue
		}
		if p.Established() != admitted {
			sig := "C19-admitted-although-no-auth-hook-allows"
			if admitted {
				sig = "C19-refused-although-an-auth-hook-allows"
			}
			ds = append(ds, evid.D(sig, "%s#%d: CONNACK code 0x%02X; authentication scripts %s", p.CID, p.ID, p.Connack.ReasonCode, c19Scripts(scripts)))
		}
	}
	if !admitted {
		r.Label("nobody-admitted")
		return withTranscript(ds, run)
	}
	var S, L *hist.Peer
	for _, p := range run.Peers {
		if p.Client == 1 && S == nil {
			S = p
		}
		if p.Client == 2 {
			L = p
		}
	}
	if S == nil || S.BlindAt(1<<30) || (L != nil && L.BlindAt(1<<30)) {
		r.NotAsserted()
		return nil
	}
	// (2) per publish: hook call sequence, delivery, retained store
	for _, s := range run.Steps {
		if s.A.Kind != "publish" || s.Skipped || s.Tag == 0 {
			continue
		}
		ti := run.Tags[s.Tag]
		base := string(hist.TagPayload(s.Tag))
		exp := c19Predict(scripts, base)
		if !aclOK {
			exp = c19Expect{delivered: false, why: "no access-control hook allows the publish"}
		}
		desc := fmt.Sprintf("step %d: %s (v%d) published m%d on %q q%d retain=%v; scripts %s", s.I, ti.CID, ti.Version, s.Tag, ti.Topic, ti.QoS, ti.Retain, c19Scripts(scripts))
		// hook calls logged during this step for this message
		var calls []string
		for _, hc := range run.HookLog {
			if hc.Step == s.I && (hc.Event == "read" || hc.Event == "publish") && hist.TagOf([]byte(hc.Payload)) == s.Tag {
				calls = append(calls, fmt.Sprintf("%d:%s:%s", hc.Hook, hc.Event, hc.Payload))
			}
		}
		if aclOK && strings.Join(calls, " ") != strings.Join(exp.calls, " ") {
			sig := "C19-hook-call-sequence"
			if len(calls) > len(exp.calls) {
				sig = "C19-hook-ran-after-chain-was-stopped"
			}
			ds = append(ds, evid.D(sig, "%s: hook calls (hook:event:input) were [%s], expected [%s]", desc, strings.Join(calls, " "), strings.Join(exp.calls, " ")))
		}
		// live delivery at S (any step: nothing may arrive later either)
		var got []*refmqtt.Packet
		for _, pk := range S.Got {
			if pk.Type == refmqtt.PUBLISH && hist.TagOf(pk.Payload) == s.Tag && !pk.Dup {
				got = append(got, pk)
			}
		}
		var late []*refmqtt.Packet
		if L != nil {
			for _, pk := range L.Got {
				if pk.Type == refmqtt.PUBLISH && hist.TagOf(pk.Payload) == s.Tag && !pk.Dup {
					late = append(late, pk)
				}
			}
		}
		cls := fmt.Sprintf("v%d-q%d", ti.Version, ti.QoS)
		if exp.delivered {
			r.Label("delivered/" + cls)
			switch {
			case len(got) == 0:
				ds = append(ds, evid.D("C19-passed-publish-not-delivered", "%s: every hook passed it, but the subscriber received nothing", desc))
			case len(got) > 1:
				ds = append(ds, evid.D("C19-delivered-twice", "%s: delivered %d times", desc, len(got)))
			case string(got[0].Payload) != exp.payload:
				ds = append(ds, evid.D("C19-modification-chain", "%s: delivered payload %q, expected %q (each hook's output feeds the next, in registration order)", desc, got[0].Payload, exp.payload))
			}
			if L != nil && L.Established() {
				switch {
				case ti.Retain && len(late) == 0:
					ds = append(ds, evid.D("C19-passed-retained-publish-not-retained", "%s: not found in the retained store by a later subscriber", desc))
				case ti.Retain && string(late[0].Payload) != exp.payload:
					ds = append(ds, evid.D("C19-modification-chain-retained", "%s: retained payload %q, expected %q", desc, late[0].Payload, exp.payload))
				case !ti.Retain && len(late) > 0:
					ds = append(ds, evid.D("C19-retained-without-retain-flag", "%s: a later subscriber received it", desc))
				}
			}
		} else {
			r.Label("stopped/" + cls)
			kind := "stopped"
			switch {
			case !aclOK:
				kind = "acl-denied"
			case strings.Contains(exp.why, "on read"):
				kind = "read-rejected"
			default:
				for _, sc := range scripts {
					if sc.OnPublish != "" && sc.OnPublish != "pass" && sc.OnPublish != "modify" {
						kind = sc.OnPublish
						break
					}
				}
			}
			if len(got) > 0 {
				ds = append(ds, evid.D(fmt.Sprintf("C19-forwarded-although-%s-%s", kind, verClass(ti.Version, ti.QoS)), "%s: %s, yet the subscriber received it (payload %q)", desc, exp.why, got[0].Payload))
			}
			if len(late) > 0 {
				ds = append(ds, evid.D(fmt.Sprintf("C19-retained-although-%s-%s", kind, verClass(ti.Version, ti.QoS)), "%s: %s, yet a later subscriber received it as a retained message", desc, exp.why))
			}
		}
		nonpass := 0
		for _, sc := range scripts {
			if (sc.OnPublish != "" && sc.OnPublish != "pass") || (sc.OnPacketRead != "" && sc.OnPacketRead != "pass") {
				nonpass++
			}
		}
		if len(scripts) >= 2 && nonpass > 0 {
			r.NonTrivial(fmt.Sprintf("%s|%s|v%d|q%d|r%v", c19Scripts(scripts), ti.Topic, ti.Version, ti.QoS, ti.Retain))
		}
	}
	// (3) ACL: the subscriber's subscription is granted iff some access-control hook allows
	for _, s := range run.Steps {
		if s.A.Kind == "subscribe" && !s.Skipped && s.Peer >= 0 {
			for _, o := range s.Obs {
				if o.Peer == s.Peer && o.P.Type == refmqtt.SUBACK && len(o.P.ReasonCodes) > 0 {
					granted := o.P.ReasonCodes[0] < 0x80
					if granted != aclOK {
						sig := "C19-access-granted-although-no-acl-hook-allows"
						if aclOK {
							sig = "C19-access-refused-although-an-acl-hook-allows"
						}
						ds = append(ds, evid.D(sig, "step %d: SUBACK code 0x%02X; access-control scripts %s", s.I, o.P.ReasonCodes[0], c19Scripts(scripts)))
					}
				}
			}
		}
	}
	if !aclOK {
		r.Label("no-acl-hook-allows")
	}
	return withTranscript(ds, run)
}

func verClass(v, q byte) string {
	if v == 5 && q > 0 {
		return "v5-qos>0"
	}
	if v == 5 {
		return "v5-qos0"
	}
	if q > 0 {
		return "v3-qos>0"
	}
	return "v3-qos0"
}

func c19Scripts(ss []hist.Script) string {
	var out []string
	for _, sc := range ss {
		out = append(out, fmt.Sprintf("%s{read=%s pub=%s auth=%s acl=%s connect=%s}", sc.Name, dash(sc.OnPacketRead), dash(sc.OnPublish), dash(sc.Auth), dash(sc.ACL), dash(sc.OnConnect)))
	}
	return "[" + strings.Join(out, " ") + "]"
}

func dash(s string) string {
	if s == "" {
		return "-"
	}
	return s
}

func c19Gen(rt *rapid.T) *hist.Case {
	c := &hist.Case{}
	c.Cfg.ClientPIDBase = 1000
	c.Cfg.Auth = "none"
	n := rapid.IntRange(1, 3).Draw(rt, "nhooks")
	names := []string{"h1", "h2", "h3"}
	anyAuth, anyACL := false, false
	for i := 0; i < n; i++ {
		sc := hist.Script{Name: names[i]}
		sc.OnPublish = pick(rt, "onpublish", []string{"", "pass", "pass", "modify", "modify", "modify", "reject", "ignore", "code", "error"})
		sc.OnPacketRead = pick(rt, "onread", []string{"", "", "pass", "modify", "modify", "reject", "error"})
		sc.Auth = pick(rt, "auth", []string{"", "allow", "allow", "deny"})
		sc.ACL = pick(rt, "acl", []string{"", "allow", "allow", "deny"})
		anyAuth = anyAuth || sc.Auth == "allow"
		anyACL = anyACL || sc.ACL == "allow"
		c.Cfg.Scripts = append(c.Cfg.Scripts, sc)
	}
	if rapid.IntRange(0, 7).Draw(rt, "connect-hooks") == 0 {
		// OnConnect hooks: all pass, except that (usually) one of them refuses - the others may come before or after it
		for i := range c.Cfg.Scripts {
			c.Cfg.Scripts[i].OnConnect = pick(rt, "onconnect", []string{"", "pass", "pass"})
		}
		if rapid.IntRange(0, 3).Draw(rt, "refuse") != 0 {
			c.Cfg.Scripts[rapid.IntRange(0, n-1).Draw(rt, "which-refuses")].OnConnect = "refuse"
		}
	}
	// most cases keep the broker usable: make the last hook allow what nobody allows (the rest stay as drawn)
	if !anyAuth && rapid.IntRange(0, 7).Draw(rt, "keep-unauth") != 0 {
		c.Cfg.Scripts[rapid.IntRange(0, n-1).Draw(rt, "which-auth")].Auth = "allow"
	}
	if !anyACL && rapid.IntRange(0, 7).Draw(rt, "keep-noacl") != 0 {
		c.Cfg.Scripts[rapid.IntRange(0, n-1).Draw(rt, "which-acl")].ACL = "allow"
	}
	pv := pick(rt, "pub-version", []byte{3, 4, 5, 5})
	c.Actions = append(c.Actions,
		hist.Action{Kind: "connect", Client: 1, Version: 5, Clean: true, AutoAck: true},
		hist.Action{Kind: "subscribe", Client: 1, Filters: []refmqtt.Filter{{Filter: "#", QoS: 2}}},
		hist.Action{Kind: "connect", Client: 0, Version: pv, Clean: true, AutoAck: true})
	np := rapid.IntRange(1, 6).Draw(rt, "npub")
	for i := 0; i < np; i++ {
		c.Actions = append(c.Actions, hist.Action{Kind: "publish", Client: 0, Topic: fmt.Sprintf("t/%d", i), QoS: byte(rapid.IntRange(0, 2).Draw(rt, "q")), Retain: rapid.Bool().Draw(rt, "retain")})
	}
	c.Actions = append(c.Actions, hist.Action{Kind: "ping", Client: 0},
		hist.Action{Kind: "connect", Client: 2, Version: 4, Clean: true, AutoAck: true},
		hist.Action{Kind: "subscribe", Client: 2, Filters: []refmqtt.Filter{{Filter: "#", QoS: 2}}})
	return c
}

func TestC19(t *testing.T) {
	r := evid.New("C19", "rapid: a stack of 1-3 scripted hooks registered in order (no other auth hook); each has a fixed script per event: OnPublish in {not provided, pass, modify (append '+name'), ErrRejectPacket, CodeSuccessIgnore, a packets.Code error, a plain Go error}, OnPacketRead in {not provided, pass, modify (append '~name'), ErrRejectPacket, a plain error (that hook's output is set aside, the chain continues with the previous hook's output)}, OnConnectAuthenticate and OnACLCheck in {not provided, allow, deny}, in one case in eight OnConnect in {not provided, pass, returns an error}; a publisher (v3.1 / v3.1.1 / v5) sends 1-6 publishes (QoS 0-2, retain 0/1, one topic each) to a v5 QoS 2 subscriber; a later subscriber reads the retained store. Every hook logs (order, input). Oracle: logged calls == registration order, each hook's input == previous hook's output, nothing runs after a stop; no stop -> delivered once with the chained payload and retained iff retain; reject / ignore / code error / plain error at any hook, or a read reject -> never forwarded and never retained, for every version and QoS; CONNACK success <=> some auth hook allows and no OnConnect hook returned an error; SUBACK success <=> some ACL hook allows. Non-trivial = at least 2 hooks and a non-pass script on a publish; distinct by (scripts, publish parameters)")
	defer r.Finish(t)
	if evid.ReplayMode() {
		evid.Replay(t, r, replayPath(), c19Check)
		return
	}
	evid.Run(t, r, func(rt *rapid.T) *hist.Case {
		c := c19Gen(rt)
		r.Sample(append([]string{c19Scripts(c.Cfg.Scripts)}, c.Summary()...))
		return c
	}, c19Check)
}
