package props

import (
	"bytes"
	"fmt"

	"github.com/mochi-mqtt/server/v2/packets"
	"verif/harness/refmqtt"
)

// Mapping between the reference codec's abstract packet and mochi's packets.Packet, plus mirrors of the
// broker's own read path (Client.ReadFixedHeader/ReadPacket) and write path (Client.WritePacket's switch).

func ptr[T any](v T) *T { return &v }

func propsToMochi(p *refmqtt.Props) packets.Properties {
	var m packets.Properties
	if p.PayloadFormat != nil {
		m.PayloadFormat, m.PayloadFormatFlag = *p.PayloadFormat, true
	}
	if p.MessageExpiry != nil {
		m.MessageExpiryInterval = *p.MessageExpiry
	}
	if p.ContentType != nil {
		m.ContentType = *p.ContentType
	}
	if p.ResponseTopic != nil {
		m.ResponseTopic = *p.ResponseTopic
	}
	m.CorrelationData = p.CorrelationData
	for _, s := range p.SubscriptionIDs {
		m.SubscriptionIdentifier = append(m.SubscriptionIdentifier, int(s))
	}
	if p.SessionExpiry != nil {
		m.SessionExpiryInterval, m.SessionExpiryIntervalFlag = *p.SessionExpiry, true
	}
	if p.AssignedClientID != nil {
		m.AssignedClientID = *p.AssignedClientID
	}
	if p.ServerKeepAlive != nil {
		m.ServerKeepAlive, m.ServerKeepAliveFlag = *p.ServerKeepAlive, true
	}
	if p.AuthMethod != nil {
		m.AuthenticationMethod = *p.AuthMethod
	}
	m.AuthenticationData = p.AuthData
	if p.RequestProblemInfo != nil {
		m.RequestProblemInfo, m.RequestProblemInfoFlag = *p.RequestProblemInfo, true
	}
	if p.WillDelay != nil {
		m.WillDelayInterval = *p.WillDelay
	}
	if p.RequestRespInfo != nil {
		m.RequestResponseInfo = *p.RequestRespInfo
	}
	if p.ResponseInfo != nil {
		m.ResponseInfo = *p.ResponseInfo
	}
	if p.ServerReference != nil {
		m.ServerReference = *p.ServerReference
	}
	if p.ReasonString != nil {
		m.ReasonString = *p.ReasonString
	}
	if p.ReceiveMaximum != nil {
		m.ReceiveMaximum = *p.ReceiveMaximum
	}
	if p.TopicAliasMaximum != nil {
		m.TopicAliasMaximum = *p.TopicAliasMaximum
	}
	if p.TopicAlias != nil {
		m.TopicAlias, m.TopicAliasFlag = *p.TopicAlias, true
	}
	if p.MaximumQoS != nil {
		m.MaximumQos, m.MaximumQosFlag = *p.MaximumQoS, true
	}
	if p.RetainAvailable != nil {
		m.RetainAvailable, m.RetainAvailableFlag = *p.RetainAvailable, true
	}
	for _, kv := range p.User {
		m.User = append(m.User, packets.UserProperty{Key: kv.K, Val: kv.V})
	}
	if p.MaximumPacketSize != nil {
		m.MaximumPacketSize = *p.MaximumPacketSize
	}
	if p.WildcardSubAvail != nil {
		m.WildcardSubAvailable, m.WildcardSubAvailableFlag = *p.WildcardSubAvail, true
	}
	if p.SubIDAvail != nil {
		m.SubIDAvailable, m.SubIDAvailableFlag = *p.SubIDAvail, true
	}
	if p.SharedSubAvail != nil {
		m.SharedSubAvailable, m.SharedSubAvailableFlag = *p.SharedSubAvail, true
	}
	return m
}

// propsFromMochi maps back under the stated equivalence: a property whose mochi representation is its zero value
// and that has no presence flag is "absent".
func propsFromMochi(m *packets.Properties) refmqtt.Props {
	var p refmqtt.Props
	if m.PayloadFormatFlag {
		p.PayloadFormat = ptr(m.PayloadFormat)
	}
	if m.MessageExpiryInterval != 0 {
		p.MessageExpiry = ptr(m.MessageExpiryInterval)
	}
	if m.ContentType != "" {
		p.ContentType = ptr(m.ContentType)
	}
	if m.ResponseTopic != "" {
		p.ResponseTopic = ptr(m.ResponseTopic)
	}
	if len(m.CorrelationData) > 0 {
		p.CorrelationData = append([]byte{}, m.CorrelationData...)
	}
	for _, s := range m.SubscriptionIdentifier {
		p.SubscriptionIDs = append(p.SubscriptionIDs, uint32(s))
	}
	if m.SessionExpiryIntervalFlag {
		p.SessionExpiry = ptr(m.SessionExpiryInterval)
	}
	if m.AssignedClientID != "" {
		p.AssignedClientID = ptr(m.AssignedClientID)
	}
	if m.ServerKeepAliveFlag {
		p.ServerKeepAlive = ptr(m.ServerKeepAlive)
	}
	if m.AuthenticationMethod != "" {
		p.AuthMethod = ptr(m.AuthenticationMethod)
	}
	if len(m.AuthenticationData) > 0 {
		p.AuthData = append([]byte{}, m.AuthenticationData...)
	}
	if m.RequestProblemInfoFlag {
		p.RequestProblemInfo = ptr(m.RequestProblemInfo)
	}
	if m.WillDelayInterval != 0 {
		p.WillDelay = ptr(m.WillDelayInterval)
	}
	if m.RequestResponseInfo != 0 {
		p.RequestRespInfo = ptr(m.RequestResponseInfo)
	}
	if m.ResponseInfo != "" {
		p.ResponseInfo = ptr(m.ResponseInfo)
	}
	if m.ServerReference != "" {
		p.ServerReference = ptr(m.ServerReference)
	}
	if m.ReasonString != "" {
		p.ReasonString = ptr(m.ReasonString)
	}
	if m.ReceiveMaximum != 0 {
		p.ReceiveMaximum = ptr(m.ReceiveMaximum)
	}
	if m.TopicAliasMaximum != 0 {
		p.TopicAliasMaximum = ptr(m.TopicAliasMaximum)
	}
	if m.TopicAliasFlag {
		p.TopicAlias = ptr(m.TopicAlias)
	}
	if m.MaximumQosFlag {
		p.MaximumQoS = ptr(m.MaximumQos)
	}
	if m.RetainAvailableFlag {
		p.RetainAvailable = ptr(m.RetainAvailable)
	}
	for _, kv := range m.User {
		p.User = append(p.User, refmqtt.KV{K: kv.Key, V: kv.Val})
	}
	if m.MaximumPacketSize != 0 {
		p.MaximumPacketSize = ptr(m.MaximumPacketSize)
	}
	if m.WildcardSubAvailableFlag {
		p.WildcardSubAvail = ptr(m.WildcardSubAvailable)
	}
	if m.SubIDAvailableFlag {
		p.SubIDAvail = ptr(m.SubIDAvailable)
	}
	if m.SharedSubAvailableFlag {
		p.SharedSubAvail = ptr(m.SharedSubAvailable)
	}
	return p
}

func toMochi(p *refmqtt.Packet) packets.Packet {
	m := packets.Packet{ProtocolVersion: p.Version}
	m.FixedHeader = packets.FixedHeader{Type: p.Type, Dup: p.Dup, Qos: p.QoS, Retain: p.Retain}
	if p.Type == refmqtt.PUBREL || p.Type == refmqtt.SUBSCRIBE || p.Type == refmqtt.UNSUBSCRIBE {
		m.FixedHeader.Qos = 1
	}
	m.PacketID = p.PacketID
	m.Properties = propsToMochi(&p.Props)
	switch p.Type {
	case refmqtt.CONNECT:
		m.ProtocolVersion = p.Level
		m.Connect = packets.ConnectParams{ProtocolName: []byte(p.ProtocolName), Clean: p.CleanStart, Keepalive: p.KeepAlive, ClientIdentifier: p.ClientID,
			WillFlag: p.WillFlag, WillQos: p.WillQoS, WillRetain: p.WillRetain, WillTopic: p.WillTopic, WillPayload: p.WillPayload,
			UsernameFlag: p.UsernameFlag, PasswordFlag: p.PasswordFlag, Username: p.Username, Password: p.Password}
		m.Connect.WillProperties = propsToMochi(&p.WillProps)
		if p.ReservedFlag {
			m.ReservedBit = 1
		}
	case refmqtt.CONNACK:
		m.SessionPresent = p.SessionPresent
		m.ReasonCode = p.ReasonCode
	case refmqtt.PUBLISH:
		m.TopicName = p.Topic
		m.Payload = p.Payload
	case refmqtt.PUBACK, refmqtt.PUBREC, refmqtt.PUBREL, refmqtt.PUBCOMP, refmqtt.DISCONNECT, refmqtt.AUTH:
		m.ReasonCode = p.ReasonCode
	case refmqtt.SUBACK, refmqtt.UNSUBACK:
		m.ReasonCodes = p.ReasonCodes
	case refmqtt.SUBSCRIBE, refmqtt.UNSUBSCRIBE:
		for _, f := range p.Filters {
			m.Filters = append(m.Filters, packets.Subscription{Filter: f.Filter, Qos: f.QoS, NoLocal: f.NoLocal, RetainAsPublished: f.RAP, RetainHandling: f.RH})
		}
	}
	return m
}

func fromMochi(m *packets.Packet, version byte) *refmqtt.Packet {
	p := &refmqtt.Packet{Type: m.FixedHeader.Type, Version: version, PacketID: m.PacketID}
	if version == 5 || (m.FixedHeader.Type == packets.Connect && m.ProtocolVersion == 5) {
		p.Props = propsFromMochi(&m.Properties)
	}
	switch m.FixedHeader.Type {
	case packets.Connect:
		c := m.Connect
		p.ProtocolName, p.Level, p.CleanStart, p.KeepAlive, p.ClientID = string(c.ProtocolName), m.ProtocolVersion, c.Clean, c.Keepalive, c.ClientIdentifier
		p.Version = 4
		if p.Level == 5 {
			p.Version = 5
		} else if p.Level == 3 {
			p.Version = 3
		}
		p.ReservedFlag = m.ReservedBit != 0
		p.WillFlag, p.WillQoS, p.WillRetain, p.WillTopic, p.WillPayload = c.WillFlag, c.WillQos, c.WillRetain, c.WillTopic, c.WillPayload
		p.UsernameFlag, p.PasswordFlag, p.Username, p.Password = c.UsernameFlag, c.PasswordFlag, c.Username, c.Password
		if p.Level == 5 {
			p.WillProps = propsFromMochi(&c.WillProperties)
		}
		p.PacketID = 0
	case packets.Connack:
		p.SessionPresent, p.ReasonCode = m.SessionPresent, m.ReasonCode
		p.PacketID = 0
	case packets.Publish:
		p.Dup, p.QoS, p.Retain = m.FixedHeader.Dup, m.FixedHeader.Qos, m.FixedHeader.Retain
		p.Topic, p.Payload = m.TopicName, m.Payload
	case packets.Puback, packets.Pubrec, packets.Pubrel, packets.Pubcomp:
		if version == 5 {
			p.ReasonCode = m.ReasonCode
		}
	case packets.Disconnect, packets.Auth:
		if version == 5 {
			p.ReasonCode = m.ReasonCode
		}
		p.PacketID = 0
	case packets.Suback:
		p.ReasonCodes = m.ReasonCodes
	case packets.Unsuback:
		if version == 5 {
			p.ReasonCodes = m.ReasonCodes
		}
	case packets.Subscribe:
		for _, f := range m.Filters {
			rf := refmqtt.Filter{Filter: f.Filter, QoS: f.Qos}
			if version == 5 {
				rf.NoLocal, rf.RAP, rf.RH = f.NoLocal, f.RetainAsPublished, f.RetainHandling
			}
			p.Filters = append(p.Filters, rf)
		}
	case packets.Unsubscribe:
		for _, f := range m.Filters {
			p.Filters = append(p.Filters, refmqtt.Filter{Filter: f.Filter})
		}
	case packets.Pingreq, packets.Pingresp:
		p.PacketID = 0
	}
	return p
}

// mochiDecode mirrors Client.ReadFixedHeader + Client.ReadPacket on a byte string holding exactly one packet.
// version is the connection's protocol version (for CONNECT it is irrelevant: the packet carries its own).
func mochiDecode(b []byte, version byte) (pk packets.Packet, err error) {
	defer func() {
		if r := recover(); r != nil {
			err = fmt.Errorf("PANIC: %v", r)
		}
	}()
	if len(b) == 0 {
		return pk, fmt.Errorf("empty")
	}
	var fh packets.FixedHeader
	if err = fh.Decode(b[0]); err != nil {
		return pk, err
	}
	rd := bytes.NewReader(b[1:])
	n, _, err := packets.DecodeLength(rd)
	if err != nil {
		return pk, err
	}
	fh.Remaining = n
	body := b[len(b)-rd.Len():]
	if len(body) != n {
		return pk, fmt.Errorf("remaining length %d but %d bytes follow", n, len(body))
	}
	pk.ProtocolVersion = version
	pk.FixedHeader = fh
	err = mochiDecodeBody(&pk, append([]byte{}, body...))
	return pk, err
}

func mochiDecodeBody(pk *packets.Packet, px []byte) (err error) {
	switch pk.FixedHeader.Type {
	case packets.Connect:
		err = pk.ConnectDecode(px)
	case packets.Disconnect:
		err = pk.DisconnectDecode(px)
	case packets.Connack:
		err = pk.ConnackDecode(px)
	case packets.Publish:
		err = pk.PublishDecode(px)
	case packets.Puback:
		err = pk.PubackDecode(px)
	case packets.Pubrec:
		err = pk.PubrecDecode(px)
	case packets.Pubrel:
		err = pk.PubrelDecode(px)
	case packets.Pubcomp:
		err = pk.PubcompDecode(px)
	case packets.Subscribe:
		err = pk.SubscribeDecode(px)
	case packets.Suback:
		err = pk.SubackDecode(px)
	case packets.Unsubscribe:
		err = pk.UnsubscribeDecode(px)
	case packets.Unsuback:
		err = pk.UnsubackDecode(px)
	case packets.Pingreq, packets.Pingresp:
	case packets.Auth:
		err = pk.AuthDecode(px)
	default:
		err = fmt.Errorf("invalid packet type %d", pk.FixedHeader.Type)
	}
	return
}

// mochiEncode mirrors the switch in Client.WritePacket.
func mochiEncode(pk packets.Packet) (out []byte, err error) {
	defer func() {
		if r := recover(); r != nil {
			err = fmt.Errorf("PANIC: %v", r)
		}
	}()
	buf := new(bytes.Buffer)
	switch pk.FixedHeader.Type {
	case packets.Connect:
		err = pk.ConnectEncode(buf)
	case packets.Connack:
		err = pk.ConnackEncode(buf)
	case packets.Publish:
		err = pk.PublishEncode(buf)
	case packets.Puback:
		err = pk.PubackEncode(buf)
	case packets.Pubrec:
		err = pk.PubrecEncode(buf)
	case packets.Pubrel:
		err = pk.PubrelEncode(buf)
	case packets.Pubcomp:
		err = pk.PubcompEncode(buf)
	case packets.Subscribe:
		err = pk.SubscribeEncode(buf)
	case packets.Suback:
		err = pk.SubackEncode(buf)
	case packets.Unsubscribe:
		err = pk.UnsubscribeEncode(buf)
	case packets.Unsuback:
		err = pk.UnsubackEncode(buf)
	case packets.Pingreq:
		err = pk.PingreqEncode(buf)
	case packets.Pingresp:
		err = pk.PingrespEncode(buf)
	case packets.Disconnect:
		err = pk.DisconnectEncode(buf)
	case packets.Auth:
		err = pk.AuthEncode(buf)
	default:
		err = fmt.Errorf("no encoder for type %d", pk.FixedHeader.Type)
	}
	return buf.Bytes(), err
}
