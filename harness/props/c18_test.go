package props

import (
	"fmt"
	"strings"
	"testing"

	mqtt "github.com/mochi-mqtt/server/v2"
	"github.com/mochi-mqtt/server/v2/hooks/auth"
	"github.com/mochi-mqtt/server/v2/packets"
	"pgregory.net/rapid"
	"verif/harness/evid"
)

// ---- C18: auth ledger decisions are deterministic and use MQTT level semantics -----------------------

type c18Filter struct {
	F string `json:"f"`
	A byte   `json:"a"` // 0 deny, 1 read, 2 write, 3 read-write
}
type c18User struct {
	Name     string      `json:"name"`
	Password string      `json:"password"`
	Disallow bool        `json:"disallow,omitempty"`
	ACL      []c18Filter `json:"acl,omitempty"`
}
type c18ACLRule struct {
	Client, Username, Remote string
	Filters                  []c18Filter
}
type c18AuthRule struct {
	Client, Username, Remote, Password string
	Allow                              bool
}
type c18Case struct {
	Users    []c18User     `json:"users,omitempty"`
	ACL      []c18ACLRule  `json:"acl,omitempty"`
	Auth     []c18AuthRule `json:"auth,omitempty"`
	ClientID string        `json:"client_id"`
	Username string        `json:"username"`
	Remote   string        `json:"remote"`
	Password string        `json:"password"`
	Topic    string        `json:"topic"`
	// Direct: only MatchTopic(Filter, Topic) is evaluated
	Direct bool   `json:"direct,omitempty"`
	Filter string `json:"filter,omitempty"`
}

// c18Match is the statement's rule: level by level; a filter without wildcards matches only the identical topic,
// '+' exactly one level, a trailing '#' one or more further levels.
func c18Match(filter, topic string) bool {
	f, t := strings.Split(filter, "/"), strings.Split(topic, "/")
	for i, fl := range f {
		if fl == "#" && i == len(f)-1 {
			return len(t) > i
		}
		if i >= len(t) {
			return false
		}
		if fl != "+" && fl != t[i] {
			return false
		}
	}
	return len(f) == len(t)
}

// c18Pat mirrors the documented pattern forms that the generator uses: "", "*", exact, "prefix*" (the generator never
// produces a value equal to the bare prefix, the one case the documentation leaves open).
func c18Pat(p, v string) bool {
	if p == "" || p == "*" || p == v {
		return true
	}
	if i := strings.Index(p, "*"); i > 0 {
		return len(v) > i && v[:i] == p[:i]
	}
	return false
}

func c18Grants(a byte, write bool) bool {
	if write {
		return a == 2 || a == 3
	}
	return a == 1 || a == 3
}

// refACL returns (asserted, allow).
func c18RefACL(c c18Case, write bool) (bool, bool) {
	for _, u := range c.Users {
		if u.Name == c.Username && len(u.ACL) > 0 {
			var grants, refuses bool
			for _, f := range u.ACL {
				if c18Match(f.F, c.Topic) {
					if c18Grants(f.A, write) {
						grants = true
					} else {
						refuses = true
					}
				}
			}
			if grants && refuses {
				return false, false // the statement does not say which of a user's conflicting filters wins
			}
			if grants || refuses {
				return true, grants
			}
		}
	}
	for _, rule := range c.ACL {
		if c18Pat(rule.Client, c.ClientID) && c18Pat(rule.Username, c.Username) && c18Pat(rule.Remote, c.Remote) {
			if len(rule.Filters) == 0 {
				return true, true
			}
			var grants, any bool
			for _, f := range rule.Filters {
				if c18Match(f.F, c.Topic) {
					any = true
					if c18Grants(f.A, write) {
						grants = true
					}
				}
			}
			if any {
				return true, grants
			}
		}
	}
	return true, true
}

func c18RefAuth(c c18Case) bool {
	for _, u := range c.Users {
		if u.Name == c.Username && u.Password != "" && u.Password == c.Password {
			return !u.Disallow
		}
	}
	for _, r := range c.Auth {
		if c18Pat(r.Client, c.ClientID) && c18Pat(r.Username, c.Username) && c18Pat(r.Password, c.Password) && c18Pat(r.Remote, c.Remote) {
			return r.Allow
		}
	}
	return false
}

func c18Build(c c18Case) (*auth.Ledger, *mqtt.Client, packets.Packet) {
	l := &auth.Ledger{}
	if len(c.Users) > 0 {
		l.Users = auth.Users{}
		for _, u := range c.Users {
			ur := auth.UserRule{Username: auth.RString(u.Name), Password: auth.RString(u.Password), Disallow: u.Disallow}
			if len(u.ACL) > 0 {
				ur.ACL = auth.Filters{}
				for _, f := range u.ACL {
					ur.ACL[auth.RString(f.F)] = auth.Access(f.A)
				}
			}
			l.Users[u.Name] = ur
		}
	}
	for _, r := range c.ACL {
		ar := auth.ACLRule{Client: auth.RString(r.Client), Username: auth.RString(r.Username), Remote: auth.RString(r.Remote)}
		if len(r.Filters) > 0 {
			ar.Filters = auth.Filters{}
			for _, f := range r.Filters {
				ar.Filters[auth.RString(f.F)] = auth.Access(f.A)
			}
		}
		l.ACL = append(l.ACL, ar)
	}
	for _, r := range c.Auth {
		l.Auth = append(l.Auth, auth.AuthRule{Client: auth.RString(r.Client), Username: auth.RString(r.Username), Remote: auth.RString(r.Remote), Password: auth.RString(r.Password), Allow: r.Allow})
	}
	cl := &mqtt.Client{ID: c.ClientID}
	cl.Properties.Username = []byte(c.Username)
	cl.Net.Remote = c.Remote
	pk := packets.Packet{}
	pk.Connect.Password = []byte(c.Password)
	pk.Connect.Username = []byte(c.Username)
	return l, cl, pk
}

// dedupe: a Go map cannot hold the same filter twice; keep the last access for a repeated filter, like the map does.
func c18Dedupe(fs []c18Filter) []c18Filter {
	idx := map[string]int{}
	out := []c18Filter{}
	for _, f := range fs {
		if i, ok := idx[f.F]; ok {
			out[i] = f
			continue
		}
		idx[f.F] = len(out)
		out = append(out, f)
	}
	return out
}

func c18Check(c c18Case, r *evid.Rec) []evid.Disc {
	var ds []evid.Disc
	if c.Direct {
		_, got := auth.MatchTopic(c.Filter, c.Topic)
		want := c18Match(c.Filter, c.Topic)
		if got != want {
			sig := "C18-matchtopic-wrong"
			if got && !strings.HasSuffix(c.Filter, "#") && len(strings.Split(c.Topic, "/")) > len(strings.Split(c.Filter, "/")) {
				sig = "C18-matchtopic-accepts-longer-topic"
			}
			ds = append(ds, evid.D(sig, "MatchTopic(%q,%q) = %v, level-by-level reference %v", c.Filter, c.Topic, got, want))
		}
		if len(strings.Split(c.Topic, "/")) != len(strings.Split(c.Filter, "/")) || strings.ContainsAny(c.Filter, "+#") {
			r.NonTrivial("direct|" + c.Filter + "|" + c.Topic)
		}
		return ds
	}
	for i := range c.Users {
		c.Users[i].ACL = c18Dedupe(c.Users[i].ACL)
	}
	for i := range c.ACL {
		c.ACL[i].Filters = c18Dedupe(c.ACL[i].Filters)
	}
	l, cl, pk := c18Build(c)
	const reps = 40
	for _, write := range []bool{false, true} {
		_, first := l.ACLOk(cl, c.Topic, write)
		same := true
		for i := 1; i < reps; i++ {
			if _, ok := l.ACLOk(cl, c.Topic, write); ok != first {
				same = false
				break
			}
		}
		if !same {
			ds = append(ds, evid.D("C18-acl-nondeterministic", "ACLOk(client=%q user=%q, %q, write=%v) gave both answers within %d evaluations", c.ClientID, c.Username, c.Topic, write, reps))
			continue
		}
		asserted, want := c18RefACL(c, write)
		if !asserted {
			r.NotAsserted()
			continue
		}
		if first != want {
			sig := "C18-acl-wrong-decision"
			ds = append(ds, evid.D(sig, "ACLOk(client=%q user=%q remote=%q, %q, write=%v) = %v, reference %v", c.ClientID, c.Username, c.Remote, c.Topic, write, first, want))
		}
	}
	_, a0 := l.AuthOk(cl, pk)
	for i := 1; i < reps; i++ {
		if _, ok := l.AuthOk(cl, pk); ok != a0 {
			ds = append(ds, evid.D("C18-auth-nondeterministic", "AuthOk gave both answers"))
			break
		}
	}
	if want := c18RefAuth(c); a0 != want {
		ds = append(ds, evid.D("C18-auth-wrong-decision", "AuthOk(client=%q user=%q pw=%q remote=%q) = %v, reference %v", c.ClientID, c.Username, c.Password, c.Remote, a0, want))
	}
	// non-trivial: >= 2 filters of different access match the topic, or a matching-candidate filter and the topic differ in depth
	nt := false
	td := len(strings.Split(c.Topic, "/"))
	all := []c18Filter{}
	for _, u := range c.Users {
		if u.Name == c.Username {
			all = append(all, u.ACL...)
		}
	}
	for _, rr := range c.ACL {
		all = append(all, rr.Filters...)
	}
	acc := map[byte]bool{}
	for _, f := range all {
		if c18Match(f.F, c.Topic) {
			acc[f.A] = true
		}
		if len(strings.Split(f.F, "/")) != td && strings.HasPrefix(c.Topic, strings.TrimSuffix(strings.TrimSuffix(f.F, "#"), "/")) {
			nt = true
		}
	}
	if len(acc) >= 2 || nt {
		r.NonTrivial(fmt.Sprintf("%+v", c))
	}
	return ds
}

func TestC18(t *testing.T) {
	r := evid.New("C18", "rapid: random ledgers (0-3 users with 1-4 overlapping ACL filters of all four access levels, 0-4 global ACL rules and 0-4 auth rules with '', '*', exact and prefix* patterns) x client x topic of depth 1-4; every decision evaluated 40 times for determinism and compared with a level-by-level reference; plus direct MatchTopic(filter, topic) cases; non-trivial = >=2 matching filters with different access, or a prefix-related filter and topic of different depth; distinct by full case")
	defer r.Finish(t)
	if evid.ReplayMode() {
		evid.Replay(t, r, replayPath(), c18Check)
		return
	}
	// "ab" / "ba" / "aa": levels that are string prefixes / suffixes of one another (seeded change C18-e: a '/#' fast path
	// that compares string prefixes instead of levels)
	lvl := rapid.SampledFrom([]string{"a", "a", "b", "c", "ab", "ba", "aa"})
	genTopic := func(rt *rapid.T) string {
		n := rapid.IntRange(1, 4).Draw(rt, "tdepth")
		return strings.Join(rapid.SliceOfN(lvl, n, n).Draw(rt, "tlevels"), "/")
	}
	genFilter := func(rt *rapid.T, topic string) string {
		if rapid.IntRange(0, 2).Draw(rt, "derived") > 0 {
			// derived from the topic so that matches are common: truncate / extend / wildcard a level
			ls := strings.Split(topic, "/")
			k := rapid.IntRange(1, len(ls)).Draw(rt, "keep")
			f := append([]string{}, ls[:k]...)
			for i := range f {
				switch rapid.IntRange(0, 7).Draw(rt, "plus") {
				case 0, 1:
					f[i] = "+"
				case 2: // a level that is a proper string prefix / extension of the topic's level
					if len(f[i]) > 1 {
						f[i] = f[i][:1]
					} else {
						f[i] += "b"
					}
				}
			}
			switch rapid.IntRange(0, 3).Draw(rt, "tail") {
			case 0:
				f = append(f, "#")
			case 1:
				f = append(f, rapid.SampledFrom([]string{"a", "+"}).Draw(rt, "ext"))
			}
			return strings.Join(f, "/")
		}
		n := rapid.IntRange(1, 4).Draw(rt, "fdepth")
		ls := rapid.SliceOfN(rapid.SampledFrom([]string{"a", "a", "b", "+", "ab"}), n, n).Draw(rt, "flevels")
		if rapid.IntRange(0, 3).Draw(rt, "hash") == 0 {
			ls = append(ls, "#")
		}
		return strings.Join(ls, "/")
	}
	genFilters := func(rt *rapid.T, topic string, lo, hi int) []c18Filter {
		n := rapid.IntRange(lo, hi).Draw(rt, "nf")
		fs := []c18Filter{}
		for i := 0; i < n; i++ {
			fs = append(fs, c18Filter{genFilter(rt, topic), byte(rapid.IntRange(0, 3).Draw(rt, "access"))})
		}
		return fs
	}
	ids := []string{"c1", "c2", "cx9", "d1"}
	users := []string{"u1", "u2", "u3", "", "zz"}
	remotes := []string{"10.0.0.1:1", "10.0.0.2:1", "192.168.1.1:9"}
	pat := func(rt *rapid.T, vals []string, label string) string {
		switch rapid.IntRange(0, 4).Draw(rt, label+"kind") {
		case 0:
			return ""
		case 1:
			return "*"
		case 2:
			v := rapid.SampledFrom(vals).Draw(rt, label+"v")
			if len(v) > 1 {
				return v[:1] + "*"
			}
			return v
		}
		return rapid.SampledFrom(vals).Draw(rt, label+"v")
	}
	evid.Run(t, r, func(rt *rapid.T) c18Case {
		if rapid.IntRange(0, 4).Draw(rt, "direct") == 0 {
			tp := genTopic(rt)
			c := c18Case{Direct: true, Topic: tp, Filter: genFilter(rt, tp)}
			r.Sample(c)
			return c
		}
		c := c18Case{Topic: genTopic(rt), ClientID: rapid.SampledFrom(ids).Draw(rt, "cid"), Username: rapid.SampledFrom(users).Draw(rt, "user"),
			Remote: rapid.SampledFrom(remotes).Draw(rt, "remote"), Password: rapid.SampledFrom([]string{"pw1", "pw2", ""}).Draw(rt, "pw")}
		nu := rapid.IntRange(0, 3).Draw(rt, "nusers")
		for i := 0; i < nu; i++ {
			c.Users = append(c.Users, c18User{Name: users[i], Password: rapid.SampledFrom([]string{"pw1", "pw2", ""}).Draw(rt, "upw"),
				Disallow: rapid.Bool().Draw(rt, "dis"), ACL: genFilters(rt, c.Topic, 0, 4)})
		}
		na := rapid.IntRange(0, 4).Draw(rt, "nacl")
		for i := 0; i < na; i++ {
			c.ACL = append(c.ACL, c18ACLRule{Client: pat(rt, ids, "c"), Username: pat(rt, users[:3], "u"), Remote: pat(rt, remotes, "r"), Filters: genFilters(rt, c.Topic, 0, 3)})
		}
		nr := rapid.IntRange(0, 4).Draw(rt, "nauth")
		for i := 0; i < nr; i++ {
			c.Auth = append(c.Auth, c18AuthRule{Client: pat(rt, ids, "ac"), Username: pat(rt, users[:3], "au"), Remote: pat(rt, remotes, "ar"),
				Password: rapid.SampledFrom([]string{"", "*", "pw1", "pw2"}).Draw(rt, "apw"), Allow: rapid.Bool().Draw(rt, "allow")})
		}
		r.Sample(c)
		return c
	}, c18Check)
}
