package props

import (
	"fmt"
	"sort"
	"strings"
	"testing"

	mqtt "github.com/mochi-mqtt/server/v2"
	"github.com/mochi-mqtt/server/v2/packets"
	"pgregory.net/rapid"
	"verif/harness/evid"
	"verif/harness/reftopic"
)

// ---- C02: retained messages returned for a filter are exactly those matching (index level) -----------

type c02Op struct {
	Topic   string `json:"topic"`
	Payload string `json:"payload"` // "" clears
}

type c02Case struct {
	Ops     []c02Op  `json:"ops"`
	Filters []string `json:"filters"`
	// EveryStep: query all filters after every op (histories) instead of only at the end
	EveryStep bool `json:"every_step,omitempty"`
}

func c02Classify(missing bool, filter, topic string) string {
	fl, tl := reftopic.Levels(filter), reftopic.Levels(topic)
	if missing {
		if len(fl) >= 2 && fl[len(fl)-1] == "#" && len(tl) == len(fl)-1 {
			return "C02-missing-parent-of-hash"
		}
		return "C02-missing"
	}
	if topic[0] == '$' && (filter[0] == '+' || filter[0] == '#') {
		return "C02-extra-dollar-topic-leading-wildcard"
	}
	return "C02-extra"
}

func c02Query(x *mqtt.TopicsIndex, model map[string]string, filters []string, r *evid.Rec, ds []evid.Disc) []evid.Disc {
	for _, f := range filters {
		got := map[string][]string{}
		for _, pk := range x.Messages(f) {
			got[pk.TopicName] = append(got[pk.TopicName], string(pk.Payload))
		}
		nMatch, nNo := 0, 0
		for tp, pl := range model {
			if reftopic.Match(f, tp) {
				nMatch++
				g := got[tp]
				switch {
				case len(g) == 0:
					ds = append(ds, evid.D(c02Classify(true, f, tp), "filter %q: retained message on %q matches but was not returned", f, tp))
				case len(g) > 1:
					ds = append(ds, evid.D("C02-duplicate", "filter %q: retained message on %q returned %d times", f, tp, len(g)))
				case g[0] != pl:
					ds = append(ds, evid.D("C02-stale-payload", "filter %q: topic %q returned payload %q, latest retained is %q", f, tp, g[0], pl))
				}
			} else {
				nNo++
			}
		}
		gk := make([]string, 0, len(got))
		for tp := range got {
			gk = append(gk, tp)
		}
		sort.Strings(gk)
		for _, tp := range gk {
			if _, ok := model[tp]; !ok {
				ds = append(ds, evid.D("C02-resurrected", "filter %q: returned a message on %q which has no retained message", f, tp))
			} else if !reftopic.Match(f, tp) {
				ds = append(ds, evid.D(c02Classify(false, f, tp), "filter %q: returned the retained message on %q which it does not match", f, tp))
			}
		}
		if (nMatch > 0 && nNo > 0) || (strings.ContainsAny(f, "+#") && c02Special(model)) {
			ks := make([]string, 0, len(model))
			for k := range model {
				ks = append(ks, k)
			}
			sort.Strings(ks)
			r.NonTrivial(strings.Join(ks, ";") + "=>" + f)
		}
	}
	return ds
}

func c02Special(model map[string]string) bool {
	for tp := range model {
		if tp[0] == '$' || strings.Contains(tp, "//") || strings.HasPrefix(tp, "/") || strings.HasSuffix(tp, "/") {
			return true
		}
	}
	return false
}

func c02Check(c c02Case, r *evid.Rec) []evid.Disc {
	x := mqtt.NewTopicsIndex()
	model := map[string]string{}
	var ds []evid.Disc
	for _, o := range c.Ops {
		pk := packets.Packet{FixedHeader: packets.FixedHeader{Type: packets.Publish, Retain: true}, TopicName: o.Topic, Payload: []byte(o.Payload)}
		ret := x.RetainMessage(pk)
		_, existed := model[o.Topic]
		want := int64(1)
		if o.Payload == "" {
			want = 0
			if existed {
				want = -1
			}
			delete(model, o.Topic)
		} else {
			model[o.Topic] = o.Payload
		}
		if ret != want {
			ds = append(ds, evid.D("C02-retain-return-value", "RetainMessage(%q,%q) returned %d, expected %d", o.Topic, o.Payload, ret, want))
		}
		if c.EveryStep {
			ds = c02Query(x, model, c.Filters, r, ds)
		}
	}
	if !c.EveryStep {
		ds = c02Query(x, model, c.Filters, r, ds)
	}
	if n := x.Retained.Len(); n != len(model) {
		ds = append(ds, evid.D("C02-retained-count", "index holds %d retained messages, model %d", n, len(model)))
	}
	return ds
}

func TestC02(t *testing.T) {
	r := evid.New("C02", "exhaustive: every set of <=2 retained topics (quick: pairs only among depth<=2 topics; thorough: all pairs at depth<=3) over levels {a,b,'',$x,$SYS} x every valid plain filter of depth<=3 over the same levels plus +/#; rapid: retain/clear histories of length<=30 at depth<=6 with all filters queried after every step; oracle = reftopic.Match over a model map topic->latest payload, compared as multisets in both directions; non-trivial = some retained topic matches and some does not, or a wildcard filter with a '$'/empty-level topic present; distinct by (retained set, filter)")
	defer r.Finish(t)
	if evid.ReplayMode() {
		evid.Replay(t, r, replayPath(), c02Check)
		return
	}
	filters := c01Filters(3)
	topics3 := c01Topics(3)
	pairTopics := c01Topics(2)
	if evid.Thorough() {
		pairTopics = topics3
	}
	idx, nsh := evid.Shard()
	run := func(ops []c02Op) bool {
		c := c02Case{Ops: ops, Filters: filters}
		r.EvalN(int64(len(filters)))
		if un := r.Explain(c02Check(c, r)); len(un) > 0 {
			for _, f := range filters {
				c1 := c02Case{Ops: ops, Filters: []string{f}}
				if un1 := r.Explain(c02Check(c1, r)); len(un1) > 0 {
					r.Fail(c1, un1)
					t.Errorf("C02: [%s] %s", un1[0].Sig, un1[0].Msg)
					break
				}
			}
			return r.FailCount() <= 10
		}
		return true
	}
	n := 0
	for _, a := range topics3 {
		if n++; n%nsh != idx {
			continue
		}
		if !run([]c02Op{{a, "p1"}}) {
			return
		}
	}
	for i, a := range pairTopics {
		for _, b := range pairTopics[i+1:] {
			if n++; n%nsh != idx {
				continue
			}
			if !run([]c02Op{{a, "p1"}, {b, "p2"}}) {
				return
			}
		}
	}
	r.Set("exhaustive_retained_sets", n)
	r.Set("exhaustive_filters", len(filters))
	if t.Failed() {
		return
	}
	level := rapid.SampledFrom([]string{"a", "a", "b", "", "$x", "$SYS"})
	flevel := rapid.SampledFrom([]string{"a", "a", "b", "", "$x", "$SYS", "+", "+"})
	evid.Run(t, r, func(rt *rapid.T) c02Case {
		c := c02Case{EveryStep: true}
		// a small pool of topics so that overwrites and clears hit existing entries, prefixes included
		np := rapid.IntRange(1, 6).Draw(rt, "npool")
		pool := []string{}
		for i := 0; i < np; i++ {
			d := rapid.IntRange(1, 6).Draw(rt, "depth")
			tp := strings.Join(rapid.SliceOfN(level, d, d).Draw(rt, "levels"), "/")
			if tp == "" {
				tp = "a"
			}
			pool = append(pool, tp)
			if rapid.Bool().Draw(rt, "prefix") && strings.Contains(tp, "/") {
				if p := tp[:strings.LastIndex(tp, "/")]; p != "" {
					pool = append(pool, p)
				}
			}
		}
		nops := rapid.IntRange(1, 30).Draw(rt, "nops")
		for i := 0; i < nops; i++ {
			o := c02Op{Topic: rapid.SampledFrom(pool).Draw(rt, "topic")}
			if rapid.IntRange(0, 2).Draw(rt, "clear") != 0 {
				o.Payload = fmt.Sprintf("p%d", i)
			}
			c.Ops = append(c.Ops, o)
		}
		nf := rapid.IntRange(1, 4).Draw(rt, "nfilters")
		for i := 0; i < nf; i++ {
			d := rapid.IntRange(1, 6).Draw(rt, "fdepth")
			ls := rapid.SliceOfN(flevel, d, d).Draw(rt, "flevels")
			if rapid.IntRange(0, 2).Draw(rt, "hash") == 0 {
				ls[len(ls)-1] = "#"
			}
			f := strings.Join(ls, "/")
			if f == "" {
				f = "#"
			}
			c.Filters = append(c.Filters, f)
		}
		// derived filters that are likely to hit: a pool topic with one level replaced by + or truncated to /#
		tp := reftopic.Levels(rapid.SampledFrom(pool).Draw(rt, "base"))
		k := rapid.IntRange(0, len(tp)-1).Draw(rt, "k")
		f1 := append([]string{}, tp...)
		f1[k] = "+"
		c.Filters = append(c.Filters, strings.Join(f1, "/"), strings.Join(append(append([]string{}, tp[:k+1]...), "#"), "/"))
		r.Sample(c)
		return c
	}, c02Check)
}
