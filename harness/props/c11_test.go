package props

import (
	"fmt"
	"sort"
	"testing"

	"pgregory.net/rapid"
	"verif/harness/evid"
	"verif/harness/hist"
	"verif/harness/refmqtt"
)

// ---- C11: Receive Maximum flow control holds in both directions without leaking quota ---------------------

func c11Check(c *hist.Case, r *evid.Rec) []evid.Disc {
	run := runCase(c, r)
	if run == nil {
		return nil
	}
	m := hist.Analyze(run)
	var ds []evid.Disc
	const C = "c0"
	R := 65535 // the window of the connection being looked at (each CONNECT declares its own)
	rOf := func(peer int) int {
		if cp := run.Peers[peer].Connect; cp != nil && cp.Props.ReceiveMaximum != nil {
			return int(*cp.Props.ReceiveMaximum)
		}
		return 65535
	}
	resentIDs := map[int]map[uint16]bool{} // per connection: identifiers resent while its CONNECT was processed
	inTransit := map[int]map[uint16]bool{} // per connection: identifiers of QoS>0 PUBLISH received and not completed
	entitled := map[int]bool{}
	leaked := map[int]bool{}
	staleAck := map[int]bool{}
	recSent := map[int]map[uint16]bool{}
	everRec := map[int]bool{}
	resent := map[int]bool{}
	seenTag := map[int]bool{}
	windowFull := false
	reconnects := 0
	// the open finding behind C11-queued-message-never-sent: a message that was held back and released later is forgotten
	// as soon as it is written. A stall is attributed to it only if this connection saw such a release (or inherited
	// unfinished exchanges); a held-back message that is never released at all is something else.
	pubStep := map[int]int{}
	lateAny := map[int]bool{} // per connection: some message was delivered in a later step than its publish (not as a resend)
	for _, s := range run.Steps {
		if s.A.Kind == "connect" && s.A.Client == 0 && s.I > 0 {
			reconnects++
		}
		// obligations (c): QoS>0 messages the client's session is entitled to
		if s.A.Kind == "publish" && !s.Skipped && s.Tag > 0 {
			pubStep[s.Tag] = s.I
		}
		if s.A.Kind == "publish" && !s.Skipped && s.Tag > 0 && s.A.Client == 1 {
			ti := run.Tags[s.Tag]
			sn := m.Snaps[s.Tag]
			if sn != nil && sn.Connected[ti.CID] == ti.Peer && ti.QoS > 0 {
				if ms := sn.MatchingAll(C, ti.Topic); len(ms) > 0 && ms[0].Opts.QoS > 0 && s.DroppedFor(C, s.Tag) == "" {
					entitled[s.Tag] = true
				}
			}
		}
		// the client's acknowledgements complete exchanges
		if s.Sent != nil && !s.Skipped && s.Peer >= 0 && run.Peers[s.Peer].CID == C {
			switch s.Sent.Type {
			case refmqtt.PUBREL:
				// known defect: the client's own PUBREL hands back send quota; once that happened while part of the window
				// was in use, the window accounting of this connection is off by one from then on
				if len(inTransit[s.Peer]) > 0 {
					leaked[s.Peer] = true
				}
			case refmqtt.PUBACK, refmqtt.PUBCOMP:
				if !inTransit[s.Peer][s.Sent.PacketID] {
					// the client completes an exchange of its resumed session that the broker did not resend on this
					// connection: the broker had forgotten the message (the deferred-send path deletes its record after
					// writing it) and now hands out send quota for it
					staleAck[s.Peer] = true
				}
				delete(inTransit[s.Peer], s.Sent.PacketID)
				delete(recSent[s.Peer], s.Sent.PacketID)
			case refmqtt.PUBREC:
				if s.Sent.ReasonCode >= 0x80 {
					if !inTransit[s.Peer][s.Sent.PacketID] {
						staleAck[s.Peer] = true // refusing a message of the resumed session that the broker has forgotten (see PUBACK below)
					}
					delete(inTransit[s.Peer], s.Sent.PacketID)
				} else if s.A.Kind == "ack" {
					if recSent[s.Peer] == nil {
						recSent[s.Peer] = map[uint16]bool{}
					}
					recSent[s.Peer][s.Sent.PacketID] = true // known defect: this PUBREC costs the client one unit of ITS publish quota until PUBCOMP
					everRec[s.Peer] = true
				}
			}
		}
		for _, o := range s.Obs {
			p := run.Peers[o.Peer]
			if p.CID != C {
				continue
			}
			switch o.P.Type {
			case refmqtt.PUBLISH:
				seenTag[hist.TagOf(o.P.Payload)] = true
				if o.P.QoS == 0 {
					continue
				}
				if inTransit[o.Peer] == nil {
					inTransit[o.Peer] = map[uint16]bool{}
				}
				inTransit[o.Peer][o.P.PacketID] = true
				R = rOf(o.Peer)
				if s.A.Kind == "connect" {
					resent[o.Peer] = true
					if resentIDs[o.Peer] == nil {
						resentIDs[o.Peer] = map[uint16]bool{}
					}
					resentIDs[o.Peer][o.P.PacketID] = true
				} else if at, ok := pubStep[hist.TagOf(o.P.Payload)]; ok && at != s.I {
					// released late: the broker forgets this message as soon as it is written (the open finding). From here
					// on this connection's bookkeeping is off: a QoS 1 one never gives its quota back, and the freed
					// identifier is handed to the next held-back message, whose record the client's acknowledgement then hits
					lateAny[o.Peer] = true
				}
				// automatic acknowledgements (drain phase) are sent while the step settles: account for them by
				// looking at what the executor still holds as unacknowledged at the end of the step instead
				if !(p.AutoAck && s.A.Kind == "drain") && len(inTransit[o.Peer]) > R {
					sig := "C11-receive-maximum-exceeded"
					if s.A.Kind == "connect" || resent[o.Peer] {
						// resends on a resumed connection are not charged against the (freshly reset) send quota: that
						// explains an excess of at most the number of messages resent on this connection, no more (seeded change
						// C11-e: a resumed connection that keeps the previous connection's larger window)
						// (acknowledged or not: the acknowledgement of a resend hands back a unit that was never taken)
						if s.A.Kind == "connect" || len(inTransit[o.Peer]) <= R+len(resentIDs[o.Peer]) {
							sig = "C11-receive-maximum-exceeded-by-resend-after-reconnect"
						} else {
							sig = "C11-receive-maximum-exceeded-beyond-the-resends"
						}
					}
					if leaked[o.Peer] {
						sig = "C11-receive-maximum-exceeded-after-clients-own-pubrel"
					}
					if sig == "C11-receive-maximum-exceeded" && staleAck[o.Peer] {
						sig = "C11-receive-maximum-exceeded-after-ack-of-message-the-broker-forgot"
					}
					ds = append(ds, evid.D(sig, "step %d: the client declared Receive Maximum %d; %d QoS>0 PUBLISH packets are now unacknowledged on connection #%d (latest: %s)", s.I, R, len(inTransit[o.Peer]), o.Peer, o.P))
				}
				if len(inTransit[o.Peer]) >= R {
					windowFull = true
				}
			case refmqtt.PUBREL:
				if s.A.Kind == "connect" {
					resent[o.Peer] = true // an open exchange inherited by a connection whose quotas were reset to their maxima
					if resentIDs[o.Peer] == nil {
						resentIDs[o.Peer] = map[uint16]bool{}
					}
					resentIDs[o.Peer][o.P.PacketID] = true // its PUBCOMP hands back a unit this connection never took
				}
			case refmqtt.DISCONNECT:
				if o.P.ReasonCode == 0x93 {
					sig := "C11-well-behaved-client-disconnected-0x93"
					if len(recSent[o.Peer]) > 0 {
						sig = "C11-disconnected-0x93-while-inbound-qos2-delivery-awaits-pubcomp"
					}
					ds = append(ds, evid.D(sig, "step %d: the client kept its own unacknowledged QoS 1/2 publishes below the server's Receive Maximum %d, yet received DISCONNECT 0x93 (action: %s)", s.I, c.Cfg.ReceiveMaximum, s.A.String()))
				}
			}
		}
		for _, pid := range s.Closed {
			p := run.Peers[pid]
			if p.CID == C && !p.ClosedByHarness && s.A.Kind != "connect" {
				sawDisc := false
				for _, o := range s.Obs {
					if o.Peer == pid && o.P.Type == refmqtt.DISCONNECT && o.P.ReasonCode == 0x93 {
						sawDisc = true
					}
				}
				if !sawDisc {
					ds = append(ds, evid.D("C11-well-behaved-client-connection-closed", "step %d: the broker closed the well-behaved client's connection (action: %s)", s.I, s.A.String()))
				}
			}
		}
	}
	// (c) bounded eventuality: the history ends with the client acknowledging everything promptly
	last := run.Steps[len(run.Steps)-1]
	if last.A.Kind == "drain" && !last.Skipped {
		var missing []int
		for tag := range entitled {
			if !seenTag[tag] {
				missing = append(missing, tag)
			}
		}
		sort.Ints(missing)
		if len(missing) > 0 {
			sig := "C11-queued-message-never-sent"
			// which connection stalled: the client's last one
			cur := -1
			for _, p := range run.Peers {
				if p.CID == C {
					cur = p.ID
				}
			}
			tainted := false
			for _, v := range lateAny { // the session carries the forgotten message across reconnects: the client still holds
				tainted = tainted || v //  it, and its (late) acknowledgement hits whatever record now has that identifier
			}
			if !tainted && !staleAck[cur] && !resent[cur] {
				// nothing on this connection went through the release path of the open finding, and nothing was inherited
				// from an earlier connection: the stall has another cause
				sig = "C11-queued-message-never-sent-without-any-late-release"
			}
			r.Label(fmt.Sprintf("stall/explained-by-open-finding:%v", sig == "C11-queued-message-never-sent"))
			ds = append(ds, evid.D(sig, "after the client acknowledged everything promptly (Receive Maximum %d), messages %v were never transmitted to it", R, missing))
		}
	}
	if windowFull {
		r.NonTrivial(caseKey(c))
		r.Label("window-was-full")
	}
	return withTranscript(ds, run)
}

func c11Gen(rt *rapid.T) *hist.Case {
	c := &hist.Case{}
	srv := uint16(rapid.IntRange(1, 4).Draw(rt, "server-recvmax"))
	c.Cfg.ReceiveMaximum = srv
	c.Cfg.ClientPIDBase = 1000 // identifier collisions between the directions are C10's subject
	c.Cfg.Auth = "perm"
	c.Cfg.Perm = &hist.Perm{Default: true}
	c.Cfg.Perm.Set("c0", "u/deny", true, false)
	exp := uint32(300)
	con := hist.Action{Kind: "connect", Client: 0, Version: 5, Clean: false, Expiry: &exp}
	if rapid.IntRange(0, 4).Draw(rt, "window") != 0 {
		w := uint16(rapid.IntRange(1, 4).Draw(rt, "recvmax"))
		con.RecvMax = &w
	}
	c.Actions = append(c.Actions, con,
		hist.Action{Kind: "subscribe", Client: 0, Filters: []refmqtt.Filter{{Filter: "t/#", QoS: 2}}},
		hist.Action{Kind: "connect", Client: 1, Version: 4, Clean: true, AutoAck: true})
	reconnect := rapid.IntRange(0, 2).Draw(rt, "with-reconnects") == 0
	action := rapid.Custom(func(rt *rapid.T) hist.Action {
		switch rapid.IntRange(0, 12).Draw(rt, "kind") {
		case 0, 1, 2, 3:
			return hist.Action{Kind: "publish", Client: 1, Topic: "t/a", QoS: byte(rapid.IntRange(0, 2).Draw(rt, "qos"))}
		case 4, 5, 6:
			a := hist.Action{Kind: "ack", Client: 0, Index: rapid.IntRange(0, 4).Draw(rt, "idx")}
			if rapid.IntRange(0, 3).Draw(rt, "failure-code") == 0 {
				// an acknowledgement that carries a failure reason ends the exchange and returns the quota just the same
				a.Reason = pick(rt, "reason", []byte{0x80, 0x83, 0x87, 0x97, 0x99})
			}
			return a
		case 7, 8:
			// the client's own publishes: QoS 1/2 only while it has fewer than the server's Receive Maximum unfinished
			return hist.Action{Kind: "publish", Client: 0, Topic: "u/x", QoS: byte(rapid.IntRange(1, 2).Draw(rt, "oqos")), Limit: int(srv)}
		case 9:
			if rapid.Bool().Draw(rt, "denied") {
				// a publish the broker refuses (write denied) and still has to acknowledge: it must not cost quota for ever
				return hist.Action{Kind: "publish", Client: 0, Topic: "u/deny", QoS: byte(rapid.IntRange(1, 2).Draw(rt, "dqos")), Limit: int(srv)}
			}
			return hist.Action{Kind: "publish", Client: 0, Topic: "u/x", QoS: 0} // QoS 0 never counts
		case 10:
			return hist.Action{Kind: "pubrel", Client: 0, Index: rapid.IntRange(0, 3).Draw(rt, "ridx")}
		case 11:
			if reconnect {
				// each CONNECT declares its own window: the same, a smaller or a larger one
				rc := con
				if rapid.Bool().Draw(rt, "new-window") {
					w := uint16(rapid.IntRange(1, 4).Draw(rt, "recvmax2"))
					rc.RecvMax = &w
				}
				return rc
			}
			return hist.Action{Kind: "publish", Client: 0, Topic: "u/x", QoS: 0}
		default:
			return hist.Action{Kind: "ping", Client: 0}
		}
	})
	c.Actions = append(c.Actions, rapid.SliceOfN(action, 5, 40).Draw(rt, "actions")...)
	c.Actions = append(c.Actions, hist.Action{Kind: "drain", Client: 0})
	return c
}

func TestC11(t *testing.T) {
	r := evid.New("C11", "rapid: a v5 client with Receive Maximum 1..4 (or absent) on a QoS 2 subscription against a server Receive Maximum 1..4; bursts of QoS 0/1/2 publishes towards the client and from the client; the client acknowledges in generated order and timing (one acknowledgement in four carries a failure reason code) but never has more unfinished QoS 1/2 publishes of its own than the server's Receive Maximum (enforced by the executor), sends QoS 0 freely, also publishes QoS 1/2 to a topic its write permission denies (refused but acknowledged), optionally reconnects with session present (each CONNECT with its own Receive Maximum); the history ends with the client acknowledging everything promptly; oracle: (a) unacknowledged QoS>0 PUBLISH packets on a connection never exceed the declared Receive Maximum, (b) no DISCONNECT 0x93 and no broker-side close, (c) after the prompt-acknowledgement phase every entitled QoS>0 message has been transmitted; non-trivial = the outbound window was full at least once; distinct by history")
	defer r.Finish(t)
	if evid.ReplayMode() {
		evid.Replay(t, r, replayPath(), c11Check)
		return
	}
	evid.Run(t, r, func(rt *rapid.T) *hist.Case {
		c := c11Gen(rt)
		r.Sample(append([]string{fmt.Sprintf("server ReceiveMaximum=%d", c.Cfg.ReceiveMaximum)}, c.Summary()...))
		return c
	}, c11Check)
}
