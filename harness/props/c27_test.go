package props

import (
	"fmt"
	"strings"
	"testing"

	"github.com/mochi-mqtt/server/v2/packets"
	"pgregory.net/rapid"
	"verif/harness/evid"
	"verif/harness/refmqtt"
)

// ---- C27: packet decoding is total: no input makes it panic or overread ------------------------------

type c27Case struct {
	First     byte   `json:"first"` // fixed header first byte (type and flags)
	Version   byte   `json:"version"`
	Body      []byte `json:"body"`
	MustError bool   `json:"must_error,omitempty"` // a declared length exceeds the available bytes
	Class     string `json:"class"`
}

func c27Check(c c27Case, r *evid.Rec) []evid.Disc {
	typ := c.First >> 4
	name := refmqtt.TypeName(typ)
	pk := packets.Packet{ProtocolVersion: c.Version}
	pk.FixedHeader.Type = typ
	pk.FixedHeader.Remaining = len(c.Body)
	pk.FixedHeader.Qos = (c.First >> 1) & 3
	pk.FixedHeader.Dup = c.First&8 != 0
	pk.FixedHeader.Retain = c.First&1 != 0
	var err error
	func() {
		defer func() {
			if rec := recover(); rec != nil {
				err = fmt.Errorf("PANIC: %v", rec)
			}
		}()
		err = mochiDecodeBody(&pk, append([]byte{}, c.Body...))
	}()
	if err != nil && strings.HasPrefix(err.Error(), "PANIC") {
		return []evid.Disc{evid.D("C27-panic-"+name, "%s v%d body % x: %v", name, c.Version, clip(c.Body), err)}
	}
	if c.MustError && err == nil {
		return []evid.Disc{evid.D("C27-accepts-overlong-length-"+name, "%s v%d body % x (%s): a declared length exceeds the available bytes but decoding succeeded", name, c.Version, clip(c.Body), c.Class)}
	}
	if err == nil {
		r.Label("accepted/" + c.Class)
		if c.Class == "truncated" {
			// error or a packet that survives re-encoding (C26's byte-side oracle, same preconditions)
			full := refmqtt.RawPacket(c.First, c.Body)
			return c26CheckBytes(c26Case{Bytes: full, Version: c.Version}, r)
		}
	} else {
		r.Label("rejected/" + c.Class)
	}
	return nil
}

// c27Inflate raises one length field of a valid encoding above the bytes that remain. ok=false if the packet has no
// field this generator knows how to inflate.
func c27Inflate(rt *rapid.T, p *refmqtt.Packet) (first byte, body []byte, what string, ok bool) {
	enc := refmqtt.Encode(p, refmqtt.Style{})
	f, _, b, _ := splitFixed(enc)
	body = append([]byte{}, b...)
	k := rapid.SampledFrom([]int{1, 2, 3, 200, 60000}).Draw(rt, "k")
	raise16 := func(pos int) bool {
		if pos < 0 || pos+2 > len(body) {
			return false
		}
		v := int(body[pos])<<8 | int(body[pos+1])
		if v+k > 0xFFFF {
			k = 0xFFFF - v
			if k == 0 {
				return false
			}
		}
		v += k
		body[pos], body[pos+1] = byte(v>>8), byte(v)
		return true
	}
	v5 := p.Version == 5
	switch p.Type {
	case refmqtt.PUBLISH:
		// keep only the topic field: its declared length then exceeds what is there
		body = body[:2+len(p.Topic)]
		f &^= 0x06 // QoS 0 so that no packet id is expected
		f &^= 0x08
		return f, body, "publish-topic-length", raise16(0)
	case refmqtt.UNSUBSCRIBE:
		last := p.Filters[len(p.Filters)-1].Filter
		return f, body, "unsubscribe-filter-length", raise16(len(body) - len(last) - 2)
	case refmqtt.SUBSCRIBE:
		last := p.Filters[len(p.Filters)-1].Filter
		if k < 2 {
			k = 2
		}
		return f, body, "subscribe-filter-length", raise16(len(body) - 1 - len(last) - 2)
	case refmqtt.CONNECT:
		var lastLen int
		switch {
		case p.PasswordFlag:
			lastLen = len(p.Password)
		case p.UsernameFlag:
			lastLen = len(p.Username)
		case p.WillFlag:
			lastLen = len(p.WillPayload)
		default:
			lastLen = len(p.ClientID)
		}
		return f, body, "connect-last-field-length", raise16(len(body) - lastLen - 2)
	case refmqtt.PUBACK, refmqtt.PUBREC, refmqtt.PUBREL, refmqtt.PUBCOMP, refmqtt.DISCONNECT, refmqtt.AUTH, refmqtt.CONNACK:
		if !v5 {
			return 0, nil, "", false
		}
		pos := map[byte]int{refmqtt.PUBACK: 3, refmqtt.PUBREC: 3, refmqtt.PUBREL: 3, refmqtt.PUBCOMP: 3, refmqtt.DISCONNECT: 1, refmqtt.AUTH: 1, refmqtt.CONNACK: 2}[p.Type]
		if pos >= len(body) || body[pos] >= 0x70 {
			return 0, nil, "", false
		}
		if p.Type != refmqtt.CONNACK && p.Props.ReasonString != nil && len(p.Props.User) == 0 && rapid.Bool().Draw(rt, "inner") {
			// the reason string is the last property (canonical order): raise its own length
			return f, body, "property-string-length", raise16(len(body) - len(*p.Props.ReasonString) - 2)
		}
		body[pos] += byte(1 + k%14)
		return f, body, "property-length", true
	}
	return 0, nil, "", false
}

func TestC27(t *testing.T) {
	r := evid.New("C27", "rapid, per packet type x version {3,4,5}: (a) arbitrary and hostile-constant byte strings as the body, (b) valid bodies truncated at a generated length, (c) valid bodies in which one length field (string/binary prefix, property length) is raised above the bytes that remain; oracle: no panic (recovered per case), (c) must be an error, (b) an error or a packet that survives re-encoding; non-trivial = body derived from a valid encoding (b,c) or random body that got past the first field; distinct by (first byte, version, body)")
	defer r.Finish(t)
	if evid.ReplayMode() {
		evid.Replay(t, r, replayPath(), c27Check)
		return
	}
	hostile := [][]byte{{}, {0}, {0, 0}, {0xFF, 0xFF}, {0, 1}, {0, 1, 'a'}, {0, 1, 'a', 0}, {0, 1, 0, 0}, {0, 1, 0, 0, 1, 'a'}, {0x80, 0x80, 0x80, 0x80, 0x01},
		{0, 4, 'M', 'Q', 'T', 'T', 5, 0xFF, 0, 0, 0}, {0, 4, 'M', 'Q', 'T', 'T', 4, 0xC6, 0, 0, 0, 0}, {0, 1, 0xFF}, {0, 1, 0, 0xFF, 0xFF, 0xFF, 0xFF}, {0, 1, 11}, {0, 1, 2, 11, 0x80}}
	evid.Run(t, r, func(rt *rapid.T) c27Case {
		version := rapid.SampledFrom([]byte{3, 4, 5, 5}).Draw(rt, "version")
		switch rapid.IntRange(0, 3).Draw(rt, "class") {
		case 0: // arbitrary bytes
			typ := byte(rapid.IntRange(1, 15).Draw(rt, "type"))
			first := typ << 4
			if typ == 3 {
				first |= byte(rapid.IntRange(0, 15).Draw(rt, "flags")) &^ 0x06
				first |= byte(rapid.IntRange(0, 2).Draw(rt, "qos")) << 1
			}
			var body []byte
			if rapid.Bool().Draw(rt, "hostile") {
				body = append([]byte{}, rapid.SampledFrom(hostile).Draw(rt, "h")...)
				body = append(body, rapid.SliceOfN(rapid.Byte(), 0, 6).Draw(rt, "tail")...)
			} else {
				body = rapid.SliceOfN(rapid.OneOf(rapid.Byte(), rapid.SampledFrom([]byte{0, 0, 1, 2, 0xFF, 0x80, 38, 11, 31})), 0, 40).Draw(rt, "body")
			}
			c := c27Case{First: first, Version: version, Body: body, Class: "arbitrary"}
			if len(body) > 3 {
				r.NonTrivial(fmt.Sprintf("%x/%d/%x", first, version, body))
			}
			return c
		case 1: // truncation of a valid body
			p, _ := genAnyPacket(rt, nil)
			enc := refmqtt.Encode(p, refmqtt.Style{})
			f, _, body, _ := splitFixed(enc)
			if len(body) > 0 {
				body = body[:rapid.IntRange(0, len(body)-1).Draw(rt, "cut")]
			}
			c := c27Case{First: f, Version: p.Version, Body: append([]byte{}, body...), Class: "truncated"}
			r.NonTrivial(fmt.Sprintf("%x/%d/%x", f, p.Version, body))
			r.Sample(fmt.Sprintf("truncated %s to %d bytes", refmqtt.TypeName(p.Type), len(body)))
			return c
		default: // inflated length field
			for tries := 0; ; tries++ {
				p, _ := genAnyPacket(rt, nil)
				f, body, what, ok := c27Inflate(rt, p)
				if !ok {
					if tries > 50 {
						return c27Case{First: 0xC0, Version: 4, Class: "arbitrary"}
					}
					continue
				}
				c := c27Case{First: f, Version: p.Version, Body: body, MustError: true, Class: "inflated:" + what}
				r.NonTrivial(fmt.Sprintf("%x/%d/%x", f, p.Version, body))
				r.Label("inflated/" + what)
				r.Sample(fmt.Sprintf("%s v%d %s: % x", refmqtt.TypeName(p.Type), p.Version, what, clip(body)))
				return c
			}
		}
	}, c27Check)
}
