package props

import (
	"fmt"
	"sort"
	"strings"
	"testing"

	"pgregory.net/rapid"
	"verif/harness/evid"
	"verif/harness/hist"
	"verif/harness/reftopic"
)

// ---- C06: each shared-subscription group receives each matching message exactly once ------------------

func c06Check(c *hist.Case, r *evid.Rec) []evid.Disc {
	run := runCase(c, r)
	if run == nil {
		return nil
	}
	m := hist.Analyze(run)
	var ds []evid.Disc
	for _, s := range run.Steps {
		if s.A.Kind != "publish" || s.Skipped || s.Tag == 0 {
			continue
		}
		ti := run.Tags[s.Tag]
		sn := m.Snaps[s.Tag]
		if ti.Empty || sn == nil || sn.Connected[ti.CID] != ti.Peer {
			continue
		}
		blind := false
		for _, peer := range sn.Connected {
			if run.Peers[peer].BlindAt(s.I) || run.Peers[peer].ClosedAt == s.I {
				blind = true
			}
		}
		if blind {
			r.Label("some-receiver-unobservable")
			continue
		}
		N := map[string]bool{}
		for cid := range sn.Entitled(ti.Topic, ti.CID, false) {
			N[cid] = true
		}
		groups := map[string][]string{} // full shared filter -> connected members
		for cid := range sn.Connected {
			for f := range sn.Subs[cid] {
				if _, _, sh, _ := reftopic.SplitShare(f); sh && reftopic.MatchSub(f, ti.Topic) {
					groups[f] = append(groups[f], cid)
				}
			}
		}
		if len(groups) == 0 {
			continue
		}
		gkeys := []string{}
		for k := range groups {
			sort.Strings(groups[k])
			gkeys = append(gkeys, k)
		}
		sort.Strings(gkeys)
		R := map[string]int{}
		for cid, peer := range sn.Connected {
			if n := len(s.Deliveries(peer, s.Tag)); n > 0 {
				R[cid] = n
			}
		}
		desc := fmt.Sprintf("step %d: m%d on %q; non-shared entitled %v; matching groups %v; receivers %v", s.I, s.Tag, ti.Topic, keysOf(N), groups, R)
		for cid, n := range R {
			if n > 1 {
				ds = append(ds, evid.D("C06-duplicate-copy", "%s: %s received %d copies", desc, cid, n))
			}
		}
		for cid := range N {
			if R[cid] == 0 {
				sig := "C06-nonshared-subscriber-missed"
				if cid == ti.CID {
					for f, st := range sn.Subs[cid] {
						if _, _, sh, _ := reftopic.SplitShare(f); !sh && st.Opts.NoLocal && reftopic.MatchSub(f, ti.Topic) {
							sig = "C06-publisher-with-overlapping-no-local-subscription-missed" // C03's open finding seen from here
						}
					}
				}
				ds = append(ds, evid.D(sig, "%s: %s holds a matching non-shared subscription but received nothing", desc, cid))
			}
		}
		// does a choice of one representative per group explain R exactly?
		explain := func(R map[string]int) bool {
			explained := false
			var rec func(i int, chosen map[string]bool)
			rec = func(i int, chosen map[string]bool) {
				if explained {
					return
				}
				if i == len(gkeys) {
					// R must equal N ∪ chosen
					for cid := range R {
						if !N[cid] && !chosen[cid] {
							return
						}
					}
					for cid := range chosen {
						if R[cid] == 0 {
							return
						}
					}
					explained = true
					return
				}
				for _, mbr := range groups[gkeys[i]] {
					was := chosen[mbr]
					chosen[mbr] = true
					rec(i+1, chosen)
					if !was {
						delete(chosen, mbr)
					}
				}
			}
			rec(0, map[string]bool{})
			return explained
		}
		explained := explain(R)
		// the publisher holds a matching non-shared No Local subscription (v5): the broker merges all of a client's
		// matching subscriptions and lets No Local win (the open finding of C03), so the publisher's own copy is
		// withheld even when it is due to it as the representative of a share group
		pubNoLocal := false
		for f, st := range sn.Subs[ti.CID] {
			if _, _, sh, _ := reftopic.SplitShare(f); !sh && st.Opts.NoLocal && reftopic.MatchSub(f, ti.Topic) && run.Peers[ti.Peer].Version == 5 {
				pubNoLocal = true
			}
		}
		if !explained && pubNoLocal && R[ti.CID] == 0 {
			R2 := map[string]int{ti.CID: 1}
			for k, v := range R {
				R2[k] = v
			}
			if explain(R2) {
				r.Label("publisher-with-no-local-subscription-is-group-representative")
				ds = append(ds, evid.D("C06-publisher-chosen-for-its-group-gets-nothing-because-of-its-no-local-subscription", "%s: the receivers are explained only if publisher %s was chosen for its share group; it holds a matching non-shared No Local subscription, and its copy was withheld", desc, ti.CID))
				explained = true
			}
		}
		if !explained {
			sig := "C06-selection-not-one-per-group"
			// classify: a group without any receiver / more receivers than groups allow
			for _, k := range gkeys {
				any := false
				for _, mbr := range groups[k] {
					if R[mbr] > 0 {
						any = true
					}
				}
				if !any {
					sig = "C06-group-received-nothing"
				}
			}
			extra := 0
			for cid := range R {
				if !N[cid] {
					extra++
				}
			}
			if extra > len(gkeys) {
				sig = "C06-more-members-chosen-than-groups"
			}
			ds = append(ds, evid.D(sig, "%s: no choice of exactly one member per group explains the receivers", desc))
		}
		multi, also := false, false
		for _, k := range gkeys {
			if len(groups[k]) >= 2 {
				multi = true
			}
			for _, mbr := range groups[k] {
				if N[mbr] {
					also = true
				}
			}
		}
		if multi {
			r.NonTrivial(fmt.Sprintf("%v|%v|%s", groups, keysOf(N), ti.Topic))
			if also || len(gkeys) >= 2 {
				r.Label("member-entitled-another-way-or-several-groups")
			}
		}
	}
	return withTranscript(ds, run)
}

func keysOf(m map[string]bool) []string {
	out := []string{}
	for k := range m {
		out = append(out, k)
	}
	sort.Strings(out)
	return out
}

func TestC06(t *testing.T) {
	r := evid.New("C06", "rapid: 4 clients (clean sessions, v3.1.1/v5) subscribing to shared filters of 3 share names over overlapping topic filters plus non-shared filters (one in four with No Local), then 1-15 publishes at QoS 0-2 with prompt acknowledgements and large capacities; oracle: with N = clients entitled through non-shared subscriptions and G_i = connected members of each matching (share name, filter) group, the set R of receivers must equal N plus exactly one representative per group for some choice of representatives (brute force), and every receiver gets exactly one copy; non-trivial = a matching group with >=2 connected members; distinct by (groups, N, topic)")
	defer r.Finish(t)
	if evid.ReplayMode() {
		evid.Replay(t, r, replayPath(), c06Check)
		return
	}
	g := defaultHistGen()
	g.NClients = 4
	g.Versions = []byte{4, 5, 5}
	g.CleanStart, g.Expiry = []bool{true}, []uint32{0}
	g.SubOptions = false
	g.Topics = []string{"a", "a/b", "b"}
	g.Filters = []string{"$share/g/a", "$share/g/a/#", "$share/h/a", "$share/g/+", "$share/h/#", "$share/k/a/b", "$share/g/a/b", "a", "a/#", "#", "a/b", "+"}
	g.WSubscribe, g.WPublish, g.WUnsubscribe, g.WDisconnect, g.WDrop, g.WConnect = 8, 6, 1, 1, 0, 1
	evid.Run(t, r, func(rt *rapid.T) *hist.Case {
		c := g.Draw(rt)
		// non-shared subscriptions sometimes carry No Local (v5; ignored by the executor's model for older versions)
		for i := range c.Actions {
			if a := &c.Actions[i]; a.Kind == "subscribe" {
				for j := range a.Filters {
					if !strings.HasPrefix(a.Filters[j].Filter, "$share/") && rapid.IntRange(0, 3).Draw(rt, "nolocal") == 0 {
						a.Filters[j].NoLocal = true
					}
				}
			}
		}
		r.Sample(c.Summary())
		return c
	}, c06Check)
	_ = strings.Join
}
