package props

import (
	"bytes"
	"fmt"
	"regexp"
	"strings"
	"testing"

	"pgregory.net/rapid"
	"verif/harness/evid"
	"verif/harness/refmqtt"
)

// ---- C26: packet codec round-trips every well-formed packet -----------------------------------------

type c26Mods struct {
	AllowResponseInfo   bool   `json:"allow_response_info"`
	DisallowProblemInfo bool   `json:"disallow_problem_info,omitempty"`
	MaxSize             uint32 `json:"max_size,omitempty"`
}

type c26Case struct {
	P    *refmqtt.Packet   `json:"p,omitempty"`
	Dir  refmqtt.Direction `json:"dir"`
	Mods c26Mods           `json:"mods"`
	// byte-side case: a byte string; if the decoder accepts it, it must re-encode to an equivalent packet
	Bytes   []byte `json:"bytes,omitempty"`
	Version byte   `json:"version,omitempty"`
	// Ref (native fuzzing): if the strict reference decoder reads Bytes as exactly one packet (either direction), that
	// packet goes through the packet-side oracle; the case is kept as bytes because a present-but-empty binary field
	// does not survive the JSON form of a packet
	Ref bool `json:"ref,omitempty"`
}

var zeroLenDiff = regexp.MustCompile(`^(Will)?Props\.([A-Za-z]+: (""|)|MessageExpiry: 0) != <absent>$`)

// zeroLengthOnly: every difference is a property that the sender included with the value Go's zero value stands for
// (a string / binary property of length 0, a Message Expiry Interval of 0 - the other integer properties have presence
// flags or a specified default of 0) and that came back absent.
func zeroLengthOnly(d string) bool {
	if d == "" {
		return false
	}
	for _, part := range strings.Split(d, "; ") {
		if !zeroLenDiff.MatchString(part) {
			return false
		}
	}
	return true
}

func c26Suppress(p *refmqtt.Packet, m c26Mods) *refmqtt.Packet {
	q := *p
	strip := func(pr *refmqtt.Props) {
		if !m.AllowResponseInfo {
			pr.ResponseTopic, pr.CorrelationData, pr.ResponseInfo = nil, nil, nil
		}
		if m.DisallowProblemInfo || m.MaxSize > 0 {
			pr.ReasonString, pr.User = nil, nil
		}
	}
	strip(&q.Props)
	strip(&q.WillProps)
	return &q
}

func c26ZeroSig(d, sig string) string {
	if zeroLengthOnly(d) {
		return "C26-zero-length-property-not-preserved"
	}
	return sig
}

func c26StripSized(p *refmqtt.Packet) *refmqtt.Packet {
	q := *p
	q.Props.ReasonString, q.Props.User = nil, nil
	q.WillProps.ReasonString, q.WillProps.User = nil, nil
	return &q
}

func splitFixed(b []byte) (first byte, remaining int, body []byte, ok bool) {
	if len(b) < 2 {
		return 0, 0, nil, false
	}
	v, n, ok := refVBIDecode(b[1:])
	if !ok {
		return 0, 0, nil, false
	}
	return b[0], v, b[1+n:], true
}

func c26AckSig(p *refmqtt.Packet, base string) string {
	switch p.Type {
	case refmqtt.PUBACK, refmqtt.PUBREC, refmqtt.PUBREL, refmqtt.PUBCOMP:
		if p.Version == 5 && p.ReasonCode != 0 && p.ReasonCode < 0x80 {
			return base + "-ack-reason-below-0x80"
		}
	}
	return base + "-" + refmqtt.TypeName(p.Type)
}

func c26Check(c c26Case, r *evid.Rec) []evid.Disc {
	if c.P == nil && c.Ref {
		for _, dir := range []refmqtt.Direction{refmqtt.ClientToServer, refmqtt.ServerToClient} {
			if p, n, err := refmqtt.Decode(c.Bytes, c.Version, dir); err == nil && n == len(c.Bytes) {
				c.P, c.Dir, c.Mods = p, dir, c26Mods{AllowResponseInfo: true}
				r.Label("bytes-read-by-reference/" + refmqtt.TypeName(p.Type))
				if nontrivialPacket(p) {
					r.NonTrivial(shapeKey(p))
				}
				break
			}
		}
	}
	if c.P == nil {
		return c26CheckBytes(c, r)
	}
	p := c.P
	var ds []evid.Disc
	m := toMochi(p)
	m.Mods.AllowResponseInfo, m.Mods.DisallowProblemInfo, m.Mods.MaxSize = c.Mods.AllowResponseInfo, c.Mods.DisallowProblemInfo, c.Mods.MaxSize
	enc, err := mochiEncode(m)
	if err != nil {
		return []evid.Disc{evid.D("C26-encode-error-"+refmqtt.TypeName(p.Type), "%s: encoder returned %v", p, err)}
	}
	want := c26Suppress(p, c.Mods)
	if _, rem, body, ok := splitFixed(enc); !ok || rem != len(body) {
		ds = append(ds, evid.D("C26-remaining-length", "%s: encoded % x: remaining length field does not equal the %d bytes that follow", p, enc[:min(len(enc), 8)], len(body)))
		return ds
	}
	// (a) mochi decodes its own output to an equivalent packet
	m2, err := mochiDecode(enc, p.Version)
	if err != nil {
		ds = append(ds, evid.D(c26AckSig(p, "C26-self-decode-error"), "%s: own encoding % x rejected: %v", p, clip(enc), err))
	} else {
		got := fromMochi(&m2, p.Version)
		if c.Mods.MaxSize > 0 {
			got = c26StripSized(got)
		}
		if d := refmqtt.Diff(want, got); d != "" {
			ds = append(ds, evid.D(c26ZeroSig(d, c26AckSig(p, "C26-roundtrip-differs")), "%s: decode(encode(p)) differs: %s (bytes % x)", p, d, clip(enc)))
		}
	}
	// (b) the independent decoder reads mochi's bytes as the same packet
	rp, n, rerr := refmqtt.Decode(enc, p.Version, c.Dir)
	if rerr != nil {
		cls := "error"
		if de, ok := rerr.(*refmqtt.DecodeError); ok {
			cls = de.Class
		}
		ds = append(ds, evid.D(c26AckSig(p, "C26-reference-rejects-"+cls), "%s: reference decoder rejects mochi's encoding % x: %v", p, clip(enc), rerr))
	} else {
		if n != len(enc) {
			ds = append(ds, evid.D("C26-reference-length", "%s: reference decoder consumed %d of %d bytes", p, n, len(enc)))
		}
		if c.Mods.MaxSize > 0 {
			rp = c26StripSized(rp)
		}
		if d := refmqtt.Diff(want, rp); d != "" {
			ds = append(ds, evid.D(c26ZeroSig(d, c26AckSig(p, "C26-reference-differs")), "%s: reference decoder reads mochi's bytes differently: %s (bytes % x)", p, d, clip(enc)))
		}
	}
	// (c) mochi decodes the reference encoder's canonical bytes to p
	renc := refmqtt.Encode(p, refmqtt.Style{})
	m3, err := mochiDecode(renc, p.Version)
	if err != nil {
		ds = append(ds, evid.D("C26-decode-rejects-reference-"+refmqtt.TypeName(p.Type), "%s: reference encoding % x rejected: %v", p, clip(renc), err))
	} else if d := refmqtt.Diff(p, fromMochi(&m3, p.Version)); d != "" {
		ds = append(ds, evid.D(c26ZeroSig(d, "C26-decode-differs-"+refmqtt.TypeName(p.Type)), "%s: decode(reference bytes) differs: %s (bytes % x)", p, d, clip(renc)))
	}
	return ds
}

func clip(b []byte) []byte {
	if len(b) > 48 {
		return b[:48]
	}
	return b
}

// c26CheckBytes: any byte string the decoder accepts re-encodes to bytes that decode to an equivalent packet.
func c26CheckBytes(c c26Case, r *evid.Rec) []evid.Disc {
	m, err := mochiDecode(c.Bytes, c.Version)
	if err != nil {
		if len(err.Error()) > 5 && err.Error()[:5] == "PANIC" {
			return []evid.Disc{evid.D("C26-decode-panic", "% x (v%d): %v", clip(c.Bytes), c.Version, err)}
		}
		r.Label("bytes-rejected")
		return nil
	}
	r.Label("bytes-accepted")
	// Precondition every real caller respects: the broker validates a decoded packet before using it.
	switch m.FixedHeader.Type {
	case 1:
		if m.ConnectValidate().Code != 0 {
			r.Label("bytes-accepted-but-invalid")
			return nil
		}
	case 3:
		if m.PublishValidate(65535).Code != 0 {
			r.Label("bytes-accepted-but-invalid")
			return nil
		}
	case 8:
		if m.SubscribeValidate().Code != 0 {
			r.Label("bytes-accepted-but-invalid")
			return nil
		}
	case 10:
		if m.UnsubscribeValidate().Code != 0 {
			r.Label("bytes-accepted-but-invalid")
			return nil
		}
	case 15:
		if m.AuthValidate().Code != 0 {
			r.Label("bytes-accepted-but-invalid")
			return nil
		}
	}
	// ... and the byte string must be a well-formed packet by the specification (strict reference decoder, either
	// direction): for values the specification forbids (Maximum QoS 127, ...) no equivalence is claimed.
	if _, _, e1 := refmqtt.Decode(c.Bytes, c.Version, refmqtt.ClientToServer); e1 != nil {
		if _, _, e2 := refmqtt.Decode(c.Bytes, c.Version, refmqtt.ServerToClient); e2 != nil {
			r.Label("bytes-accepted-but-not-wellformed")
			return nil
		}
	}
	ver := c.Version
	if m.FixedHeader.Type == 1 {
		ver = m.ProtocolVersion
	}
	a := fromMochi(&m, ver)
	m.Mods.AllowResponseInfo = true
	enc, err := mochiEncode(m)
	if err != nil {
		// the encoder refuses some decoder-accepted packets on purpose (packet id 0): not a round-trip failure
		r.Label("bytes-accepted-not-encodable")
		return nil
	}
	m2, err := mochiDecode(enc, ver)
	if err != nil {
		return []evid.Disc{evid.D(c26AckSig(a, "C26-bytes-reencode-rejected"), "% x decodes to %s, re-encodes to % x which is rejected: %v", clip(c.Bytes), a, clip(enc), err)}
	}
	b := fromMochi(&m2, ver)
	if d := refmqtt.Diff(a, b); d != "" {
		return []evid.Disc{evid.D(c26AckSig(a, "C26-bytes-reencode-differs"), "% x decodes to %s; after re-encoding (% x) it decodes differently: %s", clip(c.Bytes), a, clip(enc), d)}
	}
	r.NonTrivial(fmt.Sprintf("b%x", c.Bytes))
	return nil
}

func genMods(rt *rapid.T) c26Mods {
	m := c26Mods{AllowResponseInfo: rapid.IntRange(0, 3).Draw(rt, "ari") != 0}
	if rapid.IntRange(0, 5).Draw(rt, "dpi") == 0 {
		m.DisallowProblemInfo = true
	}
	if rapid.IntRange(0, 5).Draw(rt, "maxsize") == 0 {
		m.MaxSize = rapid.SampledFrom([]uint32{20, 60, 200, 100000}).Draw(rt, "ms")
	}
	return m
}

// mutate derives a byte string from a valid encoding: truncation, byte flips, length edits.
func mutateBytes(rt *rapid.T, b []byte) []byte {
	out := append([]byte{}, b...)
	n := rapid.IntRange(0, 3).Draw(rt, "nmut")
	for i := 0; i < n && len(out) > 0; i++ {
		switch rapid.IntRange(0, 3).Draw(rt, "mut") {
		case 0:
			out[rapid.IntRange(0, len(out)-1).Draw(rt, "pos")] ^= byte(1 << rapid.IntRange(0, 7).Draw(rt, "bit"))
		case 1:
			out[rapid.IntRange(0, len(out)-1).Draw(rt, "pos")] = rapid.SampledFrom([]byte{0, 1, 0x7F, 0x80, 0xFF}).Draw(rt, "val")
		case 2:
			k := rapid.IntRange(2, len(out)).Draw(rt, "cut")
			out = out[:k]
		case 3:
			pos := rapid.IntRange(0, len(out)).Draw(rt, "ins")
			out = append(out[:pos], append([]byte{rapid.Byte().Draw(rt, "b")}, out[pos:]...)...)
		}
	}
	// re-frame so that the remaining length matches (otherwise almost everything dies in framing)
	if len(out) >= 2 && rapid.IntRange(0, 4).Draw(rt, "reframe") != 0 {
		if _, _, body, ok := splitFixed(out); ok {
			out = refmqtt.RawPacket(out[0], body)
		}
	}
	return out
}

func TestC26(t *testing.T) {
	r := evid.New("C26", "rapid: well-formed abstract packets of all 15 types x versions {3,4,5} x legal directions with generated field values (empty/boundary-length strings and binaries, multi-byte UTF-8, boundary integers, 0-5 user properties, 0-4 subscription identifiers, every property permitted for the type) and generated encoder Mods; oracle: decode(encode(p)) == p after the documented suppressions, remaining length == bytes that follow, the independent reference decoder reads mochi's bytes as p, and mochi reads the reference encoder's bytes as p; fixed witnesses of zero-length properties (the generated optional strings / binaries are non-empty); byte side: mutated/truncated valid encodings - whatever the decoder accepts must survive re-encoding; non-trivial = packet with >=1 property, >=2 filters/codes or a boundary-length field (distinct by type/version/shape), or an accepted mutated byte string")
	defer r.Finish(t)
	if evid.ReplayMode() {
		evid.Replay(t, r, replayPath(), c26Check)
		return
	}
	// witnesses of the listed finding (a property present with length 0): the generators below draw optional strings
	// and binaries non-empty, so these fixed packets make every run report the finding or its absence
	for _, w := range [][]byte{
		{0x30, 0x09, 0x00, 0x03, '0', '0', '0', 0x03, 0x09, 0x00, 0x00}, // PUBLISH, Correlation Data of length 0
		{0x30, 0x09, 0x00, 0x02, '0', '0', 0x03, 0x03, 0x00, 0x00, '0'}, // PUBLISH, Content Type ""
		{0xE0, 0x05, 0x00, 0x03, 0x1F, 0x00, 0x00},                      // DISCONNECT, Reason String ""
	} {
		r.Eval()
		evid.Witness(t, r, c26Case{Bytes: w, Version: 5, Ref: true}, c26Check)
	}
	evid.Run(t, r, func(rt *rapid.T) c26Case {
		p, dir := genAnyPacket(rt, nil)
		if rapid.IntRange(0, 3).Draw(rt, "byteside") == 0 {
			enc := refmqtt.Encode(p, refmqtt.Style{})
			c := c26Case{Bytes: mutateBytes(rt, enc), Version: p.Version}
			return c
		}
		c := c26Case{P: p, Dir: dir, Mods: genMods(rt)}
		r.Label(refmqtt.TypeName(p.Type) + fmt.Sprintf("/v%d", p.Version))
		if nontrivialPacket(p) {
			r.NonTrivial(shapeKey(p))
		}
		r.Sample(p.String())
		return c
	}, c26Check)
}

var _ = bytes.Equal
