package props

import (
	"fmt"
	"sort"
	"testing"

	"pgregory.net/rapid"
	"verif/harness/evid"
	"verif/harness/hist"
	"verif/harness/refmqtt"
	"verif/harness/reftopic"
)

// ---- C05: retained store reflects the latest retained publish per topic --------------------------------

func c05Check(c *hist.Case, r *evid.Rec) []evid.Disc {
	run := runCase(c, r)
	if run == nil {
		return nil
	}
	m := hist.Analyze(run)
	retained := map[string]int{} // topic -> tag of the latest retained publish
	overwrites := map[string]bool{}
	var ds []evid.Disc
	// a will is a publish by the broker: it counts from the step in which some connection first received it (the
	// histories with wills keep an observer subscribed to everything)
	willAt := map[int][]int{}
	seenWill := map[int]bool{}
	for _, s := range run.Steps {
		for _, o := range s.Obs {
			if o.P.Type != refmqtt.PUBLISH {
				continue
			}
			tag := hist.TagOf(o.P.Payload)
			if ti := run.Tags[tag]; ti != nil && ti.Will && !seenWill[tag] {
				seenWill[tag] = true
				willAt[s.I] = append(willAt[s.I], tag)
			}
		}
	}
	for _, s := range run.Steps {
		for _, tag := range willAt[s.I] {
			ti := run.Tags[tag]
			r.Label("will-published/retain=" + fmt.Sprint(ti.Retain))
			if s.A.Kind == "subscribe" || s.A.Kind == "publish" {
				ds = append(ds, evid.D("C05-will-published-in-unexpected-step", "step %d (%s): will m%d was first seen in a step that cannot release a will", s.I, s.A.String(), tag))
			}
			if !ti.Retain || c.Cfg.RetainUnavailable {
				continue
			}
			if _, had := retained[ti.Topic]; had {
				overwrites[ti.Topic] = true
			}
			retained[ti.Topic] = tag
			overwrites[ti.Topic] = true // a will route counts as non-trivial for the replay that follows
		}
		switch {
		case s.A.Kind == "publish" && !s.Skipped && s.Tag > 0 && s.A.Retransmit == 0:
			ti := run.Tags[s.Tag]
			sn := m.Snaps[s.Tag]
			if sn == nil || sn.Connected[ti.CID] != ti.Peer || !ti.Retain || c.Cfg.RetainUnavailable {
				continue
			}
			if run.Peers[ti.Peer].ClosedAt == s.I {
				continue // the publisher's connection ended in this very step: whether the publish was processed is not observable
			}
			if _, had := retained[ti.Topic]; had {
				overwrites[ti.Topic] = true
			}
			if ti.Empty {
				delete(retained, ti.Topic)
			} else {
				retained[ti.Topic] = s.Tag
			}
		case s.A.Kind == "subscribe" && !s.Skipped:
			p := run.Peers[s.Peer]
			if p.BlindAt(s.I) {
				continue
			}
			var ev *hist.SubEvent
			for _, e := range m.SubEvents {
				if e.Step == s.I {
					ev = e
				}
			}
			if ev == nil || !ev.Acked {
				continue
			}
			want := map[int]int{}
			optional := map[int]bool{}
			for i, f := range s.A.Filters {
				if i >= len(ev.Codes) || ev.Codes[i] >= 0x80 {
					continue
				}
				rh := f.RH
				if p.Version != 5 {
					rh = 0
				}
				_, _, shared, _ := reftopic.SplitShare(f.Filter)
				if shared || rh == 2 || (rh == 1 && ev.Existed[i]) || c.Cfg.RetainUnavailable {
					r.Label(fmt.Sprintf("no-replay/shared=%v,rh=%d,existed=%v,unavailable=%v", shared, rh, ev.Existed[i], c.Cfg.RetainUnavailable))
					continue
				}
				for topic, tag := range retained {
					if reftopic.Match(f.Filter, topic) {
						if f.NoLocal && p.Version == 5 && run.Tags[tag].CID == p.CID {
							// the subscriber's own retained message under No Local: the statement is silent; either outcome accepted
							optional[tag] = true
							r.NotAsserted()
							continue
						}
						want[tag]++
						if overwrites[topic] {
							r.NonTrivial(fmt.Sprintf("%s|%d|%s|%s|%d|rh%d", caseKey(c), s.I, f.Filter, topic, tag, rh))
							r.Label("replay-after-overwrite-or-delete")
						}
					}
				}
			}
			got := map[int]int{}
			for _, o := range s.Obs {
				if o.Peer != p.ID || o.P.Type != refmqtt.PUBLISH {
					continue
				}
				tag := hist.TagOf(o.P.Payload)
				got[tag]++
				if tag == 0 {
					ds = append(ds, evid.D("C05-untagged-replay", "step %d: %s received an untagged/empty PUBLISH on %q in response to SUBSCRIBE", s.I, p.CID, o.P.Topic))
					continue
				}
				if want[tag] > 0 && !o.P.Retain {
					ds = append(ds, evid.D("C05-replay-without-retain-flag", "step %d: retained m%d replayed to %s without the retain flag", s.I, tag, p.CID))
				}
			}
			tags := map[int]bool{}
			for t := range want {
				tags[t] = true
			}
			for t := range got {
				tags[t] = true
			}
			ts := []int{}
			for t := range tags {
				ts = append(ts, t)
			}
			sort.Ints(ts)
			for _, t := range ts {
				if t == 0 || got[t] == want[t] || (optional[t] && got[t] <= want[t]+1) {
					continue
				}
				ti := run.Tags[t]
				sig := "C05-replay-mismatch"
				switch {
				case want[t] == 0 && c.Cfg.RetainUnavailable:
					sig = "C05-retained-while-unavailable"
				case want[t] == 0 && ti != nil && retained[ti.Topic] != t:
					sig = "C05-stale-or-deleted-message-replayed"
				case want[t] == 0:
					sig = "C05-unexpected-replay"
				case got[t] == 0:
					sig = "C05-missing-replay"
				case got[t] > want[t]:
					sig = "C05-duplicate-replay"
				}
				topic := ""
				if ti != nil {
					topic = ti.Topic
				}
				ds = append(ds, evid.D(sig, "step %d: %s subscribed %s: retained m%d (topic %q) received %d times, expected %d (retained store per model: %v)", s.I, p.CID, s.A.String(), t, topic, got[t], want[t], retained))
			}
		}
	}
	return withTranscript(ds, run)
}

// c05GenWills: the retained store is also written by wills (immediate ones at the end of a connection, delayed ones
// by the housekeeping or a clean-start reconnect) and read by the retained-expiry housekeeping. Three clients with
// retained wills on the publish topics, an observer subscribed to everything (so that the step in which a will is
// published is seen on the wire), retained publishes on the same topics, drops, reconnects, ticks, subscriptions.
func c05GenWills(rt *rapid.T) *hist.Case {
	c := &hist.Case{}
	topics := []string{"a", "a/b", "b"}
	filters := []string{"a", "a/b", "a/#", "#", "+", "a/+", "+/#", "b"}
	versions := []byte{pick(rt, "v0", []byte{4, 5, 5}), pick(rt, "v1", []byte{5, 5, 4}), 5}
	connect := func(cl int) hist.Action {
		a := hist.Action{Kind: "connect", Client: cl, Version: versions[cl], Clean: rapid.IntRange(0, 2).Draw(rt, "clean") != 0, AutoAck: true}
		if rapid.IntRange(0, 4).Draw(rt, "will") != 0 {
			a.Will = &hist.WillSpec{Topic: pick(rt, "willtopic", topics), QoS: byte(rapid.IntRange(0, 1).Draw(rt, "wq")), Retain: rapid.IntRange(0, 4).Draw(rt, "wr") != 0}
			if versions[cl] == 5 && rapid.Bool().Draw(rt, "delayed") {
				d, e := uint32(30), uint32(100)
				a.Will.Delay, a.Expiry = &d, &e
			}
		}
		if versions[cl] == 5 && !a.Clean && a.Expiry == nil {
			e := uint32(100)
			a.Expiry = &e
		}
		return a
	}
	c.Actions = append(c.Actions, hist.Action{Kind: "connect", Client: 3, Version: 4, Clean: true, AutoAck: true},
		hist.Action{Kind: "subscribe", Client: 3, Filters: []refmqtt.Filter{{Filter: "#", QoS: 0}}})
	for cl := 0; cl < 3; cl++ {
		c.Actions = append(c.Actions, connect(cl))
	}
	action := rapid.Custom(func(rt *rapid.T) hist.Action {
		cl := rapid.IntRange(0, 2).Draw(rt, "client")
		switch rapid.IntRange(0, 13).Draw(rt, "kind") {
		case 0, 1, 2:
			f := refmqtt.Filter{Filter: pick(rt, "filter", filters), QoS: byte(rapid.IntRange(0, 1).Draw(rt, "sq"))}
			return hist.Action{Kind: "subscribe", Client: cl, Filters: []refmqtt.Filter{f}}
		case 3, 4:
			return hist.Action{Kind: "publish", Client: cl, Topic: pick(rt, "topic", topics), QoS: byte(rapid.IntRange(0, 1).Draw(rt, "pq")), Retain: true, Empty: rapid.IntRange(0, 3).Draw(rt, "empty") == 0}
		case 5, 6, 7:
			return hist.Action{Kind: "drop", Client: cl}
		case 8:
			return hist.Action{Kind: "disconnect", Client: cl}
		case 9, 10:
			return connect(cl)
		case 11:
			return hist.Action{Kind: "tick", Tick: "wills", Offset: pick(rt, "woff", []int64{0, 40, 40, 1000})}
		case 12:
			return hist.Action{Kind: "tick", Tick: "retained", Offset: pick(rt, "roff", []int64{0, 50, 1000, 20000})}
		default:
			return hist.Action{Kind: "unsubscribe", Client: cl, Filters: []refmqtt.Filter{{Filter: pick(rt, "filter", filters)}}}
		}
	})
	c.Actions = append(c.Actions, rapid.SliceOfN(action, 4, 24).Draw(rt, "actions")...)
	// at the end: every will that is still parked is released, the retained-expiry housekeeping runs once more (nothing
	// here carries a message expiry and the server maximum is a day), and a fresh subscriber reads the whole store
	c.Actions = append(c.Actions, hist.Action{Kind: "tick", Tick: "wills", Offset: 2000}, hist.Action{Kind: "tick", Tick: "retained", Offset: 20000},
		hist.Action{Kind: "connect", Client: 2, Version: 5, Clean: true, AutoAck: true},
		hist.Action{Kind: "subscribe", Client: 2, Filters: []refmqtt.Filter{{Filter: "#", QoS: 1}}})
	return c
}

func TestC05(t *testing.T) {
	r := evid.New("C05", "rapid: histories over 4 topics with retained / non-retained / empty-payload publishes interleaved with subscribe and re-subscribe (1-3 filters per SUBSCRIBE, same filter again, Retain Handling 0/1/2, invalid filters that are refused in between), shared filters, unsubscribe, reconnects; server retain available on/off; one case in four instead has retained wills (immediate and delayed, v3.1.1/v5) on the publish topics, drops, reconnects, will and retained-expiry housekeeping ticks and an observer that shows when each will was published; oracle: after each acknowledged SUBSCRIBE the retained PUBLISH packets received (by tag, retain flag set) equal the model's matching entries iff RH=0, or RH=1 and the subscription is new; none for RH=2, existing RH=1, shared filters or retain unavailable; non-trivial = a replayed topic that was overwritten or deleted earlier, or written by a will; distinct by (history, step, filter, topic, tag, RH)")
	defer r.Finish(t)
	if evid.ReplayMode() {
		evid.Replay(t, r, replayPath(), c05Check)
		return
	}
	g := defaultHistGen()
	g.Retain, g.EmptyPayload, g.MultiFilter = true, true, true
	g.Topics = []string{"a", "a/b", "b", "$x/a"}
	// "a/#/x" and "b+" are invalid filters: inside a SUBSCRIBE with several filters they are refused one by one, and the
	// filters around them are still owed their retained messages according to their own options
	g.Filters = []string{"a", "a/b", "a/#", "#", "+", "a/+", "+/b", "+/#", "b", "$x/#", "$share/g/a", "$share/g/#", "$share/h/a/+", "a/#/x", "b+"}
	g.WSubscribe, g.WPublish, g.WUnsubscribe, g.WDisconnect, g.WDrop, g.WConnect = 6, 8, 2, 0, 1, 1
	g.InitAll, g.RetainBias = true, 3
	g.MinActions = 8
	evid.Run(t, r, func(rt *rapid.T) *hist.Case {
		if rapid.IntRange(0, 3).Draw(rt, "wills") == 0 {
			c := c05GenWills(rt)
			r.Sample(c.Summary())
			return c
		}
		c := g.Draw(rt)
		c.Cfg.RetainUnavailable = rapid.IntRange(0, 4).Draw(rt, "unavailable") == 0
		r.Sample(append([]string{fmt.Sprintf("retain unavailable=%v", c.Cfg.RetainUnavailable)}, c.Summary()...))
		return c
	}, c05Check)
}
