package props

import (
	"fmt"
	"sort"
	"testing"

	"pgregory.net/rapid"
	"verif/harness/evid"
	"verif/harness/hist"
	"verif/harness/refmqtt"
	"verif/harness/reftopic"
)

// ---- C05: retained store reflects the latest retained publish per topic --------------------------------

func c05Check(c *hist.Case, r *evid.Rec) []evid.Disc {
	run := runCase(c, r)
	if run == nil {
		return nil
	}
	m := hist.Analyze(run)
	retained := map[string]int{} // topic -> tag of the latest retained publish
	overwrites := map[string]bool{}
	var ds []evid.Disc
	for _, s := range run.Steps {
		switch {
		case s.A.Kind == "publish" && !s.Skipped && s.Tag > 0 && s.A.Retransmit == 0:
			ti := run.Tags[s.Tag]
			sn := m.Snaps[s.Tag]
			if sn == nil || sn.Connected[ti.CID] != ti.Peer || !ti.Retain || c.Cfg.RetainUnavailable {
				continue
			}
			if run.Peers[ti.Peer].ClosedAt == s.I {
				continue // the publisher's connection ended in this very step: whether the publish was processed is not observable
			}
			if _, had := retained[ti.Topic]; had {
				overwrites[ti.Topic] = true
			}
			if ti.Empty {
				delete(retained, ti.Topic)
			} else {
				retained[ti.Topic] = s.Tag
			}
		case s.A.Kind == "subscribe" && !s.Skipped:
			p := run.Peers[s.Peer]
			if p.BlindAt(s.I) {
				continue
			}
			var ev *hist.SubEvent
			for _, e := range m.SubEvents {
				if e.Step == s.I {
					ev = e
				}
			}
			if ev == nil || !ev.Acked {
				continue
			}
			want := map[int]int{}
			optional := map[int]bool{}
			for i, f := range s.A.Filters {
				if i >= len(ev.Codes) || ev.Codes[i] >= 0x80 {
					continue
				}
				rh := f.RH
				if p.Version != 5 {
					rh = 0
				}
				_, _, shared, _ := reftopic.SplitShare(f.Filter)
				if shared || rh == 2 || (rh == 1 && ev.Existed[i]) || c.Cfg.RetainUnavailable {
					r.Label(fmt.Sprintf("no-replay/shared=%v,rh=%d,existed=%v,unavailable=%v", shared, rh, ev.Existed[i], c.Cfg.RetainUnavailable))
					continue
				}
				for topic, tag := range retained {
					if reftopic.Match(f.Filter, topic) {
						if f.NoLocal && p.Version == 5 && run.Tags[tag].CID == p.CID {
							// the subscriber's own retained message under No Local: the statement is silent; either outcome accepted
							optional[tag] = true
							r.NotAsserted()
							continue
						}
						want[tag]++
						if overwrites[topic] {
							r.NonTrivial(fmt.Sprintf("%s|%d|%s|%s|%d|rh%d", caseKey(c), s.I, f.Filter, topic, tag, rh))
							r.Label("replay-after-overwrite-or-delete")
						}
					}
				}
			}
			got := map[int]int{}
			for _, o := range s.Obs {
				if o.Peer != p.ID || o.P.Type != refmqtt.PUBLISH {
					continue
				}
				tag := hist.TagOf(o.P.Payload)
				got[tag]++
				if tag == 0 {
					ds = append(ds, evid.D("C05-untagged-replay", "step %d: %s received an untagged/empty PUBLISH on %q in response to SUBSCRIBE", s.I, p.CID, o.P.Topic))
					continue
				}
				if want[tag] > 0 && !o.P.Retain {
					ds = append(ds, evid.D("C05-replay-without-retain-flag", "step %d: retained m%d replayed to %s without the retain flag", s.I, tag, p.CID))
				}
			}
			tags := map[int]bool{}
			for t := range want {
				tags[t] = true
			}
			for t := range got {
				tags[t] = true
			}
			ts := []int{}
			for t := range tags {
				ts = append(ts, t)
			}
			sort.Ints(ts)
			for _, t := range ts {
				if t == 0 || got[t] == want[t] || (optional[t] && got[t] <= want[t]+1) {
					continue
				}
				ti := run.Tags[t]
				sig := "C05-replay-mismatch"
				switch {
				case want[t] == 0 && c.Cfg.RetainUnavailable:
					sig = "C05-retained-while-unavailable"
				case want[t] == 0 && ti != nil && retained[ti.Topic] != t:
					sig = "C05-stale-or-deleted-message-replayed"
				case want[t] == 0:
					sig = "C05-unexpected-replay"
				case got[t] == 0:
					sig = "C05-missing-replay"
				case got[t] > want[t]:
					sig = "C05-duplicate-replay"
				}
				topic := ""
				if ti != nil {
					topic = ti.Topic
				}
				ds = append(ds, evid.D(sig, "step %d: %s subscribed %s: retained m%d (topic %q) received %d times, expected %d (retained store per model: %v)", s.I, p.CID, s.A.String(), t, topic, got[t], want[t], retained))
			}
		}
	}
	return withTranscript(ds, run)
}

func TestC05(t *testing.T) {
	r := evid.New("C05", "rapid: histories over 4 topics with retained / non-retained / empty-payload publishes interleaved with subscribe and re-subscribe (same filter, Retain Handling 0/1/2), shared filters, unsubscribe, reconnects; server retain available on/off; oracle: after each acknowledged SUBSCRIBE the retained PUBLISH packets received (by tag, retain flag set) equal the model's matching entries iff RH=0, or RH=1 and the subscription is new; none for RH=2, existing RH=1, shared filters or retain unavailable; non-trivial = a replayed topic that was overwritten or deleted earlier; distinct by (history, step, filter, topic, tag, RH)")
	defer r.Finish(t)
	if evid.ReplayMode() {
		evid.Replay(t, r, replayPath(), c05Check)
		return
	}
	g := defaultHistGen()
	g.Retain, g.EmptyPayload, g.MultiFilter = true, true, false
	g.Topics = []string{"a", "a/b", "b", "$x/a"}
	g.Filters = []string{"a", "a/b", "a/#", "#", "+", "a/+", "+/b", "+/#", "b", "$x/#", "$share/g/a", "$share/g/#", "$share/h/a/+"}
	g.WSubscribe, g.WPublish, g.WUnsubscribe, g.WDisconnect, g.WDrop, g.WConnect = 6, 8, 2, 0, 1, 1
	g.InitAll, g.RetainBias = true, 3
	g.MinActions = 8
	evid.Run(t, r, func(rt *rapid.T) *hist.Case {
		c := g.Draw(rt)
		c.Cfg.RetainUnavailable = rapid.IntRange(0, 4).Draw(rt, "unavailable") == 0
		r.Sample(append([]string{fmt.Sprintf("retain unavailable=%v", c.Cfg.RetainUnavailable)}, c.Summary()...))
		return c
	}, c05Check)
}
