package props

import (
	"bytes"
	"fmt"
	"testing"

	"github.com/mochi-mqtt/server/v2/packets"
	"pgregory.net/rapid"
	"verif/harness/evid"
)

// ---- C29: variable byte integers are canonical and bounded ------------------------------------------

const vbiMax = 268435455

// refVBIDecode is the reference decoder, written from MQTT 5 §1.5.5: at most four bytes, the last of which
// has the continuation bit clear. ok=false for anything else (including truncated input).
func refVBIDecode(b []byte) (v int, n int, ok bool) {
	mult := 1
	for i := 0; i < len(b) && i < 4; i++ {
		v += int(b[i]&0x7F) * mult
		mult *= 128
		if b[i]&0x80 == 0 {
			return v, i + 1, true
		}
	}
	return 0, 0, false
}

func refVBILen(v int) int {
	switch {
	case v < 128:
		return 1
	case v < 16384:
		return 2
	case v < 2097152:
		return 3
	}
	return 4
}

type c29Enc struct {
	V int `json:"v"`
}
type c29Dec struct {
	B []byte `json:"b"`
}

func c29CheckEnc(c c29Enc, r *evid.Rec) []evid.Disc {
	var buf bytes.Buffer
	fh := packets.FixedHeader{Type: packets.Pingreq, Remaining: c.V}
	fh.Encode(&buf)
	enc := buf.Bytes()[1:]
	var ds []evid.Disc
	if len(enc) != refVBILen(c.V) {
		ds = append(ds, evid.D("C29-encode-not-minimal", "value %d encoded as % x (%d bytes, minimal is %d)", c.V, enc, len(enc), refVBILen(c.V)))
	}
	rv, rn, ok := refVBIDecode(enc)
	if !ok || rv != c.V || rn != len(enc) {
		ds = append(ds, evid.D("C29-encode-wrong-bytes", "value %d encoded as % x, reference decodes (%d,%d,%v)", c.V, enc, rv, rn, ok))
	}
	n, bu, err := packets.DecodeLength(bytes.NewReader(enc))
	if err != nil || n != c.V || bu != len(enc) {
		ds = append(ds, evid.D("C29-roundtrip", "value %d → % x → DecodeLength = (%d,%d,%v)", c.V, enc, n, bu, err))
	}
	return ds
}

func c29CheckDec(c c29Dec, r *evid.Rec) []evid.Disc {
	rv, rn, ok := refVBIDecode(c.B)
	rd := bytes.NewReader(c.B)
	n, bu, err := packets.DecodeLength(rd)
	consumed := len(c.B) - rd.Len()
	var ds []evid.Disc
	if ok {
		if err != nil {
			ds = append(ds, evid.D("C29-decode-rejects-valid", "% x: reference value %d, DecodeLength error %v", c.B, rv, err))
		} else if n != rv || bu != rn || consumed != rn {
			ds = append(ds, evid.D("C29-decode-wrong-value", "% x: reference (%d,%d), DecodeLength (%d,%d) consumed %d", c.B, rv, rn, n, bu, consumed))
		}
		return ds
	}
	if err == nil {
		sig := "C29-decode-accepts-invalid"
		if len(c.B) > 4 && c.B[0]&0x80 != 0 && c.B[1]&0x80 != 0 && c.B[2]&0x80 != 0 && c.B[3]&0x80 != 0 {
			sig = "C29-decode-accepts-more-than-4-bytes"
		}
		ds = append(ds, evid.D(sig, "% x: not a valid variable byte integer, DecodeLength returned (%d,%d)", c.B, n, bu))
	}
	return ds
}

func TestC29(t *testing.T) {
	r := evid.New("C29", "encoder: integer sweeps (all of 0..2^21, ±2000 around each 128^k boundary and the maximum; thorough: every value 0..268435455 split over shards) plus rapid-drawn values; decoder: every byte string of length<=6 over {00,01,7F,80,81,FF} plus rapid-drawn strings; a case is non-trivial when the value needs >=2 bytes or the string has >=1 continuation byte; sweeps are distinct by construction, random cases are hashed")
	defer r.Finish(t)

	if evid.ReplayMode() {
		evid.ReplayEither(t, r, c29CheckEnc, c29CheckDec)
		return
	}

	sweep := func(lo, hi int) {
		if lo < 0 {
			lo = 0
		}
		if hi > vbiMax {
			hi = vbiMax
		}
		var buf bytes.Buffer
		nt := int64(0)
		for v := lo; v <= hi; v++ {
			// fast path identical to c29CheckEnc, without allocation; falls back to the checker on any mismatch
			buf.Reset()
			fh := packets.FixedHeader{Type: packets.Pingreq, Remaining: v}
			fh.Encode(&buf)
			enc := buf.Bytes()[1:]
			rv, rn, ok := refVBIDecode(enc)
			n, bu, err := packets.DecodeLength(bytes.NewReader(enc))
			if len(enc) != refVBILen(v) || !ok || rv != v || rn != len(enc) || err != nil || n != v || bu != len(enc) {
				if un := evid.Direct(t, r, c29Enc{v}, c29CheckEnc); len(un) > 0 {
					return
				}
				continue
			}
			if v >= 128 {
				nt++
			}
		}
		r.EvalN(int64(hi - lo + 1))
		r.DistinctN(nt)
	}

	if evid.Thorough() {
		idx, n := evid.Shard()
		per := (vbiMax + 1 + n - 1) / n
		sweep(idx*per, idx*per+per-1)
		r.Exhaustive(n == 1)
		r.Set("encoder_range", fmt.Sprintf("[%d,%d] (shard %d of %d; all shards together cover 0..268435455)", idx*per, min(idx*per+per-1, vbiMax), idx, n))
	} else {
		sweep(0, 1<<21+2000)
		for _, b := range []int{1 << 28} {
			sweep(b-2000, b+2000)
		}
		r.Set("encoder_range", "0..2^21+2000 and 2^28-2000..2^28-1")
	}
	if t.Failed() {
		return
	}

	// decoder: exhaustive over the continuation-pattern alphabet
	alpha := []byte{0x00, 0x01, 0x7F, 0x80, 0x81, 0xFF}
	var rec func(prefix []byte)
	cnt := int64(0)
	rec = func(prefix []byte) {
		if len(prefix) > 0 {
			c := c29Dec{append([]byte{}, prefix...)}
			r.Eval()
			if un := r.Explain(c29CheckDec(c, r)); len(un) > 0 {
				r.Fail(c, un)
				t.Errorf("C29: [%s] %s", un[0].Sig, un[0].Msg)
			}
			if prefix[0]&0x80 != 0 {
				cnt++
			}
			if len(prefix) <= 6 && len(prefix) >= 5 {
				r.Sample(fmt.Sprintf("decode % x", prefix))
			}
		}
		if len(prefix) == 6 || t.Failed() {
			return
		}
		for _, a := range alpha {
			rec(append(prefix, a))
		}
	}
	rec(nil)
	r.DistinctN(cnt)
	if t.Failed() {
		return
	}

	// random part
	rapid.Check(t, func(rt *rapid.T) {
		if rapid.Bool().Draw(rt, "enc") {
			k := rapid.IntRange(0, 4).Draw(rt, "k")
			base := []int{0, 128, 16384, 2097152, vbiMax}[k]
			v := base + rapid.IntRange(-300000, 300000).Draw(rt, "d")
			if v < 0 {
				v = -v
			}
			if v > vbiMax {
				v = vbiMax - (v - vbiMax)
			}
			c := c29Enc{v}
			r.Eval()
			if v >= 128 {
				r.NonTrivial(fmt.Sprint("e", v))
			}
			r.Sample(fmt.Sprintf("encode %d", v))
			if un := r.Explain(c29CheckEnc(c, r)); len(un) > 0 {
				r.Fail(c, un)
				rt.Fatalf("[%s] %s", un[0].Sig, un[0].Msg)
			}
		} else {
			b := rapid.SliceOfN(rapid.OneOf(rapid.Byte(), rapid.SampledFrom(alpha)), 1, 8).Draw(rt, "b")
			c := c29Dec{b}
			r.Eval()
			if b[0]&0x80 != 0 {
				r.NonTrivial(fmt.Sprintf("d%x", b))
			}
			if un := r.Explain(c29CheckDec(c, r)); len(un) > 0 {
				r.Fail(c, un)
				rt.Fatalf("[%s] %s", un[0].Sig, un[0].Msg)
			}
		}
	})
}
