package props

import (
	"fmt"
	"strings"
	"testing"

	mqtt "github.com/mochi-mqtt/server/v2"
	"pgregory.net/rapid"
	"verif/harness/evid"
	"verif/harness/reftopic"
)

// ---- C30: filter and topic-name validation follows the MQTT rules (function level) -------------------

type c30Case struct {
	S          string `json:"s"`
	ForPublish bool   `json:"for_publish"`
}

func c30Check(c c30Case, r *evid.Rec) []evid.Disc {
	got := mqtt.IsValidFilter(c.S, c.ForPublish)
	if c.ForPublish {
		if ls := reftopic.Levels(c.S); ls[0] == "$share" {
			r.NotAsserted() // reserved namespace; the statement does not cover publishing to $share/...
			return nil
		}
		want := !strings.ContainsAny(c.S, "+#") && !strings.HasPrefix(c.S, "$SYS")
		if got != want {
			sig := fmt.Sprintf("C30-topic-%s", map[bool]string{true: "accepts-invalid", false: "rejects-valid"}[got])
			if !got && len(c.S) >= 4 && strings.EqualFold(c.S[:4], "$SYS") && c.S[:4] != "$SYS" && !strings.ContainsAny(c.S, "+#") {
				sig = "C30-topic-rejects-case-variant-of-$SYS"
			}
			if ls := reftopic.Levels(c.S); !got && strings.EqualFold(ls[0], "$share") && !strings.ContainsAny(c.S, "+#") {
				sig = "C30-topic-rejects-case-variant-of-$share"
			}
			return []evid.Disc{evid.D(sig, "IsValidFilter(%q, forPublish) = %v, reference %v", c.S, got, want)}
		}
		return nil
	}
	want := reftopic.ValidFilter(c.S)
	if got == want {
		return nil
	}
	sig := "C30-filter-rejects-valid"
	if ls := reftopic.Levels(c.S); !got && strings.EqualFold(ls[0], "$share") && ls[0] != "$share" {
		sig = "C30-filter-rejects-valid-with-case-variant-of-$share"
	}
	if got {
		sig = "C30-filter-accepts-invalid"
		name, rest, shared, ok := reftopic.SplitShare(c.S)
		plain := c.S
		if shared {
			plain = rest
		}
		switch {
		case shared && (!ok || rest == ""):
			sig = "C30-filter-accepts-share-without-filter"
		case shared && name == "":
			sig = "C30-filter-accepts-share-empty-name"
		case shared && strings.ContainsAny(name, "+#"):
			sig = "C30-filter-accepts-share-name-wildcard"
		default:
			for i, l := range reftopic.Levels(plain) {
				if strings.Contains(l, "#") && (l != "#" || i != len(reftopic.Levels(plain))-1) {
					sig = "C30-filter-accepts-hash-not-whole-last-level"
					break
				}
				if strings.Contains(l, "+") && l != "+" {
					sig = "C30-filter-accepts-plus-not-whole-level"
				}
			}
		}
	}
	return []evid.Disc{evid.D(sig, "IsValidFilter(%q, false) = %v, reference %v", c.S, got, want)}
}

func c30NonTrivial(s string) bool {
	return strings.ContainsAny(s, "+#$") || s == "" || strings.Contains(s, "//")
}

func TestC30(t *testing.T) {
	r := evid.New("C30", "exhaustive: every concatenation of <=6 tokens from {/,+,#,$,a,share,$share,$SYS} (de-duplicated), each judged as subscription filter and as publish topic against reftopic; rapid: random strings over a wider alphabet incl. multi-byte runes and mixed-case variants of the reserved prefixes ($sys, $Share); fixed witnesses for those variants; non-trivial = string contains a wildcard, '$', an empty level or is empty; distinct by (string, mode)")
	defer r.Finish(t)
	if evid.ReplayMode() {
		evid.Replay(t, r, replayPath(), c30Check)
		return
	}
	// case variants of the reserved prefixes (found by the random strings of the thorough tier; the token alphabet
	// below has none): a fixed set of witnesses, so that every run reports the listed findings or their absence
	for _, w := range []c30Case{{"$sYs/a", true}, {"$sys", true}, {"$Sys/x/y", true}, {"$sYs/a", false}, {"$Share//a", false}, {"$SHARE/g", false}, {"$Share/g/a", false}} {
		evid.Witness(t, r, w, c30Check)
		r.Eval()
	}
	tokens := []string{"/", "+", "#", "$", "a", "share", "$share", "$SYS"}
	seen := map[string]struct{}{}
	var rec func(prefix string, depth int)
	stop := false
	rec = func(prefix string, depth int) {
		if stop {
			return
		}
		if _, ok := seen[prefix]; !ok {
			seen[prefix] = struct{}{}
			for _, fp := range []bool{false, true} {
				c := c30Case{prefix, fp}
				r.Eval()
				if un := r.Explain(c30Check(c, r)); len(un) > 0 {
					r.Fail(c, un)
					t.Errorf("C30: [%s] %s", un[0].Sig, un[0].Msg)
					if r.FailCount() > 20 {
						stop = true
					}
				}
				if c30NonTrivial(prefix) {
					r.DistinctN(1)
				}
			}
			if len(seen)%40000 == 1 {
				r.Sample(fmt.Sprintf("%q filter:%v topic:%v", prefix, mqtt.IsValidFilter(prefix, false), mqtt.IsValidFilter(prefix, true)))
			}
		}
		if depth == 6 {
			return
		}
		for _, tk := range tokens {
			rec(prefix+tk, depth+1)
		}
	}
	rec("", 0)
	r.Set("enumerated_strings", len(seen))
	r.Exhaustive(false) // exhaustive for its bound only; the random part below is not
	if t.Failed() {
		return
	}
	runes := []rune{'/', '/', '+', '#', '$', 'a', 'b', 's', 'S', 'Y', 'é', '日', ' '}
	gen := func(rt *rapid.T) c30Case {
		var s string
		if rapid.Bool().Draw(rt, "tok") {
			s = strings.Join(rapid.SliceOfN(rapid.SampledFrom(append(tokens, "b", "g", "//", "+/", "/#", "$sys", "$Sys", "$Share", "$SHARE")), 0, 10).Draw(rt, "toks"), "")
		} else {
			s = string(rapid.SliceOfN(rapid.SampledFrom(runes), 0, 12).Draw(rt, "runes"))
		}
		return c30Case{s, rapid.Bool().Draw(rt, "pub")}
	}
	evid.Run(t, r, func(rt *rapid.T) c30Case {
		c := gen(rt)
		if c30NonTrivial(c.S) {
			r.NonTrivial(fmt.Sprintf("%q/%v", c.S, c.ForPublish))
		}
		r.Sample(fmt.Sprintf("%q forPublish=%v → %v", c.S, c.ForPublish, mqtt.IsValidFilter(c.S, c.ForPublish)))
		return c
	}, c30Check)
}
