package props

import (
	"fmt"
	"sort"
	"strings"
	"testing"

	mqtt "github.com/mochi-mqtt/server/v2"
	"github.com/mochi-mqtt/server/v2/packets"
	"pgregory.net/rapid"
	"verif/harness/evid"
	"verif/harness/reftopic"
)

// ---- C01: subscription matching selects exactly the MQTT-matching subscribers ------------------------

type c01Op struct {
	Unsub  bool   `json:"unsub,omitempty"`
	Kind   string `json:"kind"` // client | shared | inline
	Client string `json:"client,omitempty"`
	ID     int    `json:"id,omitempty"`
	Filter string `json:"filter"` // full filter (shared ones include $share/<g>/)
}

type c01Case struct {
	Ops    []c01Op  `json:"ops"`
	Topics []string `json:"topics"`
}

func (o c01Op) key() string {
	if o.Kind == "inline" {
		return fmt.Sprintf("inline|%d|%s", o.ID, o.Filter)
	}
	return fmt.Sprintf("%s|%s|%s", o.Kind, o.Client, o.Filter)
}

func c01Apply(x *mqtt.TopicsIndex, model map[string]c01Op, ops []c01Op) {
	for _, o := range ops {
		switch {
		case o.Kind == "inline" && !o.Unsub:
			x.InlineSubscribe(mqtt.InlineSubscription{Subscription: packets.Subscription{Filter: o.Filter, Identifier: o.ID},
				Handler: func(*mqtt.Client, packets.Subscription, packets.Packet) {}})
			model[o.key()] = o
		case o.Kind == "inline":
			x.InlineUnsubscribe(o.ID, o.Filter)
			delete(model, o.key())
		case !o.Unsub:
			x.Subscribe(o.Client, packets.Subscription{Filter: o.Filter, Qos: 1})
			model[o.key()] = o
		default:
			x.Unsubscribe(o.Filter, o.Client)
			delete(model, o.key())
		}
	}
}

// c01Classify gives the narrow signature of one wrongly selected / wrongly omitted subscription.
func c01Classify(missing bool, o c01Op, topic string) string {
	plain := o.Filter
	if _, rest, shared, _ := reftopic.SplitShare(o.Filter); shared {
		plain = rest
	}
	fl, tl := reftopic.Levels(plain), reftopic.Levels(topic)
	if missing {
		if len(fl) >= 2 && fl[len(fl)-1] == "#" && len(tl) == len(fl)-1 {
			if fl[len(fl)-2] == "+" {
				return "C01-missing-" + o.Kind + "-parent-of-plus-hash"
			}
			return "C01-missing-" + o.Kind + "-parent-of-hash"
		}
		return "C01-missing-" + o.Kind
	}
	if topic[0] == '$' && (plain[0] == '+' || plain[0] == '#') {
		return "C01-extra-" + o.Kind + "-dollar-topic-leading-wildcard"
	}
	return "C01-extra-" + o.Kind
}

func c01Check(c c01Case, r *evid.Rec) []evid.Disc {
	x := mqtt.NewTopicsIndex()
	model := map[string]c01Op{}
	c01Apply(x, model, c.Ops)
	var ds []evid.Disc
	for _, topic := range c.Topics {
		subs := x.Subscribers(topic)
		got := map[string]bool{}
		for cl := range subs.Subscriptions {
			got["client|"+cl] = true
		}
		for f, m := range subs.Shared {
			for cl := range m {
				got["shared|"+cl+"|"+f] = true
			}
		}
		for id := range subs.InlineSubscriptions {
			got[fmt.Sprintf("inline|%d", id)] = true
		}
		want := map[string]c01Op{}
		near := map[string]c01Op{} // a representative non-matching subscription per result key, for classification of extras
		for _, o := range model {
			var k string
			switch o.Kind {
			case "client":
				k = "client|" + o.Client
			case "shared":
				k = "shared|" + o.Client + "|" + o.Filter
			case "inline":
				k = fmt.Sprintf("inline|%d", o.ID)
			}
			if reftopic.MatchSub(o.Filter, topic) {
				want[k] = o
			} else {
				near[k] = o
			}
		}
		keys := []string{}
		for k := range want {
			keys = append(keys, k)
		}
		for k := range got {
			if _, ok := want[k]; !ok {
				keys = append(keys, k)
			}
		}
		sort.Strings(keys)
		nontrivial := len(want) > 0 && len(want) < len(model)
		for _, k := range keys {
			o, w := want[k]
			if w && !got[k] {
				ds = append(ds, evid.D(c01Classify(true, o, topic), "topic %q: subscription %s filter %q matches but was not selected", topic, k, o.Filter))
			} else if !w && got[k] {
				o := near[k]
				ds = append(ds, evid.D(c01Classify(false, o, topic), "topic %q: %s selected although none of its filters matches (e.g. %q)", topic, k, o.Filter))
			}
		}
		if nontrivial {
			ks := make([]string, 0, len(model))
			for k := range model {
				ks = append(ks, k)
			}
			sort.Strings(ks)
			r.NonTrivial(strings.Join(ks, ";") + "=>" + topic)
		}
	}
	return ds
}

var c01Levels = []string{"a", "b", "", "$x", "$SYS"}

func c01Filters(depth int) []string {
	var out []string
	var rec func(prefix []string)
	rec = func(prefix []string) {
		if len(prefix) > 0 {
			out = append(out, strings.Join(prefix, "/"))
		}
		if len(prefix) < depth {
			out = append(out, strings.Join(append(append([]string{}, prefix...), "#"), "/"))
			for _, l := range append(append([]string{}, c01Levels...), "+") {
				rec(append(append([]string{}, prefix...), l))
			}
		}
	}
	rec(nil)
	res := out[:0]
	for _, f := range out {
		if reftopic.ValidPlainFilter(f) {
			res = append(res, f)
		}
	}
	return res
}

func c01Topics(depth int) []string {
	var out []string
	var rec func(prefix []string)
	rec = func(prefix []string) {
		if len(prefix) > 0 {
			if t := strings.Join(prefix, "/"); t != "" {
				out = append(out, t)
			}
		}
		if len(prefix) < depth {
			for _, l := range c01Levels {
				rec(append(append([]string{}, prefix...), l))
			}
		}
	}
	rec(nil)
	return out
}

func TestC01(t *testing.T) {
	r := evid.New("C01", "exhaustive: every valid filter of depth<=3 over levels {a,b,'',$x,$SYS,+} with optional trailing # (plain, under $share/g/, and inline) x every topic name of depth<=3 over {a,b,'',$x,$SYS}, one subscription at a time; rapid: 1-8 subscriptions of 3 clients, 2 share groups and 3 inline ids at depth<=6 with subscribe/unsubscribe churn (removals also requested by clients / ids that may not hold the subscription), 1-5 topics, half of them derived from a subscribed filter; expected sets from reftopic.Match, compared in both directions; non-trivial = expected set neither empty nor everything (random) / filter has a wildcard, '$' or empty level (exhaustive); distinct by (sorted subscription set, topic)")
	defer r.Finish(t)
	if evid.ReplayMode() {
		evid.Replay(t, r, replayPath(), c01Check)
		return
	}
	filters, topics := c01Filters(3), c01Topics(3)
	r.Set("exhaustive_filters", len(filters))
	r.Set("exhaustive_topics", len(topics))
	failed := 0
	for _, f := range filters {
		for _, kind := range []string{"client", "shared", "inline"} {
			o := c01Op{Kind: kind, Client: "c1", ID: 1, Filter: f}
			if kind == "shared" {
				o.Filter = "$share/g/" + f
			}
			// one index per (filter, kind), all topics queried against it
			c := c01Case{Ops: []c01Op{o}, Topics: topics}
			r.EvalN(int64(len(topics)))
			ds := c01Check(c, r)
			if strings.ContainsAny(f, "+#$") || strings.Contains(f, "//") || strings.HasPrefix(f, "/") || strings.HasSuffix(f, "/") {
				r.DistinctN(int64(len(topics)))
			}
			if un := r.Explain(ds); len(un) > 0 {
				// narrow the saved case to the first failing topic
				for _, tp := range topics {
					c1 := c01Case{Ops: []c01Op{o}, Topics: []string{tp}}
					if un1 := r.Explain(c01Check(c1, r)); len(un1) > 0 {
						r.Fail(c1, un1)
						t.Errorf("C01: [%s] %s", un1[0].Sig, un1[0].Msg)
						break
					}
				}
				failed++
				if failed > 10 {
					return
				}
			}
		}
	}
	r.Sample(map[string]any{"exhaustive_example": c01Case{Ops: []c01Op{{Kind: "shared", Client: "c1", Filter: "$share/g/" + filters[len(filters)/2]}}, Topics: topics[:3]}})
	if t.Failed() {
		return
	}
	level := rapid.SampledFrom([]string{"a", "a", "b", "", "$x", "$SYS", "+", "+"})
	genFilter := func(rt *rapid.T) string {
		n := rapid.IntRange(1, 6).Draw(rt, "depth")
		ls := rapid.SliceOfN(level, n, n).Draw(rt, "levels")
		if rapid.IntRange(0, 3).Draw(rt, "hash") == 0 {
			ls[len(ls)-1] = "#"
		}
		f := strings.Join(ls, "/")
		if f == "" {
			f = "+"
		}
		return f
	}
	genTopic := func(rt *rapid.T) string {
		n := rapid.IntRange(1, 6).Draw(rt, "depth")
		tp := strings.Join(rapid.SliceOfN(rapid.SampledFrom([]string{"a", "a", "b", "", "$x", "$SYS"}), n, n).Draw(rt, "levels"), "/")
		if tp == "" {
			tp = "a"
		}
		return tp
	}
	evid.Run(t, r, func(rt *rapid.T) c01Case {
		n := rapid.IntRange(1, 8).Draw(rt, "nsubs")
		var c c01Case
		for i := 0; i < n; i++ {
			o := c01Op{Kind: rapid.SampledFrom([]string{"client", "client", "shared", "inline"}).Draw(rt, "kind"),
				Client: rapid.SampledFrom([]string{"c1", "c2", "c3"}).Draw(rt, "client"), ID: rapid.IntRange(1, 3).Draw(rt, "id"), Filter: genFilter(rt)}
			if o.Kind == "shared" {
				o.Filter = "$share/" + rapid.SampledFrom([]string{"g", "h"}).Draw(rt, "group") + "/" + o.Filter
			}
			if o.Kind == "inline" {
				o.Client = ""
			} else {
				o.ID = 0
			}
			c.Ops = append(c.Ops, o)
			// churn: sometimes remove an earlier subscription again (exercises trimming)
			if rapid.IntRange(0, 3).Draw(rt, "churn") == 0 {
				u := c.Ops[rapid.IntRange(0, len(c.Ops)-1).Draw(rt, "which")]
				u.Unsub = true
				if rapid.IntRange(0, 2).Draw(rt, "foreign") == 0 {
					// ... or somebody who may not hold it asks for its removal: nobody else's entry may go
					if u.Kind == "inline" {
						u.ID = rapid.IntRange(1, 3).Draw(rt, "uid")
					} else {
						u.Client = rapid.SampledFrom([]string{"c1", "c2", "c3"}).Draw(rt, "uclient")
					}
				}
				c.Ops = append(c.Ops, u)
			}
		}
		nt := rapid.IntRange(1, 5).Draw(rt, "ntopics")
		for i := 0; i < nt; i++ {
			if rapid.Bool().Draw(rt, "derived") {
				// a topic derived from one of the filters (wildcards replaced), so that matches are not left to chance
				f := c.Ops[rapid.IntRange(0, len(c.Ops)-1).Draw(rt, "from")].Filter
				if _, rest, shared, ok := reftopic.SplitShare(f); shared && ok {
					f = rest
				}
				ls := reftopic.Levels(f)
				var out []string
				for _, l := range ls {
					switch l {
					case "+":
						out = append(out, rapid.SampledFrom([]string{"a", "b", "", "$x"}).Draw(rt, "plus"))
					case "#":
						out = append(out, rapid.SliceOfN(rapid.SampledFrom([]string{"a", "b", ""}), 0, 2).Draw(rt, "hash")...)
					default:
						out = append(out, l)
					}
				}
				if tp := strings.Join(out, "/"); tp != "" && len(out) > 0 {
					c.Topics = append(c.Topics, tp)
					continue
				}
			}
			c.Topics = append(c.Topics, genTopic(rt))
		}
		r.Sample(c)
		return c
	}, c01Check)
}
