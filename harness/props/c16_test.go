package props

import (
	"fmt"
	"testing"

	"pgregory.net/rapid"
	"verif/harness/evid"
	"verif/harness/hist"
	"verif/harness/refmqtt"
)

// ---- C16: will messages are published exactly when the protocol requires -----------------------------------
//
// Clients: c0 = W (the client with the will), c2 = O (observer, v5, subscribed to '#' QoS 2 with Retain As Published,
// acknowledges at once), c3 = L (late subscriber, connects at the very end and subscribes to the will topic).

const c16Margin = 3

type c16Will struct {
	tag       int
	spec      *hist.WillSpec
	peer      int
	version   byte
	connStep  int
	endStep   int   // step at which the connection carrying the will ended (-1: never)
	endAt     int64 // wall-clock second of that step
	normal    bool  // ended by DISCONNECT 0x00
	endKind   string
	due       int64 // earliest time the will must be out by (valid if !normal && endStep>=0)
	immediate bool  // due at the moment the connection ends
	cancelled bool  // a connection resuming the session was established before due
	cancelAt  int
}

func c16Check(c *hist.Case, r *evid.Rec) []evid.Disc {
	run := runCase(c, r)
	if run == nil {
		return nil
	}
	m := hist.Analyze(run)
	_ = m
	var ds []evid.Disc
	const W, O, L = "c0", 2, 3
	// ---- collect the wills and the fate of their connections
	var wills []*c16Will
	for _, s := range run.Steps {
		if s.A.Kind == "connect" && s.A.Will != nil && s.Peer >= 0 && run.Peers[s.Peer].Established() {
			p := run.Peers[s.Peer]
			wills = append(wills, &c16Will{tag: s.A.Will.Tag, spec: s.A.Will, peer: p.ID, version: p.Version, connStep: s.I, endStep: -1})
		}
	}
	var obsPeer, latePeer *hist.Peer
	for _, p := range run.Peers {
		if p.Client == O && obsPeer == nil {
			obsPeer = p
		}
		if p.Client == L {
			latePeer = p
		}
	}
	if obsPeer == nil || !obsPeer.Established() || obsPeer.BlindAt(1<<30) {
		r.NotAsserted()
		return nil
	}
	uncertain := false
	for _, w := range wills {
		p := run.Peers[w.peer]
		connect := run.Steps[w.connStep].A
		// how did the connection end?
		for _, s := range run.Steps {
			closedHere := false
			for _, id := range s.Closed {
				if id == w.peer {
					closedHere = true
				}
			}
			if !closedHere {
				continue
			}
			w.endStep, w.endAt = s.I, s.Now
			switch {
			case s.A.Kind == "disconnect" && s.Peer == w.peer && s.A.Reason == 0:
				w.normal, w.endKind = true, "disconnect-0x00"
			case s.A.Kind == "disconnect" && s.Peer == w.peer:
				w.endKind = fmt.Sprintf("disconnect-0x%02X", s.A.Reason)
			case s.A.Kind == "connect" || s.A.Kind == "release":
				w.endKind = "takeover"
			case s.A.Kind == "raw":
				w.endKind = "protocol-error"
			default:
				w.endKind = s.A.Kind
			}
			break
		}
		if w.endStep < 0 {
			// a takeover whose old connection closes while the new handler is parked is seen in a later step; a
			// connection that is still open at the end has no obligation
			continue
		}
		if w.normal {
			continue
		}
		// when is it due? delay elapsed or session end, whichever is first
		delay := int64(0)
		if w.version == 5 && w.spec.Delay != nil {
			delay = int64(*w.spec.Delay)
		}
		sessionEnd := int64(1) << 40 // never (MQTT 3 persistent session, default server maximum)
		if w.version == 5 {
			sessionEnd = 0
			if connect.Expiry != nil {
				sessionEnd = int64(*connect.Expiry)
			}
		} else if connect.Clean {
			sessionEnd = 0
		}
		d := delay
		if sessionEnd < d {
			d = sessionEnd
		}
		w.due = w.endAt + d
		w.immediate = d == 0
		// later connections of W: clean start 0 established before due cancels; clean start 1 ends the session (due at once)
		for _, ce := range m.Conns {
			if ce.CID != W || !ce.Success || ce.Peer == w.peer || ce.Step < w.connStep {
				continue
			}
			// virtual time at the reconnect: the latest delayed-will housekeeping tick so far (ticks carry their own
			// notion of "now"), or the wall clock if that is later
			at := run.Steps[ce.AckStep].Now
			for _, s := range run.Steps {
				if s.I > w.endStep && s.I < ce.AckStep && s.A.Kind == "tick" && s.A.Tick == "wills" && s.TickAt > at {
					at = s.TickAt
				}
			}
			if w.immediate {
				break // due the moment the connection ended: nothing can cancel it
			}
			if at > w.due+c16Margin && ce.AckStep > w.endStep {
				break // due passed before the reconnect
			}
			if at >= w.due-c16Margin && ce.AckStep > w.endStep && !w.immediate {
				uncertain = true
			}
			if ce.Clean {
				// the session ends now
				if at < w.due {
					w.due = at
				}
				_ = p
			} else {
				w.cancelled, w.cancelAt = true, ce.AckStep
			}
			break
		}
	}
	// ---- observed deliveries of each will at the observer
	type seen struct {
		step int
		pk   *refmqtt.Packet
	}
	for _, w := range wills {
		var got []seen
		for i, pk := range obsPeer.Got {
			if pk.Type == refmqtt.PUBLISH && hist.TagOf(pk.Payload) == w.tag && !pk.Dup {
				got = append(got, seen{obsPeer.GotStep[i], pk})
			}
		}
		desc := fmt.Sprintf("will m%d of %s#%d (topic %q q%d retain=%v delay=%v, connection ended at step %d by %s)", w.tag, W, w.peer, w.spec.Topic, w.spec.QoS, w.spec.Retain, fmtU32(w.spec.Delay), w.endStep, w.endKind)
		key := fmt.Sprintf("%s|%d", caseKey(c), w.tag)
		switch {
		case w.endStep < 0:
			if len(got) > 0 {
				ds = append(ds, evid.D("C16-will-published-while-connected", "%s was published at step %d although its connection never ended", desc, got[0].step))
			}
			continue
		case w.normal:
			r.Label("normal-disconnect")
			if len(got) > 0 {
				ds = append(ds, evid.D("C16-will-published-after-normal-disconnect", "%s was published at step %d", desc, got[0].step))
			}
			continue
		}
		r.NonTrivial(key)
		r.Label("end/" + w.endKind)
		if w.spec.Delay != nil && *w.spec.Delay > 0 && w.version == 5 {
			r.Label("delayed")
		}
		if len(got) > 1 {
			ds = append(ds, evid.D("C16-will-published-twice", "%s was published %d times (steps %d, %d)", desc, len(got), got[0].step, got[1].step))
		}
		if w.cancelled {
			r.Label("cancelled-by-resume")
			if len(got) > 0 {
				ds = append(ds, evid.D("C16-will-published-although-session-resumed", "%s: a connection resuming the session (clean start 0) was established at step %d, before the will was due, yet the will was published at step %d", desc, w.cancelAt, got[0].step))
			}
			continue
		}
		// not cancelled: exactly one publication, not early, not late
		if w.immediate && w.endKind != "takeover" {
			// due the moment the connection ends
			if len(got) == 0 || got[0].step > w.endStep {
				late := "never"
				if len(got) > 0 {
					late = fmt.Sprintf("only at step %d", got[0].step)
				}
				sig := "C16-will-not-published-at-connection-end"
				if w.version == 5 && w.spec.Delay != nil && *w.spec.Delay > 0 {
					sig = "C16-will-delay-outlives-session-end"
				}
				ds = append(ds, evid.D(sig, "%s was due when the connection ended (no will delay, or the session ended with the connection) but was published %s", desc, late))
			}
		}
		for _, s := range run.Steps {
			if s.I <= w.endStep {
				continue
			}
			deliveredBy := len(got) > 0 && got[0].step <= s.I
			if s.A.Kind == "tick" && s.A.Tick == "wills" {
				switch {
				case s.TickAt > w.due+c16Margin:
					if !deliveredBy {
						sig := "C16-will-not-published-when-due"
						for _, ce := range m.Conns {
							if ce.CID == W && ce.Success && ce.Clean && ce.Peer != w.peer && ce.AckStep > w.endStep-1 && ce.AckStep < s.I {
								sig = "C16-delayed-will-lost-on-clean-start-reconnect"
							}
						}
						ds = append(ds, evid.D(sig, "%s was due at t0%+d s; the housekeeping tick of step %d ran at t0%+d s and the will still had not been published", desc, w.due-w.endAt, s.I, s.TickAt-w.endAt))
					}
				case s.TickAt >= w.due-c16Margin:
					uncertain = true
				}
			}
		}
		if !w.immediate && len(got) > 0 {
			// published at step k: some housekeeping tick up to then must have been late enough, unless step k is the
			// clean-start connection that ended the session
			k := got[0].step
			ok := false
			for _, ce := range m.Conns {
				if ce.CID == W && ce.Success && ce.Clean && ce.Peer != w.peer && ce.Step > w.connStep && ce.Step <= k {
					ok = true // a clean start ended the session at or before step k
				}
			}
			last := int64(-1 << 40)
			for _, s := range run.Steps {
				if s.I > w.endStep && s.I <= k && s.A.Kind == "tick" && s.A.Tick == "wills" {
					if s.TickAt >= w.due-c16Margin {
						ok = true
					}
					if s.TickAt > last {
						last = s.TickAt
					}
				}
			}
			if !ok {
				ds = append(ds, evid.D("C16-will-published-early", "%s was due at t0%+d s but was published at step %d (%s); the latest housekeeping tick until then ran at t0%+d s", desc, w.due-w.endAt, k, run.Steps[k].A.String(), last-w.endAt))
			}
		}
		// content
		for _, g := range got {
			if g.pk.Topic != w.spec.Topic {
				ds = append(ds, evid.D("C16-will-topic", "%s arrived on topic %q", desc, g.pk.Topic))
			}
			if g.pk.QoS != w.spec.QoS {
				ds = append(ds, evid.D("C16-will-qos", "%s arrived with QoS %d at a QoS 2 subscription", desc, g.pk.QoS))
			}
			if g.pk.Retain != w.spec.Retain {
				ds = append(ds, evid.D("C16-will-retain-flag", "%s arrived with retain=%v at a Retain-As-Published subscription", desc, g.pk.Retain))
			}
		}
		// retained store: the late subscriber
		if latePeer != nil && latePeer.Established() && !latePeer.BlindAt(1<<30) && len(got) > 0 {
			n := 0
			for _, pk := range latePeer.Got {
				if pk.Type == refmqtt.PUBLISH && hist.TagOf(pk.Payload) == w.tag {
					n++
				}
			}
			// another retained message on the same topic published later would replace it: the generator never does that
			switch {
			case w.spec.Retain && n == 0:
				ds = append(ds, evid.D("C16-will-not-retained", "%s was published with retain=1 but a later subscriber to %q did not receive it as a retained message", desc, w.spec.Topic))
			case !w.spec.Retain && n > 0:
				ds = append(ds, evid.D("C16-will-retained-without-retain-flag", "%s has retain=0 but a later subscriber received it", desc))
			case w.spec.Retain:
				r.Label("retained-will-seen-by-late-subscriber")
			}
		}
	}
	for _, ce := range m.Conns {
		if ce.CID == W && !ce.Success {
			r.Label("refused-reconnect")
		}
	}
	if uncertain {
		r.NotAsserted()
		r.Label("tick-or-reconnect-inside-margin")
		return nil
	}
	return withTranscript(ds, run)
}

func fmtU32(p *uint32) string {
	if p == nil {
		return "absent"
	}
	return fmt.Sprint(*p)
}

func c16Gen(rt *rapid.T) *hist.Case {
	c := &hist.Case{}
	c.Cfg.ClientPIDBase = 1000
	ver := pick(rt, "version", []byte{5, 5, 5, 5, 4, 3})
	topic := pick(rt, "will-topic", []string{"w/a", "w/b/c"})
	will := &hist.WillSpec{Topic: topic, QoS: byte(rapid.IntRange(0, 2).Draw(rt, "wq")), Retain: rapid.Bool().Draw(rt, "wr")}
	var D uint32
	if ver == 5 {
		switch rapid.IntRange(0, 4).Draw(rt, "delay") {
		case 0:
		case 1:
			z := uint32(0)
			will.Delay = &z
		default:
			D = pick(rt, "D", []uint32{10, 100})
			will.Delay = &D
		}
	}
	var E *uint32
	if ver == 5 {
		switch rapid.IntRange(0, 5).Draw(rt, "expiry") {
		case 0:
		case 1:
			z := uint32(0)
			E = &z
		default:
			e := pick(rt, "E", []uint32{5, 50, 1000})
			E = &e
		}
	}
	// half of the cases run behind the bundled auth ledger, so that a reconnect can also be refused (a refused
	// connection does not resume the session and must not cancel a pending will)
	useAuth := rapid.Bool().Draw(rt, "auth-ledger")
	if useAuth {
		c.Cfg.Auth = "ledger"
		c.Cfg.Ledger = []hist.LedgerRule{{Username: "good", Password: "pw", Allow: true}}
	}
	defer func() {
		if useAuth {
			for i := range c.Actions {
				if c.Actions[i].Kind == "connect" && c.Actions[i].Username == "" {
					c.Actions[i].Username, c.Actions[i].Password = "good", "pw"
				}
			}
		}
	}()
	// observer
	c.Actions = append(c.Actions,
		hist.Action{Kind: "connect", Client: 2, Version: 5, Clean: true, AutoAck: true},
		hist.Action{Kind: "subscribe", Client: 2, Filters: []refmqtt.Filter{{Filter: "#", QoS: 2, RAP: true}}},
		hist.Action{Kind: "connect", Client: 0, Version: ver, Clean: rapid.Bool().Draw(rt, "wclean"), Expiry: E, Will: will, AutoAck: true})
	if rapid.Bool().Draw(rt, "traffic") {
		c.Actions = append(c.Actions, hist.Action{Kind: "publish", Client: 0, Topic: "x/y", QoS: 1})
	}
	reconnect := func(label string) hist.Action {
		return hist.Action{Kind: "connect", Client: 0, Version: ver, Clean: rapid.IntRange(0, 2).Draw(rt, label) == 0, Expiry: E, AutoAck: true}
	}
	end := rapid.IntRange(0, 9).Draw(rt, "end")
	switch end {
	case 0:
		c.Actions = append(c.Actions, hist.Action{Kind: "disconnect", Client: 0, ShortForm: rapid.Bool().Draw(rt, "short")})
	case 1, 2:
		if ver == 5 {
			c.Actions = append(c.Actions, hist.Action{Kind: "disconnect", Client: 0, Reason: 0x04, ShortForm: rapid.Bool().Draw(rt, "short")})
		} else {
			c.Actions = append(c.Actions, hist.Action{Kind: "drop", Client: 0})
		}
	case 3:
		c.Actions = append(c.Actions, hist.Action{Kind: "drop", Client: 0})
	case 4:
		c.Actions = append(c.Actions, hist.Action{Kind: "close", Client: 0})
	case 5:
		// protocol error: a second CONNECT, or a packet of reserved type 0
		if rapid.Bool().Draw(rt, "second-connect") {
			pk := &refmqtt.Packet{Type: refmqtt.CONNECT, Level: ver, ProtocolName: "MQTT", ClientID: "c0", CleanStart: true, Version: ver}
			if ver == 3 {
				pk.ProtocolName = "MQIsdp"
			}
			c.Actions = append(c.Actions, hist.Action{Kind: "raw", Client: 0, Raw: refmqtt.Encode(pk, refmqtt.Style{})})
		} else {
			c.Actions = append(c.Actions, hist.Action{Kind: "raw", Client: 0, Raw: []byte{0x00, 0x00}})
		}
	default:
		// takeover under one of three schedules
		nw := reconnect("takeover-clean")
		switch rapid.IntRange(0, 2).Draw(rt, "schedule") {
		case 0: // new-first (default policy): the old handler's teardown runs after the new connection is established
		case 1: // old-first: the new handler waits right after disconnecting the old connection until the old handler has finished
			c.Cfg.FreeTeardown = true
			nw.Park = []string{"inherit.afterDisconnectOld"}
			c.Actions = append(c.Actions, nw, hist.Action{Kind: "release", Client: 0})
			nw.Kind = ""
		default: // old-during-new: the new handler has inherited and registered but not yet sent CONNACK while the old one tears down
			c.Cfg.FreeTeardown = true
			nw.Park = []string{"attach.beforeConnack"}
			c.Actions = append(c.Actions, nw, hist.Action{Kind: "release", Client: 0})
			nw.Kind = ""
		}
		if nw.Kind != "" {
			c.Actions = append(c.Actions, nw)
		}
	}
	// what happens afterwards: ticks around every boundary, reconnects, session expiry ticks
	var offs []int64
	for _, b := range []int64{0, 5, 10, 50, 100, 1000} {
		offs = append(offs, b-5, b+5)
	}
	offs = append(offs, 30, 2000)
	for i, n := 0, rapid.IntRange(0, 4).Draw(rt, "after"); i < n; i++ {
		switch rapid.IntRange(0, 5).Draw(rt, "what") {
		case 0, 1, 2:
			c.Actions = append(c.Actions, hist.Action{Kind: "tick", Tick: "wills", Offset: pick(rt, "off", offs)})
		case 3:
			c.Actions = append(c.Actions, hist.Action{Kind: "tick", Tick: "clients", Offset: pick(rt, "coff", offs)})
		case 4:
			re := reconnect("re-clean")
			if useAuth && rapid.Bool().Draw(rt, "refused") {
				re.Username, re.Password = "bad", "pw"
			}
			c.Actions = append(c.Actions, re)
		default:
			c.Actions = append(c.Actions, hist.Action{Kind: "drop", Client: 0})
		}
	}
	// final flush far in the future, then the late subscriber looks at the retained store
	c.Actions = append(c.Actions, hist.Action{Kind: "tick", Tick: "wills", Offset: 1000000},
		hist.Action{Kind: "connect", Client: 3, Version: 4, Clean: true, AutoAck: true},
		hist.Action{Kind: "subscribe", Client: 3, Filters: []refmqtt.Filter{{Filter: "w/#", QoS: 2}}})
	return c
}

func TestC16(t *testing.T) {
	r := evid.New("C16", "rapid: a client (v5 / v3.1.1 / v3.1) connects with a will (topic, QoS 0-2, retain 0/1, will delay absent/0/10/100, session expiry absent/0/5/50/1000, clean start 0/1); its connection ends by DISCONNECT 0x00 (both encodings), DISCONNECT 0x04 (both encodings), network drop, clean close, protocol error (second CONNECT, reserved packet type) or takeover (clean start 0/1) under three harness-owned schedules of the old handler's teardown against the new handler (new-first, old-first, old-during-new via verif schedule points); half of the cases behind the bundled auth ledger so that reconnects can be refused (a refused connection cancels nothing); afterwards 0-4 of: delayed-will housekeeping ticks at virtual times on both sides of every boundary, session-expiry ticks, reconnects (clean 0/1), drops; a final far-future tick and a late subscriber. Oracle at a QoS 2 Retain-As-Published observer: normal DISCONNECT -> never; otherwise exactly once, in the step the connection ends when no delay applies (or the session ends with the connection), not before a tick later than end + min(delay, session expiry) (3 s margin; inside the margin not asserted), by the first tick after it, never if a clean-start-0 connection was established before; topic/QoS/retain flag as requested; retained wills (and only those) reach a later subscriber. Non-trivial = connection ended other than by DISCONNECT 0x00; distinct by (history, will)")
	defer r.Finish(t)
	if evid.ReplayMode() {
		evid.Replay(t, r, replayPath(), c16Check)
		return
	}
	evid.Run(t, r, func(rt *rapid.T) *hist.Case {
		c := c16Gen(rt)
		r.Sample(c.Summary())
		return c
	}, c16Check)
}
