package props

import (
	"fmt"
	"sort"
	"strings"
	"testing"

	"pgregory.net/rapid"
	"verif/harness/evid"
	"verif/harness/hist"
	"verif/harness/refmqtt"
	"verif/harness/reftopic"
)

// ---- C21: a crash never loses acknowledged state or resurrects discarded state  (fault enumeration) ---------
//
// One generated history = a short first life, a restart, and a fixed second life of probes. The history is first run
// without a crash to count its storage writes N; then it is re-run once per write boundary k in 0..N-1 with the
// storage hook cut off at the attempt of write k+1 (hist.CrashHook), the first life is cut at that instant, and the
// broker restarts on what the store holds. Clients: c0, c1 subjects; c2 publisher (clean); c3 late subscriber.

type c21Inc struct { // one incarnation of a client id's session in the first life
	startStep  int
	persistent bool
	may        map[string]byte // every filter this incarnation ever asked for -> QoS
	must       map[string]byte // acknowledged before the crash instant, removal not begun
	mustStep   map[string]int  // step of that acknowledgement
	undecided  bool            // a connection that changes the session's persistence was cut by the crash before its CONNACK
	endedStep  int             // step in which the session ended for good (-1: alive at the crash / restart)
}

func c21AckBefore(run *hist.Run, s *hist.Step, typ byte, pid uint16) (seen bool, before bool) {
	if s.Peer < 0 {
		return false, false
	}
	p := run.Peers[s.Peer]
	for i, pk := range p.Got {
		if p.GotStep[i] == s.I && pk.Type == typ && pk.PacketID == pid {
			return true, run.BeforeCrash(p, i)
		}
	}
	return false, false
}

// c21Judge evaluates one executed run (crashed at some write boundary, or not crashed at all).
func c21Judge(c *hist.Case, run *hist.Run, r *evid.Rec, k int, n int) []evid.Disc {
	var ds []evid.Disc
	if len(run.Restarts) == 0 {
		return nil
	}
	restart := run.Restarts[0]
	crashStep := restart // no crash: everything before the restart is complete
	if run.CrashBytes != nil {
		crashStep = run.CrashStep
	}
	where := fmt.Sprintf("backend %s, no crash (all %d writes)", c.Cfg.Storage, n)
	inside := ""
	if run.CrashBytes != nil {
		_, _, ev := run.Crash0State()
		where = fmt.Sprintf("backend %s, crash at write %d of %d (cut: %s) during step %d (%s)", c.Cfg.Storage, k+1, n, ev, crashStep, run.Steps[crashStep].A.String())
		inside = "-after-crash"
	}
	completed := func(step int) bool { return step < crashStep }
	// ---- first life: incarnations of the subjects' sessions
	incs := map[string][]*c21Inc{}
	cur := func(cid string) *c21Inc {
		if l := incs[cid]; len(l) > 0 && l[len(l)-1].endedStep < 0 {
			return l[len(l)-1]
		}
		return nil
	}
	persistentOf := func(a *hist.Action) bool {
		if a.Version == 5 {
			return a.Expiry != nil && *a.Expiry > 0
		}
		return !a.Clean
	}
	for _, s := range run.Steps[:restart] {
		if s.Skipped || s.Peer < 0 {
			continue
		}
		cid := s.A.ClientIDStr()
		if cid != "c0" && cid != "c1" {
			continue
		}
		switch s.A.Kind {
		case "connect":
			p := run.Peers[s.Peer]
			if !p.Established() {
				continue
			}
			in := cur(cid)
			resumed := in != nil && !s.A.Clean
			if in != nil && s.A.Version < 5 && !in.persistent {
				resumed = false // an MQTT 3 clean session ends with its connection, whatever takes it over
			}
			ackBefore := false
			for i, pk := range p.Got {
				if pk.Type == refmqtt.CONNACK {
					ackBefore = run.BeforeCrash(p, i)
					break
				}
			}
			if !resumed && !ackBefore {
				// the crash came before this CONNACK: whether the clean start (and the removal of the previous
				// session it implies) took effect is undecided; the previous session stays a "may"
				if in != nil {
					in.endedStep = s.I
				}
				continue
			}
			if !resumed {
				if in != nil {
					in.endedStep = s.I // replaced by a clean start
				}
				incs[cid] = append(incs[cid], &c21Inc{startStep: s.I, may: map[string]byte{}, must: map[string]byte{}, mustStep: map[string]int{}, endedStep: -1})
			}
			if resumed && !ackBefore && in.persistent != persistentOf(&s.A) {
				// the crash came before this connection was acknowledged: which of the two persistence settings the
				// store reflects is undecided, nothing is asserted for this client id
				in.undecided = true
				continue
			}
			cur(cid).persistent = persistentOf(&s.A)
		case "subscribe":
			in := cur(cid)
			if in == nil {
				continue
			}
			seen, before := c21AckBefore(run, s, refmqtt.SUBACK, s.Sent.PacketID)
			for i, f := range s.A.Filters {
				in.may[f.Filter] = f.QoS
				if seen && before {
					ack := findAck(run, s, refmqtt.SUBACK)
					if ack != nil && i < len(ack.ReasonCodes) && ack.ReasonCodes[i] < 0x80 {
						in.must[f.Filter] = f.QoS
						in.mustStep[f.Filter] = s.I
					}
				}
			}
		case "unsubscribe":
			if in := cur(cid); in != nil {
				for _, f := range s.A.Filters {
					delete(in.must, f.Filter) // its removal has begun
					if seen, before := c21AckBefore(run, s, refmqtt.UNSUBACK, s.Sent.PacketID); seen && before && completed(s.I) {
						delete(in.may, f.Filter)
					}
				}
			}
		case "disconnect", "drop", "close":
			if in := cur(cid); in != nil && !in.persistent {
				in.endedStep = s.I
			}
		}
	}
	// connections closed by the restart itself: non-persistent sessions end there (that is part of the crash / shutdown)
	// ---- second life
	type second struct {
		peer  *hist.Peer
		clean bool
		step  int
	}
	sec := map[string]*second{}
	for _, s := range run.Steps[restart:] {
		if s.A.Kind == "connect" && s.Peer >= 0 {
			cid := s.A.ClientIDStr()
			if _, ok := sec[cid]; !ok && run.Peers[s.Peer].Established() {
				sec[cid] = &second{run.Peers[s.Peer], s.A.Clean, s.I}
			}
		}
	}
	for _, cid := range []string{"c0", "c1"} {
		sc := sec[cid]
		if sc == nil || sc.peer.BlindAt(1<<30) {
			continue
		}
		var last *c21Inc
		if l := incs[cid]; len(l) > 0 {
			last = l[len(l)-1]
		}
		if last != nil && last.undecided {
			r.Label("persistence-change-undecided-at-crash")
			continue
		}
		alive := last != nil && last.endedStep < 0 && last.persistent
		cause := ""
		if _, crashed, _ := run.Crash0State(); crashed {
			// CONNACK is written before the session record (OnSessionEstablished): if the cut fell between the two, the
			// store still describes the connection before (its persistence in particular)
			written, acked := 0, 0
			for _, ev := range run.Crash0.Events() {
				if ev == "session-established "+cid {
					written++
				}
			}
			for _, s := range run.Steps[:restart] {
				if s.A.Kind == "connect" && !s.Skipped && s.A.ClientIDStr() == cid && s.Peer >= 0 {
					p := run.Peers[s.Peer]
					for i, pk := range p.Got {
						if pk.Type == refmqtt.CONNACK && pk.ReasonCode == 0 && run.BeforeCrash(p, i) {
							acked++
						}
					}
				}
			}
			if written < acked {
				cause = "-session-record-write-cut"
			}
		}
		for _, s := range run.Steps[restart:] {
			if s.A.Kind != "publish" || s.Skipped || s.Tag == 0 || s.A.ClientIDStr() != "c2" {
				continue
			}
			topic := s.A.Topic
			got := 0
			for i, pk := range sc.peer.Got {
				if pk.Type == refmqtt.PUBLISH && hist.TagOf(pk.Payload) == s.Tag && sc.peer.GotStep[i] == s.I {
					got++
				}
			}
			mustMatch, mayMatch := "", ""
			if alive && !sc.clean {
				for f := range last.must {
					if reftopic.MatchSub(f, topic) {
						mustMatch = f
					}
				}
				for f := range last.may {
					if reftopic.MatchSub(f, topic) {
						mayMatch = f
					}
				}
			} else if last != nil && last.endedStep >= crashStep && !sc.clean {
				// the session's end fell into the crashed step: it may or may not have been completed
				for f := range last.may {
					if reftopic.MatchSub(f, topic) {
						mayMatch = f
					}
				}
			}
			switch {
			case mustMatch != "" && got == 0:
				ds = append(ds, evid.D("C21-acknowledged-subscription-lost"+cause+inside, "%s: %s's subscription %q was acknowledged (SUBACK) before the crash instant and never removed, but after the restart the probe m%d on %q was not delivered to its resumed session", where, cid, mustMatch, s.Tag, topic))
			case mayMatch == "" && got > 0:
				sig := "C21-discarded-subscription-resurrected" + cause + inside
				ds = append(ds, evid.D(sig, "%s: after the restart %s (clean start %v) received the probe m%d on %q, but no subscription of its live session matches; earlier sessions of this id: %s", where, cid, sc.clean, s.Tag, topic, c21Incs(incs[cid])))
			case mustMatch != "":
				r.Label("acknowledged-subscription-restored")
			}
		}
		// in-flight: messages queued for the offline subject whose publisher was acknowledged before the crash instant
		if alive && !sc.clean {
			for _, s := range run.Steps[:restart] {
				if s.A.Kind != "publish" || s.Skipped || s.Tag == 0 || s.A.ClientIDStr() != "c2" || s.A.QoS == 0 {
					continue
				}
				// the subject held an acknowledged QoS>0 subscription (made in an earlier step) and has not acknowledged
				// the message itself: it was offline, or its connection does not acknowledge
				online, autoAck := false, false
				for _, p := range run.Peers {
					if p.CID == cid && p.Established() && p.OpenedAt < s.I && (p.ClosedAt < 0 || p.ClosedAt >= s.I) {
						online, autoAck = true, p.AutoAck
					}
				}
				q := byte(0)
				for f, fq := range last.must {
					if reftopic.MatchSub(f, s.A.Topic) && fq > q && last.mustStep[f] < s.I {
						q = fq
					}
				}
				if (online && autoAck) || q == 0 || s.I < last.startStep {
					continue
				}
				ackT := byte(refmqtt.PUBACK)
				if s.A.QoS == 2 {
					ackT = refmqtt.PUBREC
				}
				seen, before := c21AckBefore(run, s, ackT, s.Sent.PacketID)
				if !seen || !before {
					continue
				}
				// a later connection of the subject that acknowledges what it is (re)sent settles the obligation; one that
				// does not acknowledge leaves it open, and is exactly the situation a takeover must not lose
				voided, across := false, ""
				for _, s2 := range run.Steps[s.I:restart] {
					if !s2.Skipped && s2.A.ClientIDStr() == cid && s2.A.Kind == "connect" {
						if s2.A.AutoAck {
							voided = true
						} else {
							across = "-across-reconnect"
						}
					}
				}
				if voided {
					continue
				}
				sigBase := "C21-acknowledged-message-for-offline-session-lost"
				if online {
					sigBase = "C21-unacknowledged-inflight-message-lost"
				}
				got := false
				for _, pk := range sc.peer.Got {
					if pk.Type == refmqtt.PUBLISH && hist.TagOf(pk.Payload) == s.Tag {
						got = true
					}
				}
				if !got {
					ds = append(ds, evid.D(sigBase+across+cause+inside, "%s: m%d (QoS %d on %q) was acknowledged to its publisher before the crash instant; %s (online=%v) held an acknowledged QoS %d subscription and never acknowledged the message; after the restart %s resumed its session but never received it", where, s.Tag, s.A.QoS, s.A.Topic, cid, online, q, cid))
				} else {
					r.Label("queued-message-restored")
				}
			}
		}
	}
	// ---- retained store as seen by the late subscriber
	if late := sec["c3"]; late != nil && !late.peer.BlindAt(1<<30) {
		type ret struct {
			tag, step  int
			ackBefore  bool
			empty      bool
			laterWrite bool
		}
		latest := map[string]*ret{}
		var all []*ret
		for _, s := range run.Steps[:restart] {
			if s.A.Kind != "publish" || s.Skipped || s.Tag == 0 || !s.A.Retain || s.A.QoS == 0 {
				continue
			}
			seen, before := c21AckBefore(run, s, refmqtt.PUBACK, s.Sent.PacketID)
			rt := &ret{tag: s.Tag, step: s.I, ackBefore: seen && before, empty: s.A.Empty}
			if prev := latest[s.A.Topic]; prev != nil {
				prev.laterWrite = true
			}
			latest[s.A.Topic] = rt
			all = append(all, rt)
		}
		gotTag := map[int]bool{}
		for _, pk := range late.peer.Got {
			if pk.Type == refmqtt.PUBLISH {
				gotTag[hist.TagOf(pk.Payload)] = true
			}
		}
		for topic, rt := range latest {
			if rt.ackBefore && !rt.empty && !gotTag[rt.tag] {
				ds = append(ds, evid.D("C21-acknowledged-retained-message-lost"+inside, "%s: the retained publish m%d on %q was acknowledged before the crash instant, but a subscriber after the restart did not receive it", where, rt.tag, topic))
			} else if rt.ackBefore && !rt.empty {
				r.Label("acknowledged-retained-restored")
			}
		}
		for _, rt := range all {
			// a message that was replaced or cleared by a later publish acknowledged in a completed step must not come back
			if rt.laterWrite && gotTag[rt.tag] {
				var next *ret
				for _, x := range all {
					if x.step > rt.step && run.Tags[x.tag].Topic == run.Tags[rt.tag].Topic && next == nil {
						next = x
					}
				}
				if next != nil && next.ackBefore && completed(next.step) {
					ds = append(ds, evid.D("C21-replaced-retained-message-resurrected"+inside, "%s: retained m%d on %q was replaced / cleared by m%d (acknowledged, step %d completed before the crash), yet it was replayed after the restart", where, rt.tag, run.Tags[rt.tag].Topic, next.tag, next.step))
				}
			}
		}
	}
	if len(ds) > 0 {
		ctx := "--- history (" + where + ") ---\n" + run.Transcript()
		if run.Crash0 != nil {
			ctx += "--- storage writes forwarded before the cut ---\n  " + strings.Join(run.Crash0.Events(), "\n  ") + "\n"
		}
		for i := range ds {
			ds[i].Ctx = ctx
		}
	}
	return ds
}

func findAck(run *hist.Run, s *hist.Step, typ byte) *refmqtt.Packet {
	for _, o := range s.Obs {
		if o.Peer == s.Peer && o.P.Type == typ && o.P.PacketID == s.Sent.PacketID {
			return o.P
		}
	}
	return nil
}

func c21Incs(l []*c21Inc) string {
	var out []string
	for _, in := range l {
		var fs []string
		for f := range in.may {
			fs = append(fs, f)
		}
		sort.Strings(fs)
		out = append(out, fmt.Sprintf("{from step %d persistent=%v ended=%d filters=%v}", in.startStep, in.persistent, in.endedStep, fs))
	}
	return strings.Join(out, " ")
}

func c21Check(c *hist.Case, r *evid.Rec) []evid.Disc {
	base := *c
	base.Cfg.CrashAfter = 0
	dry := runCase(&base, r)
	if dry == nil {
		return nil
	}
	n := dry.WritesAtRestart
	ds := c21Judge(&base, dry, r, n, n)
	r.Set("last_case_writes", n)
	r.LabelN("crash-points-enumerated", int64(n))
	takeover := false
	for _, s := range dry.Steps {
		if s.A.Kind == "connect" {
			for _, id := range s.Closed {
				if dry.Peers[id].CID == s.A.ClientIDStr() {
					takeover = true
				}
			}
		}
	}
	if takeover {
		r.Label("history-with-takeover")
	}
	for k := 0; k < n && len(ds) == 0; k++ {
		cc := *c
		cc.Cfg.CrashAfter = k
		if k == 0 {
			cc.Cfg.CrashAfter = -1
		}
		run := runCase(&cc, r)
		if run == nil {
			return ds
		}
		r.EvalN(1)
		if run.CrashBytes == nil {
			// the crashed run did not reach write k+1 (the broker's write sequence differs from the dry run): not judged
			r.Label("crash-point-not-reached")
			continue
		}
		cs := run.CrashStep
		kind := run.Steps[cs].A.Kind
		r.Label("crash-in/" + kind)
		if takeover || kind == "subscribe" || kind == "unsubscribe" || kind == "disconnect" || kind == "connect" {
			r.NonTrivial(fmt.Sprintf("%s|%s|%d", caseKey(c), c.Cfg.Storage, k))
		}
		ds = append(ds, c21Judge(&cc, run, r, k, n)...)
	}
	return ds
}

func c21Gen(rt *rapid.T) *hist.Case {
	c := &hist.Case{}
	c.Cfg.ClientPIDBase = 1000
	c.Cfg.Storage = pick(rt, "backend", []string{"bolt", "bolt", "bolt", "redis", "redis", "pebble", "badger"})
	versions := []byte{pick(rt, "v0", []byte{4, 5}), pick(rt, "v1", []byte{4, 5})}
	exp := uint32(300)
	filters := []string{"t/a", "t/#", "u/+", "t/b"}
	topics := []string{"t/a", "t/b", "u/x"}
	subjectsAck := rapid.Bool().Draw(rt, "subjects-acknowledge")
	secondLife := false
	connect := func(cl int, clean bool) hist.Action {
		a := hist.Action{Kind: "connect", Client: cl, Version: versions[cl%2], Clean: clean, AutoAck: subjectsAck || secondLife}
		if a.Version == 5 && rapid.IntRange(0, 4).Draw(rt, "persistent") != 0 {
			a.Expiry = &exp
		}
		return a
	}
	c.Actions = append(c.Actions, hist.Action{Kind: "connect", Client: 2, Version: 4, Clean: true, AutoAck: true}, connect(0, false))
	action := rapid.Custom(func(rt *rapid.T) hist.Action {
		cl := pick(rt, "subject", []int{0, 0, 0, 1})
		switch rapid.IntRange(0, 12).Draw(rt, "kind") {
		case 0, 1, 2:
			a := hist.Action{Kind: "subscribe", Client: cl}
			for i, n := 0, rapid.IntRange(1, 3).Draw(rt, "nf"); i < n; i++ {
				a.Filters = append(a.Filters, refmqtt.Filter{Filter: pick(rt, "filter", filters), QoS: byte(rapid.IntRange(0, 2).Draw(rt, "sq"))})
			}
			return a
		case 3:
			a := hist.Action{Kind: "unsubscribe", Client: cl}
			for i, n := 0, rapid.IntRange(1, 2).Draw(rt, "nu"); i < n; i++ {
				a.Filters = append(a.Filters, refmqtt.Filter{Filter: pick(rt, "filter", filters)})
			}
			return a
		case 4, 5, 6:
			return hist.Action{Kind: "publish", Client: 2, Topic: pick(rt, "topic", topics), QoS: byte(rapid.IntRange(1, 2).Draw(rt, "pq"))}
		case 7, 8:
			return hist.Action{Kind: "publish", Client: 2, Topic: pick(rt, "rtopic", []string{"r/a", "r/b"}), QoS: 1, Retain: true, Empty: rapid.IntRange(0, 3).Draw(rt, "clear") == 0}
		case 9:
			return hist.Action{Kind: pick(rt, "how", []string{"disconnect", "drop"}), Client: cl}
		default:
			return connect(cl, rapid.IntRange(0, 3).Draw(rt, "clean") == 0)
		}
	})
	c.Actions = append(c.Actions, rapid.SliceOfN(action, 3, 12).Draw(rt, "actions")...)
	secondLife = true
	c.Actions = append(c.Actions, hist.Action{Kind: "restart"},
		hist.Action{Kind: "connect", Client: 2, Version: 4, Clean: true, AutoAck: true})
	for cl := 0; cl < 2; cl++ {
		a := connect(cl, rapid.IntRange(0, 3).Draw(rt, "clean-after") == 0)
		c.Actions = append(c.Actions, a)
	}
	for _, t := range topics {
		c.Actions = append(c.Actions, hist.Action{Kind: "publish", Client: 2, Topic: t, QoS: 1})
	}
	c.Actions = append(c.Actions, hist.Action{Kind: "connect", Client: 3, Version: 4, Clean: true, AutoAck: true},
		hist.Action{Kind: "subscribe", Client: 3, Filters: []refmqtt.Filter{{Filter: "r/#", QoS: 1}}})
	return c
}

func TestC21(t *testing.T) {
	r := evid.New("C21", "rapid generates a history: a first life of 3-12 actions on a broker with a storage backend (bolt / redis / pebble / badger): two subject clients (v3.1.1 / v5, clean start 0/1, session expiry absent or 300) connect, subscribe (1-3 filters, QoS 0-2), unsubscribe, disconnect, drop, reconnect and take their own session over, a publisher sends QoS 1/2 messages (also while the subjects are offline) and retained QoS 1 messages and clears; then a restart and a fixed second life (subjects reconnect with clean start 0 or 1, one QoS 1 probe per topic, a late subscriber to the retained topics). FAULT ENUMERATION: the history is run once without a crash to count its storage writes N (multi-filter SUBSCRIBE / UNSUBSCRIBE count one write per filter), then once for EVERY write boundary k in 0..N-1 with the storage hook cut off at the attempt of write k+1; the bytes each connection had received at that instant separate acknowledgements before the crash from later ones. Oracle per run: must-have (subscriptions with a success SUBACK before the crash instant whose removal had not begun, retained publishes acknowledged before it and not overwritten, QoS>0 messages acknowledged to their publisher while the persistent subscriber was offline) is restored; nothing outside the live session's own subscriptions is delivered to a reconnecting client (clean start 1: nothing at all); a retained message replaced or cleared in a completed step does not come back. One evaluation = one (history, crash point) run; non-trivial = crash inside a connect / subscribe / unsubscribe / disconnect step or in a history with a takeover; distinct by (history, backend, k)")
	r.Exhaustive(false)
	defer r.Finish(t)
	if evid.ReplayMode() {
		evid.Replay(t, r, replayPath(), c21Check)
		return
	}
	evid.Run(t, r, func(rt *rapid.T) *hist.Case {
		c := c21Gen(rt)
		r.Sample(append([]string{"backend " + c.Cfg.Storage}, c.Summary()...))
		return c
	}, c21Check)
}
