package props

import (
	"fmt"
	"strings"
	"testing"
	"unicode/utf8"

	"pgregory.net/rapid"
	"verif/harness/evid"
	"verif/harness/hist"
	"verif/harness/refmqtt"
)

// ---- C13: connections start with one CONNACK and only authenticated clients are admitted --------------

// c13Violation names the protocol violation of a CONNECT, "" if none of the asserted list applies.
func c13Violation(p *refmqtt.Packet) string {
	switch {
	case p.ProtocolName != "MQTT" && p.ProtocolName != "MQIsdp":
		return "protocol-name"
	case (p.ProtocolName == "MQIsdp") != (p.Level == 3), p.Level != 3 && p.Level != 4 && p.Level != 5:
		return "name-level-mismatch"
	case p.ReservedFlag:
		return "reserved-flag"
	case !p.WillFlag && (p.WillRetain || p.WillQoS != 0):
		return "will-bits-without-will-flag"
	case p.WillFlag && p.WillQoS > 2:
		return "will-qos-3"
	case p.WillFlag && p.WillTopic == "":
		return "will-flag-empty-topic"
	case p.Level != 5 && p.ClientID == "" && !p.CleanStart:
		return "v3-empty-client-id-clean-0"
	case p.WillFlag && (!utf8.ValidString(p.WillTopic) || strings.ContainsRune(p.WillTopic, 0)):
		return "will-topic-not-a-well-formed-utf8-string" // [MQTT-1.5.4-1], [MQTT-1.5.4-2]
	case !utf8.ValidString(p.ClientID) || strings.ContainsRune(p.ClientID, 0):
		return "client-id-not-a-well-formed-utf8-string"
	}
	return ""
}

func c13Admitted(c *hist.Case, p *refmqtt.Packet) bool {
	switch c.Cfg.Auth {
	case "none":
		return false
	case "ledger":
		for _, lr := range c.Cfg.Ledger {
			if (lr.Username == "" || lr.Username == string(p.Username)) && (lr.Password == "" || lr.Password == string(p.Password)) {
				return lr.Allow
			}
		}
		return false
	}
	return true
}

func c13Check(c *hist.Case, r *evid.Rec) []evid.Disc {
	run := runCase(c, r)
	if run == nil {
		return nil
	}
	var ds []evid.Disc
	for _, p := range run.Peers {
		if p.WireErr != nil && len(p.Got) == 0 {
			ds = append(ds, evid.D("C13-first-bytes-undecodable", "connection %s#%d: the first thing the broker wrote is not a packet: %s", p.CID, p.ID, p.WireErr.Msg))
			continue
		}
		connacks := 0
		for i, pk := range p.Got {
			if pk.Type == refmqtt.CONNACK {
				connacks++
				_ = i // a CONNACK that is not the first packet is reported below as "packet before CONNACK"
			}
		}
		if len(p.Got) > 0 && p.Got[0].Type != refmqtt.CONNACK {
			sig := "C13-packet-before-connack"
			if p.Got[0].Type == refmqtt.PUBLISH {
				sig = "C13-publish-before-connack-on-resumed-session"
			}
			ds = append(ds, evid.D(sig, "connection %s#%d: the first packet the broker sent is %s", p.CID, p.ID, p.Got[0]))
		}
		if connacks > 1 {
			ds = append(ds, evid.D("C13-more-than-one-connack", "connection %s#%d received %d CONNACK packets", p.CID, p.ID, connacks))
		}
		if p.LeftOpen {
			ds = append(ds, evid.D("C13-handler-returned-connection-left-open", "connection %s#%d: the broker's handler has returned, but the connection was never closed by the broker", p.CID, p.ID))
		}
		open := run.Steps[p.OpenedAt]
		a := open.A
		success := p.Connack != nil && p.Connack.ReasonCode == 0
		switch {
		case a.RawFirst != nil:
			// a first packet that is not a (complete, valid) CONNECT
			if success {
				ds = append(ds, evid.D("C13-session-without-valid-connect", "connection #%d sent % x first and received a success CONNACK", p.ID, clip(a.RawFirst)))
			}
			if connacks == 0 && len(p.Got) > 0 {
				ds = append(ds, evid.D("C13-answer-to-non-connect", "connection #%d sent % x first and received %s", p.ID, clip(a.RawFirst), p.Got[0]))
			}
			if p.ClosedAt < 0 && a.Point != "incomplete" {
				ds = append(ds, evid.D("C13-non-connect-not-closed", "connection #%d sent % x first and was not closed", p.ID, clip(a.RawFirst)))
			}
			r.NonTrivial(fmt.Sprintf("raw|%x", a.RawFirst))
			r.Label("first-packet-not-connect")
		case a.RawConnect != nil:
			v := c13Violation(a.RawConnect)
			if v != "" {
				if success {
					ds = append(ds, evid.D("C13-protocol-violating-connect-accepted-"+v, "connection #%d: %s violates the protocol (%s) but received a success CONNACK", p.ID, a.RawConnect, v))
				}
				if p.ClosedAt < 0 {
					ds = append(ds, evid.D("C13-protocol-violating-connect-not-closed-"+v, "connection #%d: %s violates the protocol (%s) but the connection stays open", p.ID, a.RawConnect, v))
				}
				r.NonTrivial(fmt.Sprintf("bad|%s|%s", v, a.RawConnect))
				r.Label("invalid-connect/" + v)
			} else if !success && p.Connack != nil && c13Admitted(c, a.RawConnect) {
				r.Label("refused-although-hooks-admit") // the statement only limits who may be admitted
			} else if success && !c13Admitted(c, a.RawConnect) {
				ds = append(ds, evid.D("C13-admission-differs-from-hooks", "connection #%d: %s with auth=%q: CONNACK 0x%02X, reference admission %v", p.ID, a.RawConnect, c.Cfg.Auth, p.Connack.ReasonCode, c13Admitted(c, a.RawConnect)))
			}
		default:
			if p.Connect != nil && p.Connack != nil && !success && c13Admitted(c, p.Connect) {
				r.Label("refused-although-hooks-admit")
			}
			if p.Connect != nil && p.Connack != nil && success && !c13Admitted(c, p.Connect) {
				sig := "C13-admission-differs-from-hooks"
				if c.Cfg.Auth == "none" {
					sig = "C13-admitted-without-auth-hook"
				}
				ds = append(ds, evid.D(sig, "connection %s#%d: auth=%q username=%q password=%q: CONNACK 0x%02X, reference admission %v", p.CID, p.ID, c.Cfg.Auth, p.Connect.Username, p.Connect.Password, p.Connack.ReasonCode, c13Admitted(c, p.Connect)))
			}
			if p.Connack == nil && p.ClosedAt < 0 && len(a.Park) == 0 {
				ds = append(ds, evid.D("C13-no-connack", "connection %s#%d sent a CONNECT, is still open and got no CONNACK", p.CID, p.ID))
			}
		}
		// no session may result from a refused or invalid first packet: a later probe connection with the same
		// identifier and clean start 0 must not see "session present"
		if (a.RawFirst != nil || (a.RawConnect != nil && c13Violation(a.RawConnect) != "")) && a.Point != "incomplete" {
			hadSession := false
			for _, q := range run.Peers {
				if q.ID < p.ID && q.CID == p.CID && q.Connack != nil && q.Connack.ReasonCode == 0 {
					hadSession = true // an earlier, valid connection already created a session for this identifier
				}
			}
			for _, q := range run.Peers {
				if hadSession {
					break
				}
				if q.ID > p.ID && q.CID == p.CID {
					// only the first later connection with this identifier is a probe (it creates a session itself)
					if q.Connack != nil && q.Connack.SessionPresent {
						ds = append(ds, evid.D("C13-session-created-by-invalid-connect", "connection %s#%d (invalid first packet) left a session behind: probe #%d got session present", p.CID, p.ID, q.ID))
					}
					if q.Connack != nil && q.Connack.ReasonCode == 0 {
						break
					}
				}
			}
		}
	}
	// schedule part: was a publish really enqueued for the parked connection before its CONNACK?
	for _, s := range run.Steps {
		if s.A.Kind == "connect" && len(s.A.Park) > 0 {
			r.Label("parked-before-connack")
			r.NonTrivial(fmt.Sprintf("%s|%d", caseKey(c), s.I))
		}
	}
	return withTranscript(ds, run)
}

func c13Gen(rt *rapid.T) *hist.Case {
	c := &hist.Case{}
	switch rapid.IntRange(0, 3).Draw(rt, "auth") {
	case 0:
		c.Cfg.Auth = "none"
	case 1:
		c.Cfg.Auth = "ledger"
		c.Cfg.Ledger = []hist.LedgerRule{{Username: "u1", Password: "p1", Allow: true}, {Username: "u2", Password: "", Allow: false}, {Username: "u3", Password: "p3", Allow: true}}
	}
	creds := func(a *hist.Action) {
		if c.Cfg.Auth == "ledger" {
			a.Username = pick(rt, "user", []string{"u1", "u2", "u3", "zz", ""})
			a.Password = pick(rt, "pass", []string{"p1", "p3", "bad", ""})
			if a.Username == "" {
				a.Password = ""
			}
		}
	}
	if rapid.IntRange(0, 2).Draw(rt, "part") == 0 {
		// ---- schedule part: a publish to a resumed session while its new handler sits between Clients.Add and CONNACK
		ver := pick(rt, "version", []byte{4, 5})
		exp := uint32(300)
		x := hist.Action{Kind: "connect", Client: 0, Version: ver, Clean: false, AutoAck: true}
		if ver == 5 {
			x.Expiry = &exp
		}
		if c.Cfg.Auth == "ledger" {
			x.Username, x.Password = "u1", "p1"
		}
		pub := hist.Action{Kind: "connect", Client: 1, Version: 4, Clean: true, AutoAck: true, Username: x.Username, Password: x.Password}
		c.Actions = append(c.Actions, x, hist.Action{Kind: "subscribe", Client: 0, Filters: []refmqtt.Filter{{Filter: "t/#", QoS: byte(rapid.IntRange(0, 1).Draw(rt, "subqos"))}}}, pub)
		if rapid.Bool().Draw(rt, "closefirst") {
			c.Actions = append(c.Actions, hist.Action{Kind: pick(rt, "how", []string{"close", "drop", "disconnect"}), Client: 0})
		}
		parked := x
		parked.Park = []string{pick(rt, "point", []string{"attach.beforeConnack", "attach.beforeConnack", "attach.afterConnack"})}
		c.Actions = append(c.Actions, parked)
		n := rapid.IntRange(1, 3).Draw(rt, "npub")
		for i := 0; i < n; i++ {
			c.Actions = append(c.Actions, hist.Action{Kind: "publish", Client: 1, Topic: "t/a", QoS: byte(rapid.IntRange(0, 1).Draw(rt, "pubqos"))})
		}
		c.Actions = append(c.Actions, hist.Action{Kind: "release", Client: 0}, hist.Action{Kind: "ping", Client: 0})
		return c
	}
	// ---- input part
	action := rapid.Custom(func(rt *rapid.T) hist.Action {
		cl := rapid.IntRange(0, 3).Draw(rt, "client")
		switch rapid.IntRange(0, 5).Draw(rt, "kind") {
		case 0, 1:
			// a valid CONNECT in one of its many legal shapes
			a := hist.Action{Kind: "connect", Client: cl, Version: pick(rt, "version", []byte{3, 4, 5}), Clean: rapid.Bool().Draw(rt, "clean"), AutoAck: true}
			creds(&a)
			if rapid.Bool().Draw(rt, "will") {
				a.Will = &hist.WillSpec{Topic: "w/t", QoS: byte(rapid.IntRange(0, 2).Draw(rt, "wq")), Retain: rapid.Bool().Draw(rt, "wr")}
			}
			return a
		case 2:
			// a generated CONNECT packet (valid or invalid field combinations)
			cid := fmt.Sprintf("g%d", rapid.IntRange(0, 3).Draw(rt, "gid"))
			p := genInvalidConnect(rt, cid)
			if rapid.IntRange(0, 7).Draw(rt, "ill-formed-string") == 0 {
				// an otherwise valid CONNECT with a will topic that is not a well-formed UTF-8 string (seeded change C13-f)
				p = &refmqtt.Packet{Type: refmqtt.CONNECT, Level: p.Level, ProtocolName: map[bool]string{true: "MQIsdp", false: "MQTT"}[p.Level == 3], CleanStart: true, ClientID: cid, KeepAlive: 30,
					WillFlag: true, WillPayload: []byte("x"), WillTopic: pick(rt, "bad-topic", []string{"w/\x00t", "w/\xed\xa0\x80", "\xffw", "w/\xc3"})}
				if p.Level != 3 && p.Level != 4 && p.Level != 5 {
					p.Level, p.ProtocolName = 4, "MQTT"
				}
			}
			if c.Cfg.Auth == "ledger" {
				p.UsernameFlag, p.Username, p.PasswordFlag, p.Password = true, []byte("u1"), true, []byte("p1")
				if v := c13Violation(p); v == "" {
					// keep flag/byte consistency of genInvalidConnect's cases 8/9 out of the credentialed variant
				}
			}
			return hist.Action{Kind: "connect", Client: 10 + cl, CID: &cid, RawConnect: p, AutoAck: true}
		case 3:
			// a first packet that is not a CONNECT
			cid := fmt.Sprintf("r%d", rapid.IntRange(0, 3).Draw(rt, "rid"))
			raw := pick(rt, "raw", [][]byte{{0xC0, 0x00}, {0x30, 0x05, 0x00, 0x01, 'a', 'x', 'y'}, {0x82, 0x06, 0x00, 0x01, 0x00, 0x01, 'a', 0x00}, {0xE0, 0x00}, {0x20, 0x02, 0x00, 0x00}, {0x00, 0x00}, {0xF0, 0x00}, {0x62, 0x02, 0x00, 0x01}})
			return hist.Action{Kind: "connect", Client: 20 + cl, CID: &cid, RawFirst: raw}
		case 4:
			// a truncated CONNECT: the broker must not answer before the packet is complete; the harness then closes
			cid := fmt.Sprintf("t%d", rapid.IntRange(0, 3).Draw(rt, "tid"))
			full := refmqtt.Encode(&refmqtt.Packet{Type: refmqtt.CONNECT, Level: 4, ProtocolName: "MQTT", ClientID: cid, KeepAlive: 10}, refmqtt.Style{})
			cut := rapid.IntRange(1, len(full)-1).Draw(rt, "cut")
			return hist.Action{Kind: "connect", Client: 30 + cl, CID: &cid, RawFirst: full[:cut], Point: "incomplete"}
		default:
			// probe: same identifier as an earlier invalid attempt, clean start 0
			cid := pick(rt, "probe", []string{"g0", "g1", "r0", "r1", "t0"})
			a := hist.Action{Kind: "connect", Client: 40, CID: &cid, Version: 4, Clean: false, AutoAck: true}
			if c.Cfg.Auth == "ledger" {
				a.Username, a.Password = "u1", "p1"
			}
			return a
		}
	})
	c.Actions = append(c.Actions, rapid.SliceOfN(action, 2, 20).Draw(rt, "actions")...)
	return c
}

func TestC13(t *testing.T) {
	r := evid.New("C13", "rapid, two parts. Input part: first packets on fresh connections - valid CONNECTs in many shapes (v3.1/3.1.1/5, clean 0/1, will, credentials), generated CONNECT packets with protocol violations (names, levels, reserved bit, will bit inconsistencies, will QoS 3, empty will topic, will topic that is not a well-formed UTF-8 string (U+0000, lone surrogate, stray bytes), empty v3 client id with clean 0, flags without bytes), packets that are not CONNECT, truncated CONNECTs, and later probe connections with the same identifier; hook configuration in {no auth hook, allow-all, bundled ledger hook with username/password rules}. Schedule part: a client with a persistent session and a subscription reconnects (after close/drop/disconnect, or as a takeover) while its new handler is parked between registering the client and sending CONNACK (verif schedule point attach.beforeConnack) and another client publishes to the subscription. Oracle: the first packet on every connection is CONNACK, at most one CONNACK, success only if the reference evaluation of the hooks admits the client, invalid first packets get no session (probe sees session present 0) and the connection is closed; non-trivial = invalid/non-CONNECT first packet, or a parked handler with a concurrent publish; distinct by case")
	defer r.Finish(t)
	if evid.ReplayMode() {
		evid.Replay(t, r, replayPath(), c13Check)
		return
	}
	evid.Run(t, r, func(rt *rapid.T) *hist.Case {
		c := c13Gen(rt)
		r.Sample(c.Summary())
		return c
	}, c13Check)
}
