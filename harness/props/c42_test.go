package props

import (
	"fmt"
	"testing"

	"pgregory.net/rapid"
	"verif/harness/evid"
	"verif/harness/refmqtt"
)

// ---- C42: every valid encoding a client may send is decoded as the sender meant (codec level) --------

type c42Case struct {
	P     *refmqtt.Packet `json:"p"`
	Style refmqtt.Style   `json:"style"`
	// byte side (native fuzzing): a byte string the strict reference decoder reads as one client-to-server packet
	Bytes   []byte `json:"bytes,omitempty"`
	Version byte   `json:"version,omitempty"`
}

func c42Check(c c42Case, r *evid.Rec) []evid.Disc {
	p := c.P
	var enc []byte
	if p == nil {
		rp, n, err := refmqtt.Decode(c.Bytes, c.Version, refmqtt.ClientToServer)
		if err != nil || n != len(c.Bytes) {
			r.Label("bytes-not-a-valid-client-packet")
			return nil
		}
		p, enc = rp, c.Bytes
		r.Label("bytes-valid/" + refmqtt.TypeName(p.Type))
		if nontrivialPacket(p) {
			r.NonTrivial(fmt.Sprintf("b%x", c.Bytes))
		}
	} else {
		enc = refmqtt.Encode(p, c.Style)
	}
	// the reference decoder must itself read the styled bytes as p (guards the oracle)
	if rp, _, err := refmqtt.Decode(enc, p.Version, refmqtt.ClientToServer); c.P != nil && (err != nil || !refmqtt.Equal(rp, p)) {
		return []evid.Disc{evid.D("C42-harness-self-check", "reference codec does not round-trip its own styled encoding of %s: %v", p, err)}
	}
	form := ""
	_, rem, _, _ := splitFixed(enc)
	switch p.Type {
	case refmqtt.DISCONNECT, refmqtt.AUTH:
		if p.Version == 5 && rem <= 1 {
			form = fmt.Sprintf("-short-form-remaining-%d", rem)
		}
	case refmqtt.PUBACK, refmqtt.PUBREC, refmqtt.PUBREL, refmqtt.PUBCOMP:
		if p.Version == 5 && rem <= 3 {
			form = fmt.Sprintf("-short-form-remaining-%d", rem)
		}
	}
	if form != "" {
		r.Label("short-form")
	}
	if c.Style.PropOrder != 0 && !p.Props.IsEmpty() {
		r.Label("permuted-properties")
	}
	m, err := mochiDecode(enc, p.Version)
	if err != nil {
		return []evid.Disc{evid.D("C42-rejects-"+refmqtt.TypeName(p.Type)+form, "%s encoded as % x is rejected: %v", p, clip(enc), err)}
	}
	got := fromMochi(&m, p.Version)
	if d := refmqtt.Diff(p, got); d != "" {
		sig := "C42-misreads-" + refmqtt.TypeName(p.Type) + form
		if zeroLengthOnly(d) {
			sig = "C42-zero-length-property-read-as-absent"
		}
		return []evid.Disc{evid.D(sig, "%s encoded as % x is read differently: %s", p, clip(enc), d)}
	}
	return nil
}

func TestC42(t *testing.T) {
	r := evid.New("C42", "rapid: client-to-server packets of every type x {3.1, 3.1.1, 5} from the reference encoder with a generated style: reason code and property length omitted wherever the specification allows (DISCONNECT/AUTH remaining length 0 and 1, acknowledgements 2 and 3), present-but-empty property block, properties in a generated permutation with user properties interleaved; fixed witnesses of zero-length properties; oracle: mochi's read path yields the abstract packet the sender encoded; non-trivial = short form, or >=2 properties permuted, or >=2 filters; distinct by (shape, style)")
	defer r.Finish(t)
	if evid.ReplayMode() {
		evid.Replay(t, r, replayPath(), c42Check)
		return
	}
	// witnesses of the listed finding (a property the sender includes with length 0)
	for _, w := range [][]byte{
		{0x30, 0x09, 0x00, 0x02, '0', '0', 0x03, 0x03, 0x00, 0x00, '0'}, // PUBLISH, Content Type ""
		{0x30, 0x09, 0x00, 0x03, '0', '0', '0', 0x03, 0x09, 0x00, 0x00}, // PUBLISH, Correlation Data of length 0
	} {
		r.Eval()
		evid.Witness(t, r, c42Case{Bytes: w, Version: 5}, c42Check)
	}
	// the short forms named in the statement, enumerated outright
	for _, typ := range []byte{refmqtt.PUBACK, refmqtt.PUBREC, refmqtt.PUBREL, refmqtt.PUBCOMP, refmqtt.DISCONNECT, refmqtt.AUTH} {
		codes := map[byte][]byte{refmqtt.PUBACK: rcPubackRec, refmqtt.PUBREC: rcPubackRec, refmqtt.PUBREL: rcPubrelComp, refmqtt.PUBCOMP: rcPubrelComp,
			refmqtt.DISCONNECT: append(append([]byte{}, rcDisc...), 0x04), refmqtt.AUTH: rcAuth}[typ]
		for _, rc := range codes {
			for _, st := range []refmqtt.Style{{}, {OmitReasonCode: true}, {OmitPropLen: true}, {OmitReasonCode: true, OmitPropLen: true}} {
				p := &refmqtt.Packet{Type: typ, Version: 5, ReasonCode: rc}
				if typ != refmqtt.DISCONNECT && typ != refmqtt.AUTH {
					p.PacketID = 7
				}
				c := c42Case{P: p, Style: st}
				r.NonTrivial(fmt.Sprintf("enum/%d/%x/%+v", typ, rc, st))
				if un := evid.Direct(t, r, c, c42Check); len(un) > 0 {
					return
				}
			}
		}
	}
	evid.Run(t, r, func(rt *rapid.T) c42Case {
		p, _ := genAnyPacket(rt, []refmqtt.Direction{refmqtt.ClientToServer})
		st := refmqtt.Style{OmitReasonCode: rapid.Bool().Draw(rt, "orc"), OmitPropLen: rapid.Bool().Draw(rt, "opl")}
		if rapid.Bool().Draw(rt, "permute") {
			st.PropOrder = rapid.Uint32Range(1, 1<<30).Draw(rt, "order")
		}
		// bias acknowledgements / DISCONNECT / AUTH towards "reason 0, no properties" so that the short forms occur
		switch p.Type {
		case refmqtt.PUBACK, refmqtt.PUBREC, refmqtt.PUBREL, refmqtt.PUBCOMP, refmqtt.DISCONNECT, refmqtt.AUTH:
			if p.Version == 5 && rapid.Bool().Draw(rt, "plain") {
				p.Props = refmqtt.Props{}
				if rapid.Bool().Draw(rt, "zero") {
					p.ReasonCode = 0
				}
			}
		}
		c := c42Case{P: p, Style: st}
		if nontrivialPacket(p) || st.OmitReasonCode || st.OmitPropLen {
			r.NonTrivial(shapeKey(p) + fmt.Sprintf("%v%v%d", st.OmitReasonCode, st.OmitPropLen, st.PropOrder%7))
		}
		r.Label(refmqtt.TypeName(p.Type))
		r.Sample(fmt.Sprintf("%s style=%+v", p, st))
		return c
	}, c42Check)
}
