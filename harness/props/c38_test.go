package props

import (
	"fmt"
	"strings"
	"testing"

	"pgregory.net/rapid"
	"verif/harness/evid"
	"verif/harness/hist"
	"verif/harness/refmqtt"
)

// ---- C38: reported $SYS statistics match the broker's actual state -----------------------------------------

func c38Check(c *hist.Case, r *evid.Rec) []evid.Disc {
	run := runCase(c, r)
	if run == nil {
		return nil
	}
	m := hist.Analyze(run)
	var ds []evid.Disc
	seen := map[string]bool{}
	add := func(sig, format string, a ...any) {
		counter := strings.SplitN(strings.TrimPrefix(sig, "C38-"), "-after-", 2)[0]
		if !seen[counter] { // first drift per counter and case: later steps only repeat it
			seen[counter] = true
			ds = append(ds, evid.D(sig, format, a...))
		}
	}
	cause := func(s *hist.Step) string {
		// what happened in the step in which a counter first went wrong (signature suffix: the call site family)
		switch s.A.Kind {
		case "connect":
			for _, ce := range m.Conns {
				if ce.Step == s.I && ce.TookOver >= 0 {
					return "takeover"
				}
			}
			return "connect"
		case "tick":
			return "tick-" + s.A.Tick
		case "publish", "burst":
			for _, e := range s.Events {
				if e.Kind == "publish-dropped" {
					return "publish-with-queue-full-drop"
				}
			}
			return "publish"
		}
		return s.A.Kind
	}
	// live connections according to the harness: success CONNACK seen, not yet closed
	for _, s := range run.Steps {
		live := 0
		for _, p := range run.Peers {
			if p.Established() && p.OpenedAt <= s.I && (p.ClosedAt < 0 || p.ClosedAt > s.I) {
				ackStep := -1
				for i, pk := range p.Got {
					if pk.Type == refmqtt.CONNACK {
						ackStep = p.GotStep[i]
						break
					}
				}
				if ackStep >= 0 && ackStep <= s.I {
					live++
				}
			}
		}
		in := s.Info
		if in.ClientsConnected < 0 || in.Subscriptions < 0 || in.Retained < 0 || in.Inflight < 0 {
			add("C38-negative-counter-after-"+cause(s), "step %d (%s): a reported counter is negative: clients=%d subscriptions=%d retained=%d inflight=%d", s.I, s.A.String(), in.ClientsConnected, in.Subscriptions, in.Retained, in.Inflight)
		}
		if in.ClientsConnected != int64(live) {
			add("C38-clients-connected-after-"+cause(s), "step %d (%s): Info.ClientsConnected=%d, but %d established connections are open", s.I, s.A.String(), in.ClientsConnected, live)
		}
		if in.Subscriptions != in.ActualSubs {
			add("C38-subscriptions-after-"+cause(s), "step %d (%s): Info.Subscriptions=%d, but the registered clients hold %d subscriptions (model: %d)", s.I, s.A.String(), in.Subscriptions, in.ActualSubs, m.SubsAfter[s.I])
		}
		if len(m.Uncertain) == 0 && in.ActualSubs != int64(m.SubsAfter[s.I]) {
			// the broker's own registry disagrees with the protocol-level model: not this property's subject, but it
			// would make "actual" meaningless, so it is reported under its own signature
			add("C38-registry-differs-from-model-after-"+cause(s), "step %d (%s): the registered clients hold %d subscriptions, the session model %d", s.I, s.A.String(), in.ActualSubs, m.SubsAfter[s.I])
		}
		if in.Retained != in.ActualRetained {
			add("C38-retained-after-"+cause(s), "step %d (%s): Info.Retained=%d, but the retained store holds %d messages", s.I, s.A.String(), in.Retained, in.ActualRetained)
		}
		if in.Inflight != in.ActualInflight {
			add("C38-inflight-after-"+cause(s), "step %d (%s): Info.Inflight=%d, but the clients' in-flight stores hold %d messages", s.I, s.A.String(), in.Inflight, in.ActualInflight)
		}
		r.Label("step/" + s.A.Kind)
		if c := cause(s); c == "takeover" || c == "publish-with-queue-full-drop" || s.A.Kind == "tick" || s.A.Kind == "unsubscribe" {
			r.Label("cause/" + c)
		}
	}
	// $SYS payloads published by the broker equal the counters at that moment
	for _, s := range run.Steps {
		if s.A.Kind != "tick" || s.A.Tick != "sys" {
			continue
		}
		for _, o := range s.Obs {
			if o.P.Type != refmqtt.PUBLISH {
				continue
			}
			var want int64 = -1
			switch o.P.Topic {
			case "$SYS/broker/clients/connected":
				want = s.Info.ClientsConnected
			case "$SYS/broker/subscriptions":
				want = s.Info.Subscriptions
			case "$SYS/broker/retained":
				want = -2 // the tick itself retains $SYS messages, so the count moves while it is being published
			case "$SYS/broker/messages/inflight":
				want = s.Info.Inflight
			}
			if want >= 0 {
				r.Label("sys-payload-checked")
				if string(o.P.Payload) != fmt.Sprint(want) {
					add("C38-sys-payload-"+o.P.Topic, "step %d: %s carried %q, the counter is %d", s.I, o.P.Topic, o.P.Payload, want)
				}
			}
		}
	}
	nontrivial := false
	for _, s := range run.Steps {
		if c := cause(s); c == "takeover" || c == "publish-with-queue-full-drop" || (s.A.Kind == "tick" && s.A.Tick != "sys") || s.A.Kind == "release" {
			nontrivial = true
		}
	}
	if nontrivial {
		r.NonTrivial(caseKey(c))
	}
	return withTranscript(ds, run)
}

// c38GenLimitRace: connection attempts racing for the last slots of a small MaximumClients (handlers parked between
// the limit check and the counter increment, released in generated order), then some of them leave again.
func c38GenLimitRace(rt *rapid.T) *hist.Case {
	c := &hist.Case{}
	c.Cfg.ClientPIDBase = 1000
	L := rapid.IntRange(1, 3).Draw(rt, "max-clients")
	c.Cfg.MaximumClients = int64(L)
	n := L + rapid.IntRange(1, 3).Draw(rt, "extra")
	for cl := 0; cl < n; cl++ {
		a := hist.Action{Kind: "connect", Client: cl, Version: pick(rt, "version", []byte{4, 5}), Clean: true, AutoAck: true}
		if rapid.IntRange(0, 3).Draw(rt, "parked") != 0 {
			a.Park = []string{"attach.afterLimitCheck"}
		}
		c.Actions = append(c.Actions, a)
	}
	for _, cl := range rapid.Permutation(seq(n)).Draw(rt, "release-order") {
		c.Actions = append(c.Actions, hist.Action{Kind: "release", Client: cl})
	}
	for cl := 0; cl < n; cl++ {
		switch rapid.IntRange(0, 3).Draw(rt, "then") {
		case 0:
			c.Actions = append(c.Actions, hist.Action{Kind: "drop", Client: cl})
		case 1:
			c.Actions = append(c.Actions, hist.Action{Kind: "connect", Client: cl, Version: 4, Clean: true, AutoAck: true})
		}
	}
	c.Actions = append(c.Actions, hist.Action{Kind: "tick", Tick: "sys"})
	return c
}

func seq(n int) []int {
	out := make([]int, n)
	for i := range out {
		out[i] = i
	}
	return out
}

func c38Gen(rt *rapid.T) *hist.Case {
	if rapid.IntRange(0, 5).Draw(rt, "limit-race") == 0 {
		return c38GenLimitRace(rt)
	}
	g := defaultHistGen()
	g.NClients = 3
	g.Versions = []byte{4, 5, 5}
	g.Topics = []string{"a", "a/b", "b"}
	g.Filters = []string{"a", "a/b", "a/#", "#", "+", "b", "a/+", "$share/g/a", "$share/g/a/#"}
	g.Retain, g.EmptyPayload, g.AckFailure = true, true, true
	g.WConnect, g.WSubscribe, g.WUnsubscribe, g.WPublish, g.WDisconnect, g.WDrop, g.WAck = 3, 4, 3, 6, 1, 1, 2
	g.AutoAck = rapid.IntRange(0, 2).Draw(rt, "autoack") != 0
	g.Expiry = []uint32{0, 100, 5}
	g.CleanStart = []bool{true, false, false}
	g.RecvMax = []uint16{0, 0, 2}
	g.MinActions, g.MaxActions = 5, 30
	c := g.Draw(rt)
	c.Cfg.ClientPIDBase = 1000
	switch rapid.IntRange(0, 3).Draw(rt, "limits") {
	case 0:
		c.Cfg.WritesPending = int32(pick(rt, "writes-pending", []int{1, 2}))
	case 1:
		c.Cfg.MaximumInflight = uint16(pick(rt, "max-inflight", []int{1, 2, 3}))
	}
	if rapid.Bool().Draw(rt, "msg-expiry") {
		x := int64(5)
		c.Cfg.MaxMessageExpiry = &x
	}
	// sprinkle housekeeping ticks and bursts between the generated actions
	var out []hist.Action
	for _, a := range c.Actions {
		out = append(out, a)
		switch rapid.IntRange(0, 11).Draw(rt, "extra") {
		case 0:
			out = append(out, hist.Action{Kind: "tick", Tick: pick(rt, "tick", []string{"clients", "retained", "inflight"}), Offset: pick(rt, "off", []int64{0, 20, 1000})})
		case 1:
			out = append(out, hist.Action{Kind: "burst", Burst: []hist.BurstItem{{Client: rapid.IntRange(0, 2).Draw(rt, "bc"), Topic: "a/b", QoS: byte(rapid.IntRange(0, 2).Draw(rt, "bq")), Count: rapid.IntRange(2, 6).Draw(rt, "bn")}}})
		}
	}
	// an observer of the $SYS tree, then a $SYS tick
	out = append(out, hist.Action{Kind: "connect", Client: 3, Version: 4, Clean: true, AutoAck: true},
		hist.Action{Kind: "subscribe", Client: 3, Filters: []refmqtt.Filter{{Filter: "$SYS/#", QoS: 0}}},
		hist.Action{Kind: "tick", Tick: "sys"})
	c.Actions = out
	return c
}

func TestC38(t *testing.T) {
	r := evid.New("C38", "rapid: histories over 3 clients (v3.1.1 / v5): connect (clean start 0/1, expiry 0/5/100, Receive Maximum absent/2), takeovers, subscribe (nested, wildcard and $share filters), unsubscribe (also of filters never subscribed or held by others), retained publishes and clears, QoS 0-2 with prompt or manual acknowledgement, disconnects and drops, bursts, small write queues (queue-full drops) or small in-flight limits, housekeeping ticks (session expiry, retained expiry, in-flight expiry at virtual times), finally a $SYS tick observed by a $SYS/# subscriber; one case in six instead races 2-6 connection attempts for the last slots of MaximumClients 1-3 (handlers parked between the limit check and the counter increment, released in generated order). Oracle after EVERY step (quiescent): Info.ClientsConnected == open established connections (harness count); Info.Subscriptions == sum of the registered clients' subscriptions (cross-checked against the session model); Info.Retained == size of the retained store; Info.Inflight == sum of the clients' in-flight stores; no counter negative; $SYS payloads == counters. Non-trivial = the history contains a takeover, a queue-full drop or a housekeeping tick; distinct by history")
	defer r.Finish(t)
	if evid.ReplayMode() {
		evid.Replay(t, r, replayPath(), c38Check)
		return
	}
	evid.Run(t, r, func(rt *rapid.T) *hist.Case {
		c := c38Gen(rt)
		r.Sample(c.Summary())
		return c
	}, c38Check)
}
