package props

import (
	"fmt"
	"testing"

	"pgregory.net/rapid"
	"verif/harness/evid"
	"verif/harness/hist"
	"verif/harness/refmqtt"
)

// ---- C14: session present flag and session takeover behave per clean start -------------------------------

func c14Check(c *hist.Case, r *evid.Rec) []evid.Disc {
	run := runCase(c, r)
	if run == nil {
		return nil
	}
	m := hist.Analyze(run)
	var ds []evid.Disc
	directed := ""
	for _, a := range c.Actions {
		if a.Kind == "hold" || len(a.Park) > 0 {
			directed = "-directed-schedule"
		}
	}
	// (1) CONNACK session present == a session existed and clean start was 0
	for _, ce := range m.Conns {
		if !ce.Success {
			continue
		}
		if ce.SessionPresent != ce.ExpectSP {
			sig := "C14-session-present-flag"
			if ce.TookOver >= 0 {
				sig = "C14-session-present-flag-on-takeover"
			}
			ds = append(ds, evid.D(sig+directed, "step %d: %s connected with clean start %v; model: session existed=%v; CONNACK session present=%v", ce.Step, ce.CID, ce.Clean, ce.ExpectSP || (ce.Clean && ce.SessionPresent), ce.SessionPresent))
		}
		if ce.TookOver >= 0 || ce.ExpectSP {
			r.NonTrivial(fmt.Sprintf("%s|%d", caseKey(c), ce.Step))
			if ce.TookOver >= 0 {
				r.Label("takeover")
			}
		}
		// (2) the connection that was taken over: DISCONNECT 0x8E (v5) last, then closed by the broker
		if ce.TookOver >= 0 {
			old := run.Peers[ce.TookOver]
			if old.ClosedAt < 0 {
				ds = append(ds, evid.D("C14-old-connection-not-closed"+directed, "step %d: %s was taken over by #%d but its old connection #%d is still open at the end", ce.Step, ce.CID, ce.Peer, old.ID))
			}
			sawDisc := -1
			for i, pk := range old.Got {
				if pk.Type == refmqtt.DISCONNECT {
					sawDisc = i
				}
			}
			if old.Version == 5 && !old.BlindAt(1<<30) {
				if sawDisc < 0 {
					ds = append(ds, evid.D("C14-takeover-without-disconnect"+directed, "step %d: v5 connection %s#%d was taken over but never received a DISCONNECT", ce.Step, ce.CID, old.ID))
				} else if old.Got[sawDisc].ReasonCode != 0x8E {
					ds = append(ds, evid.D("C14-takeover-disconnect-reason"+directed, "step %d: taken-over connection received DISCONNECT 0x%02X, expected 0x8E", ce.Step, old.Got[sawDisc].ReasonCode))
				}
			}
			if sawDisc >= 0 && sawDisc != len(old.Got)-1 {
				ds = append(ds, evid.D("C14-packet-after-disconnect"+directed, "step %d: connection %s#%d received %s after its DISCONNECT", ce.Step, ce.CID, old.ID, old.Got[sawDisc+1]))
			}
		}
		// (3) after clean start 1 or without session present nothing from the previous session is resent
		if !ce.SessionPresent {
			st := run.Steps[ce.AckStep]
			for _, o := range st.Obs {
				if o.Peer == ce.Peer && (o.P.Type == refmqtt.PUBLISH || o.P.Type == refmqtt.PUBREL) {
					ds = append(ds, evid.D("C14-resend-without-session-present"+directed, "step %d: %s#%d (session present 0) received %s right after its CONNACK", ce.Step, ce.CID, ce.Peer, o.P))
				}
			}
		}
	}
	// (4) subscriptions survive exactly as the model says: the delivery oracle over the whole history
	for _, d := range deliveryDiscs(c, run, m, r, "C14") {
		d.Sig += directed
		ds = append(ds, d)
	}
	return withTranscript(ds, run)
}

func c14Gen(rt *rapid.T) *hist.Case {
	c := &hist.Case{}
	c.Cfg.ClientPIDBase = 1000
	exp := uint32(300)
	zero := uint32(0)
	mk := func(cl int, ver byte, clean bool, expiry *uint32) hist.Action {
		a := hist.Action{Kind: "connect", Client: cl, Version: ver, Clean: clean, AutoAck: true}
		if ver == 5 {
			a.Expiry = expiry
		}
		return a
	}
	vers := []byte{pick(rt, "v0", []byte{4, 5, 3}), pick(rt, "v1", []byte{4, 5})}
	genExpiry := func(rt *rapid.T) *uint32 {
		switch rapid.IntRange(0, 2).Draw(rt, "expiry") {
		case 0:
			return nil
		case 1:
			return &zero
		}
		return &exp
	}
	filters := []string{"t/a", "t/#", "t/+", "u/#"}
	probe := func() []hist.Action {
		return []hist.Action{{Kind: "publish", Client: 2, Topic: "t/a", QoS: 1}, {Kind: "publish", Client: 2, Topic: "u/x", QoS: 0}}
	}
	c.Actions = append(c.Actions, mk(2, 4, true, nil))
	mode := rapid.IntRange(0, 5).Draw(rt, "mode")
	switch {
	case mode <= 3:
		// ---- sequential histories under the default schedule policy (teardown after everything else)
		action := rapid.Custom(func(rt *rapid.T) hist.Action {
			cl := rapid.IntRange(0, 1).Draw(rt, "client")
			switch rapid.IntRange(0, 9).Draw(rt, "kind") {
			case 0, 1, 2:
				return mk(cl, vers[cl], rapid.IntRange(0, 2).Draw(rt, "clean") == 0, genExpiry(rt))
			case 3, 4:
				return hist.Action{Kind: "subscribe", Client: cl, Filters: []refmqtt.Filter{{Filter: pick(rt, "filter", filters), QoS: byte(rapid.IntRange(0, 2).Draw(rt, "q"))}}}
			case 5, 6, 7:
				return hist.Action{Kind: "publish", Client: 2, Topic: pick(rt, "topic", []string{"t/a", "u/x"}), QoS: byte(rapid.IntRange(0, 2).Draw(rt, "pq"))}
			case 8:
				return hist.Action{Kind: pick(rt, "how", []string{"disconnect", "drop", "close"}), Client: cl}
			default:
				return hist.Action{Kind: "unsubscribe", Client: cl, Filters: []refmqtt.Filter{{Filter: pick(rt, "filter", filters)}}}
			}
		})
		c.Actions = append(c.Actions, rapid.SliceOfN(action, 4, 30).Draw(rt, "actions")...)
		c.Actions = append(c.Actions, probe()...)
	default:
		// ---- directed schedules around one takeover
		c.Cfg.FreeTeardown = true
		ver := vers[0]
		oldClean := rapid.Bool().Draw(rt, "oldclean")
		oldExp := genExpiry(rt)
		newClean := rapid.IntRange(0, 2).Draw(rt, "newclean") == 0
		c.Actions = append(c.Actions, mk(0, ver, oldClean, oldExp),
			hist.Action{Kind: "subscribe", Client: 0, Filters: []refmqtt.Filter{{Filter: "t/#", QoS: 1}}})
		nw := mk(0, ver, newClean, genExpiry(rt))
		if mode == 4 {
			// old-first: the new handler waits right after disconnecting the old connection until the old handler is gone
			nw.Park = []string{"inherit.afterDisconnectOld"}
			c.Actions = append(c.Actions, nw, hist.Action{Kind: "release", Client: 0})
		} else {
			// delete-after-add: the old handler passes its "taken over?" test, then waits just before removing its client
			// id from the registry until the new connection is fully established
			c.Actions = append(c.Actions, hist.Action{Kind: "hold", Client: 0, Point: "attach.beforeDelete"})
			nw.Park = []string{"inherit.afterDisconnectOld"}
			c.Actions = append(c.Actions, nw,
				hist.Action{Kind: "release", Client: 0, Point: "inherit.afterDisconnectOld"},
				hist.Action{Kind: "release", Client: 0, Older: 1, Point: "attach.beforeDelete"},
				hist.Action{Kind: "release", Client: 0, Older: 1})
		}
		if !newClean && rapid.Bool().Draw(rt, "noresub") {
			// rely on the inherited subscription
		} else {
			c.Actions = append(c.Actions, hist.Action{Kind: "subscribe", Client: 0, Filters: []refmqtt.Filter{{Filter: "t/#", QoS: 1}}})
		}
		c.Actions = append(c.Actions, probe()...)
		c.Actions = append(c.Actions, hist.Action{Kind: "ping", Client: 0})
	}
	return c
}

func TestC14(t *testing.T) {
	r := evid.New("C14", "rapid, two classes over 2 client ids (one protocol version per id, v3.1/v3.1.1/v5): (a) sequential connect (clean start 0/1, session expiry absent/0/300) / subscribe / unsubscribe / publish-by-third-client / disconnect / drop / reconnect / takeover histories under the default schedule policy; (b) directed schedules around one takeover through verif schedule points: 'old-first' (new handler parked at inherit.afterDisconnectOld until the old handler has finished) and 'delete-after-add' (old handler parked at attach.beforeDelete until the new connection is established). Oracle: CONNACK session present == (model: session existed and clean start 0); the taken-over v5 connection ends with DISCONNECT 0x8E and nothing after it, and is closed; nothing is resent without session present; and the per-publish delivery oracle of C03 over the model's subscriptions (resumed sessions keep them, clean start drops them) including probe publishes after every takeover; non-trivial = takeover or reconnect with prior session state; distinct by (history, step)")
	defer r.Finish(t)
	if evid.ReplayMode() {
		evid.Replay(t, r, replayPath(), c14Check)
		return
	}
	evid.Run(t, r, func(rt *rapid.T) *hist.Case {
		c := c14Gen(rt)
		r.Sample(c.Summary())
		return c
	}, c14Check)
}
