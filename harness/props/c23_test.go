package props

import (
	"fmt"
	"strings"
	"testing"

	"pgregory.net/rapid"
	"verif/harness/evid"
	"verif/harness/hist"
	"verif/harness/refmqtt"
)

// ---- C23: everything the broker writes is well-formed for the client's protocol version ----------------

// wireDiscs applies the wire-level rules to every connection of an executed history.
func wireDiscs(run *hist.Run, r *evid.Rec) []evid.Disc {
	var ds []evid.Disc
	for _, p := range run.Peers {
		vname := fmt.Sprintf("v%d", p.Version)
		if p.Version < 5 {
			vname = "v3"
		}
		errPath := false
		if we := p.WireErr; we != nil {
			first := byte(0)
			if len(we.Bytes) > 0 {
				first = we.Bytes[0] >> 4
			}
			sig := fmt.Sprintf("C23-%s-%s-%s", we.Class, refmqtt.TypeName(first), vname)
			ds = append(ds, evid.D(sig, "connection %s#%d (%s): after %d well-formed packets the broker wrote % x: %s", p.CID, p.ID, vname, we.After, clip(we.Bytes), we.Msg))
			errPath = true
		}
		for _, we := range p.Soft {
			first := byte(0)
			if len(we.Bytes) > 0 {
				first = we.Bytes[0] >> 4
			}
			sig := fmt.Sprintf("C23-%s-%s-%s", we.Class, refmqtt.TypeName(first), vname)
			if we.Class == "reason-code" && !(first == refmqtt.CONNACK && p.Version < 5) {
				if i := strings.LastIndex(we.Msg, "0x"); i >= 0 && i+4 <= len(we.Msg) {
					sig += "-" + we.Msg[i:i+4]
				}
			}
			ds = append(ds, evid.D(sig, "connection %s#%d (%s): % x: %s", p.CID, p.ID, vname, clip(we.Bytes), we.Msg))
			errPath = true
		}
		noProblem := p.Connect != nil && p.Connect.Props.RequestProblemInfo != nil && *p.Connect.Props.RequestProblemInfo == 0
		wantResp := p.Connect != nil && p.Connect.Props.RequestRespInfo != nil && *p.Connect.Props.RequestRespInfo == 1
		var maxPkt uint32
		if p.Connect != nil && p.Connect.Props.MaximumPacketSize != nil && p.Version == 5 {
			maxPkt = *p.Connect.Props.MaximumPacketSize
		}
		sawDisconnect := false
		connacks := 0
		for i, pk := range p.Got {
			if sawDisconnect {
				ds = append(ds, evid.D("C23-packet-after-disconnect", "connection %s#%d: %s follows a DISCONNECT", p.CID, p.ID, pk))
			}
			switch pk.Type {
			case refmqtt.DISCONNECT:
				sawDisconnect = true
				errPath = true
			case refmqtt.CONNACK:
				connacks++
				if pk.ReasonCode != 0 {
					errPath = true
				}
				if pk.Props.ResponseInfo != nil && !wantResp {
					ds = append(ds, evid.D("C23-response-info-not-requested", "connection %s#%d: CONNACK carries Response Information although the client did not request it", p.CID, p.ID))
				}
			case refmqtt.PUBACK, refmqtt.PUBREC, refmqtt.PUBREL, refmqtt.PUBCOMP:
				if pk.ReasonCode >= 0x80 {
					errPath = true
				}
			case refmqtt.SUBACK, refmqtt.UNSUBACK:
				for _, c := range pk.ReasonCodes {
					if c >= 0x80 {
						errPath = true
					}
				}
			}
			if maxPkt > 0 && uint32(p.GotSize[i]) > maxPkt {
				ds = append(ds, evid.D("C23-exceeds-maximum-packet-size-"+refmqtt.TypeName(pk.Type), "connection %s#%d declared Maximum Packet Size %d but received a %d byte packet: %s", p.CID, p.ID, maxPkt, p.GotSize[i], pk))
			}
			if noProblem && pk.Type != refmqtt.PUBLISH && pk.Type != refmqtt.CONNACK && pk.Type != refmqtt.DISCONNECT {
				if pk.Props.ReasonString != nil || len(pk.Props.User) > 0 {
					ds = append(ds, evid.D("C23-problem-info-not-allowed-"+refmqtt.TypeName(pk.Type), "connection %s#%d set Request Problem Information=0 but received %s", p.CID, p.ID, pk))
				}
			}
		}
		if errPath {
			r.NonTrivial(fmt.Sprintf("%s|%d", caseKey(run.Case), p.ID))
			r.Label("error-path-connection/" + vname)
		}
		r.LabelN("packets-decoded", int64(len(p.Got)))
	}
	return ds
}

func c23Check(c *hist.Case, r *evid.Rec) []evid.Disc {
	run := runCase(c, r)
	if run == nil {
		return nil
	}
	return withTranscript(wireDiscs(run, r), run)
}

// invalidConnects are CONNECT packets that violate the protocol in each of the ways ConnectValidate claims to catch.
func genInvalidConnect(rt *rapid.T, cid string) *refmqtt.Packet {
	ver := pick(rt, "iver", []byte{3, 4, 5})
	p := &refmqtt.Packet{Type: refmqtt.CONNECT, Level: ver, ProtocolName: "MQTT", CleanStart: true, ClientID: cid, KeepAlive: 30}
	if ver == 3 {
		p.ProtocolName = "MQIsdp"
	}
	switch rapid.IntRange(0, 11).Draw(rt, "violation") {
	case 0:
		p.ProtocolName = pick(rt, "pname", []string{"MQTX", "", "mqtt", "MQIsdp2"})
	case 1:
		p.Level = pick(rt, "level", []byte{0, 2, 6, 0x84})
	case 2:
		p.ReservedFlag = true
	case 3:
		p.WillRetain = true // without will flag
	case 4:
		p.WillQoS = byte(rapid.IntRange(1, 3).Draw(rt, "wq")) // without will flag
	case 5:
		p.WillFlag, p.WillQoS, p.WillTopic, p.WillPayload = true, 3, "w", []byte("x")
	case 6:
		p.WillFlag, p.WillTopic, p.WillPayload = true, "", []byte("x")
	case 7:
		if ver < 5 {
			p.ClientID, p.CleanStart = "", false
		} else {
			p.ProtocolName = "MQTX"
		}
	case 8:
		p.PasswordFlag = true // flag without bytes
	case 9:
		p.UsernameFlag = true // flag without bytes (truncated packet)
	case 10:
		if ver == 3 {
			p.ProtocolName = "MQTT"
		} else {
			p.ProtocolName = "MQIsdp"
		}
	case 11:
		p.WillFlag, p.WillTopic, p.WillPayload = true, "w", nil
	}
	return p
}

func c23Gen(rt *rapid.T, r *evid.Rec) *hist.Case {
	g := defaultHistGen()
	g.Retain = true
	g.MaxPkt = []uint32{0, 0, 20, 60, 200}
	g.RecvMax = []uint16{0, 0, 1, 2}
	g.TAM = []uint16{0, 0, 2}
	g.WPing = 1
	g.Filters = append(append([]string{}, stdFilters...), "$share/g/a", "a/b#", "", "$share/g/", "a+")
	g.Topics = append(append([]string{}, stdTopics...), "$SYS/x", "a/+", "deny/x")
	c := g.Draw(rt)
	// error-path ingredients
	if rapid.Bool().Draw(rt, "perm") {
		c.Cfg.Auth = "perm"
		c.Cfg.Perm = &hist.Perm{Default: true}
		for i := 0; i < 3; i++ {
			for _, tp := range []string{"a", "a/b", "deny/x", "#", "a/#"} {
				if rapid.IntRange(0, 4).Draw(rt, "deny") == 0 {
					c.Cfg.Perm.Set(hist.ClientID(i), tp, rapid.Bool().Draw(rt, "w"), false)
				}
			}
		}
		c.Cfg.Obscure = rapid.Bool().Draw(rt, "obscure")
	}
	if rapid.Bool().Draw(rt, "smallrecv") {
		c.Cfg.ReceiveMaximum = uint16(rapid.IntRange(1, 2).Draw(rt, "srvrecv"))
	}
	if rapid.IntRange(0, 3).Draw(rt, "srvmaxpkt") == 0 {
		c.Cfg.MaximumPacketSize = uint32(pick(rt, "smp", []int{30, 100}))
	}
	mq := byte(rapid.IntRange(0, 2).Draw(rt, "maxqos"))
	c.Cfg.MaximumQos = &mq
	// sprinkle: problem/response info requests, non-acking clients, invalid connects, raw garbage
	for i := range c.Actions {
		a := &c.Actions[i]
		if a.Kind == "connect" && a.Version == 5 {
			if rapid.IntRange(0, 2).Draw(rt, "rpi") == 0 {
				v := byte(rapid.IntRange(0, 1).Draw(rt, "rpiv"))
				a.ReqProblem = &v
			}
			if rapid.IntRange(0, 2).Draw(rt, "rri") == 0 {
				v := byte(1)
				a.ReqResp = &v
			}
		}
		if a.Kind == "publish" && rapid.IntRange(0, 2).Draw(rt, "padded") == 0 {
			a.Pad = pick(rt, "pad", []int{30, 100, 250}) // so that a (re)sent message can exceed a later connection's smaller packet size limit
		}
		if a.Kind == "connect" && rapid.IntRange(0, 3).Draw(rt, "noack") == 0 {
			a.AutoAck = false
		}
		if (a.Kind == "subscribe" || a.Kind == "unsubscribe" || (a.Kind == "publish" && a.QoS > 0)) && rapid.IntRange(0, 3).Draw(rt, "smallpid") == 0 {
			a.PID = uint16(rapid.IntRange(1, 3).Draw(rt, "pid")) // likely to collide with an identifier that is in use
		}
	}
	nbad := rapid.IntRange(0, 3).Draw(rt, "nbad")
	for i := 0; i < nbad; i++ {
		pos := rapid.IntRange(0, len(c.Actions)).Draw(rt, "badpos")
		cl := rapid.IntRange(0, 2).Draw(rt, "badclient")
		var a hist.Action
		switch rapid.IntRange(0, 3).Draw(rt, "badkind") {
		case 0, 1:
			a = hist.Action{Kind: "connect", Client: cl, RawConnect: genInvalidConnect(rt, hist.ClientID(cl))}
		case 2:
			a = hist.Action{Kind: "raw", Client: cl, Raw: pick(rt, "garbage", [][]byte{{0xF0, 0x00}, {0x10, 0x00}, {0x00, 0x00}, {0x30, 0x02, 0x00, 0x05}, {0x82, 0x02, 0x00, 0x01}, {0xE0, 0x01, 0x04}, {0x62, 0x03, 0x00, 0x09, 0x92}})}
		case 3:
			a = hist.Action{Kind: "subscribe", Client: cl, Filters: []refmqtt.Filter{{Filter: "$share/g/a", QoS: 1, NoLocal: true}}}
		}
		c.Actions = append(c.Actions[:pos], append([]hist.Action{a}, c.Actions[pos:]...)...)
	}
	return c
}

// c23GenShrink: a resumed session whose new connection announces a smaller Maximum Packet Size than the one on which
// its unacknowledged QoS>0 messages were first sent (or queued): whatever is (re)sent must respect the NEW limit.
func c23GenShrink(rt *rapid.T) *hist.Case {
	c := &hist.Case{}
	c.Cfg.ClientPIDBase = 1000
	exp := uint32(300)
	conn := func(maxpkt uint32, auto bool) hist.Action {
		a := hist.Action{Kind: "connect", Client: 0, Version: 5, Clean: false, Expiry: &exp, AutoAck: auto}
		if maxpkt > 0 {
			a.MaxPkt = &maxpkt
		}
		return a
	}
	c.Actions = append(c.Actions, hist.Action{Kind: "connect", Client: 1, Version: pick(rt, "pv", []byte{4, 5}), Clean: true, AutoAck: true},
		conn(pick(rt, "first-limit", []uint32{0, 200, 400}), false),
		hist.Action{Kind: "subscribe", Client: 0, Filters: []refmqtt.Filter{{Filter: "t/#", QoS: byte(rapid.IntRange(1, 2).Draw(rt, "sq"))}}})
	pub := func() hist.Action {
		return hist.Action{Kind: "publish", Client: 1, Topic: "t/a", QoS: byte(rapid.IntRange(0, 2).Draw(rt, "pq")), Pad: pick(rt, "pad", []int{0, 30, 100, 150})}
	}
	for i, n := 0, rapid.IntRange(1, 3).Draw(rt, "online"); i < n; i++ {
		c.Actions = append(c.Actions, pub())
	}
	if rapid.Bool().Draw(rt, "offline-first") {
		c.Actions = append(c.Actions, hist.Action{Kind: pick(rt, "how", []string{"drop", "disconnect"}), Client: 0})
		for i, n := 0, rapid.IntRange(0, 2).Draw(rt, "offline"); i < n; i++ {
			c.Actions = append(c.Actions, pub())
		}
	}
	c.Actions = append(c.Actions, conn(pick(rt, "second-limit", []uint32{20, 40, 60, 120}), rapid.Bool().Draw(rt, "auto2")),
		pub(), hist.Action{Kind: "ping", Client: 0})
	return c
}

func TestC23(t *testing.T) {
	r := evid.New("C23", "rapid: histories biased to error paths - v3.1/v3.1.1/v5 clients with Maximum Packet Size in {absent,20,60,200}, Request Problem Information {absent,0,1}, Request Response Information {0,1}; invalid CONNECTs of every kind; ACL denials (obscured or not); receive-maximum violations by non-acknowledging clients; takeovers; invalid and denied subscriptions; raw malformed packets; server maximum packet size and maximum QoS; half of the cases are drawn from the generators of the other simulation-based checks (C07-C17, C19, C24, C25, C34, C38, C40: wills, aliases, expiry, hooks, permissions, bursts, inline API, ...); oracle: every byte the broker wrote on every connection must split into packets the independent strict decoder accepts for that connection's version (framing, flags, direction, property and reason-code whitelists), nothing after DISCONNECT, size <= client maximum, problem/response information only when allowed; non-trivial = a connection that received a packet produced by an error path (failure CONNACK, DISCONNECT, negative acknowledgement); distinct by (history, connection)")
	defer r.Finish(t)
	if evid.ReplayMode() {
		evid.Replay(t, r, replayPath(), c23Check)
		return
	}
	evid.Run(t, r, func(rt *rapid.T) *hist.Case {
		// the wire rules are a universal invariant: besides the error-path generator, the histories of every other
		// simulation-based check are run through them as well (half of the cases)
		var c *hist.Case
		type gen struct {
			name string
			f    func(*rapid.T) *hist.Case
		}
		others := []gen{{"C07", c07Gen}, {"C08", c08Gen}, {"C09", c09Gen}, {"C10", c10Gen}, {"C11", c11Gen}, {"C12", c12Gen}, {"C13", c13Gen}, {"C14", c14Gen},
			{"C15", c15Gen}, {"C16", c16Gen}, {"C17", c17Gen}, {"C19", c19Gen}, {"C24-outbound", c24GenOutbound}, {"C24-inbound", c24GenInbound},
			{"C25", c25Gen}, {"C34", c34Gen}, {"C38", c38Gen}, {"C40", c40Gen}, {"C23-shrinking-packet-size", c23GenShrink}}
		// (built from fair coin flips: rapid's integer generators favour small values, which would starve the later entries)
		k := 0
		for i := 0; i < 6; i++ {
			k = k * 2
			if rapid.Bool().Draw(rt, "generator-bit") {
				k++
			}
		}
		if k = k % (2 * len(others)); k < len(others) {
			c = others[k].f(rt)
			r.Label("generator/" + others[k].name)
		} else {
			c = c23Gen(rt, r)
			r.Label("generator/C23")
		}
		r.Sample(c.Summary())
		return c
	}, c23Check)
	_ = strings.Join
}
