package props

import (
	"fmt"
	"testing"

	"pgregory.net/rapid"
	"verif/harness/evid"
	"verif/harness/hist"
	"verif/harness/refmqtt"
)

// ---- C15: expired or ended sessions leave nothing behind ---------------------------------------------------

func c15Check(c *hist.Case, r *evid.Rec) []evid.Disc {
	run := runCase(c, r)
	if run == nil {
		return nil
	}
	m := hist.Analyze(run)
	if len(m.Uncertain) > 0 {
		// a tick fell within the margin of an expiry boundary (slow machine): nothing can be asserted
		r.NotAsserted()
		r.Label("tick-inside-margin")
		return nil
	}
	var ds []evid.Disc
	const S = "c0"
	discardedBefore := func(step int) (bool, string) {
		// was the subject's session discarded at some point before this step (and after its previous connect)?
		why := ""
		for _, st := range m.Expired[S] {
			if st < step {
				why = "expired"
			}
		}
		return why != "", why
	}
	sawBothSides := false
	{
		// a case is interesting when the subject's disconnected session saw ticks that discard and ticks that do not
		kept, gone := false, len(m.Expired[S]) > 0
		for _, s := range run.Steps {
			if s.A.Kind == "tick" && s.A.Tick == "clients" {
				exp := false
				for _, st := range m.Expired[S] {
					if st == s.I {
						exp = true
					}
				}
				if !exp {
					kept = true
				}
			}
		}
		sawBothSides = kept && gone
	}
	// (1) session present == the model's session exists and clean start 0
	for _, ce := range m.Conns {
		if !ce.Success || ce.CID != S {
			continue
		}
		gone, _ := discardedBefore(ce.Step)
		if ce.SessionPresent != ce.ExpectSP {
			sig := "C15-session-present-flag"
			switch {
			case ce.SessionPresent && gone:
				sig = "C15-session-survived-its-expiry"
			case ce.SessionPresent:
				sig = "C15-session-survived-its-end-at-disconnect"
			case !ce.SessionPresent:
				sig = "C15-session-discarded-before-its-expiry"
			}
			ds = append(ds, evid.D(sig, "step %d: %s connected with clean start %v; model: resumable session exists=%v (expired by ticks at steps %v); CONNACK session present=%v", ce.Step, ce.CID, ce.Clean, ce.ExpectSP, m.Expired[S], ce.SessionPresent))
		}
		if gone || ce.ExpectSP {
			r.NonTrivial(fmt.Sprintf("%s|%d", caseKey(c), ce.Step))
		}
		// (2) without session present nothing from an earlier session is resent
		if !ce.ExpectSP {
			st := run.Steps[ce.AckStep]
			for _, o := range st.Obs {
				if o.Peer == ce.Peer && (o.P.Type == refmqtt.PUBLISH || o.P.Type == refmqtt.PUBREL) {
					ds = append(ds, evid.D("C15-queued-message-of-discarded-session-delivered", "step %d: %s#%d (no resumable session in the model) received %s right after its CONNACK", ce.Step, ce.CID, ce.Peer, o.P))
				}
			}
		}
		// (3) a session that was NOT discarded keeps its queued QoS 1 messages: they arrive with the CONNACK
		if ce.ExpectSP && ce.SessionPresent {
			st := run.Steps[ce.AckStep]
			for tag, ti := range run.Tags {
				if ti.QoS == 0 || ti.Client != 1 || ti.Step > ce.Step {
					continue
				}
				sn := m.Snaps[tag]
				if sn == nil {
					continue
				}
				if _, on := sn.Connected[S]; on {
					continue // published while the subject was connected
				}
				// only messages queued since the subject's last disconnect and matching a QoS>0 subscription it held then
				q := byte(0)
				for _, sst := range sn.MatchingAll(S, ti.Topic) {
					if sst.Opts.QoS > q {
						q = sst.Opts.QoS
					}
				}
				if q == 0 {
					continue
				}
				lastConn := -1
				for _, ce2 := range m.Conns {
					if ce2.CID == S && ce2.Success && ce2.Step < ce.Step && ce2.Step > lastConn {
						lastConn = ce2.Step
					}
				}
				if ti.Step < lastConn {
					continue // an earlier offline period; delivered (or not) at an earlier reconnect
				}
				if len(st.Deliveries(ce.Peer, tag)) == 0 {
					ds = append(ds, evid.D("C15-queued-message-lost-before-expiry", "step %d: %s resumed its session (session present 1) but m%d, queued at step %d while it was offline, was not delivered", ce.Step, S, tag, ti.Step))
				} else {
					r.Label("queued-message-delivered-on-resume")
				}
			}
		}
	}
	// (4) deliveries follow the model's subscriptions: a discarded session's subscriptions deliver nothing
	for _, d := range deliveryDiscs(c, run, m, r, "C15") {
		if d.Sig == "C15-unentitled-delivery" {
			d.Sig = "C15-subscription-of-discarded-session-still-delivers"
		}
		ds = append(ds, d)
	}
	if sawBothSides {
		r.Label("ticks-on-both-sides-of-the-boundary")
	}
	if len(m.Expired[S]) > 0 {
		r.Label("expired-by-tick")
	}
	for _, why := range m.EndedAt {
		r.Label("ended-at-disconnect/" + why)
	}
	return withTranscript(ds, run)
}

func c15Gen(rt *rapid.T) *hist.Case {
	c := &hist.Case{}
	c.Cfg.ClientPIDBase = 1000
	maxes := []uint32{0, 5, 60, 3600}
	M := pick(rt, "server-max", maxes)
	if M > 0 {
		c.Cfg.MaxSessionExpiry = &M
	}
	ver := pick(rt, "version", []byte{5, 5, 5, 4, 3})
	expiries := []uint32{10, 100, 100000}
	// candidate tick offsets: around every boundary the case can have, plus far ones
	var offs []int64
	for _, b := range []int64{0, 5, 7, 10, 50, 60, 100, 3600, 100000} {
		offs = append(offs, b-5, b+5, b+20)
	}
	offs = append(offs, -1000, 1, 1000000, 5000000000)
	c.Actions = append(c.Actions, hist.Action{Kind: "connect", Client: 1, Version: 4, Clean: true, AutoAck: true})
	rounds := rapid.IntRange(1, 3).Draw(rt, "rounds")
	pub := func(topic string, q byte) hist.Action {
		return hist.Action{Kind: "publish", Client: 1, Topic: topic, QoS: q}
	}
	connect := func(last bool) hist.Action {
		a := hist.Action{Kind: "connect", Client: 0, Version: ver, Clean: rapid.IntRange(0, 3).Draw(rt, "clean") == 0, AutoAck: true}
		if ver == 5 {
			switch rapid.IntRange(0, 5).Draw(rt, "expiry") {
			case 0:
			case 1:
				z := uint32(0)
				a.Expiry = &z
			default:
				e := pick(rt, "E", expiries)
				a.Expiry = &e
			}
		}
		return a
	}
	for i := 0; i < rounds; i++ {
		c.Actions = append(c.Actions, connect(false))
		if i == 0 || rapid.Bool().Draw(rt, "resub") {
			c.Actions = append(c.Actions, hist.Action{Kind: "subscribe", Client: 0, Filters: []refmqtt.Filter{{Filter: "t/#", QoS: 1}}})
		}
		if rapid.IntRange(0, 2).Draw(rt, "sub2") == 0 {
			c.Actions = append(c.Actions, hist.Action{Kind: "subscribe", Client: 0, Filters: []refmqtt.Filter{{Filter: "u/+", QoS: 0}}})
		}
		if rapid.IntRange(0, 2).Draw(rt, "tick-connected") == 0 {
			c.Actions = append(c.Actions, hist.Action{Kind: "tick", Tick: "clients", Offset: pick(rt, "off-connected", offs)})
		}
		if rapid.Bool().Draw(rt, "pub-connected") {
			c.Actions = append(c.Actions, pub("t/a", 1))
		}
		switch rapid.IntRange(0, 5).Draw(rt, "end") {
		case 0, 1:
			c.Actions = append(c.Actions, hist.Action{Kind: "disconnect", Client: 0})
		case 2, 3:
			d := hist.Action{Kind: "disconnect", Client: 0}
			if ver == 5 {
				e := pick(rt, "disc-expiry", []uint32{0, 7, 50, 100000})
				d.DiscExpiry = &e
			}
			c.Actions = append(c.Actions, d)
		case 4:
			c.Actions = append(c.Actions, hist.Action{Kind: "drop", Client: 0})
		default:
			c.Actions = append(c.Actions, hist.Action{Kind: "close", Client: 0})
		}
		for j, n := 0, rapid.IntRange(0, 2).Draw(rt, "offline-pubs"); j < n; j++ {
			c.Actions = append(c.Actions, pub("t/a", 1))
		}
		for j, n := 0, rapid.IntRange(0, 3).Draw(rt, "ticks"); j < n; j++ {
			c.Actions = append(c.Actions, hist.Action{Kind: "tick", Tick: "clients", Offset: pick(rt, "off", offs)})
		}
		if rapid.Bool().Draw(rt, "pub-after-ticks") {
			c.Actions = append(c.Actions, pub("t/b", 1))
		}
	}
	c.Actions = append(c.Actions, connect(true))
	c.Actions = append(c.Actions, pub("t/a", 1), pub("u/x", 0), hist.Action{Kind: "ping", Client: 0})
	return c
}

func TestC15(t *testing.T) {
	r := evid.New("C15", "rapid: 1-3 rounds of a subject client (one protocol version per case: v5 with session expiry absent/0/10/100/100000, or v3.1/v3.1.1 with clean session 0/1) connecting, subscribing (QoS 1 't/#', QoS 0 'u/+'), receiving, and ending its connection (DISCONNECT, DISCONNECT carrying a new session expiry 0/7/50/100000 incl. the illegal raise from 0, network drop, close), with QoS 1 publishes queued while it is offline and 0-3 'clear expired clients' housekeeping ticks at virtual times on both sides of every boundary the case can have (server maximum absent/5/60/3600; offsets boundary-5, +5, +20, far past, far future) and ticks while it is connected; then a reconnect (clean start 0/1) and probe publishes. Oracle (model): session discarded <=> ended at disconnect (v5 effective expiry 0, v3 clean session) or a tick later than disconnect + min(client interval, server maximum) (+3 s margin; ticks inside the margin make the case not asserted); a connected session is never discarded; CONNACK session present == model; nothing is resent and no old subscription delivers after discard; a session that was not discarded returns its queued QoS 1 messages. Non-trivial = a reconnect after a discard or with a resumable session; distinct by (history, step)")
	defer r.Finish(t)
	if evid.ReplayMode() {
		evid.Replay(t, r, replayPath(), c15Check)
		return
	}
	evid.Run(t, r, func(rt *rapid.T) *hist.Case {
		c := c15Gen(rt)
		r.Sample(c.Summary())
		return c
	}, c15Check)
}
