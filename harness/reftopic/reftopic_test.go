package reftopic

import "testing"

func TestSpecExamples(t *testing.T) {
	// examples from MQTT 5.0 §4.7.1
	m := []struct {
		f, t string
		want bool
	}{
		{"sport/tennis/player1/#", "sport/tennis/player1", true},
		{"sport/tennis/player1/#", "sport/tennis/player1/ranking", true},
		{"sport/tennis/player1/#", "sport/tennis/player1/score/wimbledon", true},
		{"sport/#", "sport", true},
		{"#", "sport", true},
		{"sport/tennis/+", "sport/tennis/player1", true},
		{"sport/tennis/+", "sport/tennis/player1/ranking", false},
		{"sport/+", "sport", false},
		{"sport/+", "sport/", true},
		{"+/+", "/finance", true},
		{"/+", "/finance", true},
		{"+", "/finance", false},
		{"#", "$SYS/x", false},
		{"+/monitor/Clients", "$SYS/monitor/Clients", false},
		{"$SYS/#", "$SYS/x", true},
		{"$SYS/monitor/+", "$SYS/monitor/Clients", true},
		{"a/+/#", "a/b", true},
		{"a/+/#", "a", false},
		{"a", "a/b", false},
		{"a/b", "a", false},
	}
	for _, c := range m {
		if got := Match(c.f, c.t); got != c.want {
			t.Errorf("Match(%q,%q)=%v want %v", c.f, c.t, got, c.want)
		}
	}
	for _, f := range []string{"sport/tennis#", "sport/tennis/#/ranking", "sport+", "", "$share/g", "$share//a", "$share/g/", "$share/g+/a", "a/#/", "+a"} {
		if ValidFilter(f) {
			t.Errorf("ValidFilter(%q) should be false", f)
		}
	}
	for _, f := range []string{"#", "+", "+/tennis/#", "sport/+/player1", "/", "//", "$share/g/a", "$share/g/#", "$share/g/+/a", "$SYS/#", "a//b"} {
		if !ValidFilter(f) {
			t.Errorf("ValidFilter(%q) should be true", f)
		}
	}
}
