// Package reftopic is the reference implementation of MQTT topic names, topic filters and matching,
// written from MQTT 5.0 §4.7 and §4.8.2. Deliberately naive: split on '/', compare level by level.
package reftopic

import "strings"

func Levels(s string) []string { return strings.Split(s, "/") }

// ValidPlainFilter: a non-shared topic filter. Non-empty; '#' only as the whole last level; '+' only as a whole level.
func ValidPlainFilter(f string) bool {
	if f == "" {
		return false
	}
	ls := Levels(f)
	for i, l := range ls {
		if strings.Contains(l, "#") && (l != "#" || i != len(ls)-1) {
			return false
		}
		if strings.Contains(l, "+") && l != "+" {
			return false
		}
	}
	return true
}

// SplitShare splits "$share/<name>/<filter>". shared is true when the first level is exactly "$share".
// wellFormed is false when the share name or the remaining filter is missing.
func SplitShare(f string) (name, rest string, shared, wellFormed bool) {
	ls := Levels(f)
	if ls[0] != "$share" {
		return "", f, false, true
	}
	if len(ls) < 3 {
		if len(ls) == 2 {
			name = ls[1]
		}
		return name, "", true, false
	}
	return ls[1], strings.Join(ls[2:], "/"), true, true
}

// ValidFilter: any subscription filter, shared or not (MQTT-4.7.1-x, MQTT-4.8.2-1, MQTT-4.8.2-2).
func ValidFilter(f string) bool {
	name, rest, shared, ok := SplitShare(f)
	if !shared {
		return ValidPlainFilter(f)
	}
	if !ok || name == "" || strings.ContainsAny(name, "+#") {
		return false
	}
	return ValidPlainFilter(rest)
}

// ValidTopicName: a topic name used in PUBLISH: no wildcard characters (emptiness is judged by the caller,
// because an empty topic is legal together with a topic alias).
func ValidTopicName(t string) bool { return !strings.ContainsAny(t, "+#") }

// Match reports whether the (non-shared, valid) filter matches the (valid) topic name.
func Match(filter, topic string) bool {
	if topic == "" || filter == "" {
		return false
	}
	if topic[0] == '$' && (filter[0] == '+' || filter[0] == '#') {
		return false // MQTT-4.7.2-1
	}
	return matchLevels(Levels(filter), Levels(topic))
}

func matchLevels(f, t []string) bool {
	if len(f) == 0 {
		return len(t) == 0
	}
	if f[0] == "#" {
		return true // matches the parent level (len(t)==0) and any number of child levels
	}
	if len(t) == 0 {
		return false
	}
	if f[0] == "+" || f[0] == t[0] {
		return matchLevels(f[1:], t[1:])
	}
	return false
}

// MatchSub matches a subscription filter that may be shared: the part after $share/<name>/ is what is matched.
func MatchSub(filter, topic string) bool {
	_, rest, shared, ok := SplitShare(filter)
	if shared {
		if !ok {
			return false
		}
		return Match(rest, topic)
	}
	return Match(filter, topic)
}
