package pstress

import (
	"bufio"
	"encoding/json"
	"fmt"
	"io"
	"log/slog"
	"net"
	"os"
	"runtime"
	"sort"
	"strings"
	"sync"
	"sync/atomic"
	"testing"
	"time"
	"unsafe"

	mqtt "github.com/mochi-mqtt/server/v2"
	"github.com/mochi-mqtt/server/v2/hooks/auth"
	"github.com/mochi-mqtt/server/v2/listeners"
	"pgregory.net/rapid"
	"verif/harness/refmqtt"
)

// ---- part (c): the free-running stress scenario (shared by C32 and C33) --------------------------------------
//
// A scenario is pure data: broker options, one script per client goroutine, a housekeeping list, an inline-API list
// and the point at which Server.Close() is called. It is executed in a CHILD PROCESS (the test binary re-executed with
// -test.run ^TestStressChild$): a wedged broker cannot poison later cases, and under -race the reports of the child go
// to its own GORACE log instead of failing the parent's test function.
//
// Nothing in the harness is shared between the goroutines that drive the broker except what a network would share
// (one mutex per connection) - in particular no global counters on hot paths - so that under -race the harness adds no
// happens-before edges between broker goroutines that could hide a race.

type willT struct {
	Topic  string `json:"topic"`
	Qos    byte   `json:"qos"`
	Retain bool   `json:"retain,omitempty"`
	Delay  uint32 `json:"delay,omitempty"`
}

type filterT struct {
	F  string `json:"f"`
	Q  byte   `json:"q"`
	NL bool   `json:"nl,omitempty"`
	RH byte   `json:"rh,omitempty"`
}

// stepT is one action of a client goroutine.
//
//	connect: open a NEW connection (the previous one of this goroutine, if still open, is simply left behind: with
//	         the same client id that is a takeover) and send CONNECT; wait (bounded) for the CONNACK
//	sub / unsub / pub / ping: send the packet on the current connection
//	disc:    send DISCONNECT (Reason 0 or 4 = "with will"; NewExpiry = session expiry update, v5)
//	drop:    reset the connection (the broker reads an error: the will is due)
//	close:   close the connection (EOF)
//	settle:  answer what has arrived and wait (bounded) for the connection to go quiet
type stepT struct {
	Op string `json:"op"`
	Y  int    `json:"y,omitempty"` // runtime.Gosched() calls before the step

	// connect
	ID      string  `json:"id,omitempty"`
	Ver     byte    `json:"ver,omitempty"`
	Clean   bool    `json:"clean,omitempty"`
	Expiry  *uint32 `json:"expiry,omitempty"` // v5 session expiry interval
	RecvMax uint16  `json:"recvmax,omitempty"`
	Alias   uint16  `json:"alias,omitempty"`
	Will    *willT  `json:"will,omitempty"`
	Ack     string  `json:"ack,omitempty"` // how this connection answers QoS>0 deliveries: "all" | "settle" (only at settle steps) | "none"

	Filters []filterT `json:"filters,omitempty"` // sub, unsub

	// pub
	Topic     string `json:"topic,omitempty"`
	Qos       byte   `json:"qos,omitempty"`
	Retain    bool   `json:"retain,omitempty"`
	Size      int    `json:"size,omitempty"`
	MsgExpiry uint32 `json:"msgexpiry,omitempty"`

	// disc
	Reason    byte    `json:"reason,omitempty"`
	NewExpiry *uint32 `json:"newexpiry,omitempty"`
}

type hkT struct {
	Kind string `json:"kind"` // clients | retained | inflight | wills | sys | probe (reads Inflight.GetAll(true) of every client)
	Off  int64  `json:"off"`  // now = wall clock + Off seconds
	Y    int    `json:"y,omitempty"`
}

type inlineOpT struct {
	Op     string `json:"op"` // pub | sub | unsub
	Topic  string `json:"topic"`
	Qos    byte   `json:"qos,omitempty"`
	Retain bool   `json:"retain,omitempty"`
	ID     int    `json:"id,omitempty"`
}

type optsT struct {
	ReceiveMaximum  uint16 `json:"receive_maximum,omitempty"`  // 0 = default (1024)
	MaxSessionExp   uint32 `json:"max_session_exp,omitempty"`  // 0 = default (no cap)
	WritesPending   int32  `json:"writes_pending,omitempty"`   // 0 = default (8192)
	MaximumInflight uint16 `json:"maximum_inflight,omitempty"` // 0 = default (8192)
}

type scenarioT struct {
	Seed    uint64      `json:"seed"` // yields at the verif schedule points
	Opts    optsT       `json:"opts"`
	Clients [][]stepT   `json:"clients"`
	Roles   []string    `json:"roles"`
	HK      []hkT       `json:"hk"`
	Inline  []inlineOpT `json:"inline"`
	CloseAt int         `json:"close_at"`          // Server.Close() is called once this percentage of the client goroutines has finished
	Focus   string      `json:"focus,omitempty"`   // "" (mix) | "wills" | "expiry": the scenario kind most goroutines are given
	Stalled *stalledT   `json:"stalled,omitempty"` // the 'stalled-reader' kind (C32 only), run next to everything else
}

// stalledT is the scenario kind 'stalled-reader': one extra client over a BOUNDED connection (keepalive 0, so the broker
// sets no deadline) subscribes to t/# and then stops reading; a helper publishes until a broker Write to it is blocked
// (the writer sits inside conn.Write holding the client lock). Then the trigger happens, and from then on only the
// broker closing that connection can release the blocked write:
//
//	disconnect   the stalled client writes DISCONNECT (its read direction still works)
//	disconnect-expiry  the same with a session-expiry update in the DISCONNECT (v5; the client connected with an interval)
//	half-close   the harness half-closes its side (the broker reads EOF; the blocked write stays blocked)
//	reset        the harness resets the connection (the blocked write fails: the easy case)
//	takeover     another connection connects with the same client id
//	server-close nothing until Server.Close()
//
// The harness never drains or closes the stalled connection afterwards. Progress = every handler returns and Close returns.
type stalledT struct {
	Variant string `json:"variant"`
	Ver     byte   `json:"ver"`
	Qos     byte   `json:"qos"`   // of the stalled client's subscription
	Limit   int    `json:"limit"` // send-buffer size of the stalled connection in bytes
	Size    int    `json:"size"`  // payload size of the helper's publishes
	Clean   bool   `json:"clean"` // clean start of the stalled client and of the connection that takes it over
}

var stalledVariants = []string{"disconnect", "disconnect-expiry", "half-close", "reset", "takeover", "server-close"}

func genStalled(t *rapid.T) *stalledT {
	return &stalledT{
		Variant: rapid.SampledFrom(stalledVariants).Draw(t, "variant"),
		Ver:     rapid.SampledFrom([]byte{4, 5}).Draw(t, "sver"),
		Qos:     byte(rapid.IntRange(0, 1).Draw(t, "sqos")),
		Limit:   rapid.SampledFrom([]int{1, 64, 1024, 4096}).Draw(t, "limit"),
		Size:    rapid.SampledFrom([]int{16, 300, 3000}).Draw(t, "ssize"),
		Clean:   rapid.Bool().Draw(t, "sclean"),
	}
}

// ---- generator ---------------------------------------------------------------------------------------------

var (
	pubTopics  = []string{"t/0", "t/1", "t/2", "t/3"}
	willTopics = []string{"w/0", "w/1"}
	retTopics  = []string{"r/0", "r/1", "r/2", "r/a/c", "r/b/c"}
	allFilters = []string{"t/#", "t/+", "t/0", "t/1", "w/#", "r/#", "r/+", "#", "$share/g/t/#", "$share/g/t/0", "$share/h/w/#", "$SYS/#", "+/0", "r/+/c", "+/+/c"}
	// retFilters: what the retained-message scans of the "retain" role use. Wildcard filters whose LAST level is a literal
	// ("+/0", "r/+/c") end their walk of the trie with a direct look at one node - the node that a concurrent retained
	// PUBLISH to r/0 or r/a/c sets or clears; the literal filters make such nodes exist with no retained message.
	retFilters  = []string{"+/0", "+/1", "+/2", "r/+/c", "+/+/c", "+/a/c", "+/0", "r/+/c", "r/#", "r/+", "#", "r/0", "r/1", "r/a/c"}
	keeperTopic = "keep/0" // a retained message that is always there, so that a scan never returns early ("nothing retained")
	roleNames   = []string{"fan", "will", "expiry", "retain", "mixed"}
	hkKinds     = []string{"clients", "retained", "inflight", "wills", "sys", "probe"}
	hkOffsets   = []int64{0, 0, 2, 40, 100000, 10000000000}
	ackPolicies = []string{"all", "all", "settle", "none"}
)

func u32p(v uint32) *uint32 { return &v }

func genScenario(t *rapid.T) scenarioT {
	var sc scenarioT
	sc.Seed = rapid.Uint64().Draw(t, "seed")
	sc.Opts = optsT{
		ReceiveMaximum:  rapid.SampledFrom([]uint16{0, 0, 4}).Draw(t, "srvRecvMax"),
		MaxSessionExp:   rapid.SampledFrom([]uint32{0, 0, 5, 60}).Draw(t, "maxSessExp"),
		WritesPending:   rapid.SampledFrom([]int32{0, 0, 4}).Draw(t, "writesPending"),
		MaximumInflight: rapid.SampledFrom([]uint16{0, 0, 6}).Draw(t, "maxInflight"),
	}
	n := rapid.IntRange(16, 64).Draw(t, "clients")
	sc.Focus = rapid.SampledFrom([]string{"", "", "", "wills", "expiry", "retain", "retain"}).Draw(t, "focus")
	pool := n/4 + 2 // shared client ids: several goroutines use the same id, so sessions are taken over all the time
	if sc.Focus == "wills" || sc.Focus == "expiry" {
		pool = rapid.IntRange(2, 5).Draw(t, "pool")
		if sc.Opts.MaxSessionExp == 0 && sc.Focus == "expiry" {
			sc.Opts.MaxSessionExp = rapid.SampledFrom([]uint32{0, 5, 60}).Draw(t, "maxSessExp2")
		}
	}
	id := func() string { return fmt.Sprintf("c%d", rapid.IntRange(0, pool-1).Draw(t, "id")) }
	yield := func() int { return rapid.SampledFrom([]int{0, 0, 0, 1, 3}).Draw(t, "y") }

	connect := func(role string, i int) stepT {
		s := stepT{Op: "connect", Y: yield(), Ver: rapid.SampledFrom([]byte{4, 5, 5}).Draw(t, "ver"), Ack: rapid.SampledFrom(ackPolicies).Draw(t, "ack")}
		s.Clean = rapid.IntRange(0, 3).Draw(t, "clean") == 0
		s.RecvMax = rapid.SampledFrom([]uint16{0, 1, 2, 8}).Draw(t, "recvmax")
		s.Alias = rapid.SampledFrom([]uint16{0, 0, 3}).Draw(t, "alias")
		switch role {
		case "fan":
			s.ID = fmt.Sprintf("f%d", i) // fan clients keep their own id: they are the stable fan-out targets
			if rapid.IntRange(0, 3).Draw(t, "shared-id") == 0 {
				s.ID = id()
			}
		case "retain":
			s.ID = id()
			if sc.Focus == "retain" {
				s.ID = fmt.Sprintf("r%d", i) // no takeovers here: the connections live long enough to scan and publish
			}
		default:
			s.ID = id()
		}
		if (sc.Focus == "wills" || sc.Focus == "expiry") && role != "fan" {
			s.Ver = rapid.SampledFrom([]byte{5, 5, 5, 4}).Draw(t, "ver2")
			s.Clean = rapid.IntRange(0, 7).Draw(t, "clean2") == 0
		}
		if s.Ver == 5 {
			exps := []int64{-1, 0, 1, 30, 4000000000}
			if sc.Focus == "wills" || sc.Focus == "expiry" {
				exps = []int64{0, 30, 30, 100, 4000000000}
			}
			if e := rapid.SampledFrom(exps).Draw(t, "expiry"); e >= 0 {
				s.Expiry = u32p(uint32(e))
			}
		}
		if role == "will" || rapid.IntRange(0, 5).Draw(t, "will") == 0 {
			s.Will = &willT{Topic: rapid.SampledFrom(willTopics).Draw(t, "wtopic"), Qos: byte(rapid.IntRange(0, 2).Draw(t, "wqos")),
				Retain: rapid.IntRange(0, 3).Draw(t, "wretain") == 0}
			if s.Ver == 5 {
				s.Will.Delay = rapid.SampledFrom([]uint32{0, 0, 1, 30}).Draw(t, "wdelay")
				if sc.Focus == "wills" {
					s.Will.Delay = rapid.SampledFrom([]uint32{0, 1, 1, 30}).Draw(t, "wdelay2")
				}
			}
		}
		return s
	}
	sub := func(from []string) stepT {
		k := rapid.IntRange(1, 3).Draw(t, "nfilters")
		s := stepT{Op: "sub", Y: yield()}
		for j := 0; j < k; j++ {
			s.Filters = append(s.Filters, filterT{F: rapid.SampledFrom(from).Draw(t, "filter"), Q: byte(rapid.IntRange(0, 2).Draw(t, "subqos")),
				NL: rapid.IntRange(0, 5).Draw(t, "nl") == 0, RH: byte(rapid.SampledFrom([]int{0, 0, 1, 2}).Draw(t, "rh"))})
		}
		return s
	}
	pub := func(from []string, retainPct int) stepT {
		return stepT{Op: "pub", Y: yield(), Topic: rapid.SampledFrom(from).Draw(t, "topic"), Qos: byte(rapid.IntRange(0, 2).Draw(t, "qos")),
			Retain: rapid.IntRange(0, 99).Draw(t, "retain") < retainPct, Size: rapid.SampledFrom([]int{0, 1, 10, 10, 200}).Draw(t, "size"),
			MsgExpiry: rapid.SampledFrom([]uint32{0, 0, 1, 60}).Draw(t, "msgexpiry")}
	}
	endSession := func(role string) stepT {
		switch k := rapid.IntRange(0, 9).Draw(t, "end"); {
		case role == "expiry" || k < 3:
			s := stepT{Op: "disc", Y: yield()}
			if role == "expiry" || rapid.Bool().Draw(t, "newexpiry") {
				s.NewExpiry = u32p(rapid.SampledFrom([]uint32{0, 1, 50}).Draw(t, "newexp"))
			}
			if rapid.IntRange(0, 4).Draw(t, "withwill") == 0 {
				s.Reason = 4
			}
			return s
		case k < 6:
			return stepT{Op: "drop", Y: yield()}
		case k < 7:
			return stepT{Op: "close", Y: yield()}
		}
		return stepT{Op: "settle"} // the connection stays open: the next connect with this id takes it over
	}

	for i := 0; i < n; i++ {
		role := rapid.SampledFrom(roleNames).Draw(t, "role")
		if sc.Focus != "" && rapid.IntRange(0, 9).Draw(t, "focused") < 8 {
			role = map[string]string{"wills": "will", "expiry": "expiry", "retain": "retain"}[sc.Focus]
		}
		sc.Roles = append(sc.Roles, role)
		var script []stepT
		sessions := rapid.IntRange(1, 4).Draw(t, "sessions")
		if role == "will" || role == "expiry" {
			sessions = rapid.IntRange(2, 6).Draw(t, "sessions")
		}
		for s := 0; s < sessions; s++ {
			script = append(script, connect(role, i))
			ops := rapid.IntRange(1, 20).Draw(t, "ops")
			if role == "will" || role == "expiry" {
				ops = rapid.IntRange(0, 3).Draw(t, "ops")
			}
			for o := 0; o < ops; o++ {
				k := rapid.IntRange(0, 99).Draw(t, "op")
				switch role {
				case "fan":
					switch {
					case o == 0 || k < 15:
						script = append(script, sub([]string{"t/#", "t/+", "t/0", "t/1", "#", "$share/g/t/#", "$share/g/t/0"}))
					case k < 85:
						script = append(script, pub(pubTopics, 5))
					case k < 92:
						script = append(script, stepT{Op: "settle"})
					default:
						s := sub(pubTopics)
						s.Op = "unsub"
						script = append(script, s)
					}
				case "retain":
					switch {
					case k < 45:
						p := pub(retTopics, 85)
						if rapid.IntRange(0, 3).Draw(t, "clear") == 0 {
							p.Size = 0 // an empty retained payload clears the topic
						}
						script = append(script, p)
					case k < 85:
						script = append(script, sub(retFilters))
					default:
						script = append(script, stepT{Op: "settle"})
					}
				case "will", "expiry":
					switch {
					case k < 40:
						script = append(script, sub([]string{"w/#", "t/#", "$share/h/w/#"}))
					case k < 80:
						script = append(script, pub(append(append([]string{}, pubTopics...), willTopics...), 10))
					default:
						script = append(script, stepT{Op: "settle"})
					}
				default:
					switch {
					case k < 25:
						script = append(script, sub(allFilters))
					case k < 75:
						script = append(script, pub(append(append(append([]string{}, pubTopics...), willTopics...), retTopics...), 25))
					case k < 82:
						s := sub(allFilters)
						s.Op = "unsub"
						script = append(script, s)
					case k < 90:
						script = append(script, stepT{Op: "ping", Y: yield()})
					default:
						script = append(script, stepT{Op: "settle"})
					}
				}
			}
			script = append(script, endSession(role))
		}
		sc.Clients = append(sc.Clients, script)
	}

	nh := rapid.IntRange(3, 12).Draw(t, "nhk")
	kinds := hkKinds
	switch sc.Focus {
	case "wills":
		kinds = []string{"wills", "wills", "wills", "clients", "probe"}
	case "expiry":
		kinds = []string{"clients", "clients", "clients", "wills", "inflight"}
	}
	for i := 0; i < nh; i++ {
		sc.HK = append(sc.HK, hkT{Kind: rapid.SampledFrom(kinds).Draw(t, "hk"), Off: rapid.SampledFrom(hkOffsets).Draw(t, "off"), Y: yield()})
	}
	ni := rapid.IntRange(2, 10).Draw(t, "ninline")
	for i := 0; i < ni; i++ {
		op := inlineOpT{Op: rapid.SampledFrom([]string{"pub", "pub", "sub", "unsub"}).Draw(t, "iop"), ID: rapid.IntRange(1, 3).Draw(t, "iid")}
		if op.Op == "pub" {
			op.Topic = rapid.SampledFrom(append(append(append([]string{}, pubTopics...), willTopics...), retTopics...)).Draw(t, "itopic")
			op.Qos = byte(rapid.IntRange(0, 2).Draw(t, "iqos"))
			op.Retain = rapid.IntRange(0, 4).Draw(t, "iretain") == 0
			if sc.Focus == "retain" {
				op.Topic = rapid.SampledFrom(retTopics).Draw(t, "itopic2")
				op.Retain = true
			}
		} else {
			fs := []string{"t/#", "w/#", "r/+", "#", "t/0", "+/0", "r/+/c", "+/+/c"}
			if sc.Focus == "retain" {
				fs = retFilters
			}
			op.Topic = rapid.SampledFrom(fs).Draw(t, "ifilter")
		}
		sc.Inline = append(sc.Inline, op)
	}
	sc.CloseAt = rapid.SampledFrom([]int{50, 75, 90, 100}).Draw(t, "closeAt")
	return sc
}

func validScenario(sc scenarioT) bool {
	if len(sc.Clients) == 0 || len(sc.Clients) > 256 || len(sc.HK) == 0 {
		return false
	}
	for _, h := range sc.HK {
		ok := false
		for _, k := range hkKinds {
			ok = ok || k == h.Kind
		}
		if !ok {
			return false
		}
	}
	return true
}

// scenarioKinds: which of the scenario kinds of the design the case contains (static view).
func scenarioKinds(sc scenarioT) map[string]bool {
	k := map[string]bool{}
	ids := map[string]int{}
	hasHK := map[string]bool{}
	for _, h := range sc.HK {
		hasHK[h.Kind] = true
	}
	pubs, subs := 0, 0
	for _, script := range sc.Clients {
		for _, s := range script {
			switch s.Op {
			case "connect":
				ids[s.ID]++
				if s.Will != nil {
					k["will"] = true
				}
			case "pub":
				pubs++
				if s.Retain {
					k["retained-publish-while-subscribing"] = true
				}
			case "sub":
				subs++
			case "disc":
				if s.NewExpiry != nil && hasHK["clients"] {
					k["disconnect-expiry-update+client-expiry-housekeeping"] = true
				}
			}
		}
	}
	for _, c := range ids {
		if c > 1 {
			k["takeover"] = true
		}
	}
	if k["will"] && k["takeover"] {
		k["will+takeover"] = true
	}
	delete(k, "will")
	delete(k, "takeover")
	if pubs > 10 && subs > 3 {
		k["fan-in/fan-out"] = true
	}
	if len(sc.Inline) > 0 {
		k["inline-api"] = true
	}
	if sc.CloseAt < 100 {
		k["shutdown-during-traffic"] = true
	}
	return k
}

// ---- in-memory connection ----------------------------------------------------------------------------------

// memConn is the broker's side of a connection; the client goroutine is the peer. In the default mode Write never
// blocks. In bounded mode (limit > 0) it behaves like a socket with a send buffer of `limit` bytes: Write blocks while
// the buffer is full, until the peer drains it, resets the connection, or the broker calls Close. A half-close by the
// peer (it will send nothing more) does not release a blocked Write, as with TCP.
type memConn struct {
	wdeadline      time.Time // write deadline set by the broker (zero = none); only bounded connections can block
	limit          int       // 0 = unbounded
	blockedWriters int       // Write calls currently waiting for room
	everBlocked    bool
	mu             sync.Mutex
	cond           *sync.Cond
	in             []byte // client -> broker, not yet read
	out            []byte // broker -> client, not yet taken
	written        int64  // total bytes the broker wrote (progress)
	peerClosed     bool
	peerReset      bool
	brokerClosed   bool
}

func newMemConn() *memConn {
	c := &memConn{}
	c.cond = sync.NewCond(&c.mu)
	return c
}

func (c *memConn) Read(p []byte) (int, error) {
	c.mu.Lock()
	defer c.mu.Unlock()
	for len(c.in) == 0 {
		switch {
		case c.brokerClosed:
			return 0, net.ErrClosed
		case c.peerReset:
			return 0, io.ErrUnexpectedEOF
		case c.peerClosed:
			return 0, io.EOF
		}
		c.cond.Wait()
	}
	if c.brokerClosed {
		return 0, net.ErrClosed
	}
	n := copy(p, c.in)
	c.in = c.in[n:]
	return n, nil
}

func (c *memConn) Write(p []byte) (int, error) {
	c.mu.Lock()
	defer c.mu.Unlock()
	for c.limit > 0 && len(c.out) >= c.limit && !c.brokerClosed && !c.peerReset {
		if !c.wdeadline.IsZero() && !time.Now().Before(c.wdeadline) {
			return 0, os.ErrDeadlineExceeded
		}
		c.blockedWriters++
		c.everBlocked = true
		c.cond.Wait()
		c.blockedWriters--
	}
	if c.brokerClosed {
		return 0, net.ErrClosed
	}
	if c.peerReset {
		return 0, io.ErrClosedPipe
	}
	c.out = append(c.out, p...)
	c.written += int64(len(p))
	return len(p), nil
}

func (c *memConn) Close() error {
	c.mu.Lock()
	c.brokerClosed = true
	c.cond.Broadcast()
	c.mu.Unlock()
	return nil
}

func (c *memConn) LocalAddr() net.Addr               { return memAddr("broker") }
func (c *memConn) RemoteAddr() net.Addr              { return memAddr("client") }
func (c *memConn) SetReadDeadline(t time.Time) error { return nil } // reads are never cut short (all clients use keepalive 0)
func (c *memConn) SetDeadline(t time.Time) error     { return c.SetWriteDeadline(t) }

// SetWriteDeadline is honoured like a socket does: it also applies to a Write that is already blocked.
func (c *memConn) SetWriteDeadline(t time.Time) error {
	c.mu.Lock()
	c.wdeadline = t
	c.mu.Unlock()
	if !t.IsZero() {
		d := time.Until(t)
		if d < 0 {
			d = 0
		}
		time.AfterFunc(d+time.Millisecond, func() { c.mu.Lock(); c.cond.Broadcast(); c.mu.Unlock() })
	}
	return nil
}

func (c *memConn) send(b []byte) {
	c.mu.Lock()
	c.in = append(c.in, b...)
	c.cond.Broadcast()
	c.mu.Unlock()
}

func (c *memConn) closePeer(reset bool) {
	c.mu.Lock()
	if reset {
		c.peerReset = true
	} else {
		c.peerClosed = true
	}
	c.cond.Broadcast()
	c.mu.Unlock()
}

func (c *memConn) take() (b []byte, closed bool) {
	c.mu.Lock()
	b, c.out = c.out, nil
	closed = c.brokerClosed
	if c.limit > 0 {
		c.cond.Broadcast() // room again
	}
	c.mu.Unlock()
	return
}

// writeBlocked: a Write of the broker is waiting for room right now.
func (c *memConn) writeBlocked() bool { c.mu.Lock(); defer c.mu.Unlock(); return c.blockedWriters > 0 }

func (c *memConn) progress() int64 { c.mu.Lock(); defer c.mu.Unlock(); return c.written }

// ---- the listener --------------------------------------------------------------------------------------------

// stressListener stands in for a network listener: Close first stops accepting (clients see `closed` and open no
// further connections, as after net.Listener.Close) and then asks the server to close the clients.
type stressListener struct {
	closed atomic.Bool
}

func (l *stressListener) Init(*slog.Logger) error     { return nil }
func (l *stressListener) Serve(listeners.EstablishFn) {}
func (l *stressListener) ID() string                  { return "l1" }
func (l *stressListener) Address() string             { return "mem" }
func (l *stressListener) Protocol() string            { return "mem" }
func (l *stressListener) Close(c listeners.CloseFn) {
	l.closed.Store(true)
	c("l1")
}

// ---- the run (child process) ---------------------------------------------------------------------------------

type kindSpan struct {
	First int64 `json:"first"` // ns since start
	Last  int64 `json:"last"`
}

type waiterT struct {
	G      int      `json:"g"`
	Wait   string   `json:"wait"`
	Frames []string `json:"frames"` // repository frames, innermost first
}

type resultT struct {
	Finished        bool                `json:"finished"`
	Stall           string              `json:"stall,omitempty"` // "lock-waiters" | "no-lock-waiters"
	Waiters         []waiterT           `json:"waiters,omitempty"`
	Dump            string              `json:"dump,omitempty"`
	Panics          []string            `json:"panics,omitempty"`
	Counters        map[string]int64    `json:"counters"`
	Spans           map[string]kindSpan `json:"spans"`
	WallMs          int64               `json:"wall_ms"`
	StallAfterMs    int64               `json:"stall_after_ms,omitempty"`    // how long the progress vector had not moved when the stall was declared
	StalledDone     bool                `json:"stalled_done,omitempty"`      // the stalled-reader goroutine ran to its end
	StalledHandlerG int                 `json:"stalled_handler_g,omitempty"` // goroutine id of the stalled connection's handler
}

const earlyStallWindow = 2 * time.Second

type childIn struct {
	Scenario    scenarioT `json:"scenario"`
	StallWindow int       `json:"stall_window_ms"`
	OutPath     string    `json:"out_path"`
	// ListedStalls: signatures of open known findings; a stall with one of these signatures is reported after
	// earlyStallWindow instead of StallWindow (it reproduces a listed finding, it is never a new verdict)
	ListedStalls []string `json:"listed_stalls,omitempty"`
}

// clientState is the client goroutine's view of one connection.
type clientState struct {
	c       *memConn
	ver     byte
	ack     string
	buf     []byte
	pid     uint16
	dead    bool
	pending []*refmqtt.Packet // acknowledgements held back (ack policy "settle")
	done    chan struct{}     // closed when EstablishConnection returned
	gid     atomic.Int64      // goroutine id of the handler
}

type runner struct {
	sc          scenarioT
	srv         *mqtt.Server
	lst         *stressListener
	start       time.Time
	steps       []atomic.Int64 // per client goroutine
	finished    []atomic.Bool
	connMu      sync.Mutex
	conns       []*memConn
	handlers    atomic.Int64 // EstablishConnection calls that returned
	opened      atomic.Int64
	hkCalls     atomic.Int64
	inlCalls    atomic.Int64
	closeRet    atomic.Bool
	stalledConn atomic.Pointer[clientState]
	panicMu     sync.Mutex
	panics      []string
	// per client goroutine statistics (owned by the goroutine, read after it finished)
	stats []map[string]int64
	spans []map[string]kindSpan
}

func (r *runner) stalledG() int {
	if cs := r.stalledConn.Load(); cs != nil {
		return int(cs.gid.Load())
	}
	return -1
}

func (r *runner) since() int64 { return int64(time.Since(r.start)) }

func span(m map[string]kindSpan, kind string, now int64) {
	s, ok := m[kind]
	if !ok {
		s.First = now
	}
	s.Last = now
	m[kind] = s
}

func (r *runner) guard(what string) {
	if p := recover(); p != nil {
		buf := make([]byte, 8192)
		n := runtime.Stack(buf, false)
		r.panicMu.Lock()
		r.panics = append(r.panics, fmt.Sprintf("%s: %v\n%s", what, p, buf[:n]))
		r.panicMu.Unlock()
	}
}

func (r *runner) open(st map[string]int64) *clientState { return r.openLimited(0) }

func (r *runner) openLimited(limit int) *clientState {
	c := newMemConn()
	c.limit = limit
	r.connMu.Lock()
	r.conns = append(r.conns, c)
	r.connMu.Unlock()
	cs := &clientState{c: c, done: make(chan struct{})}
	r.opened.Add(1)
	go func() {
		defer r.handlers.Add(1)
		defer close(cs.done)
		defer r.guard("connection handler")
		cs.gid.Store(int64(selfID()))
		_ = r.srv.EstablishConnection("l1", c)
	}()
	return cs
}

func (cs *clientState) nextPID() uint16 {
	cs.pid++
	if cs.pid == 0 {
		cs.pid = 1
	}
	return cs.pid
}

func (cs *clientState) sendPk(p *refmqtt.Packet) {
	p.Version = cs.ver
	cs.c.send(refmqtt.Encode(p, refmqtt.Style{}))
}

// frame splits one packet off the front of b (lenient: only the fixed header is interpreted).
func frame(b []byte) (typ, flags byte, body []byte, n int, ok bool) {
	if len(b) < 2 {
		return
	}
	rem, mult, i := 0, 1, 1
	for {
		if i >= len(b) || i > 4 {
			return
		}
		d := b[i]
		rem += int(d&0x7f) * mult
		mult *= 128
		i++
		if d&0x80 == 0 {
			break
		}
	}
	if len(b) < i+rem {
		return
	}
	return b[0] >> 4, b[0] & 0x0f, b[i : i+rem], i + rem, true
}

// pump reads what the broker has written, answers it according to the ack policy and records what it saw.
func (cs *clientState) pump(st map[string]int64, flush bool) (got int) {
	b, closed := cs.c.take()
	cs.buf = append(cs.buf, b...)
	for {
		typ, flags, body, n, ok := frame(cs.buf)
		if !ok {
			break
		}
		cs.buf = cs.buf[n:]
		got++
		pid := func(off int) uint16 {
			if len(body) >= off+2 {
				return uint16(body[off])<<8 | uint16(body[off+1])
			}
			return 0
		}
		var reply *refmqtt.Packet
		switch typ {
		case refmqtt.SUBACK:
			st["suback"]++
		case refmqtt.CONNACK:
			st["connack"]++
			if len(body) >= 2 && body[1] != 0 {
				st["connack-refused"]++
			}
			if len(body) >= 1 && body[0]&1 == 1 {
				st["session-present"]++
			}
		case refmqtt.PUBLISH:
			st["publish-received"]++
			q := (flags >> 1) & 3
			if q > 0 && len(body) >= 2 {
				tl := int(body[0])<<8 | int(body[1])
				id := pid(2 + tl)
				st["publish-received-qos>0"]++
				if q == 1 {
					reply = &refmqtt.Packet{Type: refmqtt.PUBACK, PacketID: id}
				} else {
					reply = &refmqtt.Packet{Type: refmqtt.PUBREC, PacketID: id}
				}
			}
		case refmqtt.PUBREC:
			reply = &refmqtt.Packet{Type: refmqtt.PUBREL, PacketID: pid(0)}
		case refmqtt.PUBREL:
			reply = &refmqtt.Packet{Type: refmqtt.PUBCOMP, PacketID: pid(0)}
		case refmqtt.DISCONNECT:
			st["server-disconnect"]++
			if cs.ver == 5 && len(body) >= 1 && body[0] == 0x8e {
				st["taken-over"]++
			}
		}
		if reply != nil {
			switch cs.ack {
			case "none":
				if reply.Type == refmqtt.PUBREL || reply.Type == refmqtt.PUBCOMP {
					cs.sendPk(reply) // its own publishes are always completed
				} else {
					st["delivery-left-unacknowledged"]++
				}
			case "settle":
				cs.pending = append(cs.pending, reply)
			default:
				cs.sendPk(reply)
			}
		}
	}
	if flush {
		for _, p := range cs.pending {
			cs.sendPk(p)
		}
		cs.pending = nil
	}
	if closed && !cs.dead {
		cs.dead = true
		st["connection-closed-by-broker"]++
	}
	return got
}

func payload(n int) []byte {
	if n == 0 {
		return nil
	}
	return []byte(strings.Repeat("x", n))
}

// clientMain runs one script.
func (r *runner) clientMain(i int) {
	st, sp := r.stats[i], r.spans[i]
	defer r.finished[i].Store(true)
	defer r.guard("client goroutine")
	var cur *clientState
	var all []*clientState
	role := ""
	if i < len(r.sc.Roles) {
		role = r.sc.Roles[i]
	}
	mark := func(kind string) { span(sp, kind, r.since()) }
	for _, s := range r.sc.Clients[i] {
		for y := 0; y < s.Y; y++ {
			runtime.Gosched()
		}
		r.steps[i].Add(1)
		if s.Op != "connect" && (cur == nil || cur.dead) {
			st["steps-skipped-no-connection"]++
			continue
		}
		switch s.Op {
		case "connect":
			if r.lst.closed.Load() {
				st["connect-after-listener-closed(skipped)"]++
				cur = nil
				continue
			}
			if cur != nil && !cur.dead {
				st["connection-left-open-behind"]++
			}
			cur = r.open(st)
			all = append(all, cur)
			cur.ver, cur.ack = s.Ver, s.Ack
			p := &refmqtt.Packet{Type: refmqtt.CONNECT, ProtocolName: "MQTT", Level: s.Ver, CleanStart: s.Clean, ClientID: s.ID, KeepAlive: 0}
			if s.Ver == 5 {
				p.Props.SessionExpiry = s.Expiry
				if s.RecvMax > 0 {
					v := s.RecvMax
					p.Props.ReceiveMaximum = &v
				}
				if s.Alias > 0 {
					v := s.Alias
					p.Props.TopicAliasMaximum = &v
				}
			}
			if s.Will != nil {
				p.WillFlag, p.WillQoS, p.WillRetain, p.WillTopic, p.WillPayload = true, s.Will.Qos, s.Will.Retain, s.Will.Topic, []byte("will of "+s.ID)
				if s.Ver == 5 && s.Will.Delay > 0 {
					p.WillProps.WillDelay = u32p(s.Will.Delay)
				}
				mark("will+takeover")
			}
			cur.sendPk(p)
			st["connect"]++
			// wait (bounded) for the CONNACK: the script goes on either way
			for t0 := time.Now(); st["connack"] < st["connect"] && !cur.dead && time.Since(t0) < 2*time.Second; {
				before := st["connack"]
				cur.pump(st, false)
				if st["connack"] == before {
					time.Sleep(50 * time.Microsecond)
				}
			}
			if st["connack"] < st["connect"] {
				st["connack-not-seen-in-time"]++
				st["connack"] = st["connect"]
			}
		case "sub", "unsub":
			p := &refmqtt.Packet{Type: refmqtt.SUBSCRIBE, PacketID: cur.nextPID()}
			if s.Op == "unsub" {
				p.Type = refmqtt.UNSUBSCRIBE
			}
			for _, f := range s.Filters {
				ff := refmqtt.Filter{Filter: f.F, QoS: f.Q}
				if cur.ver == 5 {
					ff.NoLocal, ff.RH = f.NL && !strings.HasPrefix(f.F, "$share/"), f.RH
				}
				p.Filters = append(p.Filters, ff)
			}
			cur.sendPk(p)
			st[s.Op]++
			if role == "retain" {
				mark("retained-publish-while-subscribing")
			}
		case "pub":
			p := &refmqtt.Packet{Type: refmqtt.PUBLISH, Topic: s.Topic, QoS: s.Qos, Retain: s.Retain, Payload: payload(s.Size)}
			if s.Qos > 0 {
				p.PacketID = cur.nextPID()
			}
			if cur.ver == 5 && s.MsgExpiry > 0 {
				p.Props.MessageExpiry = u32p(s.MsgExpiry)
			}
			cur.sendPk(p)
			st["publish-sent"]++
			if s.Retain {
				mark("retained-publish-while-subscribing")
			} else {
				mark("fan-in/fan-out")
			}
		case "ping":
			cur.sendPk(&refmqtt.Packet{Type: refmqtt.PINGREQ})
		case "disc":
			p := &refmqtt.Packet{Type: refmqtt.DISCONNECT, ReasonCode: s.Reason}
			if cur.ver == 5 && s.NewExpiry != nil {
				p.Props.SessionExpiry = s.NewExpiry
				mark("disconnect-expiry-update+client-expiry-housekeeping")
			}
			if cur.ver != 5 {
				p.ReasonCode = 0
			}
			cur.pump(st, true)
			cur.sendPk(p)
			st["disconnect-sent"]++
			cur.c.closePeer(false)
			cur = nil
			continue
		case "drop":
			cur.c.closePeer(true)
			st["connection-dropped"]++
			if role == "will" {
				mark("will+takeover")
			}
			cur = nil
			continue
		case "close":
			cur.pump(st, true)
			cur.c.closePeer(false)
			cur = nil
			continue
		case "settle":
			quiet := 0
			for t0 := time.Now(); quiet < 3 && time.Since(t0) < 40*time.Millisecond && !cur.dead; {
				if cur.pump(st, true) == 0 {
					quiet++
					time.Sleep(300 * time.Microsecond)
				} else {
					quiet = 0
				}
			}
			continue
		}
		cur.pump(st, false)
	}
	// the script is over: a last round of answers, then every connection this goroutine opened ends
	for _, cs := range all {
		if !cs.dead {
			cs.pump(st, true)
		}
	}
	for _, cs := range all {
		cs.c.closePeer(false)
	}
}

// stalledMain runs the 'stalled-reader' kind (see stalledT).
func (r *runner) stalledMain(p stalledT, st map[string]int64) {
	const id = "stalled-reader"
	waitFor := func(cs *clientState, key string, want int64, d time.Duration) bool {
		for t0 := time.Now(); st[key] < want && !cs.dead && time.Since(t0) < d; {
			if cs.pump(st, false) == 0 {
				time.Sleep(100 * time.Microsecond)
			}
		}
		return st[key] >= want
	}
	if r.lst.closed.Load() {
		return
	}
	s := r.openLimited(p.Limit)
	r.stalledConn.Store(s)
	s.ver, s.ack = p.Ver, "none"
	con := &refmqtt.Packet{Type: refmqtt.CONNECT, ProtocolName: "MQTT", Level: p.Ver, CleanStart: p.Clean, ClientID: id, KeepAlive: 0}
	if p.Ver == 5 && p.Variant == "disconnect-expiry" {
		con.Props.SessionExpiry = u32p(30)
	}
	s.sendPk(con)
	if !waitFor(s, "connack", 1, 3*time.Second) {
		st["stalled:not-connected"]++
		s.c.closePeer(true)
		return
	}
	s.sendPk(&refmqtt.Packet{Type: refmqtt.SUBSCRIBE, PacketID: 1, Filters: []refmqtt.Filter{{Filter: "t/#", QoS: p.Qos}}})
	waitFor(s, "suback", st["suback"]+1, 2*time.Second)
	// from here on the stalled client does not read any more; the helper publishes until a broker write is blocked
	h := r.openLimited(0)
	h.ver, h.ack = 4, "all"
	h.sendPk(&refmqtt.Packet{Type: refmqtt.CONNECT, ProtocolName: "MQTT", Level: 4, CleanStart: true, ClientID: "stalled-helper", KeepAlive: 0})
	waitFor(h, "connack", 2, 3*time.Second)
	blocked := false
	for i := 0; i < 400 && !blocked && !h.dead; i++ {
		h.sendPk(&refmqtt.Packet{Type: refmqtt.PUBLISH, Topic: "t/0", Payload: payload(p.Size)})
		h.pump(st, false)
		if i%4 == 3 {
			time.Sleep(200 * time.Microsecond)
		}
		blocked = s.c.writeBlocked()
	}
	for t0 := time.Now(); !blocked && time.Since(t0) < time.Second; time.Sleep(time.Millisecond) {
		blocked = s.c.writeBlocked()
	}
	if blocked {
		st["stalled:write-blocked-before-trigger"]++
	} else {
		st["stalled:no-blocked-write-seen"]++
	}
	st["stalled:variant="+p.Variant]++
	var taker *clientState
	switch p.Variant {
	case "disconnect":
		s.sendPk(&refmqtt.Packet{Type: refmqtt.DISCONNECT})
	case "disconnect-expiry":
		d := &refmqtt.Packet{Type: refmqtt.DISCONNECT}
		if p.Ver == 5 {
			d.Props.SessionExpiry = u32p(50)
		}
		s.sendPk(d)
	case "half-close":
		s.c.closePeer(false)
	case "reset":
		s.c.closePeer(true)
	case "takeover":
		if !r.lst.closed.Load() {
			taker = r.openLimited(0)
			taker.ver, taker.ack = p.Ver, "all"
			taker.sendPk(&refmqtt.Packet{Type: refmqtt.CONNECT, ProtocolName: "MQTT", Level: p.Ver, CleanStart: p.Clean, ClientID: id, KeepAlive: 0})
			if waitFor(taker, "connack", 3, 500*time.Millisecond) {
				st["stalled:taker-connected"]++
			}
		}
	case "server-close":
	}
	// The stalled connection stays open and undrained. Except when Server.Close is the trigger, the broker must now
	// close it on its own - while it keeps serving, not at shutdown: Server.Close is not called before the handler of
	// the stalled connection has returned. If it never does, the run stands still and the stall oracle looks at the locks.
	h.pump(st, true)
	h.c.closePeer(false)
	if p.Variant != "server-close" {
		for waited := 0; ; waited++ {
			select {
			case <-s.done:
				st["stalled:handler-returned-after-trigger"]++
			default:
				if taker != nil {
					taker.pump(st, false)
				}
				time.Sleep(time.Millisecond)
				continue
			}
			break
		}
	}
	if taker != nil {
		taker.pump(st, true)
		taker.c.closePeer(false)
	}
}

func (r *runner) clientsDone() (n int) {
	for i := range r.finished {
		if r.finished[i].Load() {
			n++
		}
	}
	return
}

func (r *runner) hkMain(st map[string]int64, sp map[string]kindSpan, stop *atomic.Bool) {
	defer r.guard("housekeeping goroutine")
	for round := 0; !stop.Load() && round < 100000; round++ {
		for _, h := range r.sc.HK {
			if stop.Load() {
				return
			}
			for y := 0; y < h.Y; y++ {
				runtime.Gosched()
			}
			if h.Kind == "probe" {
				r.probeDeferred(st)
			} else {
				r.srv.VerifHousekeep(h.Kind, time.Now().Unix()+h.Off)
				if h.Kind == "clients" {
					span(sp, "disconnect-expiry-update+client-expiry-housekeeping#hk", r.since())
				}
			}
			st["housekeeping:"+h.Kind]++
			r.hkCalls.Add(1)
		}
		r.probeDeferred(st)
		time.Sleep(200 * time.Microsecond)
	}
}

// probeDeferred counts in-flight messages that are held back until send quota is free (Expiry < 0): deferred sends.
func (r *runner) probeDeferred(st map[string]int64) {
	for _, cl := range r.srv.Clients.GetAll() {
		if n := len(cl.State.Inflight.GetAll(true)); n > 0 {
			st["deferred-sends-seen"] += int64(n)
		}
	}
}

func (r *runner) inlineMain(st map[string]int64, sp map[string]kindSpan, stop *atomic.Bool) {
	defer r.guard("inline goroutine")
	for round := 0; !stop.Load() && round < 100000; round++ {
		_ = r.srv.Publish(keeperTopic, []byte("keep"), true, 0) // housekeeping with a clock far ahead may have expired it
		for _, op := range r.sc.Inline {
			if stop.Load() {
				return
			}
			switch op.Op {
			case "pub":
				_ = r.srv.Publish(op.Topic, []byte("inline"), op.Retain, op.Qos)
			case "sub":
				_ = r.srv.Subscribe(op.Topic, op.ID, nopInline)
			case "unsub":
				_ = r.srv.Unsubscribe(op.Topic, op.ID)
			}
			st["inline:"+op.Op]++
			span(sp, "inline-api", r.since())
			r.inlCalls.Add(1)
		}
		time.Sleep(300 * time.Microsecond)
	}
}

// progress is the vector the stall oracle watches.
func (r *runner) progress() int64 {
	var p int64
	for i := range r.steps {
		p += r.steps[i].Load()
	}
	r.connMu.Lock()
	cs := append([]*memConn{}, r.conns...)
	r.connMu.Unlock()
	for _, c := range cs {
		p += c.progress()
	}
	p += r.handlers.Load() + r.hkCalls.Load() + r.inlCalls.Load()
	if r.closeRet.Load() {
		p++
	}
	return p
}

func lockWaiters(d string) (ws []waiterT) {
	for _, g := range parseDump(d) {
		if w := g.lockWait(); w != "" {
			if fr := g.repoFrames(); len(fr) > 0 {
				ws = append(ws, waiterT{G: g.ID, Wait: w, Frames: fr})
			}
		}
	}
	sort.Slice(ws, func(i, j int) bool { return ws[i].G < ws[j].G })
	return
}

func runScenario(in childIn) *resultT {
	sc := in.Scenario
	caps := mqtt.NewDefaultServerCapabilities()
	if sc.Opts.ReceiveMaximum > 0 {
		caps.ReceiveMaximum = sc.Opts.ReceiveMaximum
	}
	if sc.Opts.MaxSessionExp > 0 {
		caps.MaximumSessionExpiryInterval = sc.Opts.MaxSessionExp
	}
	if sc.Opts.WritesPending > 0 {
		caps.MaximumClientWritesPending = sc.Opts.WritesPending
	}
	if sc.Opts.MaximumInflight > 0 {
		caps.MaximumInflight = sc.Opts.MaximumInflight
	}
	srv := mqtt.New(&mqtt.Options{Logger: discardLogger(), InlineClient: true, Capabilities: caps})
	_ = srv.AddHook(new(auth.AllowHook), nil)
	lst := &stressListener{}
	_ = srv.AddListener(lst)

	// seeded yields at the verif schedule points; the decision uses nothing shared
	seed := sc.Seed
	mqtt.VerifSetSched(func(point string, cl *mqtt.Client) {
		h := seed ^ uint64(uintptr(unsafe.Pointer(cl)))*0x9e3779b97f4a7c15
		for i := 0; i < len(point); i++ {
			h = (h ^ uint64(point[i])) * 0x100000001b3
		}
		if (h>>33)%3 == 0 {
			runtime.Gosched()
		}
	})

	n := len(sc.Clients)
	r := &runner{sc: sc, srv: srv, lst: lst, start: time.Now(), steps: make([]atomic.Int64, n), finished: make([]atomic.Bool, n),
		stats: make([]map[string]int64, n+3), spans: make([]map[string]kindSpan, n+3)}
	for i := range r.stats {
		r.stats[i], r.spans[i] = map[string]int64{}, map[string]kindSpan{}
	}
	var stopAux atomic.Bool
	var wgClients, wgAux sync.WaitGroup
	var begin sync.WaitGroup
	begin.Add(1)
	for i := 0; i < n; i++ {
		wgClients.Add(1)
		go func(i int) { defer wgClients.Done(); begin.Wait(); r.clientMain(i) }(i)
	}
	var stalledDone atomic.Bool
	stalledStats := map[string]int64{}
	var wgStalled sync.WaitGroup
	if sc.Stalled != nil {
		wgStalled.Add(1)
		go func() {
			defer wgStalled.Done()
			defer stalledDone.Store(true)
			defer r.guard("stalled-reader goroutine")
			begin.Wait()
			r.stalledMain(*sc.Stalled, stalledStats)
		}()
	} else {
		stalledDone.Store(true)
	}
	wgAux.Add(3)
	go func() { defer wgAux.Done(); begin.Wait(); r.hkMain(r.stats[n], r.spans[n], &stopAux) }()
	go func() { defer wgAux.Done(); begin.Wait(); r.inlineMain(r.stats[n+1], r.spans[n+1], &stopAux) }()
	go func() { // the closer
		defer wgAux.Done()
		defer r.guard("closer")
		begin.Wait()
		for r.clientsDone()*100 < sc.CloseAt*n || !stalledDone.Load() {
			time.Sleep(200 * time.Microsecond)
		}
		span(r.spans[n+2], "shutdown-during-traffic", r.since())
		_ = srv.Close()
		span(r.spans[n+2], "shutdown-during-traffic", r.since())
		r.closeRet.Store(true)
	}()
	_ = srv.Publish(keeperTopic, []byte("keep"), true, 0)
	begin.Done()

	allDone := make(chan struct{})
	go func() {
		wgClients.Wait()
		stopAux.Store(true) // housekeeping and inline calls end with the ordinary clients, so that a stalled-reader
		// goroutine that waits for its handler in vain leaves the progress vector standing still
		wgStalled.Wait()
		wgAux.Wait()
		// every handler must have returned (Close waits for them)
		for r.handlers.Load() < r.opened.Load() {
			time.Sleep(time.Millisecond)
		}
		close(allDone)
	}()

	res := &resultT{Counters: map[string]int64{}, Spans: map[string]kindSpan{}}
	window := time.Duration(in.StallWindow) * time.Millisecond
	early := map[string]bool{}
	for _, sg := range in.ListedStalls {
		early[sg] = true
	}
	// stalled looks at the goroutines twice, 0.5 s apart, and keeps the lock waiters present both times
	stalled := func(last int64) (ws []waiterT, dump string, still bool) {
		d1 := fullDump()
		w1 := lockWaiters(d1)
		time.Sleep(500 * time.Millisecond)
		in2 := map[int]bool{}
		for _, w := range lockWaiters(fullDump()) {
			in2[w.G] = true
		}
		for _, w := range w1 {
			if in2[w.G] {
				ws = append(ws, w)
			}
		}
		return ws, d1, r.progress() == last
	}
	last, lastChange, earlyDone := int64(-1), time.Now(), false
	tick := time.NewTicker(100 * time.Millisecond)
	defer tick.Stop()
loop:
	for {
		select {
		case <-allDone:
			res.Finished = true
			break loop
		case <-tick.C:
			p := r.progress()
			idle := time.Since(lastChange)
			switch {
			case p != last:
				last, lastChange, earlyDone = p, time.Now(), false
			case idle >= earlyStallWindow && !earlyDone && (len(early) > 0 || sc.Stalled != nil) && idle < window:
				// a stall whose dump has the shape of a LISTED finding is reported after the short window: it only
				// reproduces something known (a nested read lock with a waiting writer cannot resolve itself)
				earlyDone = true
				if ws, d, still := stalled(last); still && len(ws) > 0 {
					// (the same early exit when only the stalled connection's own goroutines wait: that is never judged)
					if sg, _ := nameStall(sc, ws, r.stalledG()); early[sg] || sg == ownOnly {
						res.Waiters, res.Dump, res.Stall, res.StallAfterMs = ws, d, "lock-waiters", idle.Milliseconds()
						break loop
					}
				}
			case idle >= window:
				// second observation, `window` after the first one that showed this value
				ws, d, still := stalled(last)
				if !still {
					continue
				}
				res.Waiters, res.Dump, res.StallAfterMs = ws, d, idle.Milliseconds()
				if len(ws) > 0 {
					res.Stall = "lock-waiters"
				} else {
					res.Stall = "no-lock-waiters"
				}
				break loop
			}
		}
	}
	res.WallMs = time.Since(r.start).Milliseconds()
	res.StalledHandlerG = r.stalledG()
	r.panicMu.Lock()
	res.Panics = append(res.Panics, r.panics...)
	r.panicMu.Unlock()
	// statistics of goroutines that finished (a stalled run reports what is safe to read)
	merge := func(i int) {
		for k, v := range r.stats[i] {
			res.Counters[k] += v
		}
		for k, s := range r.spans[i] {
			k = strings.TrimSuffix(k, "#hk")
			o, ok := res.Spans[k]
			if !ok || s.First < o.First {
				o.First = s.First
			}
			if s.Last > o.Last {
				o.Last = s.Last
			}
			res.Spans[k] = o
		}
	}
	for i := 0; i < n; i++ {
		if r.finished[i].Load() {
			merge(i)
		}
	}
	if res.Finished {
		merge(n)
		merge(n + 1)
		merge(n + 2)
	}
	if stalledDone.Load() && sc.Stalled != nil {
		res.StalledDone = true
		for k, v := range stalledStats {
			res.Counters[k] += v
		}
	}
	res.Counters["connections-opened"] = r.opened.Load()
	res.Counters["handlers-returned"] = r.handlers.Load()
	res.Counters["housekeeping-calls"] = r.hkCalls.Load()
	res.Counters["inline-calls"] = r.inlCalls.Load()
	return res
}

// maxOverlap: the largest number of scenario kinds whose [first, last] operation intervals share an instant.
func maxOverlap(spans map[string]kindSpan) int {
	type ev struct {
		t int64
		d int
	}
	var evs []ev
	for _, s := range spans {
		evs = append(evs, ev{s.First, 1}, ev{s.Last + 1, -1})
	}
	sort.Slice(evs, func(i, j int) bool {
		if evs[i].t != evs[j].t {
			return evs[i].t < evs[j].t
		}
		return evs[i].d > evs[j].d
	})
	cur, best := 0, 0
	for _, e := range evs {
		cur += e.d
		if cur > best {
			best = cur
		}
	}
	return best
}

// TestStressChild is the child-process entry point; without its environment it does nothing. It serves one scenario
// per request line on stdin and answers "PSTRESS-DONE" on stdout after writing the result file.
func TestStressChild(t *testing.T) {
	if os.Getenv("PSTRESS_CHILD") != "serve" {
		t.Skip("child-process entry point of TestC32 / TestC33")
	}
	rd := bufio.NewReaderSize(os.Stdin, 1<<20)
	for {
		line, err := rd.ReadBytes('\n')
		if len(line) > 1 {
			var in childIn
			if e := json.Unmarshal(line, &in); e != nil {
				fmt.Fprintln(os.Stderr, "pstress child: bad request:", e)
				os.Exit(4)
			}
			if in.StallWindow <= 0 {
				in.StallWindow = 20000
			}
			res := runScenario(in)
			out, _ := json.Marshal(res)
			if e := os.WriteFile(in.OutPath+".tmp", out, 0o644); e != nil {
				fmt.Fprintln(os.Stderr, "pstress child:", e)
				os.Exit(4)
			}
			_ = os.Rename(in.OutPath+".tmp", in.OutPath)
			fmt.Println("PSTRESS-DONE")
			if !res.Finished {
				os.Exit(3) // goroutines are wedged: do not wait for anything
			}
			mqtt.VerifSetSched(nil)
		}
		if err != nil {
			os.Exit(0) // stdin closed: the parent is done with this child (exit directly: race reports must not fail anything)
		}
	}
}
