package pstress

import (
	"fmt"
	"os"
	"strconv"
	"testing"
	"time"
)

func TestExploreStress(t *testing.T) {
	defer stopChildren()
	n, _ := strconv.Atoi(os.Getenv("N"))
	t00 := time.Now()
	sigs := map[string]int{}
	for seed := 1; seed <= n; seed++ {
		sc := rapidExample(seed)
		cr, err := runChild(sc, 6*time.Second, 120*time.Second, nil)
		if err != nil || cr.Res == nil {
			fmt.Println("seed", seed, "err", err, "timedout", cr.TimedOut, tail(cr.Output, 2000))
			continue
		}
		ds, _ := raceDiscs(cr.RaceLog)
		for _, d := range ds {
			sigs[d.Sig]++
			if sigs[d.Sig] == 1 {
				fmt.Println("seed", seed, d.Sig)
				fmt.Println(d.Msg)
			}
		}
		if len(cr.Res.Panics) > 0 {
			fmt.Println("seed", seed, "PANICS", cr.Res.Panics)
		}
		if !cr.Res.Finished {
			sig, c := stallSignature(cr.Res.Waiters)
			fmt.Println("seed", seed, "STALL", cr.Res.Stall, sig, c)
			sigs[sig]++
			gs := parseDump(cr.Res.Dump)
			for _, w := range cr.Res.Waiters {
				fmt.Println(excerpt(gs[w.G], 30))
			}
			if len(cr.Res.Waiters) == 0 {
				fmt.Println(cr.Res.Dump)
			}
		}
	}
	fmt.Println("total", time.Since(t00), sigs)
}
