package pstress

import (
	"fmt"
	"os"
	"testing"
	"time"

	"pgregory.net/rapid"
)

func TestExploreStalled(t *testing.T) {
	defer stopChildren()
	for _, v := range stalledVariants {
		if f := os.Getenv("VARIANT"); f != "" && f != v {
			continue
		}
		for seed := 1; seed <= 3; seed++ {
			sc := rapid.Custom(genScenario).Example(seed)
			sc.Stalled = &stalledT{Variant: v, Ver: byte(4 + seed%2), Qos: byte(seed % 2), Limit: []int{1, 64, 1024, 4096}[seed%4], Size: 300, Clean: seed%2 == 0}
			t0 := time.Now()
			cr, err := runChild(sc, 5*time.Second, 120*time.Second, nil)
			if err != nil || cr.Res == nil {
				fmt.Println(v, seed, "err", err, "timedout", cr.TimedOut, tail(cr.Output, 1500))
				continue
			}
			c := cr.Res.Counters
			fmt.Printf("%-12s seed %d finished=%v stall=%q blocked=%d noblock=%d taker=%d wall=%v panics=%d\n", v, seed, cr.Res.Finished, cr.Res.Stall, c["stalled:write-blocked-before-trigger"], c["stalled:no-blocked-write-seen"], c["stalled:taker-connected"], time.Since(t0).Round(time.Millisecond), len(cr.Res.Panics))
			if !cr.Res.Finished {
				gs := parseDump(cr.Res.Dump)
				for _, w := range cr.Res.Waiters {
					fmt.Println("   waiter", w.Wait, w.Frames)
				}
				for _, g := range gs {
					for _, f := range g.Funcs {
						if f == "verif/harness/pstress.(*memConn).Write" {
							fmt.Println("   blocked writer:", g.repoFrames())
						}
					}
				}
			}
		}
	}
}
