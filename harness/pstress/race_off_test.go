//go:build !race

package pstress

const raceEnabled = false
