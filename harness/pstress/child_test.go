package pstress

import (
	"bufio"
	"bytes"
	"encoding/json"
	"fmt"
	"io"
	"os"
	"os/exec"
	"path/filepath"
	"regexp"
	"sort"
	"strings"
	"sync"
	"sync/atomic"
	"time"

	"verif/harness/evid"
)

// ---- parent side: running a scenario in a child process -----------------------------------------------------

type childRun struct {
	Res      *resultT // nil if the child wrote no result
	RaceLog  string   // contents of the child's GORACE log ("" without -race)
	Output   string   // stdout+stderr of the child
	TimedOut bool
	Wall     time.Duration
}

var childSeq atomic.Int64

func scratchDir() (string, error) {
	base := os.Getenv("VERIF_WORK")
	if base == "" {
		base = os.TempDir()
	}
	d := filepath.Join(base, fmt.Sprintf("pstress-%d", os.Getpid()))
	return d, os.MkdirAll(d, 0o755)
}

// childProc is a running child: it serves one scenario per request line on stdin (starting a -race binary costs
// seconds on a busy machine, so a child is reused until it stalls, crashes or has served maxPerChild scenarios).
type childProc struct {
	cmd      *exec.Cmd
	stdin    io.WriteCloser
	lines    chan string // stdout lines
	exited   chan struct{}
	out      *lockedBuf // stderr + non-protocol stdout
	racePath string
	raceOff  int64
	served   int
}

type lockedBuf struct {
	mu sync.Mutex
	b  bytes.Buffer
}

func (l *lockedBuf) Write(p []byte) (int, error) {
	l.mu.Lock()
	defer l.mu.Unlock()
	return l.b.Write(p)
}
func (l *lockedBuf) String() string { l.mu.Lock(); defer l.mu.Unlock(); return l.b.String() }

const maxPerChild = 20

var curChild *childProc

func startChild(dir string) (*childProc, error) {
	k := childSeq.Add(1)
	cp := &childProc{lines: make(chan string, 16), exited: make(chan struct{}), out: &lockedBuf{}, racePath: filepath.Join(dir, fmt.Sprintf("race.%d", k))}
	cmd := exec.Command(os.Args[0], "-test.run", "^TestStressChild$", "-test.count=1", "-test.timeout=0")
	var env []string
	for _, e := range os.Environ() {
		if strings.HasPrefix(e, "GORACE=") || strings.HasPrefix(e, "VERIF_STATS=") || strings.HasPrefix(e, "VERIF_REPLAY=") || strings.HasPrefix(e, "PSTRESS_CHILD") {
			continue
		}
		env = append(env, e)
	}
	// the child's race reports go to its own log: they must not fail anything by themselves
	env = append(env, "PSTRESS_CHILD=serve", "GORACE=log_path="+cp.racePath+" halt_on_error=0 exitcode=0")
	cmd.Env = env
	cmd.Stderr = cp.out
	var err error
	if cp.stdin, err = cmd.StdinPipe(); err != nil {
		return nil, err
	}
	so, err := cmd.StdoutPipe()
	if err != nil {
		return nil, err
	}
	if err := cmd.Start(); err != nil {
		return nil, err
	}
	cp.cmd = cmd
	go func() {
		sc := bufio.NewScanner(so)
		sc.Buffer(make([]byte, 1<<20), 1<<24)
		for sc.Scan() {
			ln := sc.Text()
			if strings.HasPrefix(ln, "PSTRESS-DONE") {
				cp.lines <- ln
			} else {
				fmt.Fprintln(cp.out, ln)
			}
		}
		_ = cmd.Wait()
		close(cp.exited)
	}()
	return cp, nil
}

func (cp *childProc) kill() {
	_ = cp.stdin.Close()
	_ = cp.cmd.Process.Kill()
	select {
	case <-cp.exited:
	case <-time.After(5 * time.Second):
	}
}

func (cp *childProc) newRaceLog() string {
	ms, _ := filepath.Glob(cp.racePath + ".*")
	var out string
	for _, m := range ms {
		b, err := os.ReadFile(m)
		if err != nil || int64(len(b)) <= cp.raceOff {
			continue
		}
		out += string(b[cp.raceOff:])
		cp.raceOff = int64(len(b))
	}
	return out
}

func (cp *childProc) cleanup() {
	ms, _ := filepath.Glob(cp.racePath + ".*")
	for _, m := range ms {
		os.Remove(m)
	}
}

// stopChildren ends the reusable child (called when a test is over).
func stopChildren() {
	if curChild != nil {
		curChild.kill()
		curChild.cleanup()
		curChild = nil
	}
	if d, err := scratchDir(); err == nil {
		os.RemoveAll(d)
	}
}

func runChild(sc scenarioT, stallWindow, hardLimit time.Duration, listed []string) (cr childRun, err error) {
	dir, err := scratchDir()
	if err != nil {
		return cr, err
	}
	if curChild == nil {
		if curChild, err = startChild(dir); err != nil {
			curChild = nil
			return cr, err
		}
	}
	cp := curChild
	outPath := filepath.Join(dir, fmt.Sprintf("out.%d.%d.json", childSeq.Load(), cp.served))
	defer os.Remove(outPath)
	req, _ := json.Marshal(childIn{Scenario: sc, StallWindow: int(stallWindow / time.Millisecond), OutPath: outPath, ListedStalls: listed})
	t0 := time.Now()
	alive := true
	if _, err := cp.stdin.Write(append(req, '\n')); err != nil {
		alive = false
	}
	if alive {
		select {
		case <-cp.lines:
		case <-cp.exited:
			alive = false
		case <-time.After(hardLimit):
			cr.TimedOut = true
			alive = false
		}
	}
	cr.Wall = time.Since(t0)
	cp.served++
	if rb, e := os.ReadFile(outPath); e == nil {
		var res resultT
		if json.Unmarshal(rb, &res) == nil {
			cr.Res = &res
		}
	}
	if !alive || cr.Res == nil || !cr.Res.Finished || cp.served >= maxPerChild {
		if cr.TimedOut {
			cp.kill()
		} else {
			_ = cp.stdin.Close()
			select {
			case <-cp.exited:
			case <-time.After(10 * time.Second):
				cp.kill()
			}
		}
		cr.RaceLog = cp.newRaceLog()
		cr.Output = cp.out.String()
		cp.cleanup()
		curChild = nil
		return cr, nil
	}
	cr.RaceLog = cp.newRaceLog()
	return cr, nil
}

// ---- crash classification --------------------------------------------------------------------------------------

var crashRe = regexp.MustCompile(`(?m)^(panic: .*|fatal error: .*)$`)

// crashOf returns the first line of a crash of the child (panic in a goroutine the harness cannot recover, or a
// runtime fatal error) and the innermost repository function of the crashing goroutine.
func crashOf(output string) (line, fn string) {
	m := crashRe.FindStringIndex(output)
	if m == nil {
		return "", ""
	}
	line = output[m[0]:m[1]]
	rest := output[m[1]:]
	if i := strings.Index(rest, "\n\ngoroutine "); i >= 0 {
		blk := rest[i+2:]
		if j := strings.Index(blk, "\n\n"); j >= 0 {
			blk = blk[:j]
		}
		for _, g := range parseDump(blk) {
			if fr := g.repoFrames(); len(fr) > 0 {
				return line, fr[0]
			}
		}
	}
	return line, "unknown"
}

// ---- race reports ------------------------------------------------------------------------------------------------

var (
	raceAccessRe = regexp.MustCompile(`(?m)^(?:Read|Write|Previous read|Previous write|Atomic [a-z]+|Previous atomic [a-z]+) at 0x[0-9a-f]+ by [^\n]*\n((?:  [^\n]*\n)+)`)
	raceFrameRe  = regexp.MustCompile(`(?m)^  (\S+?)\(\)$`)
)

// raceSignature names, for each of the two accesses, the innermost frame that lies in the repository (closures are
// attributed to their enclosing function), sorted: the unordered pair of the accessing functions, no line numbers.
// byHarness is set when one of the accesses was made by harness code (its innermost frame outside the runtime and the
// standard library is in verif/harness): that is no access of the broker.
func raceSignature(rep string) (sig string, byHarness bool) {
	var fns []string
	for _, m := range raceAccessRe.FindAllStringSubmatch(rep, -1) {
		name := "outside-repository"
		for _, f := range raceFrameRe.FindAllStringSubmatch(m[1], -1) {
			if strings.HasPrefix(f[1], "verif/harness/") {
				byHarness = true
				break
			}
			if strings.HasPrefix(f[1], repoPrefix) {
				name = shortFunc(f[1])
				break
			}
		}
		fns = append(fns, name)
	}
	if len(fns) == 0 {
		return "C33-data-race-unparsed-report", false
	}
	sort.Strings(fns)
	return "C33-data-race-" + strings.Join(fns, "-"), byHarness
}

func trimReport(rep string) string {
	if i := strings.Index(rep, "=================="); i >= 0 {
		rep = rep[:i]
	}
	// keep the two access stacks, drop most of the goroutine-creation stacks
	if i := strings.Index(rep, "\nGoroutine "); i >= 0 && len(rep) > i+600 {
		rep = rep[:i+600] + "\n  ..."
	}
	if len(rep) > 3500 {
		rep = rep[:3500] + "..."
	}
	return rep
}

func raceDiscs(log string) (ds []evid.Disc, total int, harness []string) {
	count := map[string]int{}
	for _, rep := range strings.Split(log, "WARNING: DATA RACE")[1:] {
		total++
		sig, byHarness := raceSignature(rep)
		if byHarness {
			harness = append(harness, trimReport(rep))
			continue
		}
		if count[sig]++; count[sig] == 1 {
			ds = append(ds, evid.D(sig, "the race detector reported (first report with this pair of functions in this execution):\nWARNING: DATA RACE%s", trimReport(rep)))
		}
	}
	return
}
