package pstress

import (
	"regexp"
	"runtime"
	"strconv"
	"strings"
)

// ---- goroutine dumps ------------------------------------------------------------------------------------
//
// A stall is only ever declared from a dump: the goroutines in question must sit in the acquisition of a
// sync.Mutex / sync.RWMutex. The parsing below is the trusted base of that verdict (60 lines).

const repoPrefix = "github.com/mochi-mqtt/server/v2"

type gBlock struct {
	ID     int
	Header string   // "goroutine 12 [sync.RWMutex.RLock, 2 minutes]:"
	Funcs  []string // function of every frame, innermost first (fully qualified)
	Text   string
}

var gHeaderRe = regexp.MustCompile(`^goroutine (\d+) \[([^\]]*)\]:`)

func fullDump() string {
	buf := make([]byte, 4<<20)
	for {
		n := runtime.Stack(buf, true)
		if n < len(buf) {
			return string(buf[:n])
		}
		buf = make([]byte, 2*len(buf))
	}
}

// selfID is the id of the calling goroutine (first line of its own stack).
func selfID() int {
	buf := make([]byte, 64)
	n := runtime.Stack(buf, false)
	m := gHeaderRe.FindSubmatch(buf[:n])
	if m == nil {
		return -1
	}
	id, _ := strconv.Atoi(string(m[1]))
	return id
}

func parseDump(d string) map[int]*gBlock {
	out := map[int]*gBlock{}
	for _, blk := range strings.Split(d, "\n\n") {
		blk = strings.TrimSpace(blk)
		m := gHeaderRe.FindStringSubmatch(blk)
		if m == nil {
			continue
		}
		id, _ := strconv.Atoi(m[1])
		g := &gBlock{ID: id, Header: strings.SplitN(blk, "\n", 2)[0], Text: blk}
		for _, ln := range strings.Split(blk, "\n")[1:] {
			if strings.HasPrefix(ln, "\t") || strings.HasPrefix(ln, "created by ") || ln == "" {
				continue
			}
			// "pkg.(*T).M(0x1, 0x2)" or "pkg.f(...)": the function is everything before the last '('
			if i := strings.LastIndex(ln, "("); i > 0 {
				g.Funcs = append(g.Funcs, ln[:i])
			}
		}
		out[id] = g
	}
	return out
}

// lockWait reports which lock acquisition the goroutine sits in ("RWMutex.RLock", "RWMutex.Lock", "Mutex.Lock"),
// or "" if its innermost non-runtime frames are no lock acquisition.
func (g *gBlock) lockWait() string {
	for _, f := range g.Funcs {
		switch {
		case strings.HasPrefix(f, "runtime."), strings.HasPrefix(f, "sync.runtime_"), strings.HasPrefix(f, "internal/"):
			continue
		case f == "sync.(*RWMutex).RLock":
			return "RWMutex.RLock"
		case f == "sync.(*RWMutex).Lock":
			return "RWMutex.Lock"
		case f == "sync.(*Mutex).Lock", f == "sync.(*Mutex).lockSlow":
			// RWMutex.Lock first takes the writer mutex w
			for _, f2 := range g.Funcs {
				if f2 == "sync.(*RWMutex).Lock" {
					return "RWMutex.Lock"
				}
			}
			return "Mutex.Lock"
		default:
			return ""
		}
	}
	return ""
}

// repoFrames returns the frames that lie in the repository, innermost first, shortened to "Type.Method" / "func".
func (g *gBlock) repoFrames() []string {
	var out []string
	for _, f := range g.Funcs {
		if strings.HasPrefix(f, repoPrefix) {
			out = append(out, shortFunc(f))
		}
	}
	return out
}

var (
	shortRe   = regexp.MustCompile(`^` + regexp.QuoteMeta(repoPrefix) + `(?:/([a-z/]+))?\.(?:\(\*?([A-Za-z0-9_]+)\)\.)?([A-Za-z0-9_]+)`)
	genericRe = regexp.MustCompile(`\[[^\]]*\]`)
)

// shortFunc: "github.com/mochi-mqtt/server/v2.(*Inflight).GetAll" -> "Inflight.GetAll";
// "github.com/mochi-mqtt/server/v2/packets.(*Packets).Get" -> "packets.Packets.Get"; closures are attributed
// to the enclosing function ("Server.attachClient.func1" -> "Server.attachClient").
func shortFunc(f string) string {
	f = genericRe.ReplaceAllString(f, "")
	m := shortRe.FindStringSubmatch(f)
	if m == nil {
		return f
	}
	s := m[3]
	if m[2] != "" {
		s = m[2] + "." + s
	}
	if m[1] != "" {
		s = m[1] + "." + s
	}
	return s
}

func excerpt(g *gBlock, maxLines int) string {
	ls := strings.Split(g.Text, "\n")
	if len(ls) > maxLines {
		ls = append(ls[:maxLines], "\t...")
	}
	return strings.Join(ls, "\n")
}
