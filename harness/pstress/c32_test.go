// Package pstress holds the checks of C32 (the broker never deadlocks) and C33 (concurrent broker operation is free
// of data races). Both share the free-running stress scenario of stress_test.go; C32 adds the reflection-driven lock
// matrix of matrix_test.go.
package pstress

import (
	"encoding/json"
	"fmt"
	"os"
	"sort"
	"strconv"
	"strings"
	"testing"
	"time"

	"pgregory.net/rapid"
	"verif/harness/evid"
)

// c32Case is either one probe of the lock matrix or one stress scenario.
type c32Case struct {
	Probe *probeT    `json:"probe,omitempty"`
	Scn   *scenarioT `json:"scenario,omitempty"`
}

const (
	stalledPct   = 12 // share of the generated stress scenarios that carry the 'stalled-reader' kind
	stallWindowC = 20 * time.Second
	childLimit   = 150 * time.Second
)

func stressPct() int {
	if v, err := strconv.Atoi(os.Getenv("PSTRESS_STRESS_PCT")); err == nil {
		return v
	}
	return 35
}

func genC32(pairs []pairT) func(t *rapid.T) c32Case {
	return func(t *rapid.T) c32Case {
		if rapid.IntRange(0, 99).Draw(t, "kind") < stressPct() {
			sc := genScenario(t)
			if rapid.IntRange(0, 99).Draw(t, "stalled") < stalledPct {
				sc.Stalled = genStalled(t)
			}
			return c32Case{Scn: &sc}
		}
		p := pairs[rapid.IntRange(0, len(pairs)-1).Draw(t, "pair")]
		return c32Case{Probe: &probeT{Type: p.Type, Method: p.Method, Tape: rapid.SliceOfN(rapid.IntRange(0, 63), 8, 40).Draw(t, "tape")}}
	}
}

// stallSignature names a stall of the stress run: by the nested read lock if one of the waiters has that shape (see
// nestedShape), otherwise by the set of broker functions that wait for locks.
func stallSignature(ws []waiterT) (sig string, culprit *waiterT) {
	for i, w := range ws {
		if outer, ok := nestedShape(w.Wait, w.Frames); ok {
			return sigNested(outer), &ws[i]
		}
	}
	set := map[string]bool{}
	for _, w := range ws {
		set[w.Frames[0]] = true
	}
	var fs []string
	for f := range set {
		fs = append(fs, f)
	}
	sort.Strings(fs)
	return "C32-stress-stall-lock-waiters-" + strings.Join(fs, "+"), nil
}

// stalledListedSeen: trigger variants of the stalled-reader kind whose listed finding was reproduced in this run.
var stalledListedSeen = map[string]bool{}

// stalledBase is the fixed scenario of the stalled-reader sweep: a little ordinary traffic on t/# next to the stalled
// client, every trigger variant once per run.
func stalledBase(variant string, k int) scenarioT {
	sc := scenarioT{Seed: uint64(k), CloseAt: 100,
		HK:      []hkT{{Kind: "sys"}, {Kind: "clients"}, {Kind: "inflight"}, {Kind: "wills"}},
		Inline:  []inlineOpT{{Op: "pub", Topic: "t/1"}},
		Stalled: &stalledT{Variant: variant, Ver: byte(4 + k%2), Qos: byte(k % 2), Limit: []int{64, 1, 1024, 4096}[k%4], Size: 300, Clean: k%2 == 0}}
	if variant == "disconnect-expiry" {
		sc.Stalled.Ver = 5 // the expiry update exists in v5 only
	}
	for g := 0; g < 6; g++ {
		script := []stepT{{Op: "connect", ID: fmt.Sprintf("f%d", g), Ver: byte(4 + g%2), Clean: true, Ack: "all"},
			{Op: "sub", Filters: []filterT{{F: "t/#", Q: byte(g % 2)}}}}
		for i := 0; i < 12; i++ {
			script = append(script, stepT{Op: "pub", Topic: pubTopics[(g+i)%len(pubTopics)], Qos: byte(i % 2), Size: 10})
		}
		script = append(script, stepT{Op: "settle"}, stepT{Op: "disc"})
		sc.Clients = append(sc.Clients, script)
		sc.Roles = append(sc.Roles, "fan")
	}
	return sc
}

// ownOnly is what nameStall returns for a stall in which only the stalled connection's own goroutines wait: no verdict.
const ownOnly = "stalled-reader:own-connection-only"

// nameStall names a stall of a stress run. With the 'stalled-reader' kind in the scenario the waiters are first split
// into the stalled connection's OWN goroutines (its handler, identified by goroutine id, and write loops, which only
// ever touch their own client) and FOREIGN ones. In this order:
//  1. a foreign goroutine set in motion by the trigger waits for a lock (the handler of the connection taking the
//     session over, Server.Close): variant + the place where it waits;
//  2. the stalled connection's handler has read the trigger (DISCONNECT, end of stream) and waits for a lock on its way
//     to closing the connection: variant + place;
//  3. other foreign goroutines (publishers, housekeeping) wait for a lock behind the blocked write: the stalled
//     reader blocks others, named by the place;
//  4. only the connection's own goroutines wait (its handler could not even read the trigger because it is itself
//     writing to the peer that does not read): that is flow control towards one peer, not a deadlock of the broker -
//     ownOnly, not judged.
//
// Everything else goes by stallSignature.
func nameStall(sc scenarioT, ws []waiterT, ownG int) (sig string, culprit *waiterT) {
	if sc.Stalled == nil || len(ws) == 0 {
		return stallSignature(ws)
	}
	v := sc.Stalled.Variant
	has := func(w waiterT, f string) bool {
		for _, x := range w.Frames {
			if x == f {
				return true
			}
		}
		return false
	}
	own := func(w waiterT) bool { return w.G == ownG || w.Frames[len(w.Frames)-1] == "Client.WriteLoop" }
	foreignMarker := map[string]string{"takeover": "Server.inheritClientSession", "server-close": "Server.closeListenerClients"}[v]
	for i, w := range ws {
		if foreignMarker != "" && !own(w) && has(w, foreignMarker) {
			return "C32-stalled-reader-" + v + "-" + waitPlace(w), &ws[i]
		}
	}
	for i, w := range ws {
		if w.G != ownG {
			continue
		}
		read := has(w, "Server.processDisconnect") // disconnect, disconnect-expiry
		if v == "half-close" || v == "reset" {
			read = has(w, "Server.attachClient") && !has(w, "Client.Read")
		}
		if read {
			return "C32-stalled-reader-" + v + "-" + waitPlace(w), &ws[i]
		}
	}
	best := -1
	for i, w := range ws {
		if !own(w) && (best < 0 || waitPlace(w) < waitPlace(ws[best])) {
			best = i
		}
	}
	if best >= 0 {
		return "C32-stalled-reader-blocks-others-" + waitPlace(ws[best]), &ws[best]
	}
	return ownOnly, nil
}

// waitPlace: the innermost repository function of the waiter and its first different caller.
func waitPlace(w waiterT) string {
	for _, f := range w.Frames[1:] {
		if f != w.Frames[0] {
			return w.Frames[0] + "<-" + f
		}
	}
	return w.Frames[0]
}

// openSignatures lists the open findings of a property (the same file evid.New reads).
func openSignatures(prop string) (out []string) {
	path := os.Getenv("VERIF_KNOWN")
	if path == "" {
		path = "/verif/known_findings.json"
	}
	b, err := os.ReadFile(path)
	if err != nil {
		return nil
	}
	var fs []evid.Finding
	if json.Unmarshal(b, &fs) != nil {
		return nil
	}
	for _, f := range fs {
		if f.Property == prop && f.Status == "open" {
			out = append(out, f.Signature)
		}
	}
	return
}

func scenarioKey(sc scenarioT) string {
	b, _ := json.Marshal(sc)
	return string(b)
}

func labelRun(r *evid.Rec, prefix string, sc scenarioT, res *resultT) {
	r.Label(fmt.Sprintf("%sclients=%d-%d", prefix, len(sc.Clients)/16*16, len(sc.Clients)/16*16+15))
	for k := range scenarioKinds(sc) {
		r.Label(prefix + "kind:" + k)
	}
	if res == nil {
		return
	}
	for _, k := range []string{"taken-over", "deferred-sends-seen", "connection-closed-by-broker", "publish-received", "connect-after-listener-closed(skipped)"} {
		if res.Counters[k] > 0 {
			r.Label(prefix + "saw:" + k)
		}
	}
	r.LabelN(prefix+"connections", res.Counters["connections-opened"])
	r.LabelN(prefix+"publishes-delivered", res.Counters["publish-received"])
	r.LabelN(prefix+"housekeeping-calls", res.Counters["housekeeping-calls"])
	r.LabelN(prefix+"inline-calls", res.Counters["inline-calls"])
}

func checkStress32(sc scenarioT, r *evid.Rec) []evid.Disc {
	if !validScenario(sc) {
		r.NotAsserted()
		return nil
	}
	if sc.Stalled != nil && stalledListedSeen[sc.Stalled.Variant] && !evid.ReplayMode() {
		// like a listed matrix wedge: confirmed once in this run (the sweep comes first), every further one only costs time
		r.Label("stalled-reader:variant-not-run-again(listed finding already reproduced in this run):" + sc.Stalled.Variant)
		sc.Stalled = nil
	}
	cr, err := runChild(sc, stallWindowC, childLimit, openSignatures("C32"))
	if err != nil {
		r.Inconclusive("stress child process could not be started: " + err.Error())
		r.NotAsserted()
		return nil
	}
	r.Label("stress:run")
	labelRun(r, "stress:", sc, cr.Res)
	var ds []evid.Disc
	if line, fn := crashOf(cr.Output); line != "" && (cr.Res == nil || !cr.Res.Finished) {
		if strings.Contains(cr.Output, "verif/harness/pstress") && fn == "unknown" {
			r.Inconclusive("the stress harness itself crashed: " + line)
			r.NotAsserted()
			return nil
		}
		ds = append(ds, evid.D("C32-stress-crash-"+fn, "the broker process died during the run (it does not keep serving): %s\n%s", line, tail(cr.Output, 3000)))
		return ds
	}
	if cr.Res == nil {
		r.Label("stress:no-result(not judged)")
		r.Inconclusive(fmt.Sprintf("a stress run produced no result within %v (timed out: %v): not judged", childLimit, cr.TimedOut))
		r.NotAsserted()
		return nil
	}
	res := cr.Res
	for _, p := range res.Panics {
		if strings.HasPrefix(p, "closer:") {
			// Server.Close() itself panicked: the broker is shutting down, "keeps serving" does not apply and nothing
			// waits for a lock. Recorded, not judged here (seen: "sync: WaitGroup is reused before previous Wait has
			// returned" in Listeners.CloseAll, the consequence of the ClientsWg.Add / Wait race that C33 reports).
			r.Label("stress:panic-in-Server.Close(recorded, not judged)")
			r.Set("panic_in_server_close_sample", p)
			continue
		}
		fn := "unknown"
		for _, g := range parseDump("goroutine 0 [running]:\n" + afterFirstLine(p)) {
			if fr := g.repoFrames(); len(fr) > 0 {
				fn = fr[0]
			}
		}
		ds = append(ds, evid.D("C32-stress-panic-"+fn, "a broker call panicked: %s", p))
	}
	if sc.Stalled != nil {
		r.Label("stalled-reader:variant=" + sc.Stalled.Variant)
		switch {
		case res.Counters["stalled:write-blocked-before-trigger"] > 0:
			r.Label("stalled-reader:broker-write-blocked-before-the-trigger")
			r.NonTrivial(fmt.Sprintf("stalled|%s|v%d|q%d|limit%d|clean%v", sc.Stalled.Variant, sc.Stalled.Ver, sc.Stalled.Qos, sc.Stalled.Limit, sc.Stalled.Clean))
		case res.StalledDone:
			r.Label("stalled-reader:no-blocked-write-seen(trivial)")
		}
	}
	switch {
	case res.Finished:
		r.Label("stress:finished")
		if res.Counters["taken-over"]+res.Counters["connection-closed-by-broker"] > 0 && res.Counters["deferred-sends-seen"] > 0 {
			r.Label("stress:takeover+deferred-send")
			r.NonTrivial("stress|" + scenarioKey(sc))
		} else if res.Counters["taken-over"]+res.Counters["connection-closed-by-broker"] > 0 {
			r.Label("stress:takeover-only")
		}
	case res.Stall == "lock-waiters":
		r.Label("stress:stalled-with-lock-waiters")
		r.NonTrivial("stress|" + scenarioKey(sc))
		sig, culprit := nameStall(sc, res.Waiters, res.StalledHandlerG)
		if sc.Stalled != nil && r.IsKnown(sig) && strings.HasPrefix(sig, "C32-stalled-reader-"+sc.Stalled.Variant) {
			stalledListedSeen[sc.Stalled.Variant] = true
		}
		if sig == ownOnly {
			r.Label("stalled-reader:only-the-stalled-connection's-own-goroutines-wait(flow control, not judged)")
			r.NotAsserted()
			break
		}
		if strings.HasPrefix(sig, "C32-stalled-reader-blocks-others-") && !evid.ReplayMode() {
			// Publishers waiting behind a write to the peer that does not read are the expected picture UNTIL the trigger
			// has done its work; whether the trigger had been read when the progress window ran out depends on the
			// schedule (seen once in a thorough run, gone at every replay). The scenario is run a second time and the
			// stall is judged only if it shows again; otherwise it is recorded and not asserted.
			cr2, err2 := runChild(sc, stallWindowC, childLimit, openSignatures("C32"))
			again := false
			if err2 == nil && cr2.Res != nil && cr2.Res.Stall == "lock-waiters" {
				sig2, _ := nameStall(sc, cr2.Res.Waiters, cr2.Res.StalledHandlerG)
				again = strings.HasPrefix(sig2, "C32-stalled-reader-blocks-others-")
			}
			if !again {
				r.Label("stalled-reader:blocks-others-stall-not-seen-again-on-rerun(recorded, not judged)")
				r.Set("stall_not_reproduced_sample", sig+"\n"+tail(res.Dump, 4000))
				r.NotAsserted()
				break
			}
		}
		var b strings.Builder
		gs := parseDump(res.Dump)
		shown := 0
		if culprit != nil {
			fmt.Fprintf(&b, "\n%s\n", excerpt(gs[culprit.G], 14))
			shown++
		}
		for _, g := range gs { // a broker goroutine blocked inside the connection's Write: it holds the client lock
			for _, f := range g.Funcs {
				if f == "verif/harness/pstress.(*memConn).Write" && len(g.repoFrames()) > 0 {
					fmt.Fprintf(&b, "\nblocked in the connection's Write (peer not reading, no deadline), reached through %s:\n%s\n", strings.Join(g.repoFrames(), " <- "), excerpt(g, 12))
				}
			}
		}
		for _, w := range res.Waiters {
			if shown >= 4 {
				break
			}
			if culprit == nil || w.G != culprit.G {
				fmt.Fprintf(&b, "\n%s\n", excerpt(gs[w.G], 10))
				shown++
			}
		}
		d := evid.D(sig, "no progress (client steps, bytes written by the broker, handlers returned, housekeeping and inline calls, Close) for %.1f s (window: %v; %v for the shape of a listed finding), and %d goroutines sit in lock acquisitions inside the broker in two dumps 0.5 s apart:%s", float64(res.StallAfterMs)/1000, stallWindowC, earlyStallWindow, len(res.Waiters), b.String())
		d.Ctx = "full goroutine dump of the stalled process (the artefact; the schedule itself is not replayable):\n" + res.Dump
		ds = append(ds, d)
	default:
		r.Label("stress:stalled-without-lock-waiters(not judged)")
		r.Inconclusive(fmt.Sprintf("a stress run made no progress for %v but no goroutine waits for a broker lock: not judged", stallWindowC))
		r.NotAsserted()
	}
	return ds
}

func tail(s string, n int) string {
	if len(s) > n {
		return "..." + s[len(s)-n:]
	}
	return s
}

func afterFirstLine(s string) string {
	if i := strings.Index(s, "\n"); i >= 0 {
		s = s[i+1:]
	}
	// drop the "goroutine N [running]:" header of the recovered stack
	if strings.HasPrefix(s, "goroutine ") {
		if i := strings.Index(s, "\n"); i >= 0 {
			s = s[i+1:]
		}
	}
	return s
}

func TestC32(t *testing.T) {
	r := evid.New("C32", "(a) Lock matrix: every exported method of every exported lock-bearing type reachable from mqtt.Server (found by reflection; arguments built by parameter type from a generated tape), "+
		"called in a loop on a fresh pre-filled object while a second goroutine loops Lock();Unlock() on the promoted mutex of the same object (TopicsIndex, which promotes no lock: a loop of its mutating methods). "+
		"Oracle: per-goroutine iteration counters; a wedge is declared only when the caller made no progress in two observations 2 s apart AND the goroutine dump shows caller and writer in sync.(*RWMutex)/(*Mutex) acquisition. "+
		"Non-trivial: both loops made >= 1000 iterations, or the pair wedged. "+
		"(c) Free-running stress in a child process: 16-64 generated client goroutines (connect, subscribe, publish QoS 0-2, acknowledge or not, DISCONNECT with expiry update / with will, drop, takeover through shared client ids, wills with delay, retained publishes while others subscribe) over in-memory connections, "+
		"a housekeeping goroutine (Server.VerifHousekeep clients|retained|inflight|wills|sys with generated clocks), an inline-API goroutine (Publish/Subscribe/Unsubscribe) and Server.Close() once a generated share of the clients is done. "+
		"Oracle: progress vector (client steps, bytes the broker wrote, handlers returned, housekeeping/inline calls, Close returned); a stall is declared only after two observations 20 s apart without progress AND goroutines waiting for broker locks in two dumps; "+
		"a stall without lock waiters, a timeout or a harness failure is inconclusive. Non-trivial: a session was taken over (or a connection closed by the broker) and a deferred send (in-flight message held for quota) was seen.")
	defer r.Finish(t)
	defer stopChildren()
	r.Assume("Schedules of the stress part are not owned by the harness: they are explored statistically (Go scheduler, all cores, seeded yields at the verif schedule points); a saved scenario reproduces the operations, not the interleaving, and the goroutine dump is the artefact of a stall. Lock-matrix probes are replayable (type, method, argument tape), their wedge is near-certain within the probe duration but still a race between two loops.")
	r.Assume("Liveness is judged as 'no stall with lock waiters within the budget, observed twice'; a timeout alone is never a violation.")
	r.Assume("The statement's static clause (no code path re-acquires a read lock it holds) is replaced by the dynamic lock matrix: nested acquisition reachable only through unexported types is covered only as far as exported methods and the stress scenario reach it.")

	pairs, unexported, unbuildable := matrixPairs()
	r.Set("lock_types_unexported(covered through exported methods only)", strings.Join(unexported, ","))
	r.Set("matrix_pairs", len(pairs))
	var np []string
	for k, why := range notProbed {
		np = append(np, k+": "+why)
	}
	sort.Strings(np)
	r.Set("matrix_not_probed", strings.Join(np, "; "))
	if len(unbuildable) > 0 {
		r.Inconclusive("lock-bearing exported types without a constructor in the lock matrix (add one to matrix_test.go): " + strings.Join(unbuildable, ","))
	}

	skip := map[string]bool{}
	check := func(c c32Case, r *evid.Rec) []evid.Disc {
		r.Sample(c)
		switch {
		case c.Probe != nil:
			return checkProbe(*c.Probe, r, skip)
		case c.Scn != nil:
			return checkStress32(*c.Scn, r)
		}
		r.NotAsserted()
		return nil
	}
	if evid.ReplayMode() {
		evid.Run(t, r, genC32(pairs), check)
		return
	}

	// listed wedges: confirmed once per run by a witness, then skipped (each wedge costs 2 s and two goroutines)
	defaultTape := []int{1, 2, 3, 4, 5, 6, 7, 8, 9, 10, 11, 12}
	for _, p := range pairs {
		if r.IsKnown(sigNested(p.String())) || r.IsKnown("C32-matrix-wedge-"+p.String()) {
			// checkProbe puts the pair on the skip list when it wedges with a listed signature
			evid.Witness(t, r, c32Case{Probe: &probeT{Type: p.Type, Method: p.Method, Tape: defaultTape}}, func(c c32Case, r *evid.Rec) []evid.Disc {
				r.Eval()
				return checkProbe(*c.Probe, r, skip)
			})
		}
	}
	// sweep: every pair once with the default tape (sharded in the thorough tier)
	idx, n := evid.Shard()
	for i, p := range pairs {
		if i%n != idx || t.Failed() {
			continue
		}
		evid.Direct(t, r, c32Case{Probe: &probeT{Type: p.Type, Method: p.Method, Tape: defaultTape}}, check)
	}
	if t.Failed() {
		return
	}
	// sweep: the stalled-reader kind, every trigger variant once per run
	for i, v := range stalledVariants {
		if i%n != idx || t.Failed() {
			continue
		}
		sc := stalledBase(v, i+int(evid.Seed()))
		evid.Direct(t, r, c32Case{Scn: &sc}, check)
	}
	if t.Failed() {
		return
	}
	// generated: further tapes for random pairs, and stress scenarios
	evid.Run(t, r, genC32(pairs), check)
}
