package pstress

import (
	"errors"
	"fmt"
	"io"
	"log/slog"
	"net"
	"os"
	"reflect"
	"sort"
	"strconv"
	"strings"
	"sync"
	"sync/atomic"
	"time"

	mqtt "github.com/mochi-mqtt/server/v2"
	"github.com/mochi-mqtt/server/v2/hooks/auth"
	"github.com/mochi-mqtt/server/v2/listeners"
	"github.com/mochi-mqtt/server/v2/packets"
	"verif/harness/evid"
)

// ---- part (a): the lock matrix ----------------------------------------------------------------------------
//
// For every exported type of the module that is reachable from mqtt.Server and embeds a sync.Mutex / sync.RWMutex
// (the embedded lock is promoted, hence reachable from outside) and every exported method M of it: one goroutine
// calls M in a loop (arguments decoded from a generated tape by parameter type) while another loops Lock();Unlock()
// on the same object. A method that acquires a read lock it already holds wedges as soon as the writer arrives
// between the two acquisitions, which in two tight loops happens within a few hundred iterations.

var (
	mutexT   = reflect.TypeOf(sync.Mutex{})
	rwmutexT = reflect.TypeOf(sync.RWMutex{})
)

type lockType struct {
	Name     string // "Inflight", "packets.Packets"
	T        reflect.Type
	Lock     string // "RWMutex" | "Mutex"
	Exported bool
}

func typeName(t reflect.Type) string {
	p := strings.TrimPrefix(strings.TrimPrefix(t.PkgPath(), repoPrefix), "/")
	if p == "" {
		return t.Name()
	}
	return p + "." + t.Name()
}

// discoverLockTypes walks the type graph below mqtt.Server (fields of any visibility; pointers, slices, maps)
// and returns every struct type of the module that embeds a mutex.
func discoverLockTypes() []lockType {
	seen := map[reflect.Type]bool{}
	var out []lockType
	var walk func(t reflect.Type)
	walk = func(t reflect.Type) {
		if seen[t] {
			return
		}
		seen[t] = true
		switch t.Kind() {
		case reflect.Ptr, reflect.Slice, reflect.Array, reflect.Chan:
			walk(t.Elem())
		case reflect.Map:
			walk(t.Key())
			walk(t.Elem())
		case reflect.Struct:
			if t.PkgPath() != "" && !strings.HasPrefix(t.PkgPath(), repoPrefix) {
				return // standard library and third-party structs are not the broker's locks
			}
			for i := 0; i < t.NumField(); i++ {
				f := t.Field(i)
				if f.Anonymous && (f.Type == mutexT || f.Type == rwmutexT) {
					out = append(out, lockType{Name: typeName(t), T: t, Lock: f.Type.Name(), Exported: t.Name() != "" && t.Name()[0] >= 'A' && t.Name()[0] <= 'Z'})
					continue
				}
				walk(f.Type)
			}
		}
	}
	walk(reflect.TypeOf(mqtt.Server{}))
	sort.Slice(out, func(i, j int) bool { return out[i].Name < out[j].Name })
	return out
}

// ---- fresh, pre-filled objects ------------------------------------------------------------------------------

var (
	matrixSrvOnce sync.Once
	matrixSrv     *mqtt.Server
)

func discardLogger() *slog.Logger {
	return slog.New(slog.NewTextHandler(io.Discard, &slog.HandlerOptions{Level: slog.LevelError + 4}))
}

func srvForMatrix() *mqtt.Server {
	matrixSrvOnce.Do(func() {
		matrixSrv = mqtt.New(&mqtt.Options{Logger: discardLogger(), InlineClient: true})
		_ = matrixSrv.AddHook(new(auth.AllowHook), nil)
	})
	return matrixSrv
}

// eofConn: reads end at once, writes are swallowed.
type eofConn struct{}

func (eofConn) Read(p []byte) (int, error)         { return 0, io.EOF }
func (eofConn) Write(p []byte) (int, error)        { return len(p), nil }
func (eofConn) Close() error                       { return nil }
func (eofConn) LocalAddr() net.Addr                { return memAddr("broker") }
func (eofConn) RemoteAddr() net.Addr               { return memAddr("peer") }
func (eofConn) SetDeadline(t time.Time) error      { return nil }
func (eofConn) SetReadDeadline(t time.Time) error  { return nil }
func (eofConn) SetWriteDeadline(t time.Time) error { return nil }

type memAddr string

func (a memAddr) Network() string { return "mem" }
func (a memAddr) String() string  { return string(a) }

// nopListener is a listeners.Listener that does nothing (Serve returns at once, Close calls the closer).
type nopListener struct{ id string }

func (l *nopListener) Init(*slog.Logger) error     { return nil }
func (l *nopListener) Serve(listeners.EstablishFn) {}
func (l *nopListener) ID() string                  { return l.id }
func (l *nopListener) Address() string             { return "mem" }
func (l *nopListener) Protocol() string            { return "mem" }
func (l *nopListener) Close(c listeners.CloseFn)   { c(l.id) }

var strPool = []string{"a", "a/b", "c1", "c2", "g", "l1", "", "$share/g/a", "a/+", "#"}

func newMatrixClient(id string) *mqtt.Client {
	cl := srvForMatrix().NewClient(eofConn{}, "l1", id, false)
	cl.Properties.ProtocolVersion = 5
	cl.State.Inflight.ResetSendQuota(4)
	cl.State.Inflight.ResetReceiveQuota(4)
	for i := uint16(1); i <= 4; i++ {
		exp := int64(0)
		if i%2 == 0 {
			exp = -1
		}
		cl.State.Inflight.Set(packets.Packet{FixedHeader: packets.FixedHeader{Type: packets.Publish, Qos: 1}, PacketID: i, TopicName: "a/b", Created: int64(i), Expiry: exp, ProtocolVersion: 5})
	}
	cl.State.Subscriptions.Add("a/b", packets.Subscription{Filter: "a/b", Qos: 1})
	return cl
}

func nopInline(cl *mqtt.Client, sub packets.Subscription, pk packets.Packet) {}

// constructors: one per lock-bearing exported type. cleanup (may be nil) releases what a probe may leave blocked.
var constructors = map[string]func() (obj any, cleanup func()){
	"Inflight": func() (any, func()) {
		i := mqtt.NewInflights()
		i.ResetSendQuota(8)
		i.ResetReceiveQuota(8)
		for id := uint16(1); id <= 8; id++ {
			exp := int64(0)
			if id%2 == 0 {
				exp = -1 // "send as soon as quota is free": what NextImmediate looks for
			}
			i.Set(packets.Packet{FixedHeader: packets.FixedHeader{Type: packets.Publish, Qos: 1}, PacketID: id, Created: int64(id), Expiry: exp, TopicName: "a/b"})
		}
		return i, nil
	},
	"Clients": func() (any, func()) {
		c := mqtt.NewClients()
		for _, id := range []string{"c1", "c2", "c3", "c4"} {
			c.Add(newMatrixClient(id))
		}
		return c, nil
	},
	"Client": func() (any, func()) {
		cl := newMatrixClient("c1")
		return cl, func() { cl.Stop(nil) }
	},
	"Subscriptions": func() (any, func()) {
		s := mqtt.NewSubscriptions()
		for _, f := range []string{"a", "a/b", "a/+", "#"} {
			s.Add(f, packets.Subscription{Filter: f, Qos: 1})
		}
		return s, nil
	},
	"SharedSubscriptions": func() (any, func()) {
		s := mqtt.NewSharedSubscriptions()
		s.Add("g", "c1", packets.Subscription{Filter: "$share/g/a", Qos: 1})
		s.Add("g", "c2", packets.Subscription{Filter: "$share/g/a", Qos: 1})
		s.Add("h", "c1", packets.Subscription{Filter: "$share/h/a", Qos: 1})
		return s, nil
	},
	"InlineSubscriptions": func() (any, func()) {
		s := mqtt.NewInlineSubscriptions()
		for id := 1; id <= 3; id++ {
			s.Add(mqtt.InlineSubscription{Subscription: packets.Subscription{Filter: "a/b", Identifier: id}, Handler: nopInline})
		}
		return s, nil
	},
	"InboundTopicAliases": func() (any, func()) {
		a := mqtt.NewInboundTopicAliases(5)
		a.Set(1, "a/b")
		return a, nil
	},
	"OutboundTopicAliases": func() (any, func()) {
		a := mqtt.NewOutboundTopicAliases(5)
		a.Set("a/b")
		return a, nil
	},
	"packets.Packets": func() (any, func()) {
		p := packets.NewPackets()
		for _, id := range []string{"c1", "c2", "a/b"} {
			p.Add(id, packets.Packet{FixedHeader: packets.FixedHeader{Type: packets.Publish}, TopicName: "a/b", Origin: id})
		}
		return p, nil
	},
	"listeners.Listeners": func() (any, func()) {
		l := listeners.New()
		l.Add(&nopListener{id: "l1"})
		l.Add(&nopListener{id: "a"})
		return l, nil
	},
	// TopicsIndex embeds no lock (its locks sit in unexported trie nodes), so nothing is promoted: the second
	// goroutine runs its mutating methods instead (see topicsContender).
	"TopicsIndex": func() (any, func()) {
		x := mqtt.NewTopicsIndex()
		for _, f := range []string{"a", "a/b", "a/+", "#", "$share/g/a"} {
			x.Subscribe("c1", packets.Subscription{Filter: f, Qos: 1})
		}
		x.InlineSubscribe(mqtt.InlineSubscription{Subscription: packets.Subscription{Filter: "a/b", Identifier: 1}, Handler: nopInline})
		x.RetainMessage(packets.Packet{FixedHeader: packets.FixedHeader{Type: packets.Publish, Retain: true}, TopicName: "a/b", Payload: []byte("r")})
		return x, nil
	},
	"Hooks": func() (any, func()) {
		h := &mqtt.Hooks{Log: discardLogger()}
		_ = h.Add(new(auth.AllowHook), nil)
		return h, nil
	},
}

// The promoted methods of the embedded lock itself are not probed.
var lockMethods = map[string]bool{"Lock": true, "Unlock": true, "RLock": true, "RUnlock": true, "TryLock": true, "TryRLock": true, "RLocker": true}

type pairT struct{ Type, Method string }

func (p pairT) String() string { return p.Type + "." + p.Method }

// matrixPairs enumerates (type, exported method) over the discovered lock-bearing exported types. Types without a
// constructor are returned separately (a new lock-bearing type the matrix does not know how to build).
func matrixPairs() (pairs []pairT, unexported, unbuildable []string) {
	for _, lt := range discoverLockTypes() {
		if !lt.Exported {
			unexported = append(unexported, lt.Name)
			continue
		}
		if constructors[lt.Name] == nil {
			unbuildable = append(unbuildable, lt.Name)
			continue
		}
		pt := reflect.PointerTo(lt.T)
		for i := 0; i < pt.NumMethod(); i++ {
			m := pt.Method(i)
			if lockMethods[m.Name] || notProbed[lt.Name+"."+m.Name] != "" {
				continue
			}
			pairs = append(pairs, pairT{lt.Name, m.Name})
		}
	}
	ti := reflect.TypeOf(&mqtt.TopicsIndex{})
	for i := 0; i < ti.NumMethod(); i++ {
		pairs = append(pairs, pairT{"TopicsIndex", ti.Method(i).Name})
	}
	return
}

// topicsContender is the second goroutine for TopicsIndex: one mutating call per round on the paths the pre-filled
// index uses, so that every trie-node lock and the retained-message map see a writer.
func topicsContender(x *mqtt.TopicsIndex) func() {
	k := 0
	return func() {
		k++
		switch k % 6 {
		case 0:
			x.Subscribe("c2", packets.Subscription{Filter: "a/b", Qos: 1})
		case 1:
			x.Unsubscribe("a/b", "c2")
		case 2:
			x.RetainMessage(packets.Packet{FixedHeader: packets.FixedHeader{Type: packets.Publish, Retain: true}, TopicName: "a/b", Payload: []byte("x")})
		case 3:
			x.RetainMessage(packets.Packet{FixedHeader: packets.FixedHeader{Type: packets.Publish, Retain: true}, TopicName: "a/b"})
		case 4:
			x.InlineSubscribe(mqtt.InlineSubscription{Subscription: packets.Subscription{Filter: "a/+", Identifier: 2}, Handler: nopInline})
		case 5:
			x.InlineUnsubscribe(2, "a/+")
		}
	}
}

// ---- arguments by type, from a tape ----------------------------------------------------------------------------

// tapeT is the generated part of a probe: a sequence of small numbers that the by-type argument builder consumes.
type tapeT struct {
	v []int
	i int
}

func (t *tapeT) next(n int) int {
	if n <= 0 {
		return 0
	}
	if t.i >= len(t.v) {
		t.i++
		return 0
	}
	x := t.v[t.i]
	t.i++
	if x < 0 {
		x = -x
	}
	return x % n
}

var (
	packetT  = reflect.TypeOf(packets.Packet{})
	subT     = reflect.TypeOf(packets.Subscription{})
	inlineT  = reflect.TypeOf(mqtt.InlineSubscription{})
	clientPT = reflect.TypeOf(&mqtt.Client{})
	errorT   = reflect.TypeOf((*error)(nil)).Elem()
	connT    = reflect.TypeOf((*net.Conn)(nil)).Elem()
	hookT    = reflect.TypeOf((*mqtt.Hook)(nil)).Elem()
	listenT  = reflect.TypeOf((*listeners.Listener)(nil)).Elem()
	loggerPT = reflect.TypeOf(&slog.Logger{})
	fhPT     = reflect.TypeOf(&packets.FixedHeader{})
)

var smallInts = []int64{0, 1, 2, 3, 5, 8, -1, 65535, 1 << 40}

func genPacket(tp *tapeT) packets.Packet {
	typ := []byte{packets.Publish, packets.Puback, packets.Pubrec, packets.Pubrel, packets.Pubcomp, packets.Connect, packets.Subscribe, packets.Disconnect}[tp.next(8)]
	pk := packets.Packet{
		FixedHeader:     packets.FixedHeader{Type: typ, Qos: byte(tp.next(3)), Retain: tp.next(2) == 1},
		PacketID:        uint16(tp.next(10)),
		TopicName:       strPool[tp.next(len(strPool))],
		Payload:         []byte("p"),
		Created:         int64(tp.next(10)),
		Expiry:          []int64{0, -1, 5, 1 << 40}[tp.next(4)],
		ProtocolVersion: []byte{4, 5}[tp.next(2)],
		Origin:          strPool[tp.next(len(strPool))],
	}
	if typ == packets.Connect {
		pk.Connect.ClientIdentifier = strPool[tp.next(len(strPool))]
		pk.Connect.Clean = tp.next(2) == 1
		pk.Connect.WillFlag = tp.next(2) == 1
		pk.Connect.WillTopic = "a/b"
		pk.Properties.ReceiveMaximum = uint16(tp.next(4))
		pk.Properties.TopicAliasMaximum = uint16(tp.next(4))
	}
	if typ == packets.Subscribe {
		pk.Filters = packets.Subscriptions{{Filter: strPool[tp.next(len(strPool))], Qos: byte(tp.next(3))}}
	}
	return pk
}

func genValue(t reflect.Type, tp *tapeT, depth int) reflect.Value {
	switch t {
	case packetT:
		return reflect.ValueOf(genPacket(tp))
	case subT:
		return reflect.ValueOf(packets.Subscription{Filter: strPool[tp.next(len(strPool))], Qos: byte(tp.next(3)), Identifier: tp.next(4), NoLocal: tp.next(2) == 1})
	case inlineT:
		return reflect.ValueOf(mqtt.InlineSubscription{Subscription: packets.Subscription{Filter: strPool[tp.next(len(strPool))], Identifier: tp.next(5)}, Handler: nopInline})
	case clientPT:
		return reflect.ValueOf(newMatrixClient(strPool[tp.next(len(strPool))]))
	case loggerPT:
		return reflect.ValueOf(discardLogger())
	case fhPT:
		return reflect.ValueOf(&packets.FixedHeader{})
	}
	switch t.Kind() {
	case reflect.Bool:
		return reflect.ValueOf(tp.next(2) == 1).Convert(t)
	case reflect.Int, reflect.Int8, reflect.Int16, reflect.Int32, reflect.Int64:
		v := reflect.New(t).Elem()
		v.SetInt(smallInts[tp.next(len(smallInts))])
		return v
	case reflect.Uint, reflect.Uint8, reflect.Uint16, reflect.Uint32, reflect.Uint64:
		v := reflect.New(t).Elem()
		x := smallInts[tp.next(len(smallInts))]
		if x < 0 {
			x = 7
		}
		v.SetUint(uint64(x))
		return v
	case reflect.String:
		return reflect.ValueOf(strPool[tp.next(len(strPool))]).Convert(t)
	case reflect.Slice:
		n := tp.next(3)
		s := reflect.MakeSlice(t, 0, n)
		for i := 0; i < n && depth < 3; i++ {
			s = reflect.Append(s, genValue(t.Elem(), tp, depth+1))
		}
		return s
	case reflect.Map:
		return reflect.MakeMap(t)
	case reflect.Ptr:
		p := reflect.New(t.Elem())
		if depth < 2 && t.Elem().Kind() == reflect.Struct && strings.HasPrefix(t.Elem().PkgPath(), repoPrefix) {
			p.Elem().Set(genValue(t.Elem(), tp, depth+1))
		}
		return p
	case reflect.Struct:
		v := reflect.New(t).Elem()
		if depth < 2 {
			for i := 0; i < t.NumField(); i++ {
				if f := t.Field(i); f.IsExported() && v.Field(i).CanSet() {
					switch f.Type.Kind() {
					case reflect.Bool, reflect.String, reflect.Int, reflect.Int64, reflect.Uint8, reflect.Uint16, reflect.Uint32:
						v.Field(i).Set(genValue(f.Type, tp, depth+1))
					}
				}
			}
		}
		return v
	case reflect.Interface:
		switch {
		case t == errorT:
			if tp.next(2) == 0 {
				return reflect.Zero(t)
			}
			return reflect.ValueOf(errors.New("generated")).Convert(t)
		case t == connT:
			return reflect.ValueOf(eofConn{}).Convert(t)
		case t == hookT:
			return reflect.ValueOf(new(auth.AllowHook)).Convert(t)
		case t == listenT:
			return reflect.ValueOf(&nopListener{id: strPool[tp.next(len(strPool))]}).Convert(t)
		}
		return reflect.Zero(t)
	case reflect.Func:
		return reflect.MakeFunc(t, func(args []reflect.Value) []reflect.Value {
			outs := make([]reflect.Value, t.NumOut())
			for i := range outs {
				outs[i] = reflect.Zero(t.Out(i))
			}
			return outs
		})
	}
	return reflect.Zero(t)
}

// ---- one probe ---------------------------------------------------------------------------------------------

type probeT struct {
	Type   string `json:"type"`
	Method string `json:"method"`
	Tape   []int  `json:"tape"`
}

const (
	probeMinIter  = 1000
	stallWindowAB = 2 * time.Second
	probeGiveUp   = 6 * time.Second
	maxWedges     = 12 // every wedge leaks two goroutines and an object for the rest of the process
)

var wedgesLeaked atomic.Int32

// probeDuration: how long both loops run at least. The two anchored nestings wedge after 10-70 ms of tight looping
// on this machine (the writer has to arrive inside a window of a few nanoseconds).
func probeDuration() time.Duration {
	if v, err := strconv.Atoi(os.Getenv("PSTRESS_PROBE_MS")); err == nil && v > 0 {
		return time.Duration(v) * time.Millisecond
	}
	if evid.ReplayMode() {
		return time.Second
	}
	if evid.Thorough() {
		return 400 * time.Millisecond
	}
	return 150 * time.Millisecond
}

// argFix narrows generated arguments where an arbitrary value is a caller error that kills the process.
var argFix = map[string]func(args []reflect.Value){
	// Serve(id) starts `go listener.Serve()` on the map entry without looking whether it exists: an unknown id is a nil
	// dereference in a goroutine nobody can recover
	"listeners.Listeners.Serve": func(args []reflect.Value) {
		if s := args[0].String(); s != "l1" && s != "a" {
			args[0] = reflect.ValueOf("l1")
		}
	},
}

// notProbed: methods that cannot be called in a loop on one object.
var notProbed = map[string]string{
	"Hooks.Stop": "a second call on the same Hooks panics in the goroutine it spawns (negative WaitGroup counter): caller misuse, not a locking matter",
}

type probeOutcome struct {
	callerIter, lockerIter int64
	wedged                 bool
	callerWait, lockerWait string
	callerStack            string
	lockerStack            string
	innerFrames            []string // repo frames of the wedged caller, innermost first
	blockedNotOnLock       bool     // the method did not return but does not sit in a lock acquisition
	gaveUp                 bool     // neither finished nor classified within probeGiveUp
	panics                 int64
	firstPanic             string
}

func runProbe(p probeT) (o probeOutcome, err error) {
	ctor := constructors[p.Type]
	if ctor == nil {
		return o, fmt.Errorf("no constructor for %s", p.Type)
	}
	obj, cleanup := ctor()
	m := reflect.ValueOf(obj).MethodByName(p.Method)
	if !m.IsValid() {
		return o, fmt.Errorf("%s has no method %s", p.Type, p.Method)
	}
	var contend func()
	if lk, ok := obj.(sync.Locker); ok {
		contend = func() {
			lk.Lock()
			lk.Unlock() //nolint:staticcheck // empty critical section on purpose
		}
	} else if x, ok := obj.(*mqtt.TopicsIndex); ok {
		contend = topicsContender(x)
	} else {
		return o, fmt.Errorf("%s does not promote Lock/Unlock", p.Type)
	}
	mt := m.Type()
	tp := &tapeT{v: p.Tape}
	const nSets = 4
	argSets := make([][]reflect.Value, nSets)
	for s := range argSets {
		for i := 0; i < mt.NumIn(); i++ {
			argSets[s] = append(argSets[s], genValue(mt.In(i), tp, 0))
		}
	}
	if fix := argFix[p.Type+"."+p.Method]; fix != nil {
		for _, a := range argSets {
			fix(a)
		}
	}
	call := m.Call
	if mt.IsVariadic() {
		call = m.CallSlice
	}

	var stop atomic.Bool
	var cIter, lIter, panics atomic.Int64
	var firstPanic atomic.Value
	var cID, lID atomic.Int64
	cDone, lDone := make(chan struct{}), make(chan struct{})
	go func() { // the caller
		defer close(cDone)
		cID.Store(int64(selfID()))
		for k := 0; !stop.Load(); k++ {
			func() {
				defer func() {
					if r := recover(); r != nil {
						if panics.Add(1) == 1 {
							firstPanic.Store(fmt.Sprint(r))
						}
					}
				}()
				call(argSets[k%nSets])
			}()
			cIter.Add(1)
		}
	}()
	go func() { // the writer
		defer close(lDone)
		lID.Store(int64(selfID()))
		for !stop.Load() {
			contend()
			lIter.Add(1)
		}
	}()

	start := time.Now()
	lastC, lastL := int64(-1), int64(-1)
	lastCChange, lastLChange := start, start
	minDur := probeDuration()
	for {
		time.Sleep(500 * time.Microsecond)
		c, l := cIter.Load(), lIter.Load()
		now := time.Now()
		if c != lastC {
			lastC, lastCChange = c, now
		}
		if l != lastL {
			lastL, lastLChange = l, now
		}
		el := now.Sub(start)
		moving := now.Sub(lastCChange) < 20*time.Millisecond && now.Sub(lastLChange) < 20*time.Millisecond
		if el >= minDur && c >= probeMinIter && l >= probeMinIter && moving {
			break
		}
		if el >= 3*minDur && c >= 20 && l >= 20 && moving {
			break // both loops progress, slowly
		}
		if now.Sub(lastCChange) >= stallWindowAB {
			// second observation, stallWindowAB after the first one that showed this count: the caller has not moved
			gs := parseDump(fullDump())
			cg, lg := gs[int(cID.Load())], gs[int(lID.Load())]
			if cg != nil && cg.lockWait() == "" {
				o.blockedNotOnLock = true
				o.callerStack = excerpt(cg, 12)
				break
			}
			if cg != nil && lg != nil && lg.lockWait() != "" && now.Sub(lastLChange) >= stallWindowAB {
				o.wedged = true
				o.callerWait, o.lockerWait = cg.lockWait(), lg.lockWait()
				o.callerStack, o.lockerStack = excerpt(cg, 16), excerpt(lg, 10)
				o.innerFrames = cg.repoFrames()
				break
			}
		}
		if el > probeGiveUp {
			o.gaveUp = true
			if os.Getenv("PSTRESS_DEBUG") != "" {
				gs := parseDump(fullDump())
				for _, id := range []int64{cID.Load(), lID.Load()} {
					if g := gs[int(id)]; g != nil {
						fmt.Printf("GAVEUP %s c=%d l=%d lastC=%v lastL=%v lockWait=%q\n%s\n", p.Method, c, l, now.Sub(lastCChange), now.Sub(lastLChange), g.lockWait(), excerpt(g, 14))
					}
				}
			}
			break
		}
	}
	stop.Store(true)
	if cleanup != nil {
		cleanup()
	}
	o.callerIter, o.lockerIter, o.panics = cIter.Load(), lIter.Load(), panics.Load()
	if s, ok := firstPanic.Load().(string); ok {
		o.firstPanic = s
	}
	if o.wedged {
		wedgesLeaked.Add(1) // both goroutines are abandoned together with the object
		return o, nil
	}
	for _, ch := range []chan struct{}{cDone, lDone} {
		select {
		case <-ch:
		case <-time.After(2 * time.Second):
		}
	}
	return o, nil
}

// sigNested names a nested read lock by the method that holds the read lock while a same-receiver call takes it again.
func sigNested(method string) string { return "C32-nested-read-lock-" + method }

// nestedShape: the goroutine waits in RLock inside a method of a lock-bearing type that was called from another method
// of the same type - the shape of a read lock acquired twice (the dump cannot show that the outer method holds the
// lock, so this is a name for the stall, not its proof: the proof is the stall with lock waiters). It returns the outer
// method.
func nestedShape(wait string, frames []string) (outer string, ok bool) {
	if wait == "RWMutex.RLock" && len(frames) >= 2 {
		if t0, t1 := recvType(frames[0]), recvType(frames[1]); t0 != "" && t0 == t1 && lockBearing()[t0] {
			return frames[1], true
		}
	}
	return "", false
}

var lockBearingOnce struct {
	sync.Once
	m map[string]bool
}

// lockBearing: names of the types that embed a lock (only their methods can hold "their own" read lock).
func lockBearing() map[string]bool {
	lockBearingOnce.Do(func() {
		lockBearingOnce.m = map[string]bool{}
		for _, lt := range discoverLockTypes() {
			lockBearingOnce.m[lt.Name] = true
		}
	})
	return lockBearingOnce.m
}

func recvType(f string) string {
	if i := strings.LastIndex(f, "."); i > 0 {
		return f[:i]
	}
	return ""
}

// sigWedge is the signature of a wedged probe.
func sigWedge(p pairT, o probeOutcome) string {
	if outer, ok := nestedShape(o.callerWait, o.innerFrames); ok {
		return sigNested(outer)
	}
	return "C32-matrix-wedge-" + p.String()
}

// checkProbe is the oracle of part (a).
func checkProbe(p probeT, r *evid.Rec, skip map[string]bool) []evid.Disc {
	pair := pairT{p.Type, p.Method}
	if skip[pair.String()] {
		r.Label("matrix:skipped-listed-wedge-confirmed-by-witness")
		r.NotAsserted()
		return nil
	}
	if int(wedgesLeaked.Load()) >= maxWedges {
		r.Inconclusive(fmt.Sprintf("%d wedged probes in this process: further probes are not run (each wedge leaks two goroutines)", maxWedges))
		r.NotAsserted()
		return nil
	}
	o, err := runProbe(p)
	if err != nil {
		r.Label("matrix:not-runnable")
		r.NotAsserted()
		return nil
	}
	r.Label("matrix:type=" + p.Type)
	if o.panics > 0 {
		r.LabelN("matrix:calls-that-panicked(generated arguments; not judged)", o.panics)
	}
	switch {
	case o.wedged:
		r.Label("matrix:wedged")
		r.NonTrivial("matrix|" + pair.String())
		inner := ""
		if len(o.innerFrames) > 0 {
			inner = fmt.Sprintf(" The caller waits in %s reached through %s.", o.callerWait, strings.Join(o.innerFrames, " <- "))
		}
		sig := sigWedge(pair, o)
		if r.IsKnown(sig) {
			skip[pair.String()] = true // confirmed once in this run: every further wedge costs 2 s and two goroutines
		}
		return []evid.Disc{evid.D(sig, "%s wedges against a concurrent writer: after %d calls and %d Lock/Unlock rounds neither goroutine made progress in two observations %v apart, and both sit in a lock acquisition of the same object (caller: %s, writer: %s).%s\n%s\n\n%s",
			pair, o.callerIter, o.lockerIter, stallWindowAB, o.callerWait, o.lockerWait, inner, o.callerStack, o.lockerStack)}
	case o.gaveUp:
		r.Label("matrix:probe-gave-up(not judged):" + pair.String())
		r.NotAsserted()
	case o.blockedNotOnLock:
		r.Label("matrix:caller-stopped-outside-any-lock-wait(blocks by design or starved; not judged):" + pair.String())
		r.NotAsserted()
	case o.callerIter >= probeMinIter && o.lockerIter >= probeMinIter:
		r.Label("matrix:both>=1000-iterations")
		r.NonTrivial("matrix|" + pair.String())
	default:
		r.Label("matrix:slow-pair(<1000 iterations)")
	}
	return nil
}
