package pstress

import (
	"fmt"
	"strings"
	"testing"
	"time"

	"verif/harness/evid"
)

const (
	stallWindowC33 = 3 * time.Second // a stall is C32's business: the C33 run only stops waiting
	replayReps     = 5
)

func checkStress33(sc scenarioT, r *evid.Rec) []evid.Disc {
	r.Sample(sc)
	if !validScenario(sc) {
		r.NotAsserted()
		return nil
	}
	if !raceEnabled {
		r.Inconclusive("the test binary is not built with -race: nothing is judged")
		r.NotAsserted()
		return nil
	}
	// a replay reproduces the operations, not the interleaving: it is executed several times
	reps := 1
	if evid.ReplayMode() {
		reps = replayReps
	}
	var ds []evid.Disc
	seen := map[string]bool{}
	for rep := 0; rep < reps; rep++ {
		cr, err := runChild(sc, stallWindowC33, childLimit, nil)
		if err != nil {
			r.Inconclusive("stress child process could not be started: " + err.Error())
			r.NotAsserted()
			return nil
		}
		if rep == 0 {
			labelRun(r, "", sc, cr.Res)
		}
		r.LabelN("executions", 1)
		rds, total, byHarness := raceDiscs(cr.RaceLog)
		r.LabelN("race-reports", int64(total))
		if len(byHarness) > 0 {
			// seen when Server.Close panics inside sync.WaitGroup.Wait ("WaitGroup is reused before previous Wait has
			// returned"): Wait has switched race synchronisation off for the goroutine at that point, so the harness's
			// own mutex-protected bookkeeping after the recover is reported. No access of the broker: not judged.
			r.LabelN("race-reports-between-harness-accesses(not judged)", int64(len(byHarness)))
			r.Set("harness_race_report_sample", byHarness[0])
		}
		if cr.Res != nil && len(cr.Res.Panics) > 0 {
			r.LabelN("broker-panics(C32's business)", int64(len(cr.Res.Panics)))
		}
		if line, fn := crashOf(cr.Output); line != "" && strings.Contains(line, "concurrent map") {
			rds = append(rds, evid.D("C33-concurrent-map-access-"+fn, "the runtime aborted the broker process: %s\n%s", line, tail(cr.Output, 3000)))
		}
		for _, d := range rds {
			if !seen[d.Sig] {
				seen[d.Sig] = true
				ds = append(ds, d)
			}
		}
		switch {
		case cr.Res == nil:
			r.Label("run:no-result(only the race log is judged)")
		case cr.Res.Finished:
			r.Label("run:finished")
			k := maxOverlap(cr.Res.Spans)
			r.Label(fmt.Sprintf("kinds-overlapping-in-time=%d", k))
			if k >= 3 {
				r.NonTrivial(scenarioKey(sc))
			}
		default:
			r.Label("run:stalled(" + cr.Res.Stall + "; C32's business, only the race log is judged)")
		}
	}
	if len(ds) > 0 {
		ds[0].Ctx = "the scenario is replayable, the race only statistically (it depends on the schedule)"
	}
	return ds
}

func TestC33(t *testing.T) {
	r := evid.New("C33", "The free-running stress scenario of C32(c) (16-64 generated client goroutines over in-memory connections: connect, subscribe, publish QoS 0-2, acknowledge, DISCONNECT with expiry update, drop, takeover through shared client ids, wills with delay, retained publishes while others subscribe; "+
		"a housekeeping goroutine driving Server.VerifHousekeep with generated clocks, an inline-API goroutine, Server.Close() during traffic) executed in a child process built with -race. "+
		"Oracle: Go's race detector; every report in the child's GORACE log is reduced to the unordered pair of the innermost repository functions of the two accesses (no line numbers); a pair that is not a listed finding is a discrepancy whose artefact is the report plus the scenario. "+
		"Non-trivial: at least 3 of the scenario kinds (fan-in/fan-out, will+takeover, disconnect-expiry-update + client-expiry housekeeping, retained-publish-while-subscribing, inline API, shutdown during traffic) overlapped in time, measured by the timestamps of their first and last operation.")
	defer r.Finish(t)
	defer stopChildren()
	r.Assume("Schedules are not owned by the harness: a race is schedule-dependent. The saved scenario is replayable; the race it produced is reproduced only statistically (run the replay several times).")
	r.Assume("The race detector only reports accesses it sees unordered in this execution; the broker's own atomic counters (system.Info) order many handler steps, so absence of a report is weak evidence. The harness shares nothing between broker-driving goroutines except one mutex per connection.")
	r.Set("race_build", raceEnabled)
	evid.Run(t, r, genScenario, checkStress33)
}
