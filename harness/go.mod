module verif/harness

go 1.23

toolchain go1.23.5

require (
	github.com/mochi-mqtt/server/v2 v2.0.0
	pgregory.net/rapid v1.3.0
)

require (
	github.com/gorilla/websocket v1.5.0 // indirect
	github.com/rs/xid v1.4.0 // indirect
	gopkg.in/yaml.v3 v3.0.1 // indirect
)

replace github.com/mochi-mqtt/server/v2 => /repo
