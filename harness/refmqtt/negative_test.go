package refmqtt

import (
	"bytes"
	"testing"
)

func cat(parts ...[]byte) []byte {
	var out []byte
	for _, p := range parts {
		out = append(out, p...)
	}
	return out
}

// connectBody builds a CONNECT body from its pieces.
func connectBody(name string, level, flags byte, rest ...[]byte) []byte {
	return cat(EncodeString(name), []byte{level, flags, 0, 60}, cat(rest...))
}

func TestNegative(t *testing.T) {
	S, C := ServerToClient, ClientToServer
	cases := []struct {
		name  string
		b     []byte
		ver   byte
		dir   Direction
		class string
	}{
		// ---- direction ----
		{"type 0", []byte{0x00, 0x00}, 4, S, "direction"},
		{"type 0 c2s v5", []byte{0x00, 0x00}, 5, C, "direction"},
		{"CONNECT from server", []byte{0x10, 0x00}, 4, S, "direction"},
		{"CONNACK from client", []byte{0x20, 0x02, 0, 0}, 4, C, "direction"},
		{"SUBSCRIBE from server", []byte{0x82, 0x00}, 5, S, "direction"},
		{"SUBACK from client", []byte{0x90, 0x03, 0, 1, 0}, 4, C, "direction"},
		{"UNSUBSCRIBE from server", []byte{0xa2, 0x00}, 4, S, "direction"},
		{"UNSUBACK from client", []byte{0xb0, 0x02, 0, 1}, 4, C, "direction"},
		{"PINGREQ from server", []byte{0xc0, 0x00}, 4, S, "direction"},
		{"PINGRESP from client", []byte{0xd0, 0x00}, 5, C, "direction"},
		{"v4 DISCONNECT from server", []byte{0xe0, 0x00}, 4, S, "direction"},
		{"v3 DISCONNECT from server", []byte{0xe0, 0x00}, 3, S, "direction"},
		{"v4 AUTH from server", []byte{0xf0, 0x00}, 4, S, "direction"},
		{"v4 AUTH from client", []byte{0xf0, 0x00}, 4, C, "direction"},
		{"direction beats flags", []byte{0x1f}, 4, S, "direction"},

		// ---- flags ----
		{"PUBLISH qos3", []byte{0x36, 0x05, 0, 1, 'a', 0, 1}, 4, S, "flags"},
		{"PUBLISH dup qos0", []byte{0x38, 0x03, 0, 1, 'a'}, 4, S, "flags"},
		{"PUBREL flags 0", []byte{0x60, 0x02, 0, 1}, 4, S, "flags"},
		{"PUBREL flags dup", []byte{0x6a, 0x02, 0, 1}, 3, S, "flags"},
		{"SUBSCRIBE flags 0", []byte{0x80, 0x06, 0, 1, 0, 1, 'a', 0}, 4, C, "flags"},
		{"UNSUBSCRIBE flags 0", []byte{0xa0, 0x05, 0, 1, 0, 1, 'a'}, 4, C, "flags"},
		{"PUBACK flags 2", []byte{0x42, 0x02, 0, 1}, 4, S, "flags"},
		{"CONNACK flags 1", []byte{0x21, 0x02, 0, 0}, 4, S, "flags"},
		{"PINGRESP flags 8", []byte{0xd8, 0x00}, 4, S, "flags"},
		{"DISCONNECT flags 1", []byte{0xe1, 0x00}, 5, S, "flags"},
		{"CONNECT flags 1", []byte{0x11, 0x00}, 4, C, "flags"},
		{"flags beat incomplete", []byte{0x42}, 4, S, "flags"},
		{"flags beat remaining length", []byte{0x42, 0xff, 0xff, 0xff, 0xff, 0x01}, 4, S, "flags"},

		// ---- framing ----
		{"remaining length 5 bytes", []byte{0x30, 0x80, 0x80, 0x80, 0x80, 0x01}, 4, S, "framing"},
		{"remaining length 4 continuation bytes only", []byte{0x30, 0xff, 0xff, 0xff, 0xff}, 4, S, "framing"},
		{"PINGRESP with body", []byte{0xd0, 0x01, 0x00}, 4, S, "framing"},
		{"PINGREQ with body", []byte{0xc0, 0x02, 0, 0}, 5, C, "framing"},
		{"v4 DISCONNECT with body", []byte{0xe0, 0x01, 0x00}, 4, C, "framing"},
		{"v4 CONNACK 3 bytes", []byte{0x20, 0x03, 0, 0, 0}, 4, S, "framing"},
		{"v4 CONNACK 1 byte", []byte{0x20, 0x01, 0}, 4, S, "framing"},
		{"v4 CONNACK 0 bytes", []byte{0x20, 0x00}, 4, S, "framing"},
		{"v5 CONNACK without property length", []byte{0x20, 0x02, 0, 0}, 5, S, "framing"},
		{"v4 PUBACK 3 bytes", []byte{0x40, 0x03, 0, 1, 0}, 4, S, "framing"},
		{"v4 PUBACK 1 byte", []byte{0x40, 0x01, 0}, 4, S, "framing"},
		{"v5 PUBACK 1 byte", []byte{0x40, 0x01, 0}, 5, S, "framing"},
		{"v5 PUBACK 0 bytes", []byte{0x40, 0x00}, 5, S, "framing"},
		{"v5 PUBACK surplus after properties", []byte{0x40, 0x05, 0, 1, 0, 0, 0}, 5, S, "framing"},
		{"v4 UNSUBACK with codes", []byte{0xb0, 0x03, 0, 1, 0}, 4, S, "framing"},
		{"v4 PUBLISH qos1 without packet id", []byte{0x32, 0x03, 0, 1, 'a'}, 4, S, "framing"},
		{"v4 PUBLISH qos1 half packet id", []byte{0x32, 0x04, 0, 1, 'a', 0}, 4, S, "framing"},
		{"v5 PUBLISH without property length", []byte{0x30, 0x03, 0, 1, 'a'}, 5, S, "framing"},
		{"PUBLISH empty body", []byte{0x30, 0x00}, 4, S, "framing"},
		{"PUBLISH half topic length", []byte{0x30, 0x01, 0x00}, 4, S, "framing"},
		{"v4 SUBSCRIBE without options byte", []byte{0x82, 0x05, 0, 1, 0, 1, 'a'}, 4, C, "framing"},
		{"v4 SUBSCRIBE surplus looks like half a filter", []byte{0x82, 0x07, 0, 1, 0, 1, 'a', 0, 0}, 4, C, "framing"},
		{"SUBACK empty body", []byte{0x90, 0x00}, 4, S, "framing"},
		{"v5 DISCONNECT surplus", []byte{0xe0, 0x03, 0, 0, 0}, 5, S, "framing"},
		{"v5 AUTH surplus", []byte{0xf0, 0x03, 0, 0, 0}, 5, S, "framing"},
		{"v4 CONNECT surplus", RawPacket(0x10, connectBody("MQTT", 4, 2, EncodeString("a"), []byte{0})), 4, C, "framing"},
		{"v4 CONNECT surplus looks like username", RawPacket(0x10, connectBody("MQTT", 4, 2, EncodeString("a"), EncodeString("u"))), 4, C, "framing"},
		{"v4 CONNECT v5-style property byte", RawPacket(0x10, connectBody("MQTT", 4, 2, []byte{0}, EncodeString("a"))), 4, C, "framing"},
		{"v5 CONNECT surplus", RawPacket(0x10, connectBody("MQTT", 5, 2, []byte{0}, EncodeString("a"), []byte{0})), 5, C, "framing"},
		{"CONNECT missing keep alive", RawPacket(0x10, cat(EncodeString("MQTT"), []byte{4, 2})), 4, C, "framing"},
		{"CONNECT missing client id", RawPacket(0x10, connectBody("MQTT", 4, 2)), 4, C, "framing"},
		{"CONNECT username flag, field absent", RawPacket(0x10, connectBody("MQTT", 4, 0x82, EncodeString("a"))), 4, C, "framing"},
		{"CONNECT empty", []byte{0x10, 0x00}, 4, C, "framing"},

		// ---- malformed ----
		{"topic longer than body", []byte{0x30, 0x03, 0, 5, 'a'}, 4, S, "malformed"},
		{"v4 PUBLISH empty topic", []byte{0x30, 0x02, 0, 0}, 4, S, "malformed"},
		{"v5 PUBLISH empty topic no alias", []byte{0x30, 0x03, 0, 0, 0}, 5, S, "malformed"},
		{"PUBLISH topic with +", []byte{0x30, 0x05, 0, 3, 'a', '/', '+'}, 4, S, "malformed"},
		{"PUBLISH topic with #", []byte{0x30, 0x04, 0, 1, '#', 0}, 5, C, "malformed"},
		{"PUBLISH packet id 0", []byte{0x32, 0x05, 0, 1, 'a', 0, 0}, 4, S, "malformed"},
		{"v5 PUBLISH property length beyond body", []byte{0x30, 0x04, 0, 1, 'a', 5}, 5, S, "malformed"},
		{"v5 PUBLISH property length unterminated", []byte{0x30, 0x04, 0, 1, 'a', 0x80}, 5, S, "malformed"},
		{"v5 PUBLISH property length 5 byte vbi", []byte{0x30, 0x08, 0, 1, 'a', 0x80, 0x80, 0x80, 0x80, 0x00}, 5, S, "malformed"},
		{"v5 PUBLISH truncated property value", []byte{0x30, 0x06, 0, 1, 'a', 2, 0x23, 0}, 5, S, "malformed"},
		{"v5 PUBLISH property id without value", []byte{0x30, 0x05, 0, 1, 'a', 1, 0x23}, 5, S, "malformed"},
		{"v5 PUBLISH string property cut by property length", []byte{0x30, 0x09, 0, 1, 'a', 4, 0x03, 0, 5, 'x', 'y'}, 5, S, "malformed"},
		{"v5 PUBLISH topic alias 0", []byte{0x30, 0x07, 0, 1, 'a', 3, 0x23, 0, 0}, 5, S, "malformed"},
		{"v5 PUBLISH subscription id 0", []byte{0x30, 0x06, 0, 1, 'a', 2, 0x0b, 0}, 5, S, "malformed"},
		{"v5 PUBLISH subscription id unterminated", []byte{0x30, 0x06, 0, 1, 'a', 2, 0x0b, 0x80}, 5, S, "malformed"},
		{"v5 PUBLISH payload format 2", []byte{0x30, 0x06, 0, 1, 'a', 2, 0x01, 2}, 5, S, "malformed"},
		{"v5 PUBLISH response topic wildcard", []byte{0x30, 0x08, 0, 1, 'a', 4, 0x08, 0, 1, '#'}, 5, S, "malformed"},
		{"v4 PUBACK packet id 0", []byte{0x40, 0x02, 0, 0}, 4, S, "malformed"},
		{"v5 PUBREL packet id 0", []byte{0x62, 0x02, 0, 0}, 5, S, "malformed"},
		{"v5 PUBACK property length beyond body", []byte{0x40, 0x04, 0, 1, 0, 1}, 5, S, "malformed"},
		{"v4 CONNACK flags 2", []byte{0x20, 0x02, 2, 0}, 4, S, "malformed"},
		{"v5 CONNACK flags 0x80", []byte{0x20, 0x03, 0x80, 0, 0}, 5, S, "malformed"},
		{"v4 CONNACK session present with code", []byte{0x20, 0x02, 1, 2}, 4, S, "malformed"},
		{"v5 CONNACK session present with code", []byte{0x20, 0x03, 1, 0x80, 0}, 5, S, "malformed"},
		{"v5 CONNACK retain available 2", []byte{0x20, 0x05, 0, 0, 2, 0x25, 2}, 5, S, "malformed"},
		{"v5 CONNACK maximum qos 2", []byte{0x20, 0x05, 0, 0, 2, 0x24, 2}, 5, S, "malformed"},
		{"v5 CONNACK wildcard available 2", []byte{0x20, 0x05, 0, 0, 2, 0x28, 2}, 5, S, "malformed"},
		{"v5 CONNACK subid available 2", []byte{0x20, 0x05, 0, 0, 2, 0x29, 0xff}, 5, S, "malformed"},
		{"v5 CONNACK shared available 2", []byte{0x20, 0x05, 0, 0, 2, 0x2a, 2}, 5, S, "malformed"},
		{"v5 CONNACK receive maximum 0", []byte{0x20, 0x06, 0, 0, 3, 0x21, 0, 0}, 5, S, "malformed"},
		{"v5 CONNACK maximum packet size 0", []byte{0x20, 0x08, 0, 0, 5, 0x27, 0, 0, 0, 0}, 5, S, "malformed"},
		{"SUBACK packet id 0", []byte{0x90, 0x03, 0, 0, 0}, 4, S, "malformed"},
		{"v4 SUBACK no codes", []byte{0x90, 0x02, 0, 1}, 4, S, "malformed"},
		{"v5 SUBACK no codes", []byte{0x90, 0x03, 0, 1, 0}, 5, S, "malformed"},
		{"v5 UNSUBACK no codes", []byte{0xb0, 0x03, 0, 1, 0}, 5, S, "malformed"},
		{"UNSUBACK packet id 0", []byte{0xb0, 0x02, 0, 0}, 4, S, "malformed"},
		{"v4 SUBSCRIBE no filters", []byte{0x82, 0x02, 0, 1}, 4, C, "malformed"},
		{"v5 SUBSCRIBE no filters", []byte{0x82, 0x03, 0, 1, 0}, 5, C, "malformed"},
		{"SUBSCRIBE packet id 0", []byte{0x82, 0x06, 0, 0, 0, 1, 'a', 0}, 4, C, "malformed"},
		{"SUBSCRIBE empty filter", []byte{0x82, 0x05, 0, 1, 0, 0, 0}, 4, C, "malformed"},
		{"v4 SUBSCRIBE qos 3", []byte{0x82, 0x06, 0, 1, 0, 1, 'a', 3}, 4, C, "malformed"},
		{"v4 SUBSCRIBE option bits", []byte{0x82, 0x06, 0, 1, 0, 1, 'a', 4}, 4, C, "malformed"},
		{"v5 SUBSCRIBE qos 3", []byte{0x82, 0x07, 0, 1, 0, 0, 1, 'a', 3}, 5, C, "malformed"},
		{"v5 SUBSCRIBE retain handling 3", []byte{0x82, 0x07, 0, 1, 0, 0, 1, 'a', 0x30}, 5, C, "malformed"},
		{"v5 SUBSCRIBE reserved bit 6", []byte{0x82, 0x07, 0, 1, 0, 0, 1, 'a', 0x40}, 5, C, "malformed"},
		{"v5 SUBSCRIBE reserved bit 7", []byte{0x82, 0x07, 0, 1, 0, 0, 1, 'a', 0x80}, 5, C, "malformed"},
		{"v5 SUBSCRIBE subscription id 0", []byte{0x82, 0x09, 0, 1, 2, 0x0b, 0, 0, 1, 'a', 0}, 5, C, "malformed"},
		{"SUBSCRIBE filter longer than body", []byte{0x82, 0x06, 0, 1, 0, 9, 'a', 0}, 4, C, "malformed"},
		{"UNSUBSCRIBE no filters", []byte{0xa2, 0x02, 0, 1}, 4, C, "malformed"},
		{"v5 UNSUBSCRIBE no filters", []byte{0xa2, 0x03, 0, 1, 0}, 5, C, "malformed"},
		{"UNSUBSCRIBE packet id 0", []byte{0xa2, 0x05, 0, 0, 0, 1, 'a'}, 4, C, "malformed"},
		{"UNSUBSCRIBE empty filter", []byte{0xa2, 0x04, 0, 1, 0, 0}, 4, C, "malformed"},
		{"CONNECT will topic wildcard", RawPacket(0x10, connectBody("MQTT", 4, 6, EncodeString("a"), EncodeString("w/#"), EncodeBinary(nil))), 4, C, "malformed"},
		{"CONNECT empty will topic", RawPacket(0x10, connectBody("MQTT", 4, 6, EncodeString("a"), EncodeString(""), EncodeBinary(nil))), 4, C, "malformed"},
		{"CONNECT client id longer than body", RawPacket(0x10, connectBody("MQTT", 4, 2, []byte{0, 9, 'a'})), 4, C, "malformed"},
		{"v5 CONNECT request problem info 2", RawPacket(0x10, connectBody("MQTT", 5, 2, []byte{2, 0x17, 2}, EncodeString("a"))), 5, C, "malformed"},
		{"v5 CONNECT request response info 2", RawPacket(0x10, connectBody("MQTT", 5, 2, []byte{2, 0x19, 2}, EncodeString("a"))), 5, C, "malformed"},
		{"v5 CONNECT receive maximum 0", RawPacket(0x10, connectBody("MQTT", 5, 2, []byte{3, 0x21, 0, 0}, EncodeString("a"))), 5, C, "malformed"},
		{"v5 CONNECT will payload format 2", RawPacket(0x10, connectBody("MQTT", 5, 6, []byte{0}, EncodeString("a"), []byte{2, 1, 2}, EncodeString("w"), EncodeBinary(nil))), 5, C, "malformed"},

		// ---- utf8 ----
		{"topic invalid utf8", []byte{0x30, 0x04, 0, 2, 0xc3, 0x28}, 4, S, "utf8"},
		{"topic with U+0000", []byte{0x30, 0x05, 0, 3, 'a', 0, 'b'}, 4, S, "utf8"},
		{"topic with surrogate", []byte{0x30, 0x05, 0, 3, 0xed, 0xa0, 0x80}, 5, S, "utf8"},
		{"topic overlong encoding", []byte{0x30, 0x04, 0, 2, 0xc0, 0xaf}, 4, S, "utf8"},
		{"topic above U+10FFFF", []byte{0x30, 0x06, 0, 4, 0xf4, 0x90, 0x80, 0x80}, 4, S, "utf8"},
		{"topic truncated sequence", []byte{0x30, 0x03, 0, 1, 0xe2}, 4, C, "utf8"},
		{"filter invalid utf8", []byte{0x82, 0x06, 0, 1, 0, 1, 0xff, 0}, 4, C, "utf8"},
		{"unsubscribe filter invalid utf8", []byte{0xa2, 0x05, 0, 1, 0, 1, 0xff}, 4, C, "utf8"},
		{"client id invalid utf8", RawPacket(0x10, connectBody("MQTT", 4, 2, []byte{0, 1, 0xff})), 4, C, "utf8"},
		{"will topic invalid utf8", RawPacket(0x10, connectBody("MQTT", 4, 6, EncodeString("a"), []byte{0, 1, 0x80}, EncodeBinary(nil))), 4, C, "utf8"},
		{"username invalid utf8", RawPacket(0x10, connectBody("MQTT", 4, 0x82, EncodeString("a"), []byte{0, 1, 0xff})), 4, C, "utf8"},
		{"username with U+0000", RawPacket(0x10, connectBody("MQTT", 5, 0x82, []byte{0}, EncodeString("a"), []byte{0, 1, 0})), 5, C, "utf8"},
		{"reason string invalid utf8", []byte{0x40, 0x08, 0, 1, 0, 4, 0x1f, 0, 1, 0xff}, 5, S, "utf8"},
		{"user property key with U+0000", []byte{0x40, 0x0b, 0, 1, 0, 7, 0x26, 0, 1, 0, 0, 1, 'v'}, 5, S, "utf8"},
		{"user property value invalid", []byte{0x40, 0x0b, 0, 1, 0, 7, 0x26, 0, 1, 'k', 0, 1, 0xfe}, 5, S, "utf8"},
		{"content type invalid", []byte{0x30, 0x08, 0, 1, 'a', 4, 0x03, 0, 1, 0xff}, 5, S, "utf8"},

		// ---- reason-code ----
		{"v4 CONNACK code 6", []byte{0x20, 0x02, 0, 6}, 4, S, "reason-code"},
		{"v3 CONNACK code 0x80", []byte{0x20, 0x02, 0, 0x80}, 3, S, "reason-code"},
		{"v5 CONNACK code 1", []byte{0x20, 0x03, 0, 1, 0}, 5, S, "reason-code"},
		{"v5 CONNACK code 0x8B", []byte{0x20, 0x03, 0, 0x8b, 0}, 5, S, "reason-code"},
		{"v5 CONNACK code 0x8E", []byte{0x20, 0x03, 0, 0x8e, 0}, 5, S, "reason-code"},
		{"v5 CONNACK code 0x91", []byte{0x20, 0x03, 0, 0x91, 0}, 5, S, "reason-code"},
		{"v5 CONNACK code 0xA2", []byte{0x20, 0x03, 0, 0xa2, 0}, 5, S, "reason-code"},
		{"v5 PUBACK code 0x92", []byte{0x40, 0x03, 0, 1, 0x92}, 5, S, "reason-code"},
		{"v5 PUBACK code 1", []byte{0x40, 0x03, 0, 1, 1}, 5, S, "reason-code"},
		{"v5 PUBREC code 0x92", []byte{0x50, 0x03, 0, 1, 0x92}, 5, C, "reason-code"},
		{"v5 PUBREL code 0x10", []byte{0x62, 0x03, 0, 1, 0x10}, 5, S, "reason-code"},
		{"v5 PUBCOMP code 0x80", []byte{0x70, 0x04, 0, 1, 0x80, 0}, 5, S, "reason-code"},
		{"v4 SUBACK code 3", []byte{0x90, 0x03, 0, 1, 3}, 4, S, "reason-code"},
		{"v4 SUBACK code 0x87", []byte{0x90, 0x04, 0, 1, 0, 0x87}, 4, S, "reason-code"},
		{"v5 SUBACK code 0x11", []byte{0x90, 0x04, 0, 1, 0, 0x11}, 5, S, "reason-code"},
		{"v5 SUBACK code 3", []byte{0x90, 0x05, 0, 1, 0, 0, 3}, 5, S, "reason-code"},
		{"v5 UNSUBACK code 1", []byte{0xb0, 0x04, 0, 1, 0, 1}, 5, S, "reason-code"},
		{"v5 UNSUBACK code 0x97", []byte{0xb0, 0x04, 0, 1, 0, 0x97}, 5, S, "reason-code"},
		{"v5 server DISCONNECT code 0x04", []byte{0xe0, 0x01, 0x04}, 5, S, "reason-code"},
		{"v5 DISCONNECT code 0x01", []byte{0xe0, 0x01, 0x01}, 5, C, "reason-code"},
		{"v5 DISCONNECT code 0x84", []byte{0xe0, 0x02, 0x84, 0}, 5, S, "reason-code"},
		{"v5 DISCONNECT code 0x91", []byte{0xe0, 0x01, 0x91}, 5, S, "reason-code"},
		{"v5 AUTH code 0x80", []byte{0xf0, 0x02, 0x80, 0}, 5, S, "reason-code"},
		{"v5 AUTH code 0x17", []byte{0xf0, 0x01, 0x17}, 5, C, "reason-code"},

		// ---- property ----
		{"PUBLISH c2s subscription id", []byte{0x30, 0x06, 0, 1, 'a', 2, 0x0b, 1}, 5, C, "property"},
		{"PUBLISH session expiry", []byte{0x30, 0x09, 0, 1, 'a', 5, 0x11, 0, 0, 0, 1}, 5, S, "property"},
		{"PUBLISH reason string", []byte{0x30, 0x08, 0, 1, 'a', 4, 0x1f, 0, 1, 'x'}, 5, S, "property"},
		{"PUBLISH undefined property 4", []byte{0x30, 0x06, 0, 1, 'a', 2, 0x04, 1}, 5, S, "property"},
		{"PUBLISH undefined property 0", []byte{0x30, 0x06, 0, 1, 'a', 2, 0x00, 1}, 5, S, "property"},
		{"PUBLISH multi-byte property id", []byte{0x30, 0x06, 0, 1, 'a', 2, 0x81, 0x00}, 5, S, "property"},
		{"PUBLISH topic alias twice", []byte{0x30, 0x0a, 0, 1, 'a', 6, 0x23, 0, 1, 0x23, 0, 1}, 5, S, "property"},
		{"PUBLISH payload format twice", []byte{0x30, 0x08, 0, 1, 'a', 4, 1, 0, 1, 0}, 5, C, "property"},
		{"PUBLISH correlation data twice", []byte{0x30, 0x0a, 0, 1, 'a', 6, 9, 0, 0, 9, 0, 0}, 5, C, "property"},
		{"PUBACK reason string twice", []byte{0x40, 0x0c, 0, 1, 0, 8, 0x1f, 0, 1, 'x', 0x1f, 0, 1, 'y'}, 5, S, "property"},
		{"PUBACK session expiry", []byte{0x40, 0x09, 0, 1, 0, 5, 0x11, 0, 0, 0, 1}, 5, S, "property"},
		{"PUBREL subscription id", []byte{0x62, 0x06, 0, 1, 0, 2, 0x0b, 1}, 5, S, "property"},
		{"SUBSCRIBE subscription id twice", []byte{0x82, 0x0b, 0, 1, 4, 0x0b, 1, 0x0b, 2, 0, 1, 'a', 0}, 5, C, "property"},
		{"SUBSCRIBE reason string", []byte{0x82, 0x0b, 0, 1, 4, 0x1f, 0, 1, 'x', 0, 1, 'a', 0}, 5, C, "property"},
		{"UNSUBSCRIBE subscription id", []byte{0xa2, 0x08, 0, 1, 2, 0x0b, 1, 0, 1, 'a'}, 5, C, "property"},
		{"SUBACK subscription id", []byte{0x90, 0x06, 0, 1, 2, 0x0b, 1, 0}, 5, S, "property"},
		{"UNSUBACK server reference", []byte{0xb0, 0x08, 0, 1, 4, 0x1c, 0, 1, 'x', 0}, 5, S, "property"},
		{"CONNACK will delay", []byte{0x20, 0x08, 0, 0, 5, 0x18, 0, 0, 0, 1}, 5, S, "property"},
		{"CONNACK topic alias", []byte{0x20, 0x06, 0, 0, 3, 0x23, 0, 1}, 5, S, "property"},
		{"CONNACK receive maximum twice", []byte{0x20, 0x09, 0, 0, 6, 0x21, 0, 1, 0x21, 0, 1}, 5, S, "property"},
		{"CONNACK auth data without method", []byte{0x20, 0x06, 0, 0, 3, 0x16, 0, 0}, 5, S, "property"},
		{"server DISCONNECT session expiry", []byte{0xe0, 0x07, 0, 5, 0x11, 0, 0, 0, 1}, 5, S, "property"},
		{"DISCONNECT assigned client id", []byte{0xe0, 0x06, 0, 4, 0x12, 0, 1, 'x'}, 5, C, "property"},
		{"AUTH session expiry", []byte{0xf0, 0x07, 0, 5, 0x11, 0, 0, 0, 1}, 5, C, "property"},
		{"AUTH method twice", []byte{0xf0, 0x0a, 0x18, 8, 0x15, 0, 1, 'm', 0x15, 0, 1, 'm'}, 5, C, "property"},
		{"CONNECT will delay in connect properties", RawPacket(0x10, connectBody("MQTT", 5, 2, []byte{5, 0x18, 0, 0, 0, 1}, EncodeString("a"))), 5, C, "property"},
		{"CONNECT session expiry twice", RawPacket(0x10, connectBody("MQTT", 5, 2, []byte{10, 0x11, 0, 0, 0, 1, 0x11, 0, 0, 0, 1}, EncodeString("a"))), 5, C, "property"},
		{"CONNECT will props session expiry", RawPacket(0x10, connectBody("MQTT", 5, 6, []byte{0}, EncodeString("a"), []byte{5, 0x11, 0, 0, 0, 1}, EncodeString("w"), EncodeBinary(nil))), 5, C, "property"},
		{"CONNECT will props topic alias", RawPacket(0x10, connectBody("MQTT", 5, 6, []byte{0}, EncodeString("a"), []byte{3, 0x23, 0, 1}, EncodeString("w"), EncodeBinary(nil))), 5, C, "property"},

		// ---- protocol ----
		{"CONNECT protocol name MQTX", RawPacket(0x10, connectBody("MQTX", 4, 2, EncodeString("a"))), 4, C, "protocol"},
		{"CONNECT protocol name empty", RawPacket(0x10, connectBody("", 4, 2, EncodeString("a"))), 4, C, "protocol"},
		{"CONNECT protocol name lower case", RawPacket(0x10, connectBody("mqtt", 4, 2, EncodeString("a"))), 4, C, "protocol"},
		{"CONNECT protocol name invalid utf8", RawPacket(0x10, connectBody("MQT\xff", 4, 2, EncodeString("a"))), 4, C, "protocol"},
		{"CONNECT MQTT level 3", RawPacket(0x10, connectBody("MQTT", 3, 2, EncodeString("a"))), 4, C, "protocol"},
		{"CONNECT MQTT level 6", RawPacket(0x10, connectBody("MQTT", 6, 2, EncodeString("a"))), 4, C, "protocol"},
		{"CONNECT MQTT level 0", RawPacket(0x10, connectBody("MQTT", 0, 2, EncodeString("a"))), 4, C, "protocol"},
		{"CONNECT MQTT level 0x84 (bridge bit)", RawPacket(0x10, connectBody("MQTT", 0x84, 2, EncodeString("a"))), 4, C, "protocol"},
		{"CONNECT MQIsdp level 4", RawPacket(0x10, connectBody("MQIsdp", 4, 2, EncodeString("a"))), 4, C, "protocol"},
		{"CONNECT MQIsdp level 5", RawPacket(0x10, connectBody("MQIsdp", 5, 2, []byte{0}, EncodeString("a"))), 5, C, "protocol"},
		{"CONNECT reserved flag", RawPacket(0x10, connectBody("MQTT", 4, 3, EncodeString("a"))), 4, C, "protocol"},
		{"v5 CONNECT reserved flag", RawPacket(0x10, connectBody("MQTT", 5, 3, []byte{0}, EncodeString("a"))), 5, C, "protocol"},
		{"CONNECT will qos without will", RawPacket(0x10, connectBody("MQTT", 4, 0x0a, EncodeString("a"))), 4, C, "protocol"},
		{"CONNECT will retain without will", RawPacket(0x10, connectBody("MQTT", 4, 0x22, EncodeString("a"))), 4, C, "protocol"},
		{"CONNECT will qos 3", RawPacket(0x10, connectBody("MQTT", 4, 0x1e, EncodeString("a"), EncodeString("w"), EncodeBinary(nil))), 4, C, "protocol"},
		{"v4 CONNECT password without username", RawPacket(0x10, connectBody("MQTT", 4, 0x42, EncodeString("a"), EncodeBinary([]byte("p")))), 4, C, "protocol"},
		{"v3 CONNECT password without username", RawPacket(0x10, connectBody("MQIsdp", 3, 0x42, EncodeString("a"), EncodeBinary([]byte("p")))), 3, C, "protocol"},
	}
	for _, c := range cases {
		p, n, err := Decode(c.b, c.ver, c.dir)
		de, ok := err.(*DecodeError)
		if err == nil || !ok {
			t.Errorf("%s: want %s error, got %v (packet %v, n=%d)", c.name, c.class, err, p, n)
			continue
		}
		if de.Class != c.class {
			t.Errorf("%s: want class %s, got %v", c.name, c.class, err)
		}
		if IsIncomplete(err) {
			t.Errorf("%s: unexpectedly incomplete: %v", c.name, err)
		}
		if de.Error() == "" || de.Msg == "" {
			t.Errorf("%s: empty message", c.name)
		}
		// DecodeAll stops with the same error and keeps the packets before it.
		pre := []byte{0xd0, 0x00}
		if c.dir == ClientToServer {
			pre = []byte{0xc0, 0x00}
		}
		pk, rest, err2 := DecodeAll(cat(pre, c.b), c.ver, c.dir)
		if err2 == nil || err2.Error() != err.Error() || len(pk) != 1 || !bytes.Equal(rest, c.b) {
			t.Errorf("%s: DecodeAll: pkts=%d rest=% x err=%v", c.name, len(pk), rest, err2)
		}
	}
}

// Things the strict decoder must accept even though they look unusual.
func TestAcceptedEdgeCases(t *testing.T) {
	S, C := ServerToClient, ClientToServer
	cases := []struct {
		name string
		b    []byte
		ver  byte
		dir  Direction
	}{
		{"v5 CONNECT password without username", RawPacket(0x10, connectBody("MQTT", 5, 0x42, []byte{0}, EncodeString("a"), EncodeBinary([]byte("p")))), 5, C},
		{"v4 CONNECT decoded on a connection announced as v5", RawPacket(0x10, connectBody("MQTT", 4, 2, EncodeString("a"))), 5, C},
		{"v5 CONNECT decoded with version 4", RawPacket(0x10, connectBody("MQTT", 5, 2, []byte{0}, EncodeString("a"))), 4, C},
		{"CONNECT empty client id, clean session 0", RawPacket(0x10, connectBody("MQTT", 4, 0, EncodeString(""))), 4, C},
		{"AUTH with reason code only", []byte{0xf0, 0x01, 0x18}, 5, S},
		{"v5 PUBLISH empty topic with alias", []byte{0x30, 0x06, 0, 0, 3, 0x23, 0, 1}, 5, S},
		{"v5 PUBLISH non-minimal property length", []byte{0x30, 0x05, 0, 1, 'a', 0x80, 0x00}, 5, S},
		{"PUBLISH topic with BOM and control characters", []byte{0x30, 0x07, 0, 5, 0xef, 0xbb, 0xbf, 0x01, 0x7f}, 4, S},
		{"user property repeated with empty strings", []byte{0x40, 0x0e, 0, 1, 0, 10, 0x26, 0, 0, 0, 0, 0x26, 0, 0, 0, 0}, 5, S},
		{"SUBSCRIBE filter with odd wildcard placement (topic syntax is not the codec's business)", []byte{0x82, 0x08, 0, 1, 0, 3, 'a', '#', 'b', 0}, 4, C},
		{"v5 DISCONNECT client may send server codes", []byte{0xe0, 0x01, 0x8b}, 5, C},
	}
	for _, c := range cases {
		if p, n, err := Decode(c.b, c.ver, c.dir); err != nil || n != len(c.b) || p == nil {
			t.Errorf("%s: n=%d err=%v", c.name, n, err)
		}
	}
	p, _, _ := Decode(RawPacket(0x10, connectBody("MQTT", 4, 2, EncodeString("a"))), 5, C)
	if p.Version != 4 || p.Level != 4 {
		t.Errorf("CONNECT version from level: %v", p)
	}
	p, _, _ = Decode(RawPacket(0x10, connectBody("MQIsdp", 3, 2, EncodeString("a"))), 4, C)
	if p.Version != 3 {
		t.Errorf("CONNECT version from level 3: %v", p)
	}
	// the partially decoded CONNECT accompanies a protocol error
	p, _, err := Decode(RawPacket(0x10, connectBody("MQTT", 4, 0x0b, EncodeString("a"))), 4, C)
	if err == nil || p == nil || !p.ReservedFlag || p.WillQoS != 1 || p.WillFlag {
		t.Errorf("partial CONNECT: %v %v", p, err)
	}
}

func TestDecodeAll(t *testing.T) {
	var stream []byte
	var want []*Packet
	for _, ex := range examples() {
		if ex.p.Version != 5 || ex.p.Type == CONNECT {
			continue
		}
		for _, d := range ex.dirs {
			if d == ServerToClient {
				stream = append(stream, Encode(ex.p, Style{PropOrder: uint32(len(want))})...)
				want = append(want, ex.p)
			}
		}
	}
	got, rest, err := DecodeAll(stream, 5, ServerToClient)
	if err != nil || len(rest) != 0 || len(got) != len(want) {
		t.Fatalf("DecodeAll: %d/%d packets, rest %d, err %v", len(got), len(want), len(rest), err)
	}
	for i := range want {
		if d := Diff(want[i], got[i]); d != "" {
			t.Errorf("packet %d: %s", i, d)
		}
	}
	// every cut point: complete packets before, incomplete rest, no error
	for cut := 0; cut <= len(stream); cut++ {
		got, rest, err := DecodeAll(stream[:cut], 5, ServerToClient)
		if err != nil {
			t.Fatalf("cut %d: %v", cut, err)
		}
		if len(got) > len(want) {
			t.Fatalf("cut %d: %d packets", cut, len(got))
		}
		if !bytes.Equal(rest, stream[cut-len(rest):cut]) {
			t.Fatalf("cut %d: rest is not the tail", cut)
		}
		if len(rest) > 0 {
			if _, _, err := Decode(rest, 5, ServerToClient); !IsIncomplete(err) {
				t.Fatalf("cut %d: rest not incomplete: %v", cut, err)
			}
		}
	}
	if got, rest, err := DecodeAll(nil, 4, ServerToClient); err != nil || len(got) != 0 || len(rest) != 0 {
		t.Errorf("DecodeAll(nil): %v %v %v", got, rest, err)
	}
}
