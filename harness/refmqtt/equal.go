package refmqtt

import (
	"bytes"
	"fmt"
	"strings"
)

// Equal reports whether a and b are the same abstract packet (see Diff).
func Equal(a, b *Packet) bool { return Diff(a, b) == "" }

type differ struct{ out []string }

func (d *differ) add(name string, a, b any) {
	d.out = append(d.out, fmt.Sprintf("%s: %v != %v", name, a, b))
}

func diffVal[T comparable](d *differ, name string, a, b T) {
	if a != b {
		d.add(name, a, b)
	}
}

// diffPtr: optional scalar property, compared by presence and value.
func diffPtr[T comparable](d *differ, name string, a, b *T) {
	switch {
	case a == nil && b == nil:
	case a == nil:
		d.add(name, "<absent>", *b)
	case b == nil:
		d.add(name, *a, "<absent>")
	case *a != *b:
		d.add(name, *a, *b)
	}
}

// diffBytes: nil and empty are the same.
func diffBytes(d *differ, name string, a, b []byte) {
	if !bytes.Equal(a, b) {
		d.add(name, showBytes(a), showBytes(b))
	}
}

// diffOptBytes: nil (absent) differs from empty (present with length 0).
func diffOptBytes(d *differ, name string, a, b []byte) {
	show := func(x []byte) string {
		if x == nil {
			return "<absent>"
		}
		return showBytes(x)
	}
	if (a == nil) != (b == nil) || !bytes.Equal(a, b) {
		d.add(name, show(a), show(b))
	}
}

func diffProps(d *differ, pre string, a, b *Props) {
	diffPtr(d, pre+"PayloadFormat", a.PayloadFormat, b.PayloadFormat)
	diffPtr(d, pre+"MessageExpiry", a.MessageExpiry, b.MessageExpiry)
	diffPtr(d, pre+"ContentType", a.ContentType, b.ContentType)
	diffPtr(d, pre+"ResponseTopic", a.ResponseTopic, b.ResponseTopic)
	diffOptBytes(d, pre+"CorrelationData", a.CorrelationData, b.CorrelationData)
	if len(a.SubscriptionIDs) != len(b.SubscriptionIDs) {
		d.add(pre+"SubscriptionIDs", a.SubscriptionIDs, b.SubscriptionIDs)
	} else {
		for i := range a.SubscriptionIDs {
			if a.SubscriptionIDs[i] != b.SubscriptionIDs[i] {
				d.add(pre+"SubscriptionIDs", a.SubscriptionIDs, b.SubscriptionIDs)
				break
			}
		}
	}
	diffPtr(d, pre+"SessionExpiry", a.SessionExpiry, b.SessionExpiry)
	diffPtr(d, pre+"AssignedClientID", a.AssignedClientID, b.AssignedClientID)
	diffPtr(d, pre+"ServerKeepAlive", a.ServerKeepAlive, b.ServerKeepAlive)
	diffPtr(d, pre+"AuthMethod", a.AuthMethod, b.AuthMethod)
	diffOptBytes(d, pre+"AuthData", a.AuthData, b.AuthData)
	diffPtr(d, pre+"RequestProblemInfo", a.RequestProblemInfo, b.RequestProblemInfo)
	diffPtr(d, pre+"WillDelay", a.WillDelay, b.WillDelay)
	diffPtr(d, pre+"RequestRespInfo", a.RequestRespInfo, b.RequestRespInfo)
	diffPtr(d, pre+"ResponseInfo", a.ResponseInfo, b.ResponseInfo)
	diffPtr(d, pre+"ServerReference", a.ServerReference, b.ServerReference)
	diffPtr(d, pre+"ReasonString", a.ReasonString, b.ReasonString)
	diffPtr(d, pre+"ReceiveMaximum", a.ReceiveMaximum, b.ReceiveMaximum)
	diffPtr(d, pre+"TopicAliasMaximum", a.TopicAliasMaximum, b.TopicAliasMaximum)
	diffPtr(d, pre+"TopicAlias", a.TopicAlias, b.TopicAlias)
	diffPtr(d, pre+"MaximumQoS", a.MaximumQoS, b.MaximumQoS)
	diffPtr(d, pre+"RetainAvailable", a.RetainAvailable, b.RetainAvailable)
	if len(a.User) != len(b.User) {
		d.add(pre+"User", a.User, b.User)
	} else {
		for i := range a.User {
			if a.User[i] != b.User[i] {
				d.add(pre+"User", a.User, b.User)
				break
			}
		}
	}
	diffPtr(d, pre+"MaximumPacketSize", a.MaximumPacketSize, b.MaximumPacketSize)
	diffPtr(d, pre+"WildcardSubAvail", a.WildcardSubAvail, b.WildcardSubAvail)
	diffPtr(d, pre+"SubIDAvail", a.SubIDAvail, b.SubIDAvail)
	diffPtr(d, pre+"SharedSubAvail", a.SharedSubAvail, b.SharedSubAvail)
}

// EqualProps reports whether two property sets are semantically equal (same rules as Equal).
func EqualProps(a, b *Props) bool {
	if a == nil {
		a = &Props{}
	}
	if b == nil {
		b = &Props{}
	}
	var d differ
	diffProps(&d, "", a, b)
	return len(d.out) == 0
}

// Diff describes the semantic differences between two abstract packets; it is empty when they are equal.
// nil and empty are equal for Payload, WillPayload, Username, Password, ReasonCodes, Filters, Props.User and
// Props.SubscriptionIDs; for CorrelationData and AuthData nil means "absent" and differs from "present, empty".
// Optional scalar properties compare by presence and value. The order of user properties and of subscription
// identifiers matters.
func Diff(a, b *Packet) string {
	if a == nil && b == nil {
		return ""
	}
	if a == nil || b == nil {
		return fmt.Sprintf("packet: %v != %v", a, b)
	}
	d := &differ{}
	if a.Type != b.Type {
		d.add("Type", TypeName(a.Type), TypeName(b.Type))
	}
	diffVal(d, "Version", a.Version, b.Version)
	diffVal(d, "Dup", a.Dup, b.Dup)
	diffVal(d, "QoS", a.QoS, b.QoS)
	diffVal(d, "Retain", a.Retain, b.Retain)
	diffVal(d, "PacketID", a.PacketID, b.PacketID)
	diffVal(d, "ProtocolName", a.ProtocolName, b.ProtocolName)
	diffVal(d, "Level", a.Level, b.Level)
	diffVal(d, "CleanStart", a.CleanStart, b.CleanStart)
	diffVal(d, "ReservedFlag", a.ReservedFlag, b.ReservedFlag)
	diffVal(d, "KeepAlive", a.KeepAlive, b.KeepAlive)
	diffVal(d, "ClientID", a.ClientID, b.ClientID)
	diffVal(d, "WillFlag", a.WillFlag, b.WillFlag)
	diffVal(d, "WillQoS", a.WillQoS, b.WillQoS)
	diffVal(d, "WillRetain", a.WillRetain, b.WillRetain)
	diffVal(d, "WillTopic", a.WillTopic, b.WillTopic)
	diffBytes(d, "WillPayload", a.WillPayload, b.WillPayload)
	diffProps(d, "WillProps.", &a.WillProps, &b.WillProps)
	diffVal(d, "UsernameFlag", a.UsernameFlag, b.UsernameFlag)
	diffVal(d, "PasswordFlag", a.PasswordFlag, b.PasswordFlag)
	diffBytes(d, "Username", a.Username, b.Username)
	diffBytes(d, "Password", a.Password, b.Password)
	diffVal(d, "SessionPresent", a.SessionPresent, b.SessionPresent)
	if a.ReasonCode != b.ReasonCode {
		d.add("ReasonCode", hex1(a.ReasonCode), hex1(b.ReasonCode))
	}
	if !bytes.Equal(a.ReasonCodes, b.ReasonCodes) {
		d.add("ReasonCodes", showCodes(a.ReasonCodes), showCodes(b.ReasonCodes))
	}
	diffVal(d, "Topic", a.Topic, b.Topic)
	diffBytes(d, "Payload", a.Payload, b.Payload)
	if len(a.Filters) != len(b.Filters) {
		d.add("Filters", a.Filters, b.Filters)
	} else {
		for i := range a.Filters {
			if a.Filters[i] != b.Filters[i] {
				d.add(fmt.Sprintf("Filters[%d]", i), a.Filters[i], b.Filters[i])
			}
		}
	}
	diffProps(d, "Props.", &a.Props, &b.Props)
	return strings.Join(d.out, "; ")
}
