// Package refmqtt is an independent MQTT 3.1 / 3.1.1 / 5.0 codec written from the OASIS specification text.
// It shares no code with github.com/mochi-mqtt/server/v2/packets and must never import it: it is the oracle
// for what the broker writes (strict decoder) and the generator of everything a client may legally send
// (encoder with selectable encoding style), and also of deliberately malformed input (raw helpers).
package refmqtt

// Packet types.
const (
	CONNECT     byte = 1
	CONNACK     byte = 2
	PUBLISH     byte = 3
	PUBACK      byte = 4
	PUBREC      byte = 5
	PUBREL      byte = 6
	PUBCOMP     byte = 7
	SUBSCRIBE   byte = 8
	SUBACK      byte = 9
	UNSUBSCRIBE byte = 10
	UNSUBACK    byte = 11
	PINGREQ     byte = 12
	PINGRESP    byte = 13
	DISCONNECT  byte = 14
	AUTH        byte = 15
)

// Direction of a packet on the wire; the strict decoder only accepts packet types legal for the direction.
type Direction int

const (
	ServerToClient Direction = iota
	ClientToServer
)

// Property identifiers (MQTT 5 §2.2.2.2).
const (
	PPayloadFormat      byte = 1
	PMessageExpiry      byte = 2
	PContentType        byte = 3
	PResponseTopic      byte = 8
	PCorrelationData    byte = 9
	PSubscriptionID     byte = 11
	PSessionExpiry      byte = 17
	PAssignedClientID   byte = 18
	PServerKeepAlive    byte = 19
	PAuthMethod         byte = 21
	PAuthData           byte = 22
	PRequestProblemInfo byte = 23
	PWillDelay          byte = 24
	PRequestRespInfo    byte = 25
	PResponseInfo       byte = 26
	PServerReference    byte = 28
	PReasonString       byte = 31
	PReceiveMaximum     byte = 33
	PTopicAliasMaximum  byte = 34
	PTopicAlias         byte = 35
	PMaximumQoS         byte = 36
	PRetainAvailable    byte = 37
	PUserProperty       byte = 38
	PMaximumPacketSize  byte = 39
	PWildcardSubAvail   byte = 40
	PSubIDAvail         byte = 41
	PSharedSubAvail     byte = 42
)

// KV is one user property.
type KV struct {
	K string `json:"k"`
	V string `json:"v"`
}

// Props is a property set. A nil pointer / nil slice means "property absent". JSON-serialisable so that
// generated cases can be saved as replay files.
type Props struct {
	PayloadFormat      *byte    `json:"pf,omitempty"`
	MessageExpiry      *uint32  `json:"me,omitempty"`
	ContentType        *string  `json:"ct,omitempty"`
	ResponseTopic      *string  `json:"rt,omitempty"`
	CorrelationData    []byte   `json:"cd,omitempty"` // nil = absent; empty non-nil = present with length 0
	SubscriptionIDs    []uint32 `json:"si,omitempty"` // one property per element
	SessionExpiry      *uint32  `json:"se,omitempty"`
	AssignedClientID   *string  `json:"aci,omitempty"`
	ServerKeepAlive    *uint16  `json:"ska,omitempty"`
	AuthMethod         *string  `json:"am,omitempty"`
	AuthData           []byte   `json:"ad,omitempty"`
	RequestProblemInfo *byte    `json:"rpi,omitempty"`
	WillDelay          *uint32  `json:"wd,omitempty"`
	RequestRespInfo    *byte    `json:"rri,omitempty"`
	ResponseInfo       *string  `json:"ri,omitempty"`
	ServerReference    *string  `json:"sr,omitempty"`
	ReasonString       *string  `json:"rs,omitempty"`
	ReceiveMaximum     *uint16  `json:"rm,omitempty"`
	TopicAliasMaximum  *uint16  `json:"tam,omitempty"`
	TopicAlias         *uint16  `json:"ta,omitempty"`
	MaximumQoS         *byte    `json:"mq,omitempty"`
	RetainAvailable    *byte    `json:"ra,omitempty"`
	User               []KV     `json:"user,omitempty"`
	MaximumPacketSize  *uint32  `json:"mps,omitempty"`
	WildcardSubAvail   *byte    `json:"wsa,omitempty"`
	SubIDAvail         *byte    `json:"sia,omitempty"`
	SharedSubAvail     *byte    `json:"ssa,omitempty"`
}

// Filter is one SUBSCRIBE / UNSUBSCRIBE entry.
type Filter struct {
	Filter  string `json:"f"`
	QoS     byte   `json:"q"`
	NoLocal bool   `json:"nl,omitempty"`
	RAP     bool   `json:"rap,omitempty"`
	RH      byte   `json:"rh,omitempty"`
}

// Packet is the abstract form of any MQTT control packet.
type Packet struct {
	Type    byte `json:"type"`
	Version byte `json:"ver"` // 3 (MQIsdp), 4 (3.1.1) or 5: the version of the connection the packet travels on

	// PUBLISH fixed-header flags
	Dup    bool `json:"dup,omitempty"`
	QoS    byte `json:"qos,omitempty"`
	Retain bool `json:"retain,omitempty"`

	PacketID uint16 `json:"pid,omitempty"`

	// CONNECT
	ProtocolName string `json:"pname,omitempty"`
	Level        byte   `json:"level,omitempty"` // protocol level byte as sent
	CleanStart   bool   `json:"clean,omitempty"`
	ReservedFlag bool   `json:"resv,omitempty"` // connect flags bit 0
	KeepAlive    uint16 `json:"ka,omitempty"`
	ClientID     string `json:"cid,omitempty"`
	WillFlag     bool   `json:"wf,omitempty"`
	WillQoS      byte   `json:"wq,omitempty"`
	WillRetain   bool   `json:"wr,omitempty"`
	WillTopic    string `json:"wt,omitempty"`
	WillPayload  []byte `json:"wp,omitempty"`
	WillProps    Props  `json:"wprops,omitempty"`
	UsernameFlag bool   `json:"uf,omitempty"`
	PasswordFlag bool   `json:"pwf,omitempty"`
	Username     []byte `json:"user,omitempty"`
	Password     []byte `json:"pass,omitempty"`

	// CONNACK
	SessionPresent bool `json:"sp,omitempty"`

	// CONNACK, PUBACK.., DISCONNECT, AUTH: single reason code (v3 CONNACK: return code)
	ReasonCode byte `json:"rc,omitempty"`
	// SUBACK, UNSUBACK
	ReasonCodes []byte `json:"rcs,omitempty"`

	// PUBLISH
	Topic   string `json:"topic,omitempty"`
	Payload []byte `json:"payload,omitempty"`

	// SUBSCRIBE, UNSUBSCRIBE
	Filters []Filter `json:"filters,omitempty"`

	Props Props `json:"props,omitempty"`
}

// Style selects one of the encodings the specification permits for the same abstract packet.
type Style struct {
	// OmitReasonCode: for v5 PUBACK/PUBREC/PUBREL/PUBCOMP (remaining length 2) and DISCONNECT (remaining length 0)
	// leave out reason code and property length when the reason code is 0 and there are no properties.
	// For AUTH: remaining length 0 when reason 0 and no properties.
	OmitReasonCode bool `json:"orc,omitempty"`
	// OmitPropLen: for v5 PUBACK.. (remaining length 3), DISCONNECT (remaining length 1): leave out the property
	// length when there are no properties but the reason code is written.
	OmitPropLen bool `json:"opl,omitempty"`
	// PropOrder: when non-empty, a seed for a deterministic permutation of the encoded property order
	// (user properties keep their relative order, subscription identifiers too, but they are interleaved).
	PropOrder uint32 `json:"po,omitempty"`
}

// DecodeError classifies what the strict decoder objected to, so that callers can separate framing problems
// from disagreements about reason-code / property whitelists.
type DecodeError struct {
	Class string // "framing", "flags", "malformed", "utf8", "direction", "reason-code", "property", "protocol"
	Msg   string
}

func (e *DecodeError) Error() string { return e.Class + ": " + e.Msg }
