package refmqtt

// The encoder. It never validates: it serialises exactly what the abstract packet says, so that it can produce both
// every legal encoding (selected by Style) and deliberately illegal packets (QoS 3, packet id 0, reserved flags, ...).

// EncodeVBI encodes v as a Variable Byte Integer using the minimum number of bytes (MQTT 5 §1.5.5, MQTT 3.1.1 §2.2.3).
// Values above 268 435 455 do not fit the 4 bytes the specification allows and yield 5 bytes (hostile input only).
func EncodeVBI(v uint32) []byte {
	var out []byte
	for {
		d := byte(v % 128)
		v /= 128
		if v > 0 {
			d |= 0x80
		}
		out = append(out, d)
		if v == 0 {
			return out
		}
	}
}

// RawPacket returns firstByte, the minimal encoding of len(body) as remaining length, and body.
func RawPacket(firstByte byte, body []byte) []byte {
	return RawPacketLen(firstByte, uint32(len(body)), body)
}

// RawPacketLen is like RawPacket but declares declaredRemaining as the remaining length whatever len(body) is.
func RawPacketLen(firstByte byte, declaredRemaining uint32, body []byte) []byte {
	out := []byte{firstByte}
	out = append(out, EncodeVBI(declaredRemaining)...)
	return append(out, body...)
}

// EncodeString returns the two byte big-endian length of s followed by its bytes (MQTT 5 §1.5.4). The length is
// truncated to 16 bits when s is longer than 65 535 bytes; the bytes are written in full.
func EncodeString(s string) []byte {
	out := make([]byte, 0, 2+len(s))
	out = append(out, byte(len(s)>>8), byte(len(s)))
	return append(out, s...)
}

// EncodeBinary returns the two byte big-endian length of b followed by b (MQTT 5 §1.5.6).
func EncodeBinary(b []byte) []byte {
	out := make([]byte, 0, 2+len(b))
	out = append(out, byte(len(b)>>8), byte(len(b)))
	return append(out, b...)
}

func u16(v uint16) []byte { return []byte{byte(v >> 8), byte(v)} }

func u32(v uint32) []byte { return []byte{byte(v >> 24), byte(v >> 16), byte(v >> 8), byte(v)} }

// propEntry is one encoded property: identifier followed by its value.
type propEntry struct {
	id   byte
	data []byte
}

// propEntries lists the properties present in pr in canonical order: ascending identifier, user properties last.
// Every subscription identifier and every user property is an entry of its own.
func propEntries(pr *Props) []propEntry {
	var es []propEntry
	add := func(id byte, val []byte) {
		es = append(es, propEntry{id: id, data: append([]byte{id}, val...)})
	}
	addByte := func(id byte, v *byte) {
		if v != nil {
			add(id, []byte{*v})
		}
	}
	addU16 := func(id byte, v *uint16) {
		if v != nil {
			add(id, u16(*v))
		}
	}
	addU32 := func(id byte, v *uint32) {
		if v != nil {
			add(id, u32(*v))
		}
	}
	addStr := func(id byte, v *string) {
		if v != nil {
			add(id, EncodeString(*v))
		}
	}
	addBin := func(id byte, v []byte) {
		if v != nil {
			add(id, EncodeBinary(v))
		}
	}
	addByte(PPayloadFormat, pr.PayloadFormat)    // 1
	addU32(PMessageExpiry, pr.MessageExpiry)     // 2
	addStr(PContentType, pr.ContentType)         // 3
	addStr(PResponseTopic, pr.ResponseTopic)     // 8
	addBin(PCorrelationData, pr.CorrelationData) // 9
	for _, id := range pr.SubscriptionIDs {      // 11
		add(PSubscriptionID, EncodeVBI(id))
	}
	addU32(PSessionExpiry, pr.SessionExpiry)            // 17
	addStr(PAssignedClientID, pr.AssignedClientID)      // 18
	addU16(PServerKeepAlive, pr.ServerKeepAlive)        // 19
	addStr(PAuthMethod, pr.AuthMethod)                  // 21
	addBin(PAuthData, pr.AuthData)                      // 22
	addByte(PRequestProblemInfo, pr.RequestProblemInfo) // 23
	addU32(PWillDelay, pr.WillDelay)                    // 24
	addByte(PRequestRespInfo, pr.RequestRespInfo)       // 25
	addStr(PResponseInfo, pr.ResponseInfo)              // 26
	addStr(PServerReference, pr.ServerReference)        // 28
	addStr(PReasonString, pr.ReasonString)              // 31
	addU16(PReceiveMaximum, pr.ReceiveMaximum)          // 33
	addU16(PTopicAliasMaximum, pr.TopicAliasMaximum)    // 34
	addU16(PTopicAlias, pr.TopicAlias)                  // 35
	addByte(PMaximumQoS, pr.MaximumQoS)                 // 36
	addByte(PRetainAvailable, pr.RetainAvailable)       // 37
	addU32(PMaximumPacketSize, pr.MaximumPacketSize)    // 39
	addByte(PWildcardSubAvail, pr.WildcardSubAvail)     // 40
	addByte(PSubIDAvail, pr.SubIDAvail)                 // 41
	addByte(PSharedSubAvail, pr.SharedSubAvail)         // 42
	for _, kv := range pr.User {                        // 38, last
		add(PUserProperty, append(EncodeString(kv.K), EncodeString(kv.V)...))
	}
	return es
}

// IsEmpty reports whether no property at all is present in pr.
func (pr *Props) IsEmpty() bool { return pr == nil || len(propEntries(pr)) == 0 }

// splitmix64 is a tiny self-contained generator so that property permutations do not depend on the Go release.
type splitmix64 uint64

func (s *splitmix64) next() uint64 {
	*s += 0x9e3779b97f4a7c15
	z := uint64(*s)
	z = (z ^ (z >> 30)) * 0xbf58476d1ce4e5b9
	z = (z ^ (z >> 27)) * 0x94d049bb133111eb
	return z ^ (z >> 31)
}

// permuteEntries shuffles es deterministically from seed; afterwards the user properties (and likewise the
// subscription identifiers) are put back into their original relative order on the positions their kind occupies.
func permuteEntries(es []propEntry, seed uint32) []propEntry {
	out := make([]propEntry, len(es))
	copy(out, es)
	rng := splitmix64(uint64(seed)<<32 | uint64(seed))
	for i := len(out) - 1; i > 0; i-- {
		j := int(rng.next() % uint64(i+1))
		out[i], out[j] = out[j], out[i]
	}
	for _, id := range []byte{PUserProperty, PSubscriptionID} {
		var orig []propEntry
		for _, e := range es {
			if e.id == id {
				orig = append(orig, e)
			}
		}
		k := 0
		for i := range out {
			if out[i].id == id {
				out[i] = orig[k]
				k++
			}
		}
	}
	return out
}

// EncodeProps returns the encoded properties of pr WITHOUT the property length prefix. order == 0 selects the
// canonical order, any other value a deterministic permutation (see Style.PropOrder).
func EncodeProps(pr *Props, order uint32) []byte {
	if pr == nil {
		return []byte{}
	}
	es := propEntries(pr)
	if order != 0 {
		es = permuteEntries(es, order)
	}
	out := []byte{}
	for _, e := range es {
		out = append(out, e.data...)
	}
	return out
}

// appendProps appends property length and properties.
func appendProps(body []byte, pr *Props, order uint32) []byte {
	pb := EncodeProps(pr, order)
	body = append(body, EncodeVBI(uint32(len(pb)))...)
	return append(body, pb...)
}

// appendReasonTail appends [reason code [property length, properties]] of a v5 PUBACK-like packet or DISCONNECT,
// honouring the style bits where the specification allows the shorter form (MQTT 5 §3.4.2.1, §3.4.2.2.1, §3.14.2.1,
// §3.14.2.2.1).
func appendReasonTail(body []byte, p *Packet, st Style, allowOmitPropLen bool) []byte {
	empty := p.Props.IsEmpty()
	if st.OmitReasonCode && p.ReasonCode == 0 && empty {
		return body
	}
	body = append(body, p.ReasonCode)
	if allowOmitPropLen && st.OmitPropLen && empty {
		return body
	}
	return appendProps(body, &p.Props, st.PropOrder)
}

func b2b(b bool, bit uint) byte {
	if b {
		return 1 << bit
	}
	return 0
}

func encodeConnect(p *Packet, st Style) []byte {
	v5 := p.Level == 5
	body := EncodeString(p.ProtocolName)
	body = append(body, p.Level)
	flags := b2b(p.ReservedFlag, 0) | b2b(p.CleanStart, 1) | b2b(p.WillFlag, 2) | (p.WillQoS&3)<<3 |
		b2b(p.WillRetain, 5) | b2b(p.PasswordFlag, 6) | b2b(p.UsernameFlag, 7)
	body = append(body, flags)
	body = append(body, u16(p.KeepAlive)...)
	if v5 {
		body = appendProps(body, &p.Props, st.PropOrder)
	}
	body = append(body, EncodeString(p.ClientID)...)
	if p.WillFlag {
		if v5 {
			body = appendProps(body, &p.WillProps, st.PropOrder)
		}
		body = append(body, EncodeString(p.WillTopic)...)
		body = append(body, EncodeBinary(p.WillPayload)...)
	}
	// A set flag with a nil field writes no bytes at all (a truncated CONNECT, for hostile input); a set flag with an
	// empty non-nil field writes a zero length.
	if p.UsernameFlag && p.Username != nil {
		body = append(body, EncodeBinary(p.Username)...)
	}
	if p.PasswordFlag && p.Password != nil {
		body = append(body, EncodeBinary(p.Password)...)
	}
	return body
}

// Encode serialises p for a connection of version p.Version (CONNECT: layout chosen by p.Level). No validation.
func Encode(p *Packet, st Style) []byte {
	v5 := p.Version == 5
	var flags byte
	body := []byte{}
	switch p.Type {
	case CONNECT:
		body = encodeConnect(p, st)
	case CONNACK:
		body = append(body, b2b(p.SessionPresent, 0), p.ReasonCode)
		if v5 {
			body = appendProps(body, &p.Props, st.PropOrder)
		}
	case PUBLISH:
		q := p.QoS & 3
		flags = b2b(p.Dup, 3) | q<<1 | b2b(p.Retain, 0)
		body = append(body, EncodeString(p.Topic)...)
		if q > 0 {
			body = append(body, u16(p.PacketID)...)
		}
		if v5 {
			body = appendProps(body, &p.Props, st.PropOrder)
		}
		body = append(body, p.Payload...)
	case PUBACK, PUBREC, PUBREL, PUBCOMP:
		if p.Type == PUBREL {
			flags = 2
		}
		body = append(body, u16(p.PacketID)...)
		if v5 {
			body = appendReasonTail(body, p, st, true)
		}
	case SUBSCRIBE:
		flags = 2
		body = append(body, u16(p.PacketID)...)
		if v5 {
			body = appendProps(body, &p.Props, st.PropOrder)
		}
		for _, f := range p.Filters {
			body = append(body, EncodeString(f.Filter)...)
			opt := f.QoS // deliberately not masked: out-of-range values reach the wire
			if v5 {
				opt |= b2b(f.NoLocal, 2) | b2b(f.RAP, 3) | f.RH<<4
			}
			body = append(body, opt)
		}
	case SUBACK:
		body = append(body, u16(p.PacketID)...)
		if v5 {
			body = appendProps(body, &p.Props, st.PropOrder)
		}
		body = append(body, p.ReasonCodes...)
	case UNSUBSCRIBE:
		flags = 2
		body = append(body, u16(p.PacketID)...)
		if v5 {
			body = appendProps(body, &p.Props, st.PropOrder)
		}
		for _, f := range p.Filters {
			body = append(body, EncodeString(f.Filter)...)
		}
	case UNSUBACK:
		body = append(body, u16(p.PacketID)...)
		if v5 {
			body = appendProps(body, &p.Props, st.PropOrder)
			body = append(body, p.ReasonCodes...)
		}
	case PINGREQ, PINGRESP:
	case DISCONNECT:
		if v5 {
			body = appendReasonTail(body, p, st, true)
		}
	case AUTH:
		// §3.15.2.1: only the complete omission (remaining length 0) is described for AUTH, so OmitPropLen is ignored.
		if v5 {
			body = appendReasonTail(body, p, st, false)
		}
	}
	return RawPacket(p.Type<<4|flags, body)
}
