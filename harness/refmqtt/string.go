package refmqtt

import (
	"encoding/hex"
	"fmt"
	"strconv"
	"strings"
)

func itoa(v int) string { return strconv.Itoa(v) }

func hex1(b byte) string { return fmt.Sprintf("0x%02X", b) }

var typeNames = [16]string{"RESERVED0", "CONNECT", "CONNACK", "PUBLISH", "PUBACK", "PUBREC", "PUBREL", "PUBCOMP",
	"SUBSCRIBE", "SUBACK", "UNSUBSCRIBE", "UNSUBACK", "PINGREQ", "PINGRESP", "DISCONNECT", "AUTH"}

// TypeName returns the specification's name of packet type t.
func TypeName(t byte) string {
	if int(t) < len(typeNames) {
		return typeNames[t]
	}
	return "TYPE(" + itoa(int(t)) + ")"
}

const maxShownBytes = 64

// showBytes renders b as a quoted string when it is printable ASCII, else as hex; long values are cut.
func showBytes(b []byte) string {
	cut := b
	suffix := ""
	if len(cut) > maxShownBytes {
		cut = cut[:maxShownBytes]
		suffix = "...(" + itoa(len(b)) + " bytes)"
	}
	printable := true
	for _, c := range cut {
		if c < 0x20 || c > 0x7e {
			printable = false
			break
		}
	}
	if printable {
		return strconv.Quote(string(cut)) + suffix
	}
	return "x'" + hex.EncodeToString(cut) + "'" + suffix
}

func showCodes(cs []byte) string {
	parts := make([]string, len(cs))
	for i, c := range cs {
		parts[i] = hex1(c)
	}
	return "[" + strings.Join(parts, " ") + "]"
}

func showNum[T byte | uint16 | uint32](name string, v *T, out *[]string) {
	if v != nil {
		*out = append(*out, name+"="+strconv.FormatUint(uint64(*v), 10))
	}
}

func showStr(name string, v *string, out *[]string) {
	if v != nil {
		*out = append(*out, name+"="+strconv.Quote(*v))
	}
}

// String renders the properties that are present, e.g. {topicAlias=3 user[k=v]}; "{}" when there are none.
func (pr *Props) String() string {
	if pr == nil {
		return "{}"
	}
	var o []string
	showNum("payloadFormat", pr.PayloadFormat, &o)
	showNum("messageExpiry", pr.MessageExpiry, &o)
	showStr("contentType", pr.ContentType, &o)
	showStr("responseTopic", pr.ResponseTopic, &o)
	if pr.CorrelationData != nil {
		o = append(o, "correlationData="+showBytes(pr.CorrelationData))
	}
	if len(pr.SubscriptionIDs) > 0 {
		o = append(o, "subscriptionIDs="+fmt.Sprint(pr.SubscriptionIDs))
	}
	showNum("sessionExpiry", pr.SessionExpiry, &o)
	showStr("assignedClientID", pr.AssignedClientID, &o)
	showNum("serverKeepAlive", pr.ServerKeepAlive, &o)
	showStr("authMethod", pr.AuthMethod, &o)
	if pr.AuthData != nil {
		o = append(o, "authData="+showBytes(pr.AuthData))
	}
	showNum("requestProblemInfo", pr.RequestProblemInfo, &o)
	showNum("willDelay", pr.WillDelay, &o)
	showNum("requestResponseInfo", pr.RequestRespInfo, &o)
	showStr("responseInfo", pr.ResponseInfo, &o)
	showStr("serverReference", pr.ServerReference, &o)
	showStr("reasonString", pr.ReasonString, &o)
	showNum("receiveMaximum", pr.ReceiveMaximum, &o)
	showNum("topicAliasMaximum", pr.TopicAliasMaximum, &o)
	showNum("topicAlias", pr.TopicAlias, &o)
	showNum("maximumQoS", pr.MaximumQoS, &o)
	showNum("retainAvailable", pr.RetainAvailable, &o)
	showNum("maximumPacketSize", pr.MaximumPacketSize, &o)
	showNum("wildcardSubAvailable", pr.WildcardSubAvail, &o)
	showNum("subIDAvailable", pr.SubIDAvail, &o)
	showNum("sharedSubAvailable", pr.SharedSubAvail, &o)
	if len(pr.User) > 0 {
		kvs := make([]string, len(pr.User))
		for i, kv := range pr.User {
			kvs[i] = strconv.Quote(kv.K) + "=" + strconv.Quote(kv.V)
		}
		o = append(o, "user["+strings.Join(kvs, " ")+"]")
	}
	return "{" + strings.Join(o, " ") + "}"
}

// String renders the packet on one line for failure reports and evidence samples.
func (p *Packet) String() string {
	if p == nil {
		return "<nil packet>"
	}
	o := []string{TypeName(p.Type), "v" + itoa(int(p.Version))}
	add := func(s string) { o = append(o, s) }
	flag := func(name string, b bool) {
		if b {
			add(name)
		}
	}
	pid := func() { add("pid=" + itoa(int(p.PacketID))) }
	props := func() {
		if !p.Props.IsEmpty() {
			add("props" + p.Props.String())
		}
	}
	switch p.Type {
	case CONNECT:
		add("proto=" + strconv.Quote(p.ProtocolName) + "/" + itoa(int(p.Level)))
		flag("clean", p.CleanStart)
		flag("RESERVED-FLAG", p.ReservedFlag)
		add("keepalive=" + itoa(int(p.KeepAlive)))
		add("client=" + strconv.Quote(p.ClientID))
		if p.WillFlag || p.WillQoS != 0 || p.WillRetain {
			w := "will("
			if !p.WillFlag {
				w = "will-without-flag("
			}
			w += "qos=" + itoa(int(p.WillQoS))
			if p.WillRetain {
				w += " retain"
			}
			if p.WillFlag {
				w += " topic=" + strconv.Quote(p.WillTopic) + " payload=" + showBytes(p.WillPayload)
				if !p.WillProps.IsEmpty() {
					w += " props" + p.WillProps.String()
				}
			}
			add(w + ")")
		}
		if p.UsernameFlag || p.Username != nil {
			s := "username=" + showBytes(p.Username)
			if !p.UsernameFlag {
				s += "(flag off)"
			} else if p.Username == nil {
				s = "username=<flag on, field absent>"
			}
			add(s)
		}
		if p.PasswordFlag || p.Password != nil {
			s := "password=" + showBytes(p.Password)
			if !p.PasswordFlag {
				s += "(flag off)"
			} else if p.Password == nil {
				s = "password=<flag on, field absent>"
			}
			add(s)
		}
		props()
	case CONNACK:
		flag("sessionPresent", p.SessionPresent)
		add("rc=" + hex1(p.ReasonCode))
		props()
	case PUBLISH:
		flag("dup", p.Dup)
		add("qos=" + itoa(int(p.QoS)))
		flag("retain", p.Retain)
		if p.QoS > 0 || p.PacketID != 0 {
			pid()
		}
		add("topic=" + strconv.Quote(p.Topic))
		add("payload=" + showBytes(p.Payload))
		props()
	case PUBACK, PUBREC, PUBREL, PUBCOMP:
		pid()
		if p.Version == 5 || p.ReasonCode != 0 {
			add("rc=" + hex1(p.ReasonCode))
		}
		props()
	case SUBSCRIBE, UNSUBSCRIBE:
		pid()
		fs := make([]string, len(p.Filters))
		for i, f := range p.Filters {
			s := strconv.Quote(f.Filter)
			if p.Type == SUBSCRIBE {
				s += ":q" + itoa(int(f.QoS))
				if f.NoLocal {
					s += ",nl"
				}
				if f.RAP {
					s += ",rap"
				}
				if f.RH != 0 {
					s += ",rh" + itoa(int(f.RH))
				}
			}
			fs[i] = s
		}
		add("filters[" + strings.Join(fs, " ") + "]")
		props()
	case SUBACK, UNSUBACK:
		pid()
		if p.Type == SUBACK || p.Version == 5 || len(p.ReasonCodes) > 0 {
			add("rcs=" + showCodes(p.ReasonCodes))
		}
		props()
	case DISCONNECT, AUTH:
		if p.Version == 5 || p.ReasonCode != 0 {
			add("rc=" + hex1(p.ReasonCode))
		}
		props()
	default:
		props()
	}
	return strings.Join(o, " ")
}
