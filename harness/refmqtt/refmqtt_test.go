package refmqtt

import (
	"bytes"
	"encoding/hex"
	"strings"
	"testing"
)

func ptr[T any](v T) *T { return &v }

func unhex(t testing.TB, s string) []byte {
	t.Helper()
	b, err := hex.DecodeString(strings.ReplaceAll(s, " ", ""))
	if err != nil {
		t.Fatalf("bad hex %q: %v", s, err)
	}
	return b
}

type example struct {
	name string
	p    *Packet
	dirs []Direction
}

var both = []Direction{ServerToClient, ClientToServer}
var s2c = []Direction{ServerToClient}
var c2s = []Direction{ClientToServer}

func userProps() []KV { return []KV{{"k1", "v1"}, {"k2", "v2"}, {"k1", "again"}, {"", ""}} }

// examples returns hand-written legal packets of every type for v3/v4/v5.
func examples() []example {
	var ex []example
	add := func(name string, dirs []Direction, p *Packet) { ex = append(ex, example{name, p, dirs}) }

	// ---- v3 / v4 ----
	for _, v := range []byte{3, 4} {
		name, level := "MQTT", byte(4)
		if v == 3 {
			name, level = "MQIsdp", 3
		}
		vs := "v" + itoa(int(v)) + " "
		add(vs+"CONNECT minimal", c2s, &Packet{Type: CONNECT, Version: v, ProtocolName: name, Level: level, CleanStart: true, KeepAlive: 60, ClientID: "a"})
		add(vs+"CONNECT full", c2s, &Packet{Type: CONNECT, Version: v, ProtocolName: name, Level: level, KeepAlive: 65535, ClientID: "client-é\U0001F600",
			WillFlag: true, WillQoS: 2, WillRetain: true, WillTopic: "will/t", WillPayload: []byte{0, 1, 2, 0xff},
			UsernameFlag: true, PasswordFlag: true, Username: []byte("user"), Password: []byte{0xff, 0x00}})
		add(vs+"CONNECT empty will payload, empty username", c2s, &Packet{Type: CONNECT, Version: v, ProtocolName: name, Level: level, CleanStart: true,
			ClientID: "", WillFlag: true, WillTopic: "w", WillPayload: []byte{}, UsernameFlag: true, Username: []byte{}})
		add(vs+"CONNACK ok", s2c, &Packet{Type: CONNACK, Version: v})
		add(vs+"CONNACK session present", s2c, &Packet{Type: CONNACK, Version: v, SessionPresent: true})
		add(vs+"CONNACK refused", s2c, &Packet{Type: CONNACK, Version: v, ReasonCode: 5})
		add(vs+"PUBLISH qos0", both, &Packet{Type: PUBLISH, Version: v, Topic: "a/b", Payload: []byte("hi")})
		add(vs+"PUBLISH qos0 empty payload retain", both, &Packet{Type: PUBLISH, Version: v, Topic: "a", Retain: true})
		add(vs+"PUBLISH qos1 dup", both, &Packet{Type: PUBLISH, Version: v, Topic: "$SYS/x", QoS: 1, Dup: true, PacketID: 1, Payload: bytes.Repeat([]byte{0xAB}, 200)})
		add(vs+"PUBLISH qos2", both, &Packet{Type: PUBLISH, Version: v, Topic: "/", QoS: 2, PacketID: 65535, Payload: []byte{0}})
		for _, t := range []byte{PUBACK, PUBREC, PUBREL, PUBCOMP} {
			add(vs+TypeName(t), both, &Packet{Type: t, Version: v, PacketID: 7})
		}
		add(vs+"SUBSCRIBE", c2s, &Packet{Type: SUBSCRIBE, Version: v, PacketID: 2, Filters: []Filter{{Filter: "a/#", QoS: 1}, {Filter: "+/b", QoS: 0}, {Filter: "#", QoS: 2}}})
		add(vs+"SUBACK", s2c, &Packet{Type: SUBACK, Version: v, PacketID: 2, ReasonCodes: []byte{1, 0, 2, 0x80}})
		add(vs+"UNSUBSCRIBE", c2s, &Packet{Type: UNSUBSCRIBE, Version: v, PacketID: 3, Filters: []Filter{{Filter: "a/#"}, {Filter: "b"}}})
		add(vs+"UNSUBACK", s2c, &Packet{Type: UNSUBACK, Version: v, PacketID: 3})
		add(vs+"PINGREQ", c2s, &Packet{Type: PINGREQ, Version: v})
		add(vs+"PINGRESP", s2c, &Packet{Type: PINGRESP, Version: v})
		add(vs+"DISCONNECT", c2s, &Packet{Type: DISCONNECT, Version: v})
	}

	// ---- v5 ----
	add("v5 CONNECT minimal", c2s, &Packet{Type: CONNECT, Version: 5, ProtocolName: "MQTT", Level: 5, CleanStart: true, KeepAlive: 60, ClientID: "a"})
	add("v5 CONNECT full", c2s, &Packet{Type: CONNECT, Version: 5, ProtocolName: "MQTT", Level: 5, KeepAlive: 10, ClientID: "",
		WillFlag: true, WillQoS: 1, WillTopic: "will/t", WillPayload: []byte("gone"),
		WillProps: Props{WillDelay: ptr(uint32(30)), PayloadFormat: ptr(byte(1)), MessageExpiry: ptr(uint32(1)), ContentType: ptr("text/plain"),
			ResponseTopic: ptr("r/t"), CorrelationData: []byte{}, User: userProps()},
		UsernameFlag: true, PasswordFlag: true, Username: []byte("u"), Password: []byte("p"),
		Props: Props{SessionExpiry: ptr(uint32(0xFFFFFFFF)), ReceiveMaximum: ptr(uint16(1)), MaximumPacketSize: ptr(uint32(1)), TopicAliasMaximum: ptr(uint16(0)),
			RequestRespInfo: ptr(byte(1)), RequestProblemInfo: ptr(byte(0)), AuthMethod: ptr("SCRAM"), AuthData: []byte{1, 2, 3}, User: userProps()}})
	add("v5 CONNECT password without username", c2s, &Packet{Type: CONNECT, Version: 5, ProtocolName: "MQTT", Level: 5, ClientID: "x", PasswordFlag: true, Password: []byte("secret")})
	add("v5 CONNACK minimal", s2c, &Packet{Type: CONNACK, Version: 5})
	add("v5 CONNACK all props", s2c, &Packet{Type: CONNACK, Version: 5, SessionPresent: true, Props: Props{
		SessionExpiry: ptr(uint32(10)), ReceiveMaximum: ptr(uint16(10)), MaximumQoS: ptr(byte(1)), RetainAvailable: ptr(byte(0)), MaximumPacketSize: ptr(uint32(1000)),
		AssignedClientID: ptr("assigned"), TopicAliasMaximum: ptr(uint16(5)), ReasonString: ptr("ok"), User: userProps(), WildcardSubAvail: ptr(byte(1)),
		SubIDAvail: ptr(byte(1)), SharedSubAvail: ptr(byte(0)), ServerKeepAlive: ptr(uint16(30)), ResponseInfo: ptr("resp/"), ServerReference: ptr("other:1883"),
		AuthMethod: ptr("m"), AuthData: []byte{}}})
	add("v5 CONNACK refused", s2c, &Packet{Type: CONNACK, Version: 5, ReasonCode: 0x87, Props: Props{ReasonString: ptr("no")}})
	add("v5 PUBLISH qos0", both, &Packet{Type: PUBLISH, Version: 5, Topic: "a/b", Payload: []byte("hi")})
	add("v5 PUBLISH qos1 props", both, &Packet{Type: PUBLISH, Version: 5, Topic: "a/b", QoS: 1, PacketID: 9, Retain: true, Dup: true, Payload: []byte{0xff, 0xfe},
		Props: Props{PayloadFormat: ptr(byte(0)), MessageExpiry: ptr(uint32(3600)), TopicAlias: ptr(uint16(3)), ResponseTopic: ptr("resp"),
			CorrelationData: []byte("cd"), User: userProps(), ContentType: ptr("")}})
	add("v5 PUBLISH alias only", both, &Packet{Type: PUBLISH, Version: 5, Topic: "", QoS: 2, PacketID: 10, Props: Props{TopicAlias: ptr(uint16(65535))}})
	add("v5 PUBLISH subscription ids", s2c, &Packet{Type: PUBLISH, Version: 5, Topic: "t", Payload: []byte("x"),
		Props: Props{SubscriptionIDs: []uint32{1, 268435455, 128, 1}, User: userProps(), CorrelationData: []byte{}}})
	for _, t := range []byte{PUBACK, PUBREC, PUBREL, PUBCOMP} {
		rc := byte(0x10)
		if t == PUBREL || t == PUBCOMP {
			rc = 0x92
		}
		if t == PUBREC {
			rc = 0x97
		}
		add("v5 "+TypeName(t)+" success", both, &Packet{Type: t, Version: 5, PacketID: 1})
		add("v5 "+TypeName(t)+" reason", both, &Packet{Type: t, Version: 5, PacketID: 0xABCD, ReasonCode: rc})
		add("v5 "+TypeName(t)+" props", both, &Packet{Type: t, Version: 5, PacketID: 2, Props: Props{ReasonString: ptr("why"), User: userProps()}})
		add("v5 "+TypeName(t)+" reason+props", both, &Packet{Type: t, Version: 5, PacketID: 2, ReasonCode: rc, Props: Props{User: []KV{{"a", "b"}}}})
	}
	add("v5 SUBSCRIBE", c2s, &Packet{Type: SUBSCRIBE, Version: 5, PacketID: 2, Filters: []Filter{
		{Filter: "a/#", QoS: 1, NoLocal: true}, {Filter: "+/b", RAP: true, RH: 2}, {Filter: "$share/g/t", QoS: 2, RH: 1}, {Filter: "x", QoS: 2, NoLocal: true, RAP: true, RH: 2}}})
	add("v5 SUBSCRIBE props", c2s, &Packet{Type: SUBSCRIBE, Version: 5, PacketID: 2, Filters: []Filter{{Filter: "a"}},
		Props: Props{SubscriptionIDs: []uint32{16384}, User: userProps()}})
	add("v5 SUBACK", s2c, &Packet{Type: SUBACK, Version: 5, PacketID: 2, ReasonCodes: []byte{0, 1, 2, 0x80, 0x83, 0x87, 0x8F, 0x91, 0x97, 0x9E, 0xA1, 0xA2}})
	add("v5 SUBACK props", s2c, &Packet{Type: SUBACK, Version: 5, PacketID: 2, ReasonCodes: []byte{0}, Props: Props{ReasonString: ptr("r"), User: userProps()}})
	add("v5 UNSUBSCRIBE", c2s, &Packet{Type: UNSUBSCRIBE, Version: 5, PacketID: 3, Filters: []Filter{{Filter: "a/#"}, {Filter: "b"}}, Props: Props{User: userProps()}})
	add("v5 UNSUBACK", s2c, &Packet{Type: UNSUBACK, Version: 5, PacketID: 3, ReasonCodes: []byte{0x00, 0x11, 0x80, 0x83, 0x87, 0x8F, 0x91}, Props: Props{ReasonString: ptr("")}})
	add("v5 PINGREQ", c2s, &Packet{Type: PINGREQ, Version: 5})
	add("v5 PINGRESP", s2c, &Packet{Type: PINGRESP, Version: 5})
	add("v5 DISCONNECT normal", both, &Packet{Type: DISCONNECT, Version: 5})
	add("v5 DISCONNECT with will", c2s, &Packet{Type: DISCONNECT, Version: 5, ReasonCode: 0x04})
	add("v5 DISCONNECT session expiry", c2s, &Packet{Type: DISCONNECT, Version: 5, Props: Props{SessionExpiry: ptr(uint32(60)), ReasonString: ptr("bye"), User: userProps(), ServerReference: ptr("s")}})
	add("v5 DISCONNECT server", s2c, &Packet{Type: DISCONNECT, Version: 5, ReasonCode: 0x8E, Props: Props{ReasonString: ptr("taken over"), ServerReference: ptr("s"), User: userProps()}})
	add("v5 AUTH success", both, &Packet{Type: AUTH, Version: 5})
	add("v5 AUTH continue", both, &Packet{Type: AUTH, Version: 5, ReasonCode: 0x18, Props: Props{AuthMethod: ptr("SCRAM"), AuthData: []byte{9, 8}, ReasonString: ptr("go on"), User: userProps()}})
	add("v5 AUTH reauth", c2s, &Packet{Type: AUTH, Version: 5, ReasonCode: 0x19, Props: Props{AuthMethod: ptr("SCRAM")}})
	return ex
}

var styles = []Style{
	{},
	{OmitReasonCode: true},
	{OmitPropLen: true},
	{OmitReasonCode: true, OmitPropLen: true},
	{PropOrder: 1},
	{PropOrder: 2},
	{PropOrder: 3, OmitReasonCode: true},
	{PropOrder: 0xDEADBEEF, OmitPropLen: true},
	{PropOrder: 0xFFFFFFFF, OmitReasonCode: true, OmitPropLen: true},
}

func TestRoundTrip(t *testing.T) {
	seenType := map[[2]byte]bool{}
	for _, ex := range examples() {
		seenType[[2]byte{ex.p.Version, ex.p.Type}] = true
		for _, st := range styles {
			enc := Encode(ex.p, st)
			for _, dir := range ex.dirs {
				got, n, err := Decode(enc, ex.p.Version, dir)
				if err != nil {
					t.Errorf("%s style %+v dir %d: decode error %v\n bytes %x", ex.name, st, dir, err, enc)
					continue
				}
				if n != len(enc) {
					t.Errorf("%s style %+v: consumed %d of %d", ex.name, st, n, len(enc))
				}
				if d := Diff(ex.p, got); d != "" || !Equal(ex.p, got) {
					t.Errorf("%s style %+v dir %d: round trip differs: %s\n want %v\n got  %v", ex.name, st, dir, d, ex.p, got)
				}
				// decoding with trailing bytes of a following packet must consume exactly the first packet
				got2, n2, err := Decode(append(append([]byte{}, enc...), 0xd0, 0x00), ex.p.Version, dir)
				if err != nil || n2 != len(enc) || !Equal(got, got2) {
					t.Errorf("%s: decode with following bytes: n=%d err=%v", ex.name, n2, err)
				}
				// every strict prefix is incomplete
				for cut := 0; cut < len(enc); cut++ {
					_, _, err := Decode(enc[:cut], ex.p.Version, dir)
					if !IsIncomplete(err) {
						t.Errorf("%s: prefix of %d/%d bytes: want incomplete, got %v", ex.name, cut, len(enc), err)
						break
					}
				}
			}
		}
	}
	for _, v := range []byte{3, 4, 5} {
		for ty := CONNECT; ty <= AUTH; ty++ {
			if ty == AUTH && v != 5 {
				continue
			}
			if !seenType[[2]byte{v, ty}] {
				t.Errorf("no example for v%d %s", v, TypeName(ty))
			}
		}
	}
}

func TestStyleLengths(t *testing.T) {
	cases := []struct {
		p    *Packet
		st   Style
		want string
	}{
		{&Packet{Type: PUBACK, Version: 5, PacketID: 1}, Style{}, "40 04 00 01 00 00"},
		{&Packet{Type: PUBACK, Version: 5, PacketID: 1}, Style{OmitPropLen: true}, "40 03 00 01 00"},
		{&Packet{Type: PUBACK, Version: 5, PacketID: 1}, Style{OmitReasonCode: true}, "40 02 00 01"},
		{&Packet{Type: PUBACK, Version: 5, PacketID: 1}, Style{OmitReasonCode: true, OmitPropLen: true}, "40 02 00 01"},
		{&Packet{Type: PUBACK, Version: 5, PacketID: 1, ReasonCode: 0x10}, Style{OmitReasonCode: true}, "40 04 00 01 10 00"},
		{&Packet{Type: PUBACK, Version: 5, PacketID: 1, ReasonCode: 0x10}, Style{OmitReasonCode: true, OmitPropLen: true}, "40 03 00 01 10"},
		{&Packet{Type: PUBREL, Version: 5, PacketID: 1}, Style{OmitReasonCode: true}, "62 02 00 01"},
		{&Packet{Type: PUBREL, Version: 5, PacketID: 1, ReasonCode: 0x92}, Style{OmitPropLen: true}, "62 03 00 01 92"},
		{&Packet{Type: PUBCOMP, Version: 5, PacketID: 1, Props: Props{ReasonString: ptr("x")}}, Style{OmitReasonCode: true, OmitPropLen: true}, "70 08 00 01 00 04 1f 00 01 78"},
		{&Packet{Type: PUBREC, Version: 4, PacketID: 1, ReasonCode: 0x10}, Style{}, "50 02 00 01"},
		{&Packet{Type: DISCONNECT, Version: 5}, Style{}, "e0 02 00 00"},
		{&Packet{Type: DISCONNECT, Version: 5}, Style{OmitPropLen: true}, "e0 01 00"},
		{&Packet{Type: DISCONNECT, Version: 5}, Style{OmitReasonCode: true}, "e0 00"},
		{&Packet{Type: DISCONNECT, Version: 5, ReasonCode: 4}, Style{OmitReasonCode: true, OmitPropLen: true}, "e0 01 04"},
		{&Packet{Type: DISCONNECT, Version: 5, Props: Props{SessionExpiry: ptr(uint32(60))}}, Style{OmitReasonCode: true, OmitPropLen: true}, "e0 07 00 05 11 00 00 00 3c"},
		{&Packet{Type: DISCONNECT, Version: 4, ReasonCode: 4}, Style{}, "e0 00"},
		{&Packet{Type: AUTH, Version: 5}, Style{}, "f0 02 00 00"},
		{&Packet{Type: AUTH, Version: 5}, Style{OmitPropLen: true}, "f0 02 00 00"},
		{&Packet{Type: AUTH, Version: 5}, Style{OmitReasonCode: true}, "f0 00"},
		{&Packet{Type: AUTH, Version: 5, ReasonCode: 0x18}, Style{OmitReasonCode: true, OmitPropLen: true}, "f0 02 18 00"},
	}
	for _, c := range cases {
		got := Encode(c.p, c.st)
		if !bytes.Equal(got, unhex(t, c.want)) {
			t.Errorf("%v style %+v: got % x want %s", c.p, c.st, got, c.want)
		}
	}
}

func TestKnownBytes(t *testing.T) {
	cases := []struct {
		hex string
		ver byte
		dir Direction
		p   *Packet
	}{
		{"10 0d 00 04 4d 51 54 54 04 02 00 3c 00 01 61", 4, ClientToServer,
			&Packet{Type: CONNECT, Version: 4, ProtocolName: "MQTT", Level: 4, CleanStart: true, KeepAlive: 60, ClientID: "a"}},
		{"10 0f 00 06 4d 51 49 73 64 70 03 02 00 3c 00 01 61", 3, ClientToServer,
			&Packet{Type: CONNECT, Version: 3, ProtocolName: "MQIsdp", Level: 3, CleanStart: true, KeepAlive: 60, ClientID: "a"}},
		{"10 0e 00 04 4d 51 54 54 05 02 00 3c 00 00 01 61", 5, ClientToServer,
			&Packet{Type: CONNECT, Version: 5, ProtocolName: "MQTT", Level: 5, CleanStart: true, KeepAlive: 60, ClientID: "a"}},
		// v4 CONNECT: will qos1 retain topic "w" payload "x", username "u", password "p", flags = 0x80|0x40|0x20|0x08|0x04 = 0xec
		{"10 19 00 04 4d 51 54 54 04 ec 00 00 00 01 61 00 01 77 00 01 78 00 01 75 00 01 70", 4, ClientToServer,
			&Packet{Type: CONNECT, Version: 4, ProtocolName: "MQTT", Level: 4, ClientID: "a", WillFlag: true, WillQoS: 1, WillRetain: true, WillTopic: "w",
				WillPayload: []byte("x"), UsernameFlag: true, PasswordFlag: true, Username: []byte("u"), Password: []byte("p")}},
		// v5 CONNECT with session expiry 10 and will delay 5: flags 0x06
		{"10 1f 00 04 4d 51 54 54 05 06 00 00 05 11 00 00 00 0a 00 01 61 05 18 00 00 00 05 00 01 77 00 01 78", 5, ClientToServer,
			&Packet{Type: CONNECT, Version: 5, ProtocolName: "MQTT", Level: 5, CleanStart: true, ClientID: "a", WillFlag: true, WillTopic: "w", WillPayload: []byte("x"),
				Props: Props{SessionExpiry: ptr(uint32(10))}, WillProps: Props{WillDelay: ptr(uint32(5))}}},
		{"20 02 00 00", 4, ServerToClient, &Packet{Type: CONNACK, Version: 4}},
		{"20 02 01 00", 4, ServerToClient, &Packet{Type: CONNACK, Version: 4, SessionPresent: true}},
		{"20 02 00 05", 3, ServerToClient, &Packet{Type: CONNACK, Version: 3, ReasonCode: 5}},
		{"20 03 00 00 00", 5, ServerToClient, &Packet{Type: CONNACK, Version: 5}},
		{"20 06 01 00 03 21 00 0a", 5, ServerToClient, &Packet{Type: CONNACK, Version: 5, SessionPresent: true, Props: Props{ReceiveMaximum: ptr(uint16(10))}}},
		{"30 07 00 03 61 2f 62 68 69", 4, ServerToClient, &Packet{Type: PUBLISH, Version: 4, Topic: "a/b", Payload: []byte("hi")}},
		{"3b 07 00 01 74 00 0a 78 79", 4, ClientToServer, &Packet{Type: PUBLISH, Version: 4, Topic: "t", QoS: 1, Dup: true, Retain: true, PacketID: 10, Payload: []byte("xy")}},
		{"33 07 00 01 74 00 0a 00 78", 5, ServerToClient, &Packet{Type: PUBLISH, Version: 5, Topic: "t", QoS: 1, Retain: true, PacketID: 10, Payload: []byte("x")}},
		{"30 07 00 01 74 03 23 00 05", 5, ClientToServer, &Packet{Type: PUBLISH, Version: 5, Topic: "t", Props: Props{TopicAlias: ptr(uint16(5))}}},
		// subscription identifiers 1 and 128 (80 01), user property k=v
		{"30 11 00 01 74 0c 0b 01 0b 80 01 26 00 01 6b 00 01 76 21", 5, ServerToClient,
			&Packet{Type: PUBLISH, Version: 5, Topic: "t", Payload: []byte("!"), Props: Props{SubscriptionIDs: []uint32{1, 128}, User: []KV{{"k", "v"}}}}},
		{"40 02 00 01", 4, ServerToClient, &Packet{Type: PUBACK, Version: 4, PacketID: 1}},
		{"40 02 00 01", 5, ServerToClient, &Packet{Type: PUBACK, Version: 5, PacketID: 1}},
		{"40 03 00 01 10", 5, ServerToClient, &Packet{Type: PUBACK, Version: 5, PacketID: 1, ReasonCode: 0x10}},
		{"40 04 00 01 00 00", 5, ClientToServer, &Packet{Type: PUBACK, Version: 5, PacketID: 1}},
		{"50 02 12 34", 5, ClientToServer, &Packet{Type: PUBREC, Version: 5, PacketID: 0x1234}},
		{"62 02 00 01", 5, ServerToClient, &Packet{Type: PUBREL, Version: 5, PacketID: 1}},
		{"62 02 00 01", 3, ClientToServer, &Packet{Type: PUBREL, Version: 3, PacketID: 1}},
		{"70 03 00 01 92", 5, ClientToServer, &Packet{Type: PUBCOMP, Version: 5, PacketID: 1, ReasonCode: 0x92}},
		{"82 08 00 01 00 03 61 2f 23 01", 4, ClientToServer, &Packet{Type: SUBSCRIBE, Version: 4, PacketID: 1, Filters: []Filter{{Filter: "a/#", QoS: 1}}}},
		{"82 07 00 01 00 00 01 61 2e", 5, ClientToServer, &Packet{Type: SUBSCRIBE, Version: 5, PacketID: 1, Filters: []Filter{{Filter: "a", QoS: 2, NoLocal: true, RAP: true, RH: 2}}}},
		{"82 09 00 01 02 0b 07 00 01 61 00", 5, ClientToServer, &Packet{Type: SUBSCRIBE, Version: 5, PacketID: 1, Filters: []Filter{{Filter: "a"}}, Props: Props{SubscriptionIDs: []uint32{7}}}},
		{"90 03 00 01 01", 4, ServerToClient, &Packet{Type: SUBACK, Version: 4, PacketID: 1, ReasonCodes: []byte{1}}},
		{"90 04 00 01 00 01", 5, ServerToClient, &Packet{Type: SUBACK, Version: 5, PacketID: 1, ReasonCodes: []byte{1}}},
		{"a2 05 00 01 00 01 61", 4, ClientToServer, &Packet{Type: UNSUBSCRIBE, Version: 4, PacketID: 1, Filters: []Filter{{Filter: "a"}}}},
		{"a2 06 00 01 00 00 01 61", 5, ClientToServer, &Packet{Type: UNSUBSCRIBE, Version: 5, PacketID: 1, Filters: []Filter{{Filter: "a"}}}},
		{"b0 02 00 01", 4, ServerToClient, &Packet{Type: UNSUBACK, Version: 4, PacketID: 1}},
		{"b0 04 00 01 00 11", 5, ServerToClient, &Packet{Type: UNSUBACK, Version: 5, PacketID: 1, ReasonCodes: []byte{0x11}}},
		{"c0 00", 4, ClientToServer, &Packet{Type: PINGREQ, Version: 4}},
		{"d0 00", 4, ServerToClient, &Packet{Type: PINGRESP, Version: 4}},
		{"d0 00", 5, ServerToClient, &Packet{Type: PINGRESP, Version: 5}},
		{"e0 00", 4, ClientToServer, &Packet{Type: DISCONNECT, Version: 4}},
		{"e0 00", 5, ClientToServer, &Packet{Type: DISCONNECT, Version: 5}},
		{"e0 00", 5, ServerToClient, &Packet{Type: DISCONNECT, Version: 5}},
		{"e0 01 04", 5, ClientToServer, &Packet{Type: DISCONNECT, Version: 5, ReasonCode: 4}},
		{"e0 01 8b", 5, ServerToClient, &Packet{Type: DISCONNECT, Version: 5, ReasonCode: 0x8B}},
		{"e0 07 00 05 11 00 00 00 3c", 5, ClientToServer, &Packet{Type: DISCONNECT, Version: 5, Props: Props{SessionExpiry: ptr(uint32(60))}}},
		{"f0 00", 5, ServerToClient, &Packet{Type: AUTH, Version: 5}},
		{"f0 02 18 00", 5, ClientToServer, &Packet{Type: AUTH, Version: 5, ReasonCode: 0x18}},
		{"f0 07 18 05 15 00 02 6d 31", 5, ServerToClient, &Packet{Type: AUTH, Version: 5, ReasonCode: 0x18, Props: Props{AuthMethod: ptr("m1")}}},
		// non-minimal but terminated variable byte integers are accepted (remaining length 0x82 0x00 = 2)
		{"40 82 00 00 01", 4, ServerToClient, &Packet{Type: PUBACK, Version: 4, PacketID: 1}},
	}
	for _, c := range cases {
		b := unhex(t, c.hex)
		got, n, err := Decode(b, c.ver, c.dir)
		if err != nil {
			t.Errorf("%s: %v", c.hex, err)
			continue
		}
		if n != len(b) {
			t.Errorf("%s: consumed %d", c.hex, n)
		}
		if d := Diff(c.p, got); d != "" {
			t.Errorf("%s: %s", c.hex, d)
		}
	}
	// Encoder produces exactly the canonical full forms.
	enc := []struct {
		hex string
		p   *Packet
		st  Style
	}{
		{"10 0d 00 04 4d 51 54 54 04 02 00 3c 00 01 61", &Packet{Type: CONNECT, Version: 4, ProtocolName: "MQTT", Level: 4, CleanStart: true, KeepAlive: 60, ClientID: "a"}, Style{}},
		{"10 0e 00 04 4d 51 54 54 05 02 00 3c 00 00 01 61", &Packet{Type: CONNECT, Version: 5, ProtocolName: "MQTT", Level: 5, CleanStart: true, KeepAlive: 60, ClientID: "a"}, Style{}},
		{"10 19 00 04 4d 51 54 54 04 ec 00 00 00 01 61 00 01 77 00 01 78 00 01 75 00 01 70", &Packet{Type: CONNECT, Version: 4, ProtocolName: "MQTT", Level: 4, ClientID: "a", WillFlag: true, WillQoS: 1, WillRetain: true, WillTopic: "w",
			WillPayload: []byte("x"), UsernameFlag: true, PasswordFlag: true, Username: []byte("u"), Password: []byte("p")}, Style{}},
		{"10 1f 00 04 4d 51 54 54 05 06 00 00 05 11 00 00 00 0a 00 01 61 05 18 00 00 00 05 00 01 77 00 01 78", &Packet{Type: CONNECT, Version: 5, ProtocolName: "MQTT", Level: 5, CleanStart: true, ClientID: "a", WillFlag: true, WillTopic: "w", WillPayload: []byte("x"),
			Props: Props{SessionExpiry: ptr(uint32(10))}, WillProps: Props{WillDelay: ptr(uint32(5))}}, Style{}},
		{"20 06 01 00 03 21 00 0a", &Packet{Type: CONNACK, Version: 5, SessionPresent: true, Props: Props{ReceiveMaximum: ptr(uint16(10))}}, Style{}},
		{"3b 07 00 01 74 00 0a 78 79", &Packet{Type: PUBLISH, Version: 4, Topic: "t", QoS: 1, Dup: true, Retain: true, PacketID: 10, Payload: []byte("xy")}, Style{}},
		{"30 11 00 01 74 0c 0b 01 0b 80 01 26 00 01 6b 00 01 76 21", &Packet{Type: PUBLISH, Version: 5, Topic: "t", Payload: []byte("!"), Props: Props{SubscriptionIDs: []uint32{1, 128}, User: []KV{{"k", "v"}}}}, Style{}},
		{"82 08 00 01 00 03 61 2f 23 01", &Packet{Type: SUBSCRIBE, Version: 4, PacketID: 1, Filters: []Filter{{Filter: "a/#", QoS: 1, NoLocal: true, RH: 2}}}, Style{}},
		{"82 07 00 01 00 00 01 61 2e", &Packet{Type: SUBSCRIBE, Version: 5, PacketID: 1, Filters: []Filter{{Filter: "a", QoS: 2, NoLocal: true, RAP: true, RH: 2}}}, Style{}},
		{"90 04 00 01 00 01", &Packet{Type: SUBACK, Version: 5, PacketID: 1, ReasonCodes: []byte{1}}, Style{}},
		{"a2 06 00 01 00 00 01 61", &Packet{Type: UNSUBSCRIBE, Version: 5, PacketID: 1, Filters: []Filter{{Filter: "a"}}}, Style{}},
		{"b0 02 00 01", &Packet{Type: UNSUBACK, Version: 4, PacketID: 1, ReasonCodes: []byte{0}}, Style{}},
		{"b0 04 00 01 00 11", &Packet{Type: UNSUBACK, Version: 5, PacketID: 1, ReasonCodes: []byte{0x11}}, Style{}},
		{"c0 00", &Packet{Type: PINGREQ, Version: 5}, Style{}},
		{"d0 00", &Packet{Type: PINGRESP, Version: 4}, Style{}},
		{"f0 07 18 05 15 00 02 6d 31", &Packet{Type: AUTH, Version: 5, ReasonCode: 0x18, Props: Props{AuthMethod: ptr("m1")}}, Style{}},
		// the encoder does not validate
		{"36 05 00 00 00 00 78", &Packet{Type: PUBLISH, Version: 4, QoS: 3, Payload: []byte("x")}, Style{}},
		{"10 0c 00 04 4d 51 54 54 04 9b 00 00 00 00", &Packet{Type: CONNECT, Version: 4, ProtocolName: "MQTT", Level: 4, ReservedFlag: true, CleanStart: true, WillQoS: 3, UsernameFlag: true}, Style{}},
	}
	for _, c := range enc {
		if got := Encode(c.p, c.st); !bytes.Equal(got, unhex(t, c.hex)) {
			t.Errorf("Encode(%v) = % x, want %s", c.p, got, c.hex)
		}
	}
}

func TestVBIAndRaw(t *testing.T) {
	for _, c := range []struct {
		v   uint32
		hex string
	}{{0, "00"}, {1, "01"}, {127, "7f"}, {128, "80 01"}, {16383, "ff 7f"}, {16384, "80 80 01"}, {2097151, "ff ff 7f"},
		{2097152, "80 80 80 01"}, {268435455, "ff ff ff 7f"}, {268435456, "80 80 80 80 01"}} {
		if got := EncodeVBI(c.v); !bytes.Equal(got, unhex(t, c.hex)) {
			t.Errorf("EncodeVBI(%d) = % x want %s", c.v, got, c.hex)
		}
	}
	if got := RawPacket(0xd0, nil); !bytes.Equal(got, []byte{0xd0, 0}) {
		t.Errorf("RawPacket: % x", got)
	}
	if got := RawPacket(0x30, make([]byte, 200)); len(got) != 203 || got[1] != 0xc8 || got[2] != 0x01 {
		t.Errorf("RawPacket 200: % x", got[:3])
	}
	if got := RawPacketLen(0x40, 300, []byte{0, 1}); !bytes.Equal(got, unhex(t, "40 ac 02 00 01")) {
		t.Errorf("RawPacketLen: % x", got)
	}
	if got := EncodeString("a/b"); !bytes.Equal(got, unhex(t, "00 03 61 2f 62")) {
		t.Errorf("EncodeString: % x", got)
	}
	if got := EncodeBinary(nil); !bytes.Equal(got, []byte{0, 0}) {
		t.Errorf("EncodeBinary(nil): % x", got)
	}
	if got := EncodeString(strings.Repeat("x", 300)); got[0] != 1 || got[1] != 0x2c || len(got) != 302 {
		t.Errorf("EncodeString 300: % x", got[:2])
	}
}
