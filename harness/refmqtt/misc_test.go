package refmqtt

import (
	"bytes"
	"encoding/json"
	"math/rand"
	"strings"
	"testing"
)

// splitProps cuts encoded property bytes (as produced by EncodeProps for the fixed test set) into entries using the
// strict decoder's own knowledge of value widths via a trial decode of growing prefixes.
func splitProps(t *testing.T, b []byte) [][]byte {
	t.Helper()
	var out [][]byte
	for len(b) > 0 {
		found := false
		for n := 2; n <= len(b); n++ {
			r := &reader{b: cat(EncodeVBI(uint32(n)), b[:n]), shortClass: "framing"}
			if _, de := decodeProps(r, []byte{b[0]}, true, "test"); de == nil {
				out = append(out, b[:n])
				b = b[n:]
				found = true
				break
			}
		}
		if !found {
			t.Fatalf("cannot split % x", b)
		}
	}
	return out
}

func TestPropOrder(t *testing.T) {
	pr := &Props{PayloadFormat: ptr(byte(1)), MessageExpiry: ptr(uint32(5)), ContentType: ptr("ct"), ResponseTopic: ptr("rt"), CorrelationData: []byte{1},
		SubscriptionIDs: []uint32{5, 4, 3, 2, 1}, TopicAlias: ptr(uint16(9)), User: []KV{{"a", "1"}, {"b", "2"}, {"a", "3"}, {"c", "4"}}}
	canon := EncodeProps(pr, 0)
	want := cat(
		[]byte{1, 1}, []byte{2, 0, 0, 0, 5}, []byte{3, 0, 2, 'c', 't'}, []byte{8, 0, 2, 'r', 't'}, []byte{9, 0, 1, 1},
		[]byte{11, 5, 11, 4, 11, 3, 11, 2, 11, 1}, []byte{35, 0, 9},
		[]byte{38, 0, 1, 'a', 0, 1, '1'}, []byte{38, 0, 1, 'b', 0, 1, '2'}, []byte{38, 0, 1, 'a', 0, 1, '3'}, []byte{38, 0, 1, 'c', 0, 1, '4'})
	if !bytes.Equal(canon, want) {
		t.Fatalf("canonical order:\n got % x\nwant % x", canon, want)
	}
	canonEntries := splitProps(t, canon)
	distinct := map[string]bool{}
	interleaved := false
	for seed := uint32(1); seed <= 200; seed++ {
		enc := EncodeProps(pr, seed)
		if !bytes.Equal(enc, EncodeProps(pr, seed)) {
			t.Fatalf("seed %d not deterministic", seed)
		}
		distinct[string(enc)] = true
		es := splitProps(t, enc)
		if len(es) != len(canonEntries) {
			t.Fatalf("seed %d: %d entries", seed, len(es))
		}
		// same multiset
		used := make([]bool, len(canonEntries))
		for _, e := range es {
			ok := false
			for i, c := range canonEntries {
				if !used[i] && bytes.Equal(c, e) {
					used[i], ok = true, true
					break
				}
			}
			if !ok {
				t.Fatalf("seed %d: entry % x not in canonical set", seed, e)
			}
		}
		// decoding restores the same abstract set (order of user properties and subscription ids preserved)
		p := &Packet{Type: PUBLISH, Version: 5, Topic: "t", Props: *pr}
		got, _, err := Decode(Encode(p, Style{PropOrder: seed}), 5, ServerToClient)
		if err != nil || !Equal(p, got) {
			t.Fatalf("seed %d: %v %s", seed, err, Diff(p, got))
		}
		if es[len(es)-1][0] != PUserProperty || es[0][0] != PPayloadFormat {
			interleaved = true
		}
	}
	if len(distinct) < 100 {
		t.Errorf("only %d distinct orders from 200 seeds", len(distinct))
	}
	if !interleaved {
		t.Errorf("user properties never interleaved")
	}
	if len(EncodeProps(nil, 1)) != 0 || len(EncodeProps(&Props{}, 7)) != 0 {
		t.Errorf("empty props must encode to nothing")
	}
	if !(&Props{}).IsEmpty() || (&Props{CorrelationData: []byte{}}).IsEmpty() || (&Props{User: []KV{{}}}).IsEmpty() {
		t.Errorf("IsEmpty wrong")
	}
}

func TestEqualDiff(t *testing.T) {
	base := func() *Packet {
		return &Packet{Type: PUBLISH, Version: 5, Topic: "t", QoS: 1, PacketID: 3, Payload: []byte("x"),
			Props: Props{TopicAlias: ptr(uint16(2)), User: []KV{{"a", "b"}, {"c", "d"}}, SubscriptionIDs: []uint32{1, 2}, CorrelationData: []byte{1}}}
	}
	if !Equal(base(), base()) || Diff(base(), base()) != "" {
		t.Fatalf("identical packets differ: %s", Diff(base(), base()))
	}
	if !Equal(nil, nil) || Equal(nil, base()) || Equal(base(), nil) || Diff(nil, base()) == "" {
		t.Errorf("nil handling")
	}
	// nil == empty
	a, b := &Packet{Type: SUBACK, Version: 4}, &Packet{Type: SUBACK, Version: 4, Payload: []byte{}, WillPayload: []byte{}, Username: []byte{}, Password: []byte{},
		ReasonCodes: []byte{}, Filters: []Filter{}, Props: Props{User: []KV{}, SubscriptionIDs: []uint32{}}, WillProps: Props{User: []KV{}}}
	if !Equal(a, b) || !Equal(b, a) {
		t.Errorf("nil vs empty: %s", Diff(a, b))
	}
	// nil != empty for CorrelationData / AuthData
	a, b = &Packet{Type: PUBLISH, Version: 5}, &Packet{Type: PUBLISH, Version: 5, Props: Props{CorrelationData: []byte{}}}
	if Equal(a, b) || !strings.Contains(Diff(a, b), "CorrelationData") {
		t.Errorf("CorrelationData absent vs empty: %q", Diff(a, b))
	}
	a, b = &Packet{Type: AUTH, Version: 5, Props: Props{AuthData: []byte{}}}, &Packet{Type: AUTH, Version: 5}
	if Equal(a, b) || !strings.Contains(Diff(a, b), "AuthData") {
		t.Errorf("AuthData absent vs empty: %q", Diff(a, b))
	}
	a, b = &Packet{Type: CONNECT, Level: 5, WillProps: Props{CorrelationData: []byte{}}}, &Packet{Type: CONNECT, Level: 5}
	if Equal(a, b) || !strings.Contains(Diff(a, b), "WillProps.CorrelationData") {
		t.Errorf("will CorrelationData: %q", Diff(a, b))
	}
	// every single-field mutation is detected and named
	muts := []struct {
		field string
		f     func(p *Packet)
	}{
		{"Type", func(p *Packet) { p.Type = PUBACK }},
		{"Version", func(p *Packet) { p.Version = 4 }},
		{"Dup", func(p *Packet) { p.Dup = true }},
		{"QoS", func(p *Packet) { p.QoS = 2 }},
		{"Retain", func(p *Packet) { p.Retain = true }},
		{"PacketID", func(p *Packet) { p.PacketID = 4 }},
		{"ProtocolName", func(p *Packet) { p.ProtocolName = "MQTT" }},
		{"Level", func(p *Packet) { p.Level = 4 }},
		{"CleanStart", func(p *Packet) { p.CleanStart = true }},
		{"ReservedFlag", func(p *Packet) { p.ReservedFlag = true }},
		{"KeepAlive", func(p *Packet) { p.KeepAlive = 1 }},
		{"ClientID", func(p *Packet) { p.ClientID = "c" }},
		{"WillFlag", func(p *Packet) { p.WillFlag = true }},
		{"WillQoS", func(p *Packet) { p.WillQoS = 1 }},
		{"WillRetain", func(p *Packet) { p.WillRetain = true }},
		{"WillTopic", func(p *Packet) { p.WillTopic = "w" }},
		{"WillPayload", func(p *Packet) { p.WillPayload = []byte{0} }},
		{"WillProps.WillDelay", func(p *Packet) { p.WillProps.WillDelay = ptr(uint32(0)) }},
		{"UsernameFlag", func(p *Packet) { p.UsernameFlag = true }},
		{"PasswordFlag", func(p *Packet) { p.PasswordFlag = true }},
		{"Username", func(p *Packet) { p.Username = []byte("u") }},
		{"Password", func(p *Packet) { p.Password = []byte("p") }},
		{"SessionPresent", func(p *Packet) { p.SessionPresent = true }},
		{"ReasonCode", func(p *Packet) { p.ReasonCode = 0x80 }},
		{"ReasonCodes", func(p *Packet) { p.ReasonCodes = []byte{0} }},
		{"Topic", func(p *Packet) { p.Topic = "u" }},
		{"Payload", func(p *Packet) { p.Payload = []byte("y") }},
		{"Filters", func(p *Packet) { p.Filters = []Filter{{Filter: "a"}} }},
		{"Props.PayloadFormat", func(p *Packet) { p.Props.PayloadFormat = ptr(byte(0)) }},
		{"Props.MessageExpiry", func(p *Packet) { p.Props.MessageExpiry = ptr(uint32(0)) }},
		{"Props.ContentType", func(p *Packet) { p.Props.ContentType = ptr("") }},
		{"Props.ResponseTopic", func(p *Packet) { p.Props.ResponseTopic = ptr("r") }},
		{"Props.CorrelationData", func(p *Packet) { p.Props.CorrelationData = []byte{2} }},
		{"Props.SubscriptionIDs", func(p *Packet) { p.Props.SubscriptionIDs = []uint32{2, 1} }},
		{"Props.SubscriptionIDs", func(p *Packet) { p.Props.SubscriptionIDs = []uint32{1} }},
		{"Props.SessionExpiry", func(p *Packet) { p.Props.SessionExpiry = ptr(uint32(0)) }},
		{"Props.AssignedClientID", func(p *Packet) { p.Props.AssignedClientID = ptr("") }},
		{"Props.ServerKeepAlive", func(p *Packet) { p.Props.ServerKeepAlive = ptr(uint16(0)) }},
		{"Props.AuthMethod", func(p *Packet) { p.Props.AuthMethod = ptr("") }},
		{"Props.AuthData", func(p *Packet) { p.Props.AuthData = []byte{} }},
		{"Props.RequestProblemInfo", func(p *Packet) { p.Props.RequestProblemInfo = ptr(byte(0)) }},
		{"Props.WillDelay", func(p *Packet) { p.Props.WillDelay = ptr(uint32(0)) }},
		{"Props.RequestRespInfo", func(p *Packet) { p.Props.RequestRespInfo = ptr(byte(0)) }},
		{"Props.ResponseInfo", func(p *Packet) { p.Props.ResponseInfo = ptr("") }},
		{"Props.ServerReference", func(p *Packet) { p.Props.ServerReference = ptr("") }},
		{"Props.ReasonString", func(p *Packet) { p.Props.ReasonString = ptr("") }},
		{"Props.ReceiveMaximum", func(p *Packet) { p.Props.ReceiveMaximum = ptr(uint16(0)) }},
		{"Props.TopicAliasMaximum", func(p *Packet) { p.Props.TopicAliasMaximum = ptr(uint16(0)) }},
		{"Props.TopicAlias", func(p *Packet) { p.Props.TopicAlias = ptr(uint16(3)) }},
		{"Props.TopicAlias", func(p *Packet) { p.Props.TopicAlias = nil }},
		{"Props.MaximumQoS", func(p *Packet) { p.Props.MaximumQoS = ptr(byte(0)) }},
		{"Props.RetainAvailable", func(p *Packet) { p.Props.RetainAvailable = ptr(byte(0)) }},
		{"Props.User", func(p *Packet) { p.Props.User = []KV{{"c", "d"}, {"a", "b"}} }},
		{"Props.User", func(p *Packet) { p.Props.User = nil }},
		{"Props.MaximumPacketSize", func(p *Packet) { p.Props.MaximumPacketSize = ptr(uint32(0)) }},
		{"Props.WildcardSubAvail", func(p *Packet) { p.Props.WildcardSubAvail = ptr(byte(0)) }},
		{"Props.SubIDAvail", func(p *Packet) { p.Props.SubIDAvail = ptr(byte(0)) }},
		{"Props.SharedSubAvail", func(p *Packet) { p.Props.SharedSubAvail = ptr(byte(0)) }},
	}
	for _, m := range muts {
		x := base()
		m.f(x)
		d := Diff(base(), x)
		if Equal(base(), x) || !strings.HasPrefix(d, m.field+":") && !strings.HasPrefix(d, m.field+"[") {
			t.Errorf("mutation of %s: diff %q", m.field, d)
		}
		if Diff(x, base()) == "" {
			t.Errorf("mutation of %s: not symmetric", m.field)
		}
	}
	x := base()
	x.Filters = []Filter{{Filter: "a", QoS: 1}}
	y := base()
	y.Filters = []Filter{{Filter: "a", QoS: 1, NoLocal: true}}
	if Equal(x, y) {
		t.Errorf("filter options ignored")
	}
	if !EqualProps(nil, &Props{}) || EqualProps(&Props{TopicAlias: ptr(uint16(1))}, nil) {
		t.Errorf("EqualProps nil handling")
	}
}

func TestString(t *testing.T) {
	for _, ex := range examples() {
		s := ex.p.String()
		if !strings.HasPrefix(s, TypeName(ex.p.Type)+" v") || strings.ContainsAny(s, "\n\r") {
			t.Errorf("%s: %q", ex.name, s)
		}
	}
	cases := []struct {
		p    *Packet
		want string
	}{
		{&Packet{Type: PUBLISH, Version: 5, Dup: true, QoS: 1, Retain: true, PacketID: 7, Topic: "a/b", Payload: []byte("hi"), Props: Props{TopicAlias: ptr(uint16(3)), User: []KV{{"k", "v"}}}},
			`PUBLISH v5 dup qos=1 retain pid=7 topic="a/b" payload="hi" props{topicAlias=3 user["k"="v"]}`},
		{&Packet{Type: PUBLISH, Version: 4, Topic: "t", Payload: []byte{0, 0xff}}, `PUBLISH v4 qos=0 topic="t" payload=x'00ff'`},
		{&Packet{Type: SUBACK, Version: 5, PacketID: 2, ReasonCodes: []byte{0, 0x80}}, `SUBACK v5 pid=2 rcs=[0x00 0x80]`},
		{&Packet{Type: SUBSCRIBE, Version: 5, PacketID: 2, Filters: []Filter{{Filter: "a/#", QoS: 1, NoLocal: true, RAP: true, RH: 2}, {Filter: "b"}}}, `SUBSCRIBE v5 pid=2 filters["a/#":q1,nl,rap,rh2 "b":q0]`},
		{&Packet{Type: UNSUBSCRIBE, Version: 4, PacketID: 2, Filters: []Filter{{Filter: "a"}}}, `UNSUBSCRIBE v4 pid=2 filters["a"]`},
		{&Packet{Type: CONNACK, Version: 4, SessionPresent: true}, `CONNACK v4 sessionPresent rc=0x00`},
		{&Packet{Type: PUBACK, Version: 4, PacketID: 1}, `PUBACK v4 pid=1`},
		{&Packet{Type: PUBACK, Version: 5, PacketID: 1, ReasonCode: 0x10}, `PUBACK v5 pid=1 rc=0x10`},
		{&Packet{Type: DISCONNECT, Version: 5, ReasonCode: 0x8e, Props: Props{ReasonString: ptr("x")}}, `DISCONNECT v5 rc=0x8E props{reasonString="x"}`},
		{&Packet{Type: PINGREQ, Version: 4}, `PINGREQ v4`},
		{&Packet{Type: CONNECT, Version: 4, ProtocolName: "MQTT", Level: 4, CleanStart: true, KeepAlive: 60, ClientID: "a"}, `CONNECT v4 proto="MQTT"/4 clean keepalive=60 client="a"`},
	}
	for _, c := range cases {
		if got := c.p.String(); got != c.want {
			t.Errorf("String:\n got %s\nwant %s", got, c.want)
		}
	}
	var np *Packet
	if np.String() == "" || TypeName(0) != "RESERVED0" || TypeName(15) != "AUTH" || TypeName(16) != "TYPE(16)" || TypeName(PUBREL) != "PUBREL" {
		t.Errorf("TypeName / nil String")
	}
	long := (&Packet{Type: PUBLISH, Version: 4, Topic: "t", Payload: bytes.Repeat([]byte("x"), 1000)}).String()
	if len(long) > 200 || !strings.Contains(long, "1000 bytes") {
		t.Errorf("long payload not cut: %d", len(long))
	}
}

func TestJSONReplay(t *testing.T) {
	for _, ex := range examples() {
		js, err := json.Marshal(ex.p)
		if err != nil {
			t.Fatal(err)
		}
		var back Packet
		if err := json.Unmarshal(js, &back); err != nil {
			t.Fatal(err)
		}
		// omitempty drops present-but-empty binary data, so compare modulo that
		if d := Diff(ex.p, &back); d != "" && !strings.Contains(d, "<absent>") {
			t.Errorf("%s: json round trip: %s", ex.name, d)
		}
	}
}

// mutate returns a copy of b with a few random edits.
func mutate(rng *rand.Rand, b []byte) []byte {
	out := append([]byte{}, b...)
	for k := rng.Intn(3) + 1; k > 0 && len(out) > 0; k-- {
		i := rng.Intn(len(out))
		switch rng.Intn(5) {
		case 0:
			out[i] ^= 1 << uint(rng.Intn(8))
		case 1:
			out[i] = byte(rng.Intn(256))
		case 2:
			out = append(out[:i], out[i+1:]...)
		case 3:
			out = append(out[:i], append([]byte{byte(rng.Intn(256))}, out[i:]...)...)
		case 4:
			out = out[:i]
		}
	}
	return out
}

// checkDecode runs the decoder and checks its contract on arbitrary input.
func checkDecode(t *testing.T, b []byte, ver byte, dir Direction) {
	t.Helper()
	defer func() {
		if r := recover(); r != nil {
			t.Fatalf("panic on % x (v%d dir %d): %v", b, ver, dir, r)
		}
	}()
	p, n, err := Decode(b, ver, dir)
	if err != nil {
		de, ok := err.(*DecodeError)
		if !ok || de == nil {
			t.Fatalf("% x: error of type %T", b, err)
		}
		switch de.Class {
		case "framing", "flags", "malformed", "utf8", "direction", "reason-code", "property", "protocol":
		default:
			t.Fatalf("% x: unknown class %q", b, de.Class)
		}
		if de.Class == "protocol" && (len(b) == 0 || b[0]>>4 != CONNECT) {
			t.Fatalf("% x: protocol class outside CONNECT", b)
		}
		if n < 0 || n > len(b) {
			t.Fatalf("% x: n=%d", b, n)
		}
		_ = p.String()
		_, _, _ = DecodeAll(b, ver, dir)
		return
	}
	if p == nil || n <= 0 || n > len(b) {
		t.Fatalf("% x: p=%v n=%d", b, p, n)
	}
	_ = p.String()
	// a packet the strict decoder accepts re-encodes (in every style) to something that decodes to the same packet
	for _, st := range []Style{{}, {OmitReasonCode: true, OmitPropLen: true, PropOrder: 12345}} {
		enc := Encode(p, st)
		q, m, err := Decode(enc, p.Version, dir)
		if err != nil || m != len(enc) || !Equal(p, q) {
			t.Fatalf("% x (v%d dir %d): accepted as %v but re-encoding % x gives %v err %v diff %s", b, ver, dir, p, enc, q, err, Diff(p, q))
		}
	}
	// canonical re-encoding is never longer than what was accepted, except for non-minimal integers (never shorter input)
	// (AUTH excepted: the decoder tolerates "reason code only", which the encoder never writes because §3.15 does not describe it)
	if short := Encode(p, Style{OmitReasonCode: true, OmitPropLen: true}); len(short) > n && p.Type != AUTH {
		t.Fatalf("% x: shortest encoding % x is longer than the input", b[:n], short)
	}
}

func TestNoPanicRandom(t *testing.T) {
	rng := rand.New(rand.NewSource(20260921))
	vers := []byte{3, 4, 5}
	for i := 0; i < 100000; i++ {
		b := make([]byte, rng.Intn(40))
		rng.Read(b)
		if len(b) > 1 && rng.Intn(2) == 0 {
			// make the remaining length plausible so that bodies get exercised
			b[1] = byte(len(b) - 2)
		}
		if len(b) > 0 && rng.Intn(4) == 0 {
			b[0] &= 0xf0
		}
		checkDecode(t, b, vers[rng.Intn(3)], Direction(rng.Intn(2)))
	}
}

func TestNoPanicMutated(t *testing.T) {
	rng := rand.New(rand.NewSource(42))
	var seeds []example
	for _, ex := range examples() {
		seeds = append(seeds, ex)
	}
	accepted := 0
	for i := 0; i < 100000; i++ {
		ex := seeds[rng.Intn(len(seeds))]
		enc := Encode(ex.p, styles[rng.Intn(len(styles))])
		b := mutate(rng, enc)
		if rng.Intn(3) == 0 && len(b) > 1 {
			// repair the remaining length after the edit (single byte lengths only)
			if l := len(b) - 2; l < 128 {
				b[1] = byte(l)
			}
		}
		ver := ex.p.Version
		dir := ex.dirs[rng.Intn(len(ex.dirs))]
		if rng.Intn(10) == 0 {
			ver = []byte{3, 4, 5}[rng.Intn(3)]
			dir = Direction(rng.Intn(2))
		}
		if _, _, err := Decode(b, ver, dir); err == nil {
			accepted++
		}
		checkDecode(t, b, ver, dir)
	}
	if accepted < 1000 {
		t.Errorf("only %d mutated inputs accepted; mutation too destructive to test the accept path", accepted)
	}
}

// A deterministic sweep over every first byte and small bodies, all versions and directions.
func TestNoPanicSweep(t *testing.T) {
	bodies := [][]byte{nil, {0}, {0, 0}, {0, 1}, {0, 1, 0}, {0, 1, 0, 0}, {0, 1, 'a'}, {0, 1, 'a', 0}, {0, 1, 'a', 0, 1}, {0, 1, 'a', 0, 1, 0},
		{0xff}, {0xff, 0xff}, {0xff, 0xff, 0xff, 0xff, 0xff}, {0, 4, 'M', 'Q', 'T', 'T', 5, 2, 0, 0, 0, 0, 0}, {0, 4, 'M', 'Q', 'T', 'T', 4, 2, 0, 0, 0, 0}}
	for fb := 0; fb < 256; fb++ {
		for _, body := range bodies {
			for _, ver := range []byte{0, 3, 4, 5, 6} {
				for _, dir := range []Direction{ServerToClient, ClientToServer, Direction(7)} {
					checkDecode(t, RawPacket(byte(fb), body), ver, dir)
					checkDecode(t, RawPacketLen(byte(fb), uint32(len(body)+1), body), ver, dir)
					if len(body) > 0 {
						checkDecode(t, RawPacketLen(byte(fb), uint32(len(body)-1), body), ver, dir)
					}
				}
			}
		}
	}
}
