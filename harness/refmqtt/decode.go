package refmqtt

import (
	"bytes"
	"strings"
	"unicode/utf8"
)

// The strict decoder. Section numbers refer to the OASIS MQTT Version 5.0 standard unless prefixed "3.1.1".
//
// Error classes (see DecodeError): checks are made in a fixed order so that the class reported for a given input is
// stable: packet type / direction, fixed-header flags, remaining length, then the fields of the packet in wire order,
// and last "the fields consumed the body exactly".
//
// "framing" versus "malformed" for short input inside a packet:
//   - a fixed-width field (1, 2 or 4 byte integer, including the length prefix of a string) or the first byte of a
//     variable byte integer that starts at or beyond the end of the body, or that is cut by the end of the body, is
//     "framing" (the remaining length does not cover the fields the packet type requires);
//   - a length-prefixed item (string, binary data, property section) whose declared length exceeds what is left, a
//     variable byte integer without terminating byte, and anything that does not fit inside a property section is
//     "malformed".

func derr(class, msg string) *DecodeError { return &DecodeError{Class: class, Msg: msg} }

// IsIncomplete reports whether err is the strict decoder's "more bytes needed" error.
func IsIncomplete(err error) bool {
	de, ok := err.(*DecodeError)
	return ok && de != nil && de.Class == "framing" && strings.HasPrefix(de.Msg, "incomplete")
}

// reader is a bounds-checked cursor.
type reader struct {
	b          []byte
	pos        int
	shortClass string // class reported when a fixed-width field does not fit
}

func (r *reader) left() int { return len(r.b) - r.pos }

func (r *reader) short(what string) *DecodeError {
	if r.shortClass == "framing" {
		return derr("framing", "body too short: missing "+what)
	}
	return derr(r.shortClass, "truncated "+what)
}

func (r *reader) u8(what string) (byte, *DecodeError) {
	if r.left() < 1 {
		return 0, r.short(what)
	}
	v := r.b[r.pos]
	r.pos++
	return v, nil
}

func (r *reader) u16(what string) (uint16, *DecodeError) {
	if r.left() < 2 {
		return 0, r.short(what)
	}
	v := uint16(r.b[r.pos])<<8 | uint16(r.b[r.pos+1])
	r.pos += 2
	return v, nil
}

func (r *reader) u32(what string) (uint32, *DecodeError) {
	if r.left() < 4 {
		return 0, r.short(what)
	}
	v := uint32(r.b[r.pos])<<24 | uint32(r.b[r.pos+1])<<16 | uint32(r.b[r.pos+2])<<8 | uint32(r.b[r.pos+3])
	r.pos += 4
	return v, nil
}

// vbi reads a Variable Byte Integer (§1.5.5): at most four bytes. Non-minimal encodings are accepted (the verification
// design treats minimality as a separate, non-framing matter).
func (r *reader) vbi(what string) (uint32, *DecodeError) {
	if r.left() < 1 {
		return 0, r.short(what)
	}
	var v uint32
	for i := 0; i < 4; i++ {
		if r.left() < 1 {
			return 0, derr("malformed", "truncated "+what+" (variable byte integer without final byte)")
		}
		c := r.b[r.pos]
		r.pos++
		v |= uint32(c&0x7f) << (7 * uint(i))
		if c&0x80 == 0 {
			return v, nil
		}
	}
	return 0, derr("malformed", what+": variable byte integer longer than 4 bytes")
}

// take returns a copy of the next n bytes.
func (r *reader) take(n int, what string) ([]byte, *DecodeError) {
	if n < 0 || r.left() < n {
		return nil, derr("malformed", "truncated "+what)
	}
	out := make([]byte, n)
	copy(out, r.b[r.pos:r.pos+n])
	r.pos += n
	return out, nil
}

// bin reads Binary Data (§1.5.6); the result is never nil.
func (r *reader) bin(what string) ([]byte, *DecodeError) {
	n, de := r.u16(what + " length")
	if de != nil {
		return nil, de
	}
	return r.take(int(n), what)
}

// validString implements §1.5.4 / 3.1.1 §1.5.3: well-formed UTF-8 (which excludes encodings of U+D800..U+DFFF,
// [MQTT-1.5.4-1]) and no U+0000 ([MQTT-1.5.4-2]). The "SHOULD NOT" code points (control characters, non-characters)
// are accepted.
func validString(b []byte) bool {
	return utf8.Valid(b) && bytes.IndexByte(b, 0) < 0
}

// str reads a UTF-8 Encoded String.
func (r *reader) str(what string) (string, *DecodeError) {
	b, de := r.bin(what)
	if de != nil {
		return "", de
	}
	if !validString(b) {
		return string(b), derr("utf8", what+" is not a well-formed UTF-8 string without U+0000")
	}
	return string(b), nil
}

func in(set []byte, v byte) bool { return bytes.IndexByte(set, v) >= 0 }

// ---- tables ----

// Property whitelists per packet type (§2.2.2.2 table and the per-packet property sections).
var (
	propsConnect      = []byte{17, 33, 39, 34, 25, 23, 38, 21, 22} // §3.1.2.11
	propsWill         = []byte{24, 1, 2, 3, 8, 9, 38}              // §3.1.3.2
	propsConnack      = []byte{17, 33, 36, 37, 39, 18, 34, 31, 38, 40, 41, 42, 19, 26, 28, 21, 22}
	propsPublishS2C   = []byte{1, 2, 35, 8, 9, 38, 11, 3} // §3.3.2.3
	propsPublishC2S   = []byte{1, 2, 35, 8, 9, 38, 3}     // [MQTT-3.3.4-6]: no Subscription Identifier from a client
	propsAck          = []byte{31, 38}                    // PUBACK, PUBREC, PUBREL, PUBCOMP, SUBACK, UNSUBACK
	propsSubscribe    = []byte{11, 38}                    // §3.8.2.1
	propsUnsubscribe  = []byte{38}                        // §3.10.2.1
	propsDisconnectS  = []byte{31, 38, 28}                // §3.14.2.2; 17 is client-only [MQTT-3.14.2-2]
	propsDisconnectC  = []byte{17, 31, 38, 28}
	propsAuth         = []byte{21, 22, 31, 38} // §3.15.2.2
	reasonsConnack5   = []byte{0x00, 0x80, 0x81, 0x82, 0x83, 0x84, 0x85, 0x86, 0x87, 0x88, 0x89, 0x8A, 0x8C, 0x90, 0x95, 0x97, 0x99, 0x9A, 0x9B, 0x9C, 0x9D, 0x9F}
	reasonsPubackRec  = []byte{0x00, 0x10, 0x80, 0x83, 0x87, 0x90, 0x91, 0x97, 0x99} // §3.4.2.1, §3.5.2.1
	reasonsPubrelComp = []byte{0x00, 0x92}                                           // §3.6.2.1, §3.7.2.1
	reasonsSuback34   = []byte{0x00, 0x01, 0x02, 0x80}                               // 3.1.1 §3.9.3
	reasonsSuback5    = []byte{0x00, 0x01, 0x02, 0x80, 0x83, 0x87, 0x8F, 0x91, 0x97, 0x9E, 0xA1, 0xA2}
	reasonsUnsuback5  = []byte{0x00, 0x11, 0x80, 0x83, 0x87, 0x8F, 0x91}
	reasonsDisconnS   = []byte{0x00, 0x80, 0x81, 0x82, 0x83, 0x87, 0x89, 0x8B, 0x8D, 0x8E, 0x8F, 0x90, 0x93, 0x94, 0x95, 0x96, 0x97, 0x98, 0x99, 0x9A, 0x9B, 0x9C, 0x9D, 0x9E, 0x9F, 0xA0, 0xA1, 0xA2}
	reasonsDisconnC   = append([]byte{0x04}, reasonsDisconnS...)
	reasonsAuth       = []byte{0x00, 0x18, 0x19}
)

// ---- top level ----

// Decode strictly decodes exactly one packet from the front of b for a connection of the given protocol version
// (3, 4 or 5; anything but 5 selects the 3.1/3.1.1 layout) travelling in direction dir. n is the number of bytes the
// packet occupies. On a field-level error the partially filled packet is returned together with the error.
func Decode(b []byte, version byte, dir Direction) (p *Packet, n int, err error) {
	p, n, de := decodeOne(b, version, dir)
	if de != nil {
		return p, n, de
	}
	return p, n, nil
}

// DecodeAll decodes packets until b is exhausted. An incomplete trailing packet is returned in rest with a nil
// error; any other error stops decoding and is returned with the packets decoded before it and the undecoded rest.
func DecodeAll(b []byte, version byte, dir Direction) (pkts []*Packet, rest []byte, err error) {
	rest = b
	for len(rest) > 0 {
		p, n, de := decodeOne(rest, version, dir)
		if de != nil {
			if IsIncomplete(de) {
				return pkts, rest, nil
			}
			return pkts, rest, de
		}
		pkts = append(pkts, p)
		rest = rest[n:]
	}
	return pkts, rest, nil
}

func checkDirection(t, version byte, dir Direction) *DecodeError {
	ok := false
	switch t {
	case CONNECT, SUBSCRIBE, UNSUBSCRIBE, PINGREQ:
		ok = dir == ClientToServer
	case CONNACK, SUBACK, UNSUBACK, PINGRESP:
		ok = dir == ServerToClient
	case PUBLISH, PUBACK, PUBREC, PUBREL, PUBCOMP:
		ok = dir == ClientToServer || dir == ServerToClient
	case DISCONNECT:
		// 3.1.1 §3.14: sent by the client only. 5.0 §3.14: either side.
		ok = dir == ClientToServer || (dir == ServerToClient && version == 5)
	case AUTH:
		ok = version == 5 && (dir == ClientToServer || dir == ServerToClient)
	}
	if ok {
		return nil
	}
	who := "server"
	if dir == ClientToServer {
		who = "client"
	}
	return derr("direction", TypeName(t)+" may not be sent by a "+who+" on a v"+itoa(int(version))+" connection")
}

// checkFlags: §2.1.3 table ([MQTT-2.1.3-1]); PUBLISH: [MQTT-3.3.1-4] (QoS 3), [MQTT-3.3.1-2] (DUP with QoS 0).
func checkFlags(t, fl byte) *DecodeError {
	switch t {
	case PUBLISH:
		q := (fl >> 1) & 3
		if q == 3 {
			return derr("flags", "PUBLISH with both QoS bits set")
		}
		if fl&8 != 0 && q == 0 {
			return derr("flags", "PUBLISH with DUP set and QoS 0")
		}
	case PUBREL, SUBSCRIBE, UNSUBSCRIBE:
		if fl != 2 {
			return derr("flags", TypeName(t)+" fixed-header flags must be 0010, got "+hex1(fl))
		}
	default:
		if fl != 0 {
			return derr("flags", TypeName(t)+" fixed-header flags must be 0000, got "+hex1(fl))
		}
	}
	return nil
}

func decodeOne(b []byte, version byte, dir Direction) (*Packet, int, *DecodeError) {
	if len(b) == 0 {
		return nil, 0, derr("framing", "incomplete: no fixed header")
	}
	t, fl := b[0]>>4, b[0]&0x0f
	if de := checkDirection(t, version, dir); de != nil {
		return nil, 0, de
	}
	if de := checkFlags(t, fl); de != nil {
		return nil, 0, de
	}
	// Remaining length (§2.1.4): one to four bytes.
	var rl uint32
	hn := 0
	for i := 0; ; i++ {
		if i == 4 {
			return nil, 0, derr("framing", "remaining length longer than 4 bytes")
		}
		if 1+i >= len(b) {
			return nil, 0, derr("framing", "incomplete: remaining length not terminated")
		}
		c := b[1+i]
		rl |= uint32(c&0x7f) << (7 * uint(i))
		if c&0x80 == 0 {
			hn = i + 1
			break
		}
	}
	total := 1 + hn + int(rl)
	if len(b) < total {
		return nil, 0, derr("framing", "incomplete: packet needs "+itoa(total)+" bytes, have "+itoa(len(b)))
	}
	p := &Packet{Type: t, Version: version}
	r := &reader{b: b[1+hn : total], shortClass: "framing"}
	de := decodeBody(p, r, fl, dir)
	if de == nil && r.left() != 0 {
		de = derr("framing", itoa(r.left())+" surplus bytes after the last field of "+TypeName(t))
	}
	if de != nil {
		return p, total, de
	}
	return p, total, nil
}

func decodeBody(p *Packet, r *reader, fl byte, dir Direction) *DecodeError {
	v5 := p.Version == 5
	switch p.Type {
	case CONNECT:
		return decodeConnect(p, r)
	case CONNACK:
		return decodeConnack(p, r, v5)
	case PUBLISH:
		return decodePublish(p, r, fl, v5, dir)
	case PUBACK, PUBREC:
		return decodeAck(p, r, v5, reasonsPubackRec)
	case PUBREL, PUBCOMP:
		return decodeAck(p, r, v5, reasonsPubrelComp)
	case SUBSCRIBE:
		return decodeSubscribe(p, r, v5)
	case UNSUBSCRIBE:
		return decodeUnsubscribe(p, r, v5)
	case SUBACK:
		return decodeSuback(p, r, v5)
	case UNSUBACK:
		return decodeUnsuback(p, r, v5)
	case PINGREQ, PINGRESP:
		return nil // remaining length must be 0: anything else is surplus
	case DISCONNECT:
		if !v5 {
			return nil // 3.1.1 §3.14: no variable header, no payload
		}
		if dir == ClientToServer {
			return decodeReasonTail(p, r, reasonsDisconnC, propsDisconnectC)
		}
		return decodeReasonTail(p, r, reasonsDisconnS, propsDisconnectS)
	case AUTH:
		return decodeReasonTail(p, r, reasonsAuth, propsAuth)
	}
	return derr("direction", "packet type "+itoa(int(p.Type))+" is reserved")
}

// ---- properties ----

// decodeProps reads a property length and the properties it covers (§2.2.2). allowed is the whitelist for the packet;
// repeatSubID says whether the Subscription Identifier may appear more than once (PUBLISH only).
func decodeProps(r *reader, allowed []byte, repeatSubID bool, where string) (Props, *DecodeError) {
	var out Props
	n, de := r.vbi(where + " property length")
	if de != nil {
		return out, de
	}
	if int64(n) > int64(r.left()) {
		return out, derr("malformed", "truncated "+where+" properties: length "+itoa(int(n))+" exceeds the "+itoa(r.left())+" bytes left")
	}
	pr := &reader{b: r.b[r.pos : r.pos+int(n)], shortClass: "malformed"}
	r.pos += int(n)
	var seen [256]bool
	for pr.left() > 0 {
		// The identifier is formally a variable byte integer; all defined identifiers fit one byte, so a byte with
		// the continuation bit set can only start an undefined identifier.
		id, _ := pr.u8("property identifier")
		if !in(allowed, id) {
			return out, derr("property", "property "+itoa(int(id))+" not allowed in "+where)
		}
		repeatable := id == PUserProperty || (id == PSubscriptionID && repeatSubID)
		if seen[id] && !repeatable {
			return out, derr("property", "property "+itoa(int(id))+" appears more than once in "+where)
		}
		seen[id] = true
		if de := decodeProp(&out, pr, id); de != nil {
			return out, de
		}
	}
	// §3.1.2.11.10, §3.2.2.3.18, §3.15.2.2.3: Authentication Data without Authentication Method is a protocol error.
	if out.AuthData != nil && out.AuthMethod == nil {
		return out, derr("property", "authentication data without authentication method in "+where)
	}
	return out, nil
}

func decodeProp(out *Props, pr *reader, id byte) *DecodeError {
	name := "property " + itoa(int(id))
	readBool := func(dst **byte) *DecodeError {
		v, de := pr.u8(name)
		if de != nil {
			return de
		}
		if v > 1 {
			return derr("malformed", name+" must be 0 or 1, got "+itoa(int(v)))
		}
		*dst = &v
		return nil
	}
	readU16 := func(dst **uint16, nonZero bool) *DecodeError {
		v, de := pr.u16(name)
		if de != nil {
			return de
		}
		if nonZero && v == 0 {
			return derr("malformed", name+" must not be 0")
		}
		*dst = &v
		return nil
	}
	readU32 := func(dst **uint32, nonZero bool) *DecodeError {
		v, de := pr.u32(name)
		if de != nil {
			return de
		}
		if nonZero && v == 0 {
			return derr("malformed", name+" must not be 0")
		}
		*dst = &v
		return nil
	}
	readStr := func(dst **string) *DecodeError {
		v, de := pr.str(name)
		if de != nil {
			return de
		}
		*dst = &v
		return nil
	}
	switch id {
	case PPayloadFormat: // §3.3.2.3.2
		return readBool(&out.PayloadFormat)
	case PMessageExpiry:
		return readU32(&out.MessageExpiry, false)
	case PContentType:
		return readStr(&out.ContentType)
	case PResponseTopic:
		if de := readStr(&out.ResponseTopic); de != nil {
			return de
		}
		// [MQTT-3.3.2-14]: no wildcard characters. A Topic Name, hence at least one character ([MQTT-4.7.3-1]).
		if strings.ContainsAny(*out.ResponseTopic, "+#") || *out.ResponseTopic == "" {
			return derr("malformed", "response topic is empty or contains wildcard characters")
		}
		return nil
	case PCorrelationData:
		v, de := pr.bin(name)
		if de != nil {
			return de
		}
		out.CorrelationData = v
		return nil
	case PSubscriptionID:
		v, de := pr.vbi(name)
		if de != nil {
			return de
		}
		if v == 0 { // §3.3.2.3.8, §3.8.2.1.2: 1 .. 268 435 455
			return derr("malformed", "subscription identifier 0")
		}
		out.SubscriptionIDs = append(out.SubscriptionIDs, v)
		return nil
	case PSessionExpiry:
		return readU32(&out.SessionExpiry, false)
	case PAssignedClientID:
		return readStr(&out.AssignedClientID)
	case PServerKeepAlive:
		return readU16(&out.ServerKeepAlive, false)
	case PAuthMethod:
		return readStr(&out.AuthMethod)
	case PAuthData:
		v, de := pr.bin(name)
		if de != nil {
			return de
		}
		out.AuthData = v
		return nil
	case PRequestProblemInfo: // §3.1.2.11.7
		return readBool(&out.RequestProblemInfo)
	case PWillDelay:
		return readU32(&out.WillDelay, false)
	case PRequestRespInfo: // §3.1.2.11.6
		return readBool(&out.RequestRespInfo)
	case PResponseInfo:
		return readStr(&out.ResponseInfo)
	case PServerReference:
		return readStr(&out.ServerReference)
	case PReasonString:
		return readStr(&out.ReasonString)
	case PReceiveMaximum: // §3.1.2.11.3, §3.2.2.3.3: value 0 is a protocol error
		return readU16(&out.ReceiveMaximum, true)
	case PTopicAliasMaximum:
		return readU16(&out.TopicAliasMaximum, false)
	case PTopicAlias: // [MQTT-3.3.2-8]
		return readU16(&out.TopicAlias, true)
	case PMaximumQoS: // §3.2.2.3.4: 0 or 1
		return readBool(&out.MaximumQoS)
	case PRetainAvailable:
		return readBool(&out.RetainAvailable)
	case PUserProperty:
		k, de := pr.str("user property name")
		if de != nil {
			return de
		}
		v, de := pr.str("user property value")
		if de != nil {
			return de
		}
		out.User = append(out.User, KV{K: k, V: v})
		return nil
	case PMaximumPacketSize: // §3.1.2.11.4, §3.2.2.3.6: value 0 is a protocol error
		return readU32(&out.MaximumPacketSize, true)
	case PWildcardSubAvail:
		return readBool(&out.WildcardSubAvail)
	case PSubIDAvail:
		return readBool(&out.SubIDAvail)
	case PSharedSubAvail:
		return readBool(&out.SharedSubAvail)
	}
	return derr("property", "undefined "+name)
}

// ---- packet bodies ----

// decodeConnect: §3.1 (3.1.1 §3.1). The layout follows the protocol level byte found in the packet.
func decodeConnect(p *Packet, r *reader) *DecodeError {
	name, de := r.bin("protocol name")
	if de != nil {
		return de
	}
	p.ProtocolName = string(name)
	if p.ProtocolName != "MQTT" && p.ProtocolName != "MQIsdp" {
		return derr("protocol", "protocol name is neither MQTT nor MQIsdp") // [MQTT-3.1.2-1]
	}
	if p.Level, de = r.u8("protocol level"); de != nil {
		return de
	}
	switch p.Level {
	case 5:
		p.Version = 5
	case 3:
		p.Version = 3
	default:
		p.Version = 4
	}
	if (p.ProtocolName == "MQIsdp") != (p.Level == 3) || p.Level < 3 || p.Level > 5 {
		return derr("protocol", "protocol level "+itoa(int(p.Level))+" does not go with protocol name "+p.ProtocolName)
	}
	v5 := p.Level == 5
	fl, de := r.u8("connect flags")
	if de != nil {
		return de
	}
	p.ReservedFlag = fl&0x01 != 0
	p.CleanStart = fl&0x02 != 0
	p.WillFlag = fl&0x04 != 0
	p.WillQoS = (fl >> 3) & 3
	p.WillRetain = fl&0x20 != 0
	p.PasswordFlag = fl&0x40 != 0
	p.UsernameFlag = fl&0x80 != 0
	switch {
	case p.ReservedFlag: // [MQTT-3.1.2-3]
		return derr("protocol", "connect flags: reserved bit set")
	case !p.WillFlag && p.WillQoS != 0: // [MQTT-3.1.2-11]
		return derr("protocol", "connect flags: will QoS without will flag")
	case !p.WillFlag && p.WillRetain: // [MQTT-3.1.2-13]
		return derr("protocol", "connect flags: will retain without will flag")
	case p.WillQoS == 3: // [MQTT-3.1.2-12]
		return derr("protocol", "connect flags: will QoS 3")
	case !v5 && p.PasswordFlag && !p.UsernameFlag: // 3.1.1 [MQTT-3.1.2-22]; allowed by 5.0 §3.1.2.9
		return derr("protocol", "connect flags: password flag without user name flag")
	}
	if p.KeepAlive, de = r.u16("keep alive"); de != nil {
		return de
	}
	if v5 {
		if p.Props, de = decodeProps(r, propsConnect, false, "CONNECT"); de != nil {
			return de
		}
	}
	if p.ClientID, de = r.str("client identifier"); de != nil {
		return de
	}
	if p.WillFlag {
		if v5 {
			if p.WillProps, de = decodeProps(r, propsWill, false, "will"); de != nil {
				return de
			}
		}
		if p.WillTopic, de = r.str("will topic"); de != nil {
			return de
		}
		if de = checkTopicName(p.WillTopic, "will topic"); de != nil {
			return de
		}
		if p.WillTopic == "" {
			return derr("malformed", "empty will topic")
		}
		if p.WillPayload, de = r.bin("will payload"); de != nil {
			return de
		}
	}
	if p.UsernameFlag {
		if p.Username, de = r.bin("user name"); de != nil {
			return de
		}
		if !validString(p.Username) { // the user name is a UTF-8 Encoded String [MQTT-3.1.3-12]
			return derr("utf8", "user name is not a well-formed UTF-8 string without U+0000")
		}
	}
	if p.PasswordFlag {
		if p.Password, de = r.bin("password"); de != nil {
			return de
		}
	}
	return nil
}

// checkTopicName: [MQTT-3.3.2-2], [MQTT-4.7.1-1]: no wildcard characters in a Topic Name.
func checkTopicName(t, what string) *DecodeError {
	if strings.ContainsAny(t, "+#") {
		return derr("malformed", what+" contains a wildcard character")
	}
	return nil
}

// decodeConnack: §3.2 (3.1.1 §3.2).
func decodeConnack(p *Packet, r *reader, v5 bool) *DecodeError {
	fl, de := r.u8("connect acknowledge flags")
	if de != nil {
		return de
	}
	if fl > 1 { // [MQTT-3.2.2-1]
		return derr("malformed", "connect acknowledge flags "+hex1(fl)+": reserved bits set")
	}
	p.SessionPresent = fl == 1
	if p.ReasonCode, de = r.u8("connect reason code"); de != nil {
		return de
	}
	if v5 {
		if !in(reasonsConnack5, p.ReasonCode) {
			return derr("reason-code", "CONNACK reason code "+hex1(p.ReasonCode))
		}
	} else if p.ReasonCode > 5 { // 3.1.1 §3.2.2.3 table
		return derr("reason-code", "CONNACK return code "+hex1(p.ReasonCode))
	}
	if p.SessionPresent && p.ReasonCode != 0 { // [MQTT-3.2.2-6] (3.1.1: [MQTT-3.2.2-4])
		return derr("malformed", "CONNACK session present with non-zero code "+hex1(p.ReasonCode))
	}
	if v5 {
		if p.Props, de = decodeProps(r, propsConnack, false, "CONNACK"); de != nil {
			return de
		}
	}
	return nil
}

// decodePublish: §3.3 (3.1.1 §3.3).
func decodePublish(p *Packet, r *reader, fl byte, v5 bool, dir Direction) *DecodeError {
	p.Dup = fl&8 != 0
	p.QoS = (fl >> 1) & 3
	p.Retain = fl&1 != 0
	var de *DecodeError
	if p.Topic, de = r.str("topic name"); de != nil {
		return de
	}
	if de = checkTopicName(p.Topic, "topic name"); de != nil {
		return de
	}
	if !v5 && p.Topic == "" { // [MQTT-4.7.3-1]
		return derr("malformed", "empty topic name")
	}
	if p.QoS > 0 {
		if p.PacketID, de = r.u16("packet identifier"); de != nil {
			return de
		}
		if p.PacketID == 0 { // [MQTT-2.2.1-3]
			return derr("malformed", "packet identifier 0")
		}
	}
	if v5 {
		allowed := propsPublishS2C
		if dir == ClientToServer {
			allowed = propsPublishC2S
		}
		if p.Props, de = decodeProps(r, allowed, true, "PUBLISH"); de != nil {
			return de
		}
		if p.Topic == "" && p.Props.TopicAlias == nil { // §3.3.2.1, §3.3.2.3.4
			return derr("malformed", "empty topic name without topic alias")
		}
	}
	p.Payload, _ = r.take(r.left(), "payload")
	return nil
}

// decodeAck: PUBACK, PUBREC, PUBREL, PUBCOMP (§3.4 - §3.7).
func decodeAck(p *Packet, r *reader, v5 bool, reasons []byte) *DecodeError {
	var de *DecodeError
	if p.PacketID, de = r.u16("packet identifier"); de != nil {
		return de
	}
	if p.PacketID == 0 {
		return derr("malformed", "packet identifier 0")
	}
	if !v5 {
		return nil
	}
	return decodeReasonTail(p, r, reasons, propsAck)
}

// decodeReasonTail reads the optional [reason code [property length, properties]] ending of the v5 acknowledgement
// packets, DISCONNECT and AUTH. Nothing left: reason code 0 and no properties (§3.4.2.1, §3.14.2.1, §3.15.2.1). Only
// the reason code: no properties (§3.4.2.2.1, §3.14.2.2.1: "if the remaining length is less than ..., there is no
// property length and the value of 0 is used").
func decodeReasonTail(p *Packet, r *reader, reasons, allowed []byte) *DecodeError {
	p.ReasonCode = 0
	if r.left() == 0 {
		return nil
	}
	p.ReasonCode, _ = r.u8("reason code")
	if !in(reasons, p.ReasonCode) {
		return derr("reason-code", TypeName(p.Type)+" reason code "+hex1(p.ReasonCode))
	}
	if r.left() == 0 {
		return nil
	}
	var de *DecodeError
	p.Props, de = decodeProps(r, allowed, false, TypeName(p.Type))
	return de
}

// decodeSubscribe: §3.8 (3.1.1 §3.8).
func decodeSubscribe(p *Packet, r *reader, v5 bool) *DecodeError {
	var de *DecodeError
	if p.PacketID, de = r.u16("packet identifier"); de != nil {
		return de
	}
	if p.PacketID == 0 {
		return derr("malformed", "packet identifier 0")
	}
	if v5 {
		if p.Props, de = decodeProps(r, propsSubscribe, false, "SUBSCRIBE"); de != nil {
			return de
		}
	}
	if r.left() == 0 { // [MQTT-3.8.3-2] (3.1.1: [MQTT-3.8.3-3])
		return derr("malformed", "SUBSCRIBE without topic filter")
	}
	for r.left() > 0 {
		var f Filter
		if f.Filter, de = r.str("topic filter"); de != nil {
			return de
		}
		if f.Filter == "" { // [MQTT-4.7.3-1]
			return derr("malformed", "empty topic filter")
		}
		o, de := r.u8("subscription options")
		if de != nil {
			return de
		}
		f.QoS = o & 3
		if v5 {
			f.NoLocal = o&0x04 != 0
			f.RAP = o&0x08 != 0
			f.RH = (o >> 4) & 3
			if o&0xC0 != 0 { // [MQTT-3.8.3-5]
				return derr("malformed", "subscription options "+hex1(o)+": reserved bits set")
			}
			if f.RH == 3 { // §3.8.3.1
				return derr("malformed", "subscription options "+hex1(o)+": retain handling 3")
			}
		} else if o&0xFC != 0 { // 3.1.1 [MQTT-3-8.3-4]
			return derr("malformed", "requested QoS byte "+hex1(o)+": reserved bits set")
		}
		if f.QoS == 3 {
			return derr("malformed", "subscription options "+hex1(o)+": QoS 3")
		}
		p.Filters = append(p.Filters, f)
	}
	return nil
}

// decodeUnsubscribe: §3.10 (3.1.1 §3.10).
func decodeUnsubscribe(p *Packet, r *reader, v5 bool) *DecodeError {
	var de *DecodeError
	if p.PacketID, de = r.u16("packet identifier"); de != nil {
		return de
	}
	if p.PacketID == 0 {
		return derr("malformed", "packet identifier 0")
	}
	if v5 {
		if p.Props, de = decodeProps(r, propsUnsubscribe, false, "UNSUBSCRIBE"); de != nil {
			return de
		}
	}
	if r.left() == 0 { // [MQTT-3.10.3-2]
		return derr("malformed", "UNSUBSCRIBE without topic filter")
	}
	for r.left() > 0 {
		var f Filter
		if f.Filter, de = r.str("topic filter"); de != nil {
			return de
		}
		if f.Filter == "" {
			return derr("malformed", "empty topic filter")
		}
		p.Filters = append(p.Filters, f)
	}
	return nil
}

// decodeSuback: §3.9 (3.1.1 §3.9).
func decodeSuback(p *Packet, r *reader, v5 bool) *DecodeError {
	var de *DecodeError
	if p.PacketID, de = r.u16("packet identifier"); de != nil {
		return de
	}
	if p.PacketID == 0 {
		return derr("malformed", "packet identifier 0")
	}
	reasons := reasonsSuback34
	if v5 {
		reasons = reasonsSuback5
		if p.Props, de = decodeProps(r, propsAck, false, "SUBACK"); de != nil {
			return de
		}
	}
	return decodeCodes(p, r, reasons)
}

// decodeUnsuback: §3.11 (3.1.1 §3.11: no payload).
func decodeUnsuback(p *Packet, r *reader, v5 bool) *DecodeError {
	var de *DecodeError
	if p.PacketID, de = r.u16("packet identifier"); de != nil {
		return de
	}
	if p.PacketID == 0 {
		return derr("malformed", "packet identifier 0")
	}
	if !v5 {
		return nil
	}
	if p.Props, de = decodeProps(r, propsAck, false, "UNSUBACK"); de != nil {
		return de
	}
	return decodeCodes(p, r, reasonsUnsuback5)
}

func decodeCodes(p *Packet, r *reader, reasons []byte) *DecodeError {
	if r.left() == 0 {
		return derr("malformed", TypeName(p.Type)+" without reason codes")
	}
	p.ReasonCodes, _ = r.take(r.left(), "reason codes")
	for _, c := range p.ReasonCodes {
		if !in(reasons, c) {
			return derr("reason-code", TypeName(p.Type)+" reason code "+hex1(c))
		}
	}
	return nil
}
