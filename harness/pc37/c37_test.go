// Package pc37 holds the check of property C37 (idle connections are closed after one and a half keepalive
// periods). It is a REAL-TIME check: real net.Pipe / loopback TCP connections are handed to
// Server.EstablishConnection, so the deadline semantics are the Go runtime's, not the harness's.
package pc37

import (
	"errors"
	"fmt"
	"io"
	"log/slog"
	"net"
	"os"
	"sort"
	"strings"
	"sync"
	"sync/atomic"
	"testing"
	"time"

	mqtt "github.com/mochi-mqtt/server/v2"
	"github.com/mochi-mqtt/server/v2/hooks/auth"
	"github.com/mochi-mqtt/server/v2/packets"
	"pgregory.net/rapid"
	"verif/harness/evid"
)

// ---- case ----------------------------------------------------------------------------------------------

type c37Conn struct {
	K       int    `json:"k"`                 // CONNECT keepalive, seconds (0..3)
	Ver     int    `json:"ver"`               // protocol level 4 or 5
	TCP     bool   `json:"tcp,omitempty"`     // loopback TCP instead of net.Pipe
	StartMs int    `json:"start_ms"`          // when CONNECT is sent, relative to the start of the case
	GapsMs  []int  `json:"gaps_ms,omitempty"` // gap (from the previous send) before each further packet
	Kinds   []int  `json:"kinds,omitempty"`   // per further packet: 0 PINGREQ, 1 PUBLISH QoS 0, 2 SUBSCRIBE QoS 0 to the feed topic
	Intent  string `json:"intent,omitempty"`  // what the generator meant (informational; the verdict uses measured times only)
	// Ask: the keepalive the CONNECT carries when the server overrides it. K stays the keepalive in force: an OnConnect
	// hook imposes K on this connection (State.Keepalive + ServerKeepalive, announced in the v5 CONNACK), whatever was asked
	Ask *int `json:"ask,omitempty"`
}

// c37Override imposes a server keepalive on connections whose client identifier starts with "sk<K>-".
type c37Override struct{ mqtt.HookBase }

func (h *c37Override) ID() string           { return "c37-server-keepalive" }
func (h *c37Override) Provides(b byte) bool { return b == mqtt.OnConnect }
func (h *c37Override) OnConnect(cl *mqtt.Client, pk packets.Packet) error {
	var k int
	if n, _ := fmt.Sscanf(cl.ID, "sk%d-", &k); n == 1 {
		cl.State.Keepalive = uint16(k)
		cl.State.ServerKeepalive = true
	}
	return nil
}

type c37Case struct {
	HorizonMs int       `json:"horizon_ms"`        // observation ends this long after the start of the case
	FeedMs    int       `json:"feed_ms,omitempty"` // > 0: a separate keepalive-0 publisher sends a QoS 0 message to the feed topic this often, all case long
	Conns     []c37Conn `json:"conns"`
}

const (
	c37Horizon = 8300 // ms
	c37Pad     = 70   // ms the generator stays clear of the class limits (measured gaps decide, this only keeps drops rare)
)

func c37Boundary(k int) int64 { return int64(k) * 1500 * 1000 } // 1.5 x K, in us
// c37Margin: the property quantifies over margins of at least K/4; the design fixes max(K/4, 0.4 s).
func c37Margin(k int) int64 {
	m := int64(k) * 250 * 1000
	if m < 400*1000 {
		m = 400 * 1000
	}
	return m
}

// ---- jitter measurement ---------------------------------------------------------------------------------

// c37Jitter records, per 50 ms bucket of case time, the largest scheduling delay any probe experienced in a
// span overlapping that bucket. Probes: plain sleepers (timer -> goroutine wake) and deadline canaries that
// reproduce the whole observation path (deadline timer -> blocked reader wakes -> Close -> peer reader sees EOF)
// on a private net.Pipe and a private TCP pair.
type c37Jitter struct {
	t0      time.Time
	buckets []atomic.Int64 // us
	stop    chan struct{}
	wg      sync.WaitGroup
	conns   []net.Conn
	maxAll  atomic.Int64 // largest delay recorded at or after case time sinceUs
	sinceUs int64
}

const c37BucketUs = 50 * 1000

func newC37Jitter(t0 time.Time, horizonMs int) *c37Jitter {
	n := (horizonMs+12000)*1000/c37BucketUs + 2
	return &c37Jitter{t0: t0, buckets: make([]atomic.Int64, n), stop: make(chan struct{})}
}

func (j *c37Jitter) us(t time.Time) int64 { return int64(t.Sub(j.t0) / time.Microsecond) }

// record: a delay of d us was experienced by something that should have happened at (endUs - d) and happened at endUs.
func (j *c37Jitter) record(endUs, d int64) {
	if d < 0 {
		d = 0
	}
	for endUs >= j.sinceUs {
		m := j.maxAll.Load()
		if d <= m || j.maxAll.CompareAndSwap(m, d) {
			break
		}
	}
	lo, hi := (endUs-d)/c37BucketUs, endUs/c37BucketUs
	for b := lo; b <= hi; b++ {
		if b < 0 || int(b) >= len(j.buckets) {
			continue
		}
		for {
			m := j.buckets[b].Load()
			if d <= m || j.buckets[b].CompareAndSwap(m, d) {
				break
			}
		}
	}
}

// over returns the largest delay recorded in a span overlapping [fromUs-100ms, toUs+100ms].
func (j *c37Jitter) over(fromUs, toUs int64) int64 {
	lo, hi := (fromUs-100000)/c37BucketUs, (toUs+100000)/c37BucketUs
	var m int64
	for b := lo; b <= hi; b++ {
		if b < 0 || int(b) >= len(j.buckets) {
			continue
		}
		if v := j.buckets[b].Load(); v > m {
			m = v
		}
	}
	return m
}

func (j *c37Jitter) stopped() bool {
	select {
	case <-j.stop:
		return true
	default:
		return false
	}
}

func (j *c37Jitter) start(tcp bool) {
	for i := 0; i < 4; i++ {
		j.wg.Add(1)
		go func() {
			defer j.wg.Done()
			const nap = 2 * time.Millisecond
			for !j.stopped() {
				a := time.Now()
				time.Sleep(nap)
				b := time.Now()
				j.record(j.us(b), int64((b.Sub(a)-nap)/time.Microsecond))
			}
		}()
	}
	// deadline canary on a persistent pair: read deadline fires -> blocked reader wakes -> writes one byte -> the peer's
	// blocked reader wakes. Same number of hand-overs as "deadline fires -> handler closes -> client reader sees the end".
	canary := func(srv, cli net.Conn) {
		const dl = 60 * time.Millisecond
		j.conns = append(j.conns, srv, cli)
		dues := make(chan time.Time, 2)
		j.wg.Add(2)
		go func() {
			defer j.wg.Done()
			var b [1]byte
			for !j.stopped() {
				due := time.Now().Add(dl)
				_ = srv.SetReadDeadline(due)
				if _, err := srv.Read(b[:]); !errors.Is(err, os.ErrDeadlineExceeded) {
					return
				}
				dues <- due
				_ = srv.SetWriteDeadline(time.Now().Add(3 * time.Second))
				if _, err := srv.Write([]byte{1}); err != nil {
					return
				}
			}
		}()
		go func() {
			defer j.wg.Done()
			var b [1]byte
			for {
				if _, err := cli.Read(b[:]); err != nil {
					return
				}
				seen := time.Now()
				due := <-dues
				j.record(j.us(seen), int64(seen.Sub(due)/time.Microsecond))
			}
		}()
	}
	ps, pc := net.Pipe()
	canary(ps, pc)
	if tcp {
		if ln, err := net.Listen("tcp", "127.0.0.1:0"); err == nil {
			if c, err := net.DialTimeout("tcp", ln.Addr().String(), 3*time.Second); err == nil {
				if sc, err := ln.Accept(); err == nil {
					canary(sc, c)
				} else {
					_ = c.Close()
				}
			}
			_ = ln.Close()
		}
	}
}

func (j *c37Jitter) finish() {
	close(j.stop)
	for _, c := range j.conns {
		_ = c.Close()
	}
	j.wg.Wait()
}

// ---- observation ------------------------------------------------------------------------------------------

// c37Obs is what was measured on one connection; all times are microseconds since the start of the case.
type c37Obs struct {
	B        []int64 `json:"b"`         // just before each successful write (index 0 = CONNECT)
	A        []int64 `json:"a"`         // just after it
	Close    int64   `json:"close"`     // when the client side saw the connection end (-1: not seen)
	End      int64   `json:"end"`       // when observation stopped
	Connack  int     `json:"connack"`   // reason code of the CONNACK, -1 if none arrived
	PingResp int     `json:"pingresp"`  // PINGRESP packets received
	Harness  string  `json:"harness"`   // non-empty: the harness itself failed (dial error, ...) - never a verdict
	WriteErr string  `json:"write_err"` // first failed write, if any (the write is then not in B/A)
	FeedRx   int     `json:"feed_rx"`   // PUBLISH packets received from the broker
	// FeedSilent: reads that delivered broker-to-client data later than 100 ms after the client's last packet and
	// FeedMaxGap: the longest stretch (us) without such a read between the last packet and the close / end
	FeedSilent int   `json:"feed_silent"`
	FeedMaxGap int64 `json:"feed_max_gap"`
}

func c37Connect(cn c37Conn, id string) []byte {
	var body []byte
	k := cn.K
	if cn.Ask != nil {
		k = *cn.Ask
	}
	body = append(body, 0, 4, 'M', 'Q', 'T', 'T', byte(cn.Ver), 0x02, byte(k>>8), byte(k))
	if cn.Ver == 5 {
		body = append(body, 0) // no properties
	}
	body = append(body, byte(len(id)>>8), byte(len(id)))
	body = append(body, id...)
	return append([]byte{0x10, byte(len(body))}, body...)
}

const c37FeedTopic = "c37/feed"

func c37Packet(cn c37Conn, kind int) []byte {
	if kind == 0 {
		return []byte{0xC0, 0x00}
	}
	if kind == 2 {
		body := []byte{0, 7} // packet id
		if cn.Ver == 5 {
			body = append(body, 0)
		}
		body = append(body, 0, byte(len(c37FeedTopic)))
		body = append(body, c37FeedTopic...)
		body = append(body, 0) // QoS 0
		return append([]byte{0x82, byte(len(body))}, body...)
	}
	body := []byte{0, 3, 'c', '3', '7'}
	if cn.Ver == 5 {
		body = append(body, 0)
	}
	body = append(body, 'x')
	return append([]byte{0x30, byte(len(body))}, body...)
}

type c37Env struct {
	t0      time.Time // time base of all measurements (start of the set-up phase)
	begin   time.Time // start of the scripts (after set-up and settling)
	srv     *mqtt.Server
	tcpAddr string
	horizon time.Time
	hwg     *sync.WaitGroup // broker handlers
}

// c37Dial creates the transport connection and hands the broker's end to EstablishConnection; this happens in the
// set-up phase, before any CONNECT is sent, so that handler start-up is not part of the timed behaviour.
func c37Dial(e *c37Env, cn c37Conn) (net.Conn, error) {
	if cn.TCP && e.tcpAddr != "" {
		return net.DialTimeout("tcp", e.tcpAddr, 3*time.Second) // the accept loop starts the handler
	}
	c, s := net.Pipe()
	e.hwg.Add(1)
	go func() { defer e.hwg.Done(); _ = e.srv.EstablishConnection("pipe", s) }()
	return c, nil
}

func (e *c37Env) us(t time.Time) int64 { return int64(t.Sub(e.t0) / time.Microsecond) }

func c37RunConn(e *c37Env, cn c37Conn, idx int, c net.Conn, dialErr error) (o c37Obs) {
	o.Close, o.Connack = -1, -1
	defer func() {
		if o.End == 0 {
			o.End = e.us(time.Now())
		}
	}()
	if dialErr != nil {
		o.Harness = "dial: " + dialErr.Error()
		return
	}
	defer c.Close()

	closed := make(chan struct{})
	var closeAt atomic.Int64
	var rxMu sync.Mutex
	var rx []byte
	var rxT []int64
	go func() {
		buf := make([]byte, 512)
		for {
			n, err := c.Read(buf)
			if n > 0 {
				rxMu.Lock()
				rx = append(rx, buf[:n]...)
				rxT = append(rxT, e.us(time.Now()))
				rxMu.Unlock()
			}
			if err != nil {
				closeAt.Store(e.us(time.Now()))
				close(closed)
				return
			}
		}
	}()
	isClosed := func() bool {
		select {
		case <-closed:
			return true
		default:
			return false
		}
	}
	send := func(p []byte) bool {
		_ = c.SetWriteDeadline(time.Now().Add(2500 * time.Millisecond)) // client end only; the broker's end has its own deadlines
		b := time.Now()
		_, err := c.Write(p)
		a := time.Now()
		if err != nil {
			o.WriteErr = err.Error()
			return false
		}
		o.B, o.A = append(o.B, e.us(b)), append(o.A, e.us(a))
		return true
	}
	waitUntil := func(t time.Time) bool { // false: the connection ended first
		d := time.Until(t)
		if d <= 0 {
			return !isClosed()
		}
		tm := time.NewTimer(d)
		defer tm.Stop()
		select {
		case <-closed:
			return false
		case <-tm.C:
			return true
		}
	}

	time.Sleep(time.Until(e.begin.Add(time.Duration(cn.StartMs) * time.Millisecond)))
	id := fmt.Sprintf("c37-%d", idx)
	if cn.Ask != nil {
		id = fmt.Sprintf("sk%d-%d", cn.K, idx) // the override hook imposes K on this connection
	}
	alive := send(c37Connect(cn, id))
	last := e.t0
	if alive {
		last = e.t0.Add(time.Duration(o.B[0]) * time.Microsecond)
	}
	for i := 0; alive && i < len(cn.GapsMs); i++ {
		next := last.Add(time.Duration(cn.GapsMs[i]) * time.Millisecond)
		if next.After(e.horizon) {
			break
		}
		if !waitUntil(next) {
			alive = false
			break
		}
		kind := 0
		if i < len(cn.Kinds) {
			kind = cn.Kinds[i]
		}
		if !send(c37Packet(cn, kind)) {
			alive = false
			break
		}
		last = e.t0.Add(time.Duration(o.B[len(o.B)-1]) * time.Microsecond)
	}
	if alive {
		waitUntil(e.horizon)
	} else if !isClosed() {
		// a write failed but the reader has not yet seen the end: give it a moment
		waitUntil(time.Now().Add(1500 * time.Millisecond))
	}
	o.End = e.us(time.Now())
	if isClosed() {
		o.Close = closeAt.Load()
		if o.Close > o.End {
			o.Close = o.End
		}
	}
	rxMu.Lock()
	defer rxMu.Unlock()
	// received stream: packets all have a one-byte remaining length here
	for p := 0; p+1 < len(rx); {
		t, l := rx[p]>>4, int(rx[p+1])
		if p+2+l > len(rx) {
			break
		}
		switch t {
		case 2:
			if l >= 2 {
				o.Connack = int(rx[p+3])
			}
		case 13:
			o.PingResp++
		case 3:
			o.FeedRx++
		}
		p += 2 + l
	}
	if n := len(o.A); n > 0 && o.FeedRx > 0 {
		prev, stop := o.A[n-1], o.End
		if o.Close >= 0 {
			stop = o.Close
		}
		for _, t := range rxT {
			if t > o.A[n-1]+100000 && t <= stop {
				o.FeedSilent++
				if t-prev > o.FeedMaxGap {
					o.FeedMaxGap = t - prev
				}
				prev = t
			}
		}
		if stop-prev > o.FeedMaxGap {
			o.FeedMaxGap = stop - prev
		}
	}
	return
}

// ---- oracle -------------------------------------------------------------------------------------------

type c37Verdict struct {
	Class      string // label
	Asserted   bool
	NonTrivial bool
	CloseOffUs int64 // close time minus the send time of the last packet before it (-1: none judged)
	Receiving  bool  // broker-to-client traffic kept arriving less than K seconds apart during the client's final silence
	JitterUs   int64
}

func ms(us int64) string { return fmt.Sprintf("%.1f", float64(us)/1000) }

// c37Judge applies the statement of C37 to the measured times of one connection.
//
//	boundary B = 1.5 x K, margin M = max(K/4, 0.4 s).
//	Interval i runs from packet i to the next packet (or the end of observation). With b = time just before a
//	write and a = time just after it, the gap the broker saw lies in [b(i+1) - a(i), a(i+1) - b(i)]:
//	  safe      a(i+1) - b(i) <= B - M : the connection must survive the interval
//	  far       b(i+1) - a(i) >= B + M : the connection must have been closed, no earlier than b(i) + B - M
//	  otherwise (inside the margin)    : nothing is asserted from here on
//	Delays (late scheduling of the broker, of the client's reader, of timers) can only make a close LATER and a
//	packet's arrival LATER, so "closed early, relative to the last packet sent before it" needs no allowance;
//	"survives a safe interval" and "closed in time" are asserted only if four times the worst scheduling delay
//	measured around that interval, plus 40 ms, is no more than the distance the delays would have to bridge: 1.5K minus
//	the measured gap for a survived interval, the measured lateness beyond 1.5K for a late or missing close (both
//	distances are at least the margin).
func c37Judge(cn c37Conn, o c37Obs, j *c37Jitter) (c37Verdict, []evid.Disc) {
	v := c37Verdict{CloseOffUs: -1}
	desc := func() string {
		var g []string
		for i := 1; i < len(o.B); i++ {
			g = append(g, ms(o.B[i]-o.B[i-1]))
		}
		return fmt.Sprintf("K=%d v%d tcp=%v sends_ms=[%s] measured_gaps_ms=[%s] close_ms=%s end_ms=%s pingresp=%d publishes_received=%d (reads during the final silence %d, longest pause %s ms) werr=%q", cn.K, cn.Ver, cn.TCP,
			joinMs(o.B), strings.Join(g, " "), ms(o.Close), ms(o.End), o.PingResp, o.FeedRx, o.FeedSilent, ms(o.FeedMaxGap), o.WriteErr)
	}
	if o.Harness != "" || len(o.B) == 0 {
		v.Class = "harness-failure"
		return v, nil
	}
	if strings.Contains(o.WriteErr, "deadline") || strings.Contains(o.WriteErr, "timeout") {
		v.Class = "harness-write-timeout" // the client's own 2.5 s write deadline: the process was starved
		return v, nil
	}
	if o.Connack != 0 {
		// only a starved process can fail to deliver a CONNACK within the observation; K = 1 leaves >= 1 s for it
		if jit := j.over(o.B[0], o.End); 4*jit+40000 > 400000 {
			v.Class, v.JitterUs = "dropped-jitter", jit
			return v, nil
		}
		v.Asserted = true
		return v, []evid.Disc{evid.D("C37-no-connack", "no successful CONNACK (code %d): %s", o.Connack, desc())}
	}
	if cn.K == 0 {
		v.Asserted = true
		if o.Close >= 0 {
			return v, []evid.Disc{evid.D("C37-k0-closed", "keepalive 0 but the broker ended the connection: %s", desc())}
		}
		v.Class = "k0-open-at-end"
		// non-trivial: some silent stretch longer than the longest allowance of the smallest non-zero keepalive
		prev := o.B
		for i := range prev {
			nxt := o.End
			if i+1 < len(prev) {
				nxt = prev[i+1]
			}
			if nxt-prev[i] >= 1900*1000 {
				v.NonTrivial = true
			}
		}
		return v, nil
	}
	B, M := c37Boundary(cn.K), c37Margin(cn.K)
	// The property counts packets arriving FROM the client only; what the broker sends must not keep a silent client alive.
	recv := ""
	if o.FeedSilent >= 3 && o.FeedMaxGap <= int64(cn.K)*1000*1000 {
		v.Receiving, recv = true, "-while-receiving"
	}
	jitOK := func(from, to, slack int64) bool {
		jit := j.over(from, to)
		if jit > v.JitterUs {
			v.JitterUs = jit
		}
		return 4*jit+40000 <= slack
	}
	n := len(o.B)
	survivedLong := false // survived a gap of at least K seconds: would be fatal with a factor of 1 instead of 1.5
	for i := 0; i < n; i++ {
		nb, na, virtual := o.End, o.End, true
		if i+1 < n {
			nb, na, virtual = o.B[i+1], o.A[i+1], false
		}
		if o.Close >= 0 && (o.Close < nb || virtual) {
			// the connection ended in interval i; every earlier interval was judged safe
			off, offA := o.Close-o.B[i], o.Close-o.A[i]
			v.CloseOffUs = off
			switch {
			case off < B-M:
				v.Asserted, v.Class = true, "closed-early"
				sig := fmt.Sprintf("C37-closed-early-k%d", cn.K)
				if cn.K == 1 {
					// the one-second rule (deadline = K + K/2 in integer arithmetic = 1 s): the close is at least 1 s
					// after a packet, and the next packet (if any) was not completed within that second
					tau := 3*j.over(o.B[i], o.Close) + 20000
					if off >= 999*1000 || (i >= 1 && o.Close-o.B[i-1] >= 999*1000 && o.A[i]-o.B[i-1] >= 1000*1000-tau) {
						sig = "C37-k1-closed-after-1s-not-1.5s"
					}
				}
				return v, []evid.Disc{evid.D(sig, "closed %s ms after the last packet sent before the close (interval %d); 1.5 x K = %s ms, margin %s ms: %s",
					ms(off), i, ms(B), ms(M), desc())}
			case offA > B+M:
				if !jitOK(o.A[i], o.Close, offA-B) { // the lateness is what delays would have to explain
					v.Class = "dropped-jitter"
					return v, nil
				}
				v.Asserted, v.Class = true, "closed-late"
				return v, []evid.Disc{evid.D(fmt.Sprintf("C37-closed-late-k%d%s", cn.K, recv), "closed %s ms after the last packet (interval %d); 1.5 x K = %s ms, margin %s ms, worst scheduling delay %s ms: %s",
					ms(offA), i, ms(B), ms(M), ms(v.JitterUs), desc())}
			}
			v.Asserted, v.NonTrivial, v.Class = true, true, "closed-in-window"
			if survivedLong {
				v.Class = "closed-in-window-after-gap>=K"
			}
			return v, nil
		}
		hi, lo := na-o.B[i], nb-o.A[i]
		switch {
		case hi <= B-M:
			if !jitOK(o.B[i], na, B-hi) { // the packet would have to be delayed by this much to miss 1.5 x K
				v.Class = "dropped-jitter"
				return v, nil
			}
			if virtual {
				v.Asserted, v.Class = true, "open-at-end"
				if survivedLong {
					v.NonTrivial, v.Class = true, "open-at-end-after-gap>=K"
				}
				return v, nil
			}
			if hi >= int64(cn.K)*1000*1000 {
				survivedLong = true
			}
		case lo >= B+M:
			if !jitOK(o.A[i], nb, lo-B) { // the lateness is what delays would have to explain
				v.Class = "dropped-jitter"
				return v, nil
			}
			v.Asserted, v.Class = true, "not-closed"
			return v, []evid.Disc{evid.D(fmt.Sprintf("C37-not-closed-k%d%s", cn.K, recv), "still open %s ms after packet %d; 1.5 x K = %s ms, margin %s ms, worst scheduling delay %s ms: %s",
				ms(lo), i, ms(B), ms(M), ms(v.JitterUs), desc())}
		default:
			if virtual {
				// observation ended before the close could be required: what was asserted so far stands
				v.Asserted, v.Class = i > 0, "closure-unobserved"
				v.NonTrivial = survivedLong
				return v, nil
			}
			v.Class = "dropped-gap-in-margin"
			return v, nil
		}
	}
	v.Class = "harness-failure"
	return v, nil
}

func joinMs(us []int64) string {
	s := make([]string, len(us))
	for i, u := range us {
		s[i] = ms(u)
	}
	return strings.Join(s, " ")
}

// ---- run-wide statistics ----------------------------------------------------------------------------

type c37Stats struct {
	mu       sync.Mutex
	closeOff map[int][]int64 // per K: close offsets (us) of closures that were judged
	jitMax   int64
	judged   int64
	dropped  int64
	cases    int64
	caseWall time.Duration
}

var c37S = c37Stats{closeOff: map[int][]int64{}}

// c37Execute runs all connections of a case concurrently against a fresh broker and returns what was measured.
func c37Execute(c c37Case, r *evid.Rec) ([]c37Obs, *c37Jitter, bool, bool) {
	srv := mqtt.New(&mqtt.Options{Logger: slog.New(slog.NewTextHandler(io.Discard, &slog.HandlerOptions{Level: slog.LevelError + 4}))})
	_ = srv.AddHook(new(auth.AllowHook), nil)
	_ = srv.AddHook(new(c37Override), nil)
	var hwg sync.WaitGroup
	e := &c37Env{srv: srv, hwg: &hwg}
	var ln net.Listener
	needTCP := false
	for _, cn := range c.Conns {
		needTCP = needTCP || cn.TCP
	}
	if needTCP {
		var err error
		ln, err = net.Listen("tcp", "127.0.0.1:0")
		if err != nil {
			r.Set("tcp_unavailable", err.Error()) // all connections fall back to net.Pipe
			ln = nil
		} else {
			e.tcpAddr = ln.Addr().String()
			go func() {
				for {
					s, err := ln.Accept()
					if err != nil {
						return
					}
					hwg.Add(1)
					go func() { defer hwg.Done(); _ = srv.EstablishConnection("tcp", s) }()
				}
			}()
		}
	}
	e.t0 = time.Now()
	jit := newC37Jitter(e.t0, c.HorizonMs)
	jit.start(e.tcpAddr != "")
	// set-up phase: all transport connections exist and their handlers are waiting for CONNECT before the scripts start
	conns := make([]net.Conn, len(c.Conns))
	errs := make([]error, len(c.Conns))
	for i, cn := range c.Conns {
		conns[i], errs[i] = c37Dial(e, cn)
	}
	var feedConn net.Conn
	if c.FeedMs > 0 {
		feedConn, _ = c37Dial(e, c37Conn{})
	}
	// settle: wait (at most 1 s) for a 200 ms stretch without a scheduling delay above 15 ms
	for i := 0; i < 5; i++ {
		time.Sleep(200 * time.Millisecond)
		now := jit.us(time.Now())
		if jit.over(now-100000, now-100000) <= 15000 {
			break
		}
	}
	e.begin = time.Now().Add(20 * time.Millisecond)
	jit.sinceUs = jit.us(e.begin)
	jit.maxAll.Store(0)
	e.horizon = e.begin.Add(time.Duration(c.HorizonMs) * time.Millisecond)

	feedStop, feedDone := make(chan struct{}), make(chan struct{})
	feedOK := true
	go func() { defer close(feedDone); feedOK = c37Feed(e, c.FeedMs, feedConn, feedStop, r) }()
	obs := make([]c37Obs, len(c.Conns))
	var wg sync.WaitGroup
	for i := range c.Conns {
		wg.Add(1)
		go func(i int) { defer wg.Done(); obs[i] = c37RunConn(e, c.Conns[i], i, conns[i], errs[i]) }(i)
	}
	wg.Wait()
	close(feedStop)
	<-feedDone
	jit.finish()
	if ln != nil {
		_ = ln.Close()
	}
	done := make(chan struct{})
	go func() { hwg.Wait(); close(done) }()
	select {
	case <-done:
	case <-time.After(5 * time.Second):
		r.Label("broker-handlers-slow-to-return")
	}
	_ = srv.Close()
	return obs, jit, e.tcpAddr != "", feedOK
}

// c37Feed is the publisher of the case: a keepalive-0 connection on a pipe that sends one QoS 0 message to the feed
// topic every periodMs from the start of the scripts until the last scripted connection has finished. It is not judged.
func c37Feed(e *c37Env, periodMs int, c net.Conn, stop <-chan struct{}, r *evid.Rec) bool {
	if periodMs <= 0 || c == nil {
		return true
	}
	defer c.Close()
	go func() { _, _ = io.Copy(io.Discard, c) }()
	time.Sleep(time.Until(e.begin))
	write := func(p []byte) bool {
		_ = c.SetWriteDeadline(time.Now().Add(4 * time.Second))
		_, err := c.Write(p)
		return err == nil
	}
	if !write(c37Connect(c37Conn{K: 0, Ver: 4}, "c37-feed")) {
		r.Label("feed-publisher-failed")
		return false
	}
	body := append([]byte{0, byte(len(c37FeedTopic))}, c37FeedTopic...)
	pk := append([]byte{0x30, byte(len(body) + 1)}, append(body, 'f')...)
	tk := time.NewTicker(time.Duration(periodMs) * time.Millisecond)
	defer tk.Stop()
	for {
		select {
		case <-stop:
			return true
		case <-tk.C:
			if !write(pk) {
				r.Label("feed-publisher-failed")
				return false
			}
		}
	}
}

// c37Family maps a signature to what a re-run must show again: "still open at 1.5K + margin" whether the close came
// late or not at all, and whether or not the re-run's deliveries were dense enough for the -while-receiving suffix.
func c37Family(sig string) string {
	sig = strings.TrimSuffix(sig, "-while-receiving")
	return strings.Replace(sig, "C37-closed-late-", "C37-not-closed-", 1)
}

// c37Confirmations: a discrepancy is reported only if the same connection script, re-run in a fresh small case,
// shows the same signature again this many times. The mechanism under test is deterministic arithmetic on a
// deadline, so a genuine defect repeats; a scheduling accident that slipped past the delay probes does not.
const (
	c37Confirmations = 2
	c37Reruns        = 6
)

func c37Check(c c37Case, r *evid.Rec) []evid.Disc {
	if len(c.Conns) == 0 {
		return nil
	}
	start := time.Now()
	obs, jit, tcpOK, _ := c37Execute(c, r)

	verdicts := make([]c37Verdict, len(c.Conns))
	discs := make([][]evid.Disc, len(c.Conns))
	suspects := []int{}
	for i, cn := range c.Conns {
		verdicts[i], discs[i] = c37Judge(cn, obs[i], jit)
		for _, d := range discs[i] {
			if !r.IsKnown(d.Sig) {
				suspects = append(suspects, i)
				break
			}
		}
	}
	// pending suspects are re-run together; a re-run in which the connection was not judged at all (dropped for
	// scheduling delay, harness failure) neither confirms nor refutes and is repeated, at most c37Reruns re-runs in all
	confirmed := map[int]int{}
	drop := func(i int, why, class string) {
		r.Label(why + " " + discs[i][0].Sig)
		fmt.Printf("C37: %s (re-run verdict: %s), dropped: [%s] %s\n", why, class, discs[i][0].Sig, discs[i][0].Msg)
		verdicts[i].Asserted, verdicts[i].NonTrivial, verdicts[i].Class = false, false, "dropped-"+why
		discs[i] = nil
	}
	for round := 0; round < c37Reruns && len(suspects) > 0; round++ {
		sub := c37Case{HorizonMs: c.HorizonMs, FeedMs: c.FeedMs}
		for _, i := range suspects {
			sub.Conns = append(sub.Conns, c.Conns[i])
		}
		o2, j2, _, feedOK := c37Execute(sub, r)
		var still []int
		for n, i := range suspects {
			v2, d2 := c37Judge(sub.Conns[n], o2[n], j2)
			same := false
			for _, d := range d2 {
				for _, d0 := range discs[i] {
					same = same || c37Family(d.Sig) == c37Family(d0.Sig)
				}
			}
			switch {
			case same:
				confirmed[i]++
				if confirmed[i] < c37Confirmations {
					still = append(still, i)
				}
			case (!v2.Asserted && len(d2) == 0) || !feedOK:
				still = append(still, i) // not judged this time, or the re-run lost its publisher
			default:
				drop(i, "discrepancy-not-reproduced", v2.Class)
			}
		}
		suspects = still
	}
	for _, i := range suspects {
		drop(i, "discrepancy-unconfirmed-too-noisy", "not judged")
	}

	var ds []evid.Disc
	r.EvalN(int64(len(c.Conns)) - 1) // one evaluation per connection (evid.Run counted one for the case)
	var judged, dropped int64
	for i, cn := range c.Conns {
		v, d := verdicts[i], discs[i]
		ds = append(ds, d...)
		tr := "pipe"
		if cn.TCP && tcpOK {
			tr = "tcp"
		}
		r.Label(fmt.Sprintf("k%d %s", cn.K, v.Class))
		if v.Receiving {
			r.Label(fmt.Sprintf("k%d receiving-while-silent %s", cn.K, v.Class))
		}
		if os.Getenv("VERIF_C37_DEBUG") != "" {
			fmt.Printf("C37-DEBUG %s jitter=%s %+v %+v\n", v.Class, ms(v.JitterUs), cn, obs[i])
		}
		r.Label("transport " + tr)
		if !v.Asserted {
			r.NotAsserted()
			dropped++
		} else {
			judged++
		}
		if v.NonTrivial {
			r.NonTrivial(c37Key(cn, tr))
		}
		if v.CloseOffUs >= 0 && v.Asserted {
			c37S.mu.Lock()
			c37S.closeOff[cn.K] = append(c37S.closeOff[cn.K], v.CloseOffUs)
			c37S.mu.Unlock()
		}
		if i < 2 {
			r.Sample(map[string]any{"conn": cn, "measured": obs[i], "verdict": v.Class})
		}
	}
	c37S.mu.Lock()
	if m := jit.maxAll.Load(); m > c37S.jitMax {
		c37S.jitMax = m
	}
	c37S.judged += judged
	c37S.dropped += dropped
	c37S.cases++
	c37S.caseWall += time.Since(start)
	c37S.mu.Unlock()
	return ds
}

// c37Key: semantic identity of a connection's script (gaps at 50 ms resolution).
func c37Key(cn c37Conn, tr string) string {
	var sb strings.Builder
	fmt.Fprintf(&sb, "%d|%d|%s", cn.K, cn.Ver, tr)
	if cn.Ask != nil {
		fmt.Fprintf(&sb, "|asked %d", *cn.Ask)
	}
	for i, g := range cn.GapsMs {
		k := 0
		if i < len(cn.Kinds) {
			k = cn.Kinds[i]
		}
		fmt.Fprintf(&sb, "|%d:%d", g/50, k)
	}
	return sb.String()
}

// ---- generator ----------------------------------------------------------------------------------------

func c37GenConn(rt *rapid.T, i int) c37Conn {
	cn := c37Conn{
		K:       rapid.SampledFrom([]int{0, 1, 1, 1, 2, 2, 2, 3, 3}).Draw(rt, "k"),
		Ver:     rapid.SampledFrom([]int{4, 5}).Draw(rt, "ver"),
		TCP:     rapid.Bool().Draw(rt, "tcp"),
		StartMs: rapid.IntRange(0, 250).Draw(rt, "start"),
	}
	if cn.K > 0 && rapid.IntRange(0, 3).Draw(rt, "server-keepalive") == 0 {
		// the server imposes K; the client asked for something else (much longer, shorter, or none at all)
		ask := rapid.SampledFrom([]int{0, 60, 1, 3, 10}).Draw(rt, "ask")
		if ask != cn.K {
			cn.Ask = &ask
		}
	}
	budget := c37Horizon - cn.StartMs - 150 // ms available after CONNECT
	kind := func() int { return rapid.SampledFrom([]int{0, 0, 0, 1}).Draw(rt, "kind") }
	add := func(g int) bool {
		if g > budget {
			return false
		}
		cn.GapsMs, cn.Kinds = append(cn.GapsMs, g), append(cn.Kinds, kind())
		budget -= g
		return true
	}
	if cn.K == 0 {
		cn.Intent = "k0"
		n := rapid.IntRange(0, 3).Draw(rt, "n")
		for x := 0; x < n; x++ {
			if !add(rapid.IntRange(100, 3000).Draw(rt, "gap")) {
				break
			}
		}
		return cn
	}
	B, M := int(c37Boundary(cn.K)/1000), int(c37Margin(cn.K)/1000)
	safeMax := B - M - c37Pad
	safeGap := func() int {
		switch rapid.IntRange(0, 3).Draw(rt, "zone") {
		case 0: // right at the edge of what must survive
			return safeMax - rapid.IntRange(0, 120).Draw(rt, "edge")
		case 1, 2: // at least K seconds: fatal if the factor were 1 instead of 1.5
			return rapid.IntRange(cn.K*1000, safeMax).Draw(rt, "long")
		}
		return rapid.IntRange(50, cn.K*1000).Draw(rt, "short")
	}
	switch rapid.SampledFrom([]string{"silence", "silence", "silence", "receiving", "receiving", "active", "far-then-send", "in-margin"}).Draw(rt, "intent") {
	case "silence": // 0-4 safe gaps, then silence long enough for the close to be required within the horizon
		cn.Intent = "silence"
		budget -= B + M + 100
		n := rapid.IntRange(0, 4).Draw(rt, "n")
		for x := 0; x < n; x++ {
			if !add(safeGap()) {
				break
			}
		}
	case "receiving": // SUBSCRIBE to the feed early, 0-2 further safe gaps, then silence while the feed keeps arriving
		cn.Intent = "receiving"
		budget -= B + M + 100
		g := rapid.IntRange(50, 300).Draw(rt, "subgap")
		cn.GapsMs, cn.Kinds = append(cn.GapsMs, g), append(cn.Kinds, 2)
		budget -= g
		n := rapid.IntRange(0, 2).Draw(rt, "n")
		for x := 0; x < n; x++ {
			if !add(safeGap()) {
				break
			}
		}
	case "active": // safe gaps all the way to the horizon: must still be open
		cn.Intent = "active"
		for x := 0; x < 12; x++ {
			if !add(safeGap()) {
				break
			}
		}
	case "far-then-send": // a gap beyond the boundary followed by a packet that must find the connection closed
		cn.Intent = "far-then-send"
		far := B + M + c37Pad + rapid.IntRange(0, 200).Draw(rt, "far")
		budget -= far
		n := rapid.IntRange(0, 2).Draw(rt, "n")
		for x := 0; x < n; x++ {
			if !add(safeGap()) {
				break
			}
		}
		budget += far
		add(far)
	case "in-margin": // generated, never asserted
		cn.Intent = "in-margin"
		g := rapid.IntRange(B-M+c37Pad, B+M-c37Pad).Draw(rt, "mid")
		n := rapid.IntRange(0, 1).Draw(rt, "n")
		budget -= g
		for x := 0; x < n; x++ {
			if !add(safeGap()) {
				break
			}
		}
		budget += g
		add(g)
	}
	return cn
}

func c37Gen(rt *rapid.T) c37Case {
	c := c37Case{HorizonMs: c37Horizon, FeedMs: rapid.IntRange(200, 400).Draw(rt, "feed")}
	n := rapid.IntRange(30, 60).Draw(rt, "nconns")
	for i := 0; i < n; i++ {
		c.Conns = append(c.Conns, c37GenConn(rt, i))
	}
	return c
}

func TestC37(t *testing.T) {
	r := evid.New("C37", "real time: each case opens 30-60 concurrent connections (net.Pipe and loopback TCP handed to Server.EstablishConnection, allow-all auth, v4/v5) "+
		"with keepalive K in {0,1,2,3} s and a script of PINGREQ / QoS 0 PUBLISH gaps followed by silence; for a quarter of the K > 0 connections K is imposed by the server (an OnConnect hook sets the keepalive, announced in the v5 CONNACK) while the CONNECT asked for 0 / 1 / 3 / 10 / 60 s; one evaluation = one connection. "+
		"A quarter of the K > 0 connections first SUBSCRIBE (QoS 0) to a feed topic on which a separate keepalive-0 publisher sends a message every 200-400 ms all case long, so that they keep RECEIVING while silent (label receiving-while-silent: >= 3 deliveries during the final silence, never more than K seconds apart); only packets FROM the client count, the oracle is the same. "+
		"Oracle on MEASURED send and close times with boundary 1.5 x K and margin max(K/4, 0.4 s): every gap <= 1.5K - margin must be survived; after a gap or silence >= 1.5K + margin the "+
		"connection must have been closed, not earlier than 1.5K - margin after the last packet; K = 0 is never closed. Connections whose measured gaps fall inside a margin, or whose intervals saw a "+
		"scheduling delay with 4 x delay + 40 ms > |measured gap or lateness - 1.5K| (sleeper probes and deadline canaries run with every case), are dropped and counted as not asserted. "+
		"Non-trivial = a closure that was judged against the window, or a connection that provably survived a gap >= K seconds (fatal with a factor of 1), or a K = 0 connection silent for >= 1.9 s; "+
		"distinct by (K, version, transport, gaps at 50 ms resolution, packet kinds). A discrepancy is reported only after the same script reproduced it in two fresh re-runs")
	defer r.Finish(t)
	r.Assume("real-time check: the verdict is a function of measured times, so a replay re-executes the saved schedule in real time (about 9 s) and judges the new measurements")
	r.Assume("time.Now is monotonic within the process and runtime timers / connection deadlines never fire early")
	defer func() {
		c37S.mu.Lock()
		defer c37S.mu.Unlock()
		ks := []int{}
		for k := range c37S.closeOff {
			ks = append(ks, k)
		}
		sort.Ints(ks)
		for _, k := range ks {
			xs := c37S.closeOff[k]
			sort.Slice(xs, func(a, b int) bool { return xs[a] < xs[b] })
			r.Set(fmt.Sprintf("close_after_last_packet_ms_k%d", k), fmt.Sprintf("n=%d min=%s median=%s max=%s", len(xs), ms(xs[0]), ms(xs[len(xs)/2]), ms(xs[len(xs)-1])))
		}
		r.Set("worst_scheduling_delay_ms", ms(c37S.jitMax))
		r.Set("connections_judged", c37S.judged)
		r.Set("connections_dropped", c37S.dropped)
		if c37S.cases > 0 {
			r.Set("mean_case_wall_s", fmt.Sprintf("%.1f", c37S.caseWall.Seconds()/float64(c37S.cases)))
		}
		if c37S.cases > 0 && c37S.judged == 0 && r.FailCount() == 0 {
			r.Inconclusive("every connection was dropped (machine too loaded for the margins): nothing was asserted")
		}
	}()
	evid.Run(t, r, c37Gen, c37Check)
}
