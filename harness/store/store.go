// Package store links the four bundled storage backends (and an in-process redis server) into a test binary and
// registers a factory with package hist, so that histories can run on a persistent broker and restart it.
package store

import (
	"fmt"
	"os"
	"path/filepath"
	"sync"

	"github.com/alicebob/miniredis/v2"
	badgerdb "github.com/dgraph-io/badger/v4"
	mqtt "github.com/mochi-mqtt/server/v2"
	"github.com/mochi-mqtt/server/v2/hooks/storage/badger"
	"github.com/mochi-mqtt/server/v2/hooks/storage/bolt"
	"github.com/mochi-mqtt/server/v2/hooks/storage/pebble"
	"github.com/mochi-mqtt/server/v2/hooks/storage/redis"
	"verif/harness/hist"
)

var (
	mu     sync.Mutex
	redisS = map[string]*miniredis.Miniredis{} // store directory -> its redis server (the "disk" of the redis backend)
)

// Kinds lists the backends.
var Kinds = []string{"bolt", "pebble", "redis", "badger"}

func init() {
	hist.StorageFactory = New
	hist.StorageCleanup = Cleanup
}

// NewDir makes a fresh store directory (memory-backed if possible: the property is about what the hooks write,
// not about the file system's durability).
func NewDir() (string, error) {
	base := os.TempDir()
	if st, err := os.Stat("/dev/shm"); err == nil && st.IsDir() {
		base = "/dev/shm"
	}
	return os.MkdirTemp(base, "verif-store-")
}

// New returns a fresh hook instance (and its config) for the store of the given kind that lives in dir: calling it
// again with the same dir after the previous hook was stopped reopens the same data.
func New(kind, dir string) (mqtt.Hook, any, error) {
	switch kind {
	case "bolt":
		return new(bolt.Hook), &bolt.Options{Path: filepath.Join(dir, "bolt.db")}, nil
	case "pebble":
		return new(pebble.Hook), &pebble.Options{Path: filepath.Join(dir, "pebble")}, nil
	case "badger":
		// a small memtable: the default 64 MiB arena dominates the cost of a case and no case writes more than a few KiB
		o := badgerdb.DefaultOptions(filepath.Join(dir, "badger")).WithMemTableSize(2 << 20).WithValueThreshold(128 << 10)
		return new(badger.Hook), &badger.Options{Path: filepath.Join(dir, "badger"), Options: &o}, nil
	case "redis":
		mu.Lock()
		defer mu.Unlock()
		mr := redisS[dir]
		if mr == nil {
			mr = miniredis.NewMiniRedis()
			if err := mr.Start(); err != nil {
				return nil, nil, err
			}
			redisS[dir] = mr
		}
		return new(redis.Hook), &redis.Options{Address: mr.Addr()}, nil
	}
	return nil, nil, fmt.Errorf("store: unknown backend %q", kind)
}

// Cleanup removes everything that belongs to a store directory.
func Cleanup(dir string) {
	mu.Lock()
	if mr := redisS[dir]; mr != nil {
		mr.Close()
		delete(redisS, dir)
	}
	mu.Unlock()
	_ = os.RemoveAll(dir)
}
