// Package pc35 holds the C35 check: the number of simultaneously established connections never exceeds
// Capabilities.MaximumClients, and every attempt that is turned away receives the failure CONNACK (0x89 for MQTT 5,
// 0x03 for MQTT 3.x) and is closed. Anchor: /repo/server.go attachClient (limit check vs Info.ClientsConnected update).
package pc35

import (
	"encoding/json"
	"fmt"
	"runtime"
	"strings"
	"testing"
	"time"

	"pgregory.net/rapid"
	"verif/harness/evid"
	"verif/harness/hist"
	"verif/harness/refmqtt"
	"verif/harness/sim"
)

const (
	ptStart  = "attach.start"
	ptBefore = "attach.beforeLimitCheck"
	ptAfter  = "attach.afterLimitCheck" // between the limit check and the counter increment
	// only reached by a takeover: the new handler has disconnected the old connection but not yet marked it taken over;
	// the old connection's handler finishes its teardown (the default schedule policy releases it once everything else
	// waits) while the new one waits here, i.e. the two teardown / takeover paths overlap
	ptInherit = "inherit.afterDisconnectOld"

	sigDirected = "C35-limit-exceeded-directed-schedule" // overshoot no larger than the number of stale commits (see c35Exec.observe)
	sigFree     = "C35-limit-exceeded-free-running"      // overshoot in a free-running burst that had at least one free slot to race for
	sigPlain    = "C35-limit-exceeded"                   // overshoot that no check/increment overlap accounts for
)

// ---- case (pure data) ------------------------------------------------------------------------------------

// c35Attempt is one connection attempt.
type c35Attempt struct {
	Client  int    `json:"client"`         // client identifier index (hist.ClientID); an index used before = takeover
	Version byte   `json:"version"`        // 3 (MQIsdp), 4 (3.1.1), 5
	Clean   bool   `json:"clean"`          // clean session / clean start
	Park    string `json:"park,omitempty"` // directed: where the handler waits for the schedule: "", "before", "after", "both"
}

// c35Op is one step of a directed schedule.
type c35Op struct {
	Op string `json:"op"` // "step": advance burst attempt I to its next waiting point (first step = open the connection and send CONNECT); "drop": the harness resets established connection number I (modulo, oldest first)
	I  int    `json:"i"`
}

type c35Case struct {
	L     int          `json:"l"`    // Capabilities.MaximumClients
	Mode  string       `json:"mode"` // "directed" | "free"
	Pre   []c35Attempt `json:"pre,omitempty"`
	Burst []c35Attempt `json:"burst"`
	// directed
	Sched []c35Op `json:"sched,omitempty"`
	// free-running
	Barrier string `json:"barrier,omitempty"` // all burst handlers wait here and are let go together
	Yield   bool   `json:"yield,omitempty"`   // every handler that passed the check is descheduled once before the increment
	Drops   []int  `json:"drops,omitempty"`   // Pre connections the harness resets at the moment the burst is let go
}

func (a c35Attempt) String() string {
	s := fmt.Sprintf("%s/v%d", hist.ClientID(a.Client), a.Version)
	if a.Clean {
		s += "/clean"
	}
	if a.Park != "" {
		s += "@" + a.Park
	}
	return s
}

func (c *c35Case) summary() string {
	var sb strings.Builder
	fmt.Fprintf(&sb, "L=%d %s pre=%v burst=%v", c.L, c.Mode, c.Pre, c.Burst)
	if c.Mode == "directed" {
		sb.WriteString(" sched=")
		for _, o := range c.Sched {
			if o.Op == "drop" {
				fmt.Fprintf(&sb, "x%d ", o.I)
			} else {
				fmt.Fprintf(&sb, "%d ", o.I)
			}
		}
	} else {
		fmt.Fprintf(&sb, " barrier=%s yield=%v drops=%v", c.Barrier, c.Yield, c.Drops)
	}
	return sb.String()
}

func (a c35Attempt) parks() []string {
	switch a.Park {
	case "before":
		return []string{ptBefore}
	case "after":
		return []string{ptAfter}
	case "both":
		return []string{ptBefore, ptAfter}
	case "inherit":
		return []string{ptInherit}
	case "after+inherit":
		return []string{ptAfter, ptInherit}
	}
	return nil
}

// ---- executor + oracle --------------------------------------------------------------------------------------

type c35Conn struct {
	att       c35Attempt
	peer      *hist.Peer
	burst     int  // index in Burst, -1 for Pre
	judged    bool // outcome (refusal form) judged
	seenEst   bool
	checkSeq  int  // number of establishments that had happened when this attempt passed the limit check (-1: not yet)
	stale     bool // some other connection was established between this attempt's check and its own establishment
	dropped   bool
	everAfter bool
}

type c35Exec struct {
	c       *c35Case
	r       *evid.Rec
	run     *hist.Run
	conns   []*c35Conn
	byBurst []*c35Conn
	trace   []string
	ds      []evid.Disc
	estSeq  int // establishments observed so far
	maxWin  int // largest number of handlers seen waiting between check and increment at the same time
	over    bool
	refused int
	// free mode: could the current code's check/increment window account for an overshoot?
	freeContested bool
	sharedID      map[string]bool // identifiers used by a burst attempt and at least one other attempt
}

func (x *c35Exec) logf(format string, a ...any) {
	x.trace = append(x.trace, fmt.Sprintf(format, a...))
}

func (x *c35Exec) disc(sig, format string, a ...any) {
	x.ds = append(x.ds, evid.D(sig, format, a...))
	x.logf("   !! [%s] %s", sig, fmt.Sprintf(format, a...))
}

func visited(l *sim.Link, point string) bool {
	for _, p := range l.Visited() {
		if p == point {
			return true
		}
	}
	return false
}

func (x *c35Exec) connect(a c35Attempt, burst int, parks []string) *c35Conn {
	act := hist.Action{Kind: "connect", Client: a.Client, Version: a.Version, Clean: a.Clean, Park: parks}
	st := x.run.Do(act)
	if x.run.Fatal != "" || st.Peer < 0 {
		return nil
	}
	cn := &c35Conn{att: a, peer: x.run.Peers[st.Peer], burst: burst, checkSeq: -1}
	x.conns = append(x.conns, cn)
	return cn
}

// settle lets the broker finish whatever the harness just caused and decodes what every connection received.
func (x *c35Exec) settle() bool {
	x.run.Do(hist.Action{Kind: "nop"})
	return x.run.Fatal == ""
}

func (cn *c35Conn) name() string {
	return fmt.Sprintf("%s#%d", cn.peer.CID, cn.peer.ID)
}

// established: a success CONNACK was received and the connection has not been closed (by the broker or the harness).
func (cn *c35Conn) established() bool {
	return cn.peer.Established() && !cn.dropped && !cn.peer.ClosedByHarness && !cn.peer.Link.Closed()
}

// observe is called at quiescence after every step. mover is the connection the step advanced (nil: none);
// estBefore is x.estSeq before the step.
//
// Signature discipline for an overshoot in a directed schedule. Call an established connection STALE when some other
// connection was established between its limit check and its own establishment. With a correct comparison and a
// counter that is decremented once per finished handler, but check and increment as separate operations, the
// overshoot is at most the number of stale connections among the established ones:
//   - the counter is never below the number of established connections E (a connection is established only between
//     its handler's increment and that handler's return; old sides of takeovers only add to the counter);
//   - let k be the non-stale member of E that was established last. At its check the counter was < L, nothing was
//     established between its check and its establishment, resets only lower the counter, so right after k was
//     established #E <= counter <= L; every member of E established later is stale. Without such a k all of E is stale.
//
// Hence #E - L <= #stale(E) on the code as it is (the listed finding), and an overshoot beyond that bound (wrong
// comparison, missing check, lost or doubled decrements) gets the separate signature C35-limit-exceeded.
func (x *c35Exec) observe(what string, mover *c35Conn, estBefore int) {
	if mover != nil {
		if mover.checkSeq < 0 && visited(mover.peer.Link, ptAfter) {
			mover.checkSeq = estBefore
		}
	}
	var est []*c35Conn
	win := 0
	for _, cn := range x.conns {
		if cn.peer.Link.ParkedAt() == ptAfter {
			win++
			cn.everAfter = true
		}
		if cn.peer.Established() && !cn.seenEst {
			cn.seenEst = true
			x.estSeq++
			if cn.checkSeq >= 0 && estBefore > cn.checkSeq {
				cn.stale = true
			}
		}
		if cn.established() {
			est = append(est, cn)
		}
		x.judgeOutcome(cn)
	}
	if win > x.maxWin {
		x.maxWin = win
	}
	names := []string{}
	stale := 0
	for _, cn := range est {
		n := cn.name()
		if cn.stale {
			n += "(stale)"
			stale++
		}
		names = append(names, n)
	}
	x.logf("%-44s established=%d %v  between-check-and-increment=%d  Info.ClientsConnected=%d", what, len(est), names, win, x.run.B.S.Info.Clone().ClientsConnected)
	if len(est) > x.c.L {
		x.over = true
		over := len(est) - x.c.L
		sig := sigPlain
		switch {
		case x.c.Mode == "directed" && over <= stale:
			// every surplus connection passed the limit check BEFORE another connection was established and was
			// established AFTER it: exactly what separate check and increment operations allow
			sig = sigDirected
		case x.c.Mode != "directed" && x.freeContested:
			sig = sigFree
		}
		x.disc(sig, "after %q: %d connections hold a success CONNACK and are not closed, MaximumClients is %d: %v (%d of them passed the limit check before, and were established after, another connection was established)", what, len(est), x.c.L, names, stale)
	}
}

// judgeOutcome: an attempt that was turned away must have received exactly one packet, the failure CONNACK of its
// protocol version, and must be closed at the quiescent point at which the refusal is first seen. All CONNECT packets
// of this check are valid and the broker allows everyone, so the limit is the only reason for turning one away.
func (x *c35Exec) judgeOutcome(cn *c35Conn) {
	if cn.judged {
		return
	}
	p := cn.peer
	switch {
	case p.Connack != nil && p.Connack.ReasonCode == 0:
		cn.judged = true
	case p.Connack != nil:
		cn.judged = true
		x.refused++
		want := byte(0x03)
		if p.Version == 5 {
			want = 0x89
		}
		if p.Connack.ReasonCode != want {
			x.disc("C35-refusal-connack-code", "%s (MQTT v%d) was refused with CONNACK 0x%02X, expected 0x%02X", cn.name(), p.Version, p.Connack.ReasonCode, want)
		}
		if !p.Link.Closed() {
			x.disc("C35-refused-connection-left-open", "%s received the failure CONNACK 0x%02X but its connection is still open once the broker is quiet", cn.name(), p.Connack.ReasonCode)
		}
		if len(p.Got) != 1 || p.Got[0].Type != refmqtt.CONNACK {
			x.disc("C35-refusal-extra-packets", "%s was refused but received %d packets: %v", cn.name(), len(p.Got), p.Got)
		}
	case p.Link.Closed() && !p.ClosedByHarness && !cn.dropped:
		cn.judged = true
		if x.c.Mode != "directed" && x.sharedID[p.CID] {
			// free-running attempts with the same identifier take each other over; one that is taken over between its
			// registration and its CONNACK is closed without one. It was not turned away by the limit: not this property.
			x.r.Label("closed-without-connack-among-concurrent-same-id-attempts")
			x.r.NotAsserted()
			return
		}
		msg := ""
		if p.WireErr != nil {
			msg = " (undecodable output: " + p.WireErr.Msg + ")"
		}
		x.disc("C35-refused-without-connack", "%s was closed by the broker without any CONNACK%s; received %v", cn.name(), msg, p.Got)
	}
}

func (x *c35Exec) establishedList() []*c35Conn {
	var est []*c35Conn
	for _, cn := range x.conns {
		if cn.established() {
			est = append(est, cn)
		}
	}
	return est
}

func (x *c35Exec) drop(cn *c35Conn) {
	cn.dropped = true
	cn.peer.ClosedByHarness = true
	cn.peer.Link.Drop()
}

// stepBurst advances burst attempt i by one stage. It reports false when there was nothing left to do.
func (x *c35Exec) stepBurst(i int) (moved bool, ok bool) {
	a := x.c.Burst[i]
	cn := x.byBurst[i]
	before := x.estSeq
	if cn == nil {
		cn = x.connect(a, i, a.parks())
		if cn == nil {
			return false, false
		}
		x.byBurst[i] = cn
		x.observe(fmt.Sprintf("open burst[%d] %s -> %s", i, a, cn.where()), cn, before)
		return true, true
	}
	at := cn.peer.Link.ParkedAt()
	if at != ptBefore && at != ptAfter && at != ptInherit {
		return false, true
	}
	cn.peer.Link.Release(at)
	if !x.settle() {
		return false, false
	}
	x.observe(fmt.Sprintf("release burst[%d] %s from %s -> %s", i, cn.name(), strings.TrimPrefix(at, "attach."), cn.where()), cn, before)
	return true, true
}

func (cn *c35Conn) where() string {
	l := cn.peer.Link
	switch {
	case l.ParkedAt() == ptBefore || l.ParkedAt() == ptAfter || l.ParkedAt() == ptStart || l.ParkedAt() == ptInherit:
		return "waits at " + strings.TrimPrefix(l.ParkedAt(), "attach.")
	case cn.peer.Connack != nil && cn.peer.Connack.ReasonCode == 0:
		return "CONNACK 0x00"
	case cn.peer.Connack != nil:
		return fmt.Sprintf("CONNACK 0x%02X", cn.peer.Connack.ReasonCode)
	case l.Closed():
		return "closed"
	}
	return "?"
}

func c35Check(c c35Case, r *evid.Rec) []evid.Disc {
	if c.L < 1 || len(c.Burst) == 0 {
		r.NotAsserted()
		return nil
	}
	hc := &hist.Case{}
	hc.Cfg.MaximumClients = int64(c.L)
	hc.Cfg.FreeTeardown = c.Mode != "directed"
	x := &c35Exec{c: &c, r: r, run: hist.NewRun(hc), byBurst: make([]*c35Conn, len(c.Burst))}
	defer x.run.B.Shutdown()
	x.sharedID = map[string]bool{}
	for i, a := range c.Burst {
		for j, b := range c.Burst {
			if i != j && a.Client == b.Client {
				x.sharedID[hist.ClientID(a.Client)] = true
			}
		}
	}
	inconclusive := func() []evid.Disc {
		r.Label("inconclusive-run")
		r.Inconclusive(x.run.Fatal)
		if r.LabelCount("inconclusive-run") <= 2 {
			fmt.Printf("INCONCLUSIVE RUN: %s\n%s\n%s\n", x.run.Fatal, strings.Join(x.trace, "\n"), firstLines(x.run.Dump, 80))
		}
		return nil
	}

	// ---- connections that exist before the burst (established one at a time)
	for i, a := range c.Pre {
		before := x.estSeq
		cn := x.connect(a, -1, nil)
		if cn == nil {
			return inconclusive()
		}
		x.observe(fmt.Sprintf("pre[%d] %s -> %s", i, a, cn.where()), cn, before)
	}
	takeover := false
	ids := map[int]bool{}
	for _, a := range c.Pre {
		ids[a.Client] = true
	}
	for _, a := range c.Burst {
		if ids[a.Client] {
			takeover = true
		}
		ids[a.Client] = true
	}

	if c.Mode == "directed" {
		r.Label("directed")
		for _, o := range c.Sched {
			switch o.Op {
			case "step":
				if o.I < 0 || o.I >= len(c.Burst) {
					continue
				}
				if _, ok := x.stepBurst(o.I); !ok {
					return inconclusive()
				}
			case "drop":
				est := x.establishedList()
				if len(est) == 0 || o.I < 0 {
					continue
				}
				cn := est[o.I%len(est)]
				before := x.estSeq
				x.drop(cn)
				if !x.settle() {
					return inconclusive()
				}
				x.observe("harness resets "+cn.name(), nil, before)
			}
		}
		// whatever the schedule left unfinished is finished in index order, still one stage at a time
		for i := range c.Burst {
			for {
				moved, ok := x.stepBurst(i)
				if !ok {
					return inconclusive()
				}
				if !moved {
					break
				}
			}
		}
	} else {
		r.Label("free-running")
		if c.Yield {
			r.Label("free-running-with-yield-between-check-and-increment")
		}
		barrier := c.Barrier
		if barrier != ptStart {
			barrier = ptBefore
		}
		parks := []string{barrier}
		if c.Yield {
			parks = append(parks, ptAfter)
		}
		for i, a := range c.Burst {
			before := x.estSeq
			cn := x.connect(a, i, parks)
			if cn == nil {
				return inconclusive()
			}
			x.byBurst[i] = cn
			x.observe(fmt.Sprintf("open burst[%d] %s -> %s", i, a, cn.where()), cn, before)
		}
		free := c.L - len(x.establishedList())
		var drops []*c35Conn
		seen := map[int]bool{}
		for _, d := range c.Drops {
			if d >= 0 && d < len(c.Pre) && !seen[d] && x.conns[d].established() {
				seen[d] = true
				drops = append(drops, x.conns[d])
			}
		}
		x.freeContested = free >= 1 || len(drops) > 0
		x.logf("-- all %d burst handlers wait at %s; %d free slots; let go together (%d resets at the same moment, yield=%v)", len(c.Burst), barrier, free, len(drops), c.Yield)
		before := x.estSeq
		for _, cn := range x.byBurst {
			cn.peer.Link.Release(barrier)
		}
		for _, cn := range drops {
			x.drop(cn)
		}
		if c.Yield {
			// deschedule every handler once between its check and its increment: it blocks at the schedule point and is
			// woken by this goroutine as soon as it is seen there
			released := make([]bool, len(x.byBurst))
			deadline := time.Now().Add(15 * time.Second)
			for spins := 0; ; spins++ {
				pending := false
				for i, cn := range x.byBurst {
					if released[i] || cn.peer.Link.Done() {
						continue
					}
					if cn.peer.Link.ParkedAt() == ptAfter {
						cn.everAfter = true
						cn.peer.Link.Release(ptAfter)
						released[i] = true
						continue
					}
					pending = true
				}
				if !pending {
					break
				}
				runtime.Gosched()
				if spins%1024 == 1023 && time.Now().After(deadline) {
					x.run.Fatal = "free-running burst: a handler neither finished nor reached " + ptAfter + " within 15 s"
					return inconclusive()
				}
			}
		}
		if !x.settle() {
			return inconclusive()
		}
		x.observe("burst settled", nil, before)
	}

	// ---- every attempt must have an outcome by now
	for _, cn := range x.conns {
		if !cn.judged && !cn.dropped {
			x.disc("C35-attempt-without-outcome", "%s: neither a CONNACK nor a close once everything was released (%s)", cn.name(), cn.where())
		}
	}

	// ---- bookkeeping
	key, _ := json.Marshal(c)
	r.Label(fmt.Sprintf("L=%d", c.L))
	if takeover {
		r.Label("burst-contains-takeover")
	}
	if x.refused > 0 {
		r.Label("some-attempt-refused")
	}
	if x.over {
		r.Label("limit-exceeded")
	}
	if c.Mode == "directed" {
		r.Label(fmt.Sprintf("max-handlers-between-check-and-increment=%d", x.maxWin))
		if x.maxWin >= 2 {
			r.NonTrivial(string(key))
			r.Label("nontrivial-directed")
			r.Sample(c.summary())
		} else {
			r.Label("no-overlap-schedule")
		}
	} else if x.freeContested && len(c.Burst) >= 2 {
		// >= 2 handlers left the barrier together with a slot to race for (whether they really overlapped is not known)
		r.NonTrivial(string(key))
		r.Label("nontrivial-free-running")
		r.Sample(c.summary())
	} else {
		r.Label("free-running-no-free-slot")
	}

	if len(x.ds) > 0 {
		ctx := "--- case ---\n" + c.summary() + "\n--- schedule trace (one line per quiescent observation) ---\n" + strings.Join(x.trace, "\n") + "\n--- history ---\n" + x.run.Transcript()
		for i := range x.ds {
			x.ds[i].Ctx = ctx
		}
	}
	return x.ds
}

func firstLines(s string, n int) string {
	ls := strings.Split(s, "\n")
	if len(ls) > n {
		ls = ls[:n]
	}
	return strings.Join(ls, "\n")
}

// ---- generator ----------------------------------------------------------------------------------------------

func c35Gen(rt *rapid.T) c35Case {
	c := c35Case{L: rapid.IntRange(1, 4).Draw(rt, "L")}
	vers := []byte{4, 5, 3}
	nPre := rapid.IntRange(0, c.L).Draw(rt, "npre")
	for i := 0; i < nPre; i++ {
		cl := i
		if i > 0 && rapid.IntRange(0, 9).Draw(rt, "predup") == 0 {
			cl = rapid.IntRange(0, i-1).Draw(rt, "preid") // a takeover among the connections that exist beforehand
		}
		c.Pre = append(c.Pre, c35Attempt{Client: cl, Version: rapid.SampledFrom(vers).Draw(rt, "pver"), Clean: rapid.Bool().Draw(rt, "pclean")})
	}
	// L+1 .. L+4 attempts in total, at least two of them in the burst
	lo, hi := c.L+1-nPre, c.L+4-nPre
	if lo < 2 {
		lo = 2
	}
	if hi < lo {
		hi = lo
	}
	nBurst := rapid.IntRange(lo, hi).Draw(rt, "nburst")
	directed := rapid.IntRange(0, 3).Draw(rt, "mode") != 3 // 0 = directed, so that shrinking ends in a deterministic schedule
	for k := 0; k < nBurst; k++ {
		a := c35Attempt{Client: nPre + k, Version: rapid.SampledFrom(vers).Draw(rt, "ver"), Clean: rapid.Bool().Draw(rt, "clean")}
		if nPre+k > 0 && rapid.IntRange(0, 9).Draw(rt, "dup") >= 7 {
			a.Client = rapid.IntRange(0, nPre+k-1).Draw(rt, "id") // an identifier already in use: takeover
		}
		if directed {
			a.Park = rapid.SampledFrom([]string{"both", "both", "both", "after", "after", "after", "before", ""}).Draw(rt, "park")
			if a.Client < nPre+k && rapid.Bool().Draw(rt, "overlap-takeover") {
				// a takeover whose new handler waits between disconnecting the old connection and marking it taken over
				a.Park = rapid.SampledFrom([]string{"inherit", "after+inherit"}).Draw(rt, "tpark")
			}
		}
		c.Burst = append(c.Burst, a)
	}
	if !directed {
		c.Mode = "free"
		c.Barrier = rapid.SampledFrom([]string{ptBefore, ptBefore, ptStart}).Draw(rt, "barrier")
		c.Yield = rapid.Bool().Draw(rt, "yield")
		if nPre > 0 && rapid.Bool().Draw(rt, "withdrops") {
			c.Drops = rapid.SliceOfNDistinct(rapid.IntRange(0, nPre-1), 1, nPre, rapid.ID[int]).Draw(rt, "drops")
		}
		return c
	}
	c.Mode = "directed"
	stages := func(i int) int { return 1 + len(c.Burst[i].parks()) }
	perm := func(label string) []int {
		idx := make([]int, nBurst)
		for i := range idx {
			idx[i] = i
		}
		return rapid.Permutation(idx).Draw(rt, label)
	}
	var steps []int
	switch rapid.SampledFrom([]string{"rounds", "rounds", "shuffled", "shuffled", "sequential"}).Draw(rt, "shape") {
	case "rounds":
		// everybody opens, then everybody that waits before the check takes it, then the increments: in generated orders
		for round := 0; round < 3; round++ {
			for _, i := range perm(fmt.Sprintf("round%d", round)) {
				if round < stages(i) {
					steps = append(steps, i)
				}
			}
		}
	case "shuffled":
		var ms []int
		for i := 0; i < nBurst; i++ {
			for s := 0; s < stages(i); s++ {
				ms = append(ms, i)
			}
		}
		steps = rapid.Permutation(ms).Draw(rt, "interleaving")
	default:
		for _, i := range perm("order") {
			for s := 0; s < stages(i); s++ {
				steps = append(steps, i)
			}
		}
	}
	for _, i := range steps {
		c.Sched = append(c.Sched, c35Op{Op: "step", I: i})
	}
	for d := rapid.IntRange(0, 2).Draw(rt, "ndrops"); d > 0; d-- {
		at := rapid.IntRange(0, len(c.Sched)).Draw(rt, "dropat")
		op := c35Op{Op: "drop", I: rapid.IntRange(0, 7).Draw(rt, "dropwhich")}
		c.Sched = append(c.Sched[:at], append([]c35Op{op}, c.Sched[at:]...)...)
	}
	return c
}

// ---- test ---------------------------------------------------------------------------------------------------

func TestC35(t *testing.T) {
	r := evid.New("C35", "Domain: MaximumClients L in 1..4, 0..L connections established beforehand, then a burst so that L+1..L+4 attempts are made in total "+
		"(MQTT 3.1, 3.1.1 and 5; fresh identifiers and identifiers already connected = takeovers). Directed class (deterministic): each burst handler "+
		"waits at the verif schedule points attach.beforeLimitCheck and/or attach.afterLimitCheck (between the limit check and the Info.ClientsConnected "+
		"increment) - a takeover also between disconnecting the old connection and marking it taken over (inherit.afterDisconnectOld), so that the old handler's teardown overlaps the takeover - and a generated schedule advances one handler at a time (rounds / arbitrary interleavings / no overlap at all), with 0-2 established "+
		"connections reset by the harness in between. Free-running class (statistical): all burst handlers leave a common barrier together on all cores, "+
		"optionally descheduled once between check and increment, optionally while established connections are reset. Oracle, evaluated at quiescence after "+
		"every step: #{connections that received CONNACK 0x00 and are not closed} <= L; an attempt that is turned away received exactly the CONNACK 0x89 (v5) "+
		"/ 0x03 (v3.x) and is closed at the quiescent point where that is first seen; every attempt has an outcome. RULE: a directed case is non-trivial when "+
		"at least two handlers waited between the limit check and the increment at the same time (park bookkeeping); a free-running case when at least two "+
		"handlers left the barrier together while a slot was free or being freed.")
	defer r.Finish(t)
	r.Assume("connections are counted at quiescence (every handler blocked reading, waiting at a schedule point, or returned); a connection the broker is closing in the same step (the old side of a takeover) is not counted, transient states inside a step are not observed")
	r.Assume("directed schedules are deterministic and replayable (the replay artefact is the case: limit, attempts, wait points, schedule); free-running bursts explore the scheduler statistically, their replay re-executes the same burst and may interleave differently")
	r.Assume("an overshoot is filed under the signature " + sigDirected + " only if it is no larger than the number of established connections that passed the limit check before, and were established after, another connection was established; under " + sigFree + " only in a free-running burst that had a slot to race for; every other overshoot is " + sigPlain)
	r.Set("gomaxprocs", runtime.GOMAXPROCS(0))
	evid.Run(t, r, c35Gen, c35Check)
}
