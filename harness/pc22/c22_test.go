// Package pc22 holds the C22 check: the four bundled storage hooks (/repo/hooks/storage/{badger,pebble,bolt,redis})
// return the same stored clients, subscriptions, retained messages, in-flight messages and system info after the
// same sequence of storage hook events. Pure differential: no reference model, the backends judge each other.
package pc22

import (
	"bytes"
	"encoding/json"
	"fmt"
	"io"
	"log/slog"
	"os"
	"path/filepath"
	"sort"
	"strings"
	"testing"
	"time"

	"github.com/alicebob/miniredis/v2"
	badgerdb "github.com/dgraph-io/badger/v4"
	mqtt "github.com/mochi-mqtt/server/v2"
	"github.com/mochi-mqtt/server/v2/hooks/storage"
	"github.com/mochi-mqtt/server/v2/hooks/storage/badger"
	"github.com/mochi-mqtt/server/v2/hooks/storage/bolt"
	"github.com/mochi-mqtt/server/v2/hooks/storage/pebble"
	"github.com/mochi-mqtt/server/v2/hooks/storage/redis"
	"github.com/mochi-mqtt/server/v2/packets"
	"github.com/mochi-mqtt/server/v2/system"
	"pgregory.net/rapid"
	"verif/harness/evid"
)

// ---- case (pure data) --------------------------------------------------------------------------------

// kstr is a string with an optional run of 'k' appended (keeps cases with 32 KiB / 64 KiB keys small on disk).
type kstr struct {
	S   string `json:"s"`
	Pad int    `json:"pad,omitempty"`
}

func (k kstr) str() string {
	if k.Pad > 0 {
		return k.S + strings.Repeat("k", k.Pad)
	}
	return k.S
}

type c22Will struct {
	Topic   string      `json:"topic"`
	Payload string      `json:"payload,omitempty"`
	Qos     byte        `json:"qos,omitempty"`
	Retain  bool        `json:"retain,omitempty"`
	Delay   uint32      `json:"delay,omitempty"`
	User    [][2]string `json:"user,omitempty"`
}

// c22Conn is one connection object (*mqtt.Client). Several connections may share a client id (takeover: events on
// the old connection interleave with events on the new one).
type c22Conn struct {
	ID         kstr        `json:"id"`
	Ver        byte        `json:"ver"`
	Clean      bool        `json:"clean,omitempty"`
	Username   string      `json:"username,omitempty"`
	Remote     string      `json:"remote,omitempty"`
	Listener   string      `json:"listener,omitempty"`
	Expiry     uint32      `json:"expiry,omitempty"`
	ExpiryFlag bool        `json:"expiry_flag,omitempty"`
	AuthMethod string      `json:"auth_method,omitempty"`
	AuthData   string      `json:"auth_data,omitempty"`
	ReqProblem byte        `json:"req_problem,omitempty"`
	ReqProbFl  bool        `json:"req_problem_flag,omitempty"`
	ReqResp    byte        `json:"req_response,omitempty"`
	RecvMax    uint16      `json:"recv_max,omitempty"`
	AliasMax   uint16      `json:"alias_max,omitempty"`
	MaxPacket  uint32      `json:"max_packet,omitempty"`
	User       [][2]string `json:"user,omitempty"`
	Will       *c22Will    `json:"will,omitempty"`
}

type c22Filter struct {
	F       kstr `json:"f"`
	Code    byte `json:"code"` // the SUBACK reason code handed to OnSubscribed for this filter
	Qos     byte `json:"qos,omitempty"`
	Ident   int  `json:"ident,omitempty"`
	NoLocal bool `json:"no_local,omitempty"`
	RAP     bool `json:"rap,omitempty"`
	RH      byte `json:"rh,omitempty"`
}

type c22Msg struct {
	Type       byte        `json:"type"` // packets.Publish / Pubrec / Pubrel (what the broker hands to OnQosPublish)
	Topic      kstr        `json:"topic"`
	Payload    string      `json:"payload,omitempty"`
	PayPad     int         `json:"pay_pad,omitempty"` // extra payload bytes
	NilPayload bool        `json:"nil_payload,omitempty"`
	Qos        byte        `json:"qos,omitempty"`
	Retain     bool        `json:"retain,omitempty"`
	Dup        bool        `json:"dup,omitempty"`
	Remaining  int         `json:"remaining,omitempty"`
	PID        uint16      `json:"pid,omitempty"`
	Created    int64       `json:"created,omitempty"`
	Expiry     int64       `json:"expiry,omitempty"`
	Origin     string      `json:"origin,omitempty"`
	Ver        byte        `json:"ver,omitempty"`
	PayFmt     byte        `json:"pay_fmt,omitempty"`
	PayFmtFlag bool        `json:"pay_fmt_flag,omitempty"`
	MsgExpiry  uint32      `json:"msg_expiry,omitempty"`
	Content    string      `json:"content,omitempty"`
	RespTopic  string      `json:"resp_topic,omitempty"`
	Corr       string      `json:"corr,omitempty"`
	SubIDs     []int       `json:"sub_ids,omitempty"`
	Alias      uint16      `json:"alias,omitempty"`
	User       [][2]string `json:"user,omitempty"`
}

type c22Sys struct {
	Version  string `json:"version,omitempty"`
	Started  int64  `json:"started,omitempty"`
	Uptime   int64  `json:"uptime,omitempty"`
	BytesIn  int64  `json:"bytes_in,omitempty"`
	Clients  int64  `json:"clients,omitempty"`
	Retained int64  `json:"retained,omitempty"`
	Inflight int64  `json:"inflight,omitempty"`
	Subs     int64  `json:"subs,omitempty"`
	Threads  int64  `json:"threads,omitempty"`
}

// Event kinds: est disc sub unsub retain qpub qcomp qdrop cexp rexp will sys (hook events), mut (the broker
// changes the client object between two hook events, as it really does: the will is cleared on a clean DISCONNECT
// and once sent, a v5 DISCONNECT may carry a new session expiry), reopen (Stop + Init on the same store).
type c22Ev struct {
	K       string      `json:"k"`
	C       int         `json:"c,omitempty"`       // connection index
	Expire  bool        `json:"expire,omitempty"`  // disc
	Cause   string      `json:"cause,omitempty"`   // disc: "", takeover, shutdown, eof, disconnect (what the connection was stopped with)
	Filters []c22Filter `json:"filters,omitempty"` // sub, unsub
	Msg     *c22Msg     `json:"msg,omitempty"`     // retain, qpub, qcomp, qdrop, will
	R       int64       `json:"r,omitempty"`       // retain: 1 stored, 0 unchanged, -1 cleared
	Sent    int64       `json:"sent,omitempty"`    // qpub
	Resends int         `json:"resends,omitempty"` // qpub
	Topic   *kstr       `json:"topic,omitempty"`   // rexp
	Mut     string      `json:"mut,omitempty"`     // mut: clearwill, willflag0, expiry
	Val     uint32      `json:"val,omitempty"`     // mut expiry value
	Sys     *c22Sys     `json:"sys,omitempty"`     // sys
}

type c22Case struct {
	Conns []c22Conn `json:"conns"`
	Evs   []c22Ev   `json:"evs"`
}

// ---- the four backends -------------------------------------------------------------------------------

var c22Names = []string{"badger", "pebble", "bolt", "redis"}

type c22Backend struct {
	name string
	mk   func() (mqtt.Hook, any)
	hook mqtt.Hook
	log  *bytes.Buffer
	cls  []*mqtt.Client
	// stopErr is what the last Stop() before a reopen returned
	stopErr error
}

var c22Srv = mqtt.New(&mqtt.Options{Logger: slog.New(slog.NewTextHandler(io.Discard, nil))})

func (b *c22Backend) open() error {
	h, cfg := b.mk()
	h.SetOpts(slog.New(slog.NewTextHandler(b.log, &slog.HandlerOptions{Level: slog.LevelError})), &mqtt.HookOptions{Capabilities: c22Srv.Options.Capabilities})
	if err := h.Init(cfg); err != nil {
		return fmt.Errorf("%s: init: %w", b.name, err)
	}
	b.hook = h
	return nil
}

func (b *c22Backend) close() error {
	if b.hook == nil {
		return nil
	}
	h := b.hook
	b.hook = nil
	return h.Stop()
}

type c22Env struct {
	dir string
	mr  *miniredis.Miniredis
	bs  []*c22Backend
}

// c22NewEnv opens the four stores. Allocating and clearing the arenas of badger's default 64 MiB memtable is most of
// the cost of a case, and the memtable size matters only as the bound of the largest single write (15% of it), so:
// size 0 (every record of the case is tiny) = 2 MiB memtable with the 128 KiB value threshold such a memtable requires;
// size 1 (padded keys: records up to ~330 KiB) = 8 MiB memtable (writes up to 1.2 MiB), default value threshold;
// size 2 (padded payloads) = exactly the hook's default configuration.
func c22NewEnv(size int) (*c22Env, error) {
	// Stores live on tmpfs when there is one: creating and closing badger/pebble/bolt stores fsyncs, which on a busy
	// disk costs seconds per case; durability under power loss is outside the statement.
	base := os.Getenv("VERIF_C22_DIR")
	if base == "" {
		if st, err := os.Stat("/dev/shm"); err == nil && st.IsDir() {
			base = "/dev/shm"
		} else {
			base = os.TempDir()
		}
	}
	dir, err := os.MkdirTemp(base, "c22-store-")
	if err != nil && base != os.TempDir() {
		dir, err = os.MkdirTemp(os.TempDir(), "c22-store-")
	}
	if err != nil {
		return nil, err
	}
	mr := miniredis.NewMiniRedis()
	if err := mr.Start(); err != nil {
		os.RemoveAll(dir)
		return nil, err
	}
	e := &c22Env{dir: dir, mr: mr}
	e.bs = []*c22Backend{
		{name: "badger", mk: func() (mqtt.Hook, any) {
			cfg := &badger.Options{Path: filepath.Join(dir, "badger")}
			switch size {
			case 0:
				o := badgerdb.DefaultOptions(cfg.Path).WithMemTableSize(2 << 20).WithValueThreshold(128 << 10)
				cfg.Options = &o
			case 1:
				o := badgerdb.DefaultOptions(cfg.Path).WithMemTableSize(8 << 20)
				cfg.Options = &o
			}
			return new(badger.Hook), cfg
		}},
		{name: "pebble", mk: func() (mqtt.Hook, any) {
			return new(pebble.Hook), &pebble.Options{Path: filepath.Join(dir, "pebble")}
		}},
		{name: "bolt", mk: func() (mqtt.Hook, any) {
			return new(bolt.Hook), &bolt.Options{Path: filepath.Join(dir, "bolt.db")}
		}},
		{name: "redis", mk: func() (mqtt.Hook, any) {
			return new(redis.Hook), &redis.Options{Address: mr.Addr()}
		}},
	}
	for _, b := range e.bs {
		b.log = &bytes.Buffer{}
		if err := b.open(); err != nil {
			e.Close()
			return nil, err
		}
	}
	return e, nil
}

func (e *c22Env) Close() {
	for _, b := range e.bs {
		for _, cl := range b.cls {
			cl.Stop(nil) // releases the client's context
		}
		_ = b.close()
	}
	e.mr.Close()
	os.RemoveAll(e.dir)
}

func c22Users(u [][2]string) []packets.UserProperty {
	if len(u) == 0 {
		return nil
	}
	out := make([]packets.UserProperty, len(u))
	for i, kv := range u {
		out[i] = packets.UserProperty{Key: kv[0], Val: kv[1]}
	}
	return out
}

func c22Bytes(s string) []byte {
	if s == "" {
		return nil
	}
	return []byte(s)
}

func c22Client(c c22Conn) *mqtt.Client {
	cl := c22Srv.NewClient(nil, c.Listener, c.ID.str(), false)
	cl.Net.Remote = c.Remote
	cl.Properties.ProtocolVersion = c.Ver
	cl.Properties.Clean = c.Clean
	cl.Properties.Username = c22Bytes(c.Username)
	cl.Properties.Props = packets.Properties{
		SessionExpiryInterval:     c.Expiry,
		SessionExpiryIntervalFlag: c.ExpiryFlag,
		AuthenticationMethod:      c.AuthMethod,
		AuthenticationData:        c22Bytes(c.AuthData),
		RequestProblemInfo:        c.ReqProblem,
		RequestProblemInfoFlag:    c.ReqProbFl,
		RequestResponseInfo:       c.ReqResp,
		ReceiveMaximum:            c.RecvMax,
		TopicAliasMaximum:         c.AliasMax,
		MaximumPacketSize:         c.MaxPacket,
		User:                      c22Users(c.User),
	}
	if w := c.Will; w != nil {
		cl.Properties.Will = mqtt.Will{Flag: 1, TopicName: w.Topic, Payload: c22Bytes(w.Payload), Qos: w.Qos, Retain: w.Retain,
			WillDelayInterval: w.Delay, User: c22Users(w.User)}
	}
	return cl
}

func c22Packet(m *c22Msg) packets.Packet {
	if m == nil {
		return packets.Packet{}
	}
	pk := packets.Packet{
		FixedHeader:     packets.FixedHeader{Type: m.Type, Qos: m.Qos, Retain: m.Retain, Dup: m.Dup, Remaining: m.Remaining},
		TopicName:       m.Topic.str(),
		PacketID:        m.PID,
		Created:         m.Created,
		Expiry:          m.Expiry,
		Origin:          m.Origin,
		ProtocolVersion: m.Ver,
		Properties: packets.Properties{
			PayloadFormat:          m.PayFmt,
			PayloadFormatFlag:      m.PayFmtFlag,
			MessageExpiryInterval:  m.MsgExpiry,
			ContentType:            m.Content,
			ResponseTopic:          m.RespTopic,
			CorrelationData:        c22Bytes(m.Corr),
			SubscriptionIdentifier: append([]int(nil), m.SubIDs...),
			TopicAlias:             m.Alias,
			User:                   c22Users(m.User),
		},
	}
	switch {
	case m.NilPayload:
	case m.PayPad > 0:
		pk.Payload = []byte(m.Payload + strings.Repeat("p", m.PayPad))
	default:
		pk.Payload = []byte(m.Payload)
	}
	return pk
}

func c22Cause(s string) error {
	switch s {
	case "takeover":
		return packets.ErrSessionTakenOver
	case "shutdown":
		return packets.ErrServerShuttingDown
	case "eof":
		return io.EOF
	case "disconnect":
		return packets.CodeDisconnect
	}
	return nil
}

// apply hands one event to one backend.
func (b *c22Backend) apply(ev c22Ev) error {
	var cl *mqtt.Client
	if ev.C >= 0 && ev.C < len(b.cls) {
		cl = b.cls[ev.C]
	}
	h := b.hook
	switch ev.K {
	case "est":
		h.OnSessionEstablished(cl, packets.Packet{FixedHeader: packets.FixedHeader{Type: packets.Connect}})
	case "disc":
		cause := c22Cause(ev.Cause)
		cl.Stop(cause) // the first stop cause of a connection sticks, as in the broker
		h.OnDisconnect(cl, cause, ev.Expire)
	case "sub", "unsub":
		pk := packets.Packet{FixedHeader: packets.FixedHeader{Type: packets.Subscribe, Qos: 1}, PacketID: 7}
		codes := []byte{}
		for _, f := range ev.Filters {
			pk.Filters = append(pk.Filters, packets.Subscription{Filter: f.F.str(), Qos: f.Qos, Identifier: f.Ident, NoLocal: f.NoLocal,
				RetainAsPublished: f.RAP, RetainHandling: f.RH})
			codes = append(codes, f.Code)
		}
		if ev.K == "sub" {
			h.OnSubscribed(cl, pk, codes)
		} else {
			pk.FixedHeader.Type = packets.Unsubscribe
			h.OnUnsubscribed(cl, pk)
		}
	case "retain":
		h.OnRetainMessage(cl, c22Packet(ev.Msg), ev.R)
	case "qpub":
		h.OnQosPublish(cl, c22Packet(ev.Msg), ev.Sent, ev.Resends)
	case "qcomp":
		h.OnQosComplete(cl, c22Packet(ev.Msg))
	case "qdrop":
		h.OnQosDropped(cl, c22Packet(ev.Msg))
	case "cexp":
		h.OnClientExpired(cl)
	case "rexp":
		h.OnRetainedExpired(ev.Topic.str())
	case "will":
		h.OnWillSent(cl, c22Packet(ev.Msg))
	case "sys":
		s := ev.Sys
		h.OnSysInfoTick(&system.Info{Version: s.Version, Started: s.Started, Uptime: s.Uptime, BytesReceived: s.BytesIn,
			ClientsConnected: s.Clients, Retained: s.Retained, Inflight: s.Inflight, Subscriptions: s.Subs, Threads: s.Threads})
	case "mut":
		switch ev.Mut {
		case "clearwill":
			cl.Properties.Will = mqtt.Will{}
		case "willflag0":
			cl.Properties.Will.Flag = 0
		case "expiry":
			cl.Properties.Props.SessionExpiryInterval = ev.Val
			cl.Properties.Props.SessionExpiryIntervalFlag = true
		}
	case "reopen":
		// what Stop() returns is outside the statement (pebble's reports the iterators its Stored*() never close);
		// it is recorded, not judged. A store that cannot be opened again is judged by the caller.
		b.stopErr = b.close()
		return b.open()
	default:
		return fmt.Errorf("unknown event kind %q", ev.K)
	}
	return nil
}

// ---- reading back and normalising ----------------------------------------------------------------------

var c22Cats = []string{"client", "subscription", "retained", "inflight", "sysinfo"}

// c22Snap is one backend's stored state: category -> item identity -> flattened field path -> JSON value.
type c22Snap map[string]map[string]map[string]string

func c22Flatten(prefix string, v any, out map[string]string) {
	if m, ok := v.(map[string]any); ok {
		for k, x := range m {
			p := k
			if prefix != "" {
				p = prefix + "." + k
			}
			c22Flatten(p, x, out)
		}
		return
	}
	b, _ := json.Marshal(v)
	s := string(b)
	// a field that is absent (omitempty) and one holding its zero value are the same stored value
	if s == "null" || s == "0" || s == `""` || s == "false" || s == "[]" {
		return
	}
	out[prefix] = s
}

// c22Item normalises one stored record: JSON form, flattened; the storage-key field "id" of subscriptions and messages
// has the backend's documented type prefix ("SUB_", "RET_", "IFM_"; redis keeps one hash per type instead) removed.
// Returns the identity (normalised storage key; client id for clients) and the flattened fields.
func c22Item(backend, cat string, rec any) (string, map[string]string, error) {
	b, err := json.Marshal(rec)
	if err != nil {
		return "", nil, err
	}
	var m map[string]any
	d := json.NewDecoder(bytes.NewReader(b))
	d.UseNumber()
	if err := d.Decode(&m); err != nil {
		return "", nil, err
	}
	id, _ := m["id"].(string)
	if backend != "redis" {
		pfx := map[string]string{"subscription": storage.SubscriptionKey + "_", "retained": storage.RetainedKey + "_", "inflight": storage.InflightKey + "_"}[cat]
		if pfx != "" && strings.HasPrefix(id, pfx) {
			id = id[len(pfx):]
			m["id"] = id
		}
	}
	out := map[string]string{}
	c22Flatten("", m, out)
	return id, out, nil
}

func (b *c22Backend) snapshot() (c22Snap, map[string]string) {
	s := c22Snap{}
	errs := map[string]string{}
	for _, c := range c22Cats {
		s[c] = map[string]map[string]string{}
	}
	add := func(cat string, rec any) {
		id, fields, err := c22Item(b.name, cat, rec)
		if err != nil {
			errs[cat] = "normalise: " + err.Error()
			return
		}
		for n := 2; s[cat][id] != nil; n++ { // the same identity twice: keep both, so that it shows up
			id = fmt.Sprintf("%s#%d", id, n)
		}
		s[cat][id] = fields
	}
	h := b.hook
	if v, err := h.StoredClients(); err != nil {
		errs["client"] = err.Error()
	} else {
		for _, x := range v {
			add("client", x)
		}
	}
	if v, err := h.StoredSubscriptions(); err != nil {
		errs["subscription"] = err.Error()
	} else {
		for _, x := range v {
			add("subscription", x)
		}
	}
	if v, err := h.StoredRetainedMessages(); err != nil {
		errs["retained"] = err.Error()
	} else {
		for _, x := range v {
			add("retained", x)
		}
	}
	if v, err := h.StoredInflightMessages(); err != nil {
		errs["inflight"] = err.Error()
	} else {
		for _, x := range v {
			add("inflight", x)
		}
	}
	if v, err := h.StoredSysInfo(); err != nil {
		errs["sysinfo"] = err.Error()
	} else if v.ID != "" || v.T != "" || v.Info != (system.Info{}) {
		_, fields, _ := c22Item(b.name, "sysinfo", v)
		s["sysinfo"]["sys"] = fields
	}
	return s, errs
}

// c22Partition groups the backends by value and names the disagreement: the minority backends when one group is
// strictly the largest, the whole split otherwise (a 2:2 split has no minority; the differential cannot say which
// pair is right).
func c22Partition(vals []string) (desc string, equal bool) {
	groups := [][]string{}
	byVal := map[string]int{}
	for i, v := range vals {
		g, ok := byVal[v]
		if !ok {
			g = len(groups)
			byVal[v] = g
			groups = append(groups, nil)
		}
		groups[g] = append(groups[g], c22Names[i])
	}
	if len(groups) == 1 {
		return "", true
	}
	big, bigN, tie := 0, 0, false
	for i, g := range groups {
		if len(g) > bigN {
			big, bigN, tie = i, len(g), false
		} else if len(g) == bigN {
			tie = true
		}
	}
	if tie {
		parts := []string{}
		for _, g := range groups {
			parts = append(parts, strings.Join(g, "+"))
		}
		return "split-" + strings.Join(parts, "_vs_"), false
	}
	minority := []string{}
	for i, n := range c22Names {
		if g := byVal[vals[i]]; g != big {
			minority = append(minority, n)
		}
	}
	return strings.Join(minority, "+") + "-differs", false
}

func c22ShortID(s string) string {
	if len(s) > 48 {
		return fmt.Sprintf("%s...(%d bytes)", s[:24], len(s))
	}
	return s
}

func c22Short(s string) string {
	if len(s) > 300 {
		return fmt.Sprintf("%s...(%d bytes)", s[:260], len(s))
	}
	return s
}

const c22LongKey = 30000 // identities longer than this belong to the long-key class (own signature)

// c22Compare compares the four snapshots and returns the disagreements that were not present before (seen), each
// attributed to the event kind after which it first appeared. bigValue: the event carried a multi-megabyte payload.
func c22Compare(snaps []c22Snap, errs []map[string]string, evKind string, evIdx int, bigValue bool, seen map[string]bool) []evid.Disc {
	var ds []evid.Disc
	report := func(cat, id, path string, vals []string) {
		desc, eq := c22Partition(vals)
		if eq {
			return
		}
		key := cat + "\x00" + id + "\x00" + path + "\x00" + desc
		if seen[key] {
			return
		}
		seen[key] = true
		sig := fmt.Sprintf("C22-%s-on-%s-%s-%s", desc, evKind, cat, path)
		switch {
		case path == "presence" && len(id) > c22LongKey:
			// one mechanism whatever the record type: the backend's engine refuses keys beyond its own limit
			sig = fmt.Sprintf("C22-%s-long-key-not-stored", desc)
		case path == "presence" && bigValue:
			sig = fmt.Sprintf("C22-%s-big-value-not-stored", desc)
		}
		show := []string{}
		for i, v := range vals {
			show = append(show, c22Names[i]+"="+c22Short(v))
		}
		ds = append(ds, evid.D(sig, "after event #%d (%s): %s %q field %q: %s", evIdx, evKind, cat, c22ShortID(id), path, strings.Join(show, "  ")))
	}
	for _, cat := range c22Cats {
		ev := make([]string, len(snaps))
		for i := range snaps {
			ev[i] = errs[i][cat]
		}
		report(cat, "", "error", ev)
		ids := map[string]bool{}
		for _, s := range snaps {
			for id := range s[cat] {
				ids[id] = true
			}
		}
		sorted := make([]string, 0, len(ids))
		for id := range ids {
			sorted = append(sorted, id)
		}
		sort.Strings(sorted)
		for _, id := range sorted {
			present := make([]string, len(snaps))
			all := true
			for i, s := range snaps {
				if s[cat][id] != nil {
					present[i] = "present"
				} else {
					present[i] = "absent"
					all = false
				}
			}
			if cat == "client" && (all || len(id) <= c22LongKey) {
				// one signature per client record: which field differs (or whether the record exists at all) depends
				// only on what the connection object looked like when the deviating write or non-write happened
				whole := make([]string, len(snaps))
				for i, s := range snaps {
					if f := s[cat][id]; f != nil {
						b, _ := json.Marshal(f)
						whole[i] = string(b)
					} else {
						whole[i] = "<absent>"
					}
				}
				report(cat, id, "record", whole)
				continue
			}
			if !all {
				report(cat, id, "presence", present)
				continue
			}
			paths := map[string]bool{}
			for _, s := range snaps {
				for p := range s[cat][id] {
					paths[p] = true
				}
			}
			ps := make([]string, 0, len(paths))
			for p := range paths {
				ps = append(ps, p)
			}
			sort.Strings(ps)
			for _, p := range ps {
				vals := make([]string, len(snaps))
				for i, s := range snaps {
					vals[i] = s[cat][id][p]
				}
				report(cat, id, p, vals)
			}
		}
	}
	return ds
}

// ---- the check -----------------------------------------------------------------------------------------

const c22BigValue = 4 << 20 // payloads from here on belong to the big-value class (own signature)

var c22Budget = 60 * time.Second // per case; hitting it is inconclusive, never a violation

func c22Check(c c22Case, r *evid.Rec) []evid.Disc {
	if len(c.Conns) == 0 {
		return nil
	}
	for _, ev := range c.Evs {
		if ev.C < 0 || ev.C >= len(c.Conns) {
			return nil
		}
	}
	size := 0
	for _, cn := range c.Conns {
		if cn.ID.Pad > 0 {
			size = 1
		}
	}
	for _, ev := range c.Evs {
		if ev.Msg != nil && ev.Msg.Topic.Pad > 0 || ev.Topic != nil && ev.Topic.Pad > 0 {
			size = 1
		}
		for _, f := range ev.Filters {
			if f.F.Pad > 0 {
				size = 1
			}
		}
	}
	for _, ev := range c.Evs {
		if ev.Msg != nil && ev.Msg.PayPad > 0 {
			size = 2
		}
	}
	r.Label(fmt.Sprintf("badger-config-%d", size))
	r.Label("cases")
	env, err := c22NewEnv(size)
	if err != nil {
		r.Inconclusive("storage environment could not be created: " + err.Error())
		return nil
	}
	defer env.Close()
	for _, b := range env.bs {
		for _, cn := range c.Conns {
			b.cls = append(b.cls, c22Client(cn))
		}
	}

	// what the sequence exercises (labels and the non-trivial rule); a tiny book of the keys written so far
	written := map[string]bool{}
	subPairs := map[string]string{} // id+":"+filter -> id\x00filter of the first pair that produced it
	classes := map[string]bool{}
	established := map[string]int{} // client id -> connection that last established it
	mutated := map[int]bool{}
	cid := func(i int) string { return c.Conns[i].ID.str() }

	start := time.Now()
	seen := map[string]bool{}
	sigSeen := map[string]bool{}
	var ds []evid.Disc
	for i, ev := range c.Evs {
		if time.Since(start) > c22Budget {
			// an overloaded machine: the case is abandoned and counted; the run is inconclusive only if that happens to
			// more than one case in a hundred (never a verdict either way)
			r.Label("case-abandoned-time-budget")
			r.NotAsserted()
			if n := r.LabelCount("case-abandoned-time-budget"); n > 3 && n*100 > r.LabelCount("cases") {
				r.Inconclusive("per-case time budget exceeded by more than 1% of the cases")
			}
			return nil
		}
		applyLogs := []string{}
		for _, b := range env.bs {
			b.log.Reset()
			err := b.apply(ev)
			if b.log.Len() > 0 {
				applyLogs = append(applyLogs, b.name+" logged: "+c22Short(strings.TrimSpace(b.log.String())))
			}
			if b.stopErr != nil {
				r.Label("stop-returned-error:" + b.name)
				r.Set("stop_error_"+b.name, c22Short(b.stopErr.Error()))
				b.stopErr = nil
			}
			if err != nil {
				if ev.K == "reopen" {
					// a store that cannot be opened again cannot be read back at all
					ds = append(ds, evid.D("C22-"+b.name+"-reopen-fails", "event #%d: %v", i, err))
					return ds
				}
				r.Inconclusive("harness error: " + err.Error())
				return nil
			}
		}
		// bookkeeping
		r.LabelN("ev:"+ev.K, 1)
		switch ev.K {
		case "est":
			if prev, ok := established[cid(ev.C)]; ok && prev != ev.C {
				classes["second-connection-same-id"] = true
			}
			established[cid(ev.C)] = ev.C
			written["CL|"+cid(ev.C)] = true
		case "disc":
			if mutated[ev.C] {
				classes["disconnect-after-client-changed"] = true
			}
			if cur, ok := established[cid(ev.C)]; ok && cur != ev.C {
				classes["old-connection-event-after-takeover"] = true
			}
			if ev.Expire && ev.Cause != "takeover" && written["CL|"+cid(ev.C)] {
				classes["removal"] = true
			}
			if ev.Cause == "takeover" {
				classes["takeover-disconnect"] = true
			}
		case "sub", "unsub":
			for _, f := range ev.Filters {
				k := cid(ev.C) + ":" + f.F.str()
				pair := cid(ev.C) + "\x00" + f.F.str()
				if p, ok := subPairs[k]; ok && p != pair {
					classes["key-collision-candidate"] = true
				} else if !ok {
					subPairs[k] = pair
				}
				if ev.K == "sub" {
					if written["SUB|"+k] {
						classes["overwrite"] = true
					}
					written["SUB|"+k] = true
					if f.Code >= 0x80 {
						classes["refused-subscription"] = true
					}
				} else if written["SUB|"+k] {
					classes["removal"] = true
				}
			}
		case "retain":
			k := "RET|" + ev.Msg.Topic.str()
			if ev.R == -1 {
				if written[k] {
					classes["removal"] = true
				}
			} else {
				if written[k] {
					classes["overwrite"] = true
				}
				written[k] = true
			}
		case "rexp":
			if written["RET|"+ev.Topic.str()] {
				classes["removal"] = true
			}
		case "qpub":
			k := fmt.Sprintf("IFM|%s:%d", cid(ev.C), ev.Msg.PID)
			if written[k] {
				classes["overwrite"] = true
			}
			written[k] = true
		case "qcomp", "qdrop":
			if written[fmt.Sprintf("IFM|%s:%d", cid(ev.C), ev.Msg.PID)] {
				classes["removal"] = true
			}
		case "cexp":
			if written["CL|"+cid(ev.C)] {
				classes["removal"] = true
			}
		case "mut":
			mutated[ev.C] = true
		case "reopen":
			classes["reopen"] = true
		}
		if ev.K == "mut" {
			continue // no hook event happened
		}
		snaps := make([]c22Snap, len(env.bs))
		errs := make([]map[string]string, len(env.bs))
		for j, b := range env.bs {
			snaps[j], errs[j] = b.snapshot()
		}
		for _, d := range c22Compare(snaps, errs, ev.K, i, ev.Msg != nil && ev.Msg.PayPad >= c22BigValue, seen) {
			if !sigSeen[d.Sig] {
				sigSeen[d.Sig] = true
				if len(applyLogs) > 0 {
					d.Msg += " | " + strings.Join(applyLogs, " | ")
				}
				ds = append(ds, d)
			}
		}
	}
	for _, cn := range c.Conns {
		if cn.ID.Pad > 0 {
			classes["long-key"] = true
		}
	}
	for _, ev := range c.Evs {
		if ev.Msg != nil && (ev.Msg.Topic.Pad > 0 || ev.Msg.PayPad > 0) {
			classes["long-key"] = classes["long-key"] || ev.Msg.Topic.Pad > 0
			classes["big-payload"] = classes["big-payload"] || ev.Msg.PayPad > 0
		}
		for _, f := range ev.Filters {
			if f.F.Pad > 0 {
				classes["long-key"] = true
			}
		}
	}
	for k, on := range classes {
		if on {
			r.Label(k)
		}
	}
	if classes["removal"] || classes["key-collision-candidate"] {
		b, _ := json.Marshal(c)
		r.NonTrivial(string(b))
	} else {
		r.Label("trivial")
	}
	return ds
}

// ---- generator -----------------------------------------------------------------------------------------

var (
	c22IDs      = []string{"a", "a:b", "a", "a_b", "b", "a:b:c", "é", "日/x", "CL_a", "SUB_a", "a:1", "inline"}
	c22Flt      = []string{"c", "b:c", "c", "b", "c:d", "a/b", "a/+", "#", "+/é", "$share/g/a", "日/#", "1", "b:c:d"}
	c22Topics   = []string{"a", "a/b", "a", "a:b", "t_1", "é/日", "RET_a", "a/b/c", "$SYS/x", "b"}
	c22Payloads = []string{"", "x", "hello", "{\"k\":1}", "é日", "\x00\x01"}
	// lengths around the largest key bolt (32768 bytes) and badger (65000 bytes) accept, minus the type prefix
	// payload sizes whose stored JSON form lies below / above badger's 1 MiB value-log threshold; the thorough tier adds
	// one beyond the 15%-of-memtable transaction budget (badger counts only a pointer for such values: it is stored)
	c22PayPads = []int{70000, 800000, 1<<20 + 4096}
	c22Pads    = []int{32700, 32758, 32762, 32764, 32766, 32780, 64900, 64990, 64994, 64996, 64998, 65010, 65400}
)

func c22GenUsers(rt *rapid.T, label string) [][2]string {
	n := rapid.SampledFrom([]int{0, 0, 0, 1, 2}).Draw(rt, label+"n")
	var out [][2]string
	for i := 0; i < n; i++ {
		out = append(out, [2]string{rapid.SampledFrom([]string{"k", "k2", "é"}).Draw(rt, label+"k"), rapid.SampledFrom([]string{"v", "", "日"}).Draw(rt, label+"v")})
	}
	return out
}

func c22GenConn(rt *rapid.T, long bool) c22Conn {
	c := c22Conn{ID: kstr{S: rapid.SampledFrom(c22IDs).Draw(rt, "id")}}
	if long && rapid.IntRange(0, 2).Draw(rt, "longid") == 0 {
		c.ID.Pad = rapid.SampledFrom(c22Pads).Draw(rt, "idpad")
	}
	c.Ver = rapid.SampledFrom([]byte{3, 4, 5, 5}).Draw(rt, "ver")
	c.Clean = rapid.Bool().Draw(rt, "clean")
	c.Username = rapid.SampledFrom([]string{"", "", "u", "é"}).Draw(rt, "user")
	c.Remote = rapid.SampledFrom([]string{"10.0.0.1:1", "10.0.0.2:9", ""}).Draw(rt, "remote")
	c.Listener = rapid.SampledFrom([]string{"t1", "ws1"}).Draw(rt, "listener")
	if c.Ver == 5 {
		c.Expiry = rapid.SampledFrom([]uint32{0, 0, 60, 4294967295}).Draw(rt, "expiry")
		c.ExpiryFlag = c.Expiry > 0 || rapid.Bool().Draw(rt, "expflag")
		if rapid.IntRange(0, 2).Draw(rt, "props") == 0 {
			c.AuthMethod = rapid.SampledFrom([]string{"", "m"}).Draw(rt, "am")
			c.AuthData = rapid.SampledFrom([]string{"", "d"}).Draw(rt, "ad")
			c.ReqProblem = byte(rapid.IntRange(0, 1).Draw(rt, "rp"))
			c.ReqProbFl = rapid.Bool().Draw(rt, "rpf")
			c.ReqResp = byte(rapid.IntRange(0, 1).Draw(rt, "rr"))
			c.RecvMax = rapid.SampledFrom([]uint16{0, 1, 10, 65535}).Draw(rt, "rm")
			c.AliasMax = rapid.SampledFrom([]uint16{0, 5, 65535}).Draw(rt, "tam")
			c.MaxPacket = rapid.SampledFrom([]uint32{0, 100, 268435455}).Draw(rt, "mps")
			c.User = c22GenUsers(rt, "cu")
		}
	}
	if rapid.IntRange(0, 2).Draw(rt, "haswill") == 0 {
		c.Will = &c22Will{Topic: rapid.SampledFrom(c22Topics).Draw(rt, "wt"), Payload: rapid.SampledFrom(c22Payloads).Draw(rt, "wp"),
			Qos: byte(rapid.IntRange(0, 2).Draw(rt, "wq")), Retain: rapid.Bool().Draw(rt, "wr")}
		if c.Ver == 5 {
			c.Will.Delay = rapid.SampledFrom([]uint32{0, 0, 30}).Draw(rt, "wd")
			c.Will.User = c22GenUsers(rt, "wu")
		}
	}
	return c
}

func c22GenMsg(rt *rapid.T, topic kstr, pid uint16, big bool) *c22Msg {
	m := &c22Msg{Type: packets.Publish, Topic: topic, PID: pid}
	m.Payload = rapid.SampledFrom(c22Payloads).Draw(rt, "payload")
	if m.Payload == "" {
		m.NilPayload = rapid.Bool().Draw(rt, "nilpayload")
	}
	if big && rapid.IntRange(0, 3).Draw(rt, "bigp") == 0 {
		m.PayPad = rapid.SampledFrom(c22PayPads).Draw(rt, "paypad")
	}
	m.Qos = byte(rapid.IntRange(0, 2).Draw(rt, "qos"))
	m.Retain = rapid.Bool().Draw(rt, "retainflag")
	m.Dup = rapid.IntRange(0, 3).Draw(rt, "dup") == 0
	m.Remaining = rapid.SampledFrom([]int{0, 0, 12, 300}).Draw(rt, "remaining")
	m.Created = rapid.SampledFrom([]int64{0, 1700000000, 1700000060}).Draw(rt, "created")
	m.Expiry = rapid.SampledFrom([]int64{0, 0, 1700000100}).Draw(rt, "pkexpiry")
	m.Origin = rapid.SampledFrom([]string{"", "a", "a:b", "inline"}).Draw(rt, "origin")
	m.Ver = rapid.SampledFrom([]byte{0, 4, 5}).Draw(rt, "pkver")
	if rapid.IntRange(0, 2).Draw(rt, "mprops") == 0 {
		m.PayFmt = byte(rapid.IntRange(0, 1).Draw(rt, "pf"))
		m.PayFmtFlag = rapid.Bool().Draw(rt, "pff")
		m.MsgExpiry = rapid.SampledFrom([]uint32{0, 30, 4294967295}).Draw(rt, "me")
		m.Content = rapid.SampledFrom([]string{"", "text/plain"}).Draw(rt, "ct")
		m.RespTopic = rapid.SampledFrom([]string{"", "r/t"}).Draw(rt, "rt")
		m.Corr = rapid.SampledFrom([]string{"", "c1"}).Draw(rt, "corr")
		m.SubIDs = rapid.SampledFrom([][]int{nil, {1}, {3, 268435455}}).Draw(rt, "subids")
		m.Alias = rapid.SampledFrom([]uint16{0, 3}).Draw(rt, "alias")
		m.User = c22GenUsers(rt, "mu")
	}
	return m
}

func c22Gen(rt *rapid.T) c22Case {
	var c c22Case
	lc := rapid.IntRange(0, 15).Draw(rt, "longclass")
	long := lc == 9 || lc == 6 // rapid favours the ends of a range; middle values keep the class rare
	bc := rapid.IntRange(0, 59).Draw(rt, "bigclass")
	big := bc == 31 || bc == 17
	reopen := rapid.IntRange(0, 11).Draw(rt, "reopenclass") == 0
	// collision class: ids "a:b" and "a" with filters "c" and "b:c" share the subscription key "a:b:c"
	coll := !long && rapid.IntRange(0, 5).Draw(rt, "collisionclass") == 0
	nc := rapid.IntRange(1, 4).Draw(rt, "nconns")
	if coll && nc < 2 {
		nc = 2
	}
	for i := 0; i < nc; i++ {
		cn := c22GenConn(rt, long)
		if i > 0 && rapid.IntRange(0, 1).Draw(rt, "sameid") == 0 {
			cn.ID = c.Conns[rapid.IntRange(0, i-1).Draw(rt, "sameas")].ID // a later connection with the same client id
		}
		if coll && i < 2 {
			cn.ID = kstr{S: []string{"a:b", "a"}[i]}
		}
		c.Conns = append(c.Conns, cn)
	}
	flt := c22Flt
	if coll {
		flt = []string{"c", "b:c", "c:d", "b:c:d"}
	}
	maxEv := 40
	if big {
		maxEv = 8
	} else if long {
		maxEv = 12 // every comparison re-reads everything; keep the heavy classes short
	}
	n := rapid.IntRange(1, maxEv).Draw(rt, "nevents")
	// rapid favours the early entries of a SampledFrom list: removals first
	kinds := []string{"unsub", "qcomp", "disc", "rexp", "cexp", "qdrop", "retain", "sub", "qpub", "est", "mut", "will", "sys",
		"sub", "qpub", "retain", "disc", "est", "mut"}
	if long {
		// the long-key class asks one question (is a record under a 32 KiB / 64 KiB key stored, overwritten and removed
		// alike); events whose known disagreements would mix with the answer are left to the ordinary classes
		kinds = []string{"sub", "retain", "qpub", "est", "unsub", "rexp", "qcomp", "cexp", "qdrop", "sub", "retain", "qpub", "sys"}
	}
	if reopen {
		kinds = append(kinds, "reopen")
	}
	type subRef struct {
		c int
		f kstr
	}
	type pidRef struct {
		c   int
		pid uint16
	}
	var subs []subRef
	var topics []kstr
	var pids []pidRef
	genKey := func(alpha []string, label string) kstr {
		k := kstr{S: rapid.SampledFrom(alpha).Draw(rt, label)}
		if long && rapid.IntRange(0, 2).Draw(rt, label+"long") == 0 {
			k.Pad = rapid.SampledFrom(c22Pads).Draw(rt, label+"pad")
		}
		return k
	}
	for i := 0; i < n; i++ {
		ev := c22Ev{K: rapid.SampledFrom(kinds).Draw(rt, "kind"), C: rapid.IntRange(0, nc-1).Draw(rt, "conn")}
		switch ev.K {
		case "disc":
			cn := c.Conns[ev.C]
			ev.Expire = (cn.Ver == 5 && cn.Expiry == 0) || (cn.Ver < 5 && cn.Clean)
			if rapid.IntRange(0, 3).Draw(rt, "freeexpire") == 0 {
				ev.Expire = rapid.Bool().Draw(rt, "expire")
			}
			ev.Cause = rapid.SampledFrom([]string{"", "takeover", "takeover", "shutdown", "eof", "disconnect"}).Draw(rt, "cause")
		case "sub":
			nf := rapid.IntRange(1, 3).Draw(rt, "nfilters")
			for j := 0; j < nf; j++ {
				f := c22Filter{F: genKey(flt, "filter")}
				f.Qos = byte(rapid.IntRange(0, 2).Draw(rt, "fqos"))
				f.Code = f.Qos
				if rapid.IntRange(0, 5).Draw(rt, "refused") == 0 {
					f.Code = rapid.SampledFrom([]byte{0x80, 0x87, 0x8F, 0x91, 0x9E, 0xA1, 0xA2}).Draw(rt, "code")
				}
				if rapid.IntRange(0, 1).Draw(rt, "fopts") == 0 {
					f.Ident = rapid.SampledFrom([]int{0, 1, 268435455}).Draw(rt, "ident")
					f.NoLocal = rapid.Bool().Draw(rt, "nl")
					f.RAP = rapid.Bool().Draw(rt, "rap")
					f.RH = byte(rapid.IntRange(0, 2).Draw(rt, "rh"))
				}
				ev.Filters = append(ev.Filters, f)
				subs = append(subs, subRef{ev.C, f.F})
			}
		case "unsub":
			nf := rapid.IntRange(1, 3).Draw(rt, "nfilters")
			for j := 0; j < nf; j++ {
				if len(subs) > 0 && rapid.IntRange(0, 4).Draw(rt, "known") > 0 {
					s := rapid.SampledFrom(subs).Draw(rt, "subref")
					if j == 0 && rapid.IntRange(0, 3).Draw(rt, "sameconn") > 0 {
						ev.C = s.c
					}
					ev.Filters = append(ev.Filters, c22Filter{F: s.f})
				} else {
					ev.Filters = append(ev.Filters, c22Filter{F: genKey(flt, "filter")})
				}
			}
		case "retain":
			var tp kstr
			if len(topics) > 0 && rapid.IntRange(0, 2).Draw(rt, "known") > 0 {
				tp = rapid.SampledFrom(topics).Draw(rt, "topicref")
			} else {
				tp = genKey(c22Topics, "topic")
			}
			ev.Msg = c22GenMsg(rt, tp, 0, big)
			ev.Msg.Retain = true
			ev.R = rapid.SampledFrom([]int64{1, 1, 1, 0, -1, -1}).Draw(rt, "r")
			if ev.R != -1 {
				topics = append(topics, tp)
			}
		case "rexp":
			var tp kstr
			if len(topics) > 0 && rapid.IntRange(0, 4).Draw(rt, "known") > 0 {
				tp = rapid.SampledFrom(topics).Draw(rt, "topicref")
			} else {
				tp = genKey(c22Topics, "topic")
			}
			ev.Topic = &tp
		case "qpub":
			pid := rapid.SampledFrom([]uint16{1, 1, 2, 3, 10, 65535, 0}).Draw(rt, "pid")
			ev.Msg = c22GenMsg(rt, genKey(c22Topics, "topic"), pid, big)
			ev.Msg.Type = rapid.SampledFrom([]byte{packets.Publish, packets.Publish, packets.Pubrec, packets.Pubrel}).Draw(rt, "ptype")
			if ev.Msg.Qos == 0 {
				ev.Msg.Qos = 1
			}
			ev.Sent = rapid.SampledFrom([]int64{0, 1700000000, 1700000005}).Draw(rt, "sent")
			ev.Resends = rapid.IntRange(0, 2).Draw(rt, "resends")
			pids = append(pids, pidRef{ev.C, pid})
		case "qcomp", "qdrop":
			pid := rapid.SampledFrom([]uint16{1, 2, 3, 10, 65535, 0}).Draw(rt, "pid")
			if len(pids) > 0 && rapid.IntRange(0, 4).Draw(rt, "known") > 0 {
				p := rapid.SampledFrom(pids).Draw(rt, "pidref")
				pid = p.pid
				if rapid.IntRange(0, 3).Draw(rt, "sameconn") > 0 {
					ev.C = p.c
				}
			}
			// the broker hands over the acknowledgement packet, or (expiry) a bare packet with only the id
			ev.Msg = &c22Msg{Type: rapid.SampledFrom([]byte{packets.Puback, packets.Pubcomp, packets.Pubrec, 0}).Draw(rt, "acktype"), PID: pid}
		case "will":
			ev.Msg = c22GenMsg(rt, kstr{S: rapid.SampledFrom(c22Topics).Draw(rt, "wtopic")}, 0, false)
		case "sys":
			ev.Sys = &c22Sys{Version: rapid.SampledFrom([]string{"2.6.0", ""}).Draw(rt, "sysver"), Started: rapid.SampledFrom([]int64{0, 1700000000}).Draw(rt, "started"),
				Uptime: int64(rapid.IntRange(0, 3).Draw(rt, "uptime")), BytesIn: rapid.SampledFrom([]int64{0, 5, 1 << 40}).Draw(rt, "bytesin"),
				Clients: int64(rapid.IntRange(0, 2).Draw(rt, "sysclients")), Retained: int64(rapid.IntRange(0, 2).Draw(rt, "sysret")),
				Inflight: int64(rapid.IntRange(-1, 2).Draw(rt, "sysinf")), Subs: int64(rapid.IntRange(0, 2).Draw(rt, "syssubs")), Threads: int64(rapid.IntRange(0, 9).Draw(rt, "systhreads"))}
		case "mut":
			ev.Mut = rapid.SampledFrom([]string{"clearwill", "willflag0", "expiry"}).Draw(rt, "mut")
			if ev.Mut == "expiry" {
				ev.Val = rapid.SampledFrom([]uint32{0, 30, 4294967295}).Draw(rt, "mutval")
			}
		case "reopen":
			ev.C = 0
		}
		c.Evs = append(c.Evs, ev)
	}
	return c
}

// ---- test ------------------------------------------------------------------------------------------------

func TestC22(t *testing.T) {
	r := evid.New("C22", "rapid: 1-4 connection objects (ids from an alphabet with ':', '_', '/', non-ASCII and type-prefix look-alikes; several connections may share an id) and 1-40 events (session established, disconnect with expire flag and stop cause, subscribed 1-3 filters with granted/refused codes and v5 options, unsubscribed, retain set/unchanged/cleared, qos publish/complete/dropped, client expired, retained expired, will sent, sys tick, client-object changes between events, store reopen; removals biased to keys written earlier; rare classes with 32 KiB/64 KiB keys and 1 MiB payloads) applied identically to the badger, pebble, bolt and redis hooks on fresh stores; after EVERY hook event the five Stored*() results of all four are normalised (keyed by storage key with the documented type prefix removed, nil == empty, omitted == zero) and compared field by field; a disagreement names the minority backend(s) or the split, the event kind after which it first appeared, the record type and the field. Non-trivial = the sequence removes something written earlier or contains two (id, filter) pairs with the same id+':'+filter key; distinct by full case")
	defer r.Finish(t)
	r.Assume("miniredis (github.com/alicebob/miniredis/v2, the repository's own test dependency) stands in for a redis server")
	r.Assume("2:2 splits cannot be attributed to a backend by a differential oracle; they are reported as split-<pair>_vs_<pair>")
	if evid.Thorough() {
		c22PayPads = append(c22PayPads, 8<<20)
	}
	evid.Run(t, r, func(rt *rapid.T) c22Case {
		c := c22Gen(rt)
		r.Sample(c22Brief(c))
		return c
	}, c22Check)
}

// c22Brief is the printed form of a case used for evidence samples.
func c22Brief(c c22Case) string {
	parts := []string{}
	for i, cn := range c.Conns {
		parts = append(parts, fmt.Sprintf("conn%d=%q/v%d", i, c22ShortID(cn.ID.str()), cn.Ver))
	}
	for _, ev := range c.Evs {
		s := fmt.Sprintf("%s(%d", ev.K, ev.C)
		switch ev.K {
		case "disc":
			s += fmt.Sprintf(",expire=%v,%s", ev.Expire, ev.Cause)
		case "sub", "unsub":
			for _, f := range ev.Filters {
				s += fmt.Sprintf(",%q", c22ShortID(f.F.str()))
			}
		case "retain":
			s += fmt.Sprintf(",%q,r=%d", c22ShortID(ev.Msg.Topic.str()), ev.R)
		case "qpub", "qcomp", "qdrop":
			s += fmt.Sprintf(",pid=%d", ev.Msg.PID)
		case "rexp":
			s += fmt.Sprintf(",%q", c22ShortID(ev.Topic.str()))
		case "mut":
			s += "," + ev.Mut
		}
		parts = append(parts, s+")")
	}
	return strings.Join(parts, " ")
}
