package pc22

import (
	"fmt"
	"testing"
	"time"
)

func TestC22Timing(t *testing.T) {
	for i := 0; i < 5; i++ {
		t0 := time.Now()
		env, err := c22NewEnv()
		if err != nil {
			t.Fatal(err)
		}
		t1 := time.Now()
		var per [4]time.Duration
		for k := 0; k < 20; k++ {
			for j, b := range env.bs {
				s := time.Now()
				b.snapshot()
				per[j] += time.Since(s)
			}
		}
		t2 := time.Now()
		var cl [4]time.Duration
		for j, b := range env.bs {
			s := time.Now()
			b.close()
			cl[j] = time.Since(s)
		}
		env.Close()
		fmt.Println("open", t1.Sub(t0), "20 snaps", per, "close", cl, "total close", time.Since(t2))
	}
}
