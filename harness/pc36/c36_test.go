// Package pc36 holds the check of property C36 (shutdown closes every connection and waits for all handlers).
// A real broker (mqtt.New + allow-all auth + listeners.TCP on its own 127.x.y.z:0 + Serve) is started for every case;
// 4-40 real loopback TCP clients are driven to generated stages; Server.Close() runs at a generated point. The verif
// schedule points attach.start / attach.end count the connection handlers that are alive, and directed classes use
// them (and an ordinary mqtt.Hook) to place Close() at the places the free-running schedule reaches only by luck.
package pc36

import (
	"encoding/json"
	"errors"
	"fmt"
	"io"
	"log/slog"
	"net"
	"os"
	"runtime"
	"runtime/debug"
	"sort"
	"strconv"
	"strings"
	"sync"
	"sync/atomic"
	"syscall"
	"testing"
	"time"

	mqtt "github.com/mochi-mqtt/server/v2"
	"github.com/mochi-mqtt/server/v2/hooks/auth"
	"github.com/mochi-mqtt/server/v2/listeners"
	"github.com/mochi-mqtt/server/v2/packets"
	"pgregory.net/rapid"
	"verif/harness/evid"
	"verif/harness/refmqtt"
)

// ---- signatures ------------------------------------------------------------------------------------------

const (
	// Close() is permanently stuck: it waits in WaitGroup.Wait for handlers that are blocked reading connections which
	// have not sent a complete CONNECT and which Close never closed.
	sigHangPre = "C36-close-hangs-idle-preconnect-conn"
	// the same, but the stuck handler serves a connection whose CONNECT completed after Close had collected the clients
	sigHangEst = "C36-close-hangs-conn-established-during-close"
	// the same for a connection that was fully established (CONNACK received) before Close() was called
	sigHangSettled = "C36-close-hangs-established-conn-not-closed"
	// Close() is deadlocked inside the broker: Clients.GetByListener holds the read lock and calls Clients.Len, which
	// read-locks again behind a writer (Clients.Add / Delete of a connection handler) that waits for the first read lock
	sigDeadlock = "C36-close-deadlocks-in-clients-getbylistener-recursive-rlock"
	// Close() returned although a handler that had certainly registered in ClientsWg before Close() was called (it had
	// passed a schedule point behind ClientsWg.Add by then) was still alive
	sigRegisteredHandler = "C36-close-returned-before-registered-handler-finished"
	// Close() returned although a connection handler was alive (or a handler started afterwards)
	sigLiveHandler = "C36-close-returned-with-live-handler"
	// Close() returned although a connection handler was alive; that handler finished by itself shortly afterwards
	sigLateHandler = "C36-close-returned-before-handler-finished"
	// after Close() returned a client connection is still open and a handler keeps serving it
	sigOpenServed = "C36-conn-open-after-close-returned-served"
	// after Close() returned a client connection that the listener accepted is still open and no handler ever ran for it
	sigOpenUnserved = "C36-conn-open-after-close-returned-unserved"
	// a v5 client whose CONNACK arrived before Close() was called did not receive DISCONNECT 0x8B before the end
	sigNoDisconnect = "C36-v5-established-no-disconnect-8b"
	// the same for a v5 subscriber to which publishes were being written when Close() ran
	sigNoDisconnectBusy = "C36-v5-subscriber-under-traffic-no-disconnect-8b"
	// the listener's socket still accepts connections after Close() returned
	sigStillListening = "C36-listener-accepts-after-close-returned"
)

var (
	c36Grace       = 2 * time.Second  // every client must have seen EOF/reset this long after Close() returned
	c36CloseBudget = 15 * time.Second // Close() not returning: verdict only with a stuck proof, else inconclusive
)

// ---- case ------------------------------------------------------------------------------------------------

// Stages: "dial" (TCP connection only; reached when the broker has started a handler for it), "half" (likewise, plus the
// first Cut bytes of CONNECT), "est" (CONNECT, CONNACK received),
// "sub" (est + SUBSCRIBE c36/# acknowledged), "midpub" (est + first Cut bytes of a PUBLISH), "pump" (est + QoS 0
// PUBLISHes to c36/p written back to back until the connection ends), "gone-dial" / "gone-est" (the client closes its
// own connection after reaching dial / est), "window" (dial made by the harness from inside closeListenerClients).
type c36Client struct {
	Stage   string `json:"stage"`
	Ver     int    `json:"ver"`              // 4 or 5
	StartUs int    `json:"start_us"`         // delay before the dial
	Cut     int    `json:"cut,omitempty"`    // half / midpub: number of bytes sent (clamped to 1..len-1)
	Park    string `json:"park,omitempty"`   // verif schedule point at which this client's handler is held
	NoSend  bool   `json:"nosend,omitempty"` // parked client: send nothing (otherwise a complete CONNECT)
}

type c36Case struct {
	Class        string      `json:"class"` // free | idle-preconnect | park-start | late-establish | dial-in-close | lock-pressure
	Clients      []c36Client `json:"clients"`
	CloseAfter   int         `json:"close_after"`    // Close() is called once this many clients reached their stage
	CloseDelayUs int         `json:"close_delay_us"` // ... plus this delay
	// ImpatientMs > 0: clients that were not established before Close() was called close their own connection this long
	// after the call if Close() has not returned by then (the generator uses it while the hang is a listed finding).
	ImpatientMs int `json:"impatient_ms,omitempty"`
	// Release of parked handlers: "returned" (after Close() returned), "closing" (once a goroutine dump shows Close() in
	// ClientsWg.Wait, i.e. past closeListenerClients), "cleanup" (only when the case is torn down).
	Release string `json:"release,omitempty"`
	// lock-pressure: this many harness goroutines do what a connecting and disconnecting client's handler does to the
	// client registry (Server.Clients.Add / Delete, with clients of another listener id) in a loop while Close() runs
	Pressure    int `json:"pressure,omitempty"`
	WindowDials int `json:"window_dials,omitempty"` // dial-in-close: dials made from inside closeListenerClients
	HoldUs      int `json:"hold_us,omitempty"`      // ... and how long Close() is held there afterwards
	// OtherListener: the broker has a second TCP listener without clients of its own, and the dials made from inside
	// closeListenerClients go to it: connections that arrive through a listener that is still open while another one is
	// being closed (Server.Close has begun)
	OtherListener bool `json:"other_listener,omitempty"`
	// FailClose: the broker's listener is a listeners.Net around a net.Listener of the embedding program whose Close()
	// closes the socket and then reports an error (what a socket the owner has already shut, or a wrapper with its own
	// bookkeeping, does): the listener's clients must be disconnected all the same (seeded change C36-e)
	FailClose bool `json:"fail_close,omitempty"`
}

// failCloseListener: see c36Case.FailClose
type failCloseListener struct{ net.Listener }

func (f *failCloseListener) Close() error {
	_ = f.Listener.Close()
	return errors.New("listener close failed")
}

// ---- handler tracker (verif schedule hook) ----------------------------------------------------------------

type hinfo struct {
	remote     string
	last       string
	ended      bool
	startAfter bool // attach.start seen after Close() returned
	registered bool // had passed a schedule point behind ClientsWg.Add when Close() was called
}

type parkSlot struct {
	point    string
	parked   chan struct{}
	release  chan struct{}
	parkOnce sync.Once
	relOnce  sync.Once
}

type tracker struct {
	lid string

	mu                 sync.Mutex
	handlers           map[*mqtt.Client]*hinfo
	byRemote           map[string]*hinfo
	live               int
	closeReturned      bool
	liveAtReturn       []string // remotes of handlers alive when Close() returned
	registeredAtReturn []string // ... those of them that had certainly registered in ClientsWg before Close() was called
	startedAfter       []string // remotes of handlers that started after Close() returned

	hasParks bool
	pmu      sync.Mutex
	pcond    *sync.Cond
	parks    map[string]*parkSlot // by remote (= the client's local address); nil slot = registered, not parked
	aborted  bool
}

func newTracker(lid string, hasParks bool) *tracker {
	tr := &tracker{lid: lid, handlers: map[*mqtt.Client]*hinfo{}, byRemote: map[string]*hinfo{}, hasParks: hasParks, parks: map[string]*parkSlot{}}
	tr.pcond = sync.NewCond(&tr.pmu)
	return tr
}

func (tr *tracker) register(local string, slot *parkSlot) {
	tr.pmu.Lock()
	tr.parks[local] = slot
	tr.pmu.Unlock()
	tr.pcond.Broadcast()
}

func (tr *tracker) abortParks() {
	tr.pmu.Lock()
	tr.aborted = true
	for _, s := range tr.parks {
		if s != nil {
			s.relOnce.Do(func() { close(s.release) })
		}
	}
	tr.pmu.Unlock()
	tr.pcond.Broadcast()
}

// slotFor waits until the harness client owning the remote address has registered (it does so right after its dial
// returned), because the handler can reach attach.start before the dialling goroutine runs again.
func (tr *tracker) slotFor(remote string) *parkSlot {
	tr.pmu.Lock()
	defer tr.pmu.Unlock()
	for {
		if s, ok := tr.parks[remote]; ok {
			return s
		}
		if tr.aborted {
			return nil
		}
		tr.pcond.Wait()
	}
}

func (tr *tracker) hook(point string, cl *mqtt.Client) {
	if cl == nil || cl.Net.Listener != tr.lid {
		return
	}
	tr.mu.Lock()
	h := tr.handlers[cl]
	switch point {
	case "attach.start":
		h = &hinfo{remote: cl.Net.Remote}
		tr.handlers[cl] = h
		tr.byRemote[h.remote] = h
		tr.live++
		if tr.closeReturned {
			h.startAfter = true
			tr.startedAfter = append(tr.startedAfter, h.remote)
		}
	case "attach.end":
		if h != nil && !h.ended {
			h.ended = true
			tr.live--
		}
	}
	if h != nil {
		h.last = point
	}
	tr.mu.Unlock()
	if tr.hasParks && point != "attach.end" {
		if s := tr.slotFor(cl.Net.Remote); s != nil && s.point == point {
			s.parkOnce.Do(func() { close(s.parked) })
			<-s.release
		}
	}
}

// markCloseCalled notes which handlers have certainly executed ClientsWg.Add before Close() is called: those that
// have passed a schedule point behind it.
func (tr *tracker) markCloseCalled() {
	tr.mu.Lock()
	for _, h := range tr.handlers {
		if !h.ended && h.last != "attach.start" {
			h.registered = true
		}
	}
	tr.mu.Unlock()
}

func (tr *tracker) markReturned() {
	tr.mu.Lock()
	tr.closeReturned = true
	for _, h := range tr.handlers {
		if !h.ended {
			tr.liveAtReturn = append(tr.liveAtReturn, h.remote)
			if h.registered {
				tr.registeredAtReturn = append(tr.registeredAtReturn, h.remote)
			}
		}
	}
	sort.Strings(tr.liveAtReturn)
	tr.mu.Unlock()
}

func (tr *tracker) liveRemotes() []string {
	tr.mu.Lock()
	defer tr.mu.Unlock()
	var out []string
	for _, h := range tr.handlers {
		if !h.ended {
			out = append(out, h.remote)
		}
	}
	sort.Strings(out)
	return out
}

func (tr *tracker) liveCount() int { tr.mu.Lock(); defer tr.mu.Unlock(); return tr.live }

// handlerOf: (exists, ended, last point)
func (tr *tracker) handlerOf(remote string) (bool, bool, string) {
	tr.mu.Lock()
	defer tr.mu.Unlock()
	h := tr.byRemote[remote]
	if h == nil {
		return false, false, ""
	}
	return true, h.ended, h.last
}

// ---- hook used by the dial-in-close class: a schedule point inside closeListenerClients ----------------------

type closeWindowHook struct {
	mqtt.HookBase
	once sync.Once
	fn   func()
}

func (h *closeWindowHook) ID() string { return "c36-close-window" }
func (h *closeWindowHook) Provides(b byte) bool {
	return b == mqtt.OnPacketEncode
}
func (h *closeWindowHook) OnPacketEncode(cl *mqtt.Client, pk packets.Packet) packets.Packet {
	if pk.FixedHeader.Type == packets.Disconnect && pk.ReasonCode == packets.ErrServerShuttingDown.Code && h.fn != nil {
		h.once.Do(h.fn)
	}
	return pk
}

// ---- harness client ------------------------------------------------------------------------------------------

type cli struct {
	idx  int
	spec c36Client
	run  *c36Run
	addr string // "" = the case's main listener

	mu         sync.Mutex
	conn       net.Conn
	local      string
	dialErr    error
	rx         []byte
	ended      bool // the reader saw EOF or an error
	endErr     error
	selfClosed bool // the harness closed the connection (gone-*, impatient)
	left       bool // ... because Close() was still blocked after ImpatientMs
	abandoned  bool // ... to end a Close() that was proved permanently stuck
	stageOK    bool
	reachedAt  time.Time
	unacked    bool // the client has sent bytes the broker did not have to answer (partial packets, QoS 0 publishes)

	notify     chan struct{}
	endedCh    chan struct{}
	reachOnce  sync.Once
	scriptDone atomic.Bool
	slot       *parkSlot
}

func (c *cli) established() bool {
	switch c.spec.Stage {
	case "est", "sub", "midpub", "pump":
		return c.spec.Park == ""
	}
	return false
}

func (c *cli) markReached(ok bool) {
	c.reachOnce.Do(func() {
		c.mu.Lock()
		c.stageOK = ok
		c.reachedAt = time.Now()
		c.mu.Unlock()
		c.run.reachedCh <- c.idx
	})
}

func (c *cli) reader(conn net.Conn) {
	buf := make([]byte, 8192)
	for {
		n, err := conn.Read(buf)
		c.mu.Lock()
		if n > 0 {
			c.rx = append(c.rx, buf[:n]...)
		}
		if err != nil {
			c.ended = true
			c.endErr = err
			c.mu.Unlock()
			close(c.endedCh)
			return
		}
		c.mu.Unlock()
		select {
		case c.notify <- struct{}{}:
		default:
		}
	}
}

// frameAt parses one MQTT frame (fixed header + body) at rx[off:].
func frameAt(b []byte) (typ byte, body []byte, n int, ok bool) {
	if len(b) < 2 {
		return 0, nil, 0, false
	}
	rem, mul, i := 0, 1, 1
	for {
		if i >= len(b) || i > 4 {
			return 0, nil, 0, false
		}
		d := b[i]
		rem += int(d&0x7f) * mul
		mul *= 128
		i++
		if d&0x80 == 0 {
			break
		}
	}
	if len(b) < i+rem {
		return 0, nil, 0, false
	}
	return b[0] >> 4, b[i : i+rem], i + rem, true
}

// waitFrame waits for a complete frame at offset off of the received bytes.
func (c *cli) waitFrame(off int, d time.Duration) (typ byte, body []byte, next int, ok bool) {
	deadline := time.NewTimer(d)
	defer deadline.Stop()
	for {
		c.mu.Lock()
		var n int
		if off <= len(c.rx) {
			typ, body, n, ok = frameAt(c.rx[off:])
		}
		ended := c.ended
		c.mu.Unlock()
		if ok {
			return typ, append([]byte(nil), body...), off + n, true
		}
		if ended {
			return 0, nil, off, false
		}
		select {
		case <-c.notify:
		case <-c.endedCh:
		case <-c.run.stop:
			return 0, nil, off, false
		case <-deadline.C:
			return 0, nil, off, false
		}
	}
}

func (c *cli) closeSelf(left bool) {
	c.mu.Lock()
	conn := c.conn
	if conn != nil && !c.ended {
		c.selfClosed = true
		c.left = c.left || left
	}
	c.mu.Unlock()
	if conn != nil {
		_ = conn.Close()
	}
}

func (c *cli) connectBytes() []byte {
	return refmqtt.Encode(&refmqtt.Packet{Type: refmqtt.CONNECT, Version: byte(c.spec.Ver), ProtocolName: "MQTT", Level: byte(c.spec.Ver),
		CleanStart: true, KeepAlive: 0, ClientID: fmt.Sprintf("%s-c%d", c.run.lid, c.idx)}, refmqtt.Style{})
}

func cut(b []byte, n int) []byte {
	if len(b) < 2 {
		return b
	}
	if n < 1 {
		n = 1
	}
	if n > len(b)-1 {
		n = 1 + (n-1)%(len(b)-1)
	}
	return b[:n]
}

func (c *cli) sleepOrStop(d time.Duration) bool {
	if d <= 0 {
		return true
	}
	t := time.NewTimer(d)
	defer t.Stop()
	select {
	case <-t.C:
		return true
	case <-c.run.stop:
		return false
	}
}

// waitHandler waits until the broker has started a handler for this connection (it was accepted and is being served).
func (c *cli) waitHandler() bool {
	for i := 0; i < 10000; i++ {
		if exists, _, _ := c.run.tr.handlerOf(c.local); exists {
			return true
		}
		select {
		case <-c.endedCh:
			return false
		case <-c.run.stop:
			return false
		case <-time.After(200 * time.Microsecond):
		}
	}
	return false
}

func (c *cli) script() {
	defer c.run.scripts.Done()
	defer c.scriptDone.Store(true)
	defer c.markReached(false)
	if !c.sleepOrStop(time.Duration(c.spec.StartUs) * time.Microsecond) {
		return
	}
	conn, err := net.DialTimeout("tcp", c.addrOf(), 3*time.Second)
	if err != nil {
		c.mu.Lock()
		c.dialErr = err
		c.mu.Unlock()
		return
	}
	c.mu.Lock()
	c.conn = conn
	c.local = conn.LocalAddr().String()
	c.mu.Unlock()
	c.run.tr.register(c.local, c.slot)
	go c.reader(conn)

	ver := byte(c.spec.Ver)
	if c.slot != nil { // directed: the handler of this connection is held at a schedule point
		if !c.spec.NoSend {
			_, _ = conn.Write(c.connectBytes())
		}
		select {
		case <-c.slot.parked:
			if c.spec.Stage == "gone-est" {
				c.closeSelf(false)
			}
			c.markReached(true)
		case <-c.endedCh:
		case <-c.run.stop:
		case <-time.After(5 * time.Second):
		}
		return
	}
	switch c.spec.Stage {
	case "window":
		c.markReached(true)
		return
	case "dial":
		c.markReached(c.waitHandler())
		return
	case "gone-dial":
		c.closeSelf(false)
		c.markReached(true)
		return
	case "half":
		c.mu.Lock()
		c.unacked = true
		c.mu.Unlock()
		_, err := conn.Write(cut(c.connectBytes(), c.spec.Cut))
		c.markReached(c.waitHandler() && err == nil)
		return
	}
	// all other stages complete the CONNECT
	if _, err := conn.Write(c.connectBytes()); err != nil {
		return
	}
	typ, body, off, ok := c.waitFrame(0, 8*time.Second)
	if !ok || typ != refmqtt.CONNACK || len(body) < 2 || body[1] != 0 {
		return
	}
	switch c.spec.Stage {
	case "est":
		c.markReached(true)
	case "gone-est":
		c.closeSelf(false)
		c.markReached(true)
	case "sub":
		sb := refmqtt.Encode(&refmqtt.Packet{Type: refmqtt.SUBSCRIBE, Version: ver, PacketID: 1, Filters: []refmqtt.Filter{{Filter: "c36/#", QoS: 0}}}, refmqtt.Style{})
		if _, err := conn.Write(sb); err != nil {
			return
		}
		for { // publishes of a pump may arrive before the SUBACK
			typ, _, off, ok = c.waitFrame(off, 8*time.Second)
			if !ok {
				return
			}
			if typ == refmqtt.SUBACK {
				break
			}
		}
		c.markReached(true)
	case "midpub":
		pb := refmqtt.Encode(&refmqtt.Packet{Type: refmqtt.PUBLISH, Version: ver, QoS: 1, PacketID: 7, Topic: "c36/m", Payload: []byte("0123456789abcdef0123456789abcdef")}, refmqtt.Style{})
		c.mu.Lock()
		c.unacked = true
		c.mu.Unlock()
		_, err := conn.Write(cut(pb, c.spec.Cut))
		c.markReached(err == nil)
	case "pump":
		pb := refmqtt.Encode(&refmqtt.Packet{Type: refmqtt.PUBLISH, Version: ver, Topic: "c36/p", Payload: make([]byte, 40+c.spec.Cut%200)}, refmqtt.Style{})
		c.mu.Lock()
		c.unacked = true
		c.mu.Unlock()
		for i := 0; i < 20000; i++ {
			if _, err := conn.Write(pb); err != nil {
				break
			}
			if i == 0 {
				c.markReached(true)
			}
			select {
			case <-c.run.stop:
				return
			case <-c.endedCh:
				return
			default:
			}
			if i%8 == 7 {
				runtime.Gosched()
				// a pump only has to be busy while Close() runs; afterwards it falls silent like every other client
				if at := c.run.closeAt.Load(); at != 0 && time.Now().UnixNano()-at > int64(300*time.Millisecond) {
					return
				}
			}
		}
	}
}

// ---- one run ---------------------------------------------------------------------------------------------------

type c36Run struct {
	c         c36Case
	lid       string
	addr      string
	addr2     string // second listener (OtherListener cases)
	port      int
	srv       *mqtt.Server
	tr        *tracker
	clis      []*cli
	cmu       sync.Mutex // guards appends to clis (window dials)
	reachedCh chan int
	tClose    time.Time    // taken just before Close() is called
	closeAt   atomic.Int64 // the same as UnixNano, for the pump scripts
	stop      chan struct{}
	scripts   sync.WaitGroup
	pressure  sync.WaitGroup // lock-pressure writers: after a deadlock they are blocked for ever and are not waited for
}

var c36Seq atomic.Int64

// addrOf: the listener address a harness client dials (the case's main listener unless it was given another one).
func (c *cli) addrOf() string {
	if c.addr != "" {
		return c.addr
	}
	return c.run.addr
}

func newCli(run *c36Run, idx int, spec c36Client) *cli {
	c := &cli{idx: idx, spec: spec, run: run, notify: make(chan struct{}, 1), endedCh: make(chan struct{})}
	if spec.Park != "" {
		c.slot = &parkSlot{point: spec.Park, parked: make(chan struct{}), release: make(chan struct{})}
	}
	return c
}

type goroutineInfo struct {
	id, state, text string
}

// goroutines of an earlier case whose broker deadlocked: they can never run again and are ignored in later dumps
var c36Leaked = map[string]bool{}

func dumpGoroutines() []goroutineInfo {
	buf := make([]byte, 1<<20)
	for {
		n := runtime.Stack(buf, true)
		if n < len(buf) {
			buf = buf[:n]
			break
		}
		buf = make([]byte, 2*len(buf))
	}
	var out []goroutineInfo
	for _, blk := range strings.Split(string(buf), "\n\n") {
		blk = strings.TrimSpace(blk)
		if !strings.HasPrefix(blk, "goroutine ") {
			continue
		}
		head := blk
		if i := strings.IndexByte(blk, '\n'); i >= 0 {
			head = blk[:i]
		}
		f := strings.Fields(head)
		g := goroutineInfo{text: blk}
		if len(f) >= 2 {
			g.id = f[1]
		}
		if i, j := strings.IndexByte(head, '['), strings.LastIndexByte(head, ']'); i >= 0 && j > i {
			g.state = head[i+1 : j]
		}
		if c36Leaked[g.id] {
			continue
		}
		out = append(out, g)
	}
	return out
}

// stuckProof looks for the state that only the harness can end: Close() waits in WaitGroup.Wait, every connection
// handler that exists is blocked in a network read (state "IO wait": nobody has closed that descriptor), and each of
// those handlers serves a harness connection that is open, has no deadline (keepalive 0 / no CONNECT yet) and whose
// script has finished (it will never send another byte). key identifies the set of stuck goroutines.
func (run *c36Run) stuckProof() (key string, pre, during, settled []string, ok bool) {
	gs := dumpGoroutines()
	closeWaiting := false
	var hs []goroutineInfo
	for _, g := range gs {
		if strings.Contains(g.text, ".(*Server).Close(") && strings.Contains(g.text, "sync.(*WaitGroup).Wait(") {
			closeWaiting = true
		}
		if strings.Contains(g.text, ".(*Server).attachClient(") {
			hs = append(hs, g)
		}
	}
	if !closeWaiting || len(hs) == 0 {
		return "", nil, nil, nil, false
	}
	var ids []string
	nPre := 0
	for _, h := range hs {
		if !strings.HasPrefix(h.state, "IO wait") || !strings.Contains(h.text, "net.(*conn).Read(") {
			return "", nil, nil, nil, false
		}
		switch {
		case strings.Contains(h.text, ".(*Server).readConnectionPacket("):
			nPre++
		case strings.Contains(h.text, ".(*Client).Read("):
		default:
			return "", nil, nil, nil, false
		}
		ids = append(ids, h.id)
	}
	live := run.tr.liveRemotes()
	if len(live) != len(hs) {
		return "", nil, nil, nil, false
	}
	byLocal := map[string]*cli{}
	run.cmu.Lock()
	for _, c := range run.clis {
		c.mu.Lock()
		if c.local != "" {
			byLocal[c.local] = c
		}
		c.mu.Unlock()
	}
	run.cmu.Unlock()
	for _, rem := range live {
		c := byLocal[rem]
		if c == nil || !c.scriptDone.Load() {
			return "", nil, nil, nil, false
		}
		c.mu.Lock()
		open := c.conn != nil && !c.ended && !c.selfClosed
		wasSettled := c.stageOK && !c.reachedAt.IsZero() && c.reachedAt.Before(run.tClose)
		c.mu.Unlock()
		if !open {
			return "", nil, nil, nil, false
		}
		_, _, last := run.tr.handlerOf(rem)
		who := fmt.Sprintf("client %d (%s v%d, handler last at %s)", c.idx, c.spec.Stage, c.spec.Ver, last)
		switch {
		case last == "attach.start": // no CONNECT has been read on this connection
			pre = append(pre, who)
		case c.established() && wasSettled: // CONNACK received before Close() was called: the client was in s.Clients
			settled = append(settled, who)
		default:
			during = append(during, who)
		}
	}
	if len(pre) != nPre { // the two views (goroutine dump, schedule points) must agree
		return "", nil, nil, nil, false
	}
	sort.Strings(ids)
	return strings.Join(ids, ","), pre, during, settled, true
}

// deadlockProof looks for the lock cycle that nothing outside the broker can break: the goroutine running Close() is
// inside Clients.GetByListener (read lock held) -> Clients.Len, waiting for a second read lock, and another goroutine
// waits in Clients.Add / Clients.Delete for the write lock (a waiting writer blocks new readers).
func deadlockProof() (key, detail string, ok bool) {
	closer, writer := "", ""
	for _, g := range dumpGoroutines() {
		if strings.Contains(g.text, ".(*Server).Close(") && strings.Contains(g.text, ".(*Clients).GetByListener(") &&
			strings.Contains(g.text, ".(*Clients).Len(") && strings.HasPrefix(g.state, "sync.RWMutex.RLock") {
			closer = g.id
		}
		if (strings.Contains(g.text, ".(*Clients).Add(") || strings.Contains(g.text, ".(*Clients).Delete(")) && strings.HasPrefix(g.state, "sync.RWMutex.Lock") {
			writer = g.id
			if strings.Contains(g.text, ".(*Clients).Add(") {
				detail = "a handler in Clients.Add"
			} else {
				detail = "a handler in Clients.Delete"
			}
		}
	}
	if closer == "" || writer == "" {
		return "", "", false
	}
	return closer + "/" + writer, detail, true
}

// writeDump saves all goroutine stacks for a later look at an inconclusive run.
func writeDump(what string) string {
	dir := os.Getenv("VERIF_WORK")
	if dir == "" {
		dir = os.TempDir()
	}
	var b strings.Builder
	for _, g := range dumpGoroutines() {
		b.WriteString(g.text + "\n\n")
	}
	p := fmt.Sprintf("%s/c36-%s-%d-%d.txt", dir, what, os.Getpid(), c36Seq.Load())
	if err := os.WriteFile(p, []byte(b.String()), 0o644); err != nil {
		return "not written: " + err.Error()
	}
	return p
}

// procHexAddr renders "a.b.c.d:port" the way /proc/net/tcp does (IPv4, little-endian address).
func procHexAddr(hostport string) string {
	h, p, err := net.SplitHostPort(hostport)
	if err != nil {
		return ""
	}
	ip := net.ParseIP(h).To4()
	port, _ := strconv.Atoi(p)
	if ip == nil {
		return ""
	}
	return fmt.Sprintf("%02X%02X%02X%02X:%04X", ip[3], ip[2], ip[1], ip[0], port)
}

// ownInodes returns the socket inodes this process holds a descriptor for.
func ownInodes() (map[string]bool, bool) {
	es, err := os.ReadDir("/proc/self/fd")
	if err != nil {
		return nil, false
	}
	out := map[string]bool{}
	for _, e := range es {
		if l, err := os.Readlink("/proc/self/fd/" + e.Name()); err == nil && strings.HasPrefix(l, "socket:[") {
			out[strings.TrimSuffix(strings.TrimPrefix(l, "socket:["), "]")] = true
		}
	}
	return out, true
}

// ownListenerOn reports whether THIS process still holds a listening TCP socket on addr (a successful dial alone could
// have reached another process that was given the same ephemeral port in the meantime).
func ownListenerOn(addr string) (ours, decided bool) {
	b, err := os.ReadFile("/proc/self/net/tcp")
	want := procHexAddr(addr)
	if err != nil || want == "" {
		return false, false
	}
	inodes := map[string]bool{}
	for _, ln := range strings.Split(string(b), "\n")[1:] {
		f := strings.Fields(ln)
		if len(f) > 9 && f[1] == want && f[3] == "0A" {
			inodes[f[9]] = true
		}
	}
	if len(inodes) == 0 {
		return false, true
	}
	own, ok := ownInodes()
	if !ok {
		return false, false
	}
	for i := range inodes {
		if own[i] {
			return true, true
		}
	}
	return false, true
}

// serverSideSocket looks for the broker's end of a client connection: a TCP socket with local address serverAddr and
// peer clientLocal. held is true only if such a socket exists AND this process holds a descriptor for it, i.e. the
// listener's Accept returned it to the broker and nobody closed it. A connection that completed on the client side but
// was never taken from the listener's queue (or was taken by another process that reused the port) has no such socket.
func serverSideSocket(serverAddr, clientLocal string) (state string, held, decided bool) {
	b, err := os.ReadFile("/proc/self/net/tcp")
	l, rem := procHexAddr(serverAddr), procHexAddr(clientLocal)
	if err != nil || l == "" || rem == "" {
		return "", false, false
	}
	own, ok := ownInodes()
	if !ok {
		return "", false, false
	}
	for _, ln := range strings.Split(string(b), "\n")[1:] {
		f := strings.Fields(ln)
		if len(f) > 9 && f[1] == l && f[2] == rem {
			return f[3], f[9] != "0" && own[f[9]], true
		}
	}
	return "absent", false, true
}

// kernelState asks the kernel, without consuming anything and without waiting, what a read on the client socket would
// return: "open" (nothing pending, connection established), "eof", "reset", "data", or "unknown".
func kernelState(conn net.Conn) string {
	tc, ok := conn.(*net.TCPConn)
	if !ok {
		return "unknown"
	}
	rc, err := tc.SyscallConn()
	if err != nil {
		return "unknown"
	}
	st := "unknown"
	if err := rc.Control(func(fd uintptr) {
		var b [1]byte
		n, _, e := syscall.Recvfrom(int(fd), b[:], syscall.MSG_PEEK|syscall.MSG_DONTWAIT)
		switch {
		case e == syscall.EAGAIN || e == syscall.EWOULDBLOCK:
			st = "open"
		case e != nil:
			st = "reset"
		case n == 0:
			st = "eof"
		default:
			st = "data"
		}
	}); err != nil {
		return "unknown"
	}
	return st
}

// brokerQuiescent returns a key naming the goroutines that are inside the broker's code if every one of them is blocked
// on a network read, a select or a channel (so none of them can act unless a peer sends or closes), "" otherwise.
func brokerQuiescent() string {
	var ids []string
	for _, g := range dumpGoroutines() {
		if !strings.Contains(g.text, "github.com/mochi-mqtt/server/v2") {
			continue
		}
		if strings.Contains(g.text, "pc36.c36Check(") && !strings.Contains(g.text, ".(*Server).") {
			continue
		}
		blocked := false
		for _, p := range []string{"IO wait", "select", "chan receive"} {
			if strings.HasPrefix(g.state, p) {
				blocked = true
			}
		}
		if !blocked {
			return ""
		}
		ids = append(ids, g.id)
	}
	sort.Strings(ids)
	return "q:" + strings.Join(ids, ",")
}

func isReset(err error) bool {
	return errors.Is(err, syscall.ECONNRESET) || errors.Is(err, syscall.EPIPE) || errors.Is(err, syscall.ECONNABORTED)
}

func c36Check(c c36Case, r *evid.Rec) (discs []evid.Disc) {
	if len(c.Clients) == 0 {
		r.NotAsserted()
		return nil
	}
	if p := os.Getenv("VERIF_C36_CASELOG"); p != "" { // debugging aid: every executed case, one JSON document per line
		if f, err := os.OpenFile(p, os.O_APPEND|os.O_CREATE|os.O_WRONLY, 0o644); err == nil {
			b, _ := json.Marshal(c)
			_, _ = f.Write(append(b, '\n'))
			_ = f.Close()
		}
	}
	// a connection that is closed only by the garbage collector's finalizer was not closed by Close()
	oldGC := debug.SetGCPercent(-1)
	defer debug.SetGCPercent(oldGC)

	seq := c36Seq.Add(1)
	lid := fmt.Sprintf("c36-%d-%d", os.Getpid(), seq)
	run := &c36Run{c: c, lid: lid, stop: make(chan struct{})}
	hasParks := false
	for _, s := range c.Clients {
		if s.Park != "" {
			hasParks = true
		}
	}
	run.tr = newTracker(lid, hasParks)
	run.reachedCh = make(chan int, len(c.Clients)+c.WindowDials+4)
	run.srv = mqtt.New(&mqtt.Options{Logger: slog.New(slog.NewTextHandler(io.Discard, &slog.HandlerOptions{Level: slog.LevelError + 4}))})
	_ = run.srv.AddHook(new(auth.AllowHook), nil)
	window := &closeWindowHook{}
	if c.Class == "dial-in-close" && c.WindowDials > 0 {
		window.fn = func() {
			// runs on the goroutine that executes Close(), inside closeListenerClients: the listener's end flag is set,
			// its socket still listens
			var ws []*cli
			run.cmu.Lock()
			for i := 0; i < c.WindowDials; i++ {
				w := newCli(run, len(run.clis), c36Client{Stage: "window", Ver: 4})
				if c.OtherListener {
					w.addr = run.addr2
				}
				run.clis = append(run.clis, w)
				ws = append(ws, w)
			}
			run.cmu.Unlock()
			for _, w := range ws {
				run.scripts.Add(1)
				w.script() // synchronous: the dial has completed when this returns
			}
			time.Sleep(time.Duration(c.HoldUs) * time.Microsecond)
		}
		_ = run.srv.AddHook(window, nil)
	}
	// Every case listens on its own address of 127.0.0.0/8 (derived from the process id and the case number): other
	// processes on this machine open and close listeners on 127.0.0.1 all the time, and a port that Close() has just
	// released is handed out again at once - a late dial of ours would then reach a foreign broker (and a foreign late
	// dial ours).
	pid := os.Getpid()
	laddr := fmt.Sprintf("127.%d.%d.%d:0", 1+pid%254, (pid/254+int(seq)/254)%256, 1+int(seq)%254)
	if v := os.Getenv("VERIF_C36_LISTEN"); v != "" { // e.g. 127.0.0.1:0, to exercise the shared-address situation on purpose
		laddr = v
	}
	var l listeners.Listener = listeners.NewTCP(listeners.Config{ID: lid, Address: laddr})
	if c.FailClose {
		ln, err := net.Listen("tcp", laddr)
		if err != nil {
			ln, err = net.Listen("tcp", "127.0.0.1:0")
		}
		if err != nil {
			r.Inconclusive("cannot listen on " + laddr + " nor on 127.0.0.1:0: " + err.Error())
			r.NotAsserted()
			return nil
		}
		l = listeners.NewNet(lid, &failCloseListener{ln})
	}
	if err := run.srv.AddListener(l); err != nil {
		l = listeners.NewTCP(listeners.Config{ID: lid, Address: "127.0.0.1:0"})
		if err := run.srv.AddListener(l); err != nil {
			r.Inconclusive("cannot listen on " + laddr + " nor on 127.0.0.1:0: " + err.Error())
			r.NotAsserted()
			return nil
		}
	}
	run.addr = l.Address()
	if c.OtherListener {
		host, _, _ := net.SplitHostPort(run.addr)
		l2 := listeners.NewTCP(listeners.Config{ID: lid + "-other-listener", Address: host + ":0"})
		if err := run.srv.AddListener(l2); err == nil {
			run.addr2 = l2.Address()
		} else {
			run.addr2 = run.addr
		}
	}
	if _, p, err := net.SplitHostPort(run.addr); err == nil {
		run.port, _ = strconv.Atoi(p)
	}
	mqtt.VerifSetSched(run.tr.hook)
	defer mqtt.VerifSetSched(nil)
	if err := run.srv.Serve(); err != nil {
		_ = run.srv.Close()
		r.Inconclusive("Serve: " + err.Error())
		r.NotAsserted()
		return nil
	}

	for i, s := range c.Clients {
		run.clis = append(run.clis, newCli(run, i, s))
	}
	nGen := len(run.clis)
	genClis := append([]*cli(nil), run.clis...)
	for _, cl := range genClis {
		run.scripts.Add(1)
		go cl.script()
	}

	// ---- Close() at the generated point
	want := c.CloseAfter
	if want > nGen {
		want = nGen
	}
	waitT := time.NewTimer(6 * time.Second)
	for got := 0; got < want; {
		select {
		case <-run.reachedCh:
			got++
		case <-waitT.C:
			got = want
		}
	}
	waitT.Stop()
	if c.CloseDelayUs > 0 {
		time.Sleep(time.Duration(c.CloseDelayUs) * time.Microsecond)
	}
	for i := 0; i < c.Pressure; i++ {
		run.pressure.Add(1)
		go func(i int) {
			defer run.pressure.Done()
			d := run.srv.NewClient(nil, lid+"-other", fmt.Sprintf("%s-pressure-%d", lid, i), false)
			for {
				select {
				case <-run.stop:
					return
				default:
				}
				run.srv.Clients.Add(d)
				run.srv.Clients.Delete(d.ID)
			}
		}(i)
	}
	if c.Pressure > 0 {
		time.Sleep(time.Millisecond)
	}
	closeDone := make(chan struct{})
	tClose := time.Now()
	run.tClose = tClose
	run.closeAt.Store(tClose.UnixNano())
	run.tr.markCloseCalled()
	go func() {
		_ = run.srv.Close()
		run.tr.markReturned()
		close(closeDone)
	}()

	releaseParked := func() {
		for _, cl := range genClis {
			if cl.slot != nil {
				cl.slot.relOnce.Do(func() { close(cl.slot.release) })
			}
		}
	}
	if hasParks && c.Release == "closing" {
		go func() {
			// released once Close() has collected and disconnected the clients and waits in ClientsWg.Wait
			for i := 0; i < 5000; i++ {
				inWait := false
				for _, g := range dumpGoroutines() {
					if strings.Contains(g.text, ".(*Server).Close(") && strings.Contains(g.text, "sync.(*WaitGroup).Wait(") {
						inWait = true
					}
				}
				if inWait {
					break
				}
				select {
				case <-run.stop:
					return
				case <-closeDone:
					return
				case <-time.After(time.Millisecond):
				}
			}
			releaseParked()
		}()
	}

	snapshot := func() []*cli {
		run.cmu.Lock()
		defer run.cmu.Unlock()
		return append([]*cli(nil), run.clis...)
	}
	settled := func(cl *cli) bool { // reached its stage before Close() was called
		cl.mu.Lock()
		defer cl.mu.Unlock()
		return cl.stageOK && !cl.reachedAt.IsZero() && cl.reachedAt.Before(tClose)
	}

	// ---- wait for Close() to return
	returned := false
	if c.ImpatientMs > 0 {
		select {
		case <-closeDone:
			returned = true
		case <-time.After(time.Duration(c.ImpatientMs) * time.Millisecond):
			for _, cl := range snapshot() {
				if !(cl.established() && settled(cl)) {
					cl.closeSelf(true)
				}
			}
		}
	}
	hung, deadlocked := false, false
	if !returned {
		budget := time.NewTimer(c36CloseBudget)
		tick := time.NewTicker(350 * time.Millisecond)
		lastKey := ""
	wait:
		for {
			select {
			case <-closeDone:
				returned = true
				break wait
			case <-budget.C:
				break wait
			case <-tick.C:
				if dk, dd, ok := deadlockProof(); ok {
					if dk != lastKey {
						lastKey = dk
						continue
					}
					deadlocked, hung = true, true
					discs = append(discs, evid.D(sigDeadlock, "Close() is deadlocked %v after the call: it holds the Clients read lock in GetByListener and waits in Clients.Len for a second read lock behind %s, which waits for the write lock (goroutines %s, unchanged in two dumps 350 ms apart)",
						time.Since(tClose).Round(time.Millisecond), dd, dk))
					break wait
				}
				key, pre, during, settledStuck, ok := run.stuckProof()
				if !ok {
					lastKey = ""
					continue
				}
				if key != lastKey {
					lastKey = key
					continue
				}
				// the same goroutines in the same state in two dumps 350 ms apart
				hung = true
				after := time.Since(tClose).Round(time.Millisecond)
				if len(pre) > 0 {
					discs = append(discs, evid.D(sigHangPre, "Close() is permanently stuck %v after the call: it waits in ClientsWg.Wait while %d handler(s) are blocked in readConnectionPacket on connections that are open, silent and were never closed by Close(): %s",
						after, len(pre), strings.Join(pre, "; ")))
				}
				if len(during) > 0 {
					discs = append(discs, evid.D(sigHangEst, "Close() is permanently stuck %v after the call: it waits in ClientsWg.Wait while %d handler(s) are blocked in Client.Read on connections that Close() never closed (their CONNECT was processed while Close() ran, after it had collected the clients): %s",
						after, len(during), strings.Join(during, "; ")))
				}
				if len(settledStuck) > 0 {
					discs = append(discs, evid.D(sigHangSettled, "Close() is permanently stuck %v after the call: it waits in ClientsWg.Wait while %d handler(s) are blocked in Client.Read on connections that were fully established (CONNACK received) before Close() was called and that Close() did not close: %s",
						after, len(settledStuck), strings.Join(settledStuck, "; ")))
				}
				break wait
			}
		}
		budget.Stop()
		tick.Stop()
	}
	if deadlocked {
		// nothing can end this; the broker's goroutines of this case are left behind (blocked for ever) and ignored from now on
		r.Label("class:" + c.Class)
		r.Label("close-deadlocked")
		r.NonTrivial(fmt.Sprintf("%s|deadlock|n=%d|ca=%d", c.Class, len(c.Clients), c.CloseAfter))
		run.abandon()
		return discs
	}
	if hung {
		// abandon safely: only the harness can end this; close the connections of the stuck handlers
		live := map[string]bool{}
		for _, rem := range run.tr.liveRemotes() {
			live[rem] = true
		}
		for _, cl := range snapshot() {
			cl.mu.Lock()
			hit := live[cl.local]
			cl.mu.Unlock()
			if hit {
				cl.mu.Lock()
				cl.abandoned = true
				cl.mu.Unlock()
				cl.closeSelf(false)
			}
		}
		select {
		case <-closeDone:
			returned = true
		case <-time.After(10 * time.Second):
		}
	}
	if !returned {
		dumpPath := writeDump("close-not-returned")
		r.Inconclusive(fmt.Sprintf("Close() did not return within %v and the goroutine dump does not show the permanently stuck state; no verdict (dump: %s)", c36CloseBudget, dumpPath))
		r.NotAsserted()
		run.cleanup(closeDone, releaseParked, r)
		return discs
	}

	// ---- Close() has returned
	if pc, err := net.DialTimeout("tcp", run.addr, 2*time.Second); err == nil {
		run.tr.register(pc.LocalAddr().String(), nil)
		ours, decided := ownListenerOn(run.addr)
		_ = pc.Close()
		if decided && ours {
			discs = append(discs, evid.D(sigStillListening, "a new dial to %s succeeded after Close() returned and this process still holds the listening socket", run.addr))
		} else if !decided {
			r.Label("dial-after-close-undecided")
		}
	}
	if hasParks && c.Release == "returned" {
		releaseParked()
	}
	all := snapshot()
	// Wait until every client has seen the end of its connection. The wait ends early only with a proof that nothing
	// can change any more: every goroutine that is inside the broker is blocked (network read, select, channel) in two
	// consecutive dumps, and the kernel says that the still-open sockets have neither data, FIN nor RST pending.
	deadline := time.Now().Add(c36Grace)
	lastQ := ""
	for time.Now().Before(deadline) {
		var pending []*cli
		for _, cl := range all {
			cl.mu.Lock()
			if cl.conn != nil && !cl.selfClosed && !cl.ended {
				pending = append(pending, cl)
			}
			cl.mu.Unlock()
		}
		if len(pending) == 0 {
			break
		}
		q := brokerQuiescent()
		if q != "" && q == lastQ {
			allOpen := true
			for _, cl := range pending {
				if kernelState(cl.conn) != "open" {
					allOpen = false
				}
			}
			if allOpen {
				r.Label("open-verdict-by-quiescence-proof")
				break
			}
		}
		lastQ = q
		time.Sleep(25 * time.Millisecond)
	}

	// handlers that were not waited for get the same time to finish by themselves (or to prove that they will not)
	lastQ = ""
	for time.Now().Before(deadline) && run.tr.liveCount() > 0 {
		q := brokerQuiescent()
		if q != "" && q == lastQ {
			break
		}
		lastQ = q
		time.Sleep(25 * time.Millisecond)
	}

	var ctx []string
	hasPump := false
	for _, s := range c.Clients {
		hasPump = hasPump || s.Stage == "pump"
	}
	nOpenAtClose := 0
	var keyParts []string
	for _, cl := range all {
		st := settled(cl)
		cl.mu.Lock()
		hasConn, ended, endErr, selfClosed, left, rx, local, unacked, dialErr := cl.conn != nil, cl.ended, cl.endErr, cl.selfClosed, cl.left, cl.rx, cl.local, cl.unacked, cl.dialErr
		abandoned := cl.abandoned
		reachedAt := cl.reachedAt
		cl.mu.Unlock()
		exists, hEnded, last := run.tr.handlerOf(local)
		state := "open"
		switch {
		case !hasConn:
			state = fmt.Sprintf("dial failed (%v)", dialErr)
		case abandoned:
			state = "closed by the harness to end the stuck Close()"
		case left:
			state = "left by itself while Close() was blocked"
		case selfClosed:
			state = "closed by itself"
		case ended && endErr == io.EOF:
			state = "EOF"
		case ended && isReset(endErr):
			state = "reset"
		case ended:
			state = "ended: " + endErr.Error()
		}
		hs := "no handler"
		if exists {
			hs = "handler last at " + last
			if !hEnded {
				hs += " (alive)"
			}
		}
		ctx = append(ctx, fmt.Sprintf("  client %d %s v%d park=%q %s settled-before-Close=%v: %s; %s; %d bytes received", cl.idx, cl.spec.Stage, cl.spec.Ver, cl.spec.Park, local, st, state, hs, len(rx)))

		cls := cl.spec.Stage + "-v" + strconv.Itoa(cl.spec.Ver)
		if cl.spec.Park != "" {
			cls += "-parked@" + cl.spec.Park
		}
		switch {
		case !hasConn:
			r.Label("cli:dial-refused")
			continue
		case abandoned:
			nOpenAtClose++
			r.Label("cli:" + cls + ":never-closed-by-close")
			keyParts = append(keyParts, cls+":stuck")
			continue
		case selfClosed && !left && (reachedAt.IsZero() || reachedAt.Before(tClose)):
			r.Label("cli:" + cls + "-gone-before-close")
			keyParts = append(keyParts, cls+":gone")
			continue
		}
		nOpenAtClose++
		if st {
			cls += ":settled"
		} else {
			cls += ":unsettled"
		}
		keyParts = append(keyParts, cls)
		r.Label("cli:" + cls)
		if left {
			r.Label("left-while-close-blocked")
			continue
		}
		if selfClosed {
			continue
		}
		// -- every connection is closed
		if !ended {
			ks := kernelState(cl.conn)
			switch {
			case ks != "open":
				// the kernel already holds the end of the connection (or cannot be asked); our reader goroutine has not
				// consumed it yet: a delay on the harness side, not a verdict
				r.Label("eof-late-on-harness-side")
			case exists && !hEnded:
				discs = append(discs, evid.D(sigOpenServed, "client %d (%s v%d) is still open %v after Close() returned and its handler is alive (last schedule point %s)", cl.idx, cl.spec.Stage, cl.spec.Ver, c36Grace, last))
			case !exists:
				// No handler ever ran. Whether the broker ever HAD this connection is not known yet: connect() also completes
				// for a connection that was still in the listening socket's queue when that socket was closed (its peer
				// then exists nowhere; the client notices only when it sends), or that another process accepted after the
				// port was handed out again. It is the broker's doing only if this process holds the other end.
				st, held, decided := serverSideSocket(cl.addrOf(), local)
				probe := "not probed"
				if decided && held {
					_, werr := cl.conn.Write([]byte{0xC0})
					select {
					case <-cl.endedCh:
						probe = "ended after one byte was written"
					case <-time.After(400 * time.Millisecond):
						probe = "write error: " + fmt.Sprint(werr)
						if werr == nil {
							probe = "still open and silent after one byte was written"
						}
					}
					if werr == nil && kernelState(cl.conn) == "open" {
						if st2, held2, decided2 := serverSideSocket(cl.addrOf(), local); decided2 && held2 {
							discs = append(discs, evid.D(sigOpenUnserved, "client %d (%s v%d, %s) is still open after Close() returned (waited %v, or until the broker was provably quiescent) and no handler ever ran for it, although the listener accepted the connection: this process holds the broker's end of it (socket %s -> %s, state %s), a byte written by the client was taken without RST/FIN: accepted, neither served nor closed",
								cl.idx, cl.spec.Stage, cl.spec.Ver, local, c36Grace, cl.addrOf(), local, st2))
							break
						}
					}
				}
				r.Label("open-conn-never-handed-to-this-broker-not-asserted")
				ctx = append(ctx, fmt.Sprintf("    client %d: no handler, connection open; broker-side socket: state %q held-by-this-process=%v decided=%v; probe: %s", cl.idx, st, held, decided, probe))
			default:
				// the handler has finished (its deferred Stop closed the descriptor) but our reader has not seen the end yet:
				// a delay on the harness side, not a verdict
				r.Label("eof-late-on-harness-side")
			}
			continue
		}
		// -- v5 clients that were established when Close() was called saw DISCONNECT 0x8B
		if cl.spec.Ver == 5 && cl.established() && st {
			got, lastType := false, byte(0)
			for off := 0; off < len(rx); {
				typ, body, n, ok := frameAt(rx[off:])
				if !ok {
					lastType = 0xFF
					break
				}
				lastType = typ
				if typ == refmqtt.DISCONNECT && len(body) >= 1 && body[0] == 0x8B {
					got = true
				}
				off += n
			}
			switch {
			case got:
				r.Label("v5-disconnect-8b-seen")
			case isReset(endErr) && unacked:
				// the broker closed a socket that still held unread bytes of ours: TCP answers with a reset and may discard
				// what was in flight towards us
				r.Label("v5-reset-with-unread-input-not-asserted")
			case cl.spec.Stage == "sub" && hasPump:
				discs = append(discs, evid.D(sigNoDisconnectBusy, "client %d (sub v5, CONNACK and SUBACK received before Close() was called, publishes of a pump client were being delivered to it) reached the end of its connection (%v) without a DISCONNECT 0x8B; %d bytes received, last frame type %d",
					cl.idx, endErr, len(rx), lastType))
			default:
				discs = append(discs, evid.D(sigNoDisconnect, "client %d (%s v5, CONNACK received before Close() was called) reached the end of its connection (%v) without a DISCONNECT 0x8B; %d bytes received, last frame type %d", cl.idx, cl.spec.Stage, endErr, len(rx), lastType))
			}
		}
	}
	// -- Close() returns only after every handler has finished
	run.tr.mu.Lock()
	liveAtReturn, startedAfter := append([]string(nil), run.tr.liveAtReturn...), append([]string(nil), run.tr.startedAfter...)
	registeredAtReturn := append([]string(nil), run.tr.registeredAtReturn...)
	run.tr.mu.Unlock()
	if len(liveAtReturn)+len(startedAfter) > 0 {
		desc := func(rems []string) string {
			var out []string
			for _, rem := range rems {
				who := "an unknown connection " + rem
				for _, cl := range all {
					cl.mu.Lock()
					if cl.local == rem {
						who = fmt.Sprintf("client %d (%s v%d park=%q)", cl.idx, cl.spec.Stage, cl.spec.Ver, cl.spec.Park)
					}
					cl.mu.Unlock()
				}
				_, _, last := run.tr.handlerOf(rem)
				out = append(out, who+" now at "+last)
			}
			return strings.Join(out, "; ")
		}
		if len(registeredAtReturn) > 0 {
			discs = append(discs, evid.D(sigRegisteredHandler, "Close() returned while %d handler(s) that had registered in ClientsWg before Close() was called were still alive [%s]: the wait does not cover them",
				len(registeredAtReturn), desc(registeredAtReturn)))
		}
		sig, still := sigLateHandler, run.tr.liveCount()
		for _, rem := range append(append([]string(nil), liveAtReturn...), startedAfter...) {
			// "keeps running" must not depend on how fast an overloaded machine schedules a goroutine that is about to
			// return: a handler gets 10 s to finish by itself before it is said to keep running
			ended := false
			for waited := 0; waited < 500 && !ended; waited++ {
				if _, ended, _ = run.tr.handlerOf(rem); !ended {
					time.Sleep(20 * time.Millisecond)
				}
			}
			if !ended {
				sig = sigLiveHandler // it keeps running
			}
		}
		discs = append(discs, evid.D(sig, "Close() returned while %d connection handler(s) were alive [%s] and %d started afterwards [%s]; %d handler(s) still alive when the connections were judged",
			len(liveAtReturn), desc(liveAtReturn), len(startedAfter), desc(startedAfter), still))
	}

	sort.Strings(keyParts)
	r.Label("class:" + c.Class)
	if hung {
		r.Label("close-hung")
	} else {
		r.Label("close-returned")
	}
	if nOpenAtClose > 0 {
		r.NonTrivial(fmt.Sprintf("%s|%s|%s|ca=%d", c.Class, c.Release, strings.Join(keyParts, ","), c.CloseAfter))
	} else {
		r.Label("trivial-nothing-open-at-close")
	}
	r.Sample(map[string]any{"class": c.Class, "clients": keyParts, "close_after": c.CloseAfter, "close_took_ms": time.Since(tClose).Milliseconds()})
	if len(discs) > 0 {
		discs[0].Ctx = fmt.Sprintf("case class %s, %d clients, Close() called after %d reached their stage (+%d us), release=%q impatient=%d ms\n%s",
			c.Class, len(all), c.CloseAfter, c.CloseDelayUs, c.Release, c.ImpatientMs, strings.Join(ctx, "\n"))
	}
	run.cleanup(closeDone, releaseParked, r)
	return discs
}

// abandon ends the harness side of a case whose broker is deadlocked and marks the broker's goroutines as leaked.
func (run *c36Run) abandon() {
	close(run.stop)
	run.tr.abortParks()
	run.cmu.Lock()
	all := append([]*cli(nil), run.clis...)
	run.cmu.Unlock()
	for _, cl := range all {
		cl.mu.Lock()
		conn := cl.conn
		cl.mu.Unlock()
		if conn != nil {
			_ = conn.Close()
		}
	}
	done := make(chan struct{})
	go func() { run.scripts.Wait(); close(done) }()
	select {
	case <-done:
	case <-time.After(10 * time.Second):
	}
	for _, cl := range all {
		cl.mu.Lock()
		conn := cl.conn
		cl.mu.Unlock()
		if conn != nil {
			_ = conn.Close()
		}
	}
	time.Sleep(100 * time.Millisecond) // the handlers see the end of their connections and run into the lock
	for _, g := range dumpGoroutines() {
		if strings.Contains(g.text, "github.com/mochi-mqtt/server/v2") && !strings.Contains(g.text, "pc36.TestC36(") {
			c36Leaked[g.id] = true
		}
	}
}

// cleanup ends everything the case started; a leak would make later cases meaningless, so it is reported as inconclusive.
func (run *c36Run) cleanup(closeDone chan struct{}, releaseParked func(), r *evid.Rec) {
	close(run.stop)
	run.tr.abortParks()
	releaseParked()
	run.cmu.Lock()
	all := append([]*cli(nil), run.clis...)
	run.cmu.Unlock()
	for _, cl := range all {
		cl.mu.Lock()
		conn := cl.conn
		cl.mu.Unlock()
		if conn != nil {
			_ = conn.Close()
		}
	}
	done := make(chan struct{})
	go func() { run.scripts.Wait(); run.pressure.Wait(); close(done) }()
	select {
	case <-done:
	case <-time.After(10 * time.Second):
		r.Inconclusive("harness client scripts did not end during cleanup")
	}
	// late dials may have been made by scripts that were past their stop check
	run.cmu.Lock()
	all = append([]*cli(nil), run.clis...)
	run.cmu.Unlock()
	for _, cl := range all {
		cl.mu.Lock()
		conn := cl.conn
		cl.mu.Unlock()
		if conn != nil {
			_ = conn.Close()
		}
	}
	select {
	case <-closeDone:
	case <-time.After(10 * time.Second):
		r.Inconclusive("Close() did not return even after the harness closed every client connection")
		return
	}
	for i := 0; i < 2000 && run.tr.liveCount() > 0; i++ {
		time.Sleep(5 * time.Millisecond)
	}
	if n := run.tr.liveCount(); n > 0 {
		r.Inconclusive(fmt.Sprintf("%d connection handlers still alive 10 s after the harness closed every client connection", n))
	}
}

// ---- generator ---------------------------------------------------------------------------------------------------

func c36Gen(r *evid.Rec) func(t *rapid.T) c36Case {
	knownHang := r.IsKnown(sigHangPre) || r.IsKnown(sigHangEst)
	classes := []string{"free", "free", "free", "free", "free"}
	if !r.IsKnown(sigHangPre) {
		classes = append(classes, "idle-preconnect")
	}
	if !r.IsKnown(sigHangEst) {
		classes = append(classes, "late-establish")
	}
	if !r.IsKnown(sigLiveHandler) && !r.IsKnown(sigOpenServed) && !r.IsKnown(sigLateHandler) {
		classes = append(classes, "park-start", "park-start")
	}
	if !r.IsKnown(sigOpenUnserved) {
		classes = append(classes, "dial-in-close", "dial-in-close")
	}
	if !r.IsKnown(sigDeadlock) {
		classes = append(classes, "lock-pressure")
	}
	settledStages := []string{"est", "est", "sub", "sub", "midpub", "pump", "gone-dial", "gone-est"}
	allStages := append([]string{"dial", "half", "half"}, settledStages...)
	genClient := func(t *rapid.T, stages []string, maxStart int) c36Client {
		return c36Client{
			Stage:   rapid.SampledFrom(stages).Draw(t, "stage"),
			Ver:     rapid.SampledFrom([]int{4, 5, 5}).Draw(t, "ver"),
			StartUs: rapid.IntRange(0, maxStart).Draw(t, "start_us"),
			Cut:     rapid.IntRange(1, 60).Draw(t, "cut"),
		}
	}
	return func(t *rapid.T) c36Case {
		c := c36Case{Class: rapid.SampledFrom(classes).Draw(t, "class")}
		n := rapid.IntRange(4, 40).Draw(t, "n")
		switch c.Class {
		case "free":
			// connection churn against a Close() at any point: some clients are settled, the rest are in the middle of
			// dialling / CONNECT when Close() runs
			settledOnly := rapid.IntRange(0, 3).Draw(t, "settled_only") == 0
			for i := 0; i < n; i++ {
				st := allStages
				if settledOnly && knownHang {
					st = settledStages // an idle pre-CONNECT connection that is settled before Close() is the listed hang
				}
				c.Clients = append(c.Clients, genClient(t, st, 15000))
			}
			if settledOnly {
				c.CloseAfter = n
			} else {
				c.CloseAfter = rapid.IntRange(0, n).Draw(t, "close_after")
			}
			c.CloseDelayUs = rapid.SampledFrom([]int{0, 0, 50, 300, 1500, 6000}).Draw(t, "close_delay_us")
			if knownHang {
				c.ImpatientMs = rapid.IntRange(40, 90).Draw(t, "impatient_ms")
			}
			c.FailClose = rapid.IntRange(0, 4).Draw(t, "fail_close") == 0
		case "idle-preconnect":
			for i := 0; i < n; i++ {
				c.Clients = append(c.Clients, genClient(t, []string{"est", "sub", "dial", "half"}, 3000))
			}
			c.Clients[rapid.IntRange(0, n-1).Draw(t, "idle_at")].Stage = rapid.SampledFrom([]string{"dial", "half"}).Draw(t, "idle_stage")
			c.CloseAfter = n
		case "park-start":
			// handlers held at attach.start (before ClientsWg.Add) while Close() runs
			for i := 0; i < n; i++ {
				c.Clients = append(c.Clients, genClient(t, []string{"est", "sub", "est", "gone-est"}, 3000))
			}
			for k := rapid.IntRange(1, 3).Draw(t, "parked"); k > 0; k-- {
				i := rapid.IntRange(0, n-1).Draw(t, "park_at")
				c.Clients[i].Stage, c.Clients[i].Park = rapid.SampledFrom([]string{"est", "est", "gone-est"}).Draw(t, "parked_stage"), "attach.start"
				c.Clients[i].NoSend = rapid.Bool().Draw(t, "nosend")
			}
			c.CloseAfter = n
			c.Release = rapid.SampledFrom([]string{"returned", "cleanup"}).Draw(t, "release")
		case "late-establish":
			// a handler held after ClientsWg.Add and before Clients.Add; released once Close() has collected the clients
			for i := 0; i < n; i++ {
				c.Clients = append(c.Clients, genClient(t, []string{"est", "sub"}, 3000))
			}
			i := rapid.IntRange(0, n-1).Draw(t, "park_at")
			c.Clients[i].Stage, c.Clients[i].Park = "est", "attach.afterLimitCheck"
			c.CloseAfter = n
			c.Release = "closing"
		case "lock-pressure":
			// the client registry is written at a high rate (as by connecting and disconnecting clients) while Close() reads it
			for i := 0; i < n; i++ {
				c.Clients = append(c.Clients, genClient(t, []string{"est", "sub", "gone-est"}, 3000))
			}
			c.CloseAfter = n
			c.Pressure = rapid.IntRange(2, 8).Draw(t, "pressure")
		case "dial-in-close":
			// new connections arrive while closeListenerClients runs (end flag set, socket still listening)
			for i := 0; i < n; i++ {
				c.Clients = append(c.Clients, genClient(t, []string{"est", "sub", "est", "midpub"}, 3000))
			}
			c.Clients[0].Stage = "est"
			c.CloseAfter = n
			c.WindowDials = rapid.IntRange(1, 4).Draw(t, "window_dials")
			c.HoldUs = rapid.SampledFrom([]int{2000, 8000, 20000}).Draw(t, "hold_us")
			c.OtherListener = rapid.Bool().Draw(t, "other_listener")
		}
		return c
	}
}

// ---- witnesses of the listed findings (run once per run while the finding is open) ---------------------------------

func c36Witnesses() map[string]c36Case {
	est := func(v int) c36Client { return c36Client{Stage: "est", Ver: v} }
	return map[string]c36Case{
		sigHangPre:          {Class: "idle-preconnect", CloseAfter: 3, CloseDelayUs: 20000, Clients: []c36Client{est(5), est(4), {Stage: "dial", Ver: 4}}},
		sigHangEst:          {Class: "late-establish", CloseAfter: 3, Release: "closing", Clients: []c36Client{est(5), est(4), {Stage: "est", Ver: 5, Park: "attach.afterLimitCheck"}}},
		sigLiveHandler:      {Class: "park-start", CloseAfter: 3, Release: "returned", Clients: []c36Client{est(5), est(4), {Stage: "est", Ver: 5, Park: "attach.start"}}},
		sigLateHandler:      {Class: "park-start", CloseAfter: 3, Release: "returned", Clients: []c36Client{est(5), est(4), {Stage: "gone-est", Ver: 5, Park: "attach.start"}}},
		sigNoDisconnectBusy: {Class: "free", CloseAfter: 3, CloseDelayUs: 6000, ImpatientMs: 60, Clients: []c36Client{{Stage: "sub", Ver: 5}, {Stage: "sub", Ver: 5}, {Stage: "pump", Ver: 4, StartUs: 2000, Cut: 100}}},
		sigDeadlock:         {Class: "lock-pressure", CloseAfter: 3, Pressure: 6, Clients: []c36Client{est(5), est(4), {Stage: "gone-est", Ver: 5}}},
		sigOpenUnserved:     {Class: "dial-in-close", CloseAfter: 2, WindowDials: 2, HoldUs: 20000, Clients: []c36Client{est(5), est(4)}},
	}
}

func TestC36(t *testing.T) {
	r := evid.New("C36", "one real broker per case (mqtt.New, allow-all auth, listeners.TCP on a loopback address of its own - in a fifth of the free-running cases and one fixed case a listeners.Net around a caller-supplied net.Listener whose Close() reports an error -, Serve) with 4-40 loopback TCP clients driven to generated stages "+
		"(dialled only, CONNECT half sent, established v3.1.1/v5, subscribed, PUBLISH half sent, publishing back to back, already gone) and Server.Close() called after a generated number of them "+
		"reached their stage, so the rest are dialling / connecting while Close() runs; directed classes hold a handler at the verif points attach.start (before ClientsWg.Add) or "+
		"attach.afterLimitCheck (before Clients.Add) while Close() runs, dial from inside closeListenerClients (the listener being closed, or a second listener of the same broker that is still open), or write the client registry (Clients.Add/Delete) at a high rate while Close() reads it. Oracle once Close() has returned: every client socket reads EOF/reset within 2 s "+
		"(GC off, so finalizers cannot close anything), v5 clients whose CONNACK arrived before the call saw DISCONNECT 0x8B, a new dial is refused, and no handler (attach.start seen, attach.end not yet) "+
		"was alive at the moment of return or started later. Close() not returning is a violation only with two identical goroutine dumps showing Close in WaitGroup.Wait and every handler in a network read "+
		"on an open, silent harness connection, or the read-lock cycle Close -> Clients.GetByListener -> Clients.Len behind a waiting Clients.Add/Delete; otherwise inconclusive after 15 s. RULE: a case is non-trivial when at least one accepted connection was open when Close() was called; the key is class + the multiset of "+
		"(stage, version, parked point, settled-before-Close) + close point.")
	defer r.Finish(t)
	r.Assume("schedules are explored statistically (free-running class) and by directed placement (verif schedule points, an OnPacketEncode hook inside closeListenerClients); a replay re-executes the saved case in real time, the free-running class may then take a different interleaving")
	r.Assume("the garbage collector is switched off during a case: a descriptor closed by a finalizer does not count as closed by Close()")
	r.Assume("all harness clients use keepalive 0, so no deadline can end a blocked handler")
	if evid.ReplayMode() {
		evid.Run(t, r, c36Gen(r), c36Check)
		return
	}
	ws := c36Witnesses()
	for _, sig := range []string{sigHangPre, sigHangEst, sigLiveHandler, sigLateHandler, sigOpenUnserved} {
		if r.IsKnown(sig) {
			r.Eval()
			evid.Witness(t, r, ws[sig], c36Check)
		}
	}
	// these two depend on an interleaving inside the broker (the subscriber's write queue non-empty at the moment of
	// Close(); a registry writer arriving between two read locks): most runs of the witness show them, not all
	for _, sig := range []string{sigNoDisconnectBusy, sigDeadlock} {
		if !r.IsKnown(sig) {
			continue
		}
		for i := 0; i < 8; i++ {
			r.Eval()
			ds := c36Check(ws[sig], r)
			if un := r.Explain(ds); len(un) > 0 {
				r.Fail(ws[sig], un)
				t.Errorf("C36 witness: [%s] %s", un[0].Sig, un[0].Msg)
			}
			if len(ds) > 0 {
				break
			}
		}
	}
	{ // fixed: settled clients on a wrapped listener whose Close() reports an error
		fc := c36Case{Class: "free", CloseAfter: 3, FailClose: true, Clients: []c36Client{{Stage: "est", Ver: 5}, {Stage: "est", Ver: 4}, {Stage: "sub", Ver: 5}}}
		r.Eval()
		r.Label("fixed/listener-close-reports-an-error")
		if un := r.Explain(c36Check(fc, r)); len(un) > 0 {
			r.Fail(fc, un)
			t.Errorf("C36 fixed case: [%s] %s", un[0].Sig, un[0].Msg)
		}
	}
	if t.Failed() { // a witness produced something that is not listed: that is the result of this run
		return
	}
	evid.Run(t, r, c36Gen(r), c36Check)
}
