package sim

import (
	"bytes"
	"fmt"
	"io"
	"log/slog"
	"runtime"
	"sync"
	"sync/atomic"
	"time"

	mqtt "github.com/mochi-mqtt/server/v2"
	"github.com/mochi-mqtt/server/v2/packets"
)

// Broker wraps one real mqtt.Server that is never Serve()d: connections are handed to EstablishConnection
// directly and housekeeping is driven explicitly, so nothing happens that the harness did not cause.
type Broker struct {
	S     *mqtt.Server
	Rec   *RecHook
	mu    sync.Mutex
	links []*Link
	// QuiesceBudget bounds how long one step may take before the case is declared inconclusive.
	QuiesceBudget time.Duration
	nextConn      int
	logBuf        *bytes.Buffer
	// FreeTeardown disables the default schedule policy. By default every handler is parked when its read loop
	// ends ("attach.afterRead") and released only once everything else is quiescent, so that the teardown of an old
	// connection never overlaps the handler of the connection taking it over: the order the broker's code intends.
	// The overlapping interleavings are explored on purpose by the schedule-directed checks (C13, C14, C16).
	FreeTeardown bool
	// WriteDelay is applied to every connection opened afterwards (see Conn.writeDelay)
	WriteDelay time.Duration
}

// Link is one connection plus the goroutine in which its handler (EstablishConnection) runs.
type Link struct {
	B      *Broker
	Conn   *Conn
	Name   string
	client atomic.Pointer[mqtt.Client]
	done   chan struct{}
	Err    error // what EstablishConnection returned

	mu           sync.Mutex
	parkReq      map[string]bool // points at which this handler must park
	parkedAt     string          // non-empty while parked
	release      map[string]chan struct{}
	visited      []string // schedule points passed, in order
	autoTeardown bool     // parked at TeardownPoint by the default policy (released automatically by Quiesce)

	parsed int // offset into Conn.out up to which output has been consumed by Take()
}

var schedOnce sync.Once

func installSched() {
	schedOnce.Do(func() {
		mqtt.VerifSetSched(func(point string, cl *mqtt.Client) {
			if cl == nil || cl.Net.Conn == nil {
				return
			}
			c, ok := cl.Net.Conn.(*Conn)
			if !ok || c.link == nil {
				return
			}
			c.link.onPoint(point, cl)
		})
	})
}

// NewBroker builds a server with the given options (nil = defaults). No hooks are added except the passive
// recording hook (which never answers authentication or ACL questions); callers add auth hooks themselves.
func NewBroker(opts *mqtt.Options) *Broker {
	installSched()
	if opts == nil {
		opts = &mqtt.Options{}
	}
	lb := &bytes.Buffer{}
	if opts.Logger == nil {
		opts.Logger = slog.New(slog.NewTextHandler(io.Discard, &slog.HandlerOptions{Level: slog.LevelError + 4}))
	}
	b := &Broker{S: mqtt.New(opts), QuiesceBudget: 20 * time.Second, logBuf: lb}
	b.Rec = &RecHook{}
	if err := b.S.AddHook(b.Rec, nil); err != nil {
		panic(err)
	}
	return b
}

// Open creates a connection and starts its handler.
func (b *Broker) Open(name string) *Link {
	b.mu.Lock()
	b.nextConn++
	c := newConn(b.nextConn)
	c.writeDelay = b.WriteDelay
	l := &Link{B: b, Conn: c, Name: name, done: make(chan struct{}), parkReq: map[string]bool{}, release: map[string]chan struct{}{}}
	if !b.FreeTeardown {
		l.parkReq[TeardownPoint] = true
		l.autoTeardown = true
	}
	c.link = l
	b.links = append(b.links, l)
	b.mu.Unlock()
	go func() {
		defer close(l.done)
		l.Err = b.S.EstablishConnection("sim", c)
	}()
	return l
}

// TeardownPoint is the schedule point at which a handler's teardown begins.
const TeardownPoint = "attach.afterRead"

// OpenParked is Open with park requests installed before the handler starts.
func (b *Broker) OpenParked(name string, points ...string) *Link {
	b.mu.Lock()
	b.nextConn++
	c := newConn(b.nextConn)
	c.writeDelay = b.WriteDelay
	l := &Link{B: b, Conn: c, Name: name, done: make(chan struct{}), parkReq: map[string]bool{}, release: map[string]chan struct{}{}}
	for _, p := range points {
		l.parkReq[p] = true
	}
	if !b.FreeTeardown && !l.parkReq[TeardownPoint] {
		l.parkReq[TeardownPoint] = true
		l.autoTeardown = true
	}
	c.link = l
	b.links = append(b.links, l)
	b.mu.Unlock()
	go func() {
		defer close(l.done)
		l.Err = b.S.EstablishConnection("sim", c)
	}()
	return l
}

func (l *Link) onPoint(point string, cl *mqtt.Client) {
	if point == "attach.start" {
		l.client.Store(cl)
	}
	l.mu.Lock()
	l.visited = append(l.visited, point)
	if !l.parkReq[point] {
		l.mu.Unlock()
		return
	}
	delete(l.parkReq, point)
	ch := make(chan struct{})
	l.release[point] = ch
	l.parkedAt = point
	l.mu.Unlock()
	<-ch
}

// ParkAt asks the handler to stop at the named schedule point the next time it gets there.
func (l *Link) ParkAt(point string) { l.mu.Lock(); l.parkReq[point] = true; l.mu.Unlock() }

// Unpark cancels a park request that has not been reached.
func (l *Link) Unpark(point string) { l.mu.Lock(); delete(l.parkReq, point); l.mu.Unlock() }

// ParkedAt returns the point at which the handler is currently parked ("" if it is not).
func (l *Link) ParkedAt() string { l.mu.Lock(); defer l.mu.Unlock(); return l.parkedAt }

// Release lets a parked handler continue. It returns false if the handler is not parked at that point.
func (l *Link) Release(point string) bool {
	l.mu.Lock()
	ch, ok := l.release[point]
	if ok {
		delete(l.release, point)
		if l.parkedAt == point {
			l.parkedAt = "" // from this moment the handler counts as running, not as parked (it may not have woken up yet)
		}
	}
	l.mu.Unlock()
	if ok {
		close(ch)
	}
	return ok
}

// ReleaseAll releases the handler wherever it is parked and cancels outstanding park requests.
func (l *Link) ReleaseAll() {
	l.mu.Lock()
	for p := range l.parkReq {
		delete(l.parkReq, p)
	}
	chs := l.release
	l.release = map[string]chan struct{}{}
	if len(chs) > 0 {
		l.parkedAt = ""
	}
	l.mu.Unlock()
	for _, ch := range chs {
		close(ch)
	}
}

func (l *Link) Visited() []string {
	l.mu.Lock()
	defer l.mu.Unlock()
	return append([]string{}, l.visited...)
}

// Client is the broker-side client object of this connection (nil until the handler has started).
func (l *Link) Client() *mqtt.Client { return l.client.Load() }

// Done reports whether the handler has returned.
func (l *Link) Done() bool {
	select {
	case <-l.done:
		return true
	default:
		return false
	}
}

// Send delivers bytes to the broker on this connection.
func (l *Link) Send(b []byte) { l.Conn.deliver(b) }

// CloseClean closes the harness's end (the broker reads EOF).
func (l *Link) CloseClean() { l.Conn.closePeer(false) }

// Drop resets the connection (the broker reads an error).
func (l *Link) Drop() { l.Conn.closePeer(true) }

// Closed: the broker closed this connection or its handler is gone.
func (l *Link) Closed() bool { return l.Conn.BrokerClosed() || l.Done() }

// TakeBytes returns the bytes the broker wrote since the last TakeBytes.
func (l *Link) TakeBytes() []byte {
	b := l.Conn.outFrom(l.parsed)
	l.parsed += len(b)
	return b
}

// Unread pushes n bytes back (an incomplete trailing packet).
func (l *Link) Unread(n int) { l.parsed -= n }

// AllBytes returns everything the broker ever wrote on this connection.
func (l *Link) AllBytes() []byte { return l.Conn.outFrom(0) }

func (l *Link) idle() (idle bool, why string) {
	if l.Done() {
		return true, "done"
	}
	if l.ParkedAt() != "" {
		return true, "parked"
	}
	if !l.Conn.idle() {
		return false, "reader busy"
	}
	cl := l.Client()
	if cl == nil {
		return false, "no client yet"
	}
	if !cl.Closed() && cl.VerifOutboundPending() != 0 {
		return false, "outbound pending"
	}
	return true, "idle"
}

// ErrNoQuiescence is returned by Quiesce when the budget is exhausted; Dump holds a goroutine dump.
type ErrNoQuiescence struct {
	Why  string
	Dump string
}

func (e *ErrNoQuiescence) Error() string { return "no quiescence within budget: " + e.Why }

// Quiesce waits until every link is idle (handler returned, parked on purpose, or blocked reading with nothing
// queued for its writer), observed twice in a row with no new output in between.
func (b *Broker) Quiesce() error {
	deadline := time.Now().Add(b.QuiesceBudget)
	stable := 0
	lastOut := -1
	var why string
	for spins := 0; ; spins++ {
		b.mu.Lock()
		links := append([]*Link{}, b.links...)
		b.mu.Unlock()
		all := true
		out := 0
		for _, l := range links {
			ok, w := l.idle()
			if !ok {
				all = false
				why = fmt.Sprintf("link %s(#%d): %s", l.Name, l.Conn.id, w)
				break
			}
			out += l.Conn.outLen()
		}
		if all && out == lastOut {
			stable++
			if stable >= 2 {
				// default schedule policy: now that everything else is quiet, let finished connections tear down
				released := false
				for _, l := range links {
					if l.parkedAuto() {
						l.Release(TeardownPoint)
						released = true
					}
				}
				if !released {
					return nil
				}
				stable, lastOut = 0, -1
				continue
			}
		} else {
			stable = 0
		}
		if all {
			lastOut = out
		} else {
			lastOut = -1
		}
		if spins < 200 {
			runtime.Gosched()
		} else {
			time.Sleep(20 * time.Microsecond)
		}
		if spins%512 == 511 && time.Now().After(deadline) {
			buf := make([]byte, 1<<20)
			n := runtime.Stack(buf, true)
			return &ErrNoQuiescence{Why: why, Dump: string(buf[:n])}
		}
	}
}

// Links returns all links ever opened.
func (b *Broker) Links() []*Link {
	b.mu.Lock()
	defer b.mu.Unlock()
	return append([]*Link{}, b.links...)
}

// Shutdown releases every parked handler, drops every connection, and waits for all handlers to return.
// It does not call Server.Close (tests that are about Close do that themselves).
func (b *Broker) Shutdown() {
	for _, l := range b.Links() {
		l.ReleaseAll()
		l.Drop()
	}
	for _, l := range b.Links() {
		select {
		case <-l.done:
		case <-time.After(10 * time.Second):
		}
	}
}

// ---- recording hook ----------------------------------------------------------------------------------

// Event is one hook callback observed by the passive recording hook.
type Event struct {
	Kind   string
	Client string
	Conn   int // sim connection id of the client the event is about (0 if none)
	Packet packets.Packet
	Bytes  []byte
	N      int64
}

// RecHook records the broker's own reports (drops, sends, wills, retains). It never modifies anything and
// never answers authentication or ACL checks.
type RecHook struct {
	mqtt.HookBase
	mu     sync.Mutex
	events []Event
}

func (h *RecHook) ID() string { return "verif-recorder" }

func (h *RecHook) Provides(b byte) bool {
	switch b {
	case mqtt.OnPublishDropped, mqtt.OnPacketSent, mqtt.OnQosDropped, mqtt.OnPacketIDExhausted, mqtt.OnWillSent,
		mqtt.OnRetainMessage, mqtt.OnQosPublish, mqtt.OnQosComplete, mqtt.OnClientExpired, mqtt.OnRetainedExpired, mqtt.OnDisconnect:
		return true
	}
	return false
}

func connID(cl *mqtt.Client) int {
	if cl == nil || cl.Net.Conn == nil {
		return 0
	}
	if c, ok := cl.Net.Conn.(*Conn); ok {
		return c.id
	}
	return 0
}

func (h *RecHook) add(kind string, cl *mqtt.Client, pk packets.Packet, b []byte, n int64) {
	id := ""
	if cl != nil {
		id = cl.ID
	}
	h.mu.Lock()
	h.events = append(h.events, Event{Kind: kind, Client: id, Conn: connID(cl), Packet: pk, Bytes: append([]byte{}, b...), N: n})
	h.mu.Unlock()
}

func (h *RecHook) OnPublishDropped(cl *mqtt.Client, pk packets.Packet) {
	h.add("publish-dropped", cl, pk, nil, 0)
}
func (h *RecHook) OnPacketSent(cl *mqtt.Client, pk packets.Packet, b []byte) {
	h.add("packet-sent", cl, pk, b, 0)
}
func (h *RecHook) OnQosDropped(cl *mqtt.Client, pk packets.Packet) {
	h.add("qos-dropped", cl, pk, nil, 0)
}
func (h *RecHook) OnPacketIDExhausted(cl *mqtt.Client, pk packets.Packet) {
	h.add("pid-exhausted", cl, pk, nil, 0)
}
func (h *RecHook) OnWillSent(cl *mqtt.Client, pk packets.Packet) { h.add("will-sent", cl, pk, nil, 0) }
func (h *RecHook) OnRetainMessage(cl *mqtt.Client, pk packets.Packet, r int64) {
	h.add("retain", cl, pk, nil, r)
}
func (h *RecHook) OnQosPublish(cl *mqtt.Client, pk packets.Packet, sent int64, resends int) {
	h.add("qos-publish", cl, pk, nil, 0)
}
func (h *RecHook) OnQosComplete(cl *mqtt.Client, pk packets.Packet) {
	h.add("qos-complete", cl, pk, nil, 0)
}
func (h *RecHook) OnClientExpired(cl *mqtt.Client) {
	h.add("client-expired", cl, packets.Packet{}, nil, 0)
}
func (h *RecHook) OnRetainedExpired(topic string) {
	h.add("retained-expired", nil, packets.Packet{TopicName: topic}, nil, 0)
}
func (h *RecHook) OnDisconnect(cl *mqtt.Client, err error, expire bool) {
	n := int64(0)
	if expire {
		n = 1
	}
	h.add("disconnect", cl, packets.Packet{}, nil, n)
}

// Events returns a copy of all events recorded so far.
func (h *RecHook) Events() []Event {
	h.mu.Lock()
	defer h.mu.Unlock()
	return append([]Event{}, h.events...)
}

// EventsFrom returns the events recorded at index >= from.
func (h *RecHook) EventsFrom(from int) []Event {
	h.mu.Lock()
	defer h.mu.Unlock()
	if from > len(h.events) {
		from = len(h.events)
	}
	return append([]Event{}, h.events[from:]...)
}

func (h *RecHook) Len() int { h.mu.Lock(); defer h.mu.Unlock(); return len(h.events) }

// Pending returns the bytes the broker wrote that TakeBytes has not consumed yet.
func (l *Link) Pending() []byte { return l.Conn.outFrom(l.parsed) }

// HoldTeardown takes the link's teardown out of the automatic policy: the handler stays parked at TeardownPoint
// until the harness releases it explicitly.
func (l *Link) HoldTeardown() {
	l.mu.Lock()
	l.autoTeardown = false
	l.parkReq[TeardownPoint] = true
	l.mu.Unlock()
}

func (l *Link) parkedAuto() bool {
	l.mu.Lock()
	defer l.mu.Unlock()
	return l.autoTeardown && l.parkedAt == TeardownPoint
}
