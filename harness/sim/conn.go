// Package sim runs the real mochi-mqtt broker against in-memory connections that the harness fully observes:
// every byte the broker writes, whether the broker's reader is blocked waiting for input, and (through the
// verif build-tag hooks) where each connection handler currently is. A "step" is one harness action followed
// by Quiesce(), after which everything the action caused has happened.
package sim

import (
	"io"
	"net"
	"sync"
	"time"
)

// Conn is the broker's side of an in-memory connection. The harness is the peer.
type Conn struct {
	mu   sync.Mutex
	cond *sync.Cond

	inbox            []byte // written by the harness, not yet read by the broker
	out              []byte // everything the broker has written
	peerClosed       bool   // the harness closed its end (broker reads EOF after draining the inbox)
	peerReset        bool   // the harness dropped the connection abruptly (broker reads an error)
	brokerClosed     bool   // the broker called Close
	readerBlocked    bool   // the broker is inside Read with an empty inbox
	reads            int64  // number of Read calls that returned
	writesAfterClose int    // Write calls after the broker closed the connection (diagnostic)

	link *Link
	id   int
	// writeDelay makes every Write by the broker take this long (a slow network), which widens the windows in
	// which the broker's reader and writer goroutines contend for the client's write lock
	writeDelay time.Duration
}

type simAddr string

func (a simAddr) Network() string { return "sim" }
func (a simAddr) String() string  { return string(a) }

func newConn(id int) *Conn {
	c := &Conn{id: id}
	c.cond = sync.NewCond(&c.mu)
	return c
}

func (c *Conn) Read(p []byte) (int, error) {
	c.mu.Lock()
	defer c.mu.Unlock()
	for len(c.inbox) == 0 {
		if c.brokerClosed {
			return 0, net.ErrClosed
		}
		if c.peerReset {
			return 0, io.ErrUnexpectedEOF
		}
		if c.peerClosed {
			return 0, io.EOF
		}
		c.readerBlocked = true
		c.cond.Wait()
		c.readerBlocked = false
	}
	if c.brokerClosed {
		return 0, net.ErrClosed
	}
	n := copy(p, c.inbox)
	c.inbox = c.inbox[n:]
	c.reads++
	return n, nil
}

func (c *Conn) Write(p []byte) (int, error) {
	if c.writeDelay >= 100*time.Microsecond {
		time.Sleep(c.writeDelay)
	} else if c.writeDelay > 0 {
		for t0 := time.Now(); time.Since(t0) < c.writeDelay; { // sleeping is too coarse for a few microseconds
		}
	}
	c.mu.Lock()
	defer c.mu.Unlock()
	if c.brokerClosed {
		c.writesAfterClose++
		return 0, net.ErrClosed
	}
	if c.peerReset {
		return 0, io.ErrClosedPipe
	}
	// a half-closed peer still receives what the broker writes (like TCP after the client's FIN)
	c.out = append(c.out, p...)
	return len(p), nil
}

func (c *Conn) Close() error {
	c.mu.Lock()
	c.brokerClosed = true
	c.cond.Broadcast()
	c.mu.Unlock()
	return nil
}

func (c *Conn) LocalAddr() net.Addr                { return simAddr("broker") }
func (c *Conn) RemoteAddr() net.Addr               { return simAddr("sim-client") }
func (c *Conn) SetDeadline(t time.Time) error      { return nil }
func (c *Conn) SetReadDeadline(t time.Time) error  { return nil }
func (c *Conn) SetWriteDeadline(t time.Time) error { return nil }

// ---- harness side ------------------------------------------------------------------------------------

// deliver hands bytes to the broker.
func (c *Conn) deliver(b []byte) {
	c.mu.Lock()
	c.inbox = append(c.inbox, b...)
	c.cond.Broadcast()
	c.mu.Unlock()
}

func (c *Conn) closePeer(reset bool) {
	c.mu.Lock()
	if reset {
		c.peerReset = true
	} else {
		c.peerClosed = true
	}
	c.cond.Broadcast()
	c.mu.Unlock()
}

// idle: the broker's reader is parked in Read with nothing to read (so every delivered byte has been processed).
func (c *Conn) idle() bool {
	c.mu.Lock()
	defer c.mu.Unlock()
	return c.readerBlocked && len(c.inbox) == 0 && !c.peerClosed && !c.peerReset && !c.brokerClosed
}

func (c *Conn) outLen() int {
	c.mu.Lock()
	defer c.mu.Unlock()
	return len(c.out)
}

func (c *Conn) outFrom(off int) []byte {
	c.mu.Lock()
	defer c.mu.Unlock()
	return append([]byte{}, c.out[off:]...)
}

func (c *Conn) BrokerClosed() bool {
	c.mu.Lock()
	defer c.mu.Unlock()
	return c.brokerClosed
}

// ID is the connection's number within its broker (the value recorded in Event.Conn).
func (c *Conn) ID() int { return c.id }

// OutLen is the number of bytes the broker has written on this connection so far.
func (c *Conn) OutLen() int { return c.outLen() }
