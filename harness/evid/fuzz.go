package evid

import (
	"encoding/json"
	"fmt"
	"hash/fnv"
	"os"
	"path/filepath"
	"sync"
	"testing"
	"time"
)

// Native fuzz targets (go test -fuzz) run their property in worker processes whose output is discarded, so a
// target reports through two files in $VERIF_WORK: the replay file of a failing case (the path is part of the failure
// message, which the coordinator prints for the minimised input) and fuzz-stats.<pid>.json, rewritten now and then
// with the worker's own counters (evaluations, non-trivial cases, labels, known findings reproduced).

type FuzzRec struct {
	*Rec
	once    sync.Once
	id      string
	rule    string
	nt      int64
	flushed time.Time
}

func NewFuzz(id, rule string) *FuzzRec { return &FuzzRec{id: id, rule: rule} }

// R returns the worker's recorder. Hashing of distinct non-trivial cases is bounded: a long campaign must not grow
// the process without limit.
func (f *FuzzRec) R() *Rec {
	f.once.Do(func() { f.Rec = New(f.id, f.rule) })
	return f.Rec
}

// Step evaluates one fuzz input: discrepancies explained by open known findings are counted and skipped (so that the
// search continues behind them); anything else writes a replay file and fails the input.
func FuzzStep[C any](t *testing.T, f *FuzzRec, c C, check func(C, *Rec) []Disc) {
	r := f.R()
	r.Eval()
	ds := check(c, r)
	r.mu.Lock()
	if len(r.distinct) > 2_000_000 { // bounded memory: keep the count, drop the hashes
		f.nt += int64(len(r.distinct))
		r.distinct = map[uint64]struct{}{}
	}
	n := r.evals
	r.mu.Unlock()
	if n == 1 || (n%256 == 0 && time.Since(f.flushed) > 2*time.Second) {
		f.flushed = time.Now()
		f.flush()
	}
	un := r.Explain(ds)
	if len(un) == 0 {
		return
	}
	b, err := json.Marshal(c)
	if err != nil {
		b, _ = json.Marshal(fmt.Sprintf("%+v", c))
	}
	fl := failure{Property: r.ID, Discs: un, Case: b}
	dir := os.Getenv("VERIF_REPLAY_DIR")
	if dir == "" {
		dir = filepath.Join(os.TempDir(), "verif-replays", r.ID)
	}
	_ = os.MkdirAll(dir, 0o755)
	h := fnv.New64a()
	h.Write(b)
	path := filepath.Join(dir, fmt.Sprintf("%s-fuzz-%016x.json", r.ID, h.Sum64()))
	out, _ := json.MarshalIndent(fl, "", " ")
	_ = os.WriteFile(path, out, 0o644)
	f.flush()
	t.Fatalf("[%s] %s\nVIOLATION-REPLAY property=%s replay=%s\n%s", un[0].Sig, un[0].Msg, r.ID, path, un[0].Ctx)
}

func (f *FuzzRec) flush() {
	dir := os.Getenv("VERIF_WORK")
	if dir == "" {
		return
	}
	r := f.Rec
	r.mu.Lock()
	known := map[string]int64{}
	for k, v := range r.knownSeen {
		known[k] = v
	}
	labels := map[string]int64{}
	for k, v := range r.labels {
		labels[k] = v
	}
	out := map[string]any{"pid": os.Getpid(), "evaluations": r.evals, "nontrivial": f.nt + int64(len(r.distinct)), "labels": labels,
		"known": known, "known_what": r.knownWhat, "not_asserted": r.notAsserted}
	b, _ := json.Marshal(out)
	r.mu.Unlock()
	p := filepath.Join(dir, fmt.Sprintf("fuzz-stats.%d.json", os.Getpid()))
	_ = os.WriteFile(p+".tmp", b, 0o644)
	_ = os.Rename(p+".tmp", p)
}
